(* NoPanic.v — C06 "calls on live nodes do not panic": in every good store no call of the node-level API other than clone_node
   reaches one of the model's Panic outcomes, apart from the documented panics of the element-only accessors on a non-element. *)
From Coq Require Import List NArith ZArith Bool Lia Permutation Arith.
From XotV Require Import Model.Base Model.Zipper Model.Access Model.Store Model.Manip Spec.DocOrder Spec.Paths Spec.Shape Spec.NoAdj
                         Proofs.ZipperProofs Proofs.AccessProofs Proofs.StoreProofs Proofs.ForestFacts Proofs.InvProofs Proofs.Canon
                         Proofs.ShapeProofs Proofs.InvSteps Proofs.InvOps Proofs.PathFacts Proofs.Atomic Proofs.Levels Proofs.NoAdjFacts Proofs.NoAdjOps.
Import ListNotations.
Open Scope N_scope.

(* ---------- the insertion calls answer Done or an error ---------- *)

Lemma np_m_append st p c : snd (m_append st p c) <> MPanic.
Proof.
  unfold m_append. destruct (negb _); [discriminate|]. destruct (opt_eqb _ _); [discriminate|].
  destruct (remove_consolidate _ _ _) as [st1 b]. destruct (add_consolidate _ _ _ _) as [st2 m]. destruct m; discriminate.
Qed.

Lemma np_m_prepend st p c : snd (m_prepend st p c) <> MPanic.
Proof.
  unfold m_prepend. destruct (negb _); [discriminate|]. destruct (opt_eqb _ _); [discriminate|].
  destruct (remove_consolidate _ _ _) as [st1 b]. destruct (add_consolidate _ _ _ _) as [st2 m]. destruct m; discriminate.
Qed.

Lemma np_m_insert_after st r n : snd (m_insert_after st r n) <> MPanic.
Proof.
  unfold m_insert_after. destruct (negb _); [discriminate|]. destruct (opt_eqb _ _); [discriminate|].
  destruct (remove_consolidate _ _ _) as [st1 b]. destruct (_ && _); [discriminate|].
  destruct (add_consolidate _ _ _ _) as [st2 m]. destruct m; discriminate.
Qed.

Lemma np_m_insert_before st r n : snd (m_insert_before st r n) <> MPanic.
Proof.
  unfold m_insert_before. destruct (negb _); [discriminate|]. destruct (opt_eqb _ _); [discriminate|].
  destruct (remove_consolidate _ _ _) as [st1 b]. destruct (add_consolidate _ _ _ _) as [st2 m]. destruct m; discriminate.
Qed.

Lemma np_m_any_append st p c : snd (m_any_append st p c) <> MPanic.
Proof.
  unfold m_any_append. destruct (val st c) as [[]|];
    try (pose proof (np_m_append st p c) as X; destruct (m_append st p c) as [s1 o]; destruct o; cbn in *; congruence);
    (destruct (negb _); [discriminate|]); destruct (map_insert_node _ _ _ _); discriminate.
Qed.

Lemma np_m_replace st a b : snd (m_replace st a b) <> MPanic.
Proof.
  unfold m_replace. destruct (is_type st a TDocument); [discriminate|]. destruct (q_parent st a) as [parent|]; [|discriminate].
  destruct (negb _); [discriminate|]. destruct (N.eqb a b); [discriminate|]. destruct (negb _); [discriminate|].
  match goal with |- snd (let '(st2, o) := ?X in _) <> _ => assert (snd X <> MPanic) as HX; [|destruct X as [st2 o]] end.
  { destruct (_ || _); [discriminate|]. destruct (q_prev st a); [apply np_m_insert_after|apply np_m_prepend]. }
  cbn [snd] in HX. destruct o; try congruence; try discriminate.
  destruct (q_prev st a); [|discriminate]. destruct (q_next st a); [|discriminate]. destruct (_ && _); discriminate.
Qed.

Lemma np_m_wrap st n name : snd (m_wrap st n name) <> MPanic.
Proof.
  unfold m_wrap. destruct (is_type st n TDocument); [discriminate|]. destruct (negb _); [discriminate|].
  destruct (q_parent st n) as [parent|].
  - destruct (_ && _); [discriminate|]. destruct (new_node st (VElement name)) as [st1 w].
    pose proof (np_m_append (detach_raw st1 n) w n) as X3. destruct (m_append (detach_raw st1 n) w n) as [st3 o3]. cbn [snd] in X3.
    destruct o3; try congruence; try discriminate.
    match goal with |- snd (let '(st4, o4) := ?X in _) <> _ => assert (snd X <> MPanic) as HX; [|destruct X as [st4 o4]] end.
    { destruct (q_prev st n); [apply np_m_insert_after|apply np_m_prepend]. }
    cbn [snd] in HX. destruct o4; try congruence; discriminate.
  - destruct (new_node st (VElement name)) as [st1 w].
    pose proof (np_m_append st1 w n) as X. destruct (m_append st1 w n) as [st2 o]. cbn [snd] in X. destruct o; try congruence; discriminate.
Qed.

(* ---------- element_unwrap: an element with an ordinary first child has an ordinary last child ---------- *)

Definition head_val (f : forest) : option value := match f with FCons _ v _ _ => Some v | FNil => None end.

Lemma head_val_frev_app b : forall X, head_val (frev_app b X) = if isnilb b then head_val X else head_val (frev b).
Proof.
  induction b as [|i v k _ r IH]; intros X; cbn [frev_app isnilb]; [reflexivity|].
  unfold frev. cbn [frev_app]. rewrite !IH. destruct (isnilb r); reflexivity.
Qed.

Lemma head_val_frev_cons i v k r : head_val (frev (FCons i v k r)) = if isnilb r then Some v else head_val (frev r).
Proof. unfold frev. cbn [frev_app]. rewrite head_val_frev_app. destruct r; reflexivity. Qed.

Lemma last_child_normal f : forall lo, shape CElem lo f = true -> nrm_part f <> FNil ->
  exists v, head_val (frev f) = Some v /\ is_normal v = true.
Proof.
  induction f as [|i v k _ r IH]; intros lo Hs Hn; [cbn in Hn; congruence|].
  rewrite shape_cons in Hs. apply andb_true_iff in Hs as [Hs H3]. rewrite head_val_frev_cons.
  destruct r as [|j w kk rr]; cbn [isnilb].
  - exists v. split; [reflexivity|]. cbn [nrm_part] in Hn. destruct (is_normal v); [reflexivity|cbn in Hn; congruence].
  - apply (IH (next_lo CElem v)); [exact H3|].
    cbn [nrm_part] in Hn |- *. destruct (is_normal v) eqn:Ev.
    + (* after an ordinary node everything is ordinary *)
      rewrite shape_cons in H3. apply andb_true_iff in H3 as [H3 _]. apply andb_true_iff in H3 as [H3 _].
      cbn [node_ok next_lo] in H3. apply andb_true_iff in H3 as [_ H3]. apply Nat.leb_le in H3.
      apply vrank_normal in Ev. assert (vrank w = 2%nat) as Hw by (pose proof (vrank_le2 w); lia). apply vrank_normal in Hw.
      rewrite Hw. discriminate.
    + exact Hn.
Qed.

Lemma np_m_unwrap st n : Good st -> snd (m_unwrap st n) <> MPanic.
Proof.
  intros G. unfold m_unwrap. destruct (is_type st n TElement) eqn:He; cbn [negb]; [|discriminate].
  destruct (q_first_child st n) as [first|] eqn:Ef; [|discriminate].
  destruct (q_last_child st n) as [last|] eqn:El.
  - destruct (_ && _); [discriminate|].
    destruct (remove_consolidate _ _ _) as [st3 m]. destruct m; [destruct (N.eqb first last)|]; discriminate.
  - exfalso. unfold q_first_child, q_last_child in *. destruct (cur st n) as [z|] eqn:Hc; [|discriminate].
    pose proof (shape_find _ _ _ _ _ _ (Good_shape _ G) (find_of_cur _ _ _ Hc)) as Hk.
    assert (exists nm, z_val z = VElement nm) as [nm Hv].
    { unfold is_type, val in He. rewrite Hc in He. destruct (z_val z); try discriminate. eauto. }
    rewrite Hv in Hk. cbn [kids_ok] in Hk.
    assert (nrm_part (z_kids z) <> FNil) as Hn.
    { unfold first_child, normal_children, arena_children in Ef.
      pose proof (first_normal_level (z_kids z) (frame_of z :: z_ups z) FNil) as H.
      destruct (hd_error _) as [c|]; [|discriminate]. cbn in H. intros E. rewrite E in H. discriminate. }
    destruct (last_child_normal _ _ Hk Hn) as (v & Hh & Hvn).
    unfold last_child, down_last in El. destruct (frev (z_kids z)) as [|i w k r]; [discriminate|].
    cbn in Hh. inversion Hh; subst w. unfold znormal in El. cbn [z_val] in El. rewrite Hvn in El. discriminate.
Qed.

(* ---------- text_content_mut: the text node it creates ends up as the first ordinary child ---------- *)

Lemma nrm_nil_last f : nrm_part f = FNil -> forall v, head_val (frev f) = Some v -> is_normal v = false.
Proof.
  induction f as [|i w k _ r IH]; intros Hn v; [cbn; discriminate|].
  cbn [nrm_part] in Hn. destruct (is_normal w) eqn:Ew; [discriminate|].
  rewrite head_val_frev_cons. destruct r as [|j w2 k2 r2]; cbn [isnilb].
  - intros H. inversion H; subst. exact Ew.
  - apply IH. exact Hn.
Qed.

Lemma nrm_part_fapp_nil a X : nrm_part a = FNil -> nrm_part (fapp a X) = nrm_part X.
Proof.
  induction a as [|i v k _ r IH]; intros H; cbn [fapp]; [reflexivity|]. cbn [nrm_part] in *.
  destruct (is_normal v); [discriminate|]. apply IH. exact H.
Qed.

Lemma no_first_no_last st n z : cur st n = Some z -> q_first_child st n = None ->
  nrm_part (z_kids z) = FNil /\ q_last_child st n = None.
Proof.
  intros Hc Ef. unfold q_first_child, q_last_child in *. rewrite Hc in *.
  assert (nrm_part (z_kids z) = FNil) as Hn.
  { unfold first_child, normal_children, arena_children in Ef.
    pose proof (first_normal_level (z_kids z) (frame_of z :: z_ups z) FNil) as H.
    destruct (hd_error _) as [c|]; [discriminate|]. cbn in H. destruct (nrm_part (z_kids z)); [reflexivity|discriminate]. }
  split; [exact Hn|]. unfold last_child, down_last. destruct (frev (z_kids z)) as [|i v k r] eqn:E; [reflexivity|].
  unfold znormal. cbn [z_val]. rewrite (nrm_nil_last _ Hn v); [reflexivity|]. rewrite E. reflexivity.
Qed.

Lemma cur_under_new_root st t v n : t <> n -> cur {| store := FCons t v FNil (store st); stamps := stamps st; free := free st; cons := cons st |} n = cur st n.
Proof. intros H. unfold cur. cbn [store locate locate_in]. apply N.eqb_neq in H. rewrite H. reflexivity. Qed.

Lemma np_tcm st n s : Good st -> snd (m_text_content_mut st n s) <> MPanic.
Proof.
  intros G. unfold m_text_content_mut.
  destruct (q_first_child st n) as [c|] eqn:Ef.
  { destruct (q_next st c); [discriminate|]. destruct (is_type st c TText); discriminate. }
  destruct (is_type st n TElement) eqn:He; [|discriminate].
  destruct (new_node st (VText [])) as [st1 t] eqn:Hn.
  destruct (Ext_new_node _ _ _ _ G Hn) as (X1 & Hni & Hst & Hcons1). pose proof (ext_good _ _ X1) as G1.
  destruct (val_new_node st (VText []) st1 t n G Hn) as [Hvt Hvn]. destruct (path_new_node st (VText []) st1 t n G Hn) as [Hpt _].
  apply is_type_val in He as (vn & Hvnn & Hte).
  assert (n <> t) as Hnt by (intros ->; apply Hni; eapply val_in_ids; exact Hvnn).
  destruct (cur st n) as [z|] eqn:Hc; [|unfold val in Hvnn; rewrite Hc in Hvnn; discriminate].
  assert (z_val z = vn) as Hzv by (unfold val in Hvnn; rewrite Hc in Hvnn; inversion Hvnn; reflexivity).
  assert (cur st1 n = Some z) as Hc1.
  { unfold cur. rewrite Hst. cbn [locate locate_in]. assert (t <> n) as H by congruence. apply N.eqb_neq in H. rewrite H. exact Hc. }
  destruct (no_first_no_last st n z Hc Ef) as [Hnrm _].
  assert (q_first_child st1 n = None) as Ef1 by (unfold q_first_child in *; rewrite Hc1; rewrite Hc in Ef; exact Ef).
  destruct (no_first_no_last st1 n z Hc1 Ef1) as [_ Hl1].
  (* the append is a plain move *)
  assert (structure_check st1 (Some n) t = true) as Hsc.
  { unfold structure_check.
    assert (mem t (q_ancestors st1 n) = false) as ->.
    { destruct (mem t (q_ancestors st1 n)) eqn:Em; [|reflexivity]. exfalso. apply mem_true in Em.
      destruct (q_ancestors_path _ _ _ Hc1) as (l & Hl & Hq). rewrite Hq in Em. destruct Em as [Em|Em]; [congruence|].
      apply Hni. pose proof (path_in_incl _ _ _ Hl t Em) as Hin. rewrite Hst in Hin. cbn in Hin. destruct Hin as [Hin|Hin]; [|exact Hin].
      exfalso. (* t is its own root: it is on nobody's path *)
      rewrite Hst in Hl. cbn [path_in] in Hl. assert (t <> n) as H by congruence. apply N.eqb_neq in H. rewrite H in Hl. cbn in Hl.
      apply path_in_incl in Hl. apply Hni. apply Hl. exact Em. }
    cbn [negb andb]. rewrite (is_type_of_val _ _ _ TElement (eq_trans (Hvn Hnt) Hvnn)), (is_type_of_val _ _ _ TDocument Hvt), (is_normal_of_val _ _ _ Hvt).
    destruct vn; try discriminate. reflexivity. }
  destruct (root_queries st1 t G1 Hpt) as (Hq1 & Hq2 & _ & _).
  assert (m_append st1 n t = (move st1 t (fun tt f => fmap_kids n (fun k => fapp k tt) f), MDone None)) as Happ.
  { unfold m_append. rewrite Hsc. cbn [negb].
    assert (opt_eqb (q_raw_last_child st1 n) (Some t) = false) as ->.
    { unfold q_raw_last_child. rewrite Hc1. unfold down_last. destruct (frev (z_kids z)) as [|i v k r] eqn:E; [reflexivity|].
      cbn. apply N.eqb_neq. intros ->. apply Hni.
      assert (In t (ids (z_kids z))) as Hin.
      { eapply Permutation_in; [apply ids_frev|]. rewrite E. left. reflexivity. }
      eapply find_incl; [apply (find_of_cur _ _ _ Hc)|right; exact Hin]. }
    rewrite Hq1, Hq2, (proj1 (rc_none st1 None)), !Hl1. cbn [opt_eqb]. cbv zeta.
    assert (add_consolidate st1 t None None = (st1, false)) as ->.
    { unfold add_consolidate. destruct (negb (cons st1)); [reflexivity|]. rewrite Hvt. reflexivity. }
    reflexivity. }
  rewrite Happ.
  set (st2 := move st1 t (fun tt f => fmap_kids n (fun k => fapp k tt) f)).
  assert (Good st2) as G2.
  { pose proof (Ext_m_append st1 n t G1) as X. rewrite Happ in X. apply X. }
  assert (store st2 = fmap_kids n (fun k => fapp k (FCons t (VText []) FNil FNil)) (store st)) as Hs2.
  { unfold st2, move. rewrite Hst. cbn [fcut]. rewrite N.eqb_refl. reflexivity. }
  (* the cursor of n afterwards *)
  destruct (zview _ _ _ Hc) as [Htc (A & B & E)]. pose proof (cur_slot _ _ _ Hc) as Hs. pose proof (Good_nodup _ G) as Hnd.
  set (zn' := mkz n (z_val z) (fapp (z_kids z) (FCons t (VText []) FNil FNil)) (z_before z) (z_after z) (z_ups z)).
  assert (store st2 = fapp A (fapp (plug zn') B) /\ top_clean zn') as [E2 Htc2].
  { rewrite Hs2, fmap_kids_fact. destruct (z_ups z) as [|fr ups] eqn:Eu.
    - rewrite (plug_root z Htc Eu) in E. cbn [fapp] in E. rewrite Hs in E.
      rewrite (fact_root _ _ _ _ _ _ _ Hnd E). unfold a_kids. destruct (top_clean_root z Htc Eu) as [Hb Ha].
      split; [|unfold top_clean, zn', mkz; cbn; rewrite ?Eu, ?Hb, ?Ha; reflexivity].
      unfold plug, z_level, zn', mkz. cbn. rewrite ?Eu, ?Hb, ?Ha. reflexivity.
    - assert (z_ups z <> []) as Hne by (rewrite Eu; discriminate).
      pose proof (fact_inner (a_kids (fun k => fapp k (FCons t (VText []) FNil FNil))) _ z A B Hnd Htc Hne E) as F. rewrite Hs in F. rewrite F. unfold a_kids.
      split; [unfold plug, z_level, zn', mkz; cbn; rewrite ?Eu; reflexivity|].
      unfold top_clean in *. unfold zn', mkz. cbn. rewrite ?Eu in *. exact Htc. }
  pose proof (cur_of_view st2 zn' A B (Good_WF _ G2) Htc2 E2) as Hc2. cbn [z_slot zn' mkz] in Hc2.
  assert (q_first_child st2 n <> None) as Hf2.
  { unfold q_first_child. rewrite Hc2. unfold first_child, normal_children, arena_children.
    pose proof (first_normal_level (z_kids zn') (frame_of zn' :: z_ups zn') FNil) as H.
    cbn [z_kids zn' mkz] in H. rewrite (nrm_part_fapp_nil _ _ Hnrm) in H. cbn in H.
    destruct (hd_error _) as [c|]; [discriminate|discriminate]. }
  destruct (q_first_child st2 n) as [c|]; [|congruence]. destruct (is_type st2 c TText); discriminate.
Qed.

(* ---------- the step theorem ---------- *)

Definition element_only (o : mop) : option N :=
  match o with
  | OSetName n _ | OSetAttr n _ _ | ORmAttr n _ | OSetNs n _ _ | ORmNs n _ | OAttrsClear n | ONsClear n
  | OAttrsGetMutSet n _ _ | OAttrsEntryOrInsert n _ _ | OAttrsEntryModify n _ _ | OAttrsEntryRemove n _
  | ONsGetMutSet n _ _ | ONsEntryOrInsert n _ _ => Some n
  | _ => None
  end.

Theorem no_panic_partial st o : Good st -> snd (mstep st o) = MPanic ->
  (exists n, o = OCloneNode n) \/ (exists e, element_only o = Some e /\ is_type st e TElement = false).
Proof.
  intros G H. destruct o; cbn [mstep] in H;
    try (unfold created in H; match type of H with context [new_node ?s ?v] => destruct (new_node s v) end; discriminate H);
    try (unfold on_element in H; match type of H with context [is_type st ?e TElement] => destruct (is_type st e TElement) eqn:E end;
         [discriminate H|right; eexists; split; [reflexivity|exact E]]).
  - exfalso. exact (np_m_append _ _ _ H).
  - exfalso. exact (np_m_prepend _ _ _ H).
  - exfalso. exact (np_m_insert_after _ _ _ H).
  - exfalso. exact (np_m_insert_before _ _ _ H).
  - exfalso. exact (np_m_any_append _ _ _ H).
  - destruct (negb _); [discriminate|]. destruct (negb _); [discriminate|]. destruct (map_insert_node _ _ _ _); discriminate.
  - destruct (negb _); [discriminate|]. destruct (negb _); [discriminate|]. destruct (map_insert_node _ _ _ _); discriminate.
  - discriminate.
  - discriminate.
  - exfalso. exact (np_m_replace _ _ _ H).
  - exfalso. exact (np_m_wrap _ _ _ H).
  - exfalso. exact (np_m_unwrap _ _ G H).
  - left. eauto.
  - discriminate.
  - destruct (is_type st n TComment); [|discriminate]. destruct (has_double_dash s); discriminate.
  - discriminate.
  - discriminate.
  - discriminate.
  - exfalso. exact (np_tcm _ _ _ G H).
  - discriminate.
  - destruct (negb _); [discriminate|]. destruct (new_node st VDocument) as [st1 d].
    pose proof (np_m_append st1 d e) as X. destruct (m_append st1 d e) as [st2 o]. cbn [snd] in X. destruct o; cbn in H; congruence.
Qed.
