(* XmlSerProofs.v — the token streams reproduce the written serialisation, and the output events are exactly the
   per-node events of the ordinary nodes of the subtree in document order. *)
From Coq Require Import List NArith Bool Lia.
From XotV Require Import Model.Base Model.Zipper Model.Access Model.Fullname Model.Scope Model.Entity Model.XmlSer.
Import ListNotations.
Open Scope N_scope.

Section P.
  Variable nm : names.

  (* ---------- tokens vs written string ---------- *)

  Lemma serialize_go_tokens prm evs : forall st buf,
    serialize_go nm prm st evs buf
    = match render_all nm prm st evs with
      | inl e => inl e
      | inr l => inr (buf ++ concat (map (fun x => token_text (snd x)) l))
      end.
  Proof.
    induction evs as [|[z o] evs IH]; intros st buf; cbn [serialize_go render_all].
    - cbn. rewrite app_nil_r. reflexivity.
    - destruct (render nm prm st z o) as [e|[st' t]]; [reflexivity|].
      rewrite IH. destruct (render_all nm prm st' evs) as [e|l]; [reflexivity|].
      cbn [map concat snd]. unfold token_text. rewrite <- !app_assoc. reflexivity.
  Qed.

  (* concatenating the token texts (each preceded by one space when so flagged) gives the written serialisation;
     both fail for the same trees with the same error *)
  Theorem tokens_reproduce_serialisation prm z : serialize_write nm prm z = serialize nm prm z.
  Proof.
    unfold serialize_write, serialize, tokens. rewrite serialize_go_tokens.
    destruct (render_all nm prm (ser_new nm z) (gen_outputs nm z)); reflexivity.
  Qed.

  Section Pretty.
    Variables (is_suppressed is_inline : nameid -> bool).

    Lemma serialize_pretty_go_tokens prm evs : forall st ps buf,
      serialize_pretty_go nm is_suppressed is_inline prm st ps evs buf
      = match pretty_all nm is_suppressed is_inline prm st ps evs with
        | inl e => inl e
        | inr l => inr (buf ++ concat (map (fun x => ptoken_text (snd x)) l))
        end.
    Proof.
      induction evs as [|[z o] evs IH]; intros st ps buf; cbn [serialize_pretty_go pretty_all].
      - cbn. rewrite app_nil_r. reflexivity.
      - destruct (prettify nm is_suppressed is_inline ps z o) as [[ps' ind] nl].
        destruct (render nm prm st z o) as [e|[st' t]]; [reflexivity|].
        rewrite IH. destruct (pretty_all nm is_suppressed is_inline prm st' ps' evs) as [e|l]; [reflexivity|].
        cbn [map concat snd]. unfold ptoken_text; cbn. rewrite <- !app_assoc. reflexivity.
    Qed.

    Theorem pretty_tokens_reproduce_serialisation prm z :
      serialize_pretty_write nm is_suppressed is_inline prm z = serialize_pretty nm is_suppressed is_inline prm z.
    Proof.
      unfold serialize_pretty_write, serialize_pretty, pretty_tokens. rewrite serialize_pretty_go_tokens.
      destruct (pretty_all nm is_suppressed is_inline prm (ser_new nm z) [] (gen_outputs nm z)); reflexivity.
    Qed.

    (* the pretty tokens carry the same text and space flags as the plain tokens: indentation and newline are added, nothing else *)
    Lemma pretty_all_same_tokens prm evs : forall st ps,
      match pretty_all nm is_suppressed is_inline prm st ps evs, render_all nm prm st evs with
      | inr lp, inr l => map (fun x => (fst x, (pt_space (snd x), pt_text (snd x)))) lp
                         = map (fun x => (fst x, (t_space (snd x), t_text (snd x)))) l
      | inl e, inl e' => e = e'
      | _, _ => False
      end.
    Proof.
      induction evs as [|[z o] evs IH]; intros st ps; cbn [pretty_all render_all]; [reflexivity|].
      destruct (prettify nm is_suppressed is_inline ps z o) as [[ps' ind] nl].
      destruct (render nm prm st z o) as [e|[st' t]]; [reflexivity|].
      specialize (IH st' ps').
      destruct (pretty_all nm is_suppressed is_inline prm st' ps' evs) as [e|lp], (render_all nm prm st' evs) as [e'|l]; try exact IH.
      cbn. rewrite IH. reflexivity.
    Qed.
  End Pretty.

  (* ---------- output events ---------- *)

  (* the events of the ordinary nodes of a sibling list, by structural recursion: for each node in document order
     its start events, the events of its children, its end events *)
  Fixpoint events_forest (top : N) (ups : list frame) (before : forest) (f : forest) : list (zipper * output) :=
    match f with
    | FNil => []
    | FCons i v k r =>
        let z := mkz i v k before r ups in
        (if is_normal v then
           map (fun o => (z, o)) (edge_start_outputs nm top z)
           ++ events_forest top ({| fr_slot := i; fr_val := v; fr_before := before; fr_after := r |} :: ups) FNil k
           ++ map (fun o => (z, o)) (edge_end_outputs z)
         else events_forest top ({| fr_slot := i; fr_val := v; fr_before := before; fr_after := r |} :: ups) FNil k)
        ++ events_forest top ups (FCons i v k before) r
    end.

  Definition edge_events (top : N) (e : edge) : list (zipper * output) :=
    match e with
    | EStart c => map (fun o => (c, o)) (edge_start_outputs nm top c)
    | EEnd c => map (fun o => (c, o)) (edge_end_outputs c)
    end.

  Lemma events_forest_spec top f : forall ups before,
    flat_map (edge_events top) (filter edge_normal (edges_forest ups before f)) = events_forest top ups before f.
  Proof.
    induction f as [|i v k IHk r IHr]; intros ups before; cbn [edges_forest events_forest]; [reflexivity|].
    cbn [filter]. unfold edge_normal at 1. cbn [edge_node]. unfold znormal at 1. cbn [z_val mkz].
    destruct (is_normal v) eqn:En.
    - cbn [flat_map edge_events]. rewrite filter_app, flat_map_app. cbn [filter].
      unfold edge_normal at 2. cbn [edge_node]. unfold znormal at 1. cbn [z_val mkz]. rewrite En.
      cbn [flat_map edge_events]. rewrite IHk, IHr. rewrite <- !app_assoc. reflexivity.
    - rewrite filter_app, flat_map_app. cbn [filter].
      unfold edge_normal at 2. cbn [edge_node]. unfold znormal at 1. cbn [z_val mkz]. rewrite En.
      rewrite IHk, IHr. reflexivity.
  Qed.

  (* gen_outputs of an ordinary node: its own events around the events of its subtree *)
  Theorem gen_outputs_spec z :
    is_normal (z_val z) = true ->
    gen_outputs nm z
    = map (fun o => (z, o)) (edge_start_outputs nm (z_slot z) z)
      ++ events_forest (z_slot z) (frame_of z :: z_ups z) FNil (z_kids z)
      ++ map (fun o => (z, o)) (edge_end_outputs z).
  Proof.
    intros Hn. unfold gen_outputs, traverse, arena_traverse.
    assert (forall e, (match e with
                       | EStart c => map (fun o => (c, o)) (edge_start_outputs nm (z_slot z) c)
                       | EEnd c => map (fun o => (c, o)) (edge_end_outputs c)
                       end) = edge_events (z_slot z) e) as Hee by (intros []; reflexivity).
    rewrite (flat_map_ext _ _ Hee).
    cbn [filter]. unfold edge_normal at 1. cbn [edge_node]. unfold znormal at 1. rewrite Hn.
    cbn [flat_map edge_events]. rewrite filter_app, flat_map_app. cbn [filter].
    unfold edge_normal at 2. cbn [edge_node]. unfold znormal at 1. rewrite Hn. cbn [flat_map edge_events].
    rewrite events_forest_spec, app_nil_r. reflexivity.
  Qed.

  Lemma Forall_opt_map {A B} (f : A -> option B) (P : B -> Prop) l :
    (forall x y, f x = Some y -> P y) -> Forall P (opt_map f l).
  Proof.
    intros H. induction l as [|a l IH]; cbn; [constructor|].
    destruct (f a) eqn:E; [constructor; [eapply H; eauto|exact IH]|exact IH].
  Qed.

  (* the events of an element: start-tag-open, declarations, attributes, start-tag-close; then its end tag *)
  Theorem element_events_shape top z name :
    z_val z = VElement name ->
    exists extra,
      edge_start_outputs nm top z
      = OStartTagOpen name :: extra ++ map (fun d => OPrefix (fst d) (snd d)) (declarations z)
        ++ map (fun a => OAttribute (fst a) (snd a)) (attr_pairs z) ++ [OStartTagClose]
      /\ (z_slot z <> top -> extra = [])
      /\ Forall (fun o => match o with OPrefix _ _ => True | _ => False end) extra
      /\ edge_end_outputs z = [OEndTag name].
  Proof.
    intros Hv. unfold edge_start_outputs, edge_end_outputs. rewrite Hv. eexists. split; [reflexivity|].
    split; [|split; [|reflexivity]].
    - intros Hne. destruct (N.eqb_spec (z_slot z) top); [contradiction|reflexivity].
    - destruct (N.eqb (z_slot z) top); [|constructor].
      apply Forall_opt_map. intros d y.
      destruct (N.eqb (n_ns_of_name nm name) (n_no_ns nm) && N.eqb (fst d) (n_empty_prefix nm)); [discriminate|].
      destruct (has_prefix (fst d) (declarations z)); [discriminate|]. intros H; inversion H; exact I.
  Qed.
  (* a declaration is written as xmlns="uri" or xmlns:p="uri" with the URI escaped as an attribute value, or not at all; the
     serialiser state does not change; and a prefix bound to "no namespace" -- which XML cannot spell: xmlns:p="" is not
     well-formed, and the parser refuses it -- is never written *)
  Theorem prefix_token_spec prm st z p ns st' t :
    render nm prm st z (OPrefix p ns) = inr (st', t) ->
    st' = st
    /\ (token_text t = []
        \/ (p = n_empty_prefix nm /\ token_text t = [32] ++ s_xmlns ++ [61; 34] ++ serialize_attribute (n_ns_str nm ns) ++ [34])
        \/ (p <> n_empty_prefix nm /\ ns <> n_no_ns nm
            /\ token_text t = [32] ++ s_xmlns ++ [58] ++ n_prefix_str nm p ++ [61; 34] ++ serialize_attribute (n_ns_str nm ns) ++ [34])).
  Proof.
    cbn [render]. intros H.
    destruct (N.eqb p (n_xml_prefix nm) && N.eqb ns (n_xml_ns nm) && negb (existsb (fun d => N.eqb (fst d) p) (declarations z))).
    { inversion H; subst. split; [reflexivity|left; reflexivity]. }
    destruct (N.eqb_spec p (n_empty_prefix nm)) as [Hp|Hp]; cbn [negb andb] in H.
    { inversion H; subst. split; [reflexivity|right; left; split; reflexivity]. }
    destruct (N.eqb_spec ns (n_no_ns nm)) as [Hn|Hn].
    { inversion H; subst. split; [reflexivity|left; reflexivity]. }
    inversion H; subst. split; [reflexivity|right; right; repeat split; assumption].
  Qed.
End P.
