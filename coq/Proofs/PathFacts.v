(* PathFacts.v — the ancestors of a node and its value are untouched by surgery that happens elsewhere (frame facts on
   paths), and what a fresh root looks like.  Used for the atomicity of the nested operations (C06). *)
From Coq Require Import List NArith ZArith Bool Lia Permutation Arith.
From XotV Require Import Model.Base Model.Zipper Model.Access Model.Store Model.Manip Spec.DocOrder Spec.Paths Spec.Shape
                         Proofs.StoreProofs Proofs.ForestFacts Proofs.ShapeProofs Proofs.KeysProofs Proofs.InvProofs
                         Proofs.Canon Proofs.InvSteps Proofs.InvOps.
Import ListNotations.
Open Scope N_scope.

Lemma path_in_fapp x a b : path_in x (fapp a b) = match path_in x a with Some l => Some l | None => path_in x b end.
Proof.
  induction a as [|i v k _ r IH]; cbn [fapp path_in]; [reflexivity|].
  destruct (N.eqb i x); [reflexivity|]. destruct (path_in x k); [reflexivity|exact IH].
Qed.

Lemma path_in_incl n f : forall l, path_in n f = Some l -> incl l (ids f).
Proof.
  induction f as [|i v k IHk r IHr]; intros l; cbn [path_in]; [discriminate|].
  destruct (N.eqb i n); [intros H; inversion H; intros x []|].
  destruct (path_in n k) as [l1|] eqn:Ek.
  - intros H. inversion H; subst. intros x Hx. apply in_app_or in Hx as [Hx|[Hx|[]]].
    + cbn. right. apply in_or_app. left. eapply IHk; eauto.
    + subst. cbn. left. reflexivity.
  - intros H x Hx. cbn. right. apply in_or_app. right. eapply IHr; eauto.
Qed.

(* a node is not among its own ancestors *)
Lemma path_in_not_self n f : forall l, NoDup (ids f) -> path_in n f = Some l -> ~ In n l.
Proof.
  induction f as [|i v k IHk r IHr]; intros l Hnd; cbn [path_in]; [discriminate|].
  cbn in Hnd. apply NoDup_cons_app_inv in Hnd as (Hik & Hir & Hk & Hr & Hkr).
  destruct (N.eqb_spec i n) as [->|Hne]; [intros H; inversion H; intros []|].
  destruct (path_in n k) as [l1|] eqn:Ek.
  - intros H. inversion H; subst. intros Hx. apply in_app_or in Hx as [Hx|[Hx|[]]]; [eapply IHk; eauto|congruence].
  - intros H. eapply IHr; eauto.
Qed.

(* cutting a subtree elsewhere leaves the path alone *)
Lemma path_in_fcut n f : forall f' t x, NoDup (ids f) -> fcut n f = Some (f', t) -> ~ In x (subtree_ids n f) ->
  path_in x f' = path_in x f.
Proof.
  unfold subtree_ids. induction f as [|i v k IHk r IHr]; intros f' t x Hnd; cbn [fcut find]; [discriminate|].
  cbn in Hnd. apply NoDup_cons_app_inv in Hnd as (Hik & Hir & Hk & Hr & Hkr).
  destruct (N.eqb_spec i n) as [->|Hne].
  - intros E Hx. inversion E; subst. cbn [path_in].
    assert (n <> x) as Hn by (intros ->; apply Hx; left; reflexivity). apply N.eqb_neq in Hn. rewrite Hn.
    assert (path_in x k = None) as -> by (apply path_in_none; intros H; apply Hx; right; exact H). reflexivity.
  - destruct (fcut n k) as [[k' t1]|] eqn:Ek.
    + intros E Hx. inversion E; subst. cbn [path_in]. destruct (N.eqb i x); [reflexivity|].
      destruct t as [[i1 v1] k1]. rewrite (fcut_find _ _ _ _ _ _ Ek) in Hx.
      rewrite (IHk _ _ x Hk eq_refl); [reflexivity|]. rewrite (fcut_find _ _ _ _ _ _ Ek). exact Hx.
    + assert (find n k = None) as Hfk by (apply find_none; eapply fcut_none; exact Ek). rewrite Hfk.
      destruct (fcut n r) as [[r' t1]|] eqn:Er; [|discriminate].
      intros E Hx. inversion E; subst. cbn [path_in]. destruct (N.eqb i x); [reflexivity|].
      destruct (path_in x k); [reflexivity|]. eapply IHr; eauto.
Qed.

(* rewriting a child list in a way that does not move [x] leaves its path alone *)
Lemma path_in_fmap_kids p g f x : (forall k, path_in x (g k) = path_in x k) -> path_in x (fmap_kids p g f) = path_in x f.
Proof.
  intros Hg. induction f as [|i v k IHk r IHr]; cbn [fmap_kids]; [reflexivity|].
  destruct (N.eqb i p); cbn [path_in]; destruct (N.eqb i x); try reflexivity.
  - rewrite Hg. reflexivity.
  - rewrite IHk, IHr. reflexivity.
Qed.

Lemma path_in_fset_val n g f x : path_in x (fset_val n g f) = path_in x f.
Proof.
  induction f as [|i v k IHk r IHr]; cbn [fset_val]; [reflexivity|].
  destruct (N.eqb i n); cbn [path_in]; [reflexivity|]. rewrite IHk, IHr. reflexivity.
Qed.

(* splicing a LEAF out leaves every other path alone *)
Lemma path_in_fsplice_leaf n f x : NoDup (ids f) -> (forall v k, find n f = Some (v, k) -> k = FNil) -> x <> n ->
  path_in x (fsplice n f) = path_in x f.
Proof.
  induction f as [|i v k IHk r IHr]; intros Hnd Hleaf Hx; cbn [fsplice]; [reflexivity|].
  cbn in Hnd. apply NoDup_cons_app_inv in Hnd as (Hik & Hir & Hk & Hr & Hkr).
  destruct (N.eqb_spec i n) as [->|Hne].
  - assert (k = FNil) as -> by (apply (Hleaf v); cbn; rewrite N.eqb_refl; reflexivity).
    cbn [fapp path_in]. assert (n <> x) as Hn by congruence. apply N.eqb_neq in Hn. rewrite Hn. reflexivity.
  - apply N.eqb_neq in Hne. cbn [path_in]. rewrite IHk, IHr; auto.
    + intros w kw Hw. apply (Hleaf w). cbn [find]. rewrite Hne.
      assert (find n k = None) as ->; [|exact Hw].
      apply find_none. intros Hin. eapply NoDup_app_not_in; [exact Hkr|exact Hin|]. eapply find_incl; [exact Hw|left; reflexivity].
    + intros w kw Hw. apply (Hleaf w). cbn [find]. rewrite Hne, Hw. reflexivity.
Qed.

(* ---------- values ---------- *)

(* in good states the value of a slot is read off the node list *)
Lemma val_of_nodes st st' x : Good st -> Good st' ->
  (forall v, In (x, v) (nodes (store st)) <-> In (x, v) (nodes (store st'))) -> val st' x = val st x.
Proof.
  intros G G' H. destruct (val st x) as [v|] eqn:E.
  - apply nodes_val; [apply Good_nodup; exact G'|]. apply H. apply val_nodes. exact E.
  - destruct (val st' x) as [v'|] eqn:E'; [|reflexivity]. apply val_nodes in E'. apply H in E'.
    apply nodes_val in E'; [congruence|apply Good_nodup; exact G].
Qed.

Lemma val_detach st n x : Good st -> val (detach_raw st n) x = val st x.
Proof.
  intros G. pose proof (Ext_detach_raw st n G) as X. apply val_of_nodes; [exact G|apply X|].
  unfold detach_raw. destruct (fcut n (store st)) as [[f' [[i v] k]]|] eqn:E; [|tauto].
  apply fcut_spec in E as [-> E]. cbn [store with_store single fapp nodes]. intros w. split; intros H.
  - eapply Permutation_in; [exact E|exact H].
  - eapply Permutation_in; [apply Permutation_sym; exact E|exact H].
Qed.

Lemma val_new_node st v st1 i x : Good st -> new_node st v = (st1, i) ->
  val st1 i = Some v /\ (x <> i -> val st1 x = val st x).
Proof.
  intros G Hn. destruct (Ext_new_node _ _ _ _ G Hn) as (X & Hni & Hst & _). split.
  - apply nodes_val; [apply Good_nodup; apply X|]. rewrite Hst. left. reflexivity.
  - intros Hx. apply val_of_nodes; [exact G|apply X|]. rewrite Hst. cbn [nodes app]. intros w. split; intros H.
    + right. exact H.
    + destruct H as [H|H]; [inversion H; congruence|exact H].
Qed.

Lemma path_new_node st v st1 i x : Good st -> new_node st v = (st1, i) ->
  path_in i (store st1) = Some [] /\ (x <> i -> path_in x (store st1) = path_in x (store st)).
Proof.
  intros G Hn. destruct (Ext_new_node _ _ _ _ G Hn) as (_ & _ & Hst & _). rewrite Hst. cbn [path_in]. split.
  - rewrite N.eqb_refl. reflexivity.
  - intros Hx. assert (i <> x) as Hi by congruence. apply N.eqb_neq in Hi. rewrite Hi. reflexivity.
Qed.

(* detach: the detached node becomes a root, everything outside its subtree keeps its path *)
Lemma path_detach st n x : Good st -> In n (ids (store st)) ->
  path_in n (store (detach_raw st n)) = Some []
  /\ (~ In x (subtree_ids n (store st)) -> path_in x (store (detach_raw st n)) = path_in x (store st)).
Proof.
  intros G Hin. unfold detach_raw. destruct (fcut_some _ _ Hin) as (f' & [[i v] k] & E). rewrite E.
  pose proof (fcut_slot _ _ _ _ _ _ E) as ->. cbn [store with_store single fapp path_in]. rewrite N.eqb_refl. split; [reflexivity|].
  intros Hx. pose proof Hx as Hx'. unfold subtree_ids in Hx'. rewrite (fcut_find _ _ _ _ _ _ E) in Hx'.
  assert (n <> x) as Hn by (intros ->; apply Hx'; left; reflexivity). apply N.eqb_neq in Hn. rewrite Hn.
  assert (path_in x k = None) as -> by (apply path_in_none; intros H; apply Hx'; right; exact H).
  eapply path_in_fcut; [apply Good_nodup; exact G|exact E|exact Hx].
Qed.
