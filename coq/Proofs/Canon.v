(* Canon.v — the cursor that [locate] returns for a slot is THE cursor of that slot: any cursor that sits in a root tree of the
   store (in particular every cursor reached from a located one by left / right / up / down moves) is what [locate] returns
   for its slot.  This ties the cursor-based queries of Model/Store.v (q_prev, q_next, q_parent, q_first_child, ...) to one
   another: the answer of one query can be fed to the next. *)
From Coq Require Import List NArith ZArith Bool Lia Permutation Arith.
From XotV Require Import Model.Base Model.Zipper Model.Access Model.Store Spec.DocOrder Spec.Paths
                         Proofs.ZipperProofs Proofs.AccessProofs Proofs.StoreProofs Proofs.ForestFacts Proofs.InvProofs.
Import ListNotations.
Open Scope N_scope.

Lemma locate_in_absent f : forall ups b n, ~ In n (ids f) -> locate_in ups b n f = None.
Proof.
  intros ups b n Hn. destruct (locate_in ups b n f) as [z|] eqn:E; [|reflexivity].
  apply locate_in_slot in E. tauto.
Qed.

(* ---------- searching one level: the siblings already passed pile up in [before] ---------- *)

Lemma ids_rids a : map fst (rids a) = rev (ids a) \/ True.
Proof. right. exact I. Qed.

Lemma locate_in_skip ups n bf : forall B X, ~ In n (ids bf) ->
  locate_in ups B n (frev_app bf X) = locate_in ups (fapp bf B) n X.
Proof.
  induction bf as [|s vs ks _ bf' IH]; intros B X Hn; cbn [frev_app fapp]; [reflexivity|].
  cbn in Hn. rewrite IH by (intros H; apply Hn; right; apply in_or_app; right; exact H).
  cbn [locate_in].
  assert (s <> n) as Hs by (intros ->; apply Hn; left; reflexivity). apply N.eqb_neq in Hs. rewrite Hs.
  rewrite locate_in_absent by (intros H; apply Hn; right; apply in_or_app; left; exact H). reflexivity.
Qed.

Lemma fapp_nil_r a : fapp a FNil = a.
Proof. induction a as [|i v k _ r IH]; cbn; [reflexivity|]. rewrite IH. reflexivity. Qed.

(* the focus is found at its own level *)
Lemma locate_in_level z : ~ In (z_slot z) (ids (z_before z)) ->
  locate_in (z_ups z) FNil (z_slot z) (z_level z) = Some z.
Proof.
  intros Hn. unfold z_level. rewrite locate_in_skip by exact Hn. cbn [locate_in]. rewrite N.eqb_refl, fapp_nil_r.
  destruct z; reflexivity.
Qed.

(* ... and from the outermost level down through the ancestors *)
Lemma locate_in_plug_ups n z : forall ups L,
  locate_in ups FNil n L = Some z ->
  (forall fr, In fr ups -> fr_slot fr <> n /\ ~ In n (ids (fr_before fr))) ->
  locate_in [] FNil n (plug_ups L ups) = Some z.
Proof.
  induction ups as [|fr ups' IH]; intros L HL Hfr; cbn [plug_ups]; [exact HL|].
  apply IH; [|intros fr' Hin; apply Hfr; right; exact Hin].
  destruct (Hfr fr (or_introl eq_refl)) as [Hs Hb].
  rewrite locate_in_skip by exact Hb. cbn [locate_in]. apply N.eqb_neq in Hs. rewrite Hs, fapp_nil_r.
  destruct fr; cbn in *. rewrite HL. reflexivity.
Qed.

(* ---------- cursors that sit in a root tree of the store ---------- *)

(* before / after of the outermost level *)
Fixpoint outer_of (b a : forest) (ups : list frame) : forest * forest :=
  match ups with [] => (b, a) | fr :: ups' => outer_of (fr_before fr) (fr_after fr) ups' end.

Definition top_clean (z : zipper) : Prop := outer_of (z_before z) (z_after z) (z_ups z) = (FNil, FNil).

Definition zroot (store : forest) (z : zipper) : Prop :=
  top_clean z /\ exists A B, store = fapp A (fapp (plug z) B).

Lemma outer_of_app_last ups fr : forall b a, outer_of b a (ups ++ [fr]) = (fr_before fr, fr_after fr).
Proof. induction ups as [|f ups IH]; intros b a; cbn; [reflexivity|apply IH]. Qed.

Lemma plug_top_single L ups b a : outer_of b a ups = (FNil, FNil) -> ups <> [] ->
  exists r vr kr, plug_ups L ups = FCons r vr kr FNil.
Proof.
  revert L b a. induction ups as [|fr ups' IH]; intros L b a Ho Hne; [congruence|]. cbn [plug_ups outer_of] in *.
  destruct ups' as [|fr2 ups''].
  - destruct fr as [s v b' a']. cbn in *. inversion Ho; subst. cbn. eauto.
  - eapply IH; [exact Ho|discriminate].
Qed.

Lemma top_clean_plug z : top_clean z -> exists r vr kr, plug z = FCons r vr kr FNil.
Proof.
  unfold top_clean, plug. intros H. destruct (z_ups z) as [|fr ups] eqn:E.
  - cbn in H. inversion H as [[Hb Ha]]. unfold z_level. rewrite Hb, Ha. cbn. eauto.
  - eapply plug_top_single; [exact H|discriminate].
Qed.

(* what locate_in returns: its ancestors extend the ones it was given, and plugging it back gives what was searched *)
Lemma locate_in_plug f : forall ups b n z, locate_in ups b n f = Some z ->
  plug z = plug_ups (frev_app b f) ups /\ exists ups', z_ups z = ups' ++ ups /\ (ups' = [] -> z_before z = b \/ True).
Proof.
  induction f as [|i v k IHk r IHr]; intros ups b n z; cbn [locate_in]; [discriminate|].
  destruct (N.eqb i n).
  - intros H. inversion H; subst. unfold plug, z_level. cbn. split; [reflexivity|]. exists []. auto.
  - destruct (locate_in _ FNil n k) as [z1|] eqn:E1.
    + intros H. inversion H; subst. destruct (IHk _ _ _ _ E1) as (Hp & ups' & Hu & _). split.
      * rewrite Hp. cbn [plug_ups frev_app]. reflexivity.
      * exists (ups' ++ [{| fr_slot := i; fr_val := v; fr_before := b; fr_after := r |}]). rewrite Hu, <- app_assoc. auto.
    + intros H. destruct (IHr _ _ _ _ H) as (Hp & ups' & Hu & _). split; [rewrite Hp; reflexivity|eauto].
Qed.

Lemma locate_root_clean i v k n z : locate_in [] FNil n (FCons i v k FNil) = Some z -> top_clean z.
Proof.
  cbn [locate_in]. destruct (N.eqb i n).
  - intros H. inversion H; subst. reflexivity.
  - destruct (locate_in _ FNil n k) as [z1|] eqn:E1; [|discriminate]. intros H. inversion H; subst.
    destruct (locate_in_plug _ _ _ _ _ E1) as (_ & ups' & Hu & _). unfold top_clean. rewrite Hu, outer_of_app_last. reflexivity.
Qed.

Theorem locate_zroot store : forall n z, locate n store = Some z -> zroot store z.
Proof.
  induction store as [|i v k _ r IHr]; intros n z; cbn [locate]; [discriminate|].
  destruct (locate_in [] FNil n (FCons i v k FNil)) as [z1|] eqn:E.
  - intros H. inversion H; subst. split; [eapply locate_root_clean; exact E|].
    destruct (locate_in_plug _ _ _ _ _ E) as (Hp & _). cbn in Hp. exists FNil, r. cbn [fapp]. rewrite Hp. reflexivity.
  - intros H. destruct (IHr _ _ H) as (Hc & A & B & ->). split; [exact Hc|]. exists (FCons i v k A), B. reflexivity.
Qed.

(* ---------- the converse: a cursor in a root tree is what locate finds (slots occur once) ---------- *)

Lemma nodup_plug_frames L ups n :
  NoDup (ids (plug_ups L ups)) -> In n (ids L) ->
  forall fr, In fr ups -> fr_slot fr <> n /\ ~ In n (ids (fr_before fr)).
Proof.
  rewrite ids_nodes, nodes_plug_ups. intros Hnd Hin fr Hfr.
  assert (In n (map fst (nodes L))) as HinL by (rewrite <- ids_nodes; exact Hin).
  assert (forall x, In x (map fst (pre_ups ups)) -> x <> n) as Hpre.
  { intros x Hx ->. rewrite !map_app in Hnd. eapply NoDup_app_not_in; [exact Hnd|exact Hx|]. apply in_or_app. left. exact HinL. }
  assert (forall fr, In fr ups -> incl (fr_slot fr :: ids (fr_before fr)) (map fst (pre_ups ups))) as Hincl.
  { clear. induction ups as [|f ups IH]; intros fr Hin; [destruct Hin|]. cbn [pre_ups]. rewrite !map_app. destruct Hin as [->|Hin].
    - intros x Hx. apply in_or_app. right. destruct Hx as [Hx|Hx].
      + apply in_or_app. right. left. exact Hx.
      + apply in_or_app. left. clear - Hx. induction (fr_before fr) as [|i v k _ r IHr]; [destruct Hx|].
        cbn in *. rewrite map_app. cbn. destruct Hx as [Hx|Hx]; [apply in_or_app; right; left; exact Hx|].
        apply in_app_or in Hx as [Hx|Hx]; apply in_or_app; [right; right; rewrite <- ids_nodes; exact Hx|left; apply IHr; exact Hx].
    - intros x Hx. apply in_or_app. left. eapply IH; eauto. }
  split.
  - apply Hpre. apply (Hincl fr Hfr). left. reflexivity.
  - intros Hx. apply (Hpre n); [|reflexivity]. apply (Hincl fr Hfr). right. exact Hx.
Qed.

Lemma ids_frev_app a : forall b, Permutation (ids (frev_app a b)) (ids a ++ ids b).
Proof.
  induction a as [|i v k _ r IH]; intros b; cbn [frev_app]; [reflexivity|]. rewrite IH. cbn. 
  rewrite <- !app_assoc. apply Permutation_sym. apply Permutation_cons_app. rewrite !app_assoc.
  apply Permutation_app_tail. apply Permutation_app_comm.
Qed.

Theorem zroot_locate store z : NoDup (ids store) -> zroot store z -> locate (z_slot z) store = Some z.
Proof.
  intros Hnd (Hc & A & B & ->). destruct (top_clean_plug z Hc) as (r & vr & kr & Hp).
  assert (NoDup (ids (plug z))) as Hndz.
  { rewrite !ids_fapp in Hnd. apply NoDup_app_inv in Hnd as [_ Hnd]. apply NoDup_app_inv in Hnd as [Hnd _]. exact Hnd. }
  assert (In (z_slot z) (ids (z_level z))) as HinL.
  { unfold z_level. eapply Permutation_in; [apply Permutation_sym; apply ids_frev_app|]. apply in_or_app. right. left. reflexivity. }
  assert (locate_in [] FNil (z_slot z) (plug z) = Some z) as Hloc.
  { unfold plug. apply locate_in_plug_ups.
    - apply locate_in_level. unfold plug in Hndz. rewrite ids_nodes, nodes_plug_ups in Hndz.
      rewrite !map_app in Hndz. apply NoDup_app_inv in Hndz as [_ Hndz]. apply NoDup_app_inv in Hndz as [Hndz _].
      rewrite <- ids_nodes in Hndz. unfold z_level in Hndz. eapply Permutation_NoDup in Hndz; [|apply ids_frev_app].
      intros Hx. eapply NoDup_app_not_in; [exact Hndz|exact Hx|]. left. reflexivity.
    - apply (nodup_plug_frames (z_level z)); [exact Hndz|exact HinL]. }
  assert (In (z_slot z) (ids (plug z))) as Hinp.
  { unfold plug. rewrite ids_nodes, nodes_plug_ups, !map_app. apply in_or_app. right. apply in_or_app. left. rewrite <- ids_nodes. exact HinL. }
  (* skip the roots before the tree *)
  clear Hc. induction A as [|i v k _ rA IH]; cbn [fapp].
  - rewrite Hp in *. cbn [fapp locate]. rewrite Hloc. reflexivity.
  - cbn [locate]. rewrite locate_in_absent.
    + apply IH. cbn [fapp] in Hnd. cbn in Hnd. apply NoDup_cons_app_inv in Hnd. tauto.
    + cbn [fapp] in Hnd. cbn in Hnd. apply NoDup_cons_app_inv in Hnd as (Hik & Hir & _ & _ & Hkr).
      cbn. rewrite app_nil_r. intros [Hx|Hx].
      * subst i. apply Hir. rewrite !ids_fapp. apply in_or_app. right. apply in_or_app. left. exact Hinp.
      * eapply NoDup_app_not_in; [exact Hkr|exact Hx|]. rewrite !ids_fapp. apply in_or_app. right. apply in_or_app. left. exact Hinp.
Qed.

(* ---------- moves stay among the cursors of the store ---------- *)

Lemma zroot_same_plug store z z' : zroot store z -> plug z' = plug z -> top_clean z' -> zroot store z'.
Proof. intros (_ & A & B & E) Hp Hc. split; [exact Hc|]. exists A, B. rewrite Hp. exact E. Qed.

Lemma top_clean_right z z' : top_clean z -> right z = Some z' -> top_clean z'.
Proof.
  unfold top_clean, right. destruct (z_after z) as [|i v k r] eqn:Ea; [discriminate|]. intros Hc H. inversion H; subst; cbn.
  destruct (z_ups z) as [|fr ups]; [cbn in Hc; inversion Hc; congruence|exact Hc].
Qed.

Lemma top_clean_left z z' : top_clean z -> left z = Some z' -> top_clean z'.
Proof.
  unfold top_clean, left. destruct (z_before z) as [|i v k r] eqn:Ea; [discriminate|]. intros Hc H. inversion H; subst; cbn.
  destruct (z_ups z) as [|fr ups]; [cbn in Hc; inversion Hc; congruence|exact Hc].
Qed.

Lemma top_clean_up z z' : top_clean z -> up z = Some z' -> top_clean z'.
Proof.
  unfold top_clean, up. destruct (z_ups z) as [|fr ups] eqn:Eu; [discriminate|]. intros Hc H. inversion H; subst; cbn. exact Hc.
Qed.

Lemma top_clean_down_first z z' : top_clean z -> down_first z = Some z' -> top_clean z'.
Proof.
  unfold top_clean, down_first. destruct (z_kids z) as [|i v k r]; [discriminate|]. intros Hc H. inversion H; subst; cbn. exact Hc.
Qed.

Lemma top_clean_down_last z z' : top_clean z -> down_last z = Some z' -> top_clean z'.
Proof.
  unfold top_clean, down_last. destruct (frev (z_kids z)) as [|i v k r]; [discriminate|]. intros Hc H. inversion H; subst; cbn. exact Hc.
Qed.

Theorem zroot_move store z z' :
  zroot store z ->
  (right z = Some z' \/ left z = Some z' \/ up z = Some z' \/ down_first z = Some z' \/ down_last z = Some z') ->
  zroot store z'.
Proof.
  intros Hz [H|[H|[H|[H|H]]]]; (eapply zroot_same_plug; [exact Hz| |]).
  - eapply plug_right; exact H.
  - eapply top_clean_right; [apply Hz|exact H].
  - eapply plug_left; exact H.
  - eapply top_clean_left; [apply Hz|exact H].
  - eapply plug_up; exact H.
  - eapply top_clean_up; [apply Hz|exact H].
  - eapply plug_down_first; exact H.
  - eapply top_clean_down_first; [apply Hz|exact H].
  - eapply plug_down_last; exact H.
  - eapply top_clean_down_last; [apply Hz|exact H].
Qed.

(* the cursor reached by a move from the cursor of [n] is the cursor of its own slot *)
Corollary cur_move st n z z' : NoDup (ids (store st)) -> cur st n = Some z ->
  (right z = Some z' \/ left z = Some z' \/ up z = Some z' \/ down_first z = Some z' \/ down_last z = Some z') ->
  cur st (z_slot z') = Some z'.
Proof.
  intros Hnd Hc Hm. unfold cur in *. apply zroot_locate; [exact Hnd|]. eapply zroot_move; [eapply locate_zroot; exact Hc|exact Hm].
Qed.

(* ---------- what the sibling / parent queries say about each other ---------- *)

Lemma q_prev_cur st n p : NoDup (ids (store st)) -> q_prev st n = Some p ->
  exists z s, cur st n = Some z /\ cur st p = Some s /\ left z = Some s /\ z_ups s = z_ups z.
Proof.
  intros Hnd. unfold q_prev. destruct (cur st n) as [z|] eqn:Hc; [|discriminate].
  unfold previous_sibling. destruct (left z) as [s|] eqn:Hl; [|discriminate].
  destruct (vcat_eqb _ _); [|discriminate]. cbn. intros H. inversion H; subst.
  exists z, s. split; [reflexivity|]. split; [eapply cur_move; eauto|]. split; [exact Hl|].
  unfold left in Hl. destruct (z_before z); [discriminate|]. inversion Hl; reflexivity.
Qed.

Lemma q_next_cur st n p : NoDup (ids (store st)) -> q_next st n = Some p ->
  exists z s, cur st n = Some z /\ cur st p = Some s /\ right z = Some s /\ z_ups s = z_ups z.
Proof.
  intros Hnd. unfold q_next. destruct (cur st n) as [z|] eqn:Hc; [|discriminate].
  unfold next_sibling. destruct (right z) as [s|] eqn:Hl; [|discriminate].
  destruct (vcat_eqb _ _); [|discriminate]. cbn. intros H. inversion H; subst.
  exists z, s. split; [reflexivity|]. split; [eapply cur_move; eauto|]. split; [exact Hl|].
  unfold right in Hl. destruct (z_after z); [discriminate|]. inversion Hl; reflexivity.
Qed.

Lemma cur_path st n z : cur st n = Some z -> path_in n (store st) = Some (map fr_slot (z_ups z)).
Proof. intros H. unfold cur in H. apply locate_path in H as (l & Hl & Hm & _). rewrite Hl, Hm. reflexivity. Qed.

(* a sibling has the same ancestors *)
Lemma q_prev_same_path st n p : NoDup (ids (store st)) -> q_prev st n = Some p -> path_in p (store st) = path_in n (store st).
Proof.
  intros Hnd H. destruct (q_prev_cur _ _ _ Hnd H) as (z & s & Hz & Hs & _ & Hu).
  rewrite (cur_path _ _ _ Hz), (cur_path _ _ _ Hs), Hu. reflexivity.
Qed.

Lemma q_next_same_path st n p : NoDup (ids (store st)) -> q_next st n = Some p -> path_in p (store st) = path_in n (store st).
Proof.
  intros Hnd H. destruct (q_next_cur _ _ _ Hnd H) as (z & s & Hz & Hs & _ & Hu).
  rewrite (cur_path _ _ _ Hz), (cur_path _ _ _ Hs), Hu. reflexivity.
Qed.

Lemma q_parent_of_path st n : q_parent st n = match path_in n (store st) with Some (P :: _) => Some P | _ => None end.
Proof.
  unfold q_parent. destruct (cur st n) as [z|] eqn:Hc.
  - rewrite (cur_path _ _ _ Hc). unfold parent, up. destruct (z_ups z) as [|fr ups]; reflexivity.
  - unfold cur in Hc. destruct (path_in n (store st)) as [l|] eqn:Hp; [|reflexivity].
    apply path_in_in in Hp. destruct (locate_found _ _ Hp) as [z Hz]. congruence.
Qed.
