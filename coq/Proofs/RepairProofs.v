(* RepairProofs.v — create_missing_prefixes repairs what it finds (C10): after the call, the scan that looked for names without
   a usable prefix finds none.  The scan of src/nameaccess.rs (Model/NsTools.v missing_edges: a FullnameSerializer walked over
   the subtree) is first brought into structural form, then run side by side on the tree before and after the repair: the
   tables of the second run are the tables of the first plus the generated bindings, which nothing below re-declares. *)
From Coq Require Import List NArith Bool Lia.
From XotV Require Import Model.Base Model.Zipper Model.Access Model.Store Model.Manip Model.Interning Model.InternOps
                         Model.Fullname Model.Scope Model.NsTools Model.Builder Spec.Shape Proofs.FullnameProofs Proofs.StoreProofs
                         Proofs.KeysProofs Proofs.InvOps Proofs.NodeMapProofs Proofs.NsProofs Proofs.DedupProofs.
Import ListNotations.
Open Scope N_scope.

(* the attribute names of a node, read off its child list *)
Definition kattrs (k : forest) : list nameid :=
  opt_map (fun v => match v with VAttribute n _ => Some n | _ => None end)
          (take_while (v_is CAttribute) (skip_while (v_is CNamespace) (level_vals k))).

Lemma attr_names_kattrs z : attr_names z = kattrs (z_kids z).
Proof.
  unfold attr_names, kattrs, attribute_nodes, arena_children.
  rewrite <- (zs_level_vals (z_kids z) (frame_of z :: z_ups z) FNil).
  rewrite <- (map_skip_while z_val (is_cat CNamespace) (v_is CNamespace)) by (intros x; reflexivity).
  rewrite <- (map_take_while z_val (is_cat CAttribute) (v_is CAttribute)) by (intros x; reflexivity).
  rewrite opt_map_map. reflexivity.
Qed.

Section R.
  Variable nm : nsnames.
  Notation ep := (ns_empty_prefix nm).
  Notation nn := (ns_no_ns nm).

  (* what one start tag adds to the list of namespaces without a usable prefix *)
  Definition tag_missing (s1 : fstack) (name : nameid) (attrs : list nameid) (acc : list nsid) : list nsid :=
    let acc1 := if is_missing (element_prefix ep nn s1 (ns_of_name nm name)) then add_once (ns_of_name nm name) acc else acc in
    fold_left (fun a n => if is_missing (attribute_prefix ep nn s1 (ns_of_name nm n)) then add_once (ns_of_name nm n) a else a) attrs acc1.

  (* the scan in structural form *)
  Fixpoint mf (s : fstack) (acc : list nsid) (f : forest) : list nsid :=
    match f with
    | FNil => acc
    | FCons _ v k r =>
        match v with
        | VElement name =>
            let s1 := fs_push s (kdecls k) in
            mf s (mf s1 (tag_missing s1 name (kattrs k) acc) k) r
        | _ => mf s (mf s acc k) r
        end
    end.

  Lemma missing_edges_forest f : forall ups b es s acc,
    missing_edges nm (edges_forest ups b f ++ es) s acc = missing_edges nm es s (mf s acc f).
  Proof.
    induction f as [|i v k IHk r IHr]; intros ups b es s acc; [reflexivity|].
    cbn [edges_forest mf]. rewrite <- app_comm_cons, <- app_assoc, <- app_comm_cons. cbn [missing_edges mkz z_val].
    destruct v as [|name|s0|t0 d0|s0|a0 s0|p0 u0]; try (rewrite IHk; cbn [missing_edges mkz z_val]; apply IHr).
    rewrite declarations_kdecls, attr_names_kattrs. cbn [mkz z_kids]. fold (tag_missing (fs_push s (kdecls k)) name (kattrs k) acc).
    rewrite IHk. cbn [missing_edges mkz z_val]. rewrite declarations_kdecls. cbn [mkz z_kids]. rewrite pop_push. apply IHr.
  Qed.

  Lemma missing_filter es : forall s acc, missing_edges nm (filter edge_normal es) s acc = missing_edges nm es s acc.
  Proof.
    induction es as [|e es IH]; intros s acc; [reflexivity|]. cbn [filter].
    destruct (edge_normal e) eqn:En.
    - destruct e as [z|z]; cbn [missing_edges]; destruct (z_val z); apply IH.
    - rewrite IH. unfold edge_normal, znormal in En. destruct e as [z|z]; cbn [edge_node missing_edges] in *;
        destruct (z_val z); try discriminate; reflexivity.
  Qed.

  Definition base_stack : fstack := fs_new [(ns_xml_prefix nm, ns_xml_ns nm)].

  Theorem missing_namespaces_structural z :
    missing_namespaces nm z = mf base_stack [] (FCons (z_slot z) (z_val z) (z_kids z) FNil).
  Proof.
    unfold missing_namespaces, traverse. rewrite missing_filter. unfold arena_traverse. cbn [mf].
    change ([EEnd z]) with (EEnd z :: []). cbn [missing_edges]. destruct (z_val z) as [|name|s0|t0 d0|s0|a0 s0|p0 u0] eqn:Ev.
    all: try (rewrite missing_edges_forest; cbn [missing_edges]; rewrite Ev; reflexivity).
    rewrite declarations_kdecls, attr_names_kattrs. fold (tag_missing (fs_push base_stack (kdecls (z_kids z))) name (kattrs (z_kids z)) []).
    rewrite missing_edges_forest. cbn [missing_edges]. rewrite Ev. reflexivity.
  Qed.

  (* ---------- what the scan collects ---------- *)

  Lemma add_once_incl x l : incl l (add_once x l) /\ In x (add_once x l).
  Proof.
    unfold add_once. destruct (nsmem x l) eqn:E.
    - split; [apply incl_refl|]. apply nsmem_in. exact E.
    - split; [apply incl_appl, incl_refl|apply in_or_app; right; left; reflexivity].
  Qed.

  Lemma attrs_fold_incl s1 attrs : forall acc,
    incl acc (fold_left (fun a n => if is_missing (attribute_prefix ep nn s1 (ns_of_name nm n)) then add_once (ns_of_name nm n) a else a) attrs acc)
    /\ forall a, In a attrs -> is_missing (attribute_prefix ep nn s1 (ns_of_name nm a)) = true ->
         In (ns_of_name nm a) (fold_left (fun a n => if is_missing (attribute_prefix ep nn s1 (ns_of_name nm n)) then add_once (ns_of_name nm n) a else a) attrs acc).
  Proof.
    induction attrs as [|x attrs IH]; intros acc; cbn [fold_left]; [split; [apply incl_refl|intros a []]|].
    set (acc1 := if is_missing _ then add_once (ns_of_name nm x) acc else acc).
    destruct (IH acc1) as [I1 I2]. split.
    - intros y Hy. apply I1. unfold acc1. destruct (is_missing _); [apply (proj1 (add_once_incl _ _)); exact Hy|exact Hy].
    - intros a [<-|Ha] Hm; [|exact (I2 a Ha Hm)]. apply I1. unfold acc1. rewrite Hm. apply (proj2 (add_once_incl _ _)).
  Qed.

  Lemma tag_missing_facts s1 name attrs acc :
    incl acc (tag_missing s1 name attrs acc)
    /\ (is_missing (element_prefix ep nn s1 (ns_of_name nm name)) = true -> In (ns_of_name nm name) (tag_missing s1 name attrs acc))
    /\ (forall a, In a attrs -> is_missing (attribute_prefix ep nn s1 (ns_of_name nm a)) = true ->
           In (ns_of_name nm a) (tag_missing s1 name attrs acc)).
  Proof.
    unfold tag_missing. set (acc1 := if is_missing _ then add_once (ns_of_name nm name) acc else acc).
    destruct (attrs_fold_incl s1 attrs acc1) as [I1 I2]. split; [|split].
    - intros y Hy. apply I1. unfold acc1. destruct (is_missing _); [apply (proj1 (add_once_incl _ _)); exact Hy|exact Hy].
    - intros Hm. apply I1. unfold acc1. rewrite Hm. apply (proj2 (add_once_incl _ _)).
    - exact I2.
  Qed.

  Lemma tag_missing_none s1 name attrs acc :
    is_missing (element_prefix ep nn s1 (ns_of_name nm name)) = false ->
    (forall a, In a attrs -> is_missing (attribute_prefix ep nn s1 (ns_of_name nm a)) = false) ->
    tag_missing s1 name attrs acc = acc.
  Proof.
    intros He Ha. unfold tag_missing. rewrite He. induction attrs as [|x attrs IH]; [reflexivity|]. cbn [fold_left].
    rewrite (Ha x (or_introl eq_refl)). apply IH. intros a Hin. apply Ha. right. exact Hin.
  Qed.

  Lemma mf_incl f : forall s acc, incl acc (mf s acc f).
  Proof.
    induction f as [|i v k IHk r IHr]; intros s acc; cbn [mf]; [apply incl_refl|].
    destruct v; try (eapply incl_tran; [apply (IHk s acc)|apply IHr]).
    eapply incl_tran; [apply (proj1 (tag_missing_facts (fs_push s (kdecls k)) n (kattrs k) acc))|].
    eapply incl_tran; [apply IHk|apply IHr].
  Qed.

  (* ---------- a second run with more bindings in the table ---------- *)

  Variable L : decls.                        (* the generated bindings *)
  Notation P := (map fst L).

  (* [s'] is [s] plus the bindings of [L], whose prefixes [s] does not use *)
  Definition ext (s s' : fstack) : Prop :=
    NoDup (map fst (fs_top s)) /\ NoDup (map fst (fs_top s'))
    /\ (forall q, In q (map fst (fs_top s)) -> ~ In q P)
    /\ (forall q, assoc_p q (fs_top s') = if nsmem q P then assoc_p q L else assoc_p q (fs_top s)).

  Lemma assoc_some_in q d ns : assoc_p q d = Some ns -> In q (map fst d).
  Proof.
    intros H. destruct (in_dec N.eq_dec q (map fst d)) as [Hi|Hi]; [exact Hi|]. apply assoc_p_none in Hi. congruence.
  Qed.

  Lemma map_fst_info_new d cur q : In q (map fst (info_new d cur)) -> In q (map fst d) \/ In q (map fst cur).
  Proof.
    unfold info_new. rewrite map_app. intros H. apply in_app_or in H as [H|H]; [right|left; exact H].
    apply in_map_iff in H as (x & Hx & Hin). apply filter_In in Hin as [Hin _]. apply in_map_iff. exists x. auto.
  Qed.

  Lemma ext_push s s' d : NoDup (map fst d) -> (forall q, In q (map fst d) -> ~ In q P) ->
    ext s s' -> ext (fs_push s d) (fs_push s' d).
  Proof.
    intros Hd Hdis (N1 & N2 & Hdisj & Hlook). destruct d as [|d0 d']; [cbn [fs_push]; exact (conj N1 (conj N2 (conj Hdisj Hlook)))|].
    cbn [fs_push fs_top]. split; [apply info_new_nodup; assumption|]. split; [apply info_new_nodup; assumption|]. split.
    - intros q Hq. apply map_fst_info_new in Hq as [Hq|Hq]; [apply Hdis; exact Hq|apply Hdisj; exact Hq].
    - intros q. cbn [fs_top]. rewrite !info_new_lookup, Hlook. destruct (assoc_p q (d0 :: d')) as [ns|] eqn:E; [|reflexivity].
      destruct (nsmem q P) eqn:Em; [|reflexivity]. exfalso. apply nsmem_in in Em. apply (Hdis q); [eapply assoc_some_in; exact E|exact Em].
  Qed.

  Hypothesis L_nodup : NoDup P.
  Hypothesis L_not_empty_prefix : ~ In ep P.

  Lemma L_binds ns : In ns (map snd L) -> exists p, In p P /\ p <> ep /\ assoc_p p L = Some ns.
  Proof.
    intros H. apply in_map_iff in H as ([p m] & Hm & Hin). cbn in Hm. subst m. exists p.
    split; [apply in_map_iff; exists (p, ns); auto|]. split; [intros ->; apply L_not_empty_prefix; apply in_map_iff; exists (ep, ns); auto|].
    apply (assoc_p_in p ns L L_nodup). exact Hin.
  Qed.

  (* a name that had a prefix keeps one; a name whose namespace was collected has one now *)
  Lemma found_after s s' ns : ext s s' ->
    (is_missing (element_prefix ep nn s ns) = true -> In ns (map snd L)) ->
    is_missing (element_prefix ep nn s' ns) = false.
  Proof.
    intros (N1 & N2 & Hdisj & Hlook) Hcov.
    pose proof (element_prefix_sound ep nn s ns N1) as S1. pose proof (element_prefix_sound ep nn s' ns N2) as S2.
    destruct (element_prefix ep nn s' ns) eqn:E2; try reflexivity. exfalso. destruct S2 as [Hnn Hno].
    destruct (element_prefix ep nn s ns) eqn:E1.
    - destruct S1 as [S1|S1]; [congruence|]. apply (Hno ep). rewrite Hlook.
      assert (nsmem ep P = false) as -> by (destruct (nsmem ep P) eqn:X; [apply nsmem_in in X; contradiction|reflexivity]). exact S1.
    - destruct S1 as [S1 _]. apply (Hno p). rewrite Hlook.
      assert (nsmem p P = false) as ->; [|exact S1].
      destruct (nsmem p P) eqn:X; [|reflexivity]. apply nsmem_in in X. exfalso. apply (Hdisj p); [eapply assoc_some_in; exact S1|exact X].
    - destruct (L_binds ns (Hcov eq_refl)) as (p & Hp & _ & Hb). apply (Hno p). rewrite Hlook.
      assert (nsmem p P = true) as -> by (apply nsmem_in; exact Hp). exact Hb.
  Qed.

  Lemma found_after_attr s s' ns : ext s s' ->
    (is_missing (attribute_prefix ep nn s ns) = true -> In ns (map snd L)) ->
    is_missing (attribute_prefix ep nn s' ns) = false.
  Proof.
    intros (N1 & N2 & Hdisj & Hlook) Hcov.
    pose proof (attribute_prefix_sound ep nn s ns N1) as S1. pose proof (attribute_prefix_sound ep nn s' ns N2) as S2.
    destruct (attribute_prefix ep nn s' ns) eqn:E2; try reflexivity. exfalso. destruct S2 as [Hnn Hno].
    destruct (attribute_prefix ep nn s ns) eqn:E1.
    - congruence.
    - destruct S1 as [S1 Hpe]. apply (Hno p Hpe). rewrite Hlook.
      assert (nsmem p P = false) as ->; [|exact S1].
      destruct (nsmem p P) eqn:X; [|reflexivity]. apply nsmem_in in X. exfalso. apply (Hdisj p); [eapply assoc_some_in; exact S1|exact X].
    - destruct (L_binds ns (Hcov eq_refl)) as (p & Hp & Hpe & Hb). apply (Hno p Hpe). rewrite Hlook.
      assert (nsmem p P = true) as -> by (apply nsmem_in; exact Hp). exact Hb.
  Qed.

  (* every element of [f] declares each prefix once and none of the generated ones *)
  Fixpoint decls_ok (f : forest) : Prop :=
    match f with
    | FNil => True
    | FCons _ v k r =>
        (match v with
         | VElement _ => NoDup (map fst (kdecls k)) /\ (forall q, In q (map fst (kdecls k)) -> ~ In q P)
         | _ => True
         end) /\ decls_ok k /\ decls_ok r
    end.

  (* the second run finds nothing, if everything the first run found has a generated binding *)
  Lemma repaired_level f : forall s s' acc acc',
    ext s s' -> decls_ok f -> incl (mf s acc f) (map snd L) -> mf s' acc' f = acc'.
  Proof.
    induction f as [|i v k IHk r IHr]; intros s s' acc acc' He Hok Hcov; [reflexivity|].
    cbn [decls_ok] in Hok. destruct Hok as (Hv & Hk & Hr). cbn [mf] in *.
    destruct v as [|name|s0|t0 d0|s0|a0 s0|p0 u0];
      try (rewrite (IHk s s' acc acc' He Hk (incl_tran (mf_incl r s _) Hcov)); exact (IHr s s' _ acc' He Hr Hcov)).
    destruct Hv as [Hnd Hdis].
    pose proof (ext_push s s' (kdecls k) Hnd Hdis He) as He1.
    set (s1 := fs_push s (kdecls k)) in *. set (s1' := fs_push s' (kdecls k)) in *.
    set (acc1 := tag_missing s1 name (kattrs k) acc) in *.
    assert (incl (mf s1 acc1 k) (map snd L)) as Hcovk by (exact (incl_tran (mf_incl r s _) Hcov)).
    assert (incl acc1 (map snd L)) as Hcov1 by (exact (incl_tran (mf_incl k s1 _) Hcovk)).
    destruct (tag_missing_facts s1 name (kattrs k) acc) as (_ & Fe & Fa). fold acc1 in Fe, Fa.
    rewrite tag_missing_none.
    - rewrite (IHk s1 s1' acc1 acc' He1 Hk Hcovk). exact (IHr s s' _ acc' He Hr Hcov).
    - apply (found_after s1 s1' _ He1). intros Hm. apply Hcov1. exact (Fe Hm).
    - intros a Ha. apply (found_after_attr s1 s1' _ He1). intros Hm. apply Hcov1. exact (Fa a Ha Hm).
  Qed.

  (* ---------- the repaired element ---------- *)

  Definition ns_node (i : N) (d : prefixid * nsid) : forest := FCons i (VNamespace (fst d) (snd d)) FNil FNil.

  Lemma kdecls_insert i d k : kdecls (insert_after_namespaces (ns_node i d) k) = kdecls k ++ [d].
  Proof.
    unfold kdecls. induction k as [|j v kk _ r IH]; cbn [insert_after_namespaces].
    - destruct d; reflexivity.
    - destruct (value_category v) eqn:Ec.
      + cbn [fapp ns_node level_vals take_while opt_map]. unfold v_is at 1 2. cbn [value_category vcat_eqb ns_of_val].
        unfold v_is. rewrite Ec. cbn [vcat_eqb opt_map app]. destruct d; reflexivity.
      + cbn [fapp ns_node level_vals take_while opt_map]. unfold v_is at 1 2. cbn [value_category vcat_eqb ns_of_val].
        unfold v_is. rewrite Ec. cbn [vcat_eqb opt_map app]. destruct d; reflexivity.
      + cbn [level_vals take_while]. unfold v_is at 1 3. rewrite Ec. cbn [vcat_eqb opt_map].
        destruct (ns_of_val v); [cbn [app]; f_equal|]; exact IH.
  Qed.

  Lemma kattrs_insert i d k : kattrs (insert_after_namespaces (ns_node i d) k) = kattrs k.
  Proof.
    unfold kattrs. induction k as [|j v kk _ r IH]; cbn [insert_after_namespaces]; [reflexivity|].
    destruct (value_category v) eqn:Ec.
    - cbn [fapp ns_node level_vals skip_while]. unfold v_is at 2. cbn [value_category vcat_eqb]. reflexivity.
    - cbn [fapp ns_node level_vals skip_while]. unfold v_is at 2. cbn [value_category vcat_eqb]. reflexivity.
    - cbn [level_vals skip_while]. unfold v_is at 2 5. rewrite Ec. cbn [vcat_eqb]. exact IH.
  Qed.

  Lemma mf_insert i d k : forall s acc, mf s acc (insert_after_namespaces (ns_node i d) k) = mf s acc k.
  Proof.
    induction k as [|j v kk _ r IH]; intros s acc; cbn [insert_after_namespaces]; [reflexivity|].
    destruct (value_category v) eqn:Ec; try reflexivity.
    destruct v; try discriminate Ec. cbn [mf]. apply IH.
  Qed.

  Fixpoint ins_all (slots : list N) (l : decls) (k : forest) : forest :=
    match slots, l with
    | i :: slots', d :: l' => ins_all slots' l' (insert_after_namespaces (ns_node i d) k)
    | _, _ => k
    end.

  Lemma ins_all_facts slots : forall l k, length slots = length l ->
    kdecls (ins_all slots l k) = kdecls k ++ l /\ kattrs (ins_all slots l k) = kattrs k
    /\ forall s acc, mf s acc (ins_all slots l k) = mf s acc k.
  Proof.
    induction slots as [|i slots IH]; intros l k Hlen; destruct l as [|d l]; try discriminate Hlen; cbn [ins_all].
    - rewrite app_nil_r. auto.
    - destruct (IH l (insert_after_namespaces (ns_node i d) k) ltac:(cbn in Hlen; lia)) as (H1 & H2 & H3).
      rewrite H1, H2, kdecls_insert, kattrs_insert, <- app_assoc. split; [reflexivity|]. split; [reflexivity|].
      intros s acc. rewrite H3. apply mf_insert.
  Qed.

  Lemma top_push s d : fs_top (fs_push s d) = info_new d (fs_top s).
  Proof. destruct d; [cbn [fs_push]; rewrite info_new_nil; reflexivity|reflexivity]. Qed.

  (* create_missing_prefixes repairs what its scan finds: the scan, run again on the repaired element, finds nothing *)
  Theorem repair_complete e name k slots :
    length slots = length L ->
    incl (mf base_stack [] (FCons e (VElement name) k FNil)) (map snd L) ->
    ~ In (ns_xml_prefix nm) P -> decls_ok (FCons e (VElement name) k FNil) ->
    mf base_stack [] (FCons e (VElement name) (ins_all slots L k) FNil) = [].
  Proof.
    intros Hlen Hcov Hxml Hok. cbn [decls_ok] in Hok. destruct Hok as ((Hnd & Hdis) & Hk & _).
    destruct (ins_all_facts slots L k Hlen) as (H1 & H2 & H3). cbn [mf] in *. rewrite H1, H2, H3.
    set (s1 := fs_push base_stack (kdecls k)) in *. set (s1' := fs_push base_stack (kdecls k ++ L)).
    assert (ext s1 s1') as He.
    { unfold ext, s1, s1'. rewrite !top_push. cbn [base_stack fs_new fs_top].
      assert (NoDup (map fst (kdecls k ++ L))) as Hnd2.
      { rewrite map_app. apply NoDup_app_disjoint; [exact Hnd|exact L_nodup|exact Hdis]. }
      split; [apply info_new_nodup; [exact Hnd|repeat constructor; intros []]|].
      split; [apply info_new_nodup; [exact Hnd2|repeat constructor; intros []]|]. split.
      - intros q Hq. apply map_fst_info_new in Hq as [Hq|Hq]; [apply Hdis; exact Hq|].
        cbn in Hq. destruct Hq as [<-|[]]. exact Hxml.
      - intros q. rewrite !info_new_lookup, assoc_p_app.
        destruct (nsmem q P) eqn:Em.
        + apply nsmem_in in Em. assert (assoc_p q (kdecls k) = None) as -> by (apply assoc_p_none; intros Hx; exact (Hdis q Hx Em)).
          destruct (assoc_p q L) as [ns|] eqn:EL; [reflexivity|]. exfalso. apply assoc_p_none in EL. contradiction.
        + assert (assoc_p q L = None) as -> by (apply assoc_p_none; intros Hx; apply nsmem_in in Hx; congruence).
          destruct (assoc_p q (kdecls k)); reflexivity. }
    set (acc1 := tag_missing s1 name (kattrs k) []) in *.
    destruct (tag_missing_facts s1 name (kattrs k) []) as (_ & Fe & Fa). fold acc1 in Fe, Fa.
    assert (incl acc1 (map snd L)) as Hcov1 by (exact (incl_tran (mf_incl k s1 _) Hcov)).
    rewrite tag_missing_none.
    - exact (repaired_level k s1 s1' acc1 [] He Hk Hcov).
    - apply (found_after s1 s1' _ He). intros Hm. apply Hcov1. exact (Fe Hm).
    - intros a Ha. apply (found_after_attr s1 s1' _ He). intros Hm. apply Hcov1. exact (Fa a Ha Hm).
  Qed.
End R.
