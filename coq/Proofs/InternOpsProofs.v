(* Proofs about Model/InternOps.v: the three tables of a Xot through any history of API calls. *)
From Coq Require Import List NArith Bool Lia.
From XotV Require Import Model.Base Model.Interning Model.InternOps Gen.Tables Proofs.InterningProofs.
Import ListNotations.
Open Scope N_scope.

Ltac splits := repeat match goal with |- _ /\ _ => split end.

Lemma str_eqb_spec a : forall b, str_eqb a b = true <-> a = b.
Proof.
  induction a as [|x a IH]; intros [|y b]; cbn; split; try discriminate; try reflexivity.
  - intros H. apply andb_true_iff in H. destruct H as [H1 H2]. apply N.eqb_eq in H1. apply IH in H2. congruence.
  - intros H. inversion H; subst. rewrite N.eqb_refl. cbn. apply IH. reflexivity.
Qed.

Lemma name_eqb_spec (a b : name) : name_eqb a b = true <-> a = b.
Proof.
  destruct a as [s n], b as [s' n']. unfold name_eqb; cbn. rewrite andb_true_iff, str_eqb_spec, N.eqb_eq.
  split; [intros [-> ->]; reflexivity|intros H; inversion H; auto].
Qed.

(* the source uses the checked conversion for all three id types (read by the translator) *)
Lemma ids_checked : id_checked_name = true /\ id_checked_namespace = true /\ id_checked_prefix = true.
Proof. repeat split; reflexivity. Qed.

Definition WFT (t : tables) : Prop :=
  WF name name_eqb id_width_name (t_names t)
  /\ WF str str_eqb id_width_namespace (t_namespaces t)
  /\ WF str str_eqb id_width_prefix (t_prefixes t).

Definition extendsT (t t' : tables) : Prop :=
  extends name (t_names t) (t_names t')
  /\ extends str (t_namespaces t) (t_namespaces t')
  /\ extends str (t_prefixes t) (t_prefixes t').

Lemma extendsT_refl t : extendsT t t.
Proof. repeat split; apply extends_refl. Qed.

Lemma extendsT_trans a b c : extendsT a b -> extendsT b c -> extendsT a c.
Proof. intros (A & B & C) (D & E & F). repeat split; eapply extends_trans; eauto. Qed.

Lemma WFT_empty : WFT tables_empty.
Proof. unfold WFT; cbn. split; [apply WF_new|split; apply WF_new]. Qed.

Lemma add_namespace_spec t s i t' :
  WFT t -> x_add_namespace t s = ROk (i, t') ->
  WFT t' /\ extendsT t t' /\ namespace_str t' i = Some s.
Proof.
  intros (Hn & Hs & Hp). unfold x_add_namespace, add_namespace.
  destruct (get_id_mut str_eqb id_width_namespace id_checked_namespace (t_namespaces t) s) as [[i0 m]|] eqn:E; [|discriminate].
  intros H; inversion H; subst i0 t'; clear H. change id_checked_namespace with true in E.
  destruct (get_id_mut_spec _ _ str_eqb_spec _ _ _ _ _ Hs E) as (Hs' & Hv & _).
  pose proof (get_id_mut_extends _ _ str_eqb_spec _ _ _ _ _ Hs E).
  unfold WFT, extendsT; cbn; splits; auto; apply extends_refl.
Qed.

Lemma add_prefix_spec t s i t' :
  WFT t -> x_add_prefix t s = ROk (i, t') ->
  WFT t' /\ extendsT t t' /\ prefix_str t' i = Some s.
Proof.
  intros (Hn & Hs & Hp). unfold x_add_prefix, add_prefix.
  destruct (get_id_mut str_eqb id_width_prefix id_checked_prefix (t_prefixes t) s) as [[i0 m]|] eqn:E; [|discriminate].
  intros H; inversion H; subst i0 t'; clear H. change id_checked_prefix with true in E.
  destruct (get_id_mut_spec _ _ str_eqb_spec _ _ _ _ _ Hp E) as (Hp' & Hv & _).
  pose proof (get_id_mut_extends _ _ str_eqb_spec _ _ _ _ _ Hp E).
  unfold WFT, extendsT; cbn; splits; auto; apply extends_refl.
Qed.

Lemma add_name_ns_spec t s ns i t' :
  WFT t -> x_add_name_ns t s ns = ROk (i, t') ->
  WFT t' /\ extendsT t t' /\ get_value (t_names t') i = Some (s, ns).
Proof.
  intros (Hn & Hs & Hp). unfold x_add_name_ns, add_name_ns.
  destruct (get_id_mut name_eqb id_width_name id_checked_name (t_names t) (s, ns)) as [[i0 m]|] eqn:E; [|discriminate].
  intros H; inversion H; subst i0 t'; clear H. change id_checked_name with true in E.
  destruct (get_id_mut_spec _ _ name_eqb_spec _ _ _ _ _ Hn E) as (Hn' & Hv & _).
  pose proof (get_id_mut_extends _ _ name_eqb_spec _ _ _ _ _ Hn E).
  unfold WFT, extendsT; cbn; splits; auto; apply extends_refl.
Qed.

Lemma html_names_new_spec names : forall t no_ns xhtml t',
  WFT t -> html_names_new id_width_name id_checked_name t no_ns xhtml names = ROk t' -> WFT t' /\ extendsT t t'.
Proof.
  induction names as [|n names IH]; intros t no_ns xhtml t' Hwf; cbn [html_names_new].
  - intros H; inversion H; subst. split; [exact Hwf|apply extendsT_refl].
  - fold x_add_name_ns.
    destruct (x_add_name_ns t n no_ns) as [[i1 t1]|] eqn:E1; [|discriminate].
    destruct (x_add_name_ns t1 (to_ascii_uppercase n) no_ns) as [[i2 t2]|] eqn:E2; [|discriminate].
    destruct (x_add_name_ns t2 n xhtml) as [[i3 t3]|] eqn:E3; [|discriminate].
    destruct (x_add_name_ns t3 (to_ascii_uppercase n) xhtml) as [[i4 t4]|] eqn:E4; [|discriminate].
    intros H.
    destruct (add_name_ns_spec _ _ _ _ _ Hwf E1) as (W1 & X1 & _).
    destruct (add_name_ns_spec _ _ _ _ _ W1 E2) as (W2 & X2 & _).
    destruct (add_name_ns_spec _ _ _ _ _ W2 E3) as (W3 & X3 & _).
    destruct (add_name_ns_spec _ _ _ _ _ W3 E4) as (W4 & X4 & _).
    destruct (IH _ _ _ _ W4 H) as (W5 & X5).
    split; [exact W5|].
    eapply extendsT_trans; [exact X1|]. eapply extendsT_trans; [exact X2|].
    eapply extendsT_trans; [exact X3|]. eapply extendsT_trans; [exact X4|]. exact X5.
Qed.

Lemma html_tables_new_spec tabs : forall t no_ns xhtml t',
  WFT t -> html_tables_new id_width_name id_checked_name t no_ns xhtml tabs = ROk t' -> WFT t' /\ extendsT t t'.
Proof.
  induction tabs as [|tab tabs IH]; intros t no_ns xhtml t' Hwf; cbn [html_tables_new].
  - intros H; inversion H; subst. split; [exact Hwf|apply extendsT_refl].
  - destruct (html_names_new id_width_name id_checked_name t no_ns xhtml tab) as [t1|] eqn:E1; [|discriminate].
    intros H. destruct (html_names_new_spec _ _ _ _ _ Hwf E1) as (W1 & X1).
    destruct (IH _ _ _ _ W1 H) as (W2 & X2). split; [exact W2|eapply extendsT_trans; eauto].
Qed.

Lemma html5_spec t no_ns x m s t' :
  WFT t -> x_html5 t no_ns = ROk (x, m, s, t') ->
  WFT t' /\ extendsT t t'
  /\ namespace_str t' x = Some xhtml_ns /\ namespace_str t' m = Some mathml_ns /\ namespace_str t' s = Some svg_ns.
Proof.
  intros Hwf. unfold x_html5, html5_new. fold x_add_namespace.
  destruct (x_add_namespace t xhtml_ns) as [[x0 t1]|] eqn:E1; [|discriminate].
  destruct (x_add_namespace t1 mathml_ns) as [[m0 t2]|] eqn:E2; [|discriminate].
  destruct (x_add_namespace t2 svg_ns) as [[s0 t3]|] eqn:E3; [|discriminate].
  destruct (html_tables_new id_width_name id_checked_name t3 no_ns x0 html_table_order) as [t4|] eqn:E4; [|discriminate].
  intros H; inversion H; subst x0 m0 s0 t'; clear H.
  destruct (add_namespace_spec _ _ _ _ Hwf E1) as (W1 & X1 & V1).
  destruct (add_namespace_spec _ _ _ _ W1 E2) as (W2 & X2 & V2).
  destruct (add_namespace_spec _ _ _ _ W2 E3) as (W3 & X3 & V3).
  destruct (html_tables_new_spec _ _ _ _ _ W3 E4) as (W4 & X4).
  split; [exact W4|]. split; [eapply extendsT_trans; [exact X1|]; eapply extendsT_trans; [exact X2|]; eapply extendsT_trans; [exact X3|exact X4]|].
  destruct X2 as (_ & X2 & _), X3 as (_ & X3 & _), X4 as (_ & X4 & _).
  unfold namespace_str in *.
  splits.
  - eapply extends_value; [exact X4|]. eapply extends_value; [exact X3|]. eapply extends_value; [exact X2|]. exact V1.
  - eapply extends_value; [exact X4|]. eapply extends_value; [exact X3|]. exact V2.
  - eapply extends_value; [exact X4|]. exact V3.
Qed.

(* what a step's observation guarantees about every LATER state *)
Definition good (t' : tables) (o : iop) (ob : iobs) : Prop :=
  match o, ob with
  | OAddNameNs s ns, ObsId i => get_value (t_names t') i = Some (s, ns)
  | OAddNamespace s, ObsId i => namespace_str t' i = Some s
  | OAddPrefix s, ObsId i => prefix_str t' i = Some s
  | _, _ => True
  end.

Lemma good_mono t t' o ob : extendsT t t' -> good t o ob -> good t' o ob.
Proof.
  intros (A & B & C). destruct o, ob; cbn; auto; unfold namespace_str, prefix_str; intros; eapply extends_value; eauto.
Qed.

Lemma istep_spec b t o b' t' ob :
  WFT t -> istep (b, t) o = ((b', t'), ob) -> b' = b /\ WFT t' /\ extendsT t t' /\ good t' o ob.
Proof.
  intros Hwf. destruct o; cbn [istep].
  - destruct (x_add_name_ns t s ns) as [[i t1]|] eqn:E; intros H; inversion H; subst.
    + destruct (add_name_ns_spec _ _ _ _ _ Hwf E) as (W & X & V). splits; auto.
    + unfold extendsT; splits; auto; try apply Hwf; try apply extends_refl; cbn; auto.
  - destruct (x_add_namespace t s) as [[i t1]|] eqn:E; intros H; inversion H; subst.
    + destruct (add_namespace_spec _ _ _ _ Hwf E) as (W & X & V). splits; auto.
    + unfold extendsT; splits; auto; try apply Hwf; try apply extends_refl; cbn; auto.
  - destruct (x_add_prefix t s) as [[i t1]|] eqn:E; intros H; inversion H; subst.
    + destruct (add_prefix_spec _ _ _ _ Hwf E) as (W & X & V). splits; auto.
    + unfold extendsT; splits; auto; try apply Hwf; try apply extends_refl; cbn; auto.
  - intros H; inversion H; subst. unfold extendsT; splits; auto; try apply Hwf; try apply extends_refl; cbn; auto.
  - intros H; inversion H; subst. unfold extendsT; splits; auto; try apply Hwf; try apply extends_refl; cbn; auto.
  - intros H; inversion H; subst. unfold extendsT; splits; auto; try apply Hwf; try apply extends_refl; cbn; auto.
  - intros H; inversion H; subst. unfold extendsT; splits; auto; try apply Hwf; try apply extends_refl; cbn; auto.
  - intros H; inversion H; subst. unfold extendsT; splits; auto; try apply Hwf; try apply extends_refl; cbn; auto.
  - intros H; inversion H; subst. unfold extendsT; splits; auto; try apply Hwf; try apply extends_refl; cbn; auto.
  - destruct (x_html5 t (b_no_namespace b)) as [[[[x m] s] t1]|] eqn:E; intros H; inversion H; subst.
    + destruct (html5_spec _ _ _ _ _ _ Hwf E) as (W & X & _). splits; auto; cbn; auto.
    + unfold extendsT; splits; auto; try apply Hwf; try apply extends_refl; cbn; auto.
  - intros H; inversion H; subst. unfold extendsT; splits; auto; try apply Hwf; try apply extends_refl; cbn; auto.
Qed.

Lemma irun_spec ops : forall b t b' t' obs,
  WFT t -> irun (b, t) ops = ((b', t'), obs) ->
  b' = b /\ WFT t' /\ extendsT t t' /\ Forall2 (good t') ops obs.
Proof.
  induction ops as [|o ops IH]; intros b t b' t' obs Hwf; cbn [irun].
  - intros H; inversion H; subst. unfold extendsT; splits; auto; try apply extends_refl; constructor.
  - destruct (istep (b, t) o) as [[b1 t1] ob] eqn:E1.
    destruct (irun (b1, t1) ops) as [[b2 t2] obs'] eqn:E2.
    intros H; inversion H; subst b2 t2 obs; clear H.
    destruct (istep_spec _ _ _ _ _ _ Hwf E1) as (-> & W1 & X1 & G1).
    destruct (IH _ _ _ _ _ W1 E2) as (-> & W2 & X2 & G2).
    split; [reflexivity|]. split; [exact W2|]. split; [eapply extendsT_trans; eauto|].
    constructor; [eapply good_mono; eauto|exact G2].
Qed.

Lemma Forall2_nth {A B} (R : A -> B -> Prop) l l' : Forall2 R l l' ->
  forall k a b, nth_error l k = Some a -> nth_error l' k = Some b -> R a b.
Proof.
  induction 1; intros [|k] a b; cbn; try discriminate.
  - intros H1 H2; inversion H1; inversion H2; subst; assumption.
  - apply IHForall2.
Qed.

(* kind of registration and registered value of an operation *)
Definition reg_key (o : iop) : option (N * str * N) :=
  match o with
  | OAddNameNs s ns => Some (0, s, ns)
  | OAddNamespace s => Some (1, s, 0)
  | OAddPrefix s => Some (2, s, 0)
  | _ => None
  end.

Lemma x_new_ok : exists st, x_new = ROk st.
Proof. eexists. vm_compute. reflexivity. Qed.

Lemma x_new_WFT b t : x_new = ROk (b, t) -> WFT t.
Proof.
  unfold x_new, xot_new. fold x_add_namespace x_add_prefix x_add_name_ns.
  destruct (x_add_namespace tables_empty []) as [[i1 t1]|] eqn:E1; [|discriminate].
  destruct (x_add_prefix t1 []) as [[i2 t2]|] eqn:E2; [|discriminate].
  destruct (x_add_namespace t2 s_xml_ns) as [[i3 t3]|] eqn:E3; [|discriminate].
  destruct (x_add_prefix t3 s_xml_prefix) as [[i4 t4]|] eqn:E4; [|discriminate].
  destruct (x_add_name_ns t4 s_space i3) as [[i5 t5]|] eqn:E5; [|discriminate].
  destruct (x_add_name_ns t5 s_id i3) as [[i6 t6]|] eqn:E6; [|discriminate].
  intros H; inversion H; subst.
  destruct (add_namespace_spec _ _ _ _ WFT_empty E1) as (W1 & _).
  destruct (add_prefix_spec _ _ _ _ W1 E2) as (W2 & _).
  destruct (add_namespace_spec _ _ _ _ W2 E3) as (W3 & _).
  destruct (add_prefix_spec _ _ _ _ W3 E4) as (W4 & _).
  destruct (add_name_ns_spec _ _ _ _ _ W4 E5) as (W5 & _).
  destruct (add_name_ns_spec _ _ _ _ _ W5 E6) as (W6 & _). exact W6.
Qed.

(* ---- the property, history level ---- *)

(* two registrations anywhere in a history return the same id exactly when they registered the same value *)
Theorem same_id_iff_same_value st0 ops st' obs :
  x_new = ROk st0 -> irun st0 ops = (st', obs) ->
  forall j k oj ok ia ib kd a na b nb,
    nth_error ops j = Some oj -> nth_error ops k = Some ok ->
    nth_error obs j = Some (ObsId ia) -> nth_error obs k = Some (ObsId ib) ->
    reg_key oj = Some (kd, a, na) -> reg_key ok = Some (kd, b, nb) ->
    (ia = ib <-> (a = b /\ na = nb)).
Proof.
  intros Hnew Hrun j k oj ok ia ib kd a na b nb Hoj Hok Hia Hib Kj Kk.
  destruct st0 as [b0 t0], st' as [b' t'].
  pose proof (x_new_WFT _ _ Hnew) as W0.
  destruct (irun_spec _ _ _ _ _ _ W0 Hrun) as (_ & (Wn & Ws & Wp) & _ & Hall).
  pose proof (Forall2_nth _ _ _ Hall _ _ _ Hoj Hia) as Gj.
  pose proof (Forall2_nth _ _ _ Hall _ _ _ Hok Hib) as Gk.
  destruct oj; cbn in Kj; inversion Kj; subst; clear Kj;
  destruct ok; cbn in Kk; inversion Kk; subst; clear Kk; cbn in Gj, Gk.
  - split.
    + intros ->. unfold get_value in *. rewrite Gj in Gk. inversion Gk; auto.
    + intros [-> ->]. eapply WF_index_unique; [exact Wn|exact Gj|exact Gk].
  - split.
    + intros ->. unfold namespace_str, get_value in *. rewrite Gj in Gk. inversion Gk; auto.
    + intros [-> _]. eapply WF_index_unique; [exact Ws|exact Gj|exact Gk].
  - split.
    + intros ->. unfold prefix_str, get_value in *. rewrite Gj in Gk. inversion Gk; auto.
    + intros [-> _]. eapply WF_index_unique; [exact Wp|exact Gj|exact Gk].
Qed.

(* reachable states *)
Definition reachable (st : istate) : Prop :=
  exists st0 ops obs, x_new = ROk st0 /\ irun st0 ops = (st, obs).

Lemma reachable_WFT b t : reachable (b, t) -> WFT t.
Proof.
  intros ([b0 t0] & ops & obs & Hnew & Hrun).
  destruct (irun_spec _ _ _ _ _ _ (x_new_WFT _ _ Hnew) Hrun) as (_ & W & _). exact W.
Qed.

(* looking an id up returns the string it was registered with *)
Theorem registered_id_resolves b t o b' t' i :
  reachable (b, t) -> istep (b, t) o = ((b', t'), ObsId i) ->
  match o with
  | OAddNameNs s ns => get_value (t_names t') i = Some (s, ns)
  | OAddNamespace s => namespace_str t' i = Some s
  | OAddPrefix s => prefix_str t' i = Some s
  | _ => True
  end.
Proof.
  intros Hr Hs. destruct (istep_spec _ _ _ _ _ _ (reachable_WFT _ _ Hr) Hs) as (_ & _ & _ & G).
  destruct o; cbn in G; auto.
Qed.

(* the read-only lookups find exactly what has been registered *)
Theorem readonly_lookup_exact b t :
  reachable (b, t) ->
  (forall s i, lookup_namespace t s = Some i <-> namespace_str t i = Some s)
  /\ (forall s i, lookup_prefix t s = Some i <-> prefix_str t i = Some s)
  /\ (forall s ns i, lookup_name_ns t s ns = Some i <-> get_value (t_names t) i = Some (s, ns)).
Proof.
  intros Hr. destruct (reachable_WFT _ _ Hr) as (Wn & Ws & Wp). repeat split.
  - apply (get_id_spec _ _ id_width_namespace _ _ _ Ws).
  - apply (get_id_spec _ _ id_width_namespace _ _ _ Ws).
  - apply (get_id_spec _ _ id_width_prefix _ _ _ Wp).
  - apply (get_id_spec _ _ id_width_prefix _ _ _ Wp).
  - apply (get_id_spec _ _ id_width_name _ _ _ Wn).
  - apply (get_id_spec _ _ id_width_name _ _ _ Wn).
Qed.

(* an id never changes meaning as more entries are added (or the Xot is cloned: OClone is the identity) *)
Theorem id_meaning_stable b t ops b' t' obs :
  reachable (b, t) -> irun (b, t) ops = ((b', t'), obs) ->
  (forall i s, namespace_str t i = Some s -> namespace_str t' i = Some s)
  /\ (forall i s, prefix_str t i = Some s -> prefix_str t' i = Some s)
  /\ (forall i v, get_value (t_names t) i = Some v -> get_value (t_names t') i = Some v)
  /\ (forall i v, name_ns_str t i = Some v -> name_ns_str t' i = Some v).
Proof.
  intros Hr Hrun.
  destruct (irun_spec _ _ _ _ _ _ (reachable_WFT _ _ Hr) Hrun) as (_ & _ & (A & B & C) & _).
  unfold namespace_str, prefix_str, name_ns_str. repeat split; intros.
  - eapply extends_value; eauto.
  - eapply extends_value; eauto.
  - eapply extends_value; eauto.
  - destruct (get_value (t_names t) i) as [[l ns]|] eqn:E; [|discriminate].
    rewrite (extends_value _ _ _ _ _ A E).
    destruct (get_value (t_namespaces t) ns) eqn:E2; [|discriminate].
    rewrite (extends_value _ _ _ _ _ B E2). assumption.
Qed.

(* names are equal exactly when their (local name, namespace id) pairs are equal *)
Theorem name_ids_equal_iff_expanded_equal b t i j vi vj :
  reachable (b, t) ->
  get_value (t_names t) i = Some vi -> get_value (t_names t) j = Some vj ->
  (i = j <-> vi = vj).
Proof.
  intros Hr Hi Hj. destruct (reachable_WFT _ _ Hr) as (Wn & _). split.
  - intros ->. congruence.
  - intros ->. eapply WF_index_unique; [exact Wn| |]; eauto.
Qed.

Theorem namespace_ids_equal_iff_uri_equal b t i j ui uj :
  reachable (b, t) ->
  namespace_str t i = Some ui -> namespace_str t j = Some uj ->
  (i = j <-> ui = uj).
Proof.
  intros Hr Hi Hj. destruct (reachable_WFT _ _ Hr) as (_ & Ws & _). split.
  - intros ->. unfold namespace_str in *. congruence.
  - intros ->. eapply WF_index_unique; [exact Ws|exact Hi|exact Hj].
Qed.

(* a registration panics only when its table already holds 2^width entries *)
Theorem registration_panics_only_when_full b t o :
  reachable (b, t) -> snd (istep (b, t) o) = ObsPanic ->
  match o with
  | OAddNameNs _ _ => 2 ^ id_width_name <= N.of_nat (length (by_id (t_names t)))
  | OAddNamespace _ => 2 ^ id_width_namespace <= N.of_nat (length (by_id (t_namespaces t)))
  | OAddPrefix _ => 2 ^ id_width_prefix <= N.of_nat (length (by_id (t_prefixes t)))
  | OHtml5 => True
  | _ => False
  end.
Proof.
  intros _. destruct o; cbn [istep snd]; try discriminate; auto.
  - unfold x_add_name_ns, add_name_ns.
    destruct (get_id_mut name_eqb id_width_name id_checked_name (t_names t) (s, ns)) as [[i m]|] eqn:E; [discriminate|].
    intros _. apply (get_id_mut_panic _ name_eqb _ _ _ E).
  - unfold x_add_namespace, add_namespace.
    destruct (get_id_mut str_eqb id_width_namespace id_checked_namespace (t_namespaces t) s) as [[i m]|] eqn:E; [discriminate|].
    intros _. apply (get_id_mut_panic _ str_eqb _ _ _ E).
  - unfold x_add_prefix, add_prefix.
    destruct (get_id_mut str_eqb id_width_prefix id_checked_prefix (t_prefixes t) s) as [[i m]|] eqn:E; [discriminate|].
    intros _. apply (get_id_mut_panic _ str_eqb _ _ _ E).
Qed.

(* the built-in ids are distinct and resolve to their standard strings *)
Theorem builtins_standard :
  exists b t, x_new = ROk (b, t)
    /\ b_no_namespace b <> b_xml_namespace b /\ b_empty_prefix b <> b_xml_prefix b /\ b_xml_space b <> b_xml_id b
    /\ namespace_str t (b_no_namespace b) = Some []
    /\ prefix_str t (b_empty_prefix b) = Some []
    /\ namespace_str t (b_xml_namespace b)
       = Some [104; 116; 116; 112; 58; 47; 47; 119; 119; 119; 46; 119; 51; 46; 111; 114; 103; 47; 88; 77; 76; 47;
               49; 57; 57; 56; 47; 110; 97; 109; 101; 115; 112; 97; 99; 101]   (* http://www.w3.org/XML/1998/namespace *)
    /\ prefix_str t (b_xml_prefix b) = Some [120; 109; 108]                    (* xml *)
    /\ get_value (t_names t) (b_xml_space b) = Some ([115; 112; 97; 99; 101], b_xml_namespace b)   (* space *)
    /\ get_value (t_names t) (b_xml_id b) = Some ([105; 100], b_xml_namespace b).                  (* id *)
Proof.
  eexists. eexists. split; [vm_compute; reflexivity|]. splits; vm_compute; try reflexivity; intros H; discriminate H.
Qed.

(* non-vacuity: a concrete history with repeated and fresh registrations meets the hypotheses *)
Example history_example :
  exists st0 st' obs,
    x_new = ROk st0
    /\ irun st0 [OAddNamespace [117]; OAddNameNs [97] 2; OAddNamespace [117]; OAddNameNs [97] 0; OAddPrefix [112]; OHtml5;
                 OAddNameNs [97] 0; OLookupNamespace [117]] = (st', obs)
    /\ obs = [ObsId 2; ObsId 2; ObsId 2; ObsId 3; ObsId 2; ObsHtml 3 4 5; ObsId 3; ObsOptId (Some 2)].
Proof. eexists. eexists. eexists. split; [vm_compute; reflexivity|]. split; vm_compute; reflexivity. Qed.
