(* PrettyProofs.v — indentation (Model/XmlSer.v, section Pretty = src/output/pretty.rs) adds white space only, and none
   inside mixed content, inside the scope of xml:space="preserve" or inside a suppressed element (C14). *)
From Coq Require Import List NArith Bool Lia.
From XotV Require Import Model.Base Model.Zipper Model.Access Model.Fullname Model.Scope Model.Entity Model.XmlSer.
Import ListNotations.
Open Scope N_scope.

Section P.
  Variable nm : names.
  Variables (is_suppressed is_inline : nameid -> bool).

  (* the stack says "no white space here" when an enclosing element is mixed / suppressed, or the innermost xml:space
     decision is preserve *)
  Definition quiet (st : list sentry) : bool := in_mixed st || in_space_preserve st.

  Lemma get_indentation_quiet st : quiet st = true -> get_indentation st = O.
  Proof. unfold quiet, get_indentation. intros ->. reflexivity. Qed.

  Lemma get_newline_quiet st : quiet st = true -> get_newline st = false.
  Proof.
    unfold quiet, get_newline. intros H. apply orb_true_iff in H as [H|H]; rewrite H; cbn; [reflexivity|].
    apply andb_false_r.
  Qed.

  (* one output event: indentation is written before it only if the stack before it is not quiet, a newline after it only
     if the stack after it is not quiet *)
  Theorem prettify_quiet st z o st' ind nl :
    prettify nm is_suppressed is_inline st z o = (st', ind, nl) ->
    (quiet st = true -> ind = O) /\ (quiet st' = true -> nl = false).
  Proof.
    unfold prettify. destruct o as [name| |name|p ns|name v|s|s|t d].
    - intros H; inversion H; subst. split; [apply get_indentation_quiet|reflexivity].
    - destruct (has_children z).
      + destruct (negb (has_inline_child is_inline z)).
        * intros H; inversion H; subst. split; [reflexivity|apply get_newline_quiet].
        * intros H; inversion H; subst. split; reflexivity.
      + intros H; inversion H; subst. split; reflexivity.
    - destruct (has_children z).
      + intros H; inversion H; subst. split.
        * intros Hq. unfold quiet in Hq. rewrite Hq. reflexivity.
        * apply get_newline_quiet.
      + intros H; inversion H; subst. split; [reflexivity|apply get_newline_quiet].
    - intros H; inversion H; subst. split; reflexivity.
    - intros H; inversion H; subst. split; reflexivity.
    - intros H; inversion H; subst. split; reflexivity.
    - intros H; inversion H; subst. split; [apply get_indentation_quiet|apply get_newline_quiet].
    - intros H; inversion H; subst. split; [apply get_indentation_quiet|apply get_newline_quiet].
  Qed.

  (* text is never indented and never followed by a newline of the printer's own *)
  Theorem prettify_text st z s : prettify nm is_suppressed is_inline st z (OText s) = (st, O, false).
  Proof. reflexivity. Qed.

  (* what makes the stack quiet: an element with a text (or inline) child, a suppressed element, xml:space="preserve" *)
  Theorem start_tag_close_pushes st z st' ind nl :
    has_children z = true ->
    prettify nm is_suppressed is_inline st z OStartTagClose = (st', ind, nl) ->
    st' = (if negb (has_inline_child is_inline z)
           then (if match z_val z with VElement n => is_suppressed n | _ => false end then Mixed else Unmixed (element_space nm z))
           else Mixed) :: st.
  Proof.
    intros Hc. unfold prettify. rewrite Hc. destruct (negb (has_inline_child is_inline z)).
    - destruct (match z_val z with VElement n => is_suppressed n | _ => false end); intros H; inversion H; reflexivity.
    - intros H; inversion H; reflexivity.
  Qed.

  Lemma quiet_mixed st : quiet (Mixed :: st) = true.
  Proof. reflexivity. Qed.

  Lemma quiet_preserve st : in_mixed st = false -> quiet (Unmixed SpPreserve :: st) = true.
  Proof. unfold quiet, in_mixed. cbn. intros ->. reflexivity. Qed.

  (* quietness is inherited by descendants: until the entry is popped, whatever is pushed on top ... *)
  Lemma quiet_mixed_below e st : in_mixed st = true -> quiet (e :: st) = true.
  Proof. unfold quiet, in_mixed. cbn [existsb]. intros H. rewrite H. rewrite orb_true_r. reflexivity. Qed.

  (* ... except that a nested xml:space="default" switches indentation back on below a preserve (the innermost wins) *)
  Lemma quiet_preserve_below st : in_space_preserve st = true -> quiet (Unmixed SpEmpty :: st) = true /\ quiet (Unmixed SpPreserve :: st) = true.
  Proof. unfold quiet. cbn. intros ->. rewrite !orb_true_r. split; reflexivity. Qed.

  (* the written text of a pretty token: indentation (spaces), the plain token, at most one line feed *)
  Theorem ptoken_text_shape (t : ptoken) :
    ptoken_text t = spaces (pt_indent t) ++ (if pt_space t then [32] else []) ++ pt_text t ++ (if pt_newline t then [10] else []).
  Proof. reflexivity. Qed.

  Lemma spaces_are_spaces n : Forall (fun c => c = 32) (spaces n).
  Proof. induction n as [|n IH]; cbn; [constructor|]. constructor; [reflexivity|]. constructor; [reflexivity|exact IH]. Qed.
End P.
