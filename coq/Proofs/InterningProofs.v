(* Proofs about Model/Interning.v: the id map is a duplicate-free registry, id = position. *)
From Coq Require Import List NArith Bool Lia.
From XotV Require Import Model.Base Model.Interning.
Import ListNotations.
Open Scope N_scope.

Section IdMapProofs.
  Variable V : Type.
  Variable veqb : V -> V -> bool.
  Hypothesis veqb_spec : forall a b, veqb a b = true <-> a = b.
  Variable W : N.

  Notation get_id_mut := (get_id_mut veqb W true).
  Notation get_id := (get_id veqb).
  Notation assoc := (assoc veqb).

  Lemma veqb_refl a : veqb a a = true.
  Proof. apply veqb_spec; reflexivity. Qed.

  Lemma veqb_neq a b : a <> b -> veqb a b = false.
  Proof. intros H. destruct (veqb a b) eqn:E; [apply veqb_spec in E; contradiction|reflexivity]. Qed.

  (* The invariant: the HashMap is exactly the inverse of the Vec, and the Vec fits the id width. *)
  Definition WF (m : idmap V) : Prop :=
    (forall v i, assoc v (by_value m) = Some i <-> nth_error (by_id m) (N.to_nat i) = Some v)
    /\ N.of_nat (length (by_id m)) <= 2 ^ W.

  Lemma WF_new : WF idmap_new.
  Proof.
    split.
    - intros v i; cbn. split; [discriminate|]. destruct (N.to_nat i); discriminate.
    - cbn. apply N.le_0_l.
  Qed.

  Lemma WF_index_unique m v i j :
    WF m -> nth_error (by_id m) (N.to_nat i) = Some v -> nth_error (by_id m) (N.to_nat j) = Some v -> i = j.
  Proof.
    intros [H _] Hi Hj. apply H in Hi. apply H in Hj. congruence.
  Qed.

  Lemma WF_NoDup m : WF m -> NoDup (by_id m).
  Proof.
    intros Hwf. apply NoDup_nth_error. intros a b Ha Heq.
    destruct (nth_error (by_id m) a) eqn:E.
    - assert (N.of_nat a = N.of_nat b) as Hab.
      { apply (WF_index_unique m v); auto; rewrite Nat2N.id; congruence. }
      apply Nat2N.inj; exact Hab.
    - apply nth_error_None in E. lia.
  Qed.

  Lemma nth_error_snoc (l : list V) (x : V) k :
    nth_error (l ++ [x]) k =
      if Nat.ltb k (length l) then nth_error l k
      else if Nat.eqb k (length l) then Some x else None.
  Proof.
    destruct (Nat.ltb_spec k (length l)).
    - apply nth_error_app1; assumption.
    - rewrite nth_error_app2 by assumption.
      destruct (Nat.eqb_spec k (length l)).
      + subst. rewrite PeanoNat.Nat.sub_diag. reflexivity.
      + destruct (k - length l)%nat eqn:E; [lia|]. cbn. destruct n0; reflexivity.
  Qed.

  (* one registration *)
  Lemma get_id_mut_spec m v i m' :
    WF m -> get_id_mut m v = ROk (i, m') ->
    WF m' /\ nth_error (by_id m') (N.to_nat i) = Some v
    /\ ((In v (by_id m) /\ m' = m) \/ (~ In v (by_id m) /\ by_id m' = by_id m ++ [v] /\ i = N.of_nat (length (by_id m)))).
  Proof.
    intros Hwf. unfold Interning.get_id_mut.
    destruct (assoc v (by_value m)) as [i0|] eqn:Ea.
    - intros H; inversion H; subst i0 m'; clear H.
      pose proof Hwf as [Hinv _]. apply Hinv in Ea.
      split; [exact Hwf|]. split; [exact Ea|]. left. split; [|reflexivity].
      eapply nth_error_In; exact Ea.
    - unfold to_id. destruct (N.ltb_spec (N.of_nat (length (by_id m))) (2 ^ W)) as [Hlt|Hge]; [|discriminate].
      intros H; inversion H; subst i m'; clear H. cbn [by_id by_value].
      destruct Hwf as [Hinv Hcap].
      assert (Hnot : ~ In v (by_id m)).
      { intros Hin. apply In_nth_error in Hin. destruct Hin as [k Hk].
        assert (assoc v (by_value m) = Some (N.of_nat k)) by (apply Hinv; rewrite Nat2N.id; exact Hk).
        congruence. }
      split; [split|].
      + intros v' i'. cbn [Interning.assoc by_id by_value]. rewrite nth_error_snoc.
        destruct (veqb v v') eqn:Ev.
        * apply veqb_spec in Ev; subst v'.
          split.
          -- intros H; inversion H; subst i'. rewrite Nat2N.id.
             rewrite PeanoNat.Nat.ltb_irrefl, PeanoNat.Nat.eqb_refl. reflexivity.
          -- destruct (Nat.ltb_spec (N.to_nat i') (length (by_id m))).
             ++ intros Hn. exfalso. apply Hnot. eapply nth_error_In; exact Hn.
             ++ destruct (Nat.eqb_spec (N.to_nat i') (length (by_id m))) as [He|]; [|discriminate].
                intros _. f_equal. rewrite <- He. rewrite N2Nat.id. reflexivity.
        * rewrite Hinv.
          destruct (Nat.ltb_spec (N.to_nat i') (length (by_id m))).
          -- reflexivity.
          -- split.
             ++ intros Hn. assert (nth_error (by_id m) (N.to_nat i') <> None) by congruence.
                apply nth_error_Some in H0. lia.
             ++ destruct (Nat.eqb (N.to_nat i') (length (by_id m))); [|discriminate].
                intros Hx; inversion Hx; subst v'. rewrite veqb_refl in Ev. discriminate.
      + cbn [by_id]. rewrite app_length. cbn [length]. lia.
      + split.
        * cbn [by_id]. rewrite Nat2N.id, nth_error_snoc, PeanoNat.Nat.ltb_irrefl, PeanoNat.Nat.eqb_refl. reflexivity.
        * right. auto.
  Qed.

  (* read-only lookup finds exactly what has been registered *)
  Lemma get_id_spec m v i :
    WF m -> (get_id m v = Some i <-> get_value m i = Some v).
  Proof. intros [H _]. apply H. Qed.

  Lemma get_id_none m v : WF m -> (get_id m v = None <-> ~ In v (by_id m)).
  Proof.
    intros [H _]. unfold Interning.get_id. split.
    - intros Hn Hin. apply In_nth_error in Hin. destruct Hin as [k Hk].
      assert (assoc v (by_value m) = Some (N.of_nat k)) by (apply H; rewrite Nat2N.id; exact Hk). congruence.
    - intros Hn. destruct (assoc v (by_value m)) eqn:E; [|reflexivity].
      apply H in E. exfalso. apply Hn. eapply nth_error_In; exact E.
  Qed.

  (* extension never changes the meaning of an existing id *)
  Definition extends (m m' : idmap V) : Prop := exists ext, by_id m' = by_id m ++ ext.

  Lemma extends_refl m : extends m m.
  Proof. exists []. rewrite app_nil_r. reflexivity. Qed.

  Lemma extends_trans a b c : extends a b -> extends b c -> extends a c.
  Proof. intros [x Hx] [y Hy]. exists (x ++ y). rewrite Hy, Hx, app_assoc. reflexivity. Qed.

  Lemma extends_value m m' i v : extends m m' -> get_value m i = Some v -> get_value m' i = Some v.
  Proof.
    intros [ext He] H. unfold get_value in *. rewrite He. rewrite nth_error_app1; [exact H|].
    apply nth_error_Some. congruence.
  Qed.

  Lemma get_id_mut_extends m v i m' : WF m -> get_id_mut m v = ROk (i, m') -> extends m m'.
  Proof.
    intros Hwf H. destruct (get_id_mut_spec _ _ _ _ Hwf H) as (_ & _ & [[_ ->]|(_ & He & _)]).
    - apply extends_refl.
    - exists [v]. exact He.
  Qed.

  Lemma extends_get_id m m' v i : WF m -> WF m' -> extends m m' -> get_id m v = Some i -> get_id m' v = Some i.
  Proof.
    intros Hm Hm' He H. apply (get_id_spec _ _ _ Hm) in H. apply (get_id_spec _ _ _ Hm').
    eapply extends_value; eauto.
  Qed.

  (* a whole history of registrations on one table *)
  Fixpoint run (m : idmap V) (vs : list V) : res (list N * idmap V) :=
    match vs with
    | [] => ROk ([], m)
    | v :: vs' =>
        match get_id_mut m v with
        | RPanic => RPanic
        | ROk (i, m1) =>
            match run m1 vs' with
            | RPanic => RPanic
            | ROk (is, m2) => ROk (i :: is, m2)
            end
        end
    end.

  Lemma run_spec vs : forall m is m',
    WF m -> run m vs = ROk (is, m') ->
    WF m' /\ extends m m' /\ Forall2 (fun v i => get_value m' i = Some v) vs is.
  Proof.
    induction vs as [|v vs IH]; intros m is m' Hwf; cbn [run].
    - intros H; inversion H; subst. split; [exact Hwf|]. split; [apply extends_refl|constructor].
    - destruct (get_id_mut m v) as [[i m1]|] eqn:E1; [|discriminate].
      destruct (run m1 vs) as [[is' m2]|] eqn:E2; [|discriminate].
      intros H; inversion H; subst is m'; clear H.
      destruct (get_id_mut_spec _ _ _ _ Hwf E1) as (Hwf1 & Hn1 & _).
      pose proof (get_id_mut_extends _ _ _ _ Hwf E1) as He1.
      destruct (IH _ _ _ Hwf1 E2) as (Hwf2 & He2 & Hall).
      split; [exact Hwf2|]. split; [eapply extends_trans; eauto|].
      constructor; [|exact Hall]. eapply extends_value; eauto.
  Qed.

  (* THE interning law: in any panic-free history, two registrations return the same id exactly
     when they registered the same value; and the id looks up to that value afterwards. *)
  Theorem run_injective vs m is m' :
    WF m -> run m vs = ROk (is, m') ->
    forall j k a b ia ib,
      nth_error vs j = Some a -> nth_error vs k = Some b ->
      nth_error is j = Some ia -> nth_error is k = Some ib ->
      (ia = ib <-> a = b).
  Proof.
    intros Hwf Hrun j k a b ia ib Ha Hb Hia Hib.
    destruct (run_spec _ _ _ _ Hwf Hrun) as (Hwf' & _ & Hall).
    assert (Hva : get_value m' ia = Some a).
    { clear - Hall Ha Hia. revert j Ha Hia. induction Hall; intros [|j]; cbn; try discriminate.
      - intros H1 H2; inversion H1; inversion H2; subst; assumption.
      - apply IHHall. }
    assert (Hvb : get_value m' ib = Some b).
    { clear - Hall Hb Hib. revert k Hb Hib. induction Hall; intros [|k]; cbn; try discriminate.
      - intros H1 H2; inversion H1; inversion H2; subst; assumption.
      - apply IHHall. }
    split.
    - intros ->. unfold get_value in *. congruence.
    - intros ->. eapply WF_index_unique; eauto.
  Qed.

  (* with the checked conversion a registration never yields an id outside the width *)
  Lemma get_id_mut_in_range m v i m' : WF m -> get_id_mut m v = ROk (i, m') -> i < 2 ^ W.
  Proof.
    intros Hwf H. destruct (get_id_mut_spec _ _ _ _ Hwf H) as ([_ Hcap] & Hn & _).
    assert (nth_error (by_id m') (N.to_nat i) <> None) by congruence.
    apply nth_error_Some in H0. lia.
  Qed.
  Lemma get_id_mut_panic m v : get_id_mut m v = RPanic -> 2 ^ W <= N.of_nat (length (by_id m)).
  Proof.
    unfold Interning.get_id_mut, to_id. destruct (assoc v (by_value m)); [discriminate|].
    destruct (N.ltb_spec (N.of_nat (length (by_id m))) (2 ^ W)); [discriminate|auto].
  Qed.
End IdMapProofs.

(* With the unchecked conversion (`index as uN`) the law is FALSE as soon as the table outgrows the width:
   entry number 2^W receives id 0.  Stated for a small symbolic width so that it can be computed. *)
Lemma unchecked_aliases :
  exists vs is m',
    let run := fix run (m : idmap N) (vs : list N) : list N * idmap N :=
      match vs with
      | [] => ([], m)
      | v :: vs' => match Interning.get_id_mut N.eqb 2 false m v with
                    | RPanic => ([], m)
                    | ROk (i, m1) => let '(is, m2) := run m1 vs' in (i :: is, m2)
                    end
      end in
    run idmap_new vs = (is, m') /\ nth_error vs 0 <> nth_error vs 4 /\ nth_error is 0 = nth_error is 4.
Proof.
  exists [10; 11; 12; 13; 14]. eexists. eexists. cbn -[nth_error]. split; [reflexivity|].
  split; cbn; congruence.
Qed.
