(* AccessProofs.v — xot's pointer-chasing iterators enumerate exactly the document-order lists of
   Spec/DocOrder.v (and therefore terminate within the fuel they are given). *)
From Coq Require Import List NArith Bool Lia Permutation.
From XotV Require Import Model.Base Model.Zipper Model.Access Spec.DocOrder Proofs.ZipperProofs.
Import ListNotations.
Open Scope N_scope.

Definition rest (z : zipper) : list node := sub z ++ post z.

(* ---------- indextree iterators: their slots ---------- *)

Lemma zs_forest_slots f : forall ups before, pairs_of (zs_forest ups before f) = nodes f.
Proof.
  unfold pairs_of.
  induction f as [|i v k IHk r IHr]; intros ups before; cbn; [reflexivity|].
  rewrite map_app, IHk, IHr. reflexivity.
Qed.

Theorem arena_descendants_slots z : pairs_of (arena_descendants z) = zpair z :: sub z.
Proof. unfold arena_descendants, sub. cbn. f_equal. apply zs_forest_slots. Qed.

Lemma ancestors_fuel_slots fuel : forall z, (length (z_ups z) <= fuel)%nat ->
  pairs_of (ancestors_fuel fuel z) = zpair z :: ancestor_slots z.
Proof.
  unfold ancestor_slots.
  induction fuel as [|f IH]; intros z Hl; cbn.
  - destruct (z_ups z); [reflexivity|cbn in Hl; lia].
  - unfold up. destruct (z_ups z) as [|fr ups'] eqn:E; [reflexivity|].
    cbn. f_equal. rewrite IH; cbn; [reflexivity|cbn in Hl; lia].
Qed.

Theorem ancestors_slots z : pairs_of (ancestors z) = zpair z :: ancestor_slots z.
Proof. apply ancestors_fuel_slots. lia. Qed.

(* ---------- Following ---------- *)

Lemma climb_right_spec fuel : forall z,
  (length (z_ups z) < fuel)%nat ->
  match climb_right fuel z with
  | None => post_ups (z_ups z) = []
  | Some z' => post_ups (z_ups z) = zpair z' :: rest z' /\ plug z' = plug z
  end.
Proof.
  induction fuel as [|f IH]; intros z Hl; [lia|].
  cbn [climb_right]. unfold parent.
  destruct (up z) as [p|] eqn:Eup.
  - destruct (up_ups _ _ Eup) as (fr & Hups & _ & _ & Haft & _).
    pose proof (plug_up _ _ Eup) as Hplug.
    destruct (right p) as [s|] eqn:Er.
    + pose proof (plug_right _ _ Er) as Hpr.
      unfold right in Er. destruct (z_after p) as [|i v k r] eqn:Ea; [discriminate|].
      inversion Er; subst s; clear Er. split; [|congruence].
      rewrite Hups. cbn. rewrite <- Haft.
      unfold rest, sub, post; cbn. rewrite <- app_assoc. reflexivity.
    + unfold right in Er. destruct (z_after p) as [|i v k r] eqn:Ea; [|discriminate].
      specialize (IH p). rewrite Hups in Hl. cbn in Hl.
      assert (length (z_ups p) < f)%nat as Hl' by lia. specialize (IH Hl').
      rewrite Hups. cbn [post_ups]. rewrite <- Haft. cbn [nodes app].
      destruct (climb_right f p) as [z'|]; [|exact IH].
      destruct IH as [IH1 IH2]. split; [exact IH1|congruence].
  - unfold up in Eup. destruct (z_ups z); [reflexivity|discriminate].
Qed.

Lemma following_start_spec z :
  match following_start z with
  | None => post z = []
  | Some z' => post z = zpair z' :: rest z' /\ plug z' = plug z
  end.
Proof.
  unfold following_start. destruct (right z) as [s|] eqn:Er.
  - pose proof (plug_right _ _ Er) as Hp.
    unfold right in Er. destruct (z_after z) as [|i v k r] eqn:Ea; [discriminate|].
    inversion Er; subst s; clear Er. split; [|exact Hp].
    unfold post, rest, sub, post; cbn. rewrite Ea. cbn. rewrite <- app_assoc. reflexivity.
  - unfold right in Er. destruct (z_after z) as [|i v k r] eqn:Ea; [|discriminate].
    pose proof (climb_right_spec (S (length (z_ups z))) z) as H.
    assert (length (z_ups z) < S (length (z_ups z)))%nat as Hl by lia. specialize (H Hl).
    unfold post. rewrite Ea. cbn. exact H.
Qed.

Lemma fo_step_spec z :
  match fo_step z with
  | None => rest z = []
  | Some z' => rest z = zpair z' :: rest z' /\ plug z' = plug z
  end.
Proof.
  unfold fo_step. destruct (down_first z) as [c|] eqn:Ed.
  - pose proof (plug_down_first _ _ Ed) as Hp.
    unfold down_first in Ed. destruct (z_kids z) as [|i v k r] eqn:Ek; [discriminate|].
    inversion Ed; subst c; clear Ed. split; [|exact Hp].
    unfold rest, sub, post; cbn. rewrite Ek. cbn. rewrite <- !app_assoc. reflexivity.
  - unfold down_first in Ed. destruct (z_kids z) as [|i v k r] eqn:Ek; [|discriminate].
    pose proof (following_start_spec z) as H. unfold rest, sub. rewrite Ek. cbn. exact H.
Qed.

Lemma fo_iter_spec fuel : forall z, (length (rest z) < fuel)%nat ->
  pairs_of (fo_iter fuel (Some z)) = zpair z :: rest z
  /\ Forall (fun y => plug y = plug z) (fo_iter fuel (Some z)).
Proof.
  induction fuel as [|f IH]; intros z Hl; [lia|]. cbn [fo_iter].
  pose proof (fo_step_spec z) as Hs.
  destruct (fo_step z) as [z'|].
  - destruct Hs as [Hr Hp]. rewrite Hr in Hl. cbn in Hl.
    destruct (IH z') as [IH1 IH2]; [lia|].
    split.
    + unfold pairs_of in *. cbn. rewrite IH1, Hr. reflexivity.
    + constructor; [reflexivity|]. eapply Forall_impl; [|exact IH2]. cbn. intros a Ha. congruence.
  - rewrite Hs. split.
    + destruct f; reflexivity.
    + constructor; [reflexivity|]. destruct f; constructor.
Qed.

(* all_following: exactly what follows the subtree in document order; the fuel (tree size) suffices *)
Theorem all_following_slots z : pairs_of (all_following z) = post z.
Proof.
  unfold all_following. pose proof (following_start_spec z) as H.
  destruct (following_start z) as [z'|].
  - destruct H as [Hpost Hplug]. rewrite Hpost.
    apply fo_iter_spec. rewrite tree_size_split. rewrite Hpost. cbn. lia.
  - rewrite H. destruct (tree_size z); reflexivity.
Qed.

Lemma filter_slots (p : zipper -> bool) (q : node -> bool) l :
  (forall z, In z l -> p z = q (zpair z)) -> pairs_of (filter p l) = filter q (pairs_of l).
Proof.
  unfold pairs_of. induction l as [|a l IH]; intros H; cbn; [reflexivity|].
  rewrite (H a) by (left; reflexivity). destruct (q (zpair a)); cbn; rewrite IH; auto; intros; apply H; right; auto.
Qed.

(* ---------- ReversePreorder ---------- *)

Lemma frev_cons_nodes f i v k r : frev f = FCons i v k r -> nodes f = rids r ++ (i, v) :: nodes k.
Proof. intros H. rewrite <- rnodes_frev, H. reflexivity. Qed.

Lemma frev_cons_size f i v k r : frev f = FCons i v k r -> fsize f = S (fsize k + fsize r).
Proof.
  intros H. assert (fsize (frev f) = fsize f) as Hs.
  { unfold frev. rewrite fsize_frev_app. cbn. lia. }
  rewrite <- Hs, H. reflexivity.
Qed.

(* the rightmost deepest descendant is the last node of the subtree in document order *)
Lemma deepest_last_spec fuel : forall z, (fsize (z_kids z) < fuel)%nat ->
  let d := deepest_last fuel z in
  pre d ++ [zpair d] = pre z ++ zpair z :: sub z /\ plug d = plug z /\ z_kids d = FNil.
Proof.
  induction fuel as [|f IH]; intros z Hl; [lia|]. cbn [deepest_last].
  destruct (down_last z) as [l|] eqn:Ed.
  - pose proof (plug_down_last _ _ Ed) as Hp.
    unfold down_last in Ed. destruct (frev (z_kids z)) as [|i v k r] eqn:Ek; [discriminate|].
    inversion Ed; subst l; clear Ed.
    pose proof (frev_cons_size _ _ _ _ _ Ek) as Hsz.
    set (l := {| z_slot := i; z_val := v; z_kids := k; z_before := r; z_after := FNil;
                 z_ups := {| fr_slot := z_slot z; fr_val := z_val z; fr_before := z_before z; fr_after := z_after z |} :: z_ups z |}) in *.
    destruct (IH l) as (H1 & H2 & H3); [cbn; lia|].
    cbv zeta. split; [|split; [congruence|exact H3]].
    rewrite H1. unfold pre, sub; cbn. rewrite (frev_cons_nodes _ _ _ _ _ Ek).
    rewrite <- !app_assoc. cbn. reflexivity.
  - unfold down_last in Ed. destruct (frev (z_kids z)) eqn:Ek; [|discriminate].
    apply frev_nil in Ek. cbv zeta. unfold sub. rewrite Ek. cbn. auto.
Qed.

Lemma rp_step_spec size z : (tree_size z <= size)%nat ->
  match rp_step size z with
  | None => pre z = []
  | Some z' => pre z = pre z' ++ [zpair z'] /\ plug z' = plug z
  end.
Proof.
  intros Hsz. unfold rp_step. destruct (left z) as [p|] eqn:El.
  - pose proof (plug_left _ _ El) as Hp.
    unfold left in El. destruct (z_before z) as [|i v k r] eqn:Eb; [discriminate|].
    inversion El; subst p; clear El.
    set (p := {| z_slot := i; z_val := v; z_kids := k; z_before := r;
                 z_after := FCons (z_slot z) (z_val z) (z_kids z) (z_after z); z_ups := z_ups z |}) in *.
    assert (fsize (z_kids p) < size)%nat as Hl.
    { assert (tree_size p = tree_size z) as Ht by (unfold tree_size; congruence).
      rewrite tree_size_split in Ht. unfold sub in Ht. rewrite nodes_length in Ht. lia. }
    destruct (deepest_last_spec size p Hl) as (H1 & H2 & _).
    split; [|congruence]. rewrite H1. unfold pre, sub; cbn. rewrite Eb. cbn.
    rewrite <- !app_assoc. reflexivity.
  - unfold left in El. destruct (z_before z) as [|i v k r] eqn:Eb; [|discriminate].
    unfold parent. destruct (up z) as [q|] eqn:Eu.
    + pose proof (plug_up _ _ Eu) as Hp.
      destruct (up_ups _ _ Eu) as (fr & Hups & Hs & Hb & _).
      split; [|exact Hp]. unfold pre. rewrite Hups, Eb, Hb, Hs. cbn. rewrite app_nil_r, <- app_assoc. reflexivity.
    + unfold up in Eu. destruct (z_ups z) eqn:Eups; [|discriminate].
      unfold pre. rewrite Eups, Eb. reflexivity.
Qed.

Lemma rp_iter_spec fuel size : forall z, (length (pre z) < fuel)%nat -> (tree_size z <= size)%nat ->
  pairs_of (rp_iter fuel size (Some z)) = zpair z :: rev (pre z).
Proof.
  induction fuel as [|f IH]; intros z Hl Hsz; [lia|]. cbn [rp_iter].
  pose proof (rp_step_spec size z Hsz) as Hs.
  destruct (rp_step size z) as [z'|].
  - destruct Hs as [Hpre Hplug]. unfold pairs_of in *. cbn. f_equal.
    rewrite Hpre. rewrite rev_app_distr. cbn.
    rewrite Hpre, app_length in Hl. cbn in Hl.
    apply IH; [lia|]. unfold tree_size in *. rewrite Hplug. exact Hsz.
  - rewrite Hs. destruct f; reflexivity.
Qed.

(* all_reverse_preorder: the node, then everything before it, in reverse document order *)
Theorem all_reverse_preorder_slots z : pairs_of (all_reverse_preorder z) = zpair z :: rev (pre z).
Proof.
  unfold all_reverse_preorder. apply rp_iter_spec; [|lia]. rewrite tree_size_split. lia.
Qed.

(* ---------- the partition law on raw document order ---------- *)

(* [pre] interleaves the ancestors (outermost first) with the preceding nodes *)
Lemma pre_ups_perm ups : Permutation (pre_ups ups) (rev (map frpair ups) ++ before_ups ups).
Proof.
  induction ups as [|fr ups IH]; cbn; [constructor|].
  rewrite IH. rewrite <- !app_assoc.
  apply Permutation_app_head.
  rewrite (app_assoc (before_ups ups)).
  apply Permutation_sym. etransitivity; [apply Permutation_app_comm|]. cbn.
  rewrite <- app_assoc. reflexivity.
Qed.

Theorem pre_perm z : Permutation (pre z) (rev (ancestor_slots z) ++ before z).
Proof.
  unfold pre, before, ancestor_slots. rewrite pre_ups_perm, <- app_assoc. reflexivity.
Qed.

(* ancestors, descendants, preceding, following and the node itself partition the tree (raw document order) *)
Theorem raw_partition z :
  Permutation (doc_order z) (ancestor_slots z ++ sub z ++ before z ++ post z ++ [zpair z]).
Proof.
  rewrite doc_order_split, pre_perm.
  rewrite <- (Permutation_rev (ancestor_slots z)).
  rewrite <- !app_assoc. apply Permutation_app_head.
  transitivity ((zpair z :: sub z ++ post z) ++ before z); [apply Permutation_app_comm|].
  cbn. transitivity (((sub z ++ post z) ++ before z) ++ [zpair z]); [apply Permutation_cons_append|].
  rewrite <- !app_assoc. apply Permutation_app_head.
  rewrite !app_assoc. apply Permutation_app_tail. apply Permutation_app_comm.
Qed.

(* ---------- category-aware accessors on ordered trees ---------- *)

Definition rank (v : value) : nat := cat_rank (value_category v).

(* walking left from a node of rank [hi]: ranks never increase, abnormal nodes have no children *)
Fixpoint lefts_ok (hi : nat) (before : forest) : Prop :=
  match before with
  | FNil => True
  | FCons _ v k r => (rank v <= hi)%nat /\ (is_normal v = false -> k = FNil) /\ lefts_ok (rank v) r
  end.

Definition frame_ok (fr : frame) : Prop := is_normal (fr_val fr) = true /\ lefts_ok 2 (fr_before fr).

(* what an ordered tree gives around a cursor *)
Definition zwf (z : zipper) : Prop :=
  lefts_ok (rank (z_val z)) (z_before z)
  /\ (is_normal (z_val z) = false -> z_kids z = FNil)
  /\ Forall frame_ok (z_ups z).

Lemma ordered_from_weaken lo lo' f : (lo' <= lo)%nat -> ordered_from lo f = true -> ordered_from lo' f = true.
Proof.
  destruct f as [|i v k r]; cbn; [auto|]. intros Hle H.
  apply andb_true_iff in H. destruct H as [H Hr]. apply andb_true_iff in H. destruct H as [Hlo Hk].
  rewrite Hk, Hr. apply PeanoNat.Nat.leb_le in Hlo. rewrite andb_true_r.
  apply andb_true_iff. split; [apply PeanoNat.Nat.leb_le; lia|reflexivity].
Qed.

Lemma ordered_cons lo i v k r : ordered_from lo (FCons i v k r) = true ->
  (lo <= rank v)%nat /\ (is_normal v = false -> k = FNil) /\ (is_normal v = true -> ordered k = true)
  /\ ordered_from (rank v) r = true.
Proof.
  cbn. intros H. apply andb_true_iff in H. destruct H as [H Hr]. apply andb_true_iff in H. destruct H as [Hlo Hk].
  apply PeanoNat.Nat.leb_le in Hlo. unfold rank, is_normal. split; [exact Hlo|].
  destruct (value_category v); (split; [|split]); try exact Hr; try discriminate; auto;
    intros _; destruct k; [reflexivity|discriminate|reflexivity|discriminate].
Qed.

Lemma ordered_frev_app a : forall lo i v k r,
  ordered_from lo (frev_app a (FCons i v k r)) = true ->
  lefts_ok (rank v) a /\ exists lo', ordered_from lo' (FCons i v k r) = true.
Proof.
  induction a as [|i' v' k' _ r' IH]; intros lo i v k r H; cbn [frev_app lefts_ok] in *.
  - split; [exact I|]. exists lo. exact H.
  - destruct (IH _ _ _ _ _ H) as [Hl [lo' Ho]].
    destruct (ordered_cons _ _ _ _ _ Ho) as (_ & Hk' & _ & Hr').
    destruct (ordered_cons _ _ _ _ _ Hr') as (Hle & _).
    split; [|exists (rank v'); exact Hr'].
    split; [exact Hle|]. split; [exact Hk'|exact Hl].
Qed.

Lemma frev_app_cons_ne a : forall i v k r, frev_app a (FCons i v k r) <> FNil.
Proof. induction a as [|i' v' k' _ r' IH]; intros i v k r; cbn; [discriminate|apply IH]. Qed.

Lemma ordered_plug_ups ups : forall lo level,
  level <> FNil -> ordered_from lo (plug_ups level ups) = true ->
  Forall frame_ok ups /\ exists lo', ordered_from lo' level = true.
Proof.
  induction ups as [|fr ups IH]; intros lo level Hne H; cbn in H.
  - split; [constructor|]. exists lo. exact H.
  - destruct (IH lo _ (frev_app_cons_ne _ _ _ _ _) H) as [Hups [lo1 H1]].
    destruct (ordered_frev_app _ _ _ _ _ _ H1) as [Hl [lo2 H2]].
    destruct (ordered_cons _ _ _ _ _ H2) as (_ & Hk & Hn & _).
    destruct (is_normal (fr_val fr)) eqn:En.
    + split; [constructor; [split; [exact En|]|exact Hups]|exists 0%nat; apply Hn; reflexivity].
      unfold rank in Hl. unfold is_normal in En. destruct (value_category (fr_val fr)); try discriminate. exact Hl.
    + exfalso. apply Hne. apply Hk. reflexivity.
Qed.

Lemma z_level_ne z : z_level z <> FNil.
Proof. unfold z_level. apply frev_app_cons_ne. Qed.

Theorem ordered_zwf z : ordered (plug z) = true -> zwf z /\ (is_normal (z_val z) = true -> ordered (z_kids z) = true)
                                                   /\ ordered_from (rank (z_val z)) (z_after z) = true.
Proof.
  unfold ordered, plug. intros H.
  destruct (ordered_plug_ups _ _ _ (z_level_ne z) H) as [Hups [lo1 H1]].
  unfold z_level in H1. destruct (ordered_frev_app _ _ _ _ _ _ H1) as [Hl [lo2 H2]].
  destruct (ordered_cons _ _ _ _ _ H2) as (_ & Hk & Hn & Hr).
  split; [split; [exact Hl|split; [exact Hk|exact Hups]]|split; [exact Hn|exact Hr]].
Qed.

Lemma zwf_up z p : zwf z -> up z = Some p -> zwf p /\ is_normal (z_val p) = true.
Proof.
  intros (_ & _ & Hups) Hu. destruct (up_ups _ _ Hu) as (fr & Hu1 & _ & Hb & _ & Hv).
  rewrite Hu1 in Hups. inversion Hups as [|? ? [Hn Hl] Hrest]; subst.
  unfold zwf. rewrite Hb, Hv. unfold rank, is_normal in *.
  destruct (value_category (fr_val fr)); try discriminate.
  split; [split; [exact Hl|split; [discriminate|exact Hrest]]|reflexivity].
Qed.

(* the raw (category-blind) version of the inner loop of `preceding` *)
Definition lefts_desc_all (ups : list frame) (before after : forest) : list zipper :=
  concat (map (fun p => rev (arena_descendants p)) (zs_left ups before after)).

Lemma filter_rev {A} (p : A -> bool) l : filter p (rev l) = rev (filter p l).
Proof.
  induction l as [|a l IH]; cbn; [reflexivity|]. rewrite filter_app, IH. cbn. destruct (p a); cbn; [reflexivity|apply app_nil_r].
Qed.

Lemma lefts_abnormal ups before : forall after hi, (hi < 2)%nat -> lefts_ok hi before ->
  filter znormal (lefts_desc_all ups before after) = [].
Proof.
  unfold lefts_desc_all.
  induction before as [|i v k _ r IH]; intros after hi Hhi Hl; cbn; [reflexivity|].
  destruct Hl as (Hle & Hk & Hr).
  assert (is_normal v = false) as Hn.
  { unfold rank in Hle. unfold is_normal. destruct (value_category v); cbn in Hle; try reflexivity; lia. }
  rewrite filter_app. rewrite (IH _ (rank v)); [|lia|exact Hr]. rewrite app_nil_r.
  rewrite (Hk Hn). unfold arena_descendants; cbn. unfold znormal; cbn. rewrite Hn. reflexivity.
Qed.

Lemma rank_normal v : is_normal v = true <-> rank v = 2%nat.
Proof. unfold is_normal, rank. destruct (value_category v); cbn; split; intros; try discriminate; reflexivity. Qed.

Lemma vcat_eqb_rank a b : vcat_eqb (value_category a) (value_category b) = true <-> rank a = rank b.
Proof. unfold rank. destruct (value_category a), (value_category b); cbn; split; intros; try discriminate; reflexivity. Qed.

Lemma prev_sibs_desc_spec before : forall fuel z,
  z_before z = before -> (fsize before < fuel)%nat -> lefts_ok (rank (z_val z)) before ->
  prev_sibs_desc fuel z
  = filter znormal (lefts_desc_all (z_ups z) before (FCons (z_slot z) (z_val z) (z_kids z) (z_after z))).
Proof.
  induction before as [|i v k _ r IH]; intros fuel z Hb Hf Hl; (destruct fuel as [|f]; [cbn in Hf; lia|]).
  - cbn. unfold previous_sibling, left. rewrite Hb. reflexivity.
  - cbn [prev_sibs_desc]. unfold previous_sibling, left. rewrite Hb.
    destruct Hl as (Hle & Hk & Hr).
    set (s := {| z_slot := i; z_val := v; z_kids := k; z_before := r;
                 z_after := FCons (z_slot z) (z_val z) (z_kids z) (z_after z); z_ups := z_ups z |}).
    unfold lefts_desc_all. cbn [zs_left map concat]. fold (lefts_desc_all (z_ups z) r (FCons i v k (FCons (z_slot z) (z_val z) (z_kids z) (z_after z)))).
    rewrite filter_app. unfold zcat; cbn [z_val]. unfold mkz. fold s.
    change (value_category (z_val s)) with (value_category v).
    destruct (vcat_eqb (value_category (z_val z)) (value_category v)) eqn:Ec.
    + unfold descendants. rewrite filter_rev. f_equal.
      apply (IH f s); [reflexivity|cbn in Hf; lia|exact Hr].
    + assert (rank v < 2)%nat as Hlt.
      { assert (rank (z_val z) <> rank v) as Hne.
        { intros E. apply vcat_eqb_rank in E. congruence. }
        unfold rank in *. destruct (value_category (z_val z)), (value_category v); cbn in *; try lia; congruence. }
      assert (is_normal v = false) as Hn.
      { destruct (is_normal v) eqn:E; [apply rank_normal in E; lia|reflexivity]. }
      rewrite (lefts_abnormal _ _ _ (rank v) Hlt Hr), app_nil_r.
      subst s. rewrite (Hk Hn). unfold arena_descendants; cbn. unfold znormal; cbn. rewrite Hn. reflexivity.
Qed.

(* raw version of `preceding`: every node that precedes the cursor, nearest first (reverse document order) *)
Fixpoint prec_all (fuel : nat) (z : zipper) : list zipper :=
  match fuel with
  | O => []
  | S f => lefts_desc_all (z_ups z) (z_before z) (FCons (z_slot z) (z_val z) (z_kids z) (z_after z))
           ++ match up z with None => [] | Some p => prec_all f p end
  end.

Lemma lefts_desc_all_slots ups before : forall after,
  pairs_of (lefts_desc_all ups before after) = rev (rids before).
Proof.
  unfold lefts_desc_all, pairs_of.
  induction before as [|i v k _ r IH]; intros after; cbn; [reflexivity|].
  rewrite map_app, IH, rev_app_distr. f_equal.
  rewrite map_app, map_rev. pose proof zs_forest_slots as Hz. unfold pairs_of in Hz. rewrite Hz. reflexivity.
Qed.

Lemma prec_all_slots fuel : forall z, (length (z_ups z) < fuel)%nat ->
  pairs_of (prec_all fuel z) = rev (before z).
Proof.
  induction fuel as [|f IH]; intros z Hl; [lia|]. cbn [prec_all].
  unfold pairs_of in *. rewrite map_app. fold (pairs_of (lefts_desc_all (z_ups z) (z_before z)
     (FCons (z_slot z) (z_val z) (z_kids z) (z_after z)))). rewrite lefts_desc_all_slots.
  unfold before. rewrite rev_app_distr. f_equal.
  destruct (up z) as [p|] eqn:Eu.
  - destruct (up_ups _ _ Eu) as (fr & Hu1 & _ & Hb & _).
    rewrite IH; [|rewrite Hu1 in Hl; cbn in Hl; lia].
    unfold before. rewrite Hu1, Hb. reflexivity.
  - unfold up in Eu. destruct (z_ups z); [reflexivity|discriminate].
Qed.

Lemma preceding_fuel_spec fuel : forall size z,
  zwf z -> (tree_size z <= size)%nat ->
  preceding_fuel fuel size z = filter znormal (prec_all fuel z).
Proof.
  induction fuel as [|f IH]; intros size z Hw Hs; [reflexivity|].
  cbn [preceding_fuel prec_all]. rewrite filter_app. f_equal.
  - apply prev_sibs_desc_spec; [reflexivity| |apply Hw].
    rewrite tree_size_split in Hs. unfold pre in Hs. rewrite app_length in Hs.
    assert (length (rids (z_before z)) = fsize (z_before z)) as Hlen.
    { rewrite <- nodes_frev, nodes_length. unfold frev. rewrite fsize_frev_app. cbn. lia. }
    lia.
  - unfold parent. destruct (up z) as [p|] eqn:Eu; [|reflexivity].
    apply IH; [eapply zwf_up; eauto|]. unfold tree_size in *. rewrite (plug_up _ _ Eu). exact Hs.
Qed.

(* preceding: the ordinary nodes among those that precede the cursor, in reverse document order *)
Theorem preceding_spec z : ordered (plug z) = true ->
  preceding z = filter znormal (prec_all (S (length (z_ups z))) z)
  /\ pairs_of (prec_all (S (length (z_ups z))) z) = rev (before z).
Proof.
  intros Ho. split.
  - unfold preceding. apply preceding_fuel_spec; [apply (ordered_zwf z Ho)|lia].
  - apply prec_all_slots. lia.
Qed.

(* ---------- the ordinary (namespace- and attribute-free) views ---------- *)

Definition nnormal (p : node) : bool := is_normal (snd p).

Lemma pairs_filter_normal l : pairs_of (filter znormal l) = filter nnormal (pairs_of l).
Proof. apply filter_slots. intros; reflexivity. Qed.

Theorem descendants_pairs z : pairs_of (descendants z) = filter nnormal (zpair z :: sub z).
Proof. unfold descendants. rewrite pairs_filter_normal, arena_descendants_slots. reflexivity. Qed.

Theorem following_pairs z : pairs_of (following z) = filter nnormal (post z).
Proof. unfold following. rewrite pairs_filter_normal, all_following_slots. reflexivity. Qed.

Theorem reverse_preorder_pairs z : pairs_of (reverse_preorder z) = filter nnormal (zpair z :: rev (pre z)).
Proof. unfold reverse_preorder. rewrite pairs_filter_normal, all_reverse_preorder_slots. reflexivity. Qed.

Theorem preceding_pairs z : ordered (plug z) = true ->
  pairs_of (preceding z) = rev (filter nnormal (before z)).
Proof.
  intros Ho. destruct (preceding_spec z Ho) as [H1 H2].
  rewrite H1, pairs_filter_normal, H2. apply filter_rev.
Qed.

Lemma Permutation_filter {A} (f : A -> bool) l l' : Permutation l l' -> Permutation (filter f l) (filter f l').
Proof.
  induction 1; cbn.
  - constructor.
  - destruct (f x); [apply perm_skip|]; assumption.
  - destruct (f x), (f y); try apply Permutation_refl. apply perm_swap.
  - etransitivity; eassumption.
Qed.

Lemma ancestors_all_normal z : zwf z -> filter nnormal (ancestor_slots z) = ancestor_slots z.
Proof.
  intros (_ & _ & Hups). unfold ancestor_slots. induction Hups as [|fr ups [Hn _] _ IH]; cbn; [reflexivity|].
  unfold nnormal at 1; cbn. rewrite Hn, IH. reflexivity.
Qed.

(* For an ordinary node of an ordered tree: ancestors, descendants, preceding, following and the node itself
   partition the ordinary nodes of its tree. *)
Theorem ordinary_partition z :
  ordered (plug z) = true -> is_normal (z_val z) = true ->
  Permutation (filter nnormal (doc_order z))
              (pairs_of (tl (ancestors z)) ++ pairs_of (tl (descendants z)) ++ pairs_of (preceding z)
               ++ pairs_of (following z) ++ [zpair z]).
Proof.
  intros Ho Hn. destruct (ordered_zwf z Ho) as [Hw _].
  rewrite (Permutation_filter nnormal _ _ (raw_partition z)).
  rewrite !filter_app.
  assert (pairs_of (tl (ancestors z)) = filter nnormal (ancestor_slots z)) as ->.
  { rewrite (ancestors_all_normal z Hw). pose proof (ancestors_slots z) as H. unfold pairs_of in *.
    destruct (ancestors z); cbn in *; [discriminate|]. inversion H; reflexivity. }
  assert (pairs_of (tl (descendants z)) = filter nnormal (sub z)) as ->.
  { pose proof (descendants_pairs z) as H. cbn [filter] in H. unfold nnormal at 1 in H. cbn [snd zpair] in H.
    rewrite Hn in H. unfold pairs_of in *. destruct (descendants z); cbn in *; [discriminate|]. inversion H; reflexivity. }
  rewrite (preceding_pairs z Ho), (following_pairs z).
  apply Permutation_app_head. apply Permutation_app_head.
  apply Permutation_app; [apply Permutation_rev|].
  cbn. unfold nnormal at 2. cbn [snd zpair]. rewrite Hn. reflexivity.
Qed.

(* ---------- children and the all_* order on ordered trees ---------- *)

Lemma zs_level_all_normal f : forall ups before, ordered_from 2 f = true -> Forall (fun c => znormal c = true) (zs_level ups before f).
Proof.
  induction f as [|i v k _ r IH]; intros ups before H; cbn; [constructor|].
  destruct (ordered_cons _ _ _ _ _ H) as (Hle & _ & _ & Hr).
  assert (is_normal v = true) as Hn.
  { apply rank_normal. unfold rank in *. destruct (value_category v); cbn in *; lia. }
  constructor; [exact Hn|]. apply IH. apply rank_normal in Hn. rewrite Hn in Hr. exact Hr.
Qed.

Lemma filter_all {A} (p : A -> bool) l : Forall (fun x => p x = true) l -> filter p l = l.
Proof. induction 1 as [|x l Hx _ IH]; cbn; [reflexivity|]. rewrite Hx, IH. reflexivity. Qed.

Lemma skip_while_normal f : forall lo ups before, ordered_from lo f = true ->
  skip_while (fun c => negb (znormal c)) (zs_level ups before f) = filter znormal (zs_level ups before f).
Proof.
  induction f as [|i v k _ r IH]; intros lo ups before H; cbn; [reflexivity|].
  destruct (ordered_cons _ _ _ _ _ H) as (_ & _ & _ & Hr).
  unfold znormal at 1 3; cbn [z_val mkz].
  destruct (is_normal v) eqn:Hn; cbn.
  - f_equal. symmetry. apply filter_all. apply zs_level_all_normal.
    apply rank_normal in Hn. rewrite Hn in Hr. exact Hr.
  - apply (IH (rank v)). exact Hr.
Qed.

(* children = the ordinary ones among the arena children, in order *)
Theorem children_spec z : ordered (plug z) = true -> children z = filter znormal (arena_children z).
Proof.
  intros Ho. destruct (ordered_zwf z Ho) as ((_ & Hk & _) & Hn & _).
  unfold children, normal_children, arena_children.
  destruct (is_normal (z_val z)) eqn:E.
  - apply (skip_while_normal _ 0%nat). apply Hn. reflexivity.
  - rewrite (Hk eq_refl). reflexivity.
Qed.

Lemma take_skip_app {A} (p : A -> bool) l : take_while p l ++ skip_while p l = l.
Proof. induction l as [|a l IH]; cbn; [reflexivity|]. destruct (p a); cbn; [rewrite IH|]; reflexivity. Qed.

Lemma skip_attr f : forall ups b, ordered_from 1 f = true ->
  skip_while (fun c => negb (znormal c)) (zs_level ups b f) = skip_while (is_cat CAttribute) (zs_level ups b f).
Proof.
  induction f as [|i v k _ r IH]; intros ups b H; cbn; [reflexivity|].
  destruct (ordered_cons _ _ _ _ _ H) as (Hle & _ & _ & Hr).
  unfold znormal at 1, is_cat at 1, zcat; cbn [z_val mkz]. unfold is_normal. unfold rank in *.
  destruct (value_category v) eqn:Ec; cbn in *; try lia; [reflexivity|].
  apply IH. exact Hr.
Qed.

Lemma level_split f : forall lo ups b, ordered_from lo f = true ->
  skip_while (fun c => negb (znormal c)) (zs_level ups b f)
  = skip_while (is_cat CAttribute) (skip_while (is_cat CNamespace) (zs_level ups b f)).
Proof.
  induction f as [|i v k _ r IH]; intros lo ups b H; cbn; [reflexivity|].
  destruct (ordered_cons _ _ _ _ _ H) as (_ & _ & _ & Hr).
  unfold znormal at 1, is_cat at 2, zcat; cbn [z_val mkz]. unfold is_normal. unfold rank in Hr.
  destruct (value_category v) eqn:Ec; cbn.
  - unfold is_cat at 1, zcat; cbn [z_val mkz]. rewrite Ec. reflexivity.
  - unfold is_cat at 1, zcat; cbn [z_val mkz]. rewrite Ec. cbn. apply skip_attr. exact Hr.
  - apply (IH 0%nat). exact Hr.
Qed.


(* all_children = namespace nodes, then attribute nodes, then ordinary children *)
Theorem all_children_order z : ordered (plug z) = true ->
  arena_children z = namespace_nodes z ++ attribute_nodes z ++ children z.
Proof.
  intros Ho. destruct (ordered_zwf z Ho) as ((_ & Hk & _) & Hn & _).
  unfold namespace_nodes, attribute_nodes, children, normal_children.
  destruct (is_normal (z_val z)) eqn:E.
  - unfold arena_children. rewrite (level_split _ 0%nat _ _ (Hn eq_refl)).
    rewrite (app_assoc). rewrite <- (take_skip_app (is_cat CNamespace) (zs_level _ _ _)) at 1.
    rewrite <- app_assoc. f_equal. symmetry. apply take_skip_app.
  - unfold arena_children. rewrite (Hk eq_refl). reflexivity.
Qed.

(* the plain variants never expose namespace or attribute nodes *)
Theorem plain_variants_ordinary z :
  Forall (fun c => znormal c = true) (descendants z)
  /\ Forall (fun c => znormal c = true) (following z)
  /\ Forall (fun c => znormal c = true) (reverse_preorder z)
  /\ Forall (fun e => edge_normal e = true) (traverse z)
  /\ Forall (fun e => edge_normal e = true) (reverse_traverse z)
  /\ Forall (fun c => znormal c = true) (reverse_children z).
Proof.
  repeat split; try (apply Forall_forall; intros x Hx; apply filter_In in Hx; apply Hx).
  unfold reverse_children. induction (rev (arena_children z)) as [|a l IH]; cbn; [constructor|].
  destruct (znormal a) eqn:E; [constructor; assumption|constructor].
Qed.

(* non-vacuity: a concrete ordered tree with namespace, attribute and ordinary nodes, and a cursor in it *)
Example ordered_example :
  let t := FCons 0 VDocument
             (FCons 1 (VElement 2)
                (FCons 2 (VNamespace 0 2) FNil (FCons 3 (VAttribute 5 [120]) FNil
                   (FCons 4 (VText [104]) FNil (FCons 5 (VElement 3) (FCons 6 (VComment []) FNil FNil)
                      (FCons 7 (VText [105]) FNil FNil))))) FNil) FNil in
  ordered t = true
  /\ exists z, locate 5 t = Some z /\ plug z = t /\ is_normal (z_val z) = true
     /\ slots_of (preceding z) = [4] /\ slots_of (following z) = [7] /\ slots_of (ancestors z) = [5; 1; 0]
     /\ slots_of (descendants z) = [5; 6] /\ slots_of (all_reverse_preorder z) = [5; 4; 3; 2; 1; 0].
Proof. cbv zeta. split; [reflexivity|]. eexists. split; [vm_compute; reflexivity|]. repeat split; reflexivity. Qed.
