(* PlainFacts.v — the plain ordered-tree reading of a store (C05): slots forgotten, and — with consolidation on — every run of
   adjacent text nodes of a child list read as one text node.  Forest-level facts only: deleting a subtree ([fdel]) commutes
   with the other surgery primitives, a merge of two adjacent text nodes does not change the reading, and a store without
   adjacent text nodes is its own reading. *)
From Coq Require Import List NArith ZArith Bool Lia Permutation Arith.
From XotV Require Import Model.Base Model.Zipper Model.Access Model.Store Model.Manip Spec.DocOrder Spec.Paths Spec.Shape Spec.NoAdj
                         Proofs.ZipperProofs Proofs.AccessProofs Proofs.StoreProofs Proofs.ForestFacts Proofs.InvProofs Proofs.Canon
                         Proofs.ShapeProofs Proofs.KeysProofs Proofs.InvSteps Proofs.InvOps Proofs.PathFacts Proofs.Levels Proofs.NoAdjFacts
                         Proofs.NoAdjOps Proofs.Atomic Proofs.NoPanic Proofs.CloneShape.
Import ListNotations.
Open Scope N_scope.

(* ---------- the specification ---------- *)

(* a node in front of an already normalised sibling list: a text node goes together with a text node it precedes *)
Definition ucons_m (v : value) (k r : uforest) : uforest :=
  match v, r with
  | VText a, UCons (VText b) _ r' => UCons (VText (a ++ b)) k r'
  | _, _ => UCons v k r
  end.

(* [top = true]: the list is the top level of a store — its members are no siblings of one another and are never merged *)
Fixpoint unormb (top : bool) (f : uforest) : uforest :=
  match f with
  | UNil => UNil
  | UCons v k r => if top then UCons v (unormb false k) (unormb true r) else ucons_m v (unormb false k) (unormb false r)
  end.

(* what a store holds, read as plain ordered trees *)
Definition content (c : bool) (f : forest) : uforest := if c then unormb true (erase f) else erase f.

(* the subtree(s) rooted at slot [b] deleted *)
Fixpoint fdel (b : N) (f : forest) : forest :=
  match f with
  | FNil => FNil
  | FCons i v k r => if N.eqb i b then fdel b r else FCons i v (fdel b k) (fdel b r)
  end.

(* ---------- fdel and the other primitives ---------- *)

Lemma fdel_absent b f : ~ In b (ids f) -> fdel b f = f.
Proof.
  induction f as [|i v k IHk r IHr]; cbn [fdel ids]; [reflexivity|]. intros H.
  destruct (N.eqb_spec i b) as [->|Hne]; [exfalso; apply H; left; reflexivity|].
  rewrite IHk, IHr; [reflexivity| |]; intros X; apply H; right; apply in_or_app; auto.
Qed.

Lemma ids_fdel_incl b f : incl (ids (fdel b f)) (ids f).
Proof.
  induction f as [|i v k IHk r IHr]; cbn [fdel ids]; [apply incl_refl|].
  destruct (N.eqb i b).
  - intros x Hx. right. apply in_or_app. right. apply IHr. exact Hx.
  - cbn [ids]. intros x [Hx|Hx]; [left; exact Hx|]. right. apply in_app_or in Hx as [Hx|Hx]; apply in_or_app; [left; apply IHk|right; apply IHr]; exact Hx.
Qed.

Lemma fdel_gone b f : ~ In b (ids (fdel b f)).
Proof.
  induction f as [|i v k IHk r IHr]; cbn [fdel ids]; [intros []|].
  destruct (N.eqb_spec i b) as [->|Hne]; [exact IHr|]. cbn [ids]. intros [H|H]; [congruence|].
  apply in_app_or in H as [H|H]; [apply IHk|apply IHr]; exact H.
Qed.

Lemma fdel_idem b f : fdel b (fdel b f) = fdel b f.
Proof. apply fdel_absent. apply fdel_gone. Qed.

Lemma fdel_fapp b a : forall X, fdel b (fapp a X) = fapp (fdel b a) (fdel b X).
Proof.
  induction a as [|i v k _ r IH]; intros X; cbn [fapp fdel]; [reflexivity|].
  destruct (N.eqb i b); [apply IH|]. cbn [fapp]. rewrite IH. reflexivity.
Qed.

Lemma fdel_comm x y f : fdel x (fdel y f) = fdel y (fdel x f).
Proof.
  induction f as [|i v k IHk r IHr]; cbn [fdel]; [reflexivity|].
  destruct (N.eqb i y) eqn:Ey; destruct (N.eqb i x) eqn:Ex; cbn [fdel]; rewrite ?Ey, ?Ex; try assumption.
  rewrite IHk, IHr. reflexivity.
Qed.

Lemma fdel_fset_val b p g f : b <> p -> fdel b (fset_val p g f) = fset_val p g (fdel b f).
Proof.
  intros Hne. induction f as [|i v k IHk r IHr]; cbn [fdel fset_val]; [reflexivity|].
  destruct (N.eqb_spec i p) as [->|Hip].
  - assert (N.eqb p b = false) as E by (apply N.eqb_neq; congruence). cbn [fdel]. rewrite E. cbn [fset_val]. rewrite N.eqb_refl.
    reflexivity.
  - destruct (N.eqb i b) eqn:Eb; cbn [fdel]; rewrite ?Eb; [exact IHr|]. cbn [fset_val].
    apply N.eqb_neq in Hip. rewrite Hip. rewrite IHk, IHr. reflexivity.
Qed.

Lemma fdel_finsert_after x ref T f : x <> ref -> fdel x (finsert_after ref T f) = finsert_after ref (fdel x T) (fdel x f).
Proof.
  intros Hne. induction f as [|i v k IHk r IHr]; cbn [fdel finsert_after]; [reflexivity|].
  destruct (N.eqb_spec i ref) as [->|Hir].
  - assert (N.eqb ref x = false) as E by (apply N.eqb_neq; congruence). cbn [fdel]. rewrite E. cbn [finsert_after]. rewrite N.eqb_refl.
    rewrite fdel_fapp. reflexivity.
  - destruct (N.eqb i x) eqn:Ex; cbn [fdel]; rewrite ?Ex; [exact IHr|]. cbn [finsert_after].
    apply N.eqb_neq in Hir. rewrite Hir, IHk, IHr. reflexivity.
Qed.

Lemma fdel_finsert_before x ref T f : x <> ref -> fdel x (finsert_before ref T f) = finsert_before ref (fdel x T) (fdel x f).
Proof.
  intros Hne. induction f as [|i v k IHk r IHr]; cbn [fdel finsert_before]; [reflexivity|].
  destruct (N.eqb_spec i ref) as [->|Hir].
  - assert (N.eqb ref x = false) as E by (apply N.eqb_neq; congruence). rewrite fdel_fapp. cbn [fdel]. rewrite E.
    cbn [finsert_before]. rewrite N.eqb_refl. reflexivity.
  - destruct (N.eqb i x) eqn:Ex; cbn [fdel]; rewrite ?Ex; [exact IHr|]. cbn [finsert_before].
    apply N.eqb_neq in Hir. rewrite Hir, IHk, IHr. reflexivity.
Qed.

Lemma fdel_fmap_kids x P g g' f : x <> P -> (forall k, fdel x (g k) = g' (fdel x k)) ->
  fdel x (fmap_kids P g f) = fmap_kids P g' (fdel x f).
Proof.
  intros Hne Hg. induction f as [|i v k IHk r IHr]; cbn [fdel fmap_kids]; [reflexivity|].
  destruct (N.eqb_spec i P) as [->|Hir].
  - assert (N.eqb P x = false) as E by (apply N.eqb_neq; congruence). cbn [fdel]. rewrite E. cbn [fmap_kids]. rewrite N.eqb_refl.
    rewrite Hg. reflexivity.
  - destruct (N.eqb i x) eqn:Ex; cbn [fdel]; rewrite ?Ex; [exact IHr|]. cbn [fmap_kids].
    apply N.eqb_neq in Hir. rewrite Hir, IHk, IHr. reflexivity.
Qed.

Lemma fset_val_absent p g f : ~ In p (ids f) -> fset_val p g f = f.
Proof. intros H. rewrite fset_val_fact. apply fact_absent. exact H. Qed.

Lemma fset_val_fapp_skip p g a X : ~ In p (ids a) -> fset_val p g (fapp a X) = fapp a (fset_val p g X).
Proof. intros H. rewrite !fset_val_fact. apply fact_fapp_skip. exact H. Qed.

Lemma fset_val_finsert_after p g ref T f : ~ In p (ids T) ->
  fset_val p g (finsert_after ref T f) = finsert_after ref T (fset_val p g f).
Proof.
  intros Hp. induction f as [|i v k IHk r IHr]; cbn [fset_val finsert_after]; [reflexivity|].
  destruct (N.eqb i ref) eqn:Er; destruct (N.eqb i p) eqn:Ep; cbn [fset_val finsert_after]; rewrite ?Er, ?Ep; try reflexivity.
  - rewrite fset_val_fapp_skip by exact Hp. reflexivity.
  - rewrite IHk, IHr. reflexivity.
Qed.

Lemma fset_val_finsert_before p g ref T f : ~ In p (ids T) ->
  fset_val p g (finsert_before ref T f) = finsert_before ref T (fset_val p g f).
Proof.
  intros Hp. induction f as [|i v k IHk r IHr]; cbn [fset_val finsert_before]; [reflexivity|].
  destruct (N.eqb i ref) eqn:Er; destruct (N.eqb i p) eqn:Ep; cbn [fset_val finsert_before]; rewrite ?Er, ?Ep.
  - rewrite fset_val_fapp_skip by exact Hp. cbn [fset_val]. rewrite Ep. reflexivity.
  - rewrite fset_val_fapp_skip by exact Hp. cbn [fset_val]. rewrite Ep. reflexivity.
  - reflexivity.
  - rewrite IHk, IHr. reflexivity.
Qed.

Lemma fset_val_fmap_kids p g P h f : p <> P -> (forall k, fset_val p g (h k) = h (fset_val p g k)) ->
  fset_val p g (fmap_kids P h f) = fmap_kids P h (fset_val p g f).
Proof.
  intros Hne Hh. induction f as [|i v k IHk r IHr]; cbn [fset_val fmap_kids]; [reflexivity|].
  destruct (N.eqb i P) eqn:Er; destruct (N.eqb i p) eqn:Ep; cbn [fset_val fmap_kids]; rewrite ?Er, ?Ep.
  - apply N.eqb_eq in Er, Ep. congruence.
  - rewrite Hh. reflexivity.
  - reflexivity.
  - rewrite IHk, IHr. reflexivity.
Qed.

Lemma finsert_after_nil ref f : finsert_after ref FNil f = f.
Proof. induction f as [|i v k IHk r IHr]; cbn [finsert_after fapp]; [reflexivity|]. destruct (N.eqb i ref); [reflexivity|]. rewrite IHk, IHr. reflexivity. Qed.

Lemma finsert_before_nil ref f : finsert_before ref FNil f = f.
Proof. induction f as [|i v k IHk r IHr]; cbn [finsert_before fapp]; [reflexivity|]. destruct (N.eqb i ref); [reflexivity|]. rewrite IHk, IHr. reflexivity. Qed.

(* on a forest without repeated slots, cutting is deleting *)
Lemma drop_fdel b f : NoDup (ids f) -> fact a_drop b f = fdel b f.
Proof.
  induction f as [|i v k IHk r IHr]; cbn [fact fdel ids]; [reflexivity|]. intros Hnd.
  apply NoDup_cons_app_inv in Hnd as (Hik & Hir & Hk & Hr & Hkr).
  destruct (N.eqb_spec i b) as [->|Hne].
  - unfold a_drop. symmetry. apply fdel_absent. exact Hir.
  - rewrite IHk, IHr by assumption. reflexivity.
Qed.

Lemma fcut_fdel b f f' t : NoDup (ids f) -> fcut b f = Some (f', t) -> f' = fdel b f.
Proof. intros Hnd E. rewrite (fcut_fact _ _ _ _ Hnd E). apply drop_fdel. exact Hnd. Qed.

Lemma find_cons c i v k r : find c (FCons i v k r) = if N.eqb i c then Some (v, k) else match find c k with Some x => Some x | None => find c r end.
Proof. reflexivity. Qed.

(* removing a leaf is deleting it *)
Lemma fsplice_leaf n f v : NoDup (ids f) -> find n f = Some (v, FNil) -> fsplice n f = fdel n f.
Proof.
  induction f as [|i w k IHk r IHr]; cbn [fsplice fdel ids]; [reflexivity|]. intros Hnd. rewrite find_cons.
  apply NoDup_cons_app_inv in Hnd as (Hik & Hir & Hk & Hr & Hkr).
  destruct (N.eqb_spec i n) as [->|Hne].
  - intros E. inversion E; subst. cbn [fapp]. symmetry. apply fdel_absent. exact Hir.
  - destruct (find n k) as [x|] eqn:Ek.
    + intros E. inversion E; subst. rewrite (IHk Hk eq_refl).
      assert (~ In n (ids r)) as Hnr by (intros Hx; eapply NoDup_app_not_in; [exact Hkr|eapply find_in; exact Ek|exact Hx]).
      rewrite (fsplice_absent n r Hnr), (fdel_absent n r Hnr). reflexivity.
    + intros E. rewrite (IHr Hr E).
      assert (~ In n (ids k)) as Hnk by (apply find_none; exact Ek).
      rewrite (fsplice_absent n k Hnk), (fdel_absent n k Hnk). reflexivity.
Qed.

(* ---------- a store without adjacent text nodes is its own reading ---------- *)

Lemma ucons_m_plain v k r : is_text_val v && (match r with UCons w _ _ => is_text_val w | UNil => false end) = false ->
  ucons_m v k r = UCons v k r.
Proof. destruct v; try reflexivity. destruct r as [|w kw rw]; [reflexivity|]. destruct w; try reflexivity. discriminate. Qed.

Lemma erase_head_text r : (match erase r with UCons w _ _ => is_text_val w | UNil => false end) = head_text r.
Proof. destruct r; reflexivity. Qed.

Lemma unorm_na f : forall top, (top = false -> na_list f = true) -> na f = true -> unormb top (erase f) = erase f.
Proof.
  induction f as [|i v k IHk r IHr]; intros top Hl Hn; cbn [erase unormb]; [reflexivity|].
  cbn [na] in Hn. apply andb_true_iff in Hn as [Hn Hnr]. apply andb_true_iff in Hn as [Hlk Hnk].
  rewrite (IHk false (fun _ => Hlk) Hnk).
  destruct top.
  - rewrite (IHr true ltac:(discriminate) Hnr). reflexivity.
  - specialize (Hl eq_refl). cbn [na_list] in Hl. apply andb_true_iff in Hl as [Hh Hlr].
    rewrite (IHr false (fun _ => Hlr) Hnr). apply ucons_m_plain. rewrite erase_head_text. apply negb_true_iff. exact Hh.
Qed.

Lemma content_noadj c f : na f = true -> content c f = erase f.
Proof. intros H. unfold content. destruct c; [|reflexivity]. apply unorm_na; [discriminate|exact H]. Qed.

(* ---------- adjacency, as a property of forests ---------- *)

(* the ordinary node [x] is immediately followed by [y] in a child list ([top]: the list [l] itself is the top level of a store and does not count) *)
Fixpoint follb (top : bool) (x y : N) (l : forest) : Prop :=
  match l with
  | FNil => False
  | FCons i v k r => (top = false /\ i = x /\ is_normal v = true /\ hd_slot r = Some y) \/ follb false x y k \/ follb top x y r
  end.

(* the ordinary node [x] is a member of a child list *)
Fixpoint occb (top : bool) (x : N) (l : forest) : Prop :=
  match l with
  | FNil => False
  | FCons i v k r => (top = false /\ i = x /\ is_normal v = true) \/ occb false x k \/ occb top x r
  end.

Lemma hd_slot_in r y : hd_slot r = Some y -> In y (ids r).
Proof. destruct r; [discriminate|]. cbn. intros H. inversion H. left. reflexivity. Qed.

Lemma follb_in top x y l : follb top x y l -> In x (ids l) /\ In y (ids l).
Proof.
  revert top. induction l as [|i v k IHk r IHr]; intros top; cbn [follb ids]; [intros []|].
  intros [(_ & -> & _ & Hy)|[H|H]].
  - split; [left; reflexivity|]. right. apply in_or_app. right. apply hd_slot_in. exact Hy.
  - destruct (IHk _ H). split; right; apply in_or_app; left; assumption.
  - destruct (IHr _ H). split; right; apply in_or_app; right; assumption.
Qed.

Lemma occb_in top x l : occb top x l -> In x (ids l).
Proof.
  revert top. induction l as [|i v k IHk r IHr]; intros top; cbn [occb ids]; [intros []|].
  intros [(_ & -> & _)|[H|H]]; [left; reflexivity| |]; right; apply in_or_app; [left; eapply IHk|right; eapply IHr]; exact H.
Qed.

Lemma follb_fapp_r top x y a : forall X, follb top x y X -> follb top x y (fapp a X).
Proof. induction a as [|i v k _ r IH]; intros X H; cbn [fapp follb]; [exact H|]. right. right. apply IH. exact H. Qed.

Lemma hd_slot_fapp r X y : hd_slot r = Some y -> hd_slot (fapp r X) = Some y.
Proof. destruct r; [discriminate|]. exact (fun H => H). Qed.

Lemma follb_fapp_l top x y a : forall X, follb top x y a -> follb top x y (fapp a X).
Proof.
  induction a as [|i v k _ r IH]; intros X; cbn [fapp follb]; [intros []|].
  intros [(Ht & Hi & Hv & Hy)|[H|H]]; [left; split; [exact Ht|split; [exact Hi|split; [exact Hv|apply hd_slot_fapp; exact Hy]]]|right; left; exact H|right; right; apply IH; exact H].
Qed.

Lemma follb_frev_app top x y b : forall X, follb top x y X -> follb top x y (frev_app b X).
Proof. induction b as [|i v k _ r IH]; intros X H; cbn [frev_app]; [exact H|]. apply IH. cbn [follb]. right. right. exact H. Qed.

Lemma occb_fapp_r top x a : forall X, occb top x X -> occb top x (fapp a X).
Proof. induction a as [|i v k _ r IH]; intros X H; cbn [fapp occb]; [exact H|]. right. right. apply IH. exact H. Qed.

Lemma occb_fapp_l top x a : forall X, occb top x a -> occb top x (fapp a X).
Proof.
  induction a as [|i v k _ r IH]; intros X; cbn [fapp occb]; [intros []|].
  intros [H|[H|H]]; [left; exact H|right; left; exact H|right; right; apply IH; exact H].
Qed.

Lemma occb_frev_app top x b : forall X, occb top x X -> occb top x (frev_app b X).
Proof. induction b as [|i v k _ r IH]; intros X H; cbn [frev_app]; [exact H|]. apply IH. cbn [occb]. right. right. exact H. Qed.

Lemma follb_plug_ups x y : forall ups L, ups <> [] -> follb false x y L -> follb true x y (plug_ups L ups).
Proof.
  induction ups as [|fr ups' IH]; intros L Hne H; [congruence|]. cbn [plug_ups].
  destruct ups' as [|fr2 ups''].
  - cbn [plug_ups]. apply follb_frev_app. cbn [follb]. right. left. exact H.
  - apply IH; [discriminate|]. apply follb_frev_app. cbn [follb]. right. left. exact H.
Qed.

Lemma occb_plug_ups x : forall ups L, ups <> [] -> occb false x L -> occb true x (plug_ups L ups).
Proof.
  induction ups as [|fr ups' IH]; intros L Hne H; [congruence|]. cbn [plug_ups].
  destruct ups' as [|fr2 ups''].
  - cbn [plug_ups]. apply occb_frev_app. cbn [occb]. right. left. exact H.
  - apply IH; [discriminate|]. apply occb_frev_app. cbn [occb]. right. left. exact H.
Qed.

(* from a cursor: the node is followed by the first of its following siblings, and follows the nearest of the preceding ones *)
Lemma follb_view_next z A B y : z_ups z <> [] -> is_normal (z_val z) = true -> hd_slot (z_after z) = Some y ->
  follb true (z_slot z) y (fapp A (fapp (plug z) B)).
Proof.
  intros Hne Hv Hy. apply follb_fapp_r. apply follb_fapp_l. unfold plug. apply follb_plug_ups; [exact Hne|].
  unfold z_level. apply follb_frev_app. cbn [follb]. left. auto.
Qed.

Lemma follb_view_prev z A B p : z_ups z <> [] -> hd_slot (z_before z) = Some p ->
  (match z_before z with FCons _ v _ _ => is_normal v = true | FNil => True end) -> follb true p (z_slot z) (fapp A (fapp (plug z) B)).
Proof.
  intros Hne Hp Hv. apply follb_fapp_r. apply follb_fapp_l. unfold plug. apply follb_plug_ups; [exact Hne|].
  unfold z_level. destruct (z_before z) as [|i v k b']; [discriminate|]. cbn in Hp. inversion Hp; subst i.
  cbn [frev_app]. apply follb_frev_app. cbn [follb]. left. auto.
Qed.

Lemma occb_view z A B : z_ups z <> [] -> is_normal (z_val z) = true -> occb true (z_slot z) (fapp A (fapp (plug z) B)).
Proof.
  intros Hne Hv. apply occb_fapp_r. apply occb_fapp_l. unfold plug. apply occb_plug_ups; [exact Hne|].
  unfold z_level. apply occb_frev_app. cbn [occb]. left. auto.
Qed.

(* ---------- merging two adjacent text nodes does not change the reading ---------- *)

Lemma ucons_m_assoc a b K K2 R : ucons_m (VText a) K (ucons_m (VText b) K2 R) = ucons_m (VText (a ++ b)) K R.
Proof.
  destruct R as [|w kw rw]; [reflexivity|]. destruct w; try reflexivity. cbn. rewrite app_assoc. reflexivity.
Qed.

Lemma find_in_kids c i v k r x : NoDup (ids (FCons i v k r)) -> In c (ids k) -> find c (FCons i v k r) = Some x -> find c k = Some x.
Proof.
  intros Hnd Hin. cbn [ids] in Hnd. apply NoDup_cons_app_inv in Hnd as (Hik & _). rewrite find_cons.
  destruct (N.eqb_spec i c) as [->|_]; [contradiction|]. destruct (find c k) eqn:E; [exact (fun H => H)|].
  apply find_none in E. contradiction.
Qed.

Lemma find_in_rest c i v k r x : NoDup (ids (FCons i v k r)) -> In c (ids r) -> find c (FCons i v k r) = Some x -> find c r = Some x.
Proof.
  intros Hnd Hin. cbn [ids] in Hnd. apply NoDup_cons_app_inv in Hnd as (_ & Hir & _ & _ & Hkr). rewrite find_cons.
  destruct (N.eqb_spec i c) as [->|_]; [contradiction|].
  assert (find c k = None) as -> by (apply find_none; intros Hx; eapply NoDup_app_not_in; [exact Hkr|exact Hx|exact Hin]).
  exact (fun H => H).
Qed.

Lemma merge_reading p n tp tn f : forall top, NoDup (ids f) -> follb top p n f ->
  find p f = Some (VText tp, FNil) -> find n f = Some (VText tn, FNil) ->
  unormb top (erase (fdel n (fset_val p (append_text_to tn) f))) = unormb top (erase f).
Proof.
  induction f as [|i v k IHk r IHr]; intros top Hnd; cbn [follb]; [intros []|].
  pose proof Hnd as Hnd0. cbn [ids] in Hnd. apply NoDup_cons_app_inv in Hnd as (Hik & Hir & Hk & Hr & Hkr).
  intros [(Ht & Hi & _ & Hy)|[H|H]] Fp Fn.
  - subst i top. destruct r as [|y vy ky r']; [discriminate|]. cbn in Hy. inversion Hy; subst y.
    rewrite find_cons, N.eqb_refl in Fp. inversion Fp; subst v k.
    assert (p <> n) as Hpn by (intros ->; apply Hir; left; reflexivity).
    rewrite find_cons in Fn. apply N.eqb_neq in Hpn. rewrite Hpn in Fn. cbn [find] in Fn. rewrite N.eqb_refl in Fn.
    inversion Fn; subst vy ky.
    cbn [fset_val]. rewrite N.eqb_refl. cbn [fdel append_text_to]. rewrite Hpn. cbn [fdel]. rewrite N.eqb_refl.
    cbn [ids] in Hr. apply NoDup_cons_app_inv in Hr as (_ & Hnr' & _).
    rewrite (fdel_absent n r' Hnr'). cbn [erase unormb]. rewrite ucons_m_assoc. reflexivity.
  - destruct (follb_in _ _ _ _ H) as [Hpk Hnk].
    assert (i <> p) as Hip by (intros ->; contradiction). assert (i <> n) as Hin by (intros ->; contradiction).
    assert (~ In p (ids r)) as Hpr by (intros Hx; eapply NoDup_app_not_in; [exact Hkr|exact Hpk|exact Hx]).
    assert (~ In n (ids r)) as Hnr by (intros Hx; eapply NoDup_app_not_in; [exact Hkr|exact Hnk|exact Hx]).
    cbn [fset_val]. apply N.eqb_neq in Hip, Hin. rewrite Hip. cbn [fdel]. rewrite Hin.
    rewrite (fset_val_absent p _ r Hpr), (fdel_absent n r Hnr). cbn [erase unormb].
    rewrite (IHk false Hk H (find_in_kids _ _ _ _ _ _ Hnd0 Hpk Fp) (find_in_kids _ _ _ _ _ _ Hnd0 Hnk Fn)). reflexivity.
  - destruct (follb_in _ _ _ _ H) as [Hpk Hnk].
    assert (i <> p) as Hip by (intros ->; contradiction). assert (i <> n) as Hin by (intros ->; contradiction).
    assert (~ In p (ids k)) as Hpr by (intros Hx; eapply NoDup_app_not_in; [exact Hkr|exact Hx|exact Hpk]).
    assert (~ In n (ids k)) as Hnr by (intros Hx; eapply NoDup_app_not_in; [exact Hkr|exact Hx|exact Hnk]).
    cbn [fset_val]. apply N.eqb_neq in Hip, Hin. rewrite Hip. cbn [fdel]. rewrite Hin.
    rewrite (fset_val_absent p _ k Hpr), (fdel_absent n k Hnr). cbn [erase unormb].
    pose proof (IHr top Hr H (find_in_rest _ _ _ _ _ _ Hnd0 Hpk Fp) (find_in_rest _ _ _ _ _ _ Hnd0 Hnk Fn)) as IH.
    destruct top; rewrite IH; reflexivity.
Qed.

(* the same when the first of the two goes into the second *)
Lemma merge_reading_next b n tb tn f : forall top, NoDup (ids f) -> follb top b n f ->
  find b f = Some (VText tb, FNil) -> find n f = Some (VText tn, FNil) ->
  unormb top (erase (fdel b (fset_val n (prepend_text_to tb) f))) = unormb top (erase f).
Proof.
  induction f as [|i v k IHk r IHr]; intros top Hnd; cbn [follb]; [intros []|].
  pose proof Hnd as Hnd0. cbn [ids] in Hnd. apply NoDup_cons_app_inv in Hnd as (Hik & Hir & Hk & Hr & Hkr).
  intros [(Ht & Hi & _ & Hy)|[H|H]] Fp Fn.
  - subst i top. destruct r as [|y vy ky r']; [discriminate|]. cbn in Hy. inversion Hy; subst y.
    rewrite find_cons, N.eqb_refl in Fp. inversion Fp; subst v k.
    assert (b <> n) as Hpn by (intros ->; apply Hir; left; reflexivity).
    rewrite find_cons in Fn. apply N.eqb_neq in Hpn. rewrite Hpn in Fn. cbn [find] in Fn. rewrite N.eqb_refl in Fn.
    inversion Fn; subst vy ky.
    cbn [fset_val]. rewrite Hpn. cbn [fset_val]. rewrite N.eqb_refl. cbn [fdel prepend_text_to]. rewrite N.eqb_refl.
    cbn [fdel]. assert (N.eqb n b = false) as Hnb by (rewrite N.eqb_sym; exact Hpn). rewrite Hnb.
    cbn [ids] in Hr. apply NoDup_cons_app_inv in Hr as (_ & Hnr' & _).
    assert (~ In b (ids r')) as Hbr' by (intros Hx; apply Hir; right; apply in_or_app; right; exact Hx).
    rewrite (fdel_absent b r' Hbr'). cbn [fdel erase unormb]. rewrite ucons_m_assoc. reflexivity.
  - destruct (follb_in _ _ _ _ H) as [Hpk Hnk].
    assert (i <> b) as Hip by (intros ->; contradiction). assert (i <> n) as Hin by (intros ->; contradiction).
    assert (~ In b (ids r)) as Hpr by (intros Hx; eapply NoDup_app_not_in; [exact Hkr|exact Hpk|exact Hx]).
    assert (~ In n (ids r)) as Hnr by (intros Hx; eapply NoDup_app_not_in; [exact Hkr|exact Hnk|exact Hx]).
    cbn [fset_val]. apply N.eqb_neq in Hip, Hin. rewrite Hin. cbn [fdel]. rewrite Hip.
    rewrite (fset_val_absent n _ r Hnr), (fdel_absent b r Hpr). cbn [erase unormb].
    rewrite (IHk false Hk H (find_in_kids _ _ _ _ _ _ Hnd0 Hpk Fp) (find_in_kids _ _ _ _ _ _ Hnd0 Hnk Fn)). reflexivity.
  - destruct (follb_in _ _ _ _ H) as [Hpk Hnk].
    assert (i <> b) as Hip by (intros ->; contradiction). assert (i <> n) as Hin by (intros ->; contradiction).
    assert (~ In b (ids k)) as Hpr by (intros Hx; eapply NoDup_app_not_in; [exact Hkr|exact Hx|exact Hpk]).
    assert (~ In n (ids k)) as Hnr by (intros Hx; eapply NoDup_app_not_in; [exact Hkr|exact Hx|exact Hnk]).
    cbn [fset_val]. apply N.eqb_neq in Hip, Hin. rewrite Hin. cbn [fdel]. rewrite Hip.
    rewrite (fset_val_absent n _ k Hnr), (fdel_absent b k Hpr). cbn [erase unormb].
    pose proof (IHr top Hr H (find_in_rest _ _ _ _ _ _ Hnd0 Hpk Fp) (find_in_rest _ _ _ _ _ _ Hnd0 Hnk Fn)) as IH.
    destruct top; rewrite IH; reflexivity.
Qed.

(* ---------- adjacency and the surgery primitives ---------- *)

Lemma hd_slot_fdel b r y : hd_slot r = Some y -> y <> b -> hd_slot (fdel b r) = Some y.
Proof. destruct r as [|i v k r']; [discriminate|]. cbn. intros H Hne. inversion H; subst. apply N.eqb_neq in Hne. rewrite Hne. reflexivity. Qed.

Lemma follb_fdel b x y l : forall top, NoDup (ids l) -> In x (ids (fdel b l)) -> y <> b -> follb top x y l -> follb top x y (fdel b l).
Proof.
  induction l as [|i v k IHk r IHr]; intros top Hnd Hx Hy; cbn [follb fdel]; [intros []|].
  cbn [ids] in Hnd. apply NoDup_cons_app_inv in Hnd as (Hik & Hir & Hk & Hr & Hkr). cbn [fdel] in Hx.
  destruct (N.eqb_spec i b) as [Eib|Hne]; [subst i|].
  - intros [(_ & Ebx & _)|[H|H]].
    + exfalso. subst x. exact (fdel_gone b r Hx).
    + exfalso. destruct (follb_in _ _ _ _ H) as [Hxk _]. eapply NoDup_app_not_in; [exact Hkr|exact Hxk|]. apply (ids_fdel_incl b r). exact Hx.
    + apply IHr; assumption.
  - cbn [ids] in Hx. cbn [follb]. intros [(Ht & Hi & Hv & Hh)|[H|H]].
    + left. split; [exact Ht|]. split; [exact Hi|]. split; [exact Hv|]. apply hd_slot_fdel; assumption.
    + right. left. destruct (follb_in _ _ _ _ H) as [Hxk _]. apply IHk; try assumption.
      destruct Hx as [Hx|Hx]; [subst; contradiction|]. apply in_app_or in Hx as [Hx|Hx]; [exact Hx|].
      exfalso. eapply NoDup_app_not_in; [exact Hkr|exact Hxk|]. apply (ids_fdel_incl b r). exact Hx.
    + right. right. destruct (follb_in _ _ _ _ H) as [Hxr _]. apply IHr; try assumption.
      destruct Hx as [Hx|Hx]; [subst; contradiction|]. apply in_app_or in Hx as [Hx|Hx]; [|exact Hx].
      exfalso. eapply NoDup_app_not_in; [exact Hkr| |exact Hxr]. apply (ids_fdel_incl b k). exact Hx.
Qed.

Lemma occb_fdel b x l : forall top, NoDup (ids l) -> In x (ids (fdel b l)) -> occb top x l -> occb top x (fdel b l).
Proof.
  induction l as [|i v k IHk r IHr]; intros top Hnd Hx; cbn [occb fdel]; [intros []|].
  cbn [ids] in Hnd. apply NoDup_cons_app_inv in Hnd as (Hik & Hir & Hk & Hr & Hkr). cbn [fdel] in Hx.
  destruct (N.eqb_spec i b) as [Eib|Hne]; [subst i|].
  - intros [(_ & Ebx & _)|[H|H]].
    + exfalso. subst x. exact (fdel_gone b r Hx).
    + exfalso. pose proof (occb_in _ _ _ H) as Hxk. eapply NoDup_app_not_in; [exact Hkr|exact Hxk|]. apply (ids_fdel_incl b r). exact Hx.
    + apply IHr; assumption.
  - cbn [ids] in Hx. cbn [occb]. intros [H|[H|H]].
    + left. exact H.
    + right. left. pose proof (occb_in _ _ _ H) as Hxk. apply IHk; try assumption.
      destruct Hx as [Hx|Hx]; [subst; contradiction|]. apply in_app_or in Hx as [Hx|Hx]; [exact Hx|].
      exfalso. eapply NoDup_app_not_in; [exact Hkr|exact Hxk|]. apply (ids_fdel_incl b r). exact Hx.
    + right. right. pose proof (occb_in _ _ _ H) as Hxr. apply IHr; try assumption.
      destruct Hx as [Hx|Hx]; [subst; contradiction|]. apply in_app_or in Hx as [Hx|Hx]; [|exact Hx].
      exfalso. eapply NoDup_app_not_in; [exact Hkr| |exact Hxr]. apply (ids_fdel_incl b k). exact Hx.
Qed.

Lemma hd_slot_finsert_after ref T r y : hd_slot r = Some y -> hd_slot (finsert_after ref T r) = Some y.
Proof. destruct r as [|i v k r']; [discriminate|]. cbn. destruct (N.eqb i ref); exact (fun H => H). Qed.

Lemma follb_ins_after_keep ref T x y l : forall top, ref <> x -> follb top x y l -> follb top x y (finsert_after ref T l).
Proof.
  induction l as [|i v k IHk r IHr]; intros top Hne; cbn [follb finsert_after]; [intros []|].
  destruct (N.eqb_spec i ref) as [->|Hir]; cbn [follb].
  - intros [(_ & Hi & _)|[H|H]]; [congruence|right; left; exact H|right; right; apply follb_fapp_r; exact H].
  - intros [(Ht & Hi & Hv & Hh)|[H|H]].
    + left. split; [exact Ht|]. split; [exact Hi|]. split; [exact Hv|]. apply hd_slot_finsert_after. exact Hh.
    + right. left. apply IHk; assumption.
    + right. right. apply IHr; assumption.
Qed.

Lemma follb_ins_after_new ref b vb kb l : forall top, NoDup (ids l) -> occb top ref l ->
  follb top ref b (finsert_after ref (FCons b vb kb FNil) l).
Proof.
  induction l as [|i v k IHk r IHr]; intros top Hnd; cbn [occb finsert_after]; [intros []|].
  cbn [ids] in Hnd. apply NoDup_cons_app_inv in Hnd as (Hik & Hir & Hk & Hr & Hkr).
  destruct (N.eqb_spec i ref) as [->|Hne]; cbn [follb].
  - intros [(Ht & _ & Hv)|[H|H]].
    + left. cbn [fapp hd_slot]. auto.
    + exfalso. apply Hik. eapply occb_in. exact H.
    + exfalso. apply Hir. eapply occb_in. exact H.
  - intros [(_ & Hi & _)|[H|H]]; [congruence|right; left; apply IHk; assumption|right; right; apply IHr; assumption].
Qed.

Lemma follb_ins_after_next ref b vb kb nx l : forall top, NoDup (ids l) -> is_normal vb = true -> follb top ref nx l ->
  follb top b nx (finsert_after ref (FCons b vb kb FNil) l).
Proof.
  induction l as [|i v k IHk r IHr]; intros top Hnd Hvb; cbn [follb finsert_after]; [intros []|].
  cbn [ids] in Hnd. apply NoDup_cons_app_inv in Hnd as (Hik & Hir & Hk & Hr & Hkr).
  destruct (N.eqb_spec i ref) as [->|Hne]; cbn [follb].
  - intros [(Ht & _ & _ & Hh)|[H|H]].
    + right. right. cbn [fapp follb]. left. auto.
    + exfalso. apply Hik. exact (proj1 (follb_in _ _ _ _ H)).
    + exfalso. apply Hir. exact (proj1 (follb_in _ _ _ _ H)).
  - intros [(_ & Hi & _)|[H|H]]; [congruence|right; left; apply IHk; assumption|right; right; apply IHr; assumption].
Qed.

Lemma follb_ins_before_keep ref T x y l : forall top, ref <> y -> follb top x y l -> follb top x y (finsert_before ref T l).
Proof.
  induction l as [|i v k IHk r IHr]; intros top Hne; cbn [follb finsert_before]; [intros []|].
  destruct (N.eqb_spec i ref) as [->|Hir].
  - intros H. apply follb_fapp_r. cbn [follb]. exact H.
  - cbn [follb]. intros [(Ht & Hi & Hv & Hh)|[H|H]].
    + left. split; [exact Ht|]. split; [exact Hi|]. split; [exact Hv|].
      destruct r as [|j vj kj r']; [discriminate|]. cbn in Hh. inversion Hh; subst j. cbn [finsert_before].
      assert (N.eqb y ref = false) as -> by (apply N.eqb_neq; congruence). reflexivity.
    + right. left. apply IHk; assumption.
    + right. right. apply IHr; assumption.
Qed.

Lemma follb_ins_before_new ref b vb kb l : forall top, NoDup (ids l) -> is_normal vb = true -> occb top ref l ->
  follb top b ref (finsert_before ref (FCons b vb kb FNil) l).
Proof.
  induction l as [|i v k IHk r IHr]; intros top Hnd Hvb; cbn [occb finsert_before]; [intros []|].
  cbn [ids] in Hnd. apply NoDup_cons_app_inv in Hnd as (Hik & Hir & Hk & Hr & Hkr).
  destruct (N.eqb_spec i ref) as [->|Hne].
  - intros [(Ht & _ & Hv)|[H|H]].
    + cbn [fapp follb]. left. cbn [hd_slot]. auto.
    + exfalso. apply Hik. eapply occb_in. exact H.
    + exfalso. apply Hir. eapply occb_in. exact H.
  - cbn [follb]. intros [(_ & Hi & _)|[H|H]]; [congruence|right; left; apply IHk; assumption|right; right; apply IHr; assumption].
Qed.

Lemma follb_ins_before_prev ref b vb kb p l : forall top, NoDup (ids l) -> follb top p ref l ->
  follb top p b (finsert_before ref (FCons b vb kb FNil) l).
Proof.
  induction l as [|i v k IHk r IHr]; intros top Hnd; cbn [follb finsert_before]; [intros []|].
  cbn [ids] in Hnd. pose proof Hnd as Hnd0. apply NoDup_cons_app_inv in Hnd as (Hik & Hir & Hk & Hr & Hkr).
  destruct (N.eqb_spec i ref) as [->|Hne].
  - intros [(_ & _ & _ & Hh)|[H|H]].
    + exfalso. apply Hir. apply hd_slot_in. exact Hh.
    + exfalso. apply Hik. exact (proj2 (follb_in _ _ _ _ H)).
    + exfalso. apply Hir. exact (proj2 (follb_in _ _ _ _ H)).
  - cbn [follb]. intros [(Ht & Hi & Hv & Hh)|[H|H]].
    + left. split; [exact Ht|]. split; [exact Hi|]. split; [exact Hv|].
      destruct r as [|j vj kj r']; [discriminate|]. cbn in Hh. inversion Hh; subst j. cbn [finsert_before].
      rewrite N.eqb_refl. reflexivity.
    + right. left. apply IHk; assumption.
    + right. right. apply IHr; assumption.
Qed.

(* ---------- asking for the place the node already has ---------- *)

Lemma find_head_rest b i v k r x : NoDup (ids (FCons i v k r)) -> hd_slot r = Some b -> find b (FCons i v k r) = Some x ->
  exists r', r = FCons b (fst x) (snd x) r'.
Proof.
  intros Hnd Hh. destruct r as [|j vj kj r']; [discriminate|]. cbn in Hh. inversion Hh; subst j.
  intros Hf. apply (find_in_rest b i v k _ x Hnd ltac:(left; reflexivity)) in Hf. cbn [find] in Hf. rewrite N.eqb_refl in Hf.
  inversion Hf; subst. exists r'. reflexivity.
Qed.

(* [b] stands right after [ref]: cutting it out and inserting it after [ref] gives the same forest *)
Lemma insert_after_in_place ref b vb kb l : forall top, NoDup (ids l) -> follb top ref b l -> find b l = Some (vb, kb) ->
  finsert_after ref (FCons b vb kb FNil) (fdel b l) = l.
Proof.
  induction l as [|i v k IHk r IHr]; intros top Hnd; cbn [follb]; [intros []|].
  pose proof Hnd as Hnd0. cbn [ids] in Hnd. apply NoDup_cons_app_inv in Hnd as (Hik & Hir & Hk & Hr & Hkr).
  intros [(_ & Hi & _ & Hh)|[H|H]] Hf.
  - subst i. destruct (find_head_rest _ _ _ _ _ _ Hnd0 Hh Hf) as [r' ->]. cbn [fst snd] in *.
    assert (ref <> b) as Hrb by (intros ->; apply Hir; left; reflexivity).
    assert (~ In b (ids k)) as Hbk by (intros Hx; eapply NoDup_app_not_in; [exact Hkr|exact Hx|left; reflexivity]).
    cbn [ids] in Hr. apply NoDup_cons_app_inv in Hr as (_ & Hbr' & _).
    cbn [fdel]. apply N.eqb_neq in Hrb. rewrite Hrb. cbn [fdel]. rewrite N.eqb_refl. rewrite (fdel_absent b k Hbk), (fdel_absent b r' Hbr').
    cbn [finsert_after]. rewrite N.eqb_refl. reflexivity.
  - destruct (follb_in _ _ _ _ H) as [Hrk Hbk].
    assert (i <> ref) as Hir' by (intros ->; contradiction). assert (i <> b) as Hib by (intros ->; contradiction).
    assert (~ In b (ids r)) as Hbr by (intros Hx; eapply NoDup_app_not_in; [exact Hkr|exact Hbk|exact Hx]).
    assert (~ In ref (ids r)) as Hrr by (intros Hx; eapply NoDup_app_not_in; [exact Hkr|exact Hrk|exact Hx]).
    cbn [fdel]. apply N.eqb_neq in Hir', Hib. rewrite Hib. cbn [finsert_after]. rewrite Hir'.
    rewrite (fdel_absent b r Hbr), (finsert_after_absent ref _ r Hrr).
    rewrite (IHk false Hk H (find_in_kids _ _ _ _ _ _ Hnd0 Hbk Hf)). reflexivity.
  - destruct (follb_in _ _ _ _ H) as [Hrk Hbk].
    assert (i <> ref) as Hir' by (intros ->; contradiction). assert (i <> b) as Hib by (intros ->; contradiction).
    assert (~ In b (ids k)) as Hbr by (intros Hx; eapply NoDup_app_not_in; [exact Hkr|exact Hx|exact Hbk]).
    assert (~ In ref (ids k)) as Hrr by (intros Hx; eapply NoDup_app_not_in; [exact Hkr|exact Hx|exact Hrk]).
    cbn [fdel]. apply N.eqb_neq in Hir', Hib. rewrite Hib. cbn [finsert_after]. rewrite Hir'.
    rewrite (fdel_absent b k Hbr), (finsert_after_absent ref _ k Hrr).
    rewrite (IHr top Hr H (find_in_rest _ _ _ _ _ _ Hnd0 Hbk Hf)). reflexivity.
Qed.

(* [b] stands right before [ref] *)
Lemma insert_before_in_place ref b vb kb l : forall top, NoDup (ids l) -> follb top b ref l -> find b l = Some (vb, kb) ->
  finsert_before ref (FCons b vb kb FNil) (fdel b l) = l.
Proof.
  induction l as [|i v k IHk r IHr]; intros top Hnd; cbn [follb]; [intros []|].
  pose proof Hnd as Hnd0. cbn [ids] in Hnd. apply NoDup_cons_app_inv in Hnd as (Hik & Hir & Hk & Hr & Hkr).
  intros [(_ & Hi & _ & Hh)|[H|H]] Hf.
  - subst i. rewrite find_cons, N.eqb_refl in Hf. inversion Hf; subst v k.
    destruct r as [|j vj kj r']; [discriminate|]. cbn in Hh. inversion Hh; subst j.
    assert (ref <> b) as Hrb by (intros ->; apply Hir; left; reflexivity).
    assert (~ In b (ids kj)) as Hbkj by (intros Hx; apply Hir; right; apply in_or_app; left; exact Hx).
    assert (~ In b (ids r')) as Hbr' by (intros Hx; apply Hir; right; apply in_or_app; right; exact Hx).
    cbn [fdel]. rewrite N.eqb_refl. assert (N.eqb ref b = false) as -> by (apply N.eqb_neq; exact Hrb).
    rewrite (fdel_absent b kj Hbkj), (fdel_absent b r' Hbr'). cbn [finsert_before]. rewrite N.eqb_refl. reflexivity.
  - destruct (follb_in _ _ _ _ H) as [Hbk Hrk].
    assert (i <> ref) as Hir' by (intros ->; contradiction). assert (i <> b) as Hib by (intros ->; contradiction).
    assert (~ In b (ids r)) as Hbr by (intros Hx; eapply NoDup_app_not_in; [exact Hkr|exact Hbk|exact Hx]).
    assert (~ In ref (ids r)) as Hrr by (intros Hx; eapply NoDup_app_not_in; [exact Hkr|exact Hrk|exact Hx]).
    cbn [fdel]. apply N.eqb_neq in Hir', Hib. rewrite Hib. cbn [finsert_before]. rewrite Hir'.
    rewrite (fdel_absent b r Hbr), (finsert_before_absent ref _ r Hrr).
    rewrite (IHk false Hk H (find_in_kids _ _ _ _ _ _ Hnd0 Hbk Hf)). reflexivity.
  - destruct (follb_in _ _ _ _ H) as [Hbk Hrk].
    assert (i <> ref) as Hir' by (intros ->; contradiction). assert (i <> b) as Hib by (intros ->; contradiction).
    assert (~ In b (ids k)) as Hbr by (intros Hx; eapply NoDup_app_not_in; [exact Hkr|exact Hx|exact Hbk]).
    assert (~ In ref (ids k)) as Hrr by (intros Hx; eapply NoDup_app_not_in; [exact Hkr|exact Hx|exact Hrk]).
    cbn [fdel]. apply N.eqb_neq in Hir', Hib. rewrite Hib. cbn [finsert_before]. rewrite Hir'.
    rewrite (fdel_absent b k Hbr), (finsert_before_absent ref _ k Hrr).
    rewrite (IHr top Hr H (find_in_rest _ _ _ _ _ _ Hnd0 Hbk Hf)). reflexivity.
Qed.

(* [b] stands right before the leaf [ref], which is then deleted: moving [b] behind it first changes nothing *)
Lemma insert_after_then_delete ref b vb kb l : forall top, NoDup (ids l) -> follb top b ref l -> find b l = Some (vb, kb) ->
  (forall v k, find ref l = Some (v, k) -> k = FNil) ->
  fdel ref (finsert_after ref (FCons b vb kb FNil) (fdel b l)) = fdel ref l.
Proof.
  induction l as [|i v k IHk r IHr]; intros top Hnd; cbn [follb]; [intros []|].
  pose proof Hnd as Hnd0. cbn [ids] in Hnd. apply NoDup_cons_app_inv in Hnd as (Hik & Hir & Hk & Hr & Hkr).
  intros [(_ & Hi & _ & Hh)|[H|H]] Hf Hleaf.
  - subst i. rewrite find_cons, N.eqb_refl in Hf. inversion Hf; subst v k.
    destruct r as [|j vj kj r']; [discriminate|]. cbn in Hh. inversion Hh; subst j.
    assert (ref <> b) as Hrb by (intros ->; apply Hir; left; reflexivity).
    assert (kj = FNil) as ->.
    { apply (Hleaf vj). rewrite find_cons. assert (N.eqb b ref = false) as -> by (apply N.eqb_neq; congruence).
      assert (find ref kb = None) as -> by (apply find_none; intros Hx; eapply NoDup_app_not_in; [exact Hkr|exact Hx|left; reflexivity]).
      cbn [find]. rewrite N.eqb_refl. reflexivity. }
    cbn [ids] in Hr. apply NoDup_cons_app_inv in Hr as (_ & Hrr' & _).
    assert (~ In b (ids r')) as Hbr' by (intros Hx; apply Hir; right; apply in_or_app; right; exact Hx).
    assert (~ In ref (ids kb)) as Hrk by (intros Hx; eapply NoDup_app_not_in; [exact Hkr|exact Hx|left; reflexivity]).
    cbn [fdel]. rewrite N.eqb_refl. assert (N.eqb ref b = false) as Erb by (apply N.eqb_neq; exact Hrb). rewrite Erb.
    cbn [fdel]. rewrite (fdel_absent b r' Hbr'). cbn [finsert_after]. rewrite N.eqb_refl. cbn [fapp fdel]. rewrite N.eqb_refl.
    assert (N.eqb b ref = false) as Ebr by (rewrite N.eqb_sym; exact Erb). rewrite Ebr.
    reflexivity.
  - destruct (follb_in _ _ _ _ H) as [Hbk Hrk].
    assert (i <> ref) as Hir' by (intros ->; contradiction). assert (i <> b) as Hib by (intros ->; contradiction).
    assert (~ In b (ids r)) as Hbr by (intros Hx; eapply NoDup_app_not_in; [exact Hkr|exact Hbk|exact Hx]).
    assert (~ In ref (ids r)) as Hrr by (intros Hx; eapply NoDup_app_not_in; [exact Hkr|exact Hrk|exact Hx]).
    cbn [fdel]. apply N.eqb_neq in Hir', Hib. rewrite Hib. cbn [finsert_after]. rewrite Hir'. cbn [fdel]. rewrite Hir'.
    rewrite (fdel_absent b r Hbr), (finsert_after_absent ref _ r Hrr).
    rewrite (IHk false Hk H (find_in_kids _ _ _ _ _ _ Hnd0 Hbk Hf)); [reflexivity|].
    intros v0 k0 Hf0. apply (Hleaf v0). rewrite find_cons, Hir', Hf0. reflexivity.
  - destruct (follb_in _ _ _ _ H) as [Hbk Hrk].
    assert (i <> ref) as Hir' by (intros ->; contradiction). assert (i <> b) as Hib by (intros ->; contradiction).
    assert (~ In b (ids k)) as Hbr by (intros Hx; eapply NoDup_app_not_in; [exact Hkr|exact Hx|exact Hbk]).
    assert (~ In ref (ids k)) as Hrr by (intros Hx; eapply NoDup_app_not_in; [exact Hkr|exact Hx|exact Hrk]).
    cbn [fdel]. apply N.eqb_neq in Hir', Hib. rewrite Hib. cbn [finsert_after]. rewrite Hir'. cbn [fdel]. rewrite Hir'.
    rewrite (fdel_absent b k Hbr), (finsert_after_absent ref _ k Hrr).
    rewrite (IHr top Hr H (find_in_rest _ _ _ _ _ _ Hnd0 Hbk Hf)); [reflexivity|].
    intros v0 k0 Hf0. apply (Hleaf v0). rewrite find_cons, Hir'.
    assert (find ref k = None) as -> by (apply find_none; exact Hrr). exact Hf0.
Qed.

(* ---------- the child-list insertions: append (at the end), prepend (in front of the ordinary children) ---------- *)

Lemma hd_slot_fmap_kids P g r : hd_slot (fmap_kids P g r) = hd_slot r.
Proof. destruct r as [|i v k r']; [reflexivity|]. cbn. destruct (N.eqb i P); reflexivity. Qed.

Lemma follb_fmap_kids P g x y l : forall top, (forall k, follb false x y k -> follb false x y (g k)) ->
  follb top x y l -> follb top x y (fmap_kids P g l).
Proof.
  induction l as [|i v k IHk r IHr]; intros top Hg; cbn [follb fmap_kids]; [intros []|].
  destruct (N.eqb i P); cbn [follb].
  - intros [H|[H|H]]; [left; exact H|right; left; apply Hg; exact H|right; right; exact H].
  - intros [(Ht & Hi & Hv & Hh)|[H|H]].
    + left. rewrite hd_slot_fmap_kids. auto.
    + right. left. apply IHk; assumption.
    + right. right. apply IHr; assumption.
Qed.

Lemma follb_insert_first_normal T x y k : follb false x y k -> follb false x y (insert_first_normal T k).
Proof.
  induction k as [|i v kk _ r IH]; cbn [follb insert_first_normal]; [intros []|].
  destruct (is_normal v) eqn:Ev.
  - intros H. apply follb_fapp_r. cbn [follb]. rewrite Ev. exact H.
  - cbn [follb]. intros [(_ & _ & Hv & _)|[H|H]]; [congruence|right; left; exact H|right; right; apply IH; exact H].
Qed.

(* the appended node follows the last child *)
Lemma follb_append_new P b vb kb L vL kL k0 vP l : forall top, NoDup (ids l) ->
  find P l = Some (vP, fapp k0 (FCons L vL kL FNil)) -> is_normal vL = true ->
  follb top L b (fmap_kids P (fun k => fapp k (FCons b vb kb FNil)) l).
Proof.
  induction l as [|i v k IHk r IHr]; intros top Hnd; [discriminate|].
  pose proof Hnd as Hnd0. cbn [ids] in Hnd. apply NoDup_cons_app_inv in Hnd as (Hik & Hir & Hk & Hr & Hkr).
  rewrite find_cons. cbn [fmap_kids]. destruct (N.eqb i P); cbn [follb].
  - intros E Hv. inversion E; subst. right. left. rewrite fapp_assoc. apply follb_fapp_r. cbn [fapp follb]. left. auto.
  - destruct (find P k) as [x|] eqn:Ek.
    + intros E Hv. inversion E; subst. right. left. apply IHk; assumption.
    + intros E Hv. right. right. apply IHr; assumption.
Qed.

(* the prepended node is followed by the first ordinary child *)
Lemma follb_prepend_next P b vb kb nx kP vP l : forall top, NoDup (ids l) ->
  find P l = Some (vP, kP) -> hd_slot (nrm_part kP) = Some nx -> is_normal vb = true ->
  follb top b nx (fmap_kids P (insert_first_normal (FCons b vb kb FNil)) l).
Proof.
  induction l as [|i v k IHk r IHr]; intros top Hnd; [discriminate|].
  pose proof Hnd as Hnd0. cbn [ids] in Hnd. apply NoDup_cons_app_inv in Hnd as (Hik & Hir & Hk & Hr & Hkr).
  rewrite find_cons. cbn [fmap_kids]. destruct (N.eqb i P); cbn [follb].
  - intros E Hh Hv. inversion E; subst. right. left. rewrite insert_first_normal_split. apply follb_fapp_r. cbn [fapp follb]. left. auto.
  - destruct (find P k) as [x|] eqn:Ek.
    + intros E Hh Hv. inversion E; subst. right. left. eapply IHk; eassumption.
    + intros E Hh Hv. right. right. eapply IHr; eassumption.
Qed.

Lemma fdel_insert_first_normal x T k : hd_slot (nrm_part k) <> Some x ->
  fdel x (insert_first_normal T k) = insert_first_normal (fdel x T) (fdel x k).
Proof.
  induction k as [|i v kk _ r IH]; cbn [insert_first_normal nrm_part fdel]; [reflexivity|].
  destruct (is_normal v) eqn:Ev.
  - cbn [hd_slot]. intros Hne. assert (N.eqb i x = false) as E by (apply N.eqb_neq; congruence).
    rewrite fdel_fapp. cbn [fdel]. rewrite E. cbn [insert_first_normal]. rewrite Ev. reflexivity.
  - intros Hne. cbn [fdel]. destruct (N.eqb i x); [apply IH; exact Hne|]. cbn [insert_first_normal]. rewrite Ev, (IH Hne). reflexivity.
Qed.

Lemma fset_val_insert_first_normal p g T k : ~ In p (ids T) -> (forall v, is_normal (g v) = is_normal v) ->
  fset_val p g (insert_first_normal T k) = insert_first_normal T (fset_val p g k).
Proof.
  intros Hp Hg. induction k as [|i v kk _ r IH]; cbn [insert_first_normal fset_val]; [apply fset_val_absent; exact Hp|].
  destruct (is_normal v) eqn:Ev.
  - rewrite fset_val_fapp_skip by exact Hp. cbn [fset_val]. destruct (N.eqb i p); cbn [insert_first_normal]; rewrite ?Hg, Ev; reflexivity.
  - cbn [fset_val]. destruct (N.eqb i p); cbn [insert_first_normal]; rewrite ?Hg, Ev; [reflexivity|]. rewrite IH. reflexivity.
Qed.

(* ---------- values seen through find ---------- *)

Lemma find_fset_val_other x p g f : NoDup (ids f) -> x <> p -> forall v k, find x f = Some (v, k) ->
  find x (fset_val p g f) = Some (v, fset_val p g k).
Proof.
  induction f as [|i w kk IHk r IHr]; intros Hnd Hne v k; [discriminate|].
  pose proof Hnd as Hnd0. cbn [ids] in Hnd. apply NoDup_cons_app_inv in Hnd as (Hik & Hir & Hk & Hr & Hkr).
  rewrite find_cons. cbn [fset_val]. destruct (N.eqb_spec i p) as [Eip|Hip].
  - subst i. assert (N.eqb p x = false) as E by (apply N.eqb_neq; congruence). rewrite E, find_cons, E.
    destruct (find x kk) as [y|] eqn:Ek.
    + intros H. inversion H; subst. rewrite (fset_val_absent p g k); [reflexivity|].
      intros Hx. apply Hik. eapply find_incl; [exact Ek|]. right. exact Hx.
    + intros H. rewrite H. rewrite (fset_val_absent p g k); [reflexivity|].
      intros Hx. apply Hir. eapply find_incl; [exact H|]. right. exact Hx.
  - rewrite find_cons. destruct (N.eqb i x) eqn:Eix.
    + intros H. inversion H; subst. reflexivity.
    + destruct (find x kk) as [y|] eqn:Ek.
      * intros H. inversion H; subst. rewrite (IHk Hk Hne _ _ eq_refl). reflexivity.
      * intros H. assert (find x (fset_val p g kk) = None) as ->.
        { apply find_none. rewrite nodes_fset_val_ids. apply find_none. exact Ek. }
        apply IHr; assumption.
Qed.

Lemma nodes_fdel_incl b f : incl (nodes (fdel b f)) (nodes f).
Proof.
  induction f as [|i v k IHk r IHr]; cbn [fdel nodes]; [apply incl_refl|].
  destruct (N.eqb i b).
  - intros x Hx. right. apply in_or_app. right. apply IHr. exact Hx.
  - cbn [nodes]. intros x [Hx|Hx]; [left; exact Hx|]. right. apply in_app_or in Hx as [Hx|Hx]; apply in_or_app; [left; apply IHk|right; apply IHr]; exact Hx.
Qed.

Lemma nodes_fset_val_inv x v p g f : In (x, v) (nodes (fset_val p g f)) -> x <> p -> In (x, v) (nodes f).
Proof.
  intros H Hne. induction f as [|i w k IHk r IHr]; cbn [fset_val nodes] in *; [exact H|].
  destruct (N.eqb_spec i p) as [Eip|Hip].
  - subst i. cbn [nodes] in H. destruct H as [H|H]; [inversion H; congruence|right; exact H].
  - cbn [nodes] in H. destruct H as [H|H]; [left; exact H|]. right. apply in_app_or in H as [H|H]; apply in_or_app; [left; apply IHk|right; apply IHr]; exact H.
Qed.

(* ---------- more about the child-list insertions ---------- *)

Lemma fset_val_fapp_keep p g a X : ~ In p (ids X) -> fset_val p g (fapp a X) = fapp (fset_val p g a) X.
Proof.
  intros Hp. induction a as [|i v k _ r IH]; cbn [fapp fset_val]; [apply fset_val_absent; exact Hp|].
  destruct (N.eqb i p); [reflexivity|]. cbn [fapp]. rewrite IH. reflexivity.
Qed.

(* deleting the node just put in gives back the forest it was put into *)
Lemma fdel_own_tree' b v k : fdel b (FCons b v k FNil) = FNil.
Proof. cbn. rewrite N.eqb_refl. reflexivity. Qed.

Lemma fdel_append_fresh b vb kb P f : ~ In b (ids f) -> fdel b (fmap_kids P (fun k => fapp k (FCons b vb kb FNil)) f) = f.
Proof.
  induction f as [|i v k IHk r IHr]; cbn [ids fmap_kids]; [reflexivity|]. intros H.
  assert (i <> b) as Hib by (intros ->; apply H; left; reflexivity).
  assert (~ In b (ids k)) as Hk by (intros X; apply H; right; apply in_or_app; left; exact X).
  assert (~ In b (ids r)) as Hr by (intros X; apply H; right; apply in_or_app; right; exact X).
  apply N.eqb_neq in Hib. destruct (N.eqb i P); cbn [fdel]; rewrite Hib.
  - rewrite fdel_fapp, fdel_own_tree', (fdel_absent b k Hk), (fdel_absent b r Hr), fapp_nil. reflexivity.
  - rewrite (IHk Hk), (IHr Hr). reflexivity.
Qed.

(* [b] is the last child of [P] *)
Lemma append_in_place P b vb kb k0 vP l : NoDup (ids l) -> find P l = Some (vP, fapp k0 (FCons b vb kb FNil)) ->
  fmap_kids P (fun k => fapp k (FCons b vb kb FNil)) (fdel b l) = l.
Proof.
  induction l as [|i v k IHk r IHr]; intros Hnd; [discriminate|].
  pose proof Hnd as Hnd0. cbn [ids] in Hnd. apply NoDup_cons_app_inv in Hnd as (Hik & Hir & Hk & Hr & Hkr).
  rewrite find_cons. destruct (N.eqb_spec i P) as [EiP|HiP].
  - subst i. intros E. inversion E; subst v k. clear E.
    assert (In b (ids (fapp k0 (FCons b vb kb FNil)))) as Hbk by (rewrite ids_fapp; apply in_or_app; right; left; reflexivity).
    assert (P <> b) as HPb by (intros ->; contradiction).
    assert (~ In b (ids r)) as Hbr by (intros Hx; eapply NoDup_app_not_in; [exact Hkr|exact Hbk|exact Hx]).
    rewrite ids_fapp in Hk. cbn [ids] in Hk.
    assert (~ In b (ids k0)) as Hb0 by (intros Hx; eapply NoDup_app_not_in; [exact Hk|exact Hx|left; reflexivity]).
    cbn [fdel]. apply N.eqb_neq in HPb. rewrite HPb. rewrite fdel_fapp, fdel_own_tree', fapp_nil, (fdel_absent b k0 Hb0), (fdel_absent b r Hbr).
    cbn [fmap_kids]. rewrite N.eqb_refl. reflexivity.
  - destruct (find P k) as [x|] eqn:Ek.
    + intros E. inversion E; subst x. clear E.
      assert (In P (ids k)) as HPk by (eapply find_in; exact Ek).
      assert (In b (ids k)) as Hbk.
      { eapply find_incl; [exact Ek|]. right. rewrite ids_fapp. apply in_or_app. right. left. reflexivity. }
      assert (i <> b) as Hib by (intros ->; contradiction).
      assert (~ In b (ids r)) as Hbr by (intros Hx; eapply NoDup_app_not_in; [exact Hkr|exact Hbk|exact Hx]).
      assert (~ In P (ids r)) as HPr by (intros Hx; eapply NoDup_app_not_in; [exact Hkr|exact HPk|exact Hx]).
      cbn [fdel]. apply N.eqb_neq in Hib. rewrite Hib. cbn [fmap_kids]. apply N.eqb_neq in HiP. rewrite HiP.
      rewrite (fdel_absent b r Hbr), (fmap_kids_absent P _ r HPr), (IHk Hk eq_refl). reflexivity.
    + intros E.
      assert (In P (ids r)) as HPr by (eapply find_in; exact E).
      assert (In b (ids r)) as Hbr.
      { eapply find_incl; [exact E|]. right. rewrite ids_fapp. apply in_or_app. right. left. reflexivity. }
      assert (i <> b) as Hib by (intros ->; contradiction).
      assert (~ In b (ids k)) as Hbk by (intros Hx; eapply NoDup_app_not_in; [exact Hkr|exact Hx|exact Hbr]).
      assert (~ In P (ids k)) as HPk by (apply find_none; exact Ek).
      cbn [fdel]. apply N.eqb_neq in Hib. rewrite Hib. cbn [fmap_kids]. apply N.eqb_neq in HiP. rewrite HiP.
      rewrite (fdel_absent b k Hbk), (fmap_kids_absent P _ k HPk), (IHr Hr E). reflexivity.
Qed.

(* ---------- prepend ---------- *)

Lemma ids_abn_incl k : incl (ids (abn_part k)) (ids k) /\ incl (ids (nrm_part k)) (ids k).
Proof.
  rewrite (abn_nrm k) at 2 4. rewrite ids_fapp. split; intros x Hx; apply in_or_app; [left|right]; exact Hx.
Qed.

Lemma fdel_ifn_fresh b vb kb k : ~ In b (ids k) -> fdel b (insert_first_normal (FCons b vb kb FNil) k) = k.
Proof.
  intros H. rewrite insert_first_normal_split, !fdel_fapp, fdel_own_tree'. cbn [fapp].
  rewrite (fdel_absent b (abn_part k)), (fdel_absent b (nrm_part k)); [symmetry; apply abn_nrm| |];
    intros Hx; apply H; [apply (proj2 (ids_abn_incl k))|apply (proj1 (ids_abn_incl k))]; exact Hx.
Qed.

Lemma fdel_prepend_fresh b vb kb P f : ~ In b (ids f) -> fdel b (fmap_kids P (insert_first_normal (FCons b vb kb FNil)) f) = f.
Proof.
  induction f as [|i v k IHk r IHr]; cbn [ids fmap_kids]; [reflexivity|]. intros H.
  assert (i <> b) as Hib by (intros ->; apply H; left; reflexivity).
  assert (~ In b (ids k)) as Hk by (intros X; apply H; right; apply in_or_app; left; exact X).
  assert (~ In b (ids r)) as Hr by (intros X; apply H; right; apply in_or_app; right; exact X).
  apply N.eqb_neq in Hib. destruct (N.eqb i P); cbn [fdel]; rewrite Hib.
  - rewrite (fdel_ifn_fresh b vb kb k Hk), (fdel_absent b r Hr). reflexivity.
  - rewrite (IHk Hk), (IHr Hr). reflexivity.
Qed.

Lemma ids_fmap_kids_ifn P T f : incl (ids (fmap_kids P (insert_first_normal T) f)) (ids f ++ ids T).
Proof.
  induction f as [|i v k IHk r IHr]; cbn [fmap_kids ids]; [intros x []|].
  destruct (N.eqb i P); cbn [ids].
  - intros x [Hx|Hx]; [left; exact Hx|]. right. apply in_app_or in Hx as [Hx|Hx].
    + rewrite insert_first_normal_split, !ids_fapp in Hx. pose proof (ids_abn_incl k) as [Ha Hn].
      apply in_app_or in Hx as [Hx|Hx]; [apply in_or_app; left; apply in_or_app; left; apply Ha; exact Hx|].
      apply in_app_or in Hx as [Hx|Hx]; [apply in_or_app; right; exact Hx|apply in_or_app; left; apply in_or_app; left; apply Hn; exact Hx].
    + apply in_or_app. left. apply in_or_app. right. exact Hx.
  - intros x [Hx|Hx]; [left; exact Hx|]. right. apply in_app_or in Hx as [Hx|Hx].
    + apply IHk in Hx. apply in_app_or in Hx as [Hx|Hx]; apply in_or_app; [left; apply in_or_app; left; exact Hx|right; exact Hx].
    + apply IHr in Hx. apply in_app_or in Hx as [Hx|Hx]; apply in_or_app; [left; apply in_or_app; right; exact Hx|right; exact Hx].
Qed.

(* deleting a node that is not the first ordinary child of [P] commutes with prepending to [P] *)
Lemma fdel_prepend_comm x P T X : NoDup (ids X) -> x <> P -> ~ In x (ids T) ->
  (forall vP kP, find P X = Some (vP, kP) -> hd_slot (nrm_part kP) <> Some x) ->
  fdel x (fmap_kids P (insert_first_normal T) X) = fmap_kids P (insert_first_normal T) (fdel x X).
Proof.
  intros Hnd HxP HxT. induction X as [|i v k IHk r IHr]; intros Hx; cbn [fmap_kids fdel]; [reflexivity|].
  pose proof Hnd as Hnd0. cbn [ids] in Hnd. apply NoDup_cons_app_inv in Hnd as (Hik & Hir & Hk & Hr & Hkr).
  destruct (N.eqb_spec i P) as [EiP|HiP].
  - subst i. assert (N.eqb P x = false) as EPx by (apply N.eqb_neq; congruence). cbn [fdel]. rewrite EPx. cbn [fmap_kids]. rewrite N.eqb_refl.
    rewrite (fdel_insert_first_normal x T k), (fdel_absent x T HxT); [reflexivity|].
    apply (Hx v k). rewrite find_cons, N.eqb_refl. reflexivity.
  - destruct (N.eqb_spec i x) as [Eix|Hix].
    + subst i. cbn [fdel]. rewrite N.eqb_refl.
      (* x is here: it is nowhere in the rest *)
      rewrite (fdel_absent x r Hir).
      apply fdel_absent. intros Hin. apply ids_fmap_kids_ifn in Hin. apply in_app_or in Hin as [Hin|Hin]; contradiction.
    + cbn [fdel]. apply N.eqb_neq in Hix. rewrite Hix. cbn [fmap_kids]. apply N.eqb_neq in HiP. rewrite HiP.
      rewrite IHk, IHr; [reflexivity|exact Hr| |exact Hk|].
      * intros vP kP Hf. apply (Hx vP kP). rewrite find_cons, HiP.
        assert (find P k = None) as ->; [|exact Hf].
        apply find_none. intros Hin. eapply NoDup_app_not_in; [exact Hkr|exact Hin|eapply find_in; exact Hf].
      * intros vP kP Hf. apply (Hx vP kP). rewrite find_cons, HiP, Hf. reflexivity.
Qed.

Lemma hd_nrm_fdel b k nx : hd_slot (nrm_part k) = Some nx -> nx <> b -> hd_slot (nrm_part (fdel b k)) = Some nx.
Proof.
  induction k as [|i v kk _ r IH]; cbn [nrm_part fdel]; [discriminate|].
  destruct (is_normal v) eqn:Ev.
  - cbn [hd_slot]. intros H Hne. inversion H; subst i. assert (N.eqb nx b = false) as -> by (apply N.eqb_neq; exact Hne).
    cbn [nrm_part]. rewrite Ev. reflexivity.
  - intros H Hne. destruct (N.eqb i b); [apply IH; assumption|]. cbn [nrm_part]. rewrite Ev. apply IH; assumption.
Qed.

Lemma ifn_after_abnormal T a : (forall x, In x (level_vals a) -> is_normal x = false) ->
  forall X, insert_first_normal T (fapp a X) = fapp a (insert_first_normal T X).
Proof.
  induction a as [|i v k _ r IH]; intros Ha X; cbn [fapp]; [reflexivity|]. cbn [insert_first_normal].
  rewrite (Ha v) by (left; reflexivity). rewrite IH; [reflexivity|]. intros x Hx. apply Ha. right. exact Hx.
Qed.

Lemma abn_part_abnormal k : forall x, In x (level_vals (abn_part k)) -> is_normal x = false.
Proof.
  induction k as [|i v kk _ r IH]; cbn [abn_part]; [intros x []|]. destruct (is_normal v) eqn:Ev; [intros x []|].
  cbn [level_vals]. intros x [<-|Hx]; [exact Ev|apply IH; exact Hx].
Qed.

(* [b] is the first ordinary child of [P] *)
Lemma prepend_in_place P b vb kb r' vP kP l : NoDup (ids l) -> find P l = Some (vP, kP) -> nrm_part kP = FCons b vb kb r' ->
  (match r' with FCons _ w _ _ => is_normal w = true | FNil => True end) ->
  fmap_kids P (insert_first_normal (FCons b vb kb FNil)) (fdel b l) = l.
Proof.
  intros Hnd Hf Hn Hr'.
  assert (kP = fapp (abn_part kP) (FCons b vb kb r')) as Ek by (rewrite <- Hn; apply abn_nrm).
  assert (forall k, NoDup (ids k) -> k = fapp (abn_part kP) (FCons b vb kb r') ->
            insert_first_normal (FCons b vb kb FNil) (fdel b k) = k) as Hkids.
  { intros k Hk ->. rewrite ids_fapp in Hk. cbn [ids] in Hk.
    assert (~ In b (ids (abn_part kP))) as Hba by (intros Hx; eapply NoDup_app_not_in; [exact Hk|exact Hx|left; reflexivity]).
    apply NoDup_app_inv in Hk as [_ Hk]. apply NoDup_cons_app_inv in Hk as (_ & Hbr & _).
    rewrite fdel_fapp, (fdel_absent b _ Hba). cbn [fdel]. rewrite N.eqb_refl, (fdel_absent b r' Hbr).
    rewrite (ifn_after_abnormal _ _ (abn_part_abnormal kP)). f_equal.
    destruct r' as [|j w kj rj]; [reflexivity|]. cbn [insert_first_normal]. rewrite Hr'. reflexivity. }
  clear Hn Hr'. revert Hf. induction l as [|i v k IHk r IHr]; [discriminate|].
  pose proof Hnd as Hnd0. cbn [ids] in Hnd. apply NoDup_cons_app_inv in Hnd as (Hik & Hir & Hk & Hr & Hkr).
  rewrite find_cons. destruct (N.eqb_spec i P) as [EiP|HiP].
  - subst i. intros E. inversion E; subst v k. clear E.
    assert (In b (ids kP)) as Hbk by (rewrite Ek, ids_fapp; apply in_or_app; right; left; reflexivity).
    assert (P <> b) as HPb by (intros ->; contradiction).
    assert (~ In b (ids r)) as Hbr by (intros Hx; eapply NoDup_app_not_in; [exact Hkr|exact Hbk|exact Hx]).
    cbn [fdel]. apply N.eqb_neq in HPb. rewrite HPb. cbn [fmap_kids]. rewrite N.eqb_refl.
    rewrite (fdel_absent b r Hbr), (Hkids kP Hk Ek). reflexivity.
  - destruct (find P k) as [x|] eqn:Ekf.
    + intros E. inversion E; subst x. clear E.
      assert (In P (ids k)) as HPk by (eapply find_in; exact Ekf).
      assert (In b (ids k)) as Hbk.
      { eapply find_incl; [exact Ekf|]. right. rewrite Ek, ids_fapp. apply in_or_app. right. left. reflexivity. }
      assert (i <> b) as Hib by (intros ->; contradiction).
      assert (~ In b (ids r)) as Hbr by (intros Hx; eapply NoDup_app_not_in; [exact Hkr|exact Hbk|exact Hx]).
      assert (~ In P (ids r)) as HPr by (intros Hx; eapply NoDup_app_not_in; [exact Hkr|exact HPk|exact Hx]).
      cbn [fdel]. apply N.eqb_neq in Hib. rewrite Hib. cbn [fmap_kids]. apply N.eqb_neq in HiP. rewrite HiP.
      rewrite (fdel_absent b r Hbr), (fmap_kids_absent P _ r HPr), (IHk Hk eq_refl). reflexivity.
    + intros E.
      assert (In P (ids r)) as HPr by (eapply find_in; exact E).
      assert (In b (ids r)) as Hbr.
      { eapply find_incl; [exact E|]. right. rewrite Ek, ids_fapp. apply in_or_app. right. left. reflexivity. }
      assert (i <> b) as Hib by (intros ->; contradiction).
      assert (~ In b (ids k)) as Hbk by (intros Hx; eapply NoDup_app_not_in; [exact Hkr|exact Hx|exact Hbr]).
      assert (~ In P (ids k)) as HPk by (apply find_none; exact Ekf).
      cbn [fdel]. apply N.eqb_neq in Hib. rewrite Hib. cbn [fmap_kids]. apply N.eqb_neq in HiP. rewrite HiP.
      rewrite (fdel_absent b k Hbk), (fmap_kids_absent P _ k HPk), (IHr Hr E). reflexivity.
Qed.

(* ---------- a node that follows an ordinary node is nobody's first ordinary child ---------- *)

Lemma hd_slot_fset_val p g r : hd_slot (fset_val p g r) = hd_slot r.
Proof. destruct r as [|i v k r']; [reflexivity|]. cbn. destruct (N.eqb i p); reflexivity. Qed.

Lemma follb_fset_val p g x y l : (forall v, is_normal (g v) = is_normal v) -> forall top,
  follb top x y l -> follb top x y (fset_val p g l).
Proof.
  intros Hg. induction l as [|i v k IHk r IHr]; intros top; cbn [follb fset_val]; [intros []|].
  destruct (N.eqb i p); cbn [follb].
  - intros [(Ht & Hi & Hv & Hh)|[H|H]]; [left; rewrite Hg; auto|right; left; exact H|right; right; exact H].
  - intros [(Ht & Hi & Hv & Hh)|[H|H]]; [left; rewrite hd_slot_fset_val; auto|right; left; apply IHk; exact H|right; right; apply IHr; exact H].
Qed.

Lemma hd_nrm_in k x : hd_slot (nrm_part k) = Some x -> In x (ids k).
Proof. intros H. apply (proj2 (ids_abn_incl k)). apply hd_slot_in. exact H. Qed.

Lemma follb_not_first_list k : forall y x, NoDup (ids k) -> hd_slot (nrm_part k) = Some x -> follb false y x k -> False.
Proof.
  induction k as [|j v kk _ r IH]; intros y x Hnd; cbn [nrm_part follb]; [discriminate|].
  cbn [ids] in Hnd. apply NoDup_cons_app_inv in Hnd as (Hjk & Hjr & Hk & Hr & Hkr).
  destruct (is_normal v) eqn:Ev.
  - cbn [hd_slot]. intros E. inversion E; subst j. intros [(_ & _ & _ & Hh)|[H|H]].
    + apply Hjr. apply hd_slot_in. exact Hh.
    + apply Hjk. exact (proj2 (follb_in _ _ _ _ H)).
    + apply Hjr. exact (proj2 (follb_in _ _ _ _ H)).
  - intros E [(_ & _ & Hv & _)|[H|H]].
    + congruence.
    + eapply NoDup_app_not_in; [exact Hkr|exact (proj2 (follb_in _ _ _ _ H))|apply hd_nrm_in; exact E].
    + eapply IH; eauto.
Qed.

Lemma kids_not_head x v k r P vP kP : NoDup (ids (FCons x v k r)) -> find P (FCons x v k r) = Some (vP, kP) -> ~ In x (ids kP).
Proof.
  intros Hnd Hf Hin. cbn [ids] in Hnd. apply NoDup_cons_app_inv in Hnd as (Hxk & Hxr & _).
  rewrite find_cons in Hf. destruct (N.eqb x P).
  - inversion Hf; subst. contradiction.
  - destruct (find P k) as [y|] eqn:Ek.
    + inversion Hf; subst y. apply Hxk. eapply find_incl; [exact Ek|right; exact Hin].
    + apply Hxr. eapply find_incl; [exact Hf|right; exact Hin].
Qed.

Lemma follb_not_first X : forall top y x P vP kP, NoDup (ids X) -> follb top y x X -> find P X = Some (vP, kP) ->
  hd_slot (nrm_part kP) <> Some x.
Proof.
  induction X as [|i v k IHk r IHr]; intros top y x P vP kP Hnd; cbn [follb]; [intros []|].
  pose proof Hnd as Hnd0. cbn [ids] in Hnd. apply NoDup_cons_app_inv in Hnd as (Hik & Hir & Hk & Hr & Hkr).
  rewrite find_cons. intros Hf HP Hhd. pose proof (hd_nrm_in _ _ Hhd) as HxkP.
  destruct (N.eqb_spec i P) as [EiP|HiP].
  - subst i. inversion HP; subst v k. destruct Hf as [(_ & _ & _ & Hh)|[H|H]].
    + eapply NoDup_app_not_in; [exact Hkr|exact HxkP|apply hd_slot_in; exact Hh].
    + exact (follb_not_first_list kP y x Hk Hhd H).
    + eapply NoDup_app_not_in; [exact Hkr|exact HxkP|exact (proj2 (follb_in _ _ _ _ H))].
  - destruct (find P k) as [z|] eqn:Ek.
    + inversion HP; subst z. assert (In x (ids k)) as Hxk by (eapply find_incl; [exact Ek|right; exact HxkP]).
      destruct Hf as [(_ & _ & _ & Hh)|[H|H]].
      * eapply NoDup_app_not_in; [exact Hkr|exact Hxk|apply hd_slot_in; exact Hh].
      * exact (IHk false y x P vP kP Hk H Ek Hhd).
      * eapply NoDup_app_not_in; [exact Hkr|exact Hxk|exact (proj2 (follb_in _ _ _ _ H))].
    + assert (In x (ids r)) as Hxr by (eapply find_incl; [exact HP|right; exact HxkP]).
      destruct Hf as [(_ & _ & _ & Hh)|[H|H]].
      * destruct r as [|j w kj rj]; [discriminate|]. cbn in Hh. inversion Hh; subst j.
        exact (kids_not_head x w kj rj P vP kP Hr HP HxkP).
      * eapply NoDup_app_not_in; [exact Hkr|exact (proj2 (follb_in _ _ _ _ H))|exact Hxr].
      * exact (IHr top y x P vP kP Hr H HP Hhd).
Qed.

(* ---------- the reading is a normal form: it has no adjacent text nodes, and it is the identity exactly on such stores ---------- *)

Definition uhead_text (u : uforest) : bool := match u with UCons w _ _ => is_text_val w | UNil => false end.

Fixpoint una_list (u : uforest) : bool :=
  match u with UNil => true | UCons v _ r => negb (is_text_val v && uhead_text r) && una_list r end.

Fixpoint una (u : uforest) : bool :=
  match u with UNil => true | UCons _ k r => una_list k && una k && una r end.

Lemma una_erase f : una_list (erase f) = na_list f /\ una (erase f) = na f.
Proof.
  induction f as [|i v k [IHk1 IHk2] r [IHr1 IHr2]]; [split; reflexivity|]. cbn [erase una_list una na_list na].
  rewrite IHk2, IHr1, IHr2, IHk1. split; [|reflexivity]. destruct r; reflexivity.
Qed.

Lemma ucons_m_normal v k r : una_list r = true -> una_list (ucons_m v k r) = true.
Proof.
  intros H. destruct v as [|nm|a|t d|c|an av|p u];
    try (unfold ucons_m; cbn [una_list is_text_val andb negb]; exact H).
  unfold ucons_m. destruct r as [|w kw rw]; [reflexivity|].
  destruct w as [|nm|b|t d|c|an av|p u];
    cbn [una_list is_text_val uhead_text andb negb]; exact H.
Qed.

Lemma ucons_m_una v k r : una k = true -> una_list k = true -> una r = true -> una (ucons_m v k r) = true.
Proof.
  intros Hk Hlk Hr.
  assert (una (UCons v k r) = true) as Hplain by (cbn [una]; rewrite Hk, Hlk, Hr; reflexivity).
  destruct v as [|nm|a|t d|c|an av|p u]; try exact Hplain.
  unfold ucons_m. destruct r as [|w kw rw]; [exact Hplain|].
  destruct w as [|nm|b|t d|c|an av|p u]; try exact Hplain.
  cbn [una] in *. apply andb_true_iff in Hr as [_ Hr]. rewrite Hk, Hlk, Hr. reflexivity.
Qed.

Lemma unormb_normal u : forall top, (top = false -> una_list (unormb top u) = true) /\ una (unormb top u) = true.
Proof.
  induction u as [|v k IHk r IHr]; intros top; [split; reflexivity|]. cbn [unormb].
  destruct (IHk false) as [Hk1 Hk2]. specialize (Hk1 eq_refl). destruct top.
  - split; [discriminate|]. cbn [una]. rewrite Hk1, Hk2. exact (proj2 (IHr true)).
  - destruct (IHr false) as [Hr1 Hr2]. specialize (Hr1 eq_refl). split.
    + intros _. apply ucons_m_normal. exact Hr1.
    + apply ucons_m_una; assumption.
Qed.

(* a store is its own reading exactly when it has no adjacent text nodes *)
Theorem reading_fixpoint f : unormb true (erase f) = erase f <-> na f = true.
Proof.
  split.
  - intros H. rewrite <- (proj2 (una_erase f)), <- H. exact (proj2 (unormb_normal (erase f) true)).
  - intros H. apply unorm_na; [discriminate|exact H].
Qed.
