(* DeclProofs.v — the XML declaration in the spelling the tokenizer does not recognise (`<?xml` followed by a tab or a line end):
   src/parse.rs declaration_version (Model/Builder.v) reads EVERY well-formed content  VersionInfo EncodingDecl? SDDecl? S?  —
   any white space around each '=', either quote per value, any white space between the pseudo-attributes and at the end — and
   hands back the version value with its span. *)
From Coq Require Import List NArith Bool Lia.
From XotV Require Import Model.Base Model.Builder.
Import ListNotations.
Open Scope N_scope.

Definition all_s (w : str) : Prop := forallb is_xml_space w = true.
Definition quote_of (dq : bool) : N := if dq then 34 else 39.

(* S? '=' S? quote value quote *)
Definition eq_value (w1 w2 : str) (dq : bool) (v : str) : str := w1 ++ [61] ++ w2 ++ [quote_of dq] ++ v ++ [quote_of dq].

Lemma skip_app w r : all_s w -> skip_xml_spaces (w ++ r) = skip_xml_spaces r.
Proof.
  unfold all_s. induction w as [|c w IH]; cbn [app forallb skip_xml_spaces]; intros H; [reflexivity|].
  apply andb_true_iff in H as [H1 H2]. rewrite H1. exact (IH H2).
Qed.

Lemma skip_head c r : is_xml_space c = false -> skip_xml_spaces (c :: r) = c :: r.
Proof. intros H. cbn [skip_xml_spaces]. rewrite H. reflexivity. Qed.

Lemma strip_app p r : strip_str_prefix p (p ++ r) = Some r.
Proof. induction p as [|a p IH]; cbn [app strip_str_prefix]; [reflexivity|]. rewrite N.eqb_refl. exact IH. Qed.

Lemma take_until_app q v r : forallb (fun c => negb (c =? q)) v = true -> take_until q (v ++ q :: r) = (v, q :: r).
Proof.
  induction v as [|c v IH]; cbn [app take_until forallb]; intros H.
  - rewrite N.eqb_refl. reflexivity.
  - apply andb_true_iff in H as [H1 H2]. apply negb_true_iff in H1. rewrite H1, (IH H2). reflexivity.
Qed.

Lemma slen_app a b : slen (a ++ b) = slen a + slen b.
Proof. unfold slen. rewrite app_length, Nat2N.inj_add. reflexivity. Qed.

Lemma slen_cons c l : slen (c :: l) = 1 + slen l.
Proof. unfold slen. cbn [length]. lia. Qed.

Lemma eq_quoted_spec w1 w2 dq v rest :
  all_s w1 -> all_s w2 -> forallb (fun c => negb (c =? quote_of dq)) v = true ->
  eq_quoted (eq_value w1 w2 dq v ++ rest) = Some (v, rest, slen w1 + 1 + slen w2 + 1).
Proof.
  intros H1 H2 Hv. unfold eq_quoted, eq_value. rewrite <- !app_assoc. rewrite (skip_app w1 _ H1).
  cbn [app]. rewrite (skip_head 61) by reflexivity.
  rewrite (skip_app w2 _ H2). assert (is_xml_space (quote_of dq) = false) as Hq by (destruct dq; reflexivity).
  cbn [app]. rewrite (skip_head _ _ Hq).
  assert ((quote_of dq =? 34) || (quote_of dq =? 39) = true) as -> by (destruct dq; reflexivity).
  rewrite (take_until_app _ _ _ Hv). f_equal. f_equal.
  repeat (rewrite slen_app || rewrite slen_cons). lia.
Qed.

Lemma after_value_s w r : all_s w -> w <> [] -> after_value (w ++ r) = true.
Proof. unfold all_s. destruct w as [|c w]; [congruence|]. cbn. intros H _. apply andb_true_iff in H. tauto. Qed.

(* an optional pseudo-attribute that is there: S name Eq value, followed by white space or the end *)
Lemma opt_pseudo_attr_present name valid w1 w2 dq v rest :
  all_s w1 -> all_s w2 -> forallb (fun c => negb (c =? quote_of dq)) v = true -> valid v = true -> after_value rest = true ->
  opt_pseudo_attr name valid (name ++ eq_value w1 w2 dq v ++ rest) = Some (skip_xml_spaces rest).
Proof.
  intros H1 H2 Hv Hval Ha. unfold opt_pseudo_attr. rewrite strip_app, (eq_quoted_spec _ _ _ _ _ H1 H2 Hv), Hval, Ha. reflexivity.
Qed.

(* ... that is not there: what follows starts otherwise *)
Lemma opt_pseudo_attr_absent name valid r : strip_str_prefix name r = None -> opt_pseudo_attr name valid r = Some r.
Proof. intros H. unfold opt_pseudo_attr. rewrite H. reflexivity. Qed.

Record decl_spelling := {
  d_w1 : str; d_w2 : str; d_dq : bool; d_version : str;                                  (* version Eq "1.x" *)
  d_enc : option (str * str * str * bool * str);                                          (* S encoding Eq "name" *)
  d_sd : option (str * str * str * bool * str);                                           (* S standalone Eq "yes|no" *)
  d_tail : str                                                                            (* S? *)
}.

Definition opt_part (name : str) (o : option (str * str * str * bool * str)) : str :=
  match o with
  | Some (sep, w1, w2, dq, v) => sep ++ name ++ eq_value w1 w2 dq v
  | None => []
  end.

Definition opt_ok (valid : str -> bool) (o : option (str * str * str * bool * str)) : Prop :=
  match o with
  | Some (sep, w1, w2, dq, v) =>
      all_s sep /\ sep <> [] /\ all_s w1 /\ all_s w2 /\ forallb (fun c => negb (c =? quote_of dq)) v = true /\ valid v = true
  | None => True
  end.

Definition decl_text (d : decl_spelling) : str :=
  s_version ++ eq_value (d_w1 d) (d_w2 d) (d_dq d) (d_version d) ++ opt_part s_encoding (d_enc d) ++ opt_part s_standalone (d_sd d) ++ d_tail d.

Definition decl_ok (d : decl_spelling) : Prop :=
  all_s (d_w1 d) /\ all_s (d_w2 d) /\ forallb (fun c => negb (c =? quote_of (d_dq d))) (d_version d) = true
  /\ valid_version (d_version d) = true /\ opt_ok valid_encname (d_enc d) /\ opt_ok valid_sd (d_sd d) /\ all_s (d_tail d).

Lemma skip_all w : all_s w -> skip_xml_spaces w = [].
Proof. intros H. rewrite <- (app_nil_r w), (skip_app w [] H). reflexivity. Qed.

Lemma all_s_no_prefix name w r : all_s w -> (forall c p', name = c :: p' -> is_xml_space c = false) -> name <> [] ->
  w <> [] -> strip_str_prefix name (w ++ r) = None.
Proof.
  intros Hw Hn Hne Hw0. destruct name as [|c p']; [congruence|]. destruct w as [|x w]; [congruence|].
  cbn [app strip_str_prefix]. unfold all_s in Hw. cbn [forallb] in Hw. apply andb_true_iff in Hw as [Hx _].
  destruct (N.eqb_spec c x) as [->|]; [|reflexivity]. rewrite (Hn x p' eq_refl) in Hx. discriminate.
Qed.

Theorem declaration_version_spec d start stop : decl_ok d ->
  declaration_version {| ss_text := decl_text d; ss_span := {| sp_start := start; sp_end := stop |} |}
  = Some {| ss_text := d_version d;
            ss_span := {| sp_start := start + 7 + (slen (d_w1 d) + 1 + slen (d_w2 d) + 1);
                          sp_end := start + 7 + (slen (d_w1 d) + 1 + slen (d_w2 d) + 1) + slen (d_version d) |} |}.
Proof.
  intros (H1 & H2 & Hv & Hvv & He & Hs & Ht). unfold declaration_version, decl_text. cbn [ss_text ss_span sp_start].
  rewrite strip_app, (eq_quoted_spec _ _ _ _ _ H1 H2 Hv), Hvv. cbn [andb].
  (* what follows the version value: white space or the end *)
  assert (forall o valid, opt_ok valid o -> forall rest, after_value rest = true -> after_value (opt_part s_encoding o ++ rest) = true
                                                                               /\ after_value (opt_part s_standalone o ++ rest) = true) as Haft.
  { intros [[[[[sep w1] w2] dq] v]|] valid Ho rest Hr; cbn [opt_part app]; [|auto].
    destruct Ho as (A & B & _). rewrite <- !app_assoc. split; apply after_value_s; assumption. }
  assert (after_value (d_tail d) = true) as Hat by (destruct (d_tail d) as [|c t]; [reflexivity|unfold all_s in Ht; cbn in *; apply andb_true_iff in Ht; tauto]).
  assert (after_value (opt_part s_standalone (d_sd d) ++ d_tail d) = true) as Ha2 by (apply (Haft _ _ Hs); exact Hat).
  assert (after_value (opt_part s_encoding (d_enc d) ++ opt_part s_standalone (d_sd d) ++ d_tail d) = true) as Ha1 by (apply (Haft _ _ He); exact Ha2).
  rewrite Ha1.
  (* the standalone declaration and the tail *)
  assert (opt_pseudo_attr s_standalone valid_sd (skip_xml_spaces (opt_part s_standalone (d_sd d) ++ d_tail d)) = Some []) as Hsd.
  { destruct (d_sd d) as [[[[[sep w1] w2] dq] v]|]; cbn [opt_part app].
    - destruct Hs as (A & B & C & D & E & F). rewrite <- !app_assoc, (skip_app sep _ A).
      assert (skip_xml_spaces (s_standalone ++ eq_value w1 w2 dq v ++ d_tail d) = s_standalone ++ eq_value w1 w2 dq v ++ d_tail d) as -> by reflexivity.
      rewrite (opt_pseudo_attr_present _ _ _ _ _ _ _ C D E F Hat), (skip_all _ Ht). reflexivity.
    - rewrite (skip_all _ Ht). reflexivity. }
  destruct (d_enc d) as [[[[[sep w1] w2] dq] v]|]; cbn [opt_part app].
  - destruct He as (A & B & C & D & E & F). rewrite <- !app_assoc, (skip_app sep _ A).
    assert (skip_xml_spaces (s_encoding ++ eq_value w1 w2 dq v ++ opt_part s_standalone (d_sd d) ++ d_tail d)
            = s_encoding ++ eq_value w1 w2 dq v ++ opt_part s_standalone (d_sd d) ++ d_tail d) as -> by reflexivity.
    rewrite (opt_pseudo_attr_present _ _ _ _ _ _ _ C D E F Ha2), Hsd. reflexivity.
  - (* no encoding declaration: what follows is the standalone declaration, or white space, and does not start with "encoding" *)
    assert (opt_pseudo_attr s_encoding valid_encname (skip_xml_spaces (opt_part s_standalone (d_sd d) ++ d_tail d))
            = Some (skip_xml_spaces (opt_part s_standalone (d_sd d) ++ d_tail d))) as ->.
    { apply opt_pseudo_attr_absent. destruct (d_sd d) as [[[[[sep w1] w2] dq] v]|]; cbn [opt_part app].
      - destruct Hs as (A & _). rewrite <- !app_assoc, (skip_app sep _ A). reflexivity.
      - rewrite (skip_all _ Ht). reflexivity. }
    rewrite Hsd. reflexivity.
Qed.
