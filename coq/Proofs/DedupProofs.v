(* DedupProofs.v — deduplicate_namespaces removes a declaration only if its namespace is declared above (C15).
   The analysis pass of src/nameaccess.rs (Model/NsTools.v dedup_edges) is followed along the whole traversal: the table the
   FullnameSerializer keeps holds nothing but declarations of the elements that are open, so a namespace it "knows" when an
   element ends is one that a proper ancestor inside the subtree declares. *)
From Coq Require Import List NArith Bool Lia.
From XotV Require Import Model.Base Model.Zipper Model.Access Model.Store Model.Manip Model.Interning Model.InternOps
                         Model.Fullname Model.Scope Model.NsTools Model.Builder Spec.Shape Proofs.FullnameProofs Proofs.StoreProofs Proofs.KeysProofs Proofs.InvOps Proofs.NodeMapProofs.
Import ListNotations.
Open Scope N_scope.

(* the declarations / attribute names of a node, read off its child list *)
Definition kdecls (k : forest) : decls := opt_map ns_of_val (take_while (v_is CNamespace) (level_vals k)).

Lemma opt_map_map {A B C} (g : A -> B) (f : B -> option C) l : opt_map f (map g l) = opt_map (fun x => f (g x)) l.
Proof. induction l as [|a l IH]; cbn; [reflexivity|]. rewrite IH. reflexivity. Qed.

Lemma declarations_kdecls z : declarations z = kdecls (z_kids z).
Proof.
  unfold declarations, kdecls, namespace_nodes, arena_children.
  rewrite <- (zs_level_vals (z_kids z) (frame_of z :: z_ups z) FNil).
  rewrite <- (map_take_while z_val (is_cat CNamespace) (v_is CNamespace)) by (intros x; reflexivity).
  rewrite opt_map_map. reflexivity.
Qed.

(* the declarations of the proper ancestors of [e] inside [f] that are elements, nearest first *)
Fixpoint anc_decls (e : N) (f : forest) : option (list decls) :=
  match f with
  | FNil => None
  | FCons i v k r =>
      if N.eqb i e then Some []
      else match anc_decls e k with
           | Some l => Some (if is_elem v then l ++ [kdecls k] else l)
           | None => anc_decls e r
           end
  end.

Section D.
  Variable nm : nsnames.

  (* the serialiser's table is the flattened table of the frames pushed so far (nearest first) *)
  Definition table_from (s : fstack) (op : list decls) : Prop := fs_top s = flat op [].

  Lemma info_new_nil cur : info_new [] cur = cur.
  Proof.
    unfold info_new. rewrite app_nil_r. induction cur as [|x cur IH]; [reflexivity|]. cbn [filter has_prefix existsb negb]. f_equal. exact IH.
  Qed.

  Lemma table_push s op d : table_from s op -> table_from (fs_push s d) (d :: op).
  Proof.
    unfold table_from. intros H. cbn [flat]. rewrite <- H. destruct d as [|d0 d']; [cbn [fs_push]; rewrite info_new_nil; reflexivity|].
    reflexivity.
  Qed.

  Lemma pop_push s d : fs_pop (fs_push s d) (match d with [] => false | _ => true end) = s.
  Proof. destruct d; reflexivity. Qed.

  (* edges of attribute and namespace nodes are skipped anyway *)
  Lemma dedup_edges_app_skip es : forall s tr acc es',
    (forall e, In e es -> match z_val (edge_node e) with VElement _ => False | _ => True end) ->
    dedup_edges nm (es ++ es') s tr acc = dedup_edges nm es' s tr acc.
  Proof.
    induction es as [|e es IH]; intros s tr acc es' H; [reflexivity|]. cbn [app dedup_edges].
    pose proof (H e (or_introl eq_refl)) as He. destruct e as [z|z]; cbn [edge_node] in He;
      destruct (z_val z); try contradiction; apply IH; intros e' Hin; apply H; right; exact Hin.
  Qed.

  (* the removals the pass decides on in the sibling list [f], every one with the frames open at that point;
     [op] = declarations of the open elements, nearest first *)
  Definition removal_ok (op : list decls) (f : forest) (x : N * list nsid) : Prop :=
    exists l, anc_decls (fst x) f = Some l /\ forall ns, In ns (snd x) -> exists q, In (q, ns) (flat (l ++ op) []).

  Lemma removal_ok_weaken_r op i v k r x : (forall j, In j (ids (FCons i v k FNil)) -> j <> fst x) ->
    removal_ok op r x -> removal_ok op (FCons i v k r) x.
  Proof.
    intros Hne (l & Hl & H). exists l. split; [|exact H]. cbn [anc_decls].
    destruct (N.eqb_spec i (fst x)) as [E|_]; [exfalso; apply (Hne i); [left; reflexivity|exact E]|].
    assert (anc_decls (fst x) k = None) as ->; [|exact Hl].
    clear - Hne. assert (forall j, In j (ids k) -> j <> fst x) as Hk by (intros j Hj; apply Hne; cbn [ids]; right; apply in_or_app; left; exact Hj).
    clear Hne. induction k as [|j w kk IHk rr IHr]; [reflexivity|]. cbn [anc_decls].
    destruct (N.eqb_spec j (fst x)) as [E|_]; [exfalso; apply (Hk j); [left; reflexivity|exact E]|].
    rewrite IHk by (intros q Hq; apply Hk; cbn [ids]; right; apply in_or_app; left; exact Hq).
    apply IHr. intros q Hq. apply Hk. cbn [ids]. right. apply in_or_app. right. exact Hq.
  Qed.

  Definition level_claim (k : forest) : Prop := forall ups b es s tr acc op,
    NoDup (ids k) -> table_from s op ->
    exists tr' R, dedup_edges nm (edges_forest ups b k ++ es) s tr acc = dedup_edges nm es s tr' (acc ++ R)
      /\ forall x, In x R -> removal_ok op k x /\ In (fst x) (ids k).

  Lemma removal_ok_into_elem op i nmv k r x : ~ In i (ids k) -> In (fst x) (ids k) ->
    removal_ok (kdecls k :: op) k x -> removal_ok op (FCons i (VElement nmv) k r) x.
  Proof.
    intros Hi Hin (l & Hl & H). exists (l ++ [kdecls k]). split.
    - cbn [anc_decls is_elem]. destruct (N.eqb_spec i (fst x)) as [E|_]; [exfalso; apply Hi; rewrite E; exact Hin|rewrite Hl; reflexivity].
    - intros ns Hns. rewrite <- app_assoc. exact (H ns Hns).
  Qed.

  Lemma removal_ok_into_other op i v k r x : is_elem v = false -> ~ In i (ids k) -> In (fst x) (ids k) ->
    removal_ok op k x -> removal_ok op (FCons i v k r) x.
  Proof.
    intros Hv Hi Hin (l & Hl & H). exists l. split; [|exact H].
    cbn [anc_decls]. destruct (N.eqb_spec i (fst x)) as [E|_]; [exfalso; apply Hi; rewrite E; exact Hin|rewrite Hl, Hv; reflexivity].
  Qed.

  (* one node: its start edge, the edges of its children, its end edge *)
  Lemma dedup_node zi es s tr acc op : level_claim (z_kids zi) ->
    NoDup (z_slot zi :: ids (z_kids zi)) -> table_from s op ->
    exists tr' R,
      dedup_edges nm (EStart zi :: edges_forest (frame_of zi :: z_ups zi) FNil (z_kids zi) ++ EEnd zi :: es) s tr acc
      = dedup_edges nm es s tr' (acc ++ R)
      /\ forall x, In x R -> removal_ok op (FCons (z_slot zi) (z_val zi) (z_kids zi) FNil) x
                              /\ In (fst x) (z_slot zi :: ids (z_kids zi)).
  Proof.
    intros IHk Hnd Ht. apply NoDup_cons_iff in Hnd as [Hi Hndk]. cbn [dedup_edges].
    destruct (z_val zi) eqn:Ev.
    all: try (destruct (IHk (frame_of zi :: z_ups zi) FNil (EEnd zi :: es) s tr acc op Hndk Ht) as (tr1 & R1 & Hrun & HR);
              rewrite Hrun; cbn [dedup_edges]; rewrite Ev; exists tr1, R1; split; [reflexivity|];
              intros x Hx; destruct (HR x Hx) as [Hok Hin]; split; [apply removal_ok_into_other; auto|right; exact Hin]; fail).
    (* an element *)
    rewrite declarations_kdecls.
    destruct (IHk (frame_of zi :: z_ups zi) FNil (EEnd zi :: es) (fs_push s (kdecls (z_kids zi))) (tracker_push nm tr zi) acc
                  (kdecls (z_kids zi) :: op) Hndk (table_push _ _ _ Ht)) as (tr1 & R1 & Hrun & HR).
    rewrite Hrun. cbn [dedup_edges]. rewrite Ev, declarations_kdecls, pop_push.
    set (to_remove := opt_map _ (kdecls (z_kids zi))).
    assert (forall ns, In ns to_remove -> exists q, In (q, ns) (flat op [])) as Hrem.
    { intros ns Hns. unfold to_remove in Hns. clear - Hns Ht.
      induction (kdecls (z_kids zi)) as [|d l IH]; [destruct Hns|]. cbn [opt_map] in Hns.
      destruct (is_namespace_known s (snd d) && tracker_safe (tl tr1) (snd d)) eqn:E; [|exact (IH Hns)].
      destruct Hns as [<-|Hns]; [|exact (IH Hns)]. apply andb_true_iff in E as [E _].
      unfold is_namespace_known in E. apply existsb_exists in E as ([q m] & Hb & He). cbn [snd] in He. apply N.eqb_eq in He. subst m.
      exists q. rewrite <- Ht. exact Hb. }
    exists (tl tr1). destruct to_remove as [|t0 tl0] eqn:Er.
    - exists R1. split; [reflexivity|]. intros x Hx. destruct (HR x Hx) as [Hok Hin]. split; [apply removal_ok_into_elem; auto|right; exact Hin].
    - exists (R1 ++ [(z_slot zi, t0 :: tl0)]). split; [rewrite app_assoc; reflexivity|].
      intros x Hx. apply in_app_or in Hx as [Hx|[<-|[]]].
      + destruct (HR x Hx) as [Hok Hin]. split; [apply removal_ok_into_elem; auto|right; exact Hin].
      + split; [|left; reflexivity]. exists []. split; [cbn [anc_decls fst]; rewrite N.eqb_refl; reflexivity|].
        cbn [snd app]. exact Hrem.
  Qed.

  Theorem dedup_level f : level_claim f.
  Proof.
    induction f as [|i v k IHk r IHr]; intros ups b es s tr acc op Hnd Ht.
    - exists tr, []. cbn [edges_forest app]. rewrite app_nil_r. split; [reflexivity|intros x []].
    - cbn [ids] in Hnd. apply NoDup_cons_iff in Hnd as [Hi Hnd']. pose proof (NoDup_app_inv _ _ Hnd') as [Hk Hr].
      cbn [edges_forest]. rewrite <- app_comm_cons, <- app_assoc, <- app_comm_cons.
      set (zi := mkz i v k b r ups).
      destruct (dedup_node zi (edges_forest ups (FCons i v k b) r ++ es) s tr acc op IHk) as (tr1 & R1 & Hrun & HR).
      { cbn [zi mkz z_slot z_kids]. constructor; [intros H; apply Hi; apply in_or_app; left; exact H|exact Hk]. }
      { exact Ht. }
      change (frame_of zi :: z_ups zi) with ({| fr_slot := i; fr_val := v; fr_before := b; fr_after := r |} :: ups) in Hrun.
      cbn [zi mkz z_kids] in Hrun. rewrite Hrun.
      destruct (IHr ups (FCons i v k b) es s tr1 (acc ++ R1) op Hr Ht) as (tr2 & R2 & Hrun2 & HR2).
      rewrite Hrun2. exists tr2, (R1 ++ R2). split; [rewrite app_assoc; reflexivity|].
      intros x Hx. apply in_app_or in Hx as [Hx|Hx].
      + destruct (HR x Hx) as [(l & Hl & H) Hin]. cbn [zi mkz z_slot z_val z_kids] in *. split.
        * exists l. split; [|exact H]. cbn [anc_decls] in *. destruct (N.eqb i (fst x)); [exact Hl|].
          destruct (anc_decls (fst x) k); [exact Hl|discriminate].
        * cbn [ids]. destruct Hin as [Hin|Hin]; [left; exact Hin|right; apply in_or_app; left; exact Hin].
      + destruct (HR2 x Hx) as [Hok Hin]. split; [|cbn [ids]; right; apply in_or_app; right; exact Hin].
        apply removal_ok_weaken_r; [|exact Hok]. intros j Hj ->. cbn [ids] in Hj. rewrite app_nil_r in Hj.
        destruct Hj as [->|Hj]; [apply Hi; apply in_or_app; right; exact Hin|].
        eapply NoDup_app_not_in; [exact Hnd'|exact Hj|exact Hin].
  Qed.

  Lemma dedup_filter es : forall s tr acc, dedup_edges nm (filter edge_normal es) s tr acc = dedup_edges nm es s tr acc.
  Proof.
    induction es as [|e es IH]; intros s tr acc; [reflexivity|]. cbn [filter].
    destruct (edge_normal e) eqn:En.
    - destruct e as [z|z]; cbn [dedup_edges]; destruct (z_val z); apply IH.
    - rewrite IH. unfold edge_normal, znormal in En. destruct e as [z|z]; cbn [edge_node dedup_edges] in *;
        destruct (z_val z); try discriminate; reflexivity.
  Qed.

  (* the whole analysis pass, from the node the call is made on *)
  Theorem dedup_removes_only_declared_above z e nss ns :
    NoDup (z_slot z :: ids (z_kids z)) ->
    In (e, nss) (dedup_edges nm (traverse z) (fs_new []) [] []) -> In ns nss ->
    exists l q, anc_decls e (FCons (z_slot z) (z_val z) (z_kids z) FNil) = Some l /\ In (q, ns) (flat l []).
  Proof.
    intros Hnd Hin Hns. unfold traverse in Hin. rewrite dedup_filter in Hin. unfold arena_traverse in Hin.
    destruct (dedup_node z [] (fs_new []) [] [] [] (dedup_level (z_kids z)) Hnd) as (tr' & R & Hrun & HR).
    { reflexivity. }
    change ([EEnd z]) with (EEnd z :: []) in Hin. rewrite Hrun in Hin. cbn [dedup_edges app] in Hin.
    destruct (HR _ Hin) as [(l & Hl & H) _]. cbn [fst snd] in *. destruct (H ns Hns) as [q Hq]. rewrite app_nil_r in Hq.
    exists l, q. auto.
  Qed.

  Lemma flat_nodup l : Forall (fun d => NoDup (map fst d)) l -> NoDup (map fst (flat l [])).
  Proof.
    induction l as [|d l IH]; intros H; cbn [flat]; [constructor|]. inversion H; subst. apply info_new_nodup; [assumption|apply IH; assumption].
  Qed.

  (* every deleted declaration: it exists on its element, and its namespace is bound — by nearest-declaration-wins scoping over
     the declarations of the element's proper ancestors inside the subtree, i.e. in force at the element's parent — to a prefix *)
  Theorem dedup_only_redundant z e p :
    NoDup (z_slot z :: ids (z_kids z)) ->
    In (e, p) (dedup_prefixes z (dedup_edges nm (traverse z) (fs_new []) [] [])) ->
    exists ez ns l q, In ez (descendants z) /\ z_slot ez = e /\ In (p, ns) (declarations ez)
      /\ anc_decls e (FCons (z_slot z) (z_val z) (z_kids z) FNil) = Some l
      /\ (Forall (fun d => NoDup (map fst d)) l -> lookup_stack q l = Some ns).
  Proof.
    intros Hnd H. unfold dedup_prefixes in H. apply in_flat_map in H as [[e' nss] [Hfix H]].
    destruct (List.find (fun d => N.eqb (z_slot d) e') (descendants z)) as [ez|] eqn:Ef; [|destruct H].
    apply find_some in Ef as [Hin He]. apply N.eqb_eq in He.
    apply in_flat_map in H as [ns [Hns H]]. apply in_map_iff in H as [[q0 m] [Heq H]]. inversion Heq; subst.
    apply filter_In in H as [H Hm]. cbn in Hm. apply N.eqb_eq in Hm. subst.
    destruct (dedup_removes_only_declared_above z _ nss ns Hnd Hfix Hns) as (l & q & Hl & Hq).
    exists ez, ns, l, q. split; [exact Hin|]. split; [reflexivity|]. split; [exact H|]. split; [exact Hl|].
    intros Hnodup. pose proof (flat_is_nearest_wins q l [] Hnodup) as F.
    apply (assoc_p_in q ns _ (flat_nodup l Hnodup)) in Hq. rewrite Hq in F. cbn [assoc_p] in F.
    destruct (lookup_stack q l); [congruence|discriminate].
  Qed.
End D.
