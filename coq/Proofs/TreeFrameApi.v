(* TreeFrameApi.v — the frame theorem of Proofs/TreeFrame.v for the calls built on the node-level API:
   remove_insignificant_whitespace, create_missing_prefixes, deduplicate_namespaces, clone_with_prefixes. *)
From Coq Require Import List NArith ZArith Bool Lia Permutation Arith.
From XotV Require Import Model.Base Model.Zipper Model.Access Model.Store Model.Manip Model.Unpretty Model.Interning
                         Model.Fullname Model.Scope Model.NsTools Model.Hist Spec.DocOrder Spec.Paths Spec.Shape
                         Proofs.ZipperProofs Proofs.AccessProofs Proofs.StoreProofs Proofs.ForestFacts Proofs.InvProofs Proofs.Canon
                         Proofs.ShapeProofs Proofs.InvSteps Proofs.InvOps Proofs.InvHist Proofs.InvApi Proofs.Levels Proofs.CloneFrame Proofs.TreeFrame.
Import ListNotations.
Open Scope N_scope.

Lemma forest_slot_in f : forall ups b c, In c (zs_forest ups b f) -> In (z_slot c) (ids f).
Proof.
  induction f as [|i v k IHk r IHr]; intros ups b c; cbn [zs_forest]; [intros []|]. intros [<-|H].
  - left. reflexivity.
  - right. apply in_app_or in H as [H|H]; apply in_or_app; [left; eapply IHk; exact H|right; eapply IHr; exact H].
Qed.

Lemma descendant_out T st y z d : Seg T st -> NoDup (ids (store st)) -> ~ In y (ids T) -> cur st y = Some z ->
  In d (arena_descendants z) -> ~ In (z_slot d) (ids T).
Proof.
  intros HS Hnd Hy Hz Hd. apply (out_of_seg st T y z _ HS Hnd Hz Hy). destruct Hd as [<-|Hd]; [apply slot_in_plug|].
  apply kids_in_plug. eapply forest_slot_in. exact Hd.
Qed.

(* ---------- remove_insignificant_whitespace ---------- *)

Lemma Seg_rmws T space st n st' : Good st -> Seg T st -> ~ In n (ids T) -> rmws space st n = Some st' -> Seg T st'.
Proof.
  intros G HS Hn. pose proof (Good_nodup _ G) as Hnd. unfold rmws. destruct (cur st n) as [z|]; [|discriminate].
  assert (forall k', Seg T (free_slots (with_store st (fset_kids n k' (store st))) (stripped space (nearest_space space (ancestors z)) (level_sig (z_kids z)) (z_kids z))) \/ True) as _ by auto.
  assert (forall k' l, Seg T (free_slots (with_store st (fset_kids n k' (store st))) l)) as Hgen.
  { intros k' l. destruct (Seg_fact T st (a_kids (fun _ => k')) n HS Hnd (sl_kids _) Hn) as (A & B & E).
    exists A, B. cbn [store free_slots with_store] in *. rewrite fset_kids_fmap, fmap_kids_fact. exact E. }
  destruct (z_val z); try (intros H; inversion H; subst; apply Hgen).
  destruct (insignificant _ _ _); intros H; inversion H; subst; [apply Seg_m_remove; assumption|exact HS].
Qed.

(* ---------- create_missing_prefixes, deduplicate_namespaces ---------- *)

Lemma Seg_fold_map_insert T k e (f : N * N -> value) l : forall st ve,
  Good st -> Seg T st -> ~ In e (ids T) -> In (e, ve) (nodes (store st)) -> is_elem ve = true -> (forall d, value_category (f d) = cat_of k) ->
  Seg T (fold_left (fun s d => map_insert s k e (f d)) l st).
Proof.
  induction l as [|d l IH]; intros st ve G HS He Hin Hel Hf; cbn [fold_left]; [exact HS|].
  pose proof (Ext_map_insert st k e (f d) G (is_type_from_node _ _ _ G Hin Hel) (Hf d)) as X1.
  assert (is_normal ve = true) as Hn by (destruct ve; try discriminate; reflexivity).
  apply (IH _ ve (ext_good _ _ X1)); auto; [apply Seg_map_insert; assumption|exact (map_insert_keeps st k e (f d) G _ _ Hin Hn)].
Qed.

Section Api.
  Variable nm : nsnames.

  Lemma Seg_cmp_element T t st e t' st' : Good st -> Seg T st -> ~ In e (ids T) -> cmp_element nm t st e = NOk t' st' -> Seg T st'.
  Proof.
    intros G HS He. unfold cmp_element. destruct (cur st e) as [z|] eqn:Hc; [|discriminate].
    destruct (z_val z) eqn:Hv; try discriminate.
    destruct (assign_prefixes t 0 (used_prefixes nm z) (missing_namespaces nm z)) as [[l t1]|]; [|discriminate].
    intros H. inversion H; subst.
    apply (Seg_fold_map_insert T KNs e (fun d => VNamespace (fst d) (snd d)) l st (VElement n)); auto.
    rewrite <- Hv. apply cur_node. exact Hc.
  Qed.

  Lemma Seg_cmp_elements T l : forall t st t' st', Good st -> Seg T st -> (forall e, In e l -> ~ In e (ids T)) ->
    cmp_elements nm t st l = NOk t' st' -> Seg T st'.
  Proof.
    induction l as [|e l IH]; intros t st t' st' G HS Hl; cbn [cmp_elements].
    - intros H. inversion H; subst. exact HS.
    - destruct (cmp_element nm t st e) as [t1 st1| |] eqn:E; try discriminate.
      destruct (Ext_cmp_element _ _ _ _ _ _ G E) as [X1 _].
      intros H. apply (IH t1 st1 t' st' (ext_good _ _ X1) (Seg_cmp_element T t st e t1 st1 G HS (Hl e (or_introl eq_refl)) E)); [intros x Hx; apply Hl; right; exact Hx|exact H].
  Qed.

  Lemma Seg_create_missing_prefixes T t st n t' st' : Good st -> Seg T st -> ~ In n (ids T) ->
    create_missing_prefixes nm t st n = NOk t' st' -> Seg T st'.
  Proof.
    intros G HS Hn. unfold create_missing_prefixes. destruct (cur st n) as [z|] eqn:Hz; [|discriminate].
    destruct (z_val z); try (intros H; eapply Seg_cmp_element; eauto; fail).
    apply Seg_cmp_elements; auto. intros e He. unfold slots_of in He. apply in_map_iff in He as (c & <- & Hc).
    apply filter_In in Hc as [Hc _]. apply (schild_out T st HS (Good_nodup _ G) n z c Hn Hz).
    unfold children, normal_children in Hc. eapply skip_while_in. exact Hc.
  Qed.

  Lemma Seg_fold_map_remove T l : forall st, Good st -> Seg T st -> (forall ep', In ep' l -> ~ In (fst ep') (ids T)) ->
    Seg T (fold_left (fun s (ep' : N * N) => map_remove s KNs (fst ep') (snd ep')) l st).
  Proof.
    induction l as [|a l IH]; intros st G HS Hl; cbn [fold_left]; [exact HS|].
    apply IH; [exact (ext_good _ _ (Ext_map_remove st KNs (fst a) (snd a) G))|apply Seg_map_remove; auto; apply Hl; left; reflexivity|intros x Hx; apply Hl; right; exact Hx].
  Qed.

  Lemma Seg_deduplicate_namespaces T st n st' : Good st -> Seg T st -> ~ In n (ids T) -> deduplicate_namespaces nm st n = Some st' -> Seg T st'.
  Proof.
    intros G HS Hn. unfold deduplicate_namespaces. destruct (cur st n) as [z|] eqn:Hz; [|discriminate]. intros H. inversion H; subst.
    apply Seg_fold_map_remove; auto. intros [e p] Hin. cbn [fst]. unfold dedup_prefixes in Hin.
    apply in_flat_map in Hin as ([e0 nss] & _ & Hin).
    destruct (List.find (fun d => N.eqb (z_slot d) e0) (descendants z)) as [ez|] eqn:Ef; [|destruct Hin].
    apply find_some in Ef as [Hd Heq]. apply N.eqb_eq in Heq.
    apply in_flat_map in Hin as (ns & _ & Hin). apply in_map_iff in Hin as (d & Hd2 & _). inversion Hd2; subst e.
    rewrite <- Heq. unfold descendants in Hd. apply filter_In in Hd as [Hd _].
    exact (descendant_out T st n z ez HS (Good_nodup _ G) Hn Hz Hd).
  Qed.

  (* ---------- clone_with_prefixes ---------- *)

  Lemma clone_result_out T st n st1 c : Good st -> Seg T st -> m_clone st n = (st1, MDone (Some c)) -> ~ In c (ids T).
  Proof.
    intros G HS. unfold m_clone. destruct (cur st n) as [z|]; [|discriminate].
    destruct (z_val z) as [|n0|ts|pt pd|cs|an av|np nn];
      try (match goal with |- context [new_node st ?v] => destruct (new_node st v) as [s1 c1] eqn:Hn end; intros H; inversion H; subst;
           exact (Seg_fresh T _ _ _ _ G HS Hn)).
    - destruct (new_node st VDocument) as [s1 top] eqn:Hn. pose proof (Seg_fresh T _ _ _ _ G HS Hn) as Htop.
      destruct (clone_edges (all_traverse z) s1 top); intros H; inversion H; subst. exact Htop.
    - destruct (new_node st (VElement n0)) as [s1 top] eqn:Hn. destruct (Ext_new_node _ _ _ _ G Hn) as (X & _ & Hst & _).
      pose proof (Seg_fresh T _ _ _ _ G HS Hn) as Htop. pose proof (Seg_new_node _ _ _ _ _ HS Hn) as HS1.
      destruct (clone_edges (all_traverse z) s1 top) as [st2|] eqn:Ec; [|discriminate].
      pose proof (Seg_clone_edges _ _ _ _ _ (ext_good _ _ X) HS1 Htop Ec) as HS2.
      assert (is_top s1 top (VElement n0)) as T1 by (unfold is_top; rewrite Hst; cbn; auto).
      destruct (clone_edges_spec _ _ _ _ top (VElement n0) (ext_good _ _ X) T1 eq_refl Ec) as (X2 & _).
      destruct (q_first_child st2 top) as [c1|] eqn:Ef; [|discriminate]. intros H. inversion H; subst.
      exact (sq_first_child_out T st2 HS2 (Good_nodup _ (ext_good _ _ X2)) top c Htop Ef).
  Qed.

  Lemma Seg_fold_opt_insert T c to_add l : forall st ve,
    Good st -> Seg T st -> ~ In c (ids T) -> In (c, ve) (nodes (store st)) -> is_elem ve = true ->
    Seg T (fold_left (fun s p => match assoc_p p to_add with
                                 | Some ns => map_insert s KNs c (VNamespace p ns)
                                 | None => s
                                 end) l st).
  Proof.
    induction l as [|p l IH]; intros st ve G HS Hc Hin He; cbn [fold_left]; [exact HS|].
    destruct (assoc_p p to_add) as [ns|]; [|eapply IH; eauto].
    pose proof (Ext_map_insert st KNs c (VNamespace p ns) G (is_type_from_node _ _ _ G Hin He) eq_refl) as X1.
    assert (is_normal ve = true) as Hn by (destruct ve; try discriminate; reflexivity).
    apply (IH _ ve (ext_good _ _ X1)); auto; [apply Seg_map_insert; assumption|exact (map_insert_keeps st KNs c (VNamespace p ns) G _ _ Hin Hn)].
  Qed.

  Lemma Seg_clone_with_prefixes T st n order : Good st -> Seg T st -> Seg T (fst (clone_with_prefixes nm st n order)).
  Proof.
    intros G HS. unfold clone_with_prefixes. destruct (cur st n) as [z|]; [|exact HS].
    pose proof (Ext_m_clone st n G) as X1. pose proof (Seg_m_clone T st n G HS) as H1.
    destruct (m_clone st n) as [st1 out] eqn:Ecl. cbn [fst] in *.
    destruct out as [[c|]| |]; cbn [fst]; try exact H1.
    pose proof (clone_result_out T st n st1 c G HS Ecl) as Hc.
    destruct (is_type st1 c TElement) eqn:He; cbn [fst]; [|exact H1].
    match goal with |- context [same_set ?a ?b] => destruct (same_set a b) end; cbn [fst]; [|exact H1].
    apply is_type_val in He as (ve & Hve & Hte).
    match goal with |- context [fold_left (fun s p => match assoc_p p ?ta with _ => _ end) order st1] =>
      apply (Seg_fold_opt_insert T c ta order st1 ve (ext_good _ _ X1) H1 Hc (val_nodes _ _ _ Hve)) end.
    destruct ve; try discriminate; reflexivity.
  Qed.
End Api.

(* ---------- every call the harness draws ---------- *)

Definition top_args (o : top) : list N :=
  match o with
  | TH (HM o') => op_args o'
  | TH (HRemoveWs n _) | TCmp n | TDedup n | TCloneP n _ => [n]
  end.

Theorem tree_frame_api nm T t st o : Good st -> Seg T st -> (forall x, In x (top_args o) -> ~ In x (ids T)) ->
  Seg T (snd (fst (tstep nm (t, st) o))).
Proof.
  intros G HS Ha. destruct o as [[o'|n space]|n|n|n order]; cbn [tstep hstep top_args] in *.
  - pose proof (tree_frame T st o' G HS Ha) as X. destruct (mstep st o') as [st' out]. exact X.
  - destruct (rmws space st n) as [st'|] eqn:E; cbn; [|exact HS]. eapply Seg_rmws; eauto. apply Ha. left. reflexivity.
  - destruct (create_missing_prefixes nm t st n) as [t' st'| |] eqn:E; cbn; try exact HS.
    eapply Seg_create_missing_prefixes; eauto. apply Ha. left. reflexivity.
  - destruct (deduplicate_namespaces nm st n) as [st'|] eqn:E; cbn; [|exact HS]. eapply Seg_deduplicate_namespaces; eauto. apply Ha. left. reflexivity.
  - pose proof (Seg_clone_with_prefixes nm T st n order G HS) as X. destruct (clone_with_prefixes nm st n order) as [st' out]. exact X.
Qed.

Theorem tree_frame_api_history nm T ops : forall t st, Good st -> Seg T st ->
  (forall o x, In o ops -> In x (top_args o) -> ~ In x (ids T)) ->
  Seg T (snd (tfinal nm (t, st) ops)).
Proof.
  induction ops as [|o ops IH]; intros t st G HS Ha; cbn [tfinal fold_left]; [exact HS|].
  pose proof (Ext_tstep nm t st o G) as X.
  pose proof (tree_frame_api nm T t st o G HS (fun x Hx => Ha o x (or_introl eq_refl) Hx)) as H1.
  destruct (fst (tstep nm (t, st) o)) as [t1 st1] eqn:E. cbn [snd] in *.
  apply IH; [apply X|exact H1|]. intros o' x Ho Hx. eapply Ha; [right; exact Ho|exact Hx].
Qed.
