(* ReplaceSeam.v — C04, the last configuration of replace: the replaced node stands between two text nodes and the replacing node
   is a third node.  The call passes through a store in which the two text nodes touch (the replaced node is detached without
   consolidation first); the insertion of the replacing node is followed there with the pair of the two text nodes tolerated
   ([nab], Proofs/Seams.v), and at the end the pair is gone: split by the inserted node, or merged by the last consolidation. *)
From Coq Require Import List NArith ZArith Bool Lia Permutation Arith.
From XotV Require Import Model.Base Model.Zipper Model.Access Model.Store Model.Manip Spec.DocOrder Spec.Paths Spec.Shape Spec.NoAdj
                         Proofs.ZipperProofs Proofs.AccessProofs Proofs.StoreProofs Proofs.ForestFacts Proofs.InvProofs Proofs.Canon
                         Proofs.ShapeProofs Proofs.KeysProofs Proofs.InvSteps Proofs.InvOps Proofs.PathFacts Proofs.Levels Proofs.NoAdjFacts
                         Proofs.NoAdjOps Proofs.Atomic Proofs.NoPanic Proofs.CloneShape Proofs.WrapEffect Proofs.UnwrapEffect Proofs.ReplaceEffect
                         Proofs.PlainFacts Proofs.PlainOps Proofs.Seams.
Import ListNotations.
Open Scope N_scope.

(* the consolidation where the node leaves, with the one local fact it needs instead of the whole clause *)
Lemma rc_around_loc st b zb st1 m0 : Good st -> cons st = true -> (z_ups zb <> [] -> is_text_val (z_val zb) && head_text (z_before zb) = false) ->
  cur st b = Some zb -> is_normal (z_val zb) = true ->
  remove_consolidate st (q_prev st b) (q_next st b) = (st1, m0) ->
  (m0 = false /\ st1 = st)
  \/ (m0 = true /\ exists pb nb tp tn, q_prev st b = Some pb /\ q_next st b = Some nb
        /\ val st pb = Some (VText tp) /\ val st nb = Some (VText tn)
        /\ pb <> b /\ nb <> b /\ pb <> nb /\ is_text_val (z_val zb) = false
        /\ ~ In pb (ids (z_kids zb)) /\ ~ In nb (ids (z_kids zb))
        /\ store st1 = fdel nb (fset_val pb (append_text_to tn) (store st)) /\ cons st1 = true /\ Good st1
        /\ follb true pb nb (fdel b (store st)) /\ follb true b nb (store st) /\ z_ups zb <> []).
Proof.
  intros G Hcons Hloc Hc Hnv E1. pose proof (Good_WF _ G) as W.
  destruct (rc_exact _ _ _ _ _ E1) as [H|(pb & nb & tp & tn & Ha & Hb & _ & Hvp & Hvn & -> & ->)]; [left; exact H|]. right. split; [reflexivity|].
  exists pb, nb, tp, tn. split; [exact Ha|]. split; [exact Hb|]. split; [exact Hvp|]. split; [exact Hvn|].
  destruct (q_prev_view _ _ _ _ Hc Ha) as (vp & kp & bf' & Eb & Hcp). destruct (q_next_view _ _ _ _ Hc Hb) as (vn & kn & af' & Ea & Hcn).
  pose proof (level_disjoint st b zb W Hc) as Hld. rewrite Eb, Ea in Hld. cbn [ids] in Hld.
  assert (z_ups zb <> []) as Hne by (eapply has_sibling_inner; [exact Hc|left; congruence]).
  assert (pb <> b) as Hpb.
  { intros ->. apply NoDup_remove_2 in Hld. apply Hld. cbn. left. reflexivity. }
  assert (forall x, In x (b :: ids (z_kids zb) ++ nb :: ids kn ++ ids af') -> ~ In x (pb :: ids kp ++ ids bf')) as Hsep.
  { intros x Hx Hy. eapply NoDup_app_not_in; [exact Hld|exact Hy|exact Hx]. }
  assert (nb <> b) as Hnb.
  { intros ->. apply NoDup_app_inv in Hld as [_ Hld]. inversion Hld as [|? ? Hnotin _]; subst. apply Hnotin. apply in_or_app. right. left. reflexivity. }
  assert (pb <> nb) as Hpn.
  { intros ->. apply (Hsep nb); [right; apply in_or_app; right; left; reflexivity|left; reflexivity]. }
  assert (~ In pb (ids (z_kids zb))) as Hpk.
  { intros Hx. apply (Hsep pb); [right; apply in_or_app; left; exact Hx|left; reflexivity]. }
  assert (~ In nb (ids (z_kids zb))) as Hnk.
  { intros Hx. apply NoDup_app_inv in Hld as [_ Hld]. inversion Hld as [|? ? _ Hld']; subst.
    eapply NoDup_app_not_in; [exact Hld'|exact Hx|left; reflexivity]. }
  (* the values of the two neighbours, as the cursor shows them *)
  assert (cur st pb = Some (mkz pb vp kp bf' (FCons b (z_val zb) (z_kids zb) (z_after zb)) (z_ups zb))) as Hcp0.
  { assert (Zipper.left zb = Some (mkz pb vp kp bf' (FCons b (z_val zb) (z_kids zb) (z_after zb)) (z_ups zb))) as Hl
      by (unfold Zipper.left; rewrite Eb; rewrite (cur_slot _ _ _ Hc); reflexivity).
    exact (cur_move st b zb _ (proj1 W) Hc (or_intror (or_introl Hl))). }
  assert (vp = VText tp) as -> by (rewrite (val_of_cur _ _ _ Hcp0) in Hvp; inversion Hvp; reflexivity).
  destruct (zview _ _ _ Hc) as [Htc (A & B & E)].
  pose proof (Hloc Hne) as Hjb. rewrite Eb in Hjb. cbn [head_text is_text_val] in Hjb. rewrite andb_true_r in Hjb.
  split; [exact Hpb|]. split; [exact Hnb|]. split; [exact Hpn|]. split; [exact Hjb|]. split; [exact Hpk|]. split; [exact Hnk|].
  split; [apply (merged_store st pb _ nb tn G Hpn Hvn)|]. split; [exact Hcons|].
  split.
  { pose proof (Ext_remove_consolidate st (q_prev st b) (q_next st b) G) as X. rewrite E1 in X. exact (ext_good _ _ X). }
  split; [|split; [|exact Hne]].
  - (* in the cut store the two neighbours touch *)
    destruct (cut_setup st b zb G Hc) as [Hcut _]. pose proof (fcut_view st b zb A B W Hc E) as Hcut'. rewrite Hcut in Hcut'.
    inversion Hcut' as [Hf]. rewrite Hf. unfold cut_store. destruct (z_ups zb) as [|fr ups] eqn:Eu; [congruence|]. rewrite Eb, Ea.
    set (zp := mkz pb (VText tp) kp bf' (FCons nb vn kn af') (fr :: ups)).
    change (fapp A (fapp (plug_ups (frev_app (FCons pb (VText tp) kp bf') (FCons nb vn kn af')) (fr :: ups)) B))
      with (fapp A (fapp (plug zp) B)).
    apply (follb_view_next zp A B nb); [discriminate|reflexivity|reflexivity].
  - rewrite E. rewrite <- (cur_slot _ _ _ Hc). apply (follb_view_next zb A B nb Hne Hnv). rewrite Ea. reflexivity.
Qed.

(* ---------- insert_after a text node, in a store that is only known to be good ---------- *)

Definition btext (st : xstate) (b : N) : bool := match val st b with Some (VText _) => true | _ => false end.

Lemma insert_after_text_ref st ref b tr :
  Good st -> cons st = true -> sibling_check st ref b = true -> val st ref = Some (VText tr) -> q_prev st b <> Some ref ->
  (forall zb, cur st b = Some zb -> z_ups zb <> [] -> is_text_val (z_val zb) && head_text (z_before zb) = false) ->
  let R := fst (m_insert_after st ref b) in
  let Pl := finsert_after ref (tree_of st b) (fdel b (store st)) in
  (exists zb, cur st b = Some zb /\ is_normal (z_val zb) = true /\ tree_of st b = FCons b (z_val zb) (z_kids zb) FNil
     /\ ~ In ref (ids (z_kids zb)) /\ In ref (ids (fdel b (store st)))) /\
  ((btext st b = false /\ store R = Pl
     /\ (forall pb nb tp tn, q_prev st b = Some pb -> q_next st b = Some nb -> val st pb = Some (VText tp) -> val st nb = Some (VText tn) -> False))
  \/ (exists tb, val st b = Some (VText tb) /\ store R = fdel b (fset_val ref (append_text_to tb) (store st)))
  \/ (exists pb tp, btext st b = false /\ q_prev st b = Some pb /\ q_next st b = Some ref /\ val st pb = Some (VText tp) /\ pb <> ref
        /\ store R = fdel ref (fset_val pb (append_text_to tr) (store st)))
  \/ (exists pb nb tp tn, btext st b = false /\ q_prev st b = Some pb /\ q_next st b = Some nb
        /\ val st pb = Some (VText tp) /\ val st nb = Some (VText tn) /\ nb <> ref /\ pb <> ref /\ pb <> nb /\ pb <> b /\ nb <> b
        /\ store R = fdel nb (fset_val pb (append_text_to tn) Pl) /\ follb true pb nb (fdel b (store st))
        /\ ~ In pb (ids (tree_of st b)) /\ ~ In nb (ids (tree_of st b)))).
Proof.
  intros G Ec Hsc Hvr Hq Hloc R Pl. pose proof (Good_WF _ G) as W. pose proof (Good_nodup _ G) as Hnd.
  destruct (sibling_check_facts _ _ _ Hsc) as (Hne & _ & (P & HP & Hst)).
  destruct (structure_check_facts _ _ _ Hst) as (Hanc & (vp0 & Hvp0 & Hcont) & (vb & Hvb & Hcok)).
  destruct (cur st b) as [zb|] eqn:Hcb; [|unfold val in Hvb; rewrite Hcb in Hvb; discriminate].
  assert (z_val zb = vb) as Hzv by (unfold val in Hvb; rewrite Hcb in Hvb; inversion Hvb; reflexivity).
  assert (is_normal (z_val zb) = true) as Hnb by (rewrite Hzv; unfold child_ok in Hcok; apply andb_true_iff in Hcok; tauto).
  destruct (cur st ref) as [zr|] eqn:Hcr; [|unfold val in Hvr; rewrite Hcr in Hvr; discriminate].
  destruct (cut_setup st b zb G Hcb) as [Hcut Ht].
  set (ins := fun (t f : forest) => finsert_after ref t f).
  pose proof (move_store st b zb ins G Hcb) as Epl.
  assert (btext st b = is_text_val (z_val zb)) as Hbt by (unfold btext; rewrite Hvb, Hzv; destruct vb; reflexivity).
  assert (~ In ref (ids (tree_of st b))) as HrT.
  { rewrite Ht. cbn [ids]. rewrite app_nil_r. intros [Hx|Hx]; [congruence|].
    apply (sibling_not_below st ref b P Hnd HP ltac:(eapply val_cur; exact Hvp0) Hanc Hne).
    unfold subtree_ids. rewrite (find_of_cur _ _ _ Hcb). right. exact Hx. }
  split.
  { exists zb. split; [reflexivity|]. split; [exact Hnb|]. split; [exact Ht|]. split.
    - intros Hx. apply HrT. rewrite Ht. cbn [ids]. rewrite app_nil_r. right. exact Hx.
    - eapply fcut_keeps; [exact Hcut|eapply cur_in; exact Hcr|].
      eapply sibling_not_below; [exact Hnd|exact HP|eapply val_cur; exact Hvp0|exact Hanc|exact Hne]. }
  subst R. unfold m_insert_after. rewrite Hsc. cbn [negb].
  assert (opt_eqb (q_prev st b) (Some ref) = false) as ->.
  { destruct (q_prev st b) as [x|]; [|reflexivity]. cbn. apply N.eqb_neq. intros ->. apply Hq. reflexivity. }
  destruct (remove_consolidate st (q_prev st b) (q_next st b)) as [st1 m0] eqn:E1.
  destruct (rc_around_loc st b zb st1 m0 G Ec (Hloc zb eq_refl) Hcb Hnb E1)
    as [[-> ->]|(-> & pb & nb & tp & tn & Hqp & Hqn & Hvp & Hvn & Hpb & Hnbb & Hpn & Hbtx & Hpk & Hnk & Es1 & Cs1 & G1 & Hf1 & Hf2 & Hub)].
  - cbn [andb]. destruct (is_text_val (z_val zb)) eqn:Et.
    + destruct (text_value _ Et) as [tb Etb]. rewrite Hzv in Etb.
      assert (val st b = Some (VText tb)) as Hvbt by (rewrite Hvb, Etb; reflexivity).
      right. left. exists tb. split; [exact Hvbt|].
      unfold add_consolidate. rewrite Ec, Hvbt, Hvr. cbn [negb fst].
      apply (merged_store st ref _ b tb G Hne Hvbt).
    + assert (add_consolidate st b (Some ref) (q_next st ref) = (st, false)) as ->.
      { unfold add_consolidate. rewrite Ec, Hvb. cbn [negb]. rewrite <- Hzv. destruct (z_val zb); try reflexivity. discriminate Et. }
      cbn [fst]. left. split; [rewrite Hbt; reflexivity|]. split.
      * change (move st b (fun t f => finsert_after ref t f)) with (move st b ins). rewrite Epl. reflexivity.
      * intros pb nb tp tn Hqp Hqn Hvp Hvn. unfold remove_consolidate in E1. rewrite Ec, Hqp, Hqn, Hvp, Hvn in E1. cbn [negb] in E1. inversion E1.
  - assert (~ In pb (ids (tree_of st b))) as HpT by (rewrite Ht; cbn [ids]; rewrite app_nil_r; intros [Hx|Hx]; [congruence|contradiction]).
    assert (~ In nb (ids (tree_of st b))) as HnT by (rewrite Ht; cbn [ids]; rewrite app_nil_r; intros [Hx|Hx]; [congruence|contradiction]).
    assert (ref <> pb) as Hrp by (intros ->; apply Hq; exact Hqp).
    assert (btext st b = false) as Hbf by (rewrite Hbt; exact Hbtx).
    rewrite Hqn. cbn [andb opt_eqb].
    destruct (N.eqb_spec nb ref) as [Enr|Hnr2].
    + subst nb. cbn [fst]. right. right. left. exists pb, tp. rewrite Hvr in Hvn. inversion Hvn; subst tn.
      split; [exact Hbf|]. split; [exact Hqp|]. split; [reflexivity|]. split; [exact Hvp|]. split; [congruence|exact Es1].
    + assert (add_consolidate st1 b (Some ref) (q_next st1 ref) = (st1, false)) as ->.
      { unfold add_consolidate. rewrite Cs1. cbn [negb]. destruct (val st1 b) as [v1|] eqn:Ev1; [|reflexivity].
        destruct (val_find _ _ _ Ev1) as [k1 Hk1]. rewrite Es1 in Hk1.
        rewrite (find_after_merge b (z_val zb) (z_kids zb) pb nb _ tn (store st) Hnd ltac:(congruence) ltac:(congruence) Hpn
                   (find_of_cur _ _ _ Hcb) Hpk Hnk (text_find _ _ _ G Hvn)) in Hk1.
        inversion Hk1; subst v1. destruct (z_val zb); try reflexivity. discriminate Hbtx. }
      cbn [fst]. change (move st1 b (fun t f : forest => finsert_after ref t f)) with (move st1 b ins).
      right. right. right. exists pb, nb, tp, tn.
      split; [exact Hbf|]. split; [exact Hqp|]. split; [reflexivity|]. split; [exact Hvp|]. split; [exact Hvn|].
      split; [exact Hnr2|]. split; [congruence|]. split; [exact Hpn|]. split; [exact Hpb|]. split; [exact Hnbb|]. split; [|split; [exact Hf1|split; [exact HpT|exact HnT]]].
      apply (move_after_rc st st1 b zb pb nb tn _ ins G G1 Hcb Hpb Hnbb Hpn Hpk Hnk Hvn Es1).
      * intros X. unfold ins. rewrite (fdel_finsert_after nb ref) by exact Hnr2. rewrite (fdel_absent nb _ HnT). reflexivity.
      * intros X. unfold ins. apply fset_val_finsert_after. exact HpT.
Qed.

(* ---------- deleting a node that does not stand between two text nodes ---------- *)

Lemma nab_list_fdel_quiet S c : forall l, NoDup (ids l) -> (forall v, In (c, v) (nodes l) -> is_normal v = true) ->
  (forall x y, follb false x c l -> follb false c y l -> text_at x l -> text_at y l -> False) ->
  nab_list S l = true -> nab_list S (fdel c l) = true.
Proof.
  induction l as [|i v k _ r IH]; intros Hnd Hc Hq H; [reflexivity|].
  cbn [ids] in Hnd. apply NoDup_cons_app_inv in Hnd as (Hik & Hir & Hk & Hr & Hkr).
  cbn [nab_list] in H. apply andb_true_iff in H as [Hh H].
  assert (forall w, In (c, w) (nodes r) -> is_normal w = true) as Hcr by (intros w Hw; apply Hc; right; apply in_or_app; right; exact Hw).
  assert (forall x y, follb false x c r -> follb false c y r -> text_at x r -> text_at y r -> False) as Hqr.
  { intros x y F1 F2 (t1 & T1) (t2 & T2). apply (Hq x y); [right; right; exact F1|right; right; exact F2| |];
    [exists t1|exists t2]; right; apply in_or_app; right; assumption. }
  cbn [fdel]. destruct (N.eqb_spec i c) as [Eic|Hic].
  - subst i. rewrite (fdel_absent c r Hir). exact H.
  - cbn [nab_list]. rewrite (IH Hr Hcr Hqr H), andb_true_r.
    destruct r as [|j w kj r2]; [cbn [fdel head_text]; rewrite andb_false_r; reflexivity|].
    destruct (N.eqb_spec j c) as [Ejc|Hjc].
    + subst j. cbn [fdel]. rewrite N.eqb_refl.
      cbn [ids] in Hr. apply NoDup_cons_app_inv in Hr as (_ & Hcr2 & _). rewrite (fdel_absent c r2 Hcr2).
      destruct r2 as [|j2 w2 k2 r3]; [cbn [head_text]; rewrite andb_false_r; reflexivity|].
      cbn [head_text hd_slot]. destruct (is_text_val v) eqn:Ev; [|reflexivity]. destruct (is_text_val w2) eqn:Ew2; [|reflexivity]. exfalso.
      destruct (text_value _ Ev) as [t1 ->]. destruct (text_value _ Ew2) as [t2 ->].
      apply (Hq i j2).
      * cbn [follb]. left. auto.
      * cbn [follb]. right. right. left. split; [reflexivity|]. split; [reflexivity|]. split; [|reflexivity].
        apply Hc. right. apply in_or_app. right. left. reflexivity.
      * exists t1. left. reflexivity.
      * exists t2. right. apply in_or_app. right. right. apply in_or_app. right. left. reflexivity.
    + cbn [fdel]. apply N.eqb_neq in Hjc. rewrite Hjc. exact Hh.
Qed.

Lemma nab_fdel_quiet S c : forall f top, NoDup (ids f) -> (forall v, In (c, v) (nodes f) -> is_normal v = true) ->
  (forall x y, follb top x c f -> follb top c y f -> text_at x f -> text_at y f -> False) ->
  nab S f = true -> nab S (fdel c f) = true.
Proof.
  induction f as [|i v k IHk r IHr]; intros top Hnd Hc Hq H; [reflexivity|].
  cbn [ids] in Hnd. apply NoDup_cons_app_inv in Hnd as (Hik & Hir & Hk & Hr & Hkr).
  cbn [nab] in H. apply andb_true_iff in H as [H H3]. apply andb_true_iff in H as [H1 H2].
  assert (forall w, In (c, w) (nodes k) -> is_normal w = true) as Hck by (intros w Hw; apply Hc; right; apply in_or_app; left; exact Hw).
  assert (forall w, In (c, w) (nodes r) -> is_normal w = true) as Hcr by (intros w Hw; apply Hc; right; apply in_or_app; right; exact Hw).
  assert (forall x y, follb false x c k -> follb false c y k -> text_at x k -> text_at y k -> False) as Hqk.
  { intros x y F1 F2 (t1 & T1) (t2 & T2). apply (Hq x y); [right; left; exact F1|right; left; exact F2| |];
    [exists t1|exists t2]; right; apply in_or_app; left; assumption. }
  assert (forall x y, follb top x c r -> follb top c y r -> text_at x r -> text_at y r -> False) as Hqr.
  { intros x y F1 F2 (t1 & T1) (t2 & T2). apply (Hq x y); [right; right; exact F1|right; right; exact F2| |];
    [exists t1|exists t2]; right; apply in_or_app; right; assumption. }
  cbn [fdel]. destruct (N.eqb i c); [exact (IHr top Hr Hcr Hqr H3)|]. cbn [nab].
  rewrite (nab_list_fdel_quiet S c k Hk Hck Hqk H1), (IHk false Hk Hck Hqk H2), (IHr top Hr Hcr Hqr H3). reflexivity.
Qed.

(* deleting the first root *)
Lemma nab_fdel_head S a v k r : ~ In a (ids r) -> nab S (FCons a v k r) = true -> nab S (fdel a (FCons a v k r)) = true /\ fdel a (FCons a v k r) = r.
Proof.
  intros Hr H. cbn [fdel]. rewrite N.eqb_refl, (fdel_absent a r Hr). split; [|reflexivity].
  cbn [nab] in H. apply andb_true_iff in H. tauto.
Qed.

(* the neighbours of a deleted node come to touch *)
Lemma follb_bridge p c n f : forall top, NoDup (ids f) -> follb top p c f -> follb top c n f -> follb top p n (fdel c f).
Proof.
  induction f as [|i v k IHk r IHr]; intros top Hnd Fp Fn; [destruct Fp|].
  cbn [ids] in Hnd. apply NoDup_cons_app_inv in Hnd as (Hik & Hir & Hk & Hr & Hkr).
  cbn [follb] in Fp. cbn [fdel].
  destruct Fp as [(Et & Ei & Hv & Eh)|[Fp|Fp]].
  - subst i. destruct r as [|j w kj r2]; [discriminate|]. cbn [hd_slot] in Eh. inversion Eh; subst j.
    assert (p <> c) as Hpc by (intros ->; apply Hir; left; reflexivity). apply N.eqb_neq in Hpc. rewrite Hpc.
    cbn [fdel]. rewrite N.eqb_refl.
    cbn [ids] in Hr. apply NoDup_cons_app_inv in Hr as (Hck & Hcr2 & _). rewrite (fdel_absent c r2 Hcr2).
    cbn [follb] in Fn. destruct Fn as [(_ & Ec & _)|[Fn|Fn]].
    + exfalso. apply N.eqb_neq in Hpc. congruence.
    + exfalso. eapply NoDup_app_not_in; [exact Hkr|exact (proj1 (follb_in _ _ _ _ Fn))|left; reflexivity].
    + cbn [follb] in Fn. destruct Fn as [(_ & _ & _ & En)|[Fn|Fn]].
      * cbn [follb]. left. auto.
      * exfalso. apply Hck. exact (proj1 (follb_in _ _ _ _ Fn)).
      * exfalso. apply Hcr2. exact (proj1 (follb_in _ _ _ _ Fn)).
  - destruct (follb_in _ _ _ _ Fp) as [Hpk Hck].
    assert (i <> c) as Hic by (intros ->; contradiction). apply N.eqb_neq in Hic. rewrite Hic.
    cbn [follb] in Fn. destruct Fn as [(_ & Ec & _)|[Fn|Fn]].
    + exfalso. apply N.eqb_neq in Hic. congruence.
    + cbn [follb]. right. left. eapply IHk; eauto.
    + exfalso. eapply NoDup_app_not_in; [exact Hkr|exact Hck|exact (proj1 (follb_in _ _ _ _ Fn))].
  - destruct (follb_in _ _ _ _ Fp) as [Hpr Hcr].
    cbn [follb] in Fn. destruct Fn as [(_ & Ec & _)|[Fn|Fn]].
    + exfalso. subst i. contradiction.
    + exfalso. eapply NoDup_app_not_in; [exact Hkr|exact (proj1 (follb_in _ _ _ _ Fn))|exact Hcr].
    + destruct (N.eqb_spec i c) as [Eic|Hic]; [subst i; contradiction|]. cbn [follb]. right. right. eapply IHr; eauto.
Qed.

(* ---------- the store once the replaced node has been detached ---------- *)

Lemma replace_sibling_check st a b parent p : Good st -> q_parent st a = Some parent -> is_normal_node st a = true -> a <> b ->
  structure_check st (Some parent) b = true -> q_prev st a = Some p -> p <> b -> sibling_check (detach_raw st a) p b = true.
Proof.
  intros G Hpar Hnorm Hab Hsc Hprev Hpb. pose proof (Good_nodup _ G) as Hnd.
  apply is_normal_node_val in Hnorm as (va & Hva & Hna).
  assert (In a (ids (store st))) as Hain by (eapply val_in_ids; exact Hva).
  rewrite q_parent_of_path in Hpar. destruct (path_in a (store st)) as [[|P l]|] eqn:Hpa; try discriminate.
  inversion Hpar; subst P.
  pose proof (path_in_parent _ _ _ _ Hnd Hpa) as Hpp.
  destruct (structure_check_facts _ _ _ Hsc) as (Hanc & (vp & Hvp & Hcont) & (vb & Hvb & Hbok)).
  assert (~ In parent (subtree_ids a (store st))) as Hparsub by (eapply parent_not_below; eauto).
  set (st1 := detach_raw st a).
  pose proof (Ext_detach_raw st a G) as X1. fold st1 in X1.
  assert (forall x, val st1 x = val st x) as Hv1 by (intros x; apply val_detach; exact G).
  destruct (path_detach st a parent G Hain) as [_ Hpath1]. fold st1 in Hpath1.
  assert (structure_check st1 (Some parent) b = true) as Hsc1.
  { assert (cur st parent <> None) as Hc by (eapply val_cur; exact Hvp).
    destruct (cur st parent) as [zp|] eqn:Ezp; [|congruence]. destruct (q_ancestors_path _ _ _ Ezp) as (l' & Hl' & Ha).
    assert (l' = l) by congruence. subst l'. rewrite Ha in Hanc.
    eapply (structure_check_container st1 parent b vp l vb); auto; try (rewrite Hv1; assumption).
    - apply X1.
    - rewrite (Hpath1 Hparsub). exact Hpp.
    - intros ->. assert (mem parent (parent :: l) = true) as E by (apply mem_true; left; reflexivity). congruence.
    - intros H. assert (mem b (parent :: l) = true) as E by (apply mem_true; right; exact H). congruence. }
  destruct (q_prev_cur _ _ _ Hnd Hprev) as (z & s & Hz & Hs & Hleft & Hups).
  assert (p <> a) as Hpa'.
  { intros ->. rewrite Hz in Hs. inversion Hs; subst s. unfold left in Hleft.
    destruct (z_before z) as [|bi bv bk br] eqn:Eb; [discriminate|]. inversion Hleft as [Hrec].
    apply (f_equal z_before) in Hrec. cbn in Hrec. rewrite Eb in Hrec. eapply fcons_not_tail. symmetry. exact Hrec. }
  pose proof (q_prev_same_path _ _ _ Hnd Hprev) as Hpathp. rewrite Hpa in Hpathp.
  assert (~ In p (subtree_ids a (store st))) as Hpsub by (eapply sibling_not_below_path; eauto).
  assert (exists vpp, val st p = Some vpp /\ is_normal vpp = true) as (vpp & Hvpp & Hnpp).
  { unfold q_prev in Hprev. rewrite Hz in Hprev. unfold previous_sibling in Hprev. rewrite Hleft in Hprev.
    destruct (vcat_eqb (zcat z) (zcat s)) eqn:Ecat; [|discriminate].
    exists (z_val s). split; [unfold val; rewrite Hs; reflexivity|].
    unfold val in Hva. rewrite Hz in Hva. inversion Hva as [Hzv]. unfold zcat in Ecat. rewrite Hzv in Ecat.
    unfold is_normal in *. destruct (value_category va); try discriminate. destruct (value_category (z_val s)); try discriminate. reflexivity. }
  unfold sibling_check.
  apply N.eqb_neq in Hpb. rewrite Hpb. cbn [negb andb].
  rewrite (is_normal_of_val st1 p vpp) by (rewrite Hv1; exact Hvpp). rewrite Hnpp. cbn [andb].
  destruct (path_detach st a p G Hain) as [_ Hpath1p]. fold st1 in Hpath1p.
  rewrite q_parent_of_path, (Hpath1p Hpsub), Hpathp. exact Hsc1.
Qed.

Lemma text_only st x t : Good st -> val st x = Some (VText t) -> forall v, In (x, v) (nodes (store st)) -> is_text_val v = true.
Proof. intros G Hv v Hin. apply (nodes_val st x v (Good_nodup _ G)) in Hin. rewrite Hv in Hin. inversion Hin. reflexivity. Qed.

(* in a store whose only touching text nodes are tolerated pairs, a node that ends no tolerated pair does not follow a text node
   as a text node *)
Lemma local_from_nab st S b : Good st -> nab S (store st) = true -> (forall x, pair_in x (Some b) S = false) ->
  forall zb, cur st b = Some zb -> z_ups zb <> [] -> is_text_val (z_val zb) && head_text (z_before zb) = false.
Proof.
  intros G Hnab HS zb Hc Hne. pose proof (Good_nodup _ G) as Hnd. pose proof (Good_WF _ G) as W.
  destruct (is_text_val (z_val zb) && head_text (z_before zb)) eqn:J; [|reflexivity]. exfalso.
  apply andb_true_iff in J as [J1 J2]. destruct (z_before zb) as [|x vx kx r] eqn:Eb; [discriminate|]. cbn [head_text] in J2.
  destruct (zview _ _ _ Hc) as [_ (A & B & E)]. pose proof (cur_slot _ _ _ Hc) as Hzs.
  assert (follb true x b (store st)) as F.
  { rewrite E, <- Hzs. apply follb_view_prev; [exact Hne|rewrite Eb; reflexivity|rewrite Eb; apply text_is_normal; exact J2]. }
  destruct (text_value _ J1) as [tb Etb]. destruct (text_value _ J2) as [tx Etx]. subst vx.
  assert (val st b = Some (VText tb)) as Hvb by (rewrite (val_of_cur _ _ _ Hc), Etb; reflexivity).
  assert (val st x = Some (VText tx)) as Hvx.
  { assert (Zipper.left zb = Some (mkz x (VText tx) kx r (FCons b (z_val zb) (z_kids zb) (z_after zb)) (z_ups zb))) as Hl
      by (unfold Zipper.left; rewrite Eb, Hzs; reflexivity).
    assert (cur st x = Some (mkz x (VText tx) kx r (FCons b (z_val zb) (z_kids zb) (z_after zb)) (z_ups zb))) as Hcx
      by exact (cur_move st b zb _ (proj1 W) Hc (or_intror (or_introl Hl))).
    rewrite (val_of_cur _ _ _ Hcx). reflexivity. }
  pose proof (nab_follb S x b (store st) true Hnd ltac:(discriminate) Hnab F (text_only st x tx G Hvx) (text_only st b tb G Hvb)) as HP.
  rewrite HS in HP. discriminate.
Qed.

(* ---------- small facts about forests whose first root is the detached node ---------- *)

Lemma nodup_app_intro' (a b : list N) : NoDup a -> NoDup b -> (forall x, In x a -> In x b -> False) -> NoDup (a ++ b).
Proof.
  intros Ha Hb Hd. induction a as [|x a IH]; [exact Hb|]. cbn. inversion Ha; subst. constructor.
  - intros Hx. apply in_app_or in Hx as [Hx|Hx]; [contradiction|]. apply (Hd x); [left; reflexivity|exact Hx].
  - apply IH; [assumption|]. intros y Hy. apply Hd. right. exact Hy.
Qed.

Lemma nodup_fdel b f : NoDup (ids f) -> NoDup (ids (fdel b f)).
Proof.
  induction f as [|i v k IHk r IHr]; intros Hnd; [exact Hnd|].
  cbn [ids] in Hnd. apply NoDup_cons_app_inv in Hnd as (Hik & Hir & Hk & Hr & Hkr).
  cbn [fdel]. destruct (N.eqb i b); [exact (IHr Hr)|]. cbn [ids]. constructor.
  - intros Hx. apply in_app_or in Hx as [Hx|Hx]; [apply Hik|apply Hir]; eapply ids_fdel_incl; exact Hx.
  - apply nodup_app_intro'; [exact (IHk Hk)|exact (IHr Hr)|].
    intros x Hx Hy. eapply NoDup_app_not_in; [exact Hkr| |]; eapply ids_fdel_incl; eassumption.
Qed.

Lemma nodes_finsert_after_inv x ref T f : In x (nodes (finsert_after ref T f)) -> In x (nodes T) \/ In x (nodes f).
Proof.
  induction f as [|i v k IHk r IHr]; cbn [finsert_after nodes]; [intros []|].
  destruct (N.eqb i ref); cbn [nodes].
  - intros [H|H]; [right; left; exact H|]. apply in_app_or in H as [H|H]; [right; right; apply in_or_app; left; exact H|].
    rewrite nodes_fapp in H. apply in_app_or in H as [H|H]; [left; exact H|right; right; apply in_or_app; right; exact H].
  - intros [H|H]; [right; left; exact H|]. apply in_app_or in H as [H|H].
    + destruct (IHk H) as [H'|H']; [left; exact H'|right; right; apply in_or_app; left; exact H'].
    + destruct (IHr H) as [H'|H']; [left; exact H'|right; right; apply in_or_app; right; exact H'].
Qed.

Lemma nodes_fset_val_at p v g f : In (p, v) (nodes (fset_val p g f)) -> exists v0, In (p, v0) (nodes f) /\ (v = v0 \/ v = g v0).
Proof.
  induction f as [|i w k IHk r IHr]; cbn [fset_val nodes]; [intros []|].
  destruct (N.eqb_spec i p) as [Eip|Hip]; cbn [nodes].
  - subst i. intros [H|H].
    + inversion H. exists w. split; [left; reflexivity|right; reflexivity].
    + exists v. split; [right; exact H|left; reflexivity].
  - intros [H|H]; [inversion H; congruence|]. apply in_app_or in H as [H|H].
    + destruct (IHk H) as (v0 & H0 & E). exists v0. split; [right; apply in_or_app; left; exact H0|exact E].
    + destruct (IHr H) as (v0 & H0 & E). exists v0. split; [right; apply in_or_app; right; exact H0|exact E].
Qed.

Lemma nodes_in_ids x v f : In (x, v) (nodes f) -> In x (ids f).
Proof. intros H. rewrite ids_nodes. apply (in_map fst) in H. exact H. Qed.

Lemma nab_find S b v k : forall f, find b f = Some (v, k) -> nab S f = true -> nab_list S k = true /\ nab S k = true.
Proof.
  induction f as [|i w kf IHk r IHr]; cbn [find]; [discriminate|]. intros H Hn.
  cbn [nab] in Hn. apply andb_true_iff in Hn as [Hn H3]. apply andb_true_iff in Hn as [H1 H2].
  destruct (N.eqb i b); [inversion H; subst; auto|].
  destruct (find b kf) as [t|] eqn:Ek; [apply IHk; [exact H|exact H2]|apply IHr; [exact H|exact H3]].
Qed.

Lemma follb_tail x y a v k r : NoDup (ids (FCons a v k r)) -> (In x (ids r) \/ In y (ids r)) -> follb true x y (FCons a v k r) -> follb true x y r.
Proof.
  intros Hnd Hin F. cbn [ids] in Hnd. apply NoDup_cons_app_inv in Hnd as (_ & _ & _ & _ & Hkr).
  cbn [follb] in F. destruct F as [(Et & _)|[F|F]]; [discriminate| |exact F]. exfalso.
  destruct (follb_in _ _ _ _ F) as [Hx Hy]. destruct Hin as [H|H]; [exact (NoDup_app_not_in _ _ _ Hkr Hx H)|exact (NoDup_app_not_in _ _ _ Hkr Hy H)].
Qed.

Lemma follb_ins_after_inv p b vb kb y : p <> b -> ~ In p (ids kb) -> forall l top, NoDup (ids l) ->
  follb top p y (finsert_after p (FCons b vb kb FNil) l) -> y = b.
Proof.
  intros Hpb Hpk. induction l as [|i v k IHk r IHr]; intros top Hnd; cbn [finsert_after]; [intros []|].
  cbn [ids] in Hnd. apply NoDup_cons_app_inv in Hnd as (Hik & Hir & Hk & Hr & Hkr).
  destruct (N.eqb_spec i p) as [Eip|Hip]; cbn [follb fapp].
  - subst i. intros [(_ & _ & _ & Hh)|[F|F]].
    + cbn [hd_slot] in Hh. inversion Hh. reflexivity.
    + exfalso. apply Hik. exact (proj1 (follb_in _ _ _ _ F)).
    + cbn [follb] in F. destruct F as [(_ & Hb & _)|[F|F]]; [congruence| |]; exfalso.
      * apply Hpk. exact (proj1 (follb_in _ _ _ _ F)).
      * apply Hir. exact (proj1 (follb_in _ _ _ _ F)).
  - intros [(_ & Hi & _)|[F|F]]; [congruence|exact (IHk false Hk F)|exact (IHr top Hr F)].
Qed.

Lemma q_next_follb st x y : Good st -> q_next st x = Some y -> (forall v, val st x = Some v -> is_normal v = true) -> follb true x y (store st).
Proof.
  intros G Hq Hv. destruct (cur st x) as [z|] eqn:Hc; [|unfold q_next in Hq; rewrite Hc in Hq; discriminate].
  destruct (q_next_view st x z y Hc Hq) as (w & k & r & Ea & _).
  destruct (zview _ _ _ Hc) as [_ (A & B & E)]. rewrite E, <- (cur_slot _ _ _ Hc).
  apply follb_view_next; [eapply has_sibling_inner; [exact Hc|right; congruence]|apply Hv; apply val_of_cur; exact Hc|rewrite Ea; reflexivity].
Qed.

Lemma val_in_store st x : In x (ids (store st)) -> exists v, val st x = Some v /\ In (x, v) (nodes (store st)).
Proof.
  intros H. destruct (locate_found _ _ H) as [z Hz]. exists (z_val z).
  assert (val st x = Some (z_val z)) as Hv by (apply val_of_cur; exact Hz). split; [exact Hv|apply val_nodes; exact Hv].
Qed.

Lemma remove_head_root st a v k r : store st = FCons a v k r -> store (remove_subtree_raw st a) = r.
Proof. intros E. unfold remove_subtree_raw. rewrite E. cbn [fcut]. rewrite N.eqb_refl. reflexivity. Qed.

Lemma detached_between st a z p n tp tn : Good st -> cons st = true -> noadj st -> cur st a = Some z -> z_ups z <> [] ->
  is_normal (z_val z) = true -> q_prev st a = Some p -> q_next st a = Some n ->
  val st p = Some (VText tp) -> val st n = Some (VText tn) ->
  store (detach_raw st a) = FCons a (z_val z) (z_kids z) (fdel a (store st))
  /\ nab [(p, n)] (store (detach_raw st a)) = true
  /\ follb true p n (store (detach_raw st a))
  /\ p <> a /\ n <> a /\ p <> n
  /\ nab [(p, n)] (fdel a (store st)) = true /\ follb true p n (fdel a (store st)) /\ NoDup (ids (fdel a (store st)))
  /\ is_text_val (z_val z) = false.
Proof.
  intros G Hc Hna Hz Hne Hnv Hqp Hqn Hvp Hvn. pose proof (Good_nodup _ G) as Hnd. pose proof (Good_WF _ G) as W.
  destruct (cut_setup st a z G Hz) as [Hcut _].
  assert (store (detach_raw st a) = FCons a (z_val z) (z_kids z) (fdel a (store st))) as E1 by (unfold detach_raw; rewrite Hcut; reflexivity).
  destruct (zview _ _ _ Hz) as [_ (A & B & E)]. pose proof (cur_slot _ _ _ Hz) as Hzs.
  destruct (q_prev_view st a z p Hz Hqp) as (vp & kp & rp & Eb & Cp).
  destruct (q_next_view st a z n Hz Hqn) as (vn & kn & rn & Ea & Cn).
  assert (is_normal vp = true) as Hnp by (unfold is_normal in *; rewrite Cp; exact Hnv).
  assert (follb true p a (store st)) as Fp.
  { rewrite E, <- Hzs. apply follb_view_prev; [exact Hne|rewrite Eb; reflexivity|rewrite Eb; exact Hnp]. }
  assert (follb true a n (store st)) as Fn.
  { rewrite E, <- Hzs. apply follb_view_next; [exact Hne|exact Hnv|rewrite Ea; reflexivity]. }
  pose proof (level_disjoint st a z W Hz) as Hld. rewrite Eb, Ea in Hld. cbn [ids] in Hld.
  assert (p <> a) as Hpa.
  { intros ->. apply NoDup_remove_2 in Hld. apply Hld. apply in_or_app. left. left. reflexivity. }
  assert (n <> a) as Hn_a.
  { intros ->. apply NoDup_app_inv in Hld as [_ Hld]. inversion Hld as [|? ? Hx _]; subst. apply Hx. apply in_or_app. right. left. reflexivity. }
  assert (p <> n) as Hpn.
  { intros ->. eapply NoDup_app_not_in; [exact Hld|left; reflexivity|]. right. apply in_or_app. right. left. reflexivity. }
  assert (nab [(p, n)] (fdel a (store st)) = true) as Hn0.
  { pose proof (nab_fdel [] a (store st) None Hnd ltac:(rewrite nab_nil; exact Hna)) as H.
    rewrite (seam_follb p a n (store st) true None Hnd Fp Fn), app_nil_r in H. exact H. }
  pose proof (follb_bridge p a n (store st) true Hnd Fp Fn) as F0.
  split; [exact E1|]. split; [|split; [|split; [exact Hpa|split; [exact Hn_a|split; [exact Hpn|split; [exact Hn0|split; [exact F0|split]]]]]]].
  - rewrite E1. cbn [nab].
    destruct (na_parts st z A B E Hna) as (_ & _ & _ & _ & _ & Hk1 & Hk2 & _).
    rewrite (na_list_nab _ _ Hk1), (na_nab _ _ Hk2). cbn [andb]. exact Hn0.
  - rewrite E1. cbn [follb]. right. right. exact F0.
  - apply nodup_fdel. exact Hnd.
  - pose proof (local_from_nab st [] a G ltac:(rewrite nab_nil; exact Hna) ltac:(reflexivity) z Hz Hne) as HL.
    rewrite Eb in HL. cbn [head_text] in HL. destruct (is_text_val (z_val z)); [|reflexivity].
    assert (is_text_val vp = true) as Hvpt.
    { assert (Zipper.left z = Some (mkz p vp kp rp (FCons a (z_val z) (z_kids z) (z_after z)) (z_ups z))) as Hl
        by (unfold Zipper.left; rewrite Eb, Hzs; reflexivity).
      assert (cur st p = Some (mkz p vp kp rp (FCons a (z_val z) (z_kids z) (z_after z)) (z_ups z))) as Hcp
        by exact (cur_move st a z _ (proj1 W) Hz (or_intror (or_introl Hl))).
      rewrite (val_of_cur _ _ _ Hcp) in Hvp. cbn [z_val] in Hvp. inversion Hvp. reflexivity. }
    rewrite Hvpt in HL. discriminate HL.
Qed.


Lemma fdel_head x a v k r : a <> x -> fdel x (FCons a v k r) = FCons a v (fdel x k) (fdel x r).
Proof. intros H. cbn [fdel]. apply N.eqb_neq in H. rewrite H. reflexivity. Qed.

Lemma fset_val_head x g a v k r : a <> x -> fset_val x g (FCons a v k r) = FCons a v (fset_val x g k) (fset_val x g r).
Proof. intros H. cbn [fset_val]. apply N.eqb_neq in H. rewrite H. reflexivity. Qed.

Lemma finsert_after_head x T a v k r : a <> x -> finsert_after x T (FCons a v k r) = FCons a v (finsert_after x T k) (finsert_after x T r).
Proof. intros H. cbn [finsert_after]. apply N.eqb_neq in H. rewrite H. reflexivity. Qed.

Lemma live_of_val st x v : val st x = Some v -> is_live_slot st x = true.
Proof. unfold val, is_live_slot. destruct (cur st x); [reflexivity|discriminate]. Qed.

Lemma append_text_normal s w : is_normal (append_text_to s w) = is_normal w.
Proof. destruct w; reflexivity. Qed.

(* ---------- replace, the replaced node between two text nodes, the replacing node a third node ---------- *)

Lemma noadj_m_replace_between st a b : Good st -> cons st = true -> noadj st ->
  tprev st a && tnext st a = true -> q_prev st a <> Some b -> q_next st a <> Some b ->
  noadj (fst (m_replace st a b)).
Proof.
  intros G Hcons Hna J Hpb0 Hnb0. pose proof (Good_WF _ G) as W. pose proof (Good_nodup _ G) as Hnd. unfold m_replace.
  destruct (is_type st a TDocument); [exact Hna|].
  destruct (q_parent st a) as [par|] eqn:Hpar; [|exact Hna].
  destruct (is_normal_node st a) eqn:Hnorm; cbn [negb]; [|exact Hna].
  destruct (N.eqb_spec a b) as [Hab|Hab]; [exact Hna|].
  destruct (structure_check st (Some par) b) eqn:Hsc; cbn [negb]; [|exact Hna].
  assert (exists z, cur st a = Some z) as [z Hz] by (unfold q_parent in Hpar; destruct (cur st a); [eauto|discriminate]).
  assert (z_ups z <> []) as Hne.
  { unfold q_parent in Hpar. rewrite Hz in Hpar. unfold parent, up in Hpar. destruct (z_ups z); [discriminate|discriminate]. }
  assert (is_normal (z_val z) = true) as Hnv by (unfold is_normal_node in Hnorm; rewrite (val_of_cur _ _ _ Hz) in Hnorm; exact Hnorm).
  pose proof (cur_slot _ _ _ Hz) as Hzs.
  destruct (tprev_spec st a z W Hz Hne Hnv) as [Htp _]. destruct (tnext_spec st a z W Hz Hne Hnv) as [Htn _].
  apply andb_true_iff in J as [J1 J2]. rewrite Htp in J1. rewrite Htn in J2.
  destruct (z_before z) as [|p vp kp b'] eqn:Eb; [discriminate|]. destruct (z_after z) as [|nx vn kn a'] eqn:Ea; [discriminate|].
  cbn [head_text] in J1, J2.
  assert (q_prev st a = Some p) as Hqp.
  { unfold q_prev. rewrite Hz. unfold previous_sibling, left. rewrite Eb. unfold zcat. cbn.
    rewrite (text_cat _ J1). destruct (z_val z); try discriminate; reflexivity. }
  assert (q_next st a = Some nx) as Hqn.
  { unfold q_next. rewrite Hz. unfold next_sibling, right. rewrite Ea. unfold zcat. cbn.
    rewrite (text_cat _ J2). destruct (z_val z); try discriminate; reflexivity. }
  destruct (text_value _ J1) as [tp Etp]. destruct (text_value _ J2) as [tn Etn]. subst vp vn.
  assert (val st p = Some (VText tp)) as Hvp.
  { assert (Zipper.left z = Some (mkz p (VText tp) kp b' (FCons a (z_val z) (z_kids z) (z_after z)) (z_ups z))) as Hl
      by (unfold Zipper.left; rewrite Eb, Hzs; reflexivity).
    assert (cur st p = Some (mkz p (VText tp) kp b' (FCons a (z_val z) (z_kids z) (z_after z)) (z_ups z))) as Hcp
      by exact (cur_move st a z _ (proj1 W) Hz (or_intror (or_introl Hl))).
    rewrite (val_of_cur _ _ _ Hcp). reflexivity. }
  assert (val st nx = Some (VText tn)) as Hvn.
  { assert (Zipper.right z = Some (mkz nx (VText tn) kn (FCons a (z_val z) (z_kids z) (z_before z)) a' (z_ups z))) as Hr
      by (unfold Zipper.right; rewrite Ea, Hzs; reflexivity).
    assert (cur st nx = Some (mkz nx (VText tn) kn (FCons a (z_val z) (z_kids z) (z_before z)) a' (z_ups z))) as Hcn
      by exact (cur_move st a z _ (proj1 W) Hz (or_introl Hr)).
    rewrite (val_of_cur _ _ _ Hcn). reflexivity. }
  assert (p <> b) as Hpb by (intros ->; apply Hpb0; exact Hqp).
  assert (nx <> b) as Hnb by (intros ->; apply Hnb0; exact Hqn).
  rewrite Hqp, Hqn. cbn [opt_eqb]. rewrite (proj2 (N.eqb_neq p b) Hpb), (proj2 (N.eqb_neq nx b) Hnb). cbn [orb].
  destruct (detached_between st a z p nx tp tn G Hcons Hna Hz Hne Hnv Hqp Hqn Hvp Hvn)
    as (E1 & Hnab1 & Fpn1 & Hpa & Hn_a & Hpn & Hnab0 & F0 & N0 & Hat).
  set (st1 := detach_raw st a) in *. set (G0 := fdel a (store st)) in *.
  pose proof (Ext_detach_raw st a G) as X1. fold st1 in X1. pose proof (ext_good _ _ X1) as G1.
  assert (cons st1 = true) as C1 by (unfold st1; rewrite cons_detach_raw; exact Hcons).
  assert (forall x, val st1 x = val st x) as Hv1 by (intros x; apply val_detach; exact G).
  pose proof (Good_nodup _ G1) as Hnd1.
  assert (sibling_check st1 p b = true) as Hsib by (apply (replace_sibling_check st a b par p); assumption).
  assert (val st1 p = Some (VText tp)) as Hvp1 by (rewrite Hv1; exact Hvp).
  assert (val st1 nx = Some (VText tn)) as Hvn1 by (rewrite Hv1; exact Hvn).
  assert (val st1 a = Some (z_val z)) as Hva1 by (rewrite Hv1; apply val_of_cur; exact Hz).
  assert (q_next st1 p = Some nx) as Hqn1 by (apply (follb_q_next st1 p nx (VText tn) G1 Fpn1 Hvn1); reflexivity).
  assert (q_prev st1 b <> Some p) as Hq1.
  { intros H. apply (prev_next st1 b p Hnd1) in H. rewrite Hqn1 in H. inversion H. contradiction. }
  assert (forall zb, cur st1 b = Some zb -> z_ups zb <> [] -> is_text_val (z_val zb) && head_text (z_before zb) = false) as Hloc.
  { apply (local_from_nab st1 [(p, nx)] b G1 Hnab1). intros x. cbn [pair_in existsb fst snd].
    rewrite (proj2 (N.eqb_neq nx b) Hnb), andb_false_r. reflexivity. }
  pose proof (insert_after_text_ref st1 p b tp G1 C1 Hsib Hvp1 Hq1 Hloc) as HS. cbv zeta in HS.
  pose proof (m_insert_after_done st1 p b Hsib) as Hd.
  pose proof (Ext_m_insert_after st1 p b G1) as X2. pose proof (cons_m_insert_after st1 p b) as C2.
  destruct (m_insert_after st1 p b) as [st2 o]. cbn [fst snd] in HS, Hd, X2, C2. subst o.
  pose proof (ext_good _ _ X2) as G2. rewrite C1 in C2.
  destruct HS as [(zb & Hcb & Hnbv & Htb & Hpkb & Hrin) HS].
  cbv beta iota zeta.
  set (st3 := remove_subtree_raw st2 a).
  pose proof (ext_good _ _ (Ext_remove_subtree_raw st2 a G2)) as G3. fold st3 in G3.
  assert (cons st3 = true) as C3 by (unfold st3; rewrite cons_remove_subtree_raw; exact C2).
  assert (forall x v, In (x, v) (nodes G0) -> val st1 x = Some v) as Hback.
  { intros x v H. apply (nodes_val st1 x v Hnd1). rewrite E1. cbn [nodes]. right. apply in_or_app. right. exact H. }
  assert (forall x t, val st1 x = Some (VText t) -> a <> x) as Htxa.
  { intros x t H ->. rewrite Hva1 in H. inversion H as [Hz']. rewrite Hz' in Hat. discriminate. }
  assert (a <> p) as Hap by (apply (Htxa p tp Hvp1)).
  assert (find b (store st1) = Some (z_val zb, z_kids zb)) as Hfb by (apply find_of_cur; exact Hcb).
  destruct (nab_find [(p, nx)] b _ _ _ Hfb Hnab1) as [Hkb1 Hkb2].
  assert (val st1 b = Some (z_val zb)) as Hvb1 by (apply val_of_cur; exact Hcb).
  assert (In p (ids (fdel b G0))) as Hpin.
  { rewrite E1 in Hrin. rewrite (fdel_head b a _ _ _ Hab) in Hrin. cbn [ids] in Hrin.
    destruct Hrin as [H|H]; [congruence|]. apply in_app_or in H as [H|H]; [|exact H]. exfalso.
    apply ids_fdel_incl in H. pose proof Hnd1 as Hx. rewrite E1 in Hx. cbn [ids] in Hx. apply NoDup_cons_app_inv in Hx as (_ & _ & _ & _ & Hkr).
    eapply NoDup_app_not_in; [exact Hkr|exact H|exact (proj1 (follb_in _ _ _ _ F0))]. }
  assert (noadj st3 -> noadj (fst (if is_live_slot st3 p && is_live_slot st3 nx && opt_eqb (q_next st3 p) (Some nx)
                                   then (fst (remove_consolidate st3 (Some p) (Some nx)), MDone None) else (st3, MDone None)))) as Hfin.
  { intros H. destruct (is_live_slot st3 p && is_live_slot st3 nx && opt_eqb (q_next st3 p) (Some nx)); cbn [fst]; [apply noadj_rc; assumption|exact H]. }
  destruct HS as [(Hbt & ES & A3)|[(tb & Hvbt & ES)|[(pb & tpb & Hbt & Hqpb & Hqnb & Hvpb & Hpbp & ES)|
    (pb & nb & tpb & tnb & Hbt & Hqpb & Hqnb & Hvpb & Hvnb & Hnbp & Hpbp & Hpbnb & Hpbb & Hnbb & ES & Fcut & HpT & HnT)]]].
  - (* the replacing node is no text node and did not stand between two text nodes: it now separates the two *)
    apply Hfin. unfold noadj.
    assert (store st3 = finsert_after p (tree_of st1 b) (fdel b G0)) as E3.
    { unfold st3. apply (remove_head_root st2 a (z_val z) (finsert_after p (tree_of st1 b) (fdel b (z_kids z)))).
      rewrite ES, E1. rewrite (fdel_head b a _ _ _ Hab). rewrite (finsert_after_head p _ a _ _ _ Hap). reflexivity. }
    rewrite E3, Htb.
    assert (is_text_val (z_val zb) = false) as Hbnt.
    { unfold btext in Hbt. rewrite Hvb1 in Hbt. destruct (z_val zb); try reflexivity; discriminate. }
    assert (nab [(p, nx)] (finsert_after p (FCons b (z_val zb) (z_kids zb) FNil) (fdel b G0)) = true) as Hn3.
    { apply nab_ins_after; [exact Hbnt|exact Hkb1|exact Hkb2|].
      apply (nab_fdel_quiet _ b G0 true N0); [| |exact Hnab0].
      + intros v Hv. apply Hback in Hv. rewrite Hvb1 in Hv. inversion Hv. exact Hnbv.
      + intros x y Fx Fy (t1 & T1) (t2 & T2).
        assert (follb true x b (store st1)) as Fx1 by (rewrite E1; right; right; exact Fx).
        assert (follb true b y (store st1)) as Fy1 by (rewrite E1; right; right; exact Fy).
        pose proof (follb_q_next st1 x b (z_val zb) G1 Fx1 Hvb1 Hnbv) as Q1.
        apply (next_prev st1 x b Hnd1) in Q1.
        pose proof (follb_q_next st1 b y (VText t2) G1 Fy1 (Hback _ _ T2) eq_refl) as Q2.
        exact (A3 x y t1 t2 Q1 Q2 (Hback _ _ T1) (Hback _ _ T2)). }
    apply (nab_close [(p, nx)] _ true Hn3).
    intros x y HP F _ _. cbn [pair_in existsb fst snd] in HP. rewrite orb_false_r in HP.
    apply andb_true_iff in HP as [HP1 HP2]. apply N.eqb_eq in HP1, HP2. subst x y.
    apply Hnb. exact (follb_ins_after_inv p b _ _ nx Hpb Hpkb _ true (nodup_fdel b G0 N0) F).
  - (* the replacing node is a text node: it goes into the text node before, and the last consolidation merges the one after *)
    set (g := append_text_to tb) in *.
    assert (store st3 = fdel b (fset_val p g G0)) as E3.
    { unfold st3. apply (remove_head_root st2 a (z_val z) (fdel b (fset_val p g (z_kids z)))).
      rewrite ES, E1. rewrite (fset_val_head p g a _ _ _ Hap). rewrite (fdel_head b a _ _ _ Hab). reflexivity. }
    assert (forall v, is_text_val (g v) = is_text_val v) as Hg by (intros v; apply append_text_text).
    assert (forall v, is_normal (g v) = is_normal v) as Hgn by (intros v; apply append_text_normal).
    assert (b <> p) as Hbp by (intros E; apply Hpb; symmetry; exact E).
    assert (nx <> p) as Hnp by (intros E; apply Hpn; symmetry; exact E).
    assert (nab [(p, nx)] (store st3) = true) as Hn3.
    { rewrite E3. apply nab_del_text.
      - intros y. destruct y as [y|]; [|reflexivity]. cbn [pair_in existsb fst snd]. rewrite (proj2 (N.eqb_neq p b) Hpb). reflexivity.
      - rewrite nodes_fset_val_ids. exact N0.
      - intros v Hv. apply nodes_fset_val_inv in Hv; [|exact Hbp]. apply Hback in Hv. rewrite Hvbt in Hv. inversion Hv. reflexivity.
      - rewrite nab_fset_val by exact Hg. exact Hnab0. }
    assert (follb true p nx (store st3)) as F3.
    { rewrite E3. apply follb_fdel; [rewrite nodes_fset_val_ids; exact N0| |exact Hnb|apply follb_fset_val; [exact Hgn|exact F0]].
      rewrite (fdel_fset_val b p g G0 Hbp). rewrite nodes_fset_val_ids. exact Hpin. }
    destruct (follb_in _ _ _ _ F3) as [Hp3 Hn3'].
    destruct (val_in_store st3 nx Hn3') as (vn3 & Hvn3 & Hin3).
    assert (vn3 = VText tn) as Evn3.
    { rewrite E3 in Hin3. apply nodes_fdel_incl in Hin3. apply nodes_fset_val_inv in Hin3; [|exact Hnp].
      apply Hback in Hin3. rewrite Hvn1 in Hin3. inversion Hin3. reflexivity. }
    subst vn3.
    destruct (val_in_store st3 p Hp3) as (vp3 & Hvp3 & Hip3).
    assert (exists t, vp3 = VText t) as [tp3 Evp3].
    { rewrite E3 in Hip3. apply nodes_fdel_incl in Hip3. apply nodes_fset_val_at in Hip3 as (v0 & H0 & Hv0).
      apply Hback in H0. rewrite Hvp1 in H0. inversion H0; subst v0.
      destruct Hv0 as [Hv0|Hv0]; rewrite Hv0; [eexists; reflexivity|]. unfold g. cbn [append_text_to]. eexists; reflexivity. }
    subst vp3.
    assert (q_next st3 p = Some nx) as Hq3 by (apply (follb_q_next st3 p nx (VText tn) G3 F3 Hvn3); reflexivity).
    rewrite (live_of_val _ _ _ Hvp3), (live_of_val _ _ _ Hvn3), Hq3. cbn [opt_eqb andb]. rewrite N.eqb_refl. cbn [fst].
    unfold remove_consolidate. rewrite C3, Hvp3, Hvn3. cbn [negb fst].
    unfold noadj. rewrite (merged_store st3 p _ nx tn G3 Hpn Hvn3).
    apply (nab_close [(p, nx)] _ true).
    + apply nab_del_text.
      * intros y. destruct y as [y|]; [|reflexivity]. cbn [pair_in existsb fst snd]. rewrite (proj2 (N.eqb_neq p nx) Hpn). reflexivity.
      * rewrite nodes_fset_val_ids. apply Good_nodup. exact G3.
      * intros v Hv. apply nodes_fset_val_inv in Hv; [|exact Hnp]. apply (nodes_val st3 nx v (Good_nodup _ G3)) in Hv.
        rewrite Hvn3 in Hv. inversion Hv. reflexivity.
      * rewrite nab_fset_val by (intros v; apply append_text_text). exact Hn3.
    + intros x y HP _ _ (t2 & T2). cbn [pair_in existsb fst snd] in HP. rewrite orb_false_r in HP.
      apply andb_true_iff in HP as [_ HP2]. apply N.eqb_eq in HP2. subst y.
      apply nodes_in_ids in T2. exact (fdel_gone _ _ T2).
  - (* the replacing node stood just before the text node before the replaced one: that text node is merged away *)
    set (g := append_text_to tp) in *.
    assert (a <> pb) as Hapb by (apply (Htxa pb tpb Hvpb)).
    assert (store st3 = fdel p (fset_val pb g G0)) as E3.
    { unfold st3. apply (remove_head_root st2 a (z_val z) (fdel p (fset_val pb g (z_kids z)))).
      rewrite ES, E1. rewrite (fset_val_head pb g a _ _ _ Hapb). rewrite (fdel_head p a _ _ _ Hap). reflexivity. }
    apply Hfin. unfold noadj. rewrite E3.
    assert (forall v, is_text_val (g v) = is_text_val v) as Hg by (intros v; apply append_text_text).
    assert (forall v, is_normal (g v) = is_normal v) as Hgn by (intros v; apply append_text_normal).
    assert (b <> pb) as Hbpb by (intros E; unfold btext in Hbt; rewrite E, Hvpb in Hbt; discriminate).
    assert (follb true b p G0) as Fb0.
    { assert (follb true b p (store st1)) as Fb1.
      { apply q_next_follb; [exact G1|exact Hqnb|]. intros v Hv. rewrite Hvb1 in Hv. inversion Hv; subst v. exact Hnbv. }
      rewrite E1 in Fb1. apply follb_tail in Fb1; [exact Fb1|rewrite <- E1; exact Hnd1|right; exact (proj1 (follb_in _ _ _ _ F0))]. }
    set (G0' := fset_val pb g G0).
    assert (NoDup (ids G0')) as N0' by (unfold G0'; rewrite nodes_fset_val_ids; exact N0).
    assert (follb true b p G0') as Fb' by (apply follb_fset_val; [exact Hgn|exact Fb0]).
    assert (follb true p nx G0') as Fp' by (apply follb_fset_val; [exact Hgn|exact F0]).
    assert (nab [(p, nx)] G0' = true) as Hn0' by (unfold G0'; rewrite nab_fset_val by exact Hg; exact Hnab0).
    pose proof (nab_fdel [(p, nx)] p G0' None N0' Hn0') as H. rewrite (seam_follb b p nx G0' true None N0' Fb' Fp') in H.
    apply (nab_close _ _ true H).
    intros x y HP _ (t1 & T1) _. cbn [app pair_in existsb fst snd] in HP. rewrite orb_false_r in HP.
    apply orb_true_iff in HP as [HP|HP]; apply andb_true_iff in HP as [HP1 _]; apply N.eqb_eq in HP1; subst x.
    + apply nodes_fdel_incl in T1. unfold G0' in T1. apply nodes_fset_val_inv in T1; [|exact Hbpb].
      apply Hback in T1. unfold btext in Hbt. rewrite T1 in Hbt. discriminate.
    + apply nodes_in_ids in T1. exact (fdel_gone _ _ T1).
  - (* the replacing node stood between two other text nodes: they are merged where it leaves, and it separates the two here *)
    set (g := append_text_to tnb) in *.
    assert (a <> pb) as Hapb by (apply (Htxa pb tpb Hvpb)).
    assert (a <> nb) as Hanb by (apply (Htxa nb tnb Hvnb)).
    rewrite Htb in ES, HpT, HnT.
    set (Tb := FCons b (z_val zb) (z_kids zb) FNil) in *.
    assert (store st3 = finsert_after p Tb (fset_val pb g (fdel nb (fdel b G0)))) as E3.
    { unfold st3.
      rewrite <- (fdel_absent nb Tb HnT) at 1. rewrite <- (fdel_fset_val nb pb g (fdel b G0)) by (intros E; apply Hpbnb; symmetry; exact E).
      rewrite <- (fdel_finsert_after nb p Tb) by exact Hnbp. rewrite <- (fset_val_finsert_after pb g p Tb _ HpT).
      apply (remove_head_root st2 a (z_val z) (fdel nb (fset_val pb g (finsert_after p Tb (fdel b (z_kids z)))))).
      rewrite ES, E1. rewrite (fdel_head b a _ _ _ Hab). rewrite (finsert_after_head p _ a _ _ _ Hap).
      rewrite (fset_val_head pb g a _ _ _ Hapb). rewrite (fdel_head nb a _ _ _ Hanb). reflexivity. }
    apply Hfin. unfold noadj. rewrite E3.
    assert (forall v, is_text_val (g v) = is_text_val v) as Hg by (intros v; apply append_text_text).
    assert (is_text_val (z_val zb) = false) as Hbnt.
    { unfold btext in Hbt. rewrite Hvb1 in Hbt. destruct (z_val zb); try reflexivity; discriminate. }
    set (S' := [(pb, nb); (p, nx)]).
    assert (forall x y, pair_in x y [(p, nx)] = true -> pair_in x y S' = true) as Hw.
    { intros x y E. destruct y as [y|]; [|discriminate]. unfold S'. cbn [pair_in existsb] in *. rewrite E. apply orb_true_r. }
    assert (nab S' (fdel b G0) = true) as H1.
    { destruct (in_dec N.eq_dec b (ids G0)) as [Hbin|Hbout].
      - assert (follb true pb b G0) as Fa.
        { assert (follb true pb b (store st1)) as F1.
          { apply q_next_follb; [exact G1|apply (prev_next st1 b pb Hnd1); exact Hqpb|].
            intros v Hv. rewrite Hvpb in Hv. inversion Hv. reflexivity. }
          rewrite E1 in F1. apply follb_tail in F1; [exact F1|rewrite <- E1; exact Hnd1|right; exact Hbin]. }
        assert (follb true b nb G0) as Fb.
        { assert (follb true b nb (store st1)) as F1.
          { apply q_next_follb; [exact G1|exact Hqnb|]. intros v Hv. rewrite Hvb1 in Hv. inversion Hv; subst v. exact Hnbv. }
          rewrite E1 in F1. apply follb_tail in F1; [exact F1|rewrite <- E1; exact Hnd1|left; exact Hbin]. }
        pose proof (nab_fdel [(p, nx)] b G0 None N0 Hnab0) as H. rewrite (seam_follb pb b nb G0 true None N0 Fa Fb) in H. exact H.
      - rewrite (fdel_absent b G0 Hbout). exact (nab_weaken _ _ _ Hw Hnab0). }
    assert (nab S' (fdel nb (fdel b G0)) = true) as H2.
    { apply nab_del_text; [|apply nodup_fdel; exact N0| |exact H1].
      - intros y. destruct y as [y|]; [|reflexivity]. unfold S'. cbn [pair_in existsb fst snd].
        rewrite (proj2 (N.eqb_neq pb nb) Hpbnb). rewrite (proj2 (N.eqb_neq p nb)) by (intros E; apply Hnbp; symmetry; exact E). reflexivity.
      - intros v Hv. apply nodes_fdel_incl in Hv. apply Hback in Hv. rewrite Hvnb in Hv. inversion Hv. reflexivity. }
    assert (nab S' (finsert_after p Tb (fset_val pb g (fdel nb (fdel b G0)))) = true) as H3.
    { apply nab_ins_after; [exact Hbnt|exact (nab_list_weaken _ _ _ Hw Hkb1)|exact (nab_weaken _ _ _ Hw Hkb2)|].
      rewrite nab_fset_val by exact Hg. exact H2. }
    apply (nab_close S' _ true H3).
    intros x y HP F _ (t2 & T2). unfold S' in HP. cbn [pair_in existsb fst snd] in HP. rewrite orb_false_r in HP.
    apply orb_true_iff in HP as [HP|HP]; apply andb_true_iff in HP as [HP1 HP2]; apply N.eqb_eq in HP1, HP2; subst x y.
    + apply nodes_finsert_after_inv in T2 as [T2|T2].
      * apply HnT. exact (nodes_in_ids _ _ _ T2).
      * apply nodes_fset_val_inv in T2; [|intros E; apply Hpbnb; symmetry; exact E]. apply nodes_in_ids in T2. exact (fdel_gone _ _ T2).
    + apply Hnb. apply (follb_ins_after_inv p b (z_val zb) (z_kids zb) nx Hpb Hpkb (fset_val pb g (fdel nb (fdel b G0))) true); [|exact F].
      rewrite nodes_fset_val_ids. apply nodup_fdel. apply nodup_fdel. exact N0.
Qed.
