(* NsProofs.v — theorems about Model/NsTools.v (C10: create_missing_prefixes, C15: deduplicate_namespaces). *)
From Coq Require Import List NArith Bool Lia.
From XotV Require Import Model.Base Model.Zipper Model.Access Model.Store Model.Manip Model.Interning Model.InternOps
                         Model.Fullname Model.Scope Model.NsTools Model.Builder Proofs.BuilderProofs Proofs.FullnameProofs.
Import ListNotations.
Open Scope N_scope.

Section P.
  Variable nm : nsnames.

  Lemma nsmem_in x l : nsmem x l = true <-> In x l.
  Proof.
    unfold nsmem. rewrite existsb_exists. split.
    - intros [y [Hy He]]. apply N.eqb_eq in He. subst. exact Hy.
    - intros H. exists x. split; [exact H|apply N.eqb_refl].
  Qed.

  (* the prefix the search returns is new *)
  Lemma fresh_prefix_new fuel : forall t i used p t' i',
    fresh_prefix fuel t i used = Some (p, t', i') -> ~ In p used.
  Proof.
    induction fuel as [|f IH]; intros t i used p t' i'; cbn [fresh_prefix]; [discriminate|].
    destruct (x_add_prefix t (110 :: to_dec i)) as [[q t1]|]; [|discriminate].
    destruct (nsmem q used) eqn:E; [apply IH|].
    intros H. inversion H; subst. intros Hin. apply nsmem_in in Hin. congruence.
  Qed.

  (* create_missing_prefixes: one generated prefix per missing namespace, in order; the generated prefixes are pairwise
     different and none of them was bound in the scope of the node or declared anywhere below it *)
  Theorem assign_prefixes_fresh missing : forall t i used l t',
    assign_prefixes t i used missing = Some (l, t') ->
    map snd l = missing /\ NoDup (map fst l) /\ (forall p, In p (map fst l) -> ~ In p used).
  Proof.
    induction missing as [|ns rest IH]; intros t i used l t'; cbn [assign_prefixes].
    - intros H. inversion H; subst. cbn. split; [reflexivity|]. split; [constructor|intros p []].
    - destruct (fresh_prefix (S (length used)) t i used) as [[[p t1] i1]|] eqn:Ef; [|discriminate].
      destruct (assign_prefixes t1 i1 (p :: used) rest) as [[l1 t2]|] eqn:Ea; [|discriminate].
      intros H. inversion H; subst. destruct (IH _ _ _ _ _ Ea) as (H1 & H2 & H3). cbn. split; [rewrite H1; reflexivity|].
      split.
      + constructor; [|exact H2]. intros Hin. apply (H3 p Hin). left. reflexivity.
      + intros q [Hq|Hq]; [subst; eapply fresh_prefix_new; exact Ef|]. intros Hu. apply (H3 q Hq). right. exact Hu.
  Qed.

  (* a binding whose prefix no element below declares again stays in force in every table below *)
  Theorem flat_keeps_undisturbed p ns stack base :
    Forall (fun d => ~ In p (map fst d)) stack -> assoc_p p base = Some ns -> assoc_p p (flat stack base) = Some ns.
  Proof.
    induction stack as [|d s IH]; intros Hs Hb; cbn [flat]; [exact Hb|].
    inversion Hs as [|? ? Hd Hs']; subst. rewrite info_new_lookup.
    destruct (assoc_p p d) eqn:E; [|apply IH; assumption].
    exfalso. destruct (assoc_p_none p d) as [_ Hn]. rewrite (Hn Hd) in E. discriminate.
  Qed.

  (* ... and a name whose namespace has a non-empty prefix in the table is never reported missing: so after the repair
     every element and attribute name in a repaired namespace can be written, at any depth *)
  Theorem bound_namespace_not_missing ep nn s p ns :
    NoDup (map fst (fs_top s)) -> assoc_p p (fs_top s) = Some ns -> p <> ep ->
    element_prefix ep nn s ns <> PMissing /\ attribute_prefix ep nn s ns <> PMissing.
  Proof.
    intros Hnd Ha Hp. split.
    - pose proof (element_prefix_sound ep nn s ns Hnd) as H. destruct (element_prefix ep nn s ns); try discriminate.
      destruct H as [_ H]. exfalso. exact (H p Ha).
    - pose proof (attribute_prefix_sound ep nn s ns Hnd) as H. destruct (attribute_prefix ep nn s ns); try discriminate.
      destruct H as [_ H]. exfalso. exact (H p Hp Ha).
  Qed.

  (* ---------- deduplicate_namespaces only deletes declarations that exist ---------- *)
  Theorem dedup_prefixes_sound z fix_ups e p :
    In (e, p) (dedup_prefixes z fix_ups) ->
    exists ez ns, In ez (descendants z) /\ z_slot ez = e /\ In (p, ns) (declarations ez).
  Proof.
    unfold dedup_prefixes. intros H. apply in_flat_map in H as [[e' nss] [_ H]].
    destruct (List.find (fun d => N.eqb (z_slot d) e') (descendants z)) as [ez|] eqn:Ef; [|destruct H].
    apply find_some in Ef as [Hin He]. apply N.eqb_eq in He.
    apply in_flat_map in H as [ns [_ H]]. apply in_map_iff in H as [[q m] [Heq H]]. inversion Heq; subst.
    apply filter_In in H as [H Hm]. cbn in Hm. apply N.eqb_eq in Hm. subst.
    exists ez, ns. auto.
  Qed.
End P.
