(* InvApi.v — C04: the calls built on top of the node-level API keep the store good as well:
   remove_insignificant_whitespace, create_missing_prefixes, deduplicate_namespaces, clone_with_prefixes;
   and the step theorem for whole histories over all of them (Model/Hist.v tstep / trun). *)
From Coq Require Import List NArith ZArith Bool Lia Permutation Arith.
From XotV Require Import Model.Base Model.Zipper Model.Access Model.Store Model.Manip Model.Unpretty Model.Interning
                         Model.Fullname Model.Scope Model.NsTools Model.Hist Spec.DocOrder Spec.Paths Spec.Shape
                         Proofs.PermTac Proofs.StoreProofs Proofs.ForestFacts Proofs.ShapeProofs Proofs.KeysProofs Proofs.InvProofs
                         Proofs.InvSteps Proofs.InvOps Proofs.InvHist.
Import ListNotations.
Open Scope N_scope.

(* ---------- map_insert keeps every ordinary node as it is ---------- *)

Definition keeps_normal (st st' : xstate) : Prop :=
  forall x v, In (x, v) (nodes (store st)) -> is_normal v = true -> In (x, v) (nodes (store st')).

Lemma map_insert_keeps st k e newv : Good st -> keeps_normal st (map_insert st k e newv).
Proof.
  intros G x v Hin Hn. unfold map_insert. destruct (map_get_node st k e (key_of newv)) as [n|] eqn:Eg.
  - destruct (map_get_node_facts _ _ _ _ _ G Eg) as (w & Hw & Hc & _). cbn [store with_store].
    apply nodes_fset_val_other; [exact Hin|]. intros ->. apply val_nodes in Hw.
    rewrite (nodes_functional _ _ _ _ (Good_nodup _ G) Hin Hw) in Hn. destruct w; destruct k; discriminate.
  - destruct (new_node st newv) as [st1 n] eqn:En. destruct (Ext_new_node _ _ _ _ G En) as (_ & _ & Hst & _).
    unfold map_attach, move. rewrite Hst. cbn [fcut]. rewrite N.eqb_refl. cbn [store with_store single].
    apply nodes_fmap_kids_incl; [|exact Hin]. intros kk. eapply incl_of_perm. apply nodes_map_insert_at.
Qed.

Lemma is_type_from_node st e ve : Good st -> In (e, ve) (nodes (store st)) -> is_elem ve = true -> is_type st e TElement = true.
Proof.
  intros G Hin He. unfold is_type. rewrite (nodes_val _ _ _ (Good_nodup _ G) Hin). destruct ve; try discriminate; reflexivity.
Qed.

Lemma Ext_fold_map_insert k e (f : N * N -> value) l : forall st ve,
  Good st -> In (e, ve) (nodes (store st)) -> is_elem ve = true -> (forall d, value_category (f d) = cat_of k) ->
  Ext st (fold_left (fun s d => map_insert s k e (f d)) l st)
  /\ keeps_normal st (fold_left (fun s d => map_insert s k e (f d)) l st).
Proof.
  induction l as [|d l IH]; intros st ve G Hin He Hf; cbn [fold_left].
  - split; [apply Ext_refl; exact G|intros x v H _; exact H].
  - pose proof (Ext_map_insert st k e (f d) G (is_type_from_node _ _ _ G Hin He) (Hf d)) as X1.
    pose proof (map_insert_keeps st k e (f d) G) as K1.
    assert (is_normal ve = true) as Hn by (destruct ve; try discriminate; reflexivity).
    destruct (IH _ ve (ext_good _ _ X1) (K1 _ _ Hin Hn) He Hf) as [X2 K2].
    split; [eapply Ext_trans; eauto|]. intros x v Hx Hv. apply K2; [apply K1; assumption|exact Hv].
Qed.

(* ---------- create_missing_prefixes ---------- *)

Section Api.
  Variable nm : nsnames.

  Lemma cur_node st e z : cur st e = Some z -> In (e, z_val z) (nodes (store st)).
  Proof. intros H. unfold cur in H. apply locate_find in H. eapply find_in_nodes. exact H. Qed.

  Lemma Ext_cmp_element t st e t' st' : Good st -> cmp_element nm t st e = NOk t' st' -> Ext st st' /\ keeps_normal st st'.
  Proof.
    intros G. unfold cmp_element. destruct (cur st e) as [z|] eqn:Hc; [|discriminate].
    destruct (z_val z) eqn:Hv; try discriminate.
    destruct (assign_prefixes t 0 (used_prefixes nm z) (missing_namespaces nm z)) as [[l t1]|]; [|discriminate].
    intros H. inversion H; subst.
    apply (Ext_fold_map_insert KNs e (fun d => VNamespace (fst d) (snd d)) l st (VElement n)); auto.
    rewrite <- Hv. apply cur_node. exact Hc.
  Qed.

  Lemma Ext_cmp_elements l : forall t st t' st', Good st -> cmp_elements nm t st l = NOk t' st' -> Ext st st'.
  Proof.
    induction l as [|e l IH]; intros t st t' st' G; cbn [cmp_elements].
    - intros H. inversion H; subst. apply Ext_refl; exact G.
    - destruct (cmp_element nm t st e) as [t1 st1| |] eqn:E; try discriminate.
      destruct (Ext_cmp_element _ _ _ _ _ G E) as [X1 _]. intros H. eapply Ext_trans; [exact X1|]. eapply IH; [apply X1|exact H].
  Qed.

  Lemma Ext_create_missing_prefixes t st n t' st' : Good st -> create_missing_prefixes nm t st n = NOk t' st' -> Ext st st'.
  Proof.
    intros G. unfold create_missing_prefixes. destruct (cur st n) as [z|]; [|discriminate].
    destruct (z_val z); try (intros H; eapply Ext_cmp_element; eauto; fail). apply Ext_cmp_elements. exact G.
  Qed.

  (* ---------- deduplicate_namespaces ---------- *)

  Lemma Ext_fold_map_remove l : forall st, Good st ->
    Ext st (fold_left (fun s (ep' : N * N) => map_remove s KNs (fst ep') (snd ep')) l st).
  Proof.
    induction l as [|a l IH]; intros st G; cbn [fold_left]; [apply Ext_refl; exact G|].
    eapply Ext_step; [apply Ext_map_remove; exact G|]. apply IH.
  Qed.

  Lemma Ext_deduplicate_namespaces st n st' : Good st -> deduplicate_namespaces nm st n = Some st' -> Ext st st'.
  Proof.
    intros G. unfold deduplicate_namespaces. destruct (cur st n); [|discriminate]. intros H. inversion H; subst.
    apply Ext_fold_map_remove. exact G.
  Qed.

  (* ---------- clone_with_prefixes ---------- *)

  Lemma Ext_fold_opt_insert c to_add l : forall st ve,
    Good st -> In (c, ve) (nodes (store st)) -> is_elem ve = true ->
    Ext st (fold_left (fun s p => match assoc_p p to_add with
                                  | Some ns => map_insert s KNs c (VNamespace p ns)
                                  | None => s
                                  end) l st).
  Proof.
    induction l as [|p l IH]; intros st ve G Hin He; cbn [fold_left]; [apply Ext_refl; exact G|].
    destruct (assoc_p p to_add) as [ns|]; [|eapply IH; eauto].
    pose proof (Ext_map_insert st KNs c (VNamespace p ns) G (is_type_from_node _ _ _ G Hin He) eq_refl) as X1.
    assert (is_normal ve = true) as Hn by (destruct ve; try discriminate; reflexivity).
    eapply Ext_trans; [exact X1|]. eapply IH; [apply X1|apply (map_insert_keeps st KNs c _ G); eassumption|exact He].
  Qed.

  Lemma Ext_clone_with_prefixes st n order : Good st -> Ext st (fst (clone_with_prefixes nm st n order)).
  Proof.
    intros G. unfold clone_with_prefixes. destruct (cur st n) as [z|]; [|apply Ext_refl; exact G].
    pose proof (Ext_m_clone st n G) as X1. destruct (m_clone st n) as [st1 out]. cbn [fst] in X1.
    destruct out as [[c|]| |]; cbn [fst]; try exact X1.
    destruct (is_type st1 c TElement) eqn:He; cbn [fst]; [|exact X1].
    match goal with |- context [same_set ?a ?b] => destruct (same_set a b) end; cbn [fst]; [|exact X1].
    apply is_type_val in He as (ve & Hve & Hte).
    eapply Ext_trans; [exact X1|]. eapply (Ext_fold_opt_insert c _ order st1 ve); [apply X1|apply val_nodes; exact Hve|].
    destruct ve; try discriminate; reflexivity.
  Qed.
End Api.

(* ---------- remove_insignificant_whitespace ---------- *)

Lemma fset_kids_fmap n k' f : fset_kids n k' f = fmap_kids n (fun _ => k') f.
Proof. induction f as [|i v k IHk r IHr]; cbn; [reflexivity|]. destruct (N.eqb i n); [reflexivity|]. rewrite IHk, IHr. reflexivity. Qed.

Lemma ids_fmap_kids_replace n g l f : forall v k,
  NoDup (ids f) -> find n f = Some (v, k) -> Permutation (ids k) (l ++ ids (g k)) ->
  Permutation (ids f) (l ++ ids (fmap_kids n g f)).
Proof.
  induction f as [|i v0 k0 IHk r0 IHr]; intros v k Hnd; cbn [find fmap_kids]; [discriminate|].
  cbn in Hnd. apply NoDup_cons_app_inv in Hnd as (Hik & Hir & Hk & Hr & Hkr).
  destruct (N.eqb_spec i n) as [->|Hne].
  - intros H Hp. inversion H; subst. cbn. rewrite Hp. perm.
  - destruct (find n k0) as [x|] eqn:Ek.
    + intros H Hp. inversion H; subst.
      assert (~ In n (ids r0)) as Hnr.
      { intros Hx. eapply NoDup_app_not_in; [exact Hkr| |exact Hx]. eapply find_incl; [exact Ek|left; reflexivity]. }
      rewrite (fmap_kids_absent n g r0 Hnr). cbn. rewrite (IHk _ _ Hk eq_refl Hp). perm.
    + intros H Hp.
      assert (~ In n (ids k0)) as Hnk by (apply find_none; exact Ek).
      rewrite (fmap_kids_absent n g k0 Hnk). cbn. rewrite (IHr _ _ Hr H Hp). perm.
Qed.

Lemma nodes_fmap_kids_replace_incl n g f : forall v k,
  NoDup (ids f) -> find n f = Some (v, k) -> incl (nodes (g k)) (nodes k) -> incl (nodes (fmap_kids n g f)) (nodes f).
Proof.
  induction f as [|i v0 k0 IHk r0 IHr]; intros v k Hnd; cbn [find fmap_kids]; [discriminate|].
  cbn in Hnd. apply NoDup_cons_app_inv in Hnd as (Hik & Hir & Hk & Hr & Hkr).
  destruct (N.eqb_spec i n) as [->|Hne].
  - intros H Hi. inversion H; subst. cbn. intros x [Hx|Hx]; [left; exact Hx|right].
    apply in_app_or in Hx as [Hx|Hx]; apply in_or_app; [left; apply Hi; exact Hx|right; exact Hx].
  - destruct (find n k0) as [y|] eqn:Ek.
    + intros H Hi. inversion H; subst.
      assert (~ In n (ids r0)) as Hnr.
      { intros Hx. eapply NoDup_app_not_in; [exact Hkr| |exact Hx]. eapply find_incl; [exact Ek|left; reflexivity]. }
      rewrite (fmap_kids_absent n g r0 Hnr). cbn. intros x [Hx|Hx]; [left; exact Hx|right].
      apply in_app_or in Hx as [Hx|Hx]; apply in_or_app; [left; eapply IHk; eauto|right; exact Hx].
    + intros H Hi.
      assert (~ In n (ids k0)) as Hnk by (apply find_none; exact Ek).
      rewrite (fmap_kids_absent n g k0 Hnk). cbn. intros x [Hx|Hx]; [left; exact Hx|right].
      apply in_app_or in Hx as [Hx|Hx]; apply in_or_app; [left; exact Hx|right; eapply IHr; eauto].
Qed.

Lemma vsub_incl f f1 : incl (nodes f1) (nodes f) -> vsub f f1.
Proof. intros H x v Hx. exists v. split; [apply H; exact Hx|apply same_class_refl]. Qed.

Section Rmws.
  Variable space : nameid.

  Lemma strip_ids f : forall p s, Permutation (ids f) (stripped space p s f ++ ids (strip space p s f)).
  Proof.
    induction f as [|i v k IHk r IHr]; intros p s; cbn [stripped strip]; [reflexivity|].
    destruct (insignificant p s v).
    - cbn. rewrite (IHr p s) at 1. perm.
    - cbn. rewrite (IHk (space_below space p k) (level_sig k)) at 1. rewrite (IHr p s) at 1. perm.
  Qed.

  Lemma strip_nodes_incl f : forall p s, incl (nodes (strip space p s f)) (nodes f).
  Proof.
    induction f as [|i v k IHk r IHr]; intros p s; cbn [strip]; [apply incl_refl|].
    destruct (insignificant p s v).
    - intros x Hx. cbn. right. apply in_or_app. right. eapply IHr; eauto.
    - cbn. intros x [Hx|Hx]; [left; exact Hx|right].
      apply in_app_or in Hx as [Hx|Hx]; apply in_or_app; [left; eapply IHk; eauto|right; eapply IHr; eauto].
  Qed.

  Lemma shape_strip f : forall c lo p s, shape c lo f = true -> shape c lo (strip space p s f) = true.
  Proof.
    induction f as [|i v k IHk r IHr]; intros c lo p s; cbn [strip]; [auto|].
    rewrite shape_cons. intros H. apply andb_true_iff in H as [H H3]. apply andb_true_iff in H as [H1 H2].
    destruct (insignificant p s v).
    - apply IHr. eapply shape_tail; eauto.
    - rewrite shape_cons, H1. cbn [andb]. rewrite (IHr _ _ p s H3), andb_true_r.
      destruct v; cbn [kids_ok] in *; try (destruct k; [reflexivity|discriminate H2]); apply IHk; exact H2.
  Qed.

  Lemma keys_strip f : forall p s, keys f = true ->
    keys (strip space p s f) = true /\ forall c, sub (level_keys c (strip space p s f)) (level_keys c f).
  Proof.
    induction f as [|i v k IHk r IHr]; intros p s; cbn [strip]; [intros _; split; [reflexivity|intros; constructor]|].
    rewrite keys_cons. intros H. apply andb_true_iff in H as [H H3]. apply andb_true_iff in H as [H1 H2].
    destruct (IHr p s H3) as [Hr1 Hr2].
    destruct (insignificant p s v).
    - split; [exact Hr1|]. intros c. cbn [level_keys]. destruct (vcat_eqb _ _); [apply sub_skip|]; apply Hr2.
    - destruct (IHk (space_below space p k) (level_sig k) H2) as [Hk1 Hk2]. split.
      + rewrite keys_cons, Hk1, Hr1, !andb_true_r. apply (level_ok_sub _ k); [intros c _; apply Hk2|exact H1].
      + intros c. cbn [level_keys]. destruct (vcat_eqb _ _); [apply sub_keep|]; apply Hr2.
  Qed.

  Lemma Ext_rmws st n st' : Good st -> rmws space st n = Some st' -> Ext st st'.
  Proof.
    intros G. unfold rmws. destruct (cur st n) as [z|] eqn:Hc; [|discriminate].
    pose proof (locate_find _ _ _ Hc) as Hf. pose proof (Good_nodup _ G) as Hnd.
    assert (forall p s, Ext st (free_slots (with_store st (fset_kids n (strip space p s (z_kids z)) (store st))) (stripped space p s (z_kids z)))) as Hgen.
    { intros p s. rewrite fset_kids_fmap. apply Ext_free; [exact G| | | |].
      - eapply ids_fmap_kids_replace; [exact Hnd|exact Hf|apply strip_ids].
      - apply shape_fmap_kids; [apply Good_shape; exact G|]. intros v kk Hin _.
        assert (v = z_val z) as -> by (eapply nodes_functional; [exact Hnd|exact Hin|eapply find_in_nodes; exact Hf]).
        pose proof (shape_find _ _ _ _ _ _ (Good_shape _ G) Hf) as Hk.
        destruct (z_val z); cbn [kids_ok] in *; try (destruct (z_kids z); [reflexivity|discriminate Hk]); apply shape_strip; exact Hk.
      - apply keys_fmap_kids; [apply Good_keys; exact G|]. intros v kk _ _.
        pose proof (keys_find _ _ _ _ (Good_keys _ G) Hf) as Kt. unfold keys_tree in *. apply andb_true_iff in Kt as [K1 K2].
        destruct (keys_strip (z_kids z) p s K2) as [S1 S2]. rewrite S1, andb_true_r.
        apply (level_ok_sub _ (z_kids z)); [intros c _; apply S2|exact K1].
      - apply vsub_incl. eapply nodes_fmap_kids_replace_incl; [exact Hnd|exact Hf|apply strip_nodes_incl]. }
    destruct (z_val z); try (intros H; inversion H; subst; apply Hgen).
    destruct (insignificant _ _ _); intros H; inversion H; subst; [apply Ext_m_remove|apply Ext_refl]; exact G.
  Qed.
End Rmws.

(* ---------- whole histories over every call the harness draws (Model/Hist.v) ---------- *)

Lemma Ext_hstep st o : Good st -> Ext st (fst (hstep st o)).
Proof.
  intros G. destruct o as [o'|n space]; cbn [hstep]; [apply Ext_mstep; exact G|].
  destruct (rmws space st n) as [st'|] eqn:E; cbn [fst]; [eapply Ext_rmws; eauto|apply Ext_refl; exact G].
Qed.

Lemma Ext_tstep nm t st o : Good st -> Ext st (snd (fst (tstep nm (t, st) o))).
Proof.
  intros G. destruct o as [o'|n|n|n order]; cbn [tstep].
  - pose proof (Ext_hstep st o' G) as X. destruct (hstep st o') as [st' out]. exact X.
  - destruct (create_missing_prefixes nm t st n) as [t' st'| |] eqn:E; cbn; [eapply Ext_create_missing_prefixes; eauto|apply Ext_refl; exact G|apply Ext_refl; exact G].
  - destruct (deduplicate_namespaces nm st n) as [st'|] eqn:E; cbn; [eapply Ext_deduplicate_namespaces; eauto|apply Ext_refl; exact G].
  - pose proof (Ext_clone_with_prefixes nm st n order G) as X. destruct (clone_with_prefixes nm st n order) as [st' out]. exact X.
Qed.

Definition tfinal (nm : nsnames) (ts : tables * xstate) (ops : list top) : tables * xstate :=
  fold_left (fun s o => fst (tstep nm s o)) ops ts.

Theorem Ext_tfinal nm ops : forall t st, Good st -> Ext st (snd (tfinal nm (t, st) ops)).
Proof.
  induction ops as [|o ops IH]; intros t st G; cbn [tfinal fold_left]; [apply Ext_refl; exact G|].
  pose proof (Ext_tstep nm t st o G) as X. destruct (fst (tstep nm (t, st) o)) as [t1 st1] eqn:E. cbn [snd] in X.
  eapply Ext_trans; [exact X|]. apply IH. apply X.
Qed.

(* ---------- xml_id_node never hands out a removed node ---------- *)

Theorem xml_id_node_live st index id h : xml_id_node st index id = Some h -> live st h.
Proof.
  unfold xml_id_node. destruct (List.find _ index) as [[s h0]|]; [|discriminate].
  destruct (handle_live st h0) eqn:E; [|discriminate]. intros H. inversion H; subst.
  unfold handle_live in E. apply andb_true_iff in E as [E1 E2]. split; [apply mem_true; exact E1|apply Z.eqb_eq; exact E2].
Qed.

(* ... and what it hands out is what the index recorded: the answer for an id is that handle or nothing, for ever *)
Theorem xml_id_node_answer st index id h : xml_id_node st index id = Some h -> In (id, h) index \/ exists id', In (id', h) index.
Proof.
  unfold xml_id_node. destruct (List.find _ index) as [[s h0]|] eqn:Ef; [|discriminate].
  destruct (handle_live st h0); [|discriminate]. intros H. inversion H; subst. right. exists s.
  apply find_some in Ef. tauto.
Qed.
