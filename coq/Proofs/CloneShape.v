(* CloneShape.v — what clone_node builds (C12; and, with it, that clone_node reaches none of its own unwraps: C06).
   The edge replay of Model/Manip.v [clone_edges] is followed along the whole traversal of the source: at every point the store is
   the tree under construction, seen from the cursor of the node new nodes are appended to, in front of the store the call
   started from; when the replay is over, the children of that node are, slots forgotten, the copy the specification
   [ucopy] describes: the same values in the same order with the same nesting, a text node merged into a text node it
   would otherwise follow when consolidation is on. *)
From Coq Require Import List NArith ZArith Bool Lia Permutation Arith.
From XotV Require Import Model.Base Model.Zipper Model.Access Model.Store Model.Manip Spec.DocOrder Spec.Paths Spec.Shape Spec.NoAdj
                         Proofs.ZipperProofs Proofs.AccessProofs Proofs.StoreProofs Proofs.ForestFacts Proofs.InvProofs Proofs.Canon
                         Proofs.ShapeProofs Proofs.KeysProofs Proofs.InvSteps Proofs.InvOps Proofs.PathFacts Proofs.Levels Proofs.NoAdjFacts
                         Proofs.NoAdjOps Proofs.Atomic Proofs.NoPanic.
Import ListNotations.
Open Scope N_scope.

(* ---------- the specification: forests without slots ---------- *)

Inductive uforest := UNil | UCons (v : value) (k r : uforest).

Fixpoint erase (f : forest) : uforest :=
  match f with FNil => UNil | FCons _ v k r => UCons v (erase k) (erase r) end.

Fixpoint uapp (a b : uforest) : uforest :=
  match a with UNil => b | UCons v k r => UCons v k (uapp r b) end.

(* one more node at the end of a sibling list; with consolidation on, a text node goes into a text node it would follow *)
Fixpoint usnoc (c : bool) (K : uforest) (v : value) (k : uforest) : uforest :=
  match K with
  | UNil => UCons v k UNil
  | UCons w kw r =>
      match r with
      | UNil => if c && is_text_val w && is_text_val v then UCons (append_text_to (text_of v) w) kw UNil
                else UCons w kw (UCons v k UNil)
      | _ => UCons w kw (usnoc c r v k)
      end
  end.

(* the copy of the sibling list [f] appended to [K] *)
Fixpoint ucopy (c : bool) (f : forest) (K : uforest) : uforest :=
  match f with
  | FNil => K
  | FCons _ v k r => ucopy c r (usnoc c K v (ucopy c k UNil))
  end.

Lemma erase_fapp a b : erase (fapp a b) = uapp (erase a) (erase b).
Proof. induction a as [|i v k _ r IH]; cbn [fapp erase uapp]; [reflexivity|]. rewrite IH. reflexivity. Qed.

Fixpoint ulast_text (K : uforest) : bool :=
  match K with UNil => false | UCons w _ r => match r with UNil => is_text_val w | _ => ulast_text r end end.

Lemma usnoc_plain c K v k : c && ulast_text K && is_text_val v = false -> usnoc c K v k = uapp K (UCons v k UNil).
Proof.
  induction K as [|w kw _ r IH]; intros H; cbn [usnoc uapp]; [reflexivity|].
  destruct r as [|w2 k2 r2].
  - cbn [ulast_text] in H. rewrite H. reflexivity.
  - rewrite IH; [reflexivity|]. exact H.
Qed.

Lemma ulast_text_erase K : ulast_text (erase K) = last_text K.
Proof.
  unfold last_text. induction K as [|i v k _ r IH]; [reflexivity|].
  cbn [erase ulast_text]. destruct r as [|i2 v2 k2 r2].
  - reflexivity.
  - cbn [erase] in *. rewrite IH. unfold frev. cbn [frev_app]. rewrite !head_text_frev_app. cbn [isnilb]. reflexivity.
Qed.

(* ---------- a cursor with other children ---------- *)

Definition with_kids (z : zipper) (K : forest) : zipper :=
  {| z_slot := z_slot z; z_val := z_val z; z_kids := K; z_before := z_before z; z_after := z_after z; z_ups := z_ups z |}.

Lemma with_kids_clean z K : top_clean z -> top_clean (with_kids z K).
Proof. exact (fun H => H). Qed.

Lemma plug_single z : top_clean z -> exists r vr kr, plug z = FCons r vr kr FNil.
Proof.
  intros Hc. destruct (z_ups z) as [|fr ups] eqn:E.
  - rewrite (plug_root z Hc E). eauto.
  - unfold plug. rewrite E. unfold top_clean in Hc. rewrite E in Hc.
    apply (plug_top_single (z_level z) (fr :: ups) _ _ Hc ltac:(discriminate)).
Qed.

Lemma kids_view g z A B : NoDup (ids (fapp A (fapp (plug z) B))) -> top_clean z ->
  fmap_kids (z_slot z) g (fapp A (fapp (plug z) B)) = fapp A (fapp (plug (with_kids z (g (z_kids z)))) B).
Proof.
  intros Hnd Hc. rewrite fmap_kids_fact. destruct (z_ups z) as [|fr ups] eqn:E.
  - rewrite (plug_root (with_kids z _) Hc E). revert Hnd. rewrite (plug_root z Hc E). cbn [fapp]. intros Hnd.
    rewrite (fact_root _ _ (z_slot z) (z_val z) (z_kids z) A B Hnd eq_refl). reflexivity.
  - rewrite (fact_inner _ _ z A B Hnd Hc ltac:(rewrite E; discriminate) eq_refl). reflexivity.
Qed.

(* an action on one of the children *)
Lemma kid_view act c z A B : NoDup (ids (fapp A (fapp (plug z) B))) -> top_clean z -> In c (ids (z_kids z)) ->
  fact act c (fapp A (fapp (plug z) B)) = fapp A (fapp (plug (with_kids z (fact act c (z_kids z)))) B).
Proof.
  intros Hnd Hc Hin. set (st := {| store := fapp A (fapp (plug z) B); stamps := []; free := []; cons := true |}).
  assert (cur st (z_slot z) = Some z) as Hcur.
  { unfold cur. apply zroot_locate; [exact Hnd|]. split; [exact Hc|exists A, B; reflexivity]. }
  pose proof (find_of_cur _ _ _ Hcur) as F. cbn [store st] in F.
  rewrite (fact_via_parent act c (z_slot z) _ Hnd _ _ F Hin). apply kids_view; assumption.
Qed.

(* ---------- the state of the replay ---------- *)

Definition container (v : value) : Prop := is_elem v = true \/ is_doc v = true.

(* the tree under construction, seen from the node [zc] new nodes are appended to, in front of the old store [S0] *)
Definition dst (st : xstate) (zc : zipper) (S0 : forest) : Prop :=
  Good st /\ top_clean zc /\ store st = fapp (plug zc) S0 /\ container (z_val zc).

Lemma dst_cur st zc S0 : dst st zc S0 -> cur st (z_slot zc) = Some zc.
Proof. intros (G & Hc & E & _). apply (cur_of_view st zc FNil S0 (Good_WF _ G) Hc). exact E. Qed.

Lemma cur_new st v st1 n : Good st -> new_node st v = (st1, n) ->
  cur st1 n = Some (mkz n v FNil FNil FNil []).
Proof.
  intros G Hn. destruct (Ext_new_node _ _ _ _ G Hn) as (_ & _ & Hst & _).
  unfold cur. rewrite Hst. cbn [locate locate_in]. rewrite N.eqb_refl. reflexivity.
Qed.

Lemma dst_after_new st zc S0 v st1 n : dst st zc S0 -> new_node st v = (st1, n) ->
  Good st1 /\ cons st1 = cons st /\ store st1 = FCons n v FNil (fapp (plug zc) S0) /\ ~ In n (ids (fapp (plug zc) S0))
  /\ cur st1 (z_slot zc) = Some zc /\ val st1 n = Some v /\ n <> z_slot zc.
Proof.
  intros (G & Hc & E & Hk) Hn. destruct (Ext_new_node _ _ _ _ G Hn) as (X & Hni & Hst & Hcons).
  pose proof (ext_good _ _ X) as G1. rewrite E in Hst, Hni.
  assert (cur st1 (z_slot zc) = Some zc) as Hcur.
  { apply (cur_of_view st1 zc (FCons n v FNil FNil) S0 (Good_WF _ G1) Hc). rewrite Hst. reflexivity. }
  split; [exact G1|]. split; [exact Hcons|]. split; [exact Hst|]. split; [exact Hni|]. split; [exact Hcur|]. split.
  - unfold val. rewrite (cur_new _ _ _ _ G Hn). reflexivity.
  - intros ->. apply Hni. rewrite <- E. eapply cur_in. apply (dst_cur st zc S0). exact (conj G (conj Hc (conj E Hk))).
Qed.

(* the last child of a cursor, as the queries see it *)
Lemma last_child_view st P zP : WF st -> cur st P = Some zP ->
  match frev (z_kids zP) with
  | FNil => q_last_child st P = None /\ q_raw_last_child st P = None
  | FCons i v k r =>
      q_raw_last_child st P = Some i /\ q_last_child st P = (if is_normal v then Some i else None)
      /\ val st i = Some v /\ In i (ids (z_kids zP))
  end.
Proof.
  intros W HP. unfold q_last_child, q_raw_last_child, last_child. rewrite HP. unfold down_last.
  destruct (frev (z_kids zP)) as [|i v k r] eqn:Ef; [split; reflexivity|].
  cbn [oslot z_slot]. unfold znormal. cbn [z_val].
  split; [reflexivity|]. split; [destruct (is_normal v); reflexivity|].
  assert (down_last zP = Some {| z_slot := i; z_val := v; z_kids := k; z_before := r; z_after := FNil;
            z_ups := {| fr_slot := z_slot zP; fr_val := z_val zP; fr_before := z_before zP; fr_after := z_after zP |} :: z_ups zP |}) as Hd
    by (unfold down_last; rewrite Ef; reflexivity).
  pose proof (cur_move st P zP _ (proj1 W) HP (or_intror (or_intror (or_intror (or_intror Hd))))) as Hc. cbn [z_slot] in Hc.
  split; [rewrite (val_of_cur _ _ _ Hc); reflexivity|].
  eapply Permutation_in; [apply ids_frev|]. rewrite Ef. left. reflexivity.
Qed.

Lemma erase_snoc_frev K i v k r : frev K = FCons i v k r -> K = fapp (frev r) (FCons i v k FNil).
Proof.
  intros H. rewrite <- (frev_involutive K), H. unfold frev at 1. cbn [frev_app].
  rewrite <- (frev_app_frev (frev r)). rewrite frev_involutive. reflexivity.
Qed.

Lemma usnoc_uapp c A w kw v k : usnoc c (uapp A (UCons w kw UNil)) v k = uapp A (usnoc c (UCons w kw UNil) v k).
Proof.
  induction A as [|a ka _ ra IH]; [reflexivity|].
  cbn [uapp]. cbn [usnoc]. fold usnoc. destruct ra as [|b kb rb].
  - cbn [uapp]. reflexivity.
  - cbn [uapp] in *. f_equal. exact IH.
Qed.

Lemma usnoc_erase_append c K n v : c && last_text K && is_text_val v = false ->
  usnoc c (erase K) v UNil = erase (fapp K (FCons n v FNil FNil)).
Proof. intros H. rewrite usnoc_plain by (rewrite ulast_text_erase; exact H). rewrite erase_fapp. reflexivity. Qed.

Lemma usnoc_erase_merge K i t k r s : NoDup (ids K) -> frev K = FCons i (VText t) k r ->
  usnoc true (erase K) (VText s) UNil = erase (fset_val i (append_text_to s) K).
Proof.
  intros Hnd Hf. pose proof (erase_snoc_frev _ _ _ _ _ Hf) as E. rewrite E in Hnd |- *.
  rewrite erase_fapp. cbn [erase]. rewrite usnoc_uapp. cbn [usnoc andb is_text_val text_of append_text_to].
  rewrite fset_val_fact, fact_fapp_skip.
  - cbn [fact]. rewrite N.eqb_refl. unfold a_val. rewrite erase_fapp. reflexivity.
  - intros Hx. rewrite ids_fapp in Hnd. eapply NoDup_app_not_in; [exact Hnd|exact Hx|]. left. reflexivity.
Qed.

Lemma slot_in_plug z : In (z_slot z) (ids (plug z)).
Proof.
  unfold plug. rewrite ids_nodes, nodes_plug_ups, !map_app. apply in_or_app. right. apply in_or_app. left.
  rewrite <- ids_nodes. apply in_level.
Qed.

Lemma kid_in_plug z i : In i (ids (z_kids z)) -> In i (ids (plug z)).
Proof.
  intros Hin. unfold plug. rewrite ids_nodes, nodes_plug_ups, !map_app. apply in_or_app. right. apply in_or_app. left.
  rewrite <- ids_nodes. unfold z_level. eapply Permutation_in; [apply Permutation_sym; apply ids_frev_app|].
  apply in_or_app. right. cbn [ids]. right. apply in_or_app. left. exact Hin.
Qed.

(* add_consolidate of a fresh node against the last child of [p] *)
Lemma ac_last st p zc n v : WF st -> cur st p = Some zc -> val st n = Some v ->
  add_consolidate st n (q_last_child st p) None =
  if cons st && last_text (z_kids zc) && is_text_val v then
    match frev (z_kids zc) with
    | FCons i _ _ _ => (remove_single_raw (with_store st (fset_val i (append_text_to (text_of v)) (store st))) n, true)
    | FNil => (st, false)
    end
  else (st, false).
Proof.
  intros W Hp Hv. unfold add_consolidate. destruct (cons st); cbn [negb andb]; [|reflexivity]. rewrite Hv.
  pose proof (last_child_view st p zc W Hp) as L. unfold last_text.
  destruct (frev (z_kids zc)) as [|i w k r].
  - destruct L as [-> _]. cbn [head_text andb]. destruct v; reflexivity.
  - destruct L as (_ & -> & Hw & _). cbn [head_text].
    destruct v as [| | s | | | |]; cbn [is_text_val andb]; try (rewrite andb_false_r; reflexivity).
    rewrite andb_true_r. destruct (is_normal w) eqn:En.
    + rewrite Hw. destruct w; cbn [is_text_val text_of]; reflexivity.
    + destruct w; try reflexivity. discriminate.
Qed.

Lemma fresh_setup st1 zc S0 n v : Good st1 -> top_clean zc -> store st1 = FCons n v FNil (fapp (plug zc) S0) ->
  cur st1 (z_slot zc) = Some zc /\ cur st1 n = Some (mkz n v FNil FNil FNil []) /\ ~ In n (ids (fapp (plug zc) S0))
  /\ n <> z_slot zc /\ NoDup (ids (fapp (plug zc) S0)) /\ val st1 n = Some v.
Proof.
  intros G1 Hc Hst. pose proof (Good_WF _ G1) as W1. pose proof (proj1 W1) as Hnd.
  assert (cur st1 (z_slot zc) = Some zc) as Hp
    by (apply (cur_of_view st1 zc (FCons n v FNil FNil) S0 W1 Hc); rewrite Hst; reflexivity).
  assert (cur st1 n = Some (mkz n v FNil FNil FNil [])) as Hn
    by (unfold cur; rewrite Hst; cbn [locate locate_in]; rewrite N.eqb_refl; reflexivity).
  rewrite Hst in Hnd. cbn [ids app] in Hnd. apply NoDup_cons_iff in Hnd as [Hni Hnd'].
  split; [exact Hp|]. split; [exact Hn|]. split; [exact Hni|]. split.
  - intros ->. apply Hni. rewrite ids_fapp. apply in_or_app. left. apply slot_in_plug.
  - split; [exact Hnd'|]. unfold val. rewrite Hn. reflexivity.
Qed.

(* m_append of a node that has just been created, to the node the replay appends to *)
Lemma m_append_fresh st1 zc S0 n v :
  Good st1 -> top_clean zc -> container (z_val zc) ->
  store st1 = FCons n v FNil (fapp (plug zc) S0) -> child_ok v = true ->
  exists st2 K2, m_append st1 (z_slot zc) n = (st2, MDone None)
   /\ Good st2 /\ store st2 = fapp (plug (with_kids zc K2)) S0 /\ cons st2 = cons st1
   /\ erase K2 = usnoc (cons st1) (erase (z_kids zc)) v UNil
   /\ (is_text_val v = false -> K2 = fapp (z_kids zc) (FCons n v FNil FNil)).
Proof.
  intros G1 Hc Hk Hst Hok. pose proof (Good_WF _ G1) as W1.
  destruct (fresh_setup _ _ _ _ _ G1 Hc Hst) as (Hp & Hn & Hni & Hnp & Hnd' & Hvn).
  set (p := z_slot zc) in *.
  pose proof (Ext_m_append st1 p n G1) as X. apply ext_good in X.
  assert (structure_check st1 (Some p) n = true) as Hsc.
  { destruct (q_ancestors_path _ _ _ Hp) as (l & Hl & _).
    apply (structure_check_container st1 p n (z_val zc) l v G1 Hl (val_of_cur _ _ _ Hp) Hk Hvn Hok Hnp).
    rewrite Hst in Hl. cbn [path_in] in Hl. apply N.eqb_neq in Hnp. rewrite Hnp in Hl.
    intros Hx. apply Hni. eapply path_in_incl; [exact Hl|exact Hx]. }
  pose proof (last_child_view st1 p zc W1 Hp) as L.
  assert (opt_eqb (q_raw_last_child st1 p) (Some n) = false) as Hlast.
  { destruct (frev (z_kids zc)) as [|i w k r].
    - destruct L as [_ ->]. reflexivity.
    - destruct L as (-> & _ & _ & Hin). cbn [opt_eqb]. apply N.eqb_neq. intros ->. apply Hni.
      rewrite ids_fapp. apply in_or_app. left. apply kid_in_plug. exact Hin. }
  unfold m_append. rewrite Hsc, Hlast. cbn [negb].
  destruct (q_prev_root st1 n _ Hn eq_refl) as [-> ->]. rewrite (proj1 (rc_none st1 None)). cbv zeta. rewrite (last_guard_off st1 p n Hlast).
  rewrite (ac_last st1 p zc n v W1 Hp Hvn).
  destruct (cons st1 && last_text (z_kids zc) && is_text_val v) eqn:Eb.
  - (* the text goes into the last child *)
    apply andb_true_iff in Eb as [Eb Etv]. apply andb_true_iff in Eb as [Econs Elt].
    destruct (text_value _ Etv) as [s ->]. unfold last_text in Elt.
    destruct (frev (z_kids zc)) as [|i w k r] eqn:Ef; [discriminate|]. cbn [head_text] in Elt.
    destruct (text_value _ Elt) as [t ->]. destruct L as (_ & _ & _ & Hin).
    eexists _, (fset_val i (append_text_to s) (z_kids zc)). split; [reflexivity|]. cbn [text_of] in *.
    unfold m_append in X. rewrite Hsc, Hlast in X. cbn [negb] in X.
    split.
    { revert X. destruct (q_prev_root st1 n _ Hn eq_refl) as [-> ->]. rewrite (proj1 (rc_none st1 None)). cbv zeta. rewrite (last_guard_off st1 p n Hlast).
      rewrite (ac_last st1 p zc n (VText s) W1 Hp Hvn). rewrite Econs. unfold last_text. rewrite Ef. cbn [head_text is_text_val andb fst text_of].
      exact (fun H => H). }
    split.
    { cbn [remove_single_raw free_slots with_store store]. rewrite Hst.
      assert (i <> n) as Hin'.
      { intros ->. apply Hni. rewrite ids_fapp. apply in_or_app. left. apply kid_in_plug. exact Hin. }
      cbn [fset_val]. apply N.eqb_neq in Hin'. rewrite N.eqb_sym, Hin'. cbn [fsplice]. rewrite N.eqb_refl. cbn [fapp].
      rewrite !fset_val_fact.
      exact (kid_view (a_val (append_text_to s)) i zc FNil S0 Hnd' Hc Hin). }
    split; [reflexivity|]. split.
    { rewrite Econs.
      symmetry. eapply usnoc_erase_merge; [apply (kids_nodup st1 p zc W1 Hp)|exact Ef]. }
    intros; discriminate.
  - (* the node becomes the last child *)
    eexists _, (fapp (z_kids zc) (FCons n v FNil FNil)). split; [reflexivity|].
    unfold m_append in X. rewrite Hsc, Hlast in X. cbn [negb] in X.
    split.
    { revert X. destruct (q_prev_root st1 n _ Hn eq_refl) as [-> ->]. rewrite (proj1 (rc_none st1 None)). cbv zeta. rewrite (last_guard_off st1 p n Hlast).
      rewrite (ac_last st1 p zc n v W1 Hp Hvn), Eb. cbn [fst]. exact (fun H => H). }
    unfold move. rewrite Hst. cbn [fcut]. rewrite N.eqb_refl. cbn [with_store store single cons].
    split.
    { apply (kids_view (fun k => fapp k (FCons n v FNil FNil)) zc FNil S0 Hnd' Hc). }
    split; [reflexivity|]. split; [|reflexivity].
    symmetry. apply usnoc_erase_append. exact Eb.
Qed.

(* ---------- the replay reads only the kind of each edge and the value of its node ---------- *)

Definition ev (e : edge) : bool * value := match e with EStart z => (true, z_val z) | EEnd z => (false, z_val z) end.

Fixpoint clone_evs (es : list (bool * value)) (st : xstate) (current : N) : option xstate :=
  match es with
  | [] => Some st
  | (true, v) :: es' =>
      if is_doc v then clone_evs es' st current else
      let '(st1, n) := new_node st v in
      match m_any_append st1 current n with
      | (st2, MDone _) => clone_evs es' st2 (if is_elem v then n else current)
      | _ => None
      end
  | (false, v) :: es' =>
      if is_elem v then
        match q_parent st current with
        | Some p => clone_evs es' st p
        | None => None
        end
      else clone_evs es' st current
  end.

Lemma clone_edges_evs es : forall st current, clone_edges es st current = clone_evs (map ev es) st current.
Proof.
  induction es as [|e es IH]; intros st current; [reflexivity|]. destruct e as [z|z]; cbn [map ev clone_edges clone_evs].
  - destruct (z_val z) eqn:Ev; cbn [is_doc is_elem value_type vtype_eqb]; try apply IH;
      destruct (new_node st _) as [st1 nn]; destruct (m_any_append st1 current nn) as [st2 [rr|ee|]]; try reflexivity; apply IH.
  - destruct (z_val z); cbn [is_elem value_type vtype_eqb]; try apply IH. destruct (q_parent st current); [apply IH|reflexivity].
Qed.

Fixpoint evs_forest (f : forest) : list (bool * value) :=
  match f with
  | FNil => []
  | FCons _ v k r => (true, v) :: evs_forest k ++ (false, v) :: evs_forest r
  end.

Lemma evs_edges_forest f : forall ups b, map ev (edges_forest ups b f) = evs_forest f.
Proof.
  induction f as [|i v k IHk r IHr]; intros ups b; cbn [edges_forest evs_forest map ev]; [reflexivity|].
  rewrite map_app. cbn [map ev mkz z_val]. rewrite IHk, IHr. reflexivity.
Qed.

Lemma evs_traverse z : map ev (all_traverse z) = evs_forest (FCons (z_slot z) (z_val z) (z_kids z) FNil).
Proof.
  unfold all_traverse, arena_traverse. cbn [map ev evs_forest]. rewrite map_app, evs_edges_forest. reflexivity.
Qed.

(* ---------- attribute and namespace nodes: insert_node of a fresh node ---------- *)

Lemma map_get_node_absent st k e key z : cur st e = Some z -> ~ In key (level_keys (cat_of k) (z_kids z)) ->
  map_get_node st k e key = None.
Proof.
  intros Hc Hno. unfold map_get_node. rewrite Hc.
  destruct (List.find _ (map_nodes k z)) as [c|] eqn:Ef; [|reflexivity]. exfalso. apply Hno.
  apply find_some in Ef as [Hin Hkey]. apply N.eqb_eq in Hkey. rewrite key_of_is in Hkey.
  assert (In c (arena_children z) /\ value_category (z_val c) = cat_of k) as [Ha Hcat].
  { destruct k; cbn [map_nodes cat_of] in *.
    - unfold attribute_nodes in Hin. apply take_while_in in Hin as [Hp Hin]. apply skip_while_in in Hin.
      split; [exact Hin|]. unfold is_cat, zcat in Hp. destruct (value_category (z_val c)); try discriminate; reflexivity.
    - unfold namespace_nodes in Hin. apply take_while_in in Hin as [Hp Hin].
      split; [exact Hin|]. unfold is_cat, zcat in Hp. destruct (value_category (z_val c)); try discriminate; reflexivity. }
  rewrite level_keys_filter. apply in_map_iff. exists (z_val c). split; [exact Hkey|].
  apply filter_In. split.
  - unfold arena_children in Ha. rewrite <- (zs_level_vals (z_kids z) (frame_of z :: z_ups z) FNil). apply in_map. exact Ha.
  - unfold v_is. rewrite Hcat. apply vcat_eqb_refl.
Qed.

Lemma insert_after_namespaces_end t K : (forall v, In v (level_vals K) -> value_category v = CNamespace) ->
  insert_after_namespaces t K = fapp K t.
Proof.
  induction K as [|i v k _ r IH]; intros H; cbn [insert_after_namespaces fapp]; [reflexivity|].
  rewrite (H v (or_introl eq_refl)). rewrite IH; [reflexivity|]. intros w Hw. apply H. right. exact Hw.
Qed.

Lemma insert_after_attributes_end t K : (forall v, In v (level_vals K) -> value_category v <> CNormal) ->
  insert_after_attributes t K = fapp K t.
Proof.
  induction K as [|i v k _ r IH]; intros H; cbn [insert_after_attributes fapp]; [reflexivity|].
  pose proof (H v (or_introl eq_refl)) as Hv. rewrite IH by (intros w Hw; apply H; right; exact Hw).
  destruct (value_category v); try reflexivity. congruence.
Qed.

Lemma is_type_elem st e v : val st e = Some v -> is_type st e TElement = is_elem v.
Proof. intros H. unfold is_type. rewrite H. destruct v; reflexivity. Qed.

Lemma map_insert_node_fresh st1 zc S0 n v k :
  Good st1 -> top_clean zc -> is_elem (z_val zc) = true ->
  store st1 = FCons n v FNil (fapp (plug zc) S0) -> value_category v = cat_of k ->
  ~ In (key_of v) (level_keys (cat_of k) (z_kids zc)) ->
  (forall w, In w (level_vals (z_kids zc)) -> (vrank w <= vrank v)%nat) ->
  exists st2, map_insert_node st1 k (z_slot zc) n = (st2, n)
   /\ Good st2 /\ store st2 = fapp (plug (with_kids zc (fapp (z_kids zc) (FCons n v FNil FNil)))) S0 /\ cons st2 = cons st1.
Proof.
  intros G1 Hc He Hst Hcat Hkey Hrank. pose proof (Good_WF _ G1) as W1.
  destruct (fresh_setup _ _ _ _ _ G1 Hc Hst) as (Hp & Hn & Hni & Hnp & Hnd' & Hvn).
  set (p := z_slot zc) in *.
  assert (Ext st1 (fst (map_insert_node st1 k p n))) as X.
  { apply Ext_map_insert_node; [exact G1|rewrite (is_type_elem _ _ _ (val_of_cur _ _ _ Hp)); exact He|].
    intros w Hw. rewrite Hvn in Hw. inversion Hw; subst. exact Hcat. }
  apply ext_good in X. revert X.
  unfold map_insert_node. rewrite Hvn. rewrite (map_get_node_absent st1 k p (key_of v) zc Hp Hkey). cbn [fst]. intros X.
  eexists. split; [reflexivity|]. split; [exact X|]. split; [|unfold map_attach; apply cons_move].
  unfold map_attach, move. rewrite Hst. cbn [fcut]. rewrite N.eqb_refl. cbn [with_store store single].
  pose proof (kids_view (map_insert_at k (FCons n v FNil FNil)) zc FNil S0 Hnd' Hc) as V. cbn [fapp] in V. fold p in V.
  rewrite V. f_equal. f_equal. f_equal.
  destruct k; cbn [map_insert_at cat_of] in *.
  - apply insert_after_attributes_end. intros w Hw Hn'. pose proof (Hrank w Hw) as Hr. unfold vrank in Hr. rewrite Hcat, Hn' in Hr. cbn in Hr. lia.
  - apply insert_after_namespaces_end. intros w Hw. pose proof (Hrank w Hw) as Hr. unfold vrank in Hr. rewrite Hcat in Hr. cbn in Hr.
    destruct (value_category w); cbn in Hr; try lia. reflexivity.
Qed.

(* ---------- what the replay needs of the source: the shape and key uniqueness every good store has ---------- *)

Definition keyc (v : value) (nsk atk : list N) : bool :=
  match value_category v with
  | CNamespace => negb (mem (key_of v) nsk)
  | CAttribute => negb (mem (key_of v) atk)
  | CNormal => true
  end.
Definition add_ns (v : value) (nsk : list N) : list N := match value_category v with CNamespace => key_of v :: nsk | _ => nsk end.
Definition add_at (v : value) (atk : list N) : list N := match value_category v with CAttribute => key_of v :: atk | _ => atk end.

(* [lo]: the rank the next node must at least have; [nsk], [atk]: the prefixes / attribute names already seen on this level *)
Fixpoint lvl_ok (lo : nat) (nsk atk : list N) (f : forest) : bool :=
  match f with
  | FNil => true
  | FCons _ v k r =>
      negb (is_doc v) && Nat.leb lo (vrank v)
      && (if is_elem v then lvl_ok 0 [] [] k else isnil k)
      && keyc v nsk atk
      && lvl_ok (vrank v) (add_ns v nsk) (add_at v atk) r
  end.

(* the children built so far are below [lo], and their keys are among [nsk] / [atk] *)
Definition DK (zc : zipper) (lo : nat) (nsk atk : list N) : Prop :=
  (forall w, In w (level_vals (z_kids zc)) -> (vrank w <= lo)%nat)
  /\ incl (level_keys CNamespace (z_kids zc)) nsk /\ incl (level_keys CAttribute (z_kids zc)) atk
  /\ (is_elem (z_val zc) = true \/ lo = 2%nat).

Lemma level_vals_fapp a b : level_vals (fapp a b) = level_vals a ++ level_vals b.
Proof. induction a as [|i v k _ r IH]; cbn; [reflexivity|]. rewrite IH. reflexivity. Qed.

Lemma level_keys_fset_val c i g K : (forall v, value_category (g v) = value_category v /\ key_of_node (g v) = key_of_node v) ->
  level_keys c (fset_val i g K) = level_keys c K.
Proof.
  intros Hg. induction K as [|j v k _ r IH]; cbn [fset_val level_keys]; [reflexivity|].
  destruct (N.eqb j i); cbn [level_keys].
  - destruct (Hg v) as [-> ->]. reflexivity.
  - rewrite IH. reflexivity.
Qed.

Lemma level_vals_fset_val_rank i g K : (forall v, vrank (g v) = vrank v) ->
  forall w, In w (level_vals (fset_val i g K)) -> exists w', In w' (level_vals K) /\ vrank w = vrank w'.
Proof.
  intros Hg. induction K as [|j v k _ r IH]; cbn [fset_val level_vals]; [intros w []|].
  destruct (N.eqb j i); cbn [level_vals]; intros w [<-|Hw].
  - exists v. split; [left; reflexivity|apply Hg].
  - exists w. split; [right; exact Hw|reflexivity].
  - exists v. split; [left; reflexivity|reflexivity].
  - destruct (IH w Hw) as (w' & H1 & H2). exists w'. split; [right; exact H1|exact H2].
Qed.

Fixpoint ukeys (c : vcat) (U : uforest) : list N :=
  match U with
  | UNil => []
  | UCons v _ r => if vcat_eqb (value_category v) c then key_of_node v :: ukeys c r else ukeys c r
  end.

Lemma level_keys_erase c K : level_keys c K = ukeys c (erase K).
Proof. induction K as [|i v k _ r IH]; cbn [level_keys erase ukeys]; [reflexivity|]. rewrite IH. reflexivity. Qed.

Lemma vcat_eqb_normal_ne c : c <> CNormal -> vcat_eqb CNormal c = false.
Proof. destruct c; try reflexivity. congruence. Qed.

Lemma ukeys_usnoc_normal b c U v k : is_normal v = true -> c <> CNormal -> ukeys c (usnoc b U v k) = ukeys c U.
Proof.
  intros Hn Hc. assert (value_category v = CNormal) as Hv by (destruct v; try discriminate; reflexivity).
  induction U as [|w kw _ r IH]; cbn [usnoc ukeys].
  - rewrite Hv, (vcat_eqb_normal_ne c Hc). reflexivity.
  - destruct r as [|w2 k2 r2].
    + destruct (b && is_text_val w && is_text_val v) eqn:Eb; cbn [ukeys].
      * apply andb_true_iff in Eb as [Eb _]. apply andb_true_iff in Eb as [_ Ew]. destruct w; try discriminate.
        cbn [append_text_to value_category]. rewrite (vcat_eqb_normal_ne c Hc). reflexivity.
      * rewrite Hv, (vcat_eqb_normal_ne c Hc). reflexivity.
    + cbn [ukeys] in *. rewrite IH. reflexivity.
Qed.

Lemma mem_false_not_in n l : mem n l = false -> ~ In n l.
Proof. intros H Hin. apply mem_true in Hin. congruence. Qed.

Lemma rank_cat v : vrank v = cat_rank (value_category v).
Proof. reflexivity. Qed.

(* one start edge: a new node, appended to the node the replay appends to *)
Lemma step_fresh st zc S0 lo nsk atk v st1 n :
  dst st zc S0 -> DK zc lo nsk atk -> new_node st v = (st1, n) ->
  is_doc v = false -> (lo <= vrank v)%nat -> keyc v nsk atk = true ->
  exists st2 K2 r, m_any_append st1 (z_slot zc) n = (st2, MDone r)
   /\ dst st2 (with_kids zc K2) S0 /\ cons st2 = cons st
   /\ DK (with_kids zc K2) (vrank v) (add_ns v nsk) (add_at v atk)
   /\ erase K2 = usnoc (cons st) (erase (z_kids zc)) v UNil
   /\ (is_text_val v = false -> K2 = fapp (z_kids zc) (FCons n v FNil FNil)).
Proof.
  intros D (Hr & Hns & Hat & Hel) Hn Hd Hlo Hkey.
  destruct (dst_after_new st zc S0 v st1 n D Hn) as (G1 & Hcons1 & Hst & Hni & Hp & Hvn & Hnp).
  destruct D as (G & Hc & E & Hk).
  unfold m_any_append. rewrite Hvn.
  assert (forall kk, value_category v = cat_of kk ->
     ~ In (key_of v) (level_keys (cat_of kk) (z_kids zc)) ->
     (cat_of kk = CNamespace -> add_ns v nsk = key_of v :: nsk /\ add_at v atk = atk) ->
     (cat_of kk = CAttribute -> add_ns v nsk = nsk /\ add_at v atk = key_of v :: atk) ->
     exists st2 K2 r, (if negb (is_type st1 (z_slot zc) TElement) then (st1, MErr EInvalidOperation)
                       else let '(st2, r) := map_insert_node st1 kk (z_slot zc) n in (st2, MDone (Some r))) = (st2, MDone r)
       /\ dst st2 (with_kids zc K2) S0 /\ cons st2 = cons st
       /\ DK (with_kids zc K2) (vrank v) (add_ns v nsk) (add_at v atk)
       /\ erase K2 = usnoc (cons st) (erase (z_kids zc)) v UNil
       /\ (is_text_val v = false -> K2 = fapp (z_kids zc) (FCons n v FNil FNil))) as Habn.
  { intros kk Hcat Hfresh Hadd1 Hadd2.
    assert (is_elem (z_val zc) = true) as He.
    { destruct Hel as [He|He]; [exact He|]. exfalso. rewrite He, rank_cat, Hcat in Hlo. destruct kk; cbn in Hlo; lia. }
    rewrite (is_type_elem _ _ _ (val_of_cur _ _ _ Hp)), He. cbn [negb].
    assert (forall w, In w (level_vals (z_kids zc)) -> (vrank w <= vrank v)%nat) as Hrank by (intros w Hw; specialize (Hr w Hw); lia).
    destruct (map_insert_node_fresh st1 zc S0 n v kk G1 Hc He Hst Hcat Hfresh Hrank) as (st2 & -> & G2 & Hst2 & Hcons2).
    assert (is_text_val v = false) as Hnt by (destruct v; try reflexivity; destruct kk; discriminate).
    exists st2, (fapp (z_kids zc) (FCons n v FNil FNil)), (Some n). split; [reflexivity|].
    split; [exact (conj G2 (conj Hc (conj Hst2 Hk)))|]. split; [congruence|]. split.
    - unfold DK. cbn [with_kids z_kids z_val]. split; [|split; [|split; [|left; exact He]]].
      + intros w Hw. rewrite level_vals_fapp in Hw. apply in_app_or in Hw as [Hw|[<-|[]]]; [apply Hrank; exact Hw|lia].
      + rewrite level_keys_fapp. cbn [level_keys]. destruct kk; cbn [cat_of] in *.
        * destruct (Hadd2 eq_refl) as [-> _]. rewrite Hcat. cbn [vcat_eqb]. rewrite app_nil_r. exact Hns.
        * destruct (Hadd1 eq_refl) as [-> _]. rewrite Hcat. cbn [vcat_eqb]. rewrite <- key_of_is.
          intros x Hx. apply in_app_or in Hx as [Hx|[<-|[]]]; [right; apply Hns; exact Hx|left; reflexivity].
      + rewrite level_keys_fapp. cbn [level_keys]. destruct kk; cbn [cat_of] in *.
        * destruct (Hadd2 eq_refl) as [_ ->]. rewrite Hcat. cbn [vcat_eqb]. rewrite <- key_of_is.
          intros x Hx. apply in_app_or in Hx as [Hx|[<-|[]]]; [right; apply Hat; exact Hx|left; reflexivity].
        * destruct (Hadd1 eq_refl) as [_ ->]. rewrite Hcat. cbn [vcat_eqb]. rewrite app_nil_r. exact Hat.
    - split; [|reflexivity]. symmetry. apply usnoc_erase_append. rewrite Hnt. apply andb_false_r. }
  assert (is_normal v = true ->
     exists st2 K2 r, (let '(st2, o) := m_append st1 (z_slot zc) n in
                       match o with MDone _ => (st2, MDone (Some n)) | _ => (st2, o) end) = (st2, MDone r)
       /\ dst st2 (with_kids zc K2) S0 /\ cons st2 = cons st
       /\ DK (with_kids zc K2) (vrank v) (add_ns v nsk) (add_at v atk)
       /\ erase K2 = usnoc (cons st) (erase (z_kids zc)) v UNil
       /\ (is_text_val v = false -> K2 = fapp (z_kids zc) (FCons n v FNil FNil))) as Hnorm.
  { intros Hnv. assert (child_ok v = true) as Hok by (unfold child_ok; rewrite Hnv, Hd; reflexivity).
    destruct (m_append_fresh st1 zc S0 n v G1 Hc Hk Hst Hok) as (st2 & K2 & -> & G2 & Hst2 & Hcons2 & Her & Hnt).
    exists st2, K2, (Some n). split; [reflexivity|]. split; [exact (conj G2 (conj Hc (conj Hst2 Hk)))|].
    split; [congruence|]. rewrite Hcons1 in Her. split; [|split; [exact Her|exact Hnt]].
    assert (value_category v = CNormal) as Hv by (destruct v; try discriminate; reflexivity).
    unfold DK, add_ns, add_at. rewrite Hv. cbn [with_kids z_kids z_val].
    split; [intros w _; rewrite (proj1 (vrank_normal v) Hnv); apply vrank_le2|].
    split; [|split].
    - rewrite level_keys_erase, Her, ukeys_usnoc_normal, <- level_keys_erase by (auto; discriminate). exact Hns.
    - rewrite level_keys_erase, Her, ukeys_usnoc_normal, <- level_keys_erase by (auto; discriminate). exact Hat.
    - destruct Hel as [He|_]; [left; exact He|right; apply vrank_normal; exact Hnv]. }
  unfold keyc in Hkey.
  destruct v as [|nm|s|t d|s|nm s|pf u]; try discriminate Hd; try (apply Hnorm; reflexivity).
  - apply (Habn KAttr eq_refl).
    + cbn [value_category] in Hkey. apply negb_true_iff in Hkey. intros Hx. apply (mem_false_not_in _ _ Hkey). apply Hat. exact Hx.
    + discriminate.
    + intros _. split; reflexivity.
  - apply (Habn KNs eq_refl).
    + cbn [value_category] in Hkey. apply negb_true_iff in Hkey. intros Hx. apply (mem_false_not_in _ _ Hkey). apply Hns. exact Hx.
    + intros _. split; reflexivity.
    + discriminate.
Qed.

(* ---------- the replay of a whole sibling list ---------- *)

Lemma erase_ucons_inv K v U : erase K = UCons v U UNil -> exists i k, K = FCons i v k FNil /\ erase k = U.
Proof.
  destruct K as [|i w k r]; cbn [erase]; [discriminate|]. intros H. inversion H; subst.
  destruct r; [|discriminate]. eauto.
Qed.

Lemma clone_level f : forall es st zc S0 lo nsk atk,
  dst st zc S0 -> DK zc lo nsk atk -> lvl_ok lo nsk atk f = true ->
  exists st' K', clone_evs (evs_forest f ++ es) st (z_slot zc) = clone_evs es st' (z_slot zc)
    /\ dst st' (with_kids zc K') S0 /\ cons st' = cons st /\ erase K' = ucopy (cons st) f (erase (z_kids zc)).
Proof.
  induction f as [|i v k IHk r IHr]; intros es st zc S0 lo nsk atk D HDK Hok.
  - exists st, (z_kids zc). cbn [evs_forest app ucopy]. split; [reflexivity|]. split; [|split; reflexivity].
    destruct zc; exact D.
  - cbn [lvl_ok] in Hok. apply andb_true_iff in Hok as [Hok Hr]. apply andb_true_iff in Hok as [Hok Hkey].
    apply andb_true_iff in Hok as [Hok Hkids]. apply andb_true_iff in Hok as [Hd Hlo].
    apply negb_true_iff in Hd. apply Nat.leb_le in Hlo.
    cbn [evs_forest]. rewrite <- app_comm_cons, <- app_assoc, <- app_comm_cons. cbn [clone_evs]. rewrite Hd.
    destruct (new_node st v) as [st1 n] eqn:Hn.
    destruct (step_fresh st zc S0 lo nsk atk v st1 n D HDK Hn Hd Hlo Hkey) as (st2 & K2 & rr & -> & D2 & Hcons2 & HDK2 & Her2 & Hnt).
    destruct (is_elem v) eqn:Hev.
    + (* an element: the replay goes into it and comes back *)
      assert (is_text_val v = false) as Hnt' by (destruct v; try discriminate; reflexivity).
      specialize (Hnt Hnt'). subst K2.
      set (zn := mkz n v FNil (frev (z_kids zc)) FNil (frame_of zc :: z_ups zc)).
      assert (forall Kn, plug (with_kids zn Kn) = plug (with_kids zc (fapp (z_kids zc) (FCons n v Kn FNil)))) as Hplug.
      { intros Kn. unfold plug, z_level. cbn [with_kids zn mkz z_ups z_before z_slot z_val z_kids z_after plug_ups frame_of fr_before fr_slot fr_val fr_after].
        rewrite frev_app_frev. reflexivity. }
      assert (dst st2 zn S0) as Dn.
      { destruct D2 as (G2 & Hc2 & E2 & _). split; [exact G2|]. split; [exact Hc2|]. split.
        - rewrite E2. rewrite <- (Hplug FNil). reflexivity.
        - left. exact Hev. }
      assert (DK zn 0 [] []) as HDKn.
      { unfold DK. cbn [zn mkz z_kids z_val level_vals level_keys]. split; [intros w []|]. split; [intros x []|]. split; [intros x []|]. left. exact Hev. }
      destruct (IHk ((false, v) :: evs_forest r ++ es) st2 zn S0 0%nat [] [] Dn HDKn Hkids) as (st3 & Kn & Hrun & D3 & Hcons3 & Her3).
      change (z_slot zn) with n in Hrun. rewrite Hrun. cbn [clone_evs]. rewrite Hev.
      assert (q_parent st3 n = Some (z_slot zc)) as Hpar.
      { unfold q_parent. rewrite (dst_cur _ _ _ D3 : cur st3 n = Some (with_kids zn Kn)). reflexivity. }
      rewrite Hpar.
      set (zc2 := with_kids zc (fapp (z_kids zc) (FCons n v Kn FNil))).
      assert (dst st3 zc2 S0) as D3'.
      { destruct D3 as (G3 & _ & E3 & _). destruct D2 as (_ & Hc2 & _ & Hk2). split; [exact G3|]. split; [exact Hc2|]. split; [|exact Hk2].
        rewrite E3, Hplug. reflexivity. }
      assert (DK zc2 (vrank v) (add_ns v nsk) (add_at v atk)) as HDK3.
      { destruct HDK2 as (H1 & H2 & H3 & H4). unfold DK in *. cbn [zc2 with_kids z_kids z_val] in *.
        rewrite !level_keys_fapp, level_vals_fapp in *. cbn [level_vals level_keys] in *. auto. }
      destruct (IHr es st3 zc2 S0 _ _ _ D3' HDK3 Hr) as (st4 & K4 & Hrun4 & D4 & Hcons4 & Her4).
      change (z_slot zc2) with (z_slot zc) in Hrun4. rewrite Hrun4.
      exists st4, K4. split; [reflexivity|]. split; [exact D4|]. split; [congruence|].
      rewrite Her4. cbn [zc2 with_kids z_kids ucopy]. rewrite Hcons3, Hcons2. f_equal.
      rewrite erase_fapp. cbn [erase]. rewrite Her3. cbn [zn mkz z_kids erase]. rewrite Hcons2.
      rewrite usnoc_plain; [reflexivity|]. rewrite Hnt'. apply andb_false_r.
    + (* any other node: it has no children *)
      assert (k = FNil) as -> by (destruct k; [reflexivity|discriminate]). cbn [evs_forest app clone_evs]. rewrite Hev.
      destruct (IHr es st2 (with_kids zc K2) S0 _ _ _ D2 HDK2 Hr) as (st4 & K4 & Hrun4 & D4 & Hcons4 & Her4).
      change (z_slot (with_kids zc K2)) with (z_slot zc) in Hrun4. rewrite Hrun4.
      exists st4, K4. split; [reflexivity|]. split; [exact D4|]. split; [congruence|].
      rewrite Her4. cbn [with_kids z_kids ucopy]. rewrite Hcons2, Her2. reflexivity.
Qed.

(* ---------- every level of a good store can be replayed ---------- *)

Lemma mem_not_in n l : ~ In n l -> mem n l = false.
Proof. intros H. destruct (mem n l) eqn:E; [|reflexivity]. apply mem_true in E. contradiction. Qed.

Lemma lvl_of_elem f : forall lo nsk atk, shape CElem lo f = true -> keys f = true ->
  NoDup (nsk ++ level_keys CNamespace f) -> NoDup (atk ++ level_keys CAttribute f) -> lvl_ok lo nsk atk f = true.
Proof.
  induction f as [|i v k IHk r IHr]; intros lo nsk atk Hs Hk Hn Ha; [reflexivity|].
  rewrite shape_cons in Hs. apply andb_true_iff in Hs as [Hs Hsr]. apply andb_true_iff in Hs as [Hnode Hkids].
  rewrite keys_cons in Hk. apply andb_true_iff in Hk as [Hk Hkr]. apply andb_true_iff in Hk as [Hlk Hkk].
  cbn [node_ok] in Hnode. apply andb_true_iff in Hnode as [Hd Hlo]. cbn [next_lo] in Hsr.
  cbn [lvl_ok]. rewrite Hd, Hlo. cbn [andb].
  assert ((if is_elem v then lvl_ok 0 [] [] k else isnil k) = true) as ->.
  { unfold level_ok in Hlk. apply andb_true_iff in Hlk as [L1 L2]. apply nodupb_spec in L1, L2.
    destruct v; cbn [is_elem is_doc negb] in *; try discriminate; try exact Hkids.
    apply IHk; assumption. }
  cbn [andb]. cbn [level_keys] in Hn, Ha. unfold keyc, add_ns, add_at. rewrite !key_of_is.
  destruct (value_category v) eqn:Ec; cbn [vcat_eqb] in Hn, Ha; cbn [andb].
  - apply IHr; assumption.
  - rewrite (mem_not_in _ atk (fun H => NoDup_remove_2 _ _ _ Ha (in_or_app _ _ _ (or_introl H)))). cbn [negb andb]. apply IHr; try assumption.
    eapply Permutation_NoDup; [|exact Ha]. symmetry. apply Permutation_middle.
  - rewrite (mem_not_in _ nsk (fun H => NoDup_remove_2 _ _ _ Hn (in_or_app _ _ _ (or_introl H)))). cbn [negb andb]. apply IHr; try assumption.
    eapply Permutation_NoDup; [|exact Hn]. symmetry. apply Permutation_middle.
Qed.

Lemma lvl_of_doc f : forall lo nsk atk, shape CDoc lo f = true -> keys f = true -> lvl_ok 2 nsk atk f = true.
Proof.
  induction f as [|i v k _ r IHr]; intros lo nsk atk Hs Hk; [reflexivity|].
  rewrite shape_cons in Hs. apply andb_true_iff in Hs as [Hs Hsr]. apply andb_true_iff in Hs as [Hnode Hkids].
  rewrite keys_cons in Hk. apply andb_true_iff in Hk as [Hk Hkr]. apply andb_true_iff in Hk as [Hlk Hkk].
  cbn [node_ok] in Hnode. apply andb_true_iff in Hnode as [Hnv Hd]. cbn [next_lo] in Hsr.
  assert (value_category v = CNormal) as Hv by (destruct v; try discriminate; reflexivity).
  assert (vrank v = 2%nat) as Hr2 by (apply vrank_normal; exact Hnv).
  cbn [lvl_ok]. unfold keyc, add_ns, add_at. rewrite Hd, Hv, Hr2. cbn [andb Nat.leb].
  rewrite (IHr _ nsk atk Hsr Hkr). rewrite !andb_true_r.
  unfold level_ok in Hlk. apply andb_true_iff in Hlk as [L1 L2]. apply nodupb_spec in L1, L2.
  destruct v; cbn [is_elem is_doc negb] in *; try discriminate; try exact Hkids.
  apply lvl_of_elem; assumption.
Qed.

Lemma lvl_of_good st n z : Good st -> cur st n = Some z ->
  (is_elem (z_val z) = true -> lvl_ok 0 [] [] (z_kids z) = true)
  /\ (is_doc (z_val z) = true -> lvl_ok 2 [] [] (z_kids z) = true).
Proof.
  intros G Hc. pose proof (find_of_cur _ _ _ Hc) as F.
  pose proof (shape_find _ _ _ _ _ _ (Good_shape _ G) F) as Hs.
  pose proof (keys_find _ _ _ _ (Good_keys _ G) F) as Hk. unfold keys_tree in Hk. apply andb_true_iff in Hk as [Hlk Hk].
  unfold level_ok in Hlk. apply andb_true_iff in Hlk as [L1 L2]. apply nodupb_spec in L1, L2.
  split; intros Hv; destruct (z_val z); try discriminate; cbn [kids_ok] in Hs.
  - apply lvl_of_elem; assumption.
  - eapply lvl_of_doc; eassumption.
Qed.

(* ---------- clone_node ---------- *)

Lemma dst_new_top st v st1 top : Good st -> new_node st v = (st1, top) -> container v ->
  dst st1 (mkz top v FNil FNil FNil []) (store st) /\ cons st1 = cons st.
Proof.
  intros G Hn Hk. destruct (Ext_new_node _ _ _ _ G Hn) as (X & _ & Hst & Hcons). split; [|exact Hcons].
  split; [exact (ext_good _ _ X)|]. split; [reflexivity|]. split; [exact Hst|exact Hk].
Qed.

Theorem clone_shape st n z : Good st -> cur st n = Some z ->
  exists st' c K, m_clone st n = (st', MDone (Some c)) /\ Good st' /\ cons st' = cons st
    /\ store st' = FCons c (z_val z) K (store st) /\ erase K = ucopy (cons st) (z_kids z) UNil.
Proof.
  intros G Hc. pose proof (Ext_m_clone st n G) as X. apply ext_good in X. revert X.
  unfold m_clone. rewrite Hc.
  pose proof (find_of_cur _ _ _ Hc) as F. pose proof (shape_find _ _ _ _ _ _ (Good_shape _ G) F) as Hs.
  destruct (lvl_of_good st n z G Hc) as [Lel Ldoc].
  assert (forall v, z_val z = v -> is_elem v = false -> is_doc v = false ->
    forall st1 c, new_node st v = (st1, c) -> Good st1 ->
    exists st' c' K, (st1, MDone (Some c)) = (st', MDone (Some c')) /\ Good st' /\ cons st' = cons st
      /\ store st' = FCons c' v K (store st) /\ erase K = ucopy (cons st) (z_kids z) UNil) as Hleaf.
  { intros v Ev He Hd st1 c Hn G1. destruct (Ext_new_node _ _ _ _ G Hn) as (_ & _ & Hst & Hcons).
    exists st1, c, FNil. split; [reflexivity|]. split; [exact G1|]. split; [exact Hcons|]. split; [exact Hst|].
    rewrite Ev in Hs. assert (z_kids z = FNil) as -> by (destruct v; try discriminate; destruct (z_kids z); try reflexivity; discriminate).
    reflexivity. }
  destruct (z_val z) as [|name|s|t d|s|nm s|pf u] eqn:Ev;
    try (destruct (new_node st _) as [st1 c] eqn:Hn; intros X; eapply Hleaf; eauto; fail).
  - (* a document *)
    destruct (new_node st VDocument) as [st1 top] eqn:Hn.
    destruct (dst_new_top st VDocument st1 top G Hn (or_intror eq_refl)) as [D Hcons1].
    rewrite clone_edges_evs, evs_traverse, Ev. cbn [evs_forest clone_evs is_doc app].
    assert (DK (mkz top VDocument FNil FNil FNil []) 2 [] []) as HDK.
    { unfold DK. cbn. split; [intros w []|]. split; [intros x []|]. split; [intros x []|]. right. reflexivity. }
    destruct (clone_level (z_kids z) [(false, VDocument)] st1 _ (store st) 2%nat [] [] D HDK (Ldoc eq_refl)) as (st' & K' & Hrun & D' & Hcons' & Her).
    cbn [z_slot mkz] in Hrun. rewrite Hrun. cbn [clone_evs is_elem]. intros X.
    exists st', top, K'. split; [reflexivity|]. split; [exact X|]. split; [congruence|].
    destruct D' as (_ & _ & E' & _). split; [exact E'|]. rewrite Her, Hcons1. reflexivity.
  - (* an element: built under a temporary element, which is then taken away *)
    destruct (new_node st (VElement name)) as [st1 top] eqn:Hn.
    destruct (dst_new_top st (VElement name) st1 top G Hn (or_introl eq_refl)) as [D Hcons1].
    rewrite clone_edges_evs, evs_traverse, Ev.
    assert (DK (mkz top (VElement name) FNil FNil FNil []) 0 [] []) as HDK.
    { unfold DK. cbn. split; [intros w []|]. split; [intros x []|]. split; [intros x []|]. left. reflexivity. }
    assert (lvl_ok 0 [] [] (FCons (z_slot z) (VElement name) (z_kids z) FNil) = true) as Hok.
    { cbn [lvl_ok is_doc is_elem negb Nat.leb andb]. rewrite (Lel eq_refl). reflexivity. }
    destruct (clone_level _ [] st1 _ (store st) 0%nat [] [] D HDK Hok) as (st' & K' & Hrun & D' & Hcons' & Her).
    cbn [z_slot mkz] in Hrun. rewrite app_nil_r in Hrun. rewrite Hrun. cbn [clone_evs].
    cbn [ucopy mkz z_kids erase usnoc] in Her.
    destruct (erase_ucons_inv _ _ _ Her) as (c0 & Kc & -> & Hkc).
    assert (q_first_child st' top = Some c0) as ->.
    { unfold q_first_child. rewrite (dst_cur _ _ _ D' : cur st' top = Some _). reflexivity. }
    intros X. exists (remove_single_raw st' top), c0, Kc. split; [reflexivity|]. split; [exact X|]. split; [cbn; congruence|].
    destruct D' as (_ & _ & E' & _). split; [|rewrite Hkc, Hcons1; reflexivity].
    cbn [remove_single_raw free_slots with_store store]. rewrite E'. cbn. rewrite N.eqb_refl. reflexivity.
Qed.

(* ---------- when the specification is the identity ---------- *)

Lemma uapp_assoc a b c : uapp (uapp a b) c = uapp a (uapp b c).
Proof. induction a as [|v k _ r IH]; cbn [uapp]; [reflexivity|]. rewrite IH. reflexivity. Qed.

Lemma uapp_nil_r a : uapp a UNil = a.
Proof. induction a as [|v k _ r IH]; cbn [uapp]; [reflexivity|]. rewrite IH. reflexivity. Qed.

Lemma ulast_text_snoc K v x : ulast_text (uapp K (UCons v x UNil)) = is_text_val v.
Proof.
  induction K as [|w kw _ r IH]; [reflexivity|]. cbn [uapp ulast_text]. destruct r as [|w2 k2 r2]; [reflexivity|].
  cbn [uapp] in *. exact IH.
Qed.

(* consolidation off: the copy is the source, slots forgotten *)
Lemma ucopy_off f : forall K, ucopy false f K = uapp K (erase f).
Proof.
  induction f as [|i v k IHk r IHr]; intros K; cbn [ucopy erase]; [symmetry; apply uapp_nil_r|].
  rewrite IHr, IHk, usnoc_plain by reflexivity. cbn [uapp]. rewrite uapp_assoc. reflexivity.
Qed.

(* consolidation on, and no two text nodes adjacent in the source: again the source itself *)
Lemma ucopy_on f : forall K, na_list f = true -> na f = true -> ulast_text K && head_text f = false ->
  ucopy true f K = uapp K (erase f).
Proof.
  induction f as [|i v k IHk r IHr]; intros K Hl Hn Hj; cbn [ucopy erase]; [symmetry; apply uapp_nil_r|].
  cbn [na_list na head_text] in *. apply andb_true_iff in Hl as [Hl1 Hl2]. apply andb_true_iff in Hn as [Hn Hn3]. apply andb_true_iff in Hn as [Hn1 Hn2].
  apply negb_true_iff in Hl1.
  rewrite (IHk UNil Hn1 Hn2 eq_refl). cbn [uapp].
  rewrite usnoc_plain by (cbn [andb]; exact Hj).
  rewrite IHr; [|exact Hl2|exact Hn3|rewrite ulast_text_snoc; exact Hl1].
  rewrite uapp_assoc. reflexivity.
Qed.

Theorem clone_exact st n z : Good st -> cur st n = Some z -> (cons st = false \/ noadj st) ->
  exists st' c K, m_clone st n = (st', MDone (Some c)) /\ Good st' /\ cons st' = cons st
    /\ store st' = FCons c (z_val z) K (store st) /\ erase K = erase (z_kids z).
Proof.
  intros G Hc Hcase. destruct (clone_shape st n z G Hc) as (st' & c & K & Hm & G' & Hcons & Hst & Her).
  exists st', c, K. split; [exact Hm|]. split; [exact G'|]. split; [exact Hcons|]. split; [exact Hst|].
  rewrite Her. destruct (cons st) eqn:Ec.
  - destruct Hcase as [?|Hna]; [discriminate|].
    destruct (zview _ _ _ Hc) as [_ (A & B & E)].
    destruct (na_parts st z A B E Hna) as (_ & _ & _ & _ & _ & Hk1 & Hk2 & _).
    apply (ucopy_on (z_kids z) UNil Hk1 Hk2 eq_refl).
  - apply (ucopy_off (z_kids z) UNil).
Qed.

(* the copy is made of nodes the store did not have *)
Corollary clone_new_nodes st st' c v K : Good st' -> store st' = FCons c v K (store st) ->
  forall x, In x (c :: ids K) -> ~ In x (ids (store st)).
Proof.
  intros G' Hst x Hx Hin. pose proof (Good_nodup _ G') as Hnd. rewrite Hst in Hnd. cbn [ids] in Hnd.
  change (c :: ids K ++ ids (store st)) with ((c :: ids K) ++ ids (store st)) in Hnd.
  eapply NoDup_app_not_in; [exact Hnd|exact Hx|exact Hin].
Qed.

(* clone_node of a live node reaches none of its unwraps *)
Corollary clone_no_panic st n : Good st -> cur st n <> None -> snd (m_clone st n) <> MPanic.
Proof.
  intros G Hc. destruct (cur st n) as [z|] eqn:E; [|congruence].
  destruct (clone_shape st n z G E) as (st' & c & K & -> & _). discriminate.
Qed.

Theorem no_panic st o : Good st -> snd (mstep st o) = MPanic ->
  (exists n, o = OCloneNode n /\ cur st n = None) \/ (exists e, element_only o = Some e /\ is_type st e TElement = false).
Proof.
  intros G H. destruct (no_panic_partial st o G H) as [(n & ->)|R]; [|right; exact R].
  left. exists n. split; [reflexivity|]. cbn [mstep] in H.
  destruct (cur st n) eqn:E; [|reflexivity]. exfalso. apply (clone_no_panic st n G); [rewrite E; discriminate|exact H].
Qed.
