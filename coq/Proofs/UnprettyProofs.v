(* UnprettyProofs.v — theorems about Model/Unpretty.v (C18). *)
From Coq Require Import List NArith Bool Lia Permutation.
From XotV Require Import Model.Base Model.Zipper Model.Access Model.Store Model.Unpretty Spec.DocOrder Proofs.StoreProofs Proofs.AccessProofs.
Import ListNotations.
Open Scope N_scope.

(* order-preserving sub-list *)
Inductive sublist {A} : list A -> list A -> Prop :=
| sub_nil : sublist [] []
| sub_skip x l1 l2 : sublist l1 l2 -> sublist l1 (x :: l2)
| sub_keep x l1 l2 : sublist l1 l2 -> sublist (x :: l1) (x :: l2).

Lemma sublist_refl {A} (l : list A) : sublist l l.
Proof. induction l; constructor; assumption. Qed.

Lemma sublist_nil {A} (l : list A) : sublist [] l.
Proof. induction l; constructor; assumption. Qed.

Lemma sublist_app {A} (a a' b b' : list A) : sublist a a' -> sublist b b' -> sublist (a ++ b) (a' ++ b').
Proof. induction 1; cbn; intros Hb; [exact Hb|apply sub_skip; auto|apply sub_keep; auto]. Qed.

Section P.
  Variable space : nameid.

  (* the removed nodes with their values, in document order *)
  Fixpoint stripped_nodes (preserve sig : bool) (f : forest) : list node :=
    match f with
    | FNil => []
    | FCons i v k r =>
        if insignificant preserve sig v then (i, v) :: nodes k ++ stripped_nodes preserve sig r
        else stripped_nodes (space_below space preserve k) (level_sig k) k ++ stripped_nodes preserve sig r
    end.

  Lemma stripped_map p s f : stripped space p s f = map fst (stripped_nodes p s f).
  Proof.
    revert p s. induction f as [|i v k IHk r IHr]; intros p s; cbn [stripped stripped_nodes]; [reflexivity|].
    destruct (insignificant p s v); cbn [map].
    - rewrite map_app, IHr, ids_nodes. reflexivity.
    - rewrite map_app, IHk, IHr. reflexivity.
  Qed.

  Lemma insignificant_ws p s v : insignificant p s v = true -> p = false /\ s = false /\ ws_text v = true.
  Proof.
    unfold insignificant. intros H. apply andb_true_iff in H as [H H3]. apply andb_true_iff in H as [H1 H2].
    destruct p, s; try discriminate. auto.
  Qed.

  Lemma insignificant_not_sig p s v : insignificant p s v = true -> significant_text v = false.
  Proof.
    intros H. apply insignificant_ws in H as (_ & _ & H). destruct v; cbn in *; try reflexivity. rewrite H. reflexivity.
  Qed.

  (* nothing is created or altered, order is kept: the nodes afterwards are an order-preserving sub-list of the nodes before *)
  Lemma strip_sublist p s f : sublist (nodes (strip space p s f)) (nodes f).
  Proof.
    revert p s. induction f as [|i v k IHk r IHr]; intros p s; cbn [strip nodes]; [constructor|].
    destruct (insignificant p s v).
    - apply sub_skip. change (nodes (strip space p s r)) with ([] ++ nodes (strip space p s r)).
      apply sublist_app; [apply sublist_nil|apply IHr].
    - cbn [nodes]. apply sub_keep. apply sublist_app; [apply IHk|apply IHr].
  Qed.

  (* and what is missing is exactly the removed nodes *)
  Lemma strip_partition p s f : Permutation (nodes f) (nodes (strip space p s f) ++ stripped_nodes p s f).
  Proof.
    revert p s. induction f as [|i v k IHk r IHr]; intros p s; cbn [strip nodes stripped_nodes]; [constructor|].
    destruct (insignificant p s v).
    - apply Permutation_cons_app.
      eapply Permutation_trans; [apply Permutation_app_head; apply IHr|].
      apply Permutation_app_swap_app.
    - cbn [nodes app]. apply perm_skip.
      eapply Permutation_trans; [apply Permutation_app; [apply IHk|apply IHr]|].
      rewrite <- !app_assoc. apply Permutation_app_head.
      rewrite !app_assoc. apply Permutation_app_tail. apply Permutation_app_comm.
  Qed.

  (* ---------- which nodes are removed: the declarative reading of the property ---------- *)

  (* [removable preserve f n]: [n] is the root of a removed subtree in the sibling list [f] (or below it), where the nearest
     xml:space decision above [f] is [preserve] *)
  Inductive removable : bool -> forest -> N -> Prop :=
  | rm_here f i v k :
      In (i, v, k) (roots f) -> ws_text v = true -> level_sig f = false -> removable false f i
  | rm_below preserve f i v k n :
      In (i, v, k) (roots f) -> insignificant preserve (level_sig f) v = false ->
      removable (space_below space preserve k) k n -> removable preserve f n.

  (* roots of the removed subtrees *)
  Fixpoint stripped_roots (preserve sig : bool) (f : forest) : list N :=
    match f with
    | FNil => []
    | FCons i v k r =>
        if insignificant preserve sig v then i :: stripped_roots preserve sig r
        else stripped_roots (space_below space preserve k) (level_sig k) k ++ stripped_roots preserve sig r
    end.

  Lemma stripped_roots_iff_gen f : forall p s n,
    In n (stripped_roots p s f) <->
    exists i v k, In (i, v, k) (roots f)
                  /\ ((n = i /\ insignificant p s v = true)
                      \/ (insignificant p s v = false /\ In n (stripped_roots (space_below space p k) (level_sig k) k))).
  Proof.
    induction f as [|i v k IHk r IHr]; intros p s n; cbn [stripped_roots roots].
    - split; [intros []|intros (i & v & k & [] & _)].
    - destruct (insignificant p s v) eqn:E.
      + split.
        * intros [H|H]; [exists i, v, k; split; [left; reflexivity|left; auto]|].
          apply IHr in H as (i' & v' & k' & Hin & H). exists i', v', k'. split; [right; exact Hin|exact H].
        * intros (i' & v' & k' & [Heq|Hin] & H).
          -- inversion Heq; subst. destruct H as [[H _]|[H _]]; [left; auto|rewrite E in H; discriminate].
          -- right. apply IHr. exists i', v', k'. auto.
      + rewrite in_app_iff. split.
        * intros [H|H]; [exists i, v, k; split; [left; reflexivity|right; auto]|].
          apply IHr in H as (i' & v' & k' & Hin & H). exists i', v', k'. split; [right; exact Hin|exact H].
        * intros (i' & v' & k' & [Heq|Hin] & H).
          -- inversion Heq; subst. destruct H as [[_ H]|[_ H]]; [rewrite E in H; discriminate|left; exact H].
          -- right. apply IHr. exists i', v', k'. auto.
  Qed.

  Lemma stripped_roots_sound f : forall p n, In n (stripped_roots p (level_sig f) f) -> removable p f n.
  Proof.
    induction f as [f IHr] using (well_founded_induction (well_founded_ltof _ fsize)).
    intros p n H. apply stripped_roots_iff_gen in H as (i' & v' & k' & Hin & [[-> Hi]|[Hi Hb]]).
    - apply insignificant_ws in Hi as (-> & Hs & Hw). eapply rm_here; eauto.
    - eapply rm_below; eauto. apply IHr; [|exact Hb].
      unfold ltof. clear - Hin. induction f as [|j w kk _ rr IH]; cbn in *; [contradiction|].
      destruct Hin as [Heq|Hin]; [inversion Heq; subst; lia|specialize (IH Hin); lia].
  Qed.

  Lemma stripped_roots_complete p f n : removable p f n -> In n (stripped_roots p (level_sig f) f).
  Proof.
    induction 1 as [f i v k Hin Hw Hs | preserve f i v k n Hin Hi _ IH].
    - apply stripped_roots_iff_gen. exists i, v, k. split; [exact Hin|left]. split; [reflexivity|].
      unfold insignificant. rewrite Hs, Hw. reflexivity.
    - apply stripped_roots_iff_gen. exists i, v, k. split; [exact Hin|right]. split; [exact Hi|exact IH].
  Qed.

  Theorem stripped_roots_spec p f n : In n (stripped_roots p (level_sig f) f) <-> removable p f n.
  Proof. split; [apply stripped_roots_sound|apply stripped_roots_complete]. Qed.

  (* the freed slots are the removed roots with their subtrees *)
  Lemma stripped_roots_in p s f n : In n (stripped_roots p s f) -> In n (stripped space p s f).
  Proof.
    revert p s. induction f as [|i v k IHk r IHr]; intros p s; cbn [stripped stripped_roots]; [auto|].
    destruct (insignificant p s v).
    - intros [H|H]; [left; exact H|right; apply in_or_app; right; apply IHr; exact H].
    - rewrite !in_app_iff. intros [H|H]; [left; apply IHk; exact H|right; apply IHr; exact H].
  Qed.

  (* ---------- a second call changes nothing ---------- *)

  Lemma level_sig_strip p s f : level_sig (strip space p s f) = level_sig f.
  Proof.
    induction f as [|i v k _ r IHr]; cbn [strip level_sig]; [reflexivity|].
    destruct (insignificant p s v) eqn:E.
    - rewrite IHr, (insignificant_not_sig _ _ _ E). reflexivity.
    - cbn [level_sig]. rewrite IHr. reflexivity.
  Qed.

  (* the result is still an ordered tree *)
  Lemma strip_ordered f : forall lo p s, ordered_from lo f = true -> ordered_from lo (strip space p s f) = true.
  Proof.
    induction f as [|i v k IHk r IHr]; intros lo p s H; cbn [strip]; [reflexivity|].
    cbn [ordered_from] in H. apply andb_true_iff in H as [H Hr]. apply andb_true_iff in H as [Hlo Hk].
    destruct (insignificant p s v) eqn:E.
    - apply insignificant_ws in E as (_ & _ & E). destruct v; cbn in E; try discriminate.
      cbn [value_category cat_rank] in *. apply IHr.
      eapply ordered_from_weaken; [|exact Hr]. apply PeanoNat.Nat.leb_le in Hlo. exact Hlo.
    - cbn [ordered_from]. rewrite Hlo, (IHr _ _ _ Hr), andb_true_r. cbn.
      destruct (value_category v); [apply IHk; exact Hk|destruct k; [reflexivity|discriminate]..].
  Qed.

  Lemma strip_ordered_2 p s f : ordered_from 2 f = true -> ordered_from 2 (strip space p s f) = true.
  Proof. apply strip_ordered. Qed.

  Lemma find_attr_normals name p s f : ordered_from 2 f = true -> find_attr name (skip_ns (strip space p s f)) = None.
  Proof.
    induction f as [|i v k _ r IHr]; cbn [strip ordered_from]; [reflexivity|].
    intros H. apply andb_true_iff in H as [H Hr]. apply andb_true_iff in H as [Hc _].
    destruct (value_category v) eqn:Ec; cbn in Hc; try discriminate.
    destruct (insignificant p s v); [apply IHr; exact Hr|].
    destruct v; cbn in Ec; try discriminate; reflexivity.
  Qed.

  Lemma insig_text p s v : insignificant p s v = true -> exists t, v = VText t.
  Proof. intros E. apply insignificant_ws in E as (_ & _ & E). destruct v; cbn in E; try discriminate. eauto. Qed.

  Lemma find_attr_normal_head name f : find_attr name (skip_ns f) = None -> ordered_from 2 f = true -> find_attr name f = None.
  Proof.
    destruct f as [|i v k r]; [reflexivity|]. cbn [ordered_from]. intros H Ho.
    apply andb_true_iff in Ho as [Ho _]. apply andb_true_iff in Ho as [Hc _].
    destruct v; cbn in Hc; try discriminate; reflexivity.
  Qed.

  Lemma find_attr_strip_attrs name p s f : ordered_from 1 f = true -> find_attr name (strip space p s f) = find_attr name f.
  Proof.
    induction f as [|i v k _ r IHr]; cbn [strip ordered_from]; [reflexivity|].
    intros H. apply andb_true_iff in H as [H Hr]. apply andb_true_iff in H as [Hc _].
    destruct (insignificant p s v) eqn:E.
    - destruct (insig_text _ _ _ E) as [t ->]. cbn [value_category cat_rank] in Hr. cbn [find_attr].
      apply find_attr_normal_head; [apply find_attr_normals; exact Hr|].
      eapply strip_ordered_2; exact Hr.
    - destruct v; cbn in Hc; try discriminate; cbn [value_category cat_rank] in Hr; cbn [find_attr]; try reflexivity.
      destruct (N.eqb n name); [reflexivity|]. apply IHr. exact Hr.
  Qed.

  Lemma own_space_strip lo p s f : ordered_from lo f = true -> own_space space (strip space p s f) = own_space space f.
  Proof.
    unfold own_space. revert lo. induction f as [|i v k _ r IHr]; intros lo; cbn [strip ordered_from]; [reflexivity|].
    intros H. apply andb_true_iff in H as [H Hr]. apply andb_true_iff in H as [_ Hk].
    destruct (insignificant p s v) eqn:E.
    - destruct (insig_text _ _ _ E) as [t ->]. cbn [value_category cat_rank] in Hr. cbn [skip_ns find_attr].
      rewrite (find_attr_normals space p s r Hr). reflexivity.
    - destruct v; cbn [value_category cat_rank] in Hr; cbn [skip_ns find_attr]; try reflexivity.
      + destruct (N.eqb n space); [reflexivity|]. rewrite (find_attr_strip_attrs space p s r Hr). reflexivity.
      + eapply IHr. exact Hr.
  Qed.

  Lemma strip_idem_gen f : forall lo p s, ordered_from lo f = true -> strip space p s (strip space p s f) = strip space p s f.
  Proof.
    induction f as [|i v k IHk r IHr]; intros lo p s H; cbn [strip]; [reflexivity|].
    cbn [ordered_from] in H. apply andb_true_iff in H as [H Hr]. apply andb_true_iff in H as [_ Hk].
    destruct (insignificant p s v) eqn:E; [eapply IHr; exact Hr|].
    cbn [strip]. rewrite E. f_equal; [|eapply IHr; exact Hr].
    destruct (value_category v) eqn:Ec.
    - unfold space_below. rewrite (own_space_strip 0 _ _ _ Hk), level_sig_strip. eapply IHk. exact Hk.
    - destruct k; [reflexivity|discriminate].
    - destruct k; [reflexivity|discriminate].
  Qed.

  Theorem strip_idempotent p f : ordered f = true ->
    strip space p (level_sig (strip space p (level_sig f) f)) (strip space p (level_sig f) f) = strip space p (level_sig f) f.
  Proof. intros H. rewrite level_sig_strip. eapply strip_idem_gen. exact H. Qed.

  Lemma stripped_strip_gen f : forall lo p s, ordered_from lo f = true -> stripped space p s (strip space p s f) = [].
  Proof.
    induction f as [|i v k IHk r IHr]; intros lo p s H; cbn [strip]; [reflexivity|].
    cbn [ordered_from] in H. apply andb_true_iff in H as [H Hr]. apply andb_true_iff in H as [_ Hk].
    destruct (insignificant p s v) eqn:E; [eapply IHr; exact Hr|].
    cbn [stripped]. rewrite E. rewrite (IHr _ _ _ Hr), app_nil_r.
    destruct (value_category v) eqn:Ec.
    - unfold space_below. rewrite (own_space_strip 0 _ _ _ Hk), level_sig_strip. eapply IHk. exact Hk.
    - destruct k; [reflexivity|discriminate].
    - destruct k; [reflexivity|discriminate].
  Qed.

  (* a second call removes nothing *)
  Theorem second_call_removes_nothing p f : ordered f = true ->
    stripped space p (level_sig (strip space p (level_sig f) f)) (strip space p (level_sig f) f) = [].
  Proof. intros H. rewrite level_sig_strip. eapply stripped_strip_gen. exact H. Qed.

End P.
