(* ScopeProofs.v — the scope queries of Model/Scope.v against "the nearest declaration of a prefix wins":
   the declarations of the ancestor-or-self chain, nearest first, followed by the built-in xml binding, form one
   list; the binding of a prefix is its FIRST declaration in that list. *)
From Coq Require Import List NArith Bool Lia.
From XotV Require Import Model.Base Model.Zipper Model.Access Model.Fullname Model.Scope.
Import ListNotations.
Open Scope N_scope.

Section Scope.
  Variables (empty_prefix xml_prefix : prefixid) (no_ns xml_ns : nsid).
  Variable ns_of_name : nameid -> nsid.

  Notation base := (base_prefixes xml_prefix xml_ns).

  (* all declarations in force order: nearest element first, the built-in binding last *)
  Definition chain (z : zipper) : decls := concat (map declarations (ancestors z)) ++ base.

  (* THE specification: the nearest declaration of a prefix *)
  Definition nearest (z : zipper) (p : prefixid) : option nsid := assoc_p p (chain z).

  Definition is_undeclaration (p : prefixid) (ns : nsid) : bool := N.eqb empty_prefix p && N.eqb ns no_ns.

  (* the binding of a prefix: its nearest declaration, unless that is xmlns="" *)
  Definition bound (z : zipper) (p : prefixid) : option nsid :=
    match nearest z p with
    | Some ns => if is_undeclaration p ns then None else Some ns
    | None => None
    end.

  Lemma assoc_p_app p a b : assoc_p p (a ++ b) = match assoc_p p a with Some x => Some x | None => assoc_p p b end.
  Proof. induction a as [|[q n] a IH]; cbn; [reflexivity|]. destruct (N.eqb q p); [reflexivity|exact IH]. Qed.

  Lemma pmem_app p a b : pmem p (a ++ b) = pmem p a || pmem p b.
  Proof. unfold pmem. apply existsb_app. Qed.

  Lemma pmem_single p q : pmem p [q] = N.eqb p q.
  Proof. unfold pmem; cbn. apply orb_false_r. Qed.

  (* ---------- namespaces_in_scope ---------- *)

  Notation traverse_decls := (traverse_decls empty_prefix no_ns).

  Lemma traverse_decls_app d1 : forall d2 seen acc,
    traverse_decls (d1 ++ d2) seen acc
    = let '(s, a) := traverse_decls d1 seen acc in traverse_decls d2 s a.
  Proof.
    induction d1 as [|[p ns] d1 IH]; intros d2 seen acc; cbn; [reflexivity|].
    destruct (pmem p seen); apply IH.
  Qed.

  Lemma in_scope_as_one_walk z :
    namespaces_in_scope empty_prefix xml_prefix no_ns xml_ns z = snd (traverse_decls (chain z) [] []).
  Proof.
    unfold namespaces_in_scope, chain.
    assert (forall l seen acc,
      fold_left (fun sa a => traverse_decls (declarations a) (fst sa) (snd sa)) l (seen, acc)
      = traverse_decls (concat (map declarations l)) seen acc) as H.
    { induction l as [|a l IH]; intros seen acc; cbn; [reflexivity|].
      rewrite traverse_decls_app. destruct (traverse_decls (declarations a) seen acc) as [s a0] eqn:E. cbn. apply IH. }
    rewrite H, traverse_decls_app.
    destruct (traverse_decls (concat (map declarations (ancestors z))) [] []) as [s a]. reflexivity.
  Qed.

  (* what one walk over a declaration list yields *)
  Lemma traverse_decls_spec d : forall seen acc p ns,
    In (p, ns) (snd (traverse_decls d seen acc))
    <-> In (p, ns) acc \/ (pmem p seen = false /\ assoc_p p d = Some ns /\ is_undeclaration p ns = false).
  Proof.
    induction d as [|[q n] d IH]; intros seen acc p ns; cbn [Scope.traverse_decls snd assoc_p].
    - split; [auto|intros [H|(_ & H & _)]; [exact H|discriminate]].
    - destruct (pmem q seen) eqn:Eq.
      + rewrite IH. split; (intros [H|(H1 & H2 & H3)]; [left; exact H|right]).
        * split; [exact H1|]. split; [|exact H3].
          destruct (N.eqb_spec q p) as [->|]; [congruence|exact H2].
        * split; [exact H1|]. split; [|exact H3].
          destruct (N.eqb_spec q p) as [->|]; [congruence|exact H2].
      + rewrite IH. rewrite pmem_app, pmem_single.
        destruct (N.eqb_spec q p) as [->|Hne].
        * rewrite N.eqb_refl, orb_true_r.
          split.
          -- intros [H|(H & _)]; [|discriminate].
             fold (is_undeclaration p n) in H. destruct (is_undeclaration p n) eqn:Eu; [left; exact H|].
             apply in_app_or in H. destruct H as [H|[H|[]]]; [left; exact H|]. inversion H; subst. right. auto.
          -- intros [H|(H1 & H2 & H3)].
             ++ left. fold (is_undeclaration p n). destruct (is_undeclaration p n); [exact H|apply in_or_app; left; exact H].
             ++ inversion H2; subst. left. fold (is_undeclaration p ns). rewrite H3. apply in_or_app. right. left. reflexivity.
        * assert (N.eqb p q = false) as -> by (apply N.eqb_neq; congruence). rewrite orb_false_r.
          fold (is_undeclaration q n).
          split.
          -- intros [H|H]; [|right; exact H].
             destruct (is_undeclaration q n); [left; exact H|].
             apply in_app_or in H. destruct H as [H|[H|[]]]; [left; exact H|inversion H; congruence].
          -- intros [H|H]; [|right; exact H]. left.
             destruct (is_undeclaration q n); [exact H|apply in_or_app; left; exact H].
  Qed.

  (* namespaces_in_scope reports exactly the bindings: (p, ns) is reported iff p is bound to ns *)
  Theorem namespaces_in_scope_spec z p ns :
    In (p, ns) (namespaces_in_scope empty_prefix xml_prefix no_ns xml_ns z) <-> bound z p = Some ns.
  Proof.
    rewrite in_scope_as_one_walk, traverse_decls_spec. unfold bound, nearest. cbn [pmem existsb].
    split.
    - intros [[]|(_ & H & Hu)]. rewrite H, Hu. reflexivity.
    - destruct (assoc_p p (chain z)) as [n|] eqn:E; [|discriminate].
      destruct (is_undeclaration p n) eqn:Eu; [discriminate|]. intros H; inversion H; subst. right. auto.
  Qed.

  (* ---------- namespace_for_prefix ---------- *)

  Lemma nfp_walk_spec l p :
    nfp_walk no_ns l p
    = match assoc_p p (concat (map declarations l)) with
      | Some ns => Some (if N.eqb ns no_ns then None else Some ns)
      | None => None
      end.
  Proof.
    induction l as [|a l IH]; cbn; [reflexivity|]. rewrite assoc_p_app.
    destruct (assoc_p p (declarations a)); [reflexivity|exact IH].
  Qed.

  (* namespace_for_prefix returns the nearest declaration of the prefix (None when that declares "no namespace") *)
  Theorem namespace_for_prefix_nearest z p :
    xml_ns <> no_ns ->
    namespace_for_prefix xml_prefix no_ns xml_ns z p
    = match nearest z p with
      | Some ns => if N.eqb ns no_ns then None else Some ns
      | None => None
      end.
  Proof.
    intros Hx. unfold namespace_for_prefix, nearest, chain. rewrite nfp_walk_spec, assoc_p_app.
    destruct (assoc_p p (concat (map declarations (ancestors z)))) as [ns|]; [reflexivity|].
    cbn. destruct (N.eqb xml_prefix p); [|reflexivity].
    destruct (N.eqb_spec xml_ns no_ns); [contradiction|reflexivity].
  Qed.

  (* a declaration list is legal when only the empty prefix is ever bound to "no namespace" (xmlns="" exists,
     xmlns:p="" does not), and the xml namespace is a real one *)
  Definition legal (z : zipper) : Prop :=
    (forall p ns, In (p, ns) (chain z) -> ns = no_ns -> p = empty_prefix) /\ xml_ns <> no_ns.

  Lemma assoc_p_in p d ns : assoc_p p d = Some ns -> In (p, ns) d.
  Proof.
    induction d as [|[q n] d IH]; cbn; [discriminate|].
    destruct (N.eqb_spec q p) as [->|]; [intros H; inversion H; left; reflexivity|intros H; right; auto].
  Qed.

  (* on legal declarations namespace_for_prefix(p) = ns exactly when p is bound to ns *)
  Theorem namespace_for_prefix_spec z p :
    legal z -> namespace_for_prefix xml_prefix no_ns xml_ns z p = bound z p.
  Proof.
    intros [Hl Hx]. rewrite (namespace_for_prefix_nearest _ _ Hx). unfold bound, is_undeclaration.
    destruct (nearest z p) as [ns|] eqn:E; [|reflexivity].
    destruct (N.eqb_spec ns no_ns) as [->|Hne]; [|rewrite andb_false_r; reflexivity].
    unfold nearest in E. apply assoc_p_in in E. rewrite (Hl _ _ E eq_refl), N.eqb_refl. reflexivity.
  Qed.

  (* ---------- prefix_for_namespace ---------- *)


  Definition usable (allow_empty : bool) (p : prefixid) : bool := allow_empty || negb (N.eqb p empty_prefix).

  (* one walk over the whole chain *)
  Lemma pfn_one_walk z ns ae :
    prefix_for_namespace_with empty_prefix xml_prefix xml_ns z ns ae = snd ((Scope.pfn_decls empty_prefix) (chain z) ns ae []).
  Proof.
    unfold prefix_for_namespace_with, chain.
    assert (forall l seen, (Scope.pfn_walk empty_prefix) l ns ae seen = snd ((Scope.pfn_decls empty_prefix) (concat l) ns ae seen)) as H.
    { induction l as [|d l IH]; intros seen; cbn [concat Scope.pfn_walk]; [reflexivity|].
      assert (forall d1 d2 sn, (Scope.pfn_decls empty_prefix) (d1 ++ d2) ns ae sn
               = match (Scope.pfn_decls empty_prefix) d1 ns ae sn with
                 | (s, Some p) => (s, Some p)
                 | (s, None) => (Scope.pfn_decls empty_prefix) d2 ns ae s
                 end) as Happ.
      { induction d1 as [|[q n] d1 IHd]; intros d2 sn; cbn; [reflexivity|].
        destruct (pmem q sn); [apply IHd|]. destruct (N.eqb n ns && (ae || negb (N.eqb q empty_prefix))); [reflexivity|apply IHd]. }
      rewrite Happ. destruct ((Scope.pfn_decls empty_prefix) d ns ae seen) as [s [p|]]; [reflexivity|apply IH]. }
    rewrite H. rewrite concat_app. cbn [concat]. rewrite app_nil_r. reflexivity.
  Qed.

  Lemma pfn_decls_spec d : forall ns ae seen,
    match snd ((Scope.pfn_decls empty_prefix) d ns ae seen) with
    | Some p => pmem p seen = false /\ assoc_p p d = Some ns /\ usable ae p = true
    | None => forall p, pmem p seen = false -> usable ae p = true -> assoc_p p d <> Some ns
    end.
  Proof.
    induction d as [|[q n] d IH]; intros ns ae seen; cbn [Scope.pfn_decls snd assoc_p].
    - intros p _ _. discriminate.
    - destruct (pmem q seen) eqn:Eq.
      + specialize (IH ns ae seen). destruct (snd ((Scope.pfn_decls empty_prefix) d ns ae seen)) as [p|].
        * destruct IH as (H1 & H2 & H3). split; [exact H1|]. split; [|exact H3].
          destruct (N.eqb_spec q p) as [->|]; [congruence|exact H2].
        * intros p Hp Hu. destruct (N.eqb_spec q p) as [->|]; [congruence|]. apply IH; assumption.
      + destruct (N.eqb n ns && (ae || negb (N.eqb q empty_prefix))) eqn:Em; cbn [snd].
        * apply andb_true_iff in Em. destruct Em as [Hn Hu]. apply N.eqb_eq in Hn. subst n.
          rewrite N.eqb_refl. split; [exact Eq|]. split; [reflexivity|exact Hu].
        * specialize (IH ns ae (seen ++ [q])). destruct (snd ((Scope.pfn_decls empty_prefix) d ns ae (seen ++ [q]))) as [p|].
          -- destruct IH as (H1 & H2 & H3). rewrite pmem_app, pmem_single in H1. apply orb_false_iff in H1.
             destruct H1 as [H1 H1']. split; [exact H1|]. split; [|exact H3].
             destruct (N.eqb_spec q p) as [->|]; [rewrite N.eqb_refl in H1'; discriminate|exact H2].
          -- intros p Hp Hu. destruct (N.eqb_spec q p) as [->|Hne].
             ++ intros H; inversion H; subst. rewrite N.eqb_refl in Em. unfold usable in Hu. rewrite Hu in Em. discriminate.
             ++ apply IH; [|exact Hu]. rewrite pmem_app, pmem_single, Hp. cbn. apply N.eqb_neq. congruence.
  Qed.

  (* prefix_for_namespace is sound: the prefix it returns is bound to the namespace (nearest declaration);
     and complete: None means no usable prefix has that namespace as its nearest declaration *)
  Theorem prefix_for_namespace_spec z ns ae :
    match prefix_for_namespace_with empty_prefix xml_prefix xml_ns z ns ae with
    | Some p => nearest z p = Some ns /\ usable ae p = true
    | None => forall p, usable ae p = true -> nearest z p <> Some ns
    end.
  Proof.
    rewrite pfn_one_walk. pose proof (pfn_decls_spec (chain z) ns ae []) as H.
    destruct (snd ((Scope.pfn_decls empty_prefix) (chain z) ns ae [])) as [p|].
    - destruct H as (_ & H2 & H3). auto.
    - intros p Hu. apply H; [reflexivity|exact Hu].
  Qed.

  (* ---------- is_prefix_defined ---------- *)

  Lemma has_prefix_assoc p d : has_prefix p d = true <-> assoc_p p d <> None.
  Proof.
    unfold has_prefix. induction d as [|[q n] d IH]; cbn.
    - split; [discriminate|intros H; exfalso; apply H; reflexivity].
    - destruct (N.eqb q p) eqn:E; cbn.
      + split; [intros _ H; discriminate H|intros _; reflexivity].
      + exact IH.
  Qed.

  (* is_prefix_defined: the prefix is bound (xmlns="" is no binding) *)
  Theorem is_prefix_defined_spec z p :
    legal z -> (is_prefix_defined xml_prefix no_ns xml_ns z p = true <-> bound z p <> None).
  Proof.
    intros L. unfold is_prefix_defined. rewrite (namespace_for_prefix_spec z p L).
    destruct (bound z p); split; intros H; try reflexivity; try discriminate; try congruence.
  Qed.

  (* ---------- qualified names ---------- *)

  (* the prefix reported for the name of a node resolves, by the rules for the node's kind, to the name's namespace:
     a prefixed name through the nearest declaration of the prefix; an unprefixed ELEMENT name through the default
     binding; an unprefixed ATTRIBUTE name is in no namespace *)
  Theorem full_name_resolves z name r :
    full_name_prefix empty_prefix xml_prefix no_ns xml_ns ns_of_name z name = Some r ->
    match r with
    | Some p => p <> empty_prefix /\ nearest z p = Some (ns_of_name name)
    | None => ns_of_name name = no_ns
              \/ (ns_of_name name <> no_ns /\ is_attribute_node z = false /\ nearest z empty_prefix = Some (ns_of_name name))
    end.
  Proof.
    unfold full_name_prefix. destruct (N.eqb_spec (ns_of_name name) no_ns) as [E|E].
    - intros H. injection H as <-. left. exact E.
    - unfold prefix_for_node_name.
      pose proof (prefix_for_namespace_spec z (ns_of_name name) (negb (is_attribute_node z))) as Hs.
      destruct (prefix_for_namespace_with empty_prefix xml_prefix xml_ns z (ns_of_name name) (negb (is_attribute_node z))) as [p|]; [|discriminate].
      destruct Hs as [Hn Hu]. intros H. injection H as <-.
      destruct (N.eqb_spec p empty_prefix) as [->|Hne].
      + right. unfold usable in Hu. rewrite N.eqb_refl in Hu. cbn in Hu. rewrite orb_false_r in Hu.
        apply negb_true_iff in Hu. auto.
      + split; assumption.
  Qed.

  (* and a missing prefix is reported only when no usable prefix is bound to the namespace *)
  Theorem full_name_missing_prefix z name :
    full_name_prefix empty_prefix xml_prefix no_ns xml_ns ns_of_name z name = None ->
    ns_of_name name <> no_ns
    /\ forall p, usable (negb (is_attribute_node z)) p = true -> nearest z p <> Some (ns_of_name name).
  Proof.
    unfold full_name_prefix. destruct (N.eqb_spec (ns_of_name name) no_ns) as [E|E]; [discriminate|].
    unfold prefix_for_node_name.
    pose proof (prefix_for_namespace_spec z (ns_of_name name) (negb (is_attribute_node z))) as Hs.
    destruct (prefix_for_namespace_with empty_prefix xml_prefix xml_ns z (ns_of_name name) (negb (is_attribute_node z))) as [p|]; [discriminate|].
    intros _. split; assumption.
  Qed.

  (* how a reported qualified name is resolved again, by the XML-Namespaces rules for the kind of node *)
  Definition resolve_qname (z : zipper) (r : option prefixid) : nsid :=
    match r with
    | Some p => match bound z p with Some ns => ns | None => no_ns end
    | None => if is_attribute_node z then no_ns
              else match bound z empty_prefix with Some ns => ns | None => no_ns end
    end.

  (* the one known mechanism by which a reported name means something else: an ELEMENT in no namespace inside
     the scope of a default-namespace declaration (it would need xmlns="" to be written unprefixed) *)
  Definition known_default_capture (z : zipper) (name : nameid) : Prop :=
    is_attribute_node z = false /\ ns_of_name name = no_ns /\ bound z empty_prefix <> None.

  Theorem qname_resolves_unless_known z name r :
    full_name_prefix empty_prefix xml_prefix no_ns xml_ns ns_of_name z name = Some r ->
    ~ known_default_capture z name ->
    resolve_qname z r = ns_of_name name.
  Proof.
    intros Hf Hk. pose proof (full_name_resolves z name r Hf) as H. unfold resolve_qname.
    destruct r as [p|].
    - destruct H as [Hp Hn]. unfold bound. rewrite Hn. unfold is_undeclaration.
      assert (N.eqb empty_prefix p = false) as -> by (apply N.eqb_neq; congruence). reflexivity.
    - destruct H as [E|(E & Ha & Hn)].
      + destruct (is_attribute_node z) eqn:Ea; [congruence|].
        destruct (bound z empty_prefix) eqn:Eb; [|congruence].
        exfalso. apply Hk. split; [exact Ea|]. split; [exact E|]. congruence.
      + rewrite Ha. unfold bound. rewrite Hn. unfold is_undeclaration. rewrite N.eqb_refl. cbn.
        assert (N.eqb (ns_of_name name) no_ns = false) as -> by (apply N.eqb_neq; exact E). reflexivity.
  Qed.
End Scope.

(* the unconditional statement is false of the faithful model: witness <a xmlns="urn:x"> with `a` in no namespace *)
Lemma qname_resolves_refuted :
  exists z name,
    let ns_of_name := fun _ : nameid => 0 in
    full_name_prefix 0 1 0 1 ns_of_name z name = Some None
    /\ known_default_capture 0 1 0 1 ns_of_name z name
    /\ resolve_qname 0 1 0 1 z None <> ns_of_name name.
Proof.
  destruct (locate 0 (FCons 0 (VElement 5) (FCons 1 (VNamespace 0 2) FNil FNil) FNil)) as [z|] eqn:E; [|discriminate E].
  exists z, 5. vm_compute in E. inversion E; subst z. cbv zeta. split; [reflexivity|].
  split; [|vm_compute; discriminate].
  split; [reflexivity|]. split; [reflexivity|]. vm_compute. discriminate.
Qed.

(* non-vacuity of the conditional theorem: a prefixed element and a prefixed attribute outside the known class *)
Example qname_example :
  exists z, locate 0 (FCons 0 (VElement 5) (FCons 1 (VNamespace 3 2) FNil (FCons 2 (VNamespace 0 2) FNil FNil)) FNil) = Some z
    /\ full_name_prefix 0 1 0 1 (fun _ => 2) z 5 = Some (Some 3)
    /\ ~ known_default_capture 0 1 0 1 (fun _ => 2) z 5.
Proof.
  eexists. split; [vm_compute; reflexivity|]. split; [reflexivity|]. intros (_ & H & _). discriminate H.
Qed.
