(* HtmlProofs.v — theorems about Model/HtmlSer.v (C19). *)
From Coq Require Import List NArith Bool Lia.
From XotV Require Import Model.Base Model.Zipper Model.Access Model.Interning Model.Fullname Model.Scope Model.Entity Model.XmlSer
                         Model.HtmlSer Gen.Tables Proofs.FullnameProofs.
Import ListNotations.
Open Scope N_scope.

(* every '&' in the string starts one of the references the serialisers write *)
Fixpoint starts_with (p s : str) : bool :=
  match p, s with
  | [], _ => true
  | a :: p', b :: s' => N.eqb a b && starts_with p' s'
  | _, [] => false
  end.

Fixpoint amp_only_as_reference (s : str) : bool :=
  match s with
  | [] => true
  | c :: s' =>
      (if c =? c_amp then starts_with s_amp s || starts_with s_lt s || starts_with s_gt s || starts_with s_apos s
                          || starts_with s_quot s || starts_with s_nbsp s || starts_with s_cr s || starts_with s_lf s || starts_with s_tab s
       else true)
      && amp_only_as_reference s'
  end.

Lemma amp_ref_app_lit (r : str) s :
  (forall c, In c r -> c <> c_amp) -> amp_only_as_reference (r ++ s) = amp_only_as_reference s.
Proof.
  induction r as [|c r IH]; intros H; cbn [app]; [reflexivity|]. cbn [amp_only_as_reference].
  assert (c <> c_amp) as Hc by (apply H; left; reflexivity). apply N.eqb_neq in Hc. rewrite Hc. cbn [andb].
  apply IH. intros d Hd. apply H. right. exact Hd.
Qed.

Section P.
  Variable nm : names.
  Variable hn : hnames.

  Lemma serialize_text_html_safe s : ~ In c_lt (serialize_text_html s) /\ amp_only_as_reference (serialize_text_html s) = true.
  Proof.
    induction s as [|c s [IH1 IH2]]; cbn [serialize_text_html]; [split; [intros []|reflexivity]|].
    destruct (c =? c_amp) eqn:E1.
    { split; [cbn; intros H; repeat (destruct H as [H|H]; [discriminate|]); exact (IH1 H)|]. cbn. exact IH2. }
    destruct (c =? c_lt) eqn:E2.
    { split; [cbn; intros H; repeat (destruct H as [H|H]; [discriminate|]); exact (IH1 H)|]. cbn. exact IH2. }
    destruct (c =? c_nbsp) eqn:E3.
    { split; [cbn; intros H; repeat (destruct H as [H|H]; [discriminate|]); exact (IH1 H)|]. cbn. exact IH2. }
    split.
    - cbn. intros [H|H]; [apply N.eqb_neq in E2; congruence|exact (IH1 H)].
    - cbn [app amp_only_as_reference]. rewrite E1. exact IH2.
  Qed.

  Lemma serialize_attribute_html_safe s :
    ~ In c_quot (serialize_attribute_html s) /\ amp_only_as_reference (serialize_attribute_html s) = true.
  Proof.
    induction s as [|c s [IH1 IH2]]; cbn [serialize_attribute_html]; [split; [intros []|reflexivity]|].
    destruct (c =? c_amp) eqn:E1.
    { split; [cbn; intros H; repeat (destruct H as [H|H]; [discriminate|]); exact (IH1 H)|]. cbn. exact IH2. }
    destruct (c =? c_apos) eqn:E2.
    { split; [cbn; intros H; repeat (destruct H as [H|H]; [discriminate|]); exact (IH1 H)|]. cbn. exact IH2. }
    destruct (c =? c_quot) eqn:E3.
    { split; [cbn; intros H; repeat (destruct H as [H|H]; [discriminate|]); exact (IH1 H)|]. cbn. exact IH2. }
    destruct (c =? c_nbsp) eqn:E4.
    { split; [cbn; intros H; repeat (destruct H as [H|H]; [discriminate|]); exact (IH1 H)|]. cbn. exact IH2. }
    split.
    - cbn. intros [H|H]; [apply N.eqb_neq in E3; congruence|exact (IH1 H)].
    - cbn [app amp_only_as_reference]. rewrite E1. exact IH2.
  Qed.

  Lemma hserialize_go_prefix cdata evs : forall st buf s,
    hserialize_go nm hn cdata st evs buf = HOk s -> exists rest, s = buf ++ rest.
  Proof.
    induction evs as [|[z o] evs IH]; intros st buf s; cbn [hserialize_go].
    - intros H. inversion H; subst. exists []. rewrite app_nil_r. reflexivity.
    - destruct (hrender nm hn cdata st z o) as [[st' t]| |]; try discriminate.
      intros H. apply IH in H as [rest ->]. exists (token_text t ++ rest). rewrite app_assoc. reflexivity.
  Qed.

  Lemma hserialize_pretty_go_prefix cdata sup inl evs : forall st ps buf s,
    hserialize_pretty_go nm hn cdata sup inl st ps evs buf = HOk s -> exists rest, s = buf ++ rest.
  Proof.
    induction evs as [|[z o] evs IH]; intros st ps buf s; cbn [hserialize_pretty_go].
    - intros H. inversion H; subst. exists []. rewrite app_nil_r. reflexivity.
    - destruct (prettify nm sup inl ps z o) as [[ps' ind] nl].
      destruct (hrender nm hn cdata st z o) as [[st' t]| |]; try discriminate.
      intros H. apply IH in H as [rest ->]. eexists. rewrite <- !app_assoc. reflexivity.
  Qed.

  Theorem html5_starts_with_doctype cdata indent z s :
    html5_serialize nm hn cdata indent z = HOk s -> exists rest, s = s_doctype ++ rest.
  Proof.
    unfold html5_serialize. destruct indent; [apply hserialize_pretty_go_prefix|apply hserialize_go_prefix].
  Qed.

  Theorem hrender_no_panic cdata st z o : (forall p ns, o <> OPrefix p ns) -> hrender nm hn cdata st z o <> HPanic.
  Proof.
    intros Hp. destruct o; cbn [hrender]; try (exfalso; eapply Hp; reflexivity).
    - match goal with |- context [if ?c then _ else _] => destruct c end.
      + destruct (effective_declarations nm z name); discriminate.
      + match goal with |- context [element_fullname ?a ?b ?c] => destruct (element_fullname a b c) end; discriminate.
    - discriminate.
    - destruct (html_matches nm hn void_names name); [discriminate|].
      destruct (element_fullname nm (hs_stack st) name); discriminate.
    - destruct (attribute_fullname nm (hs_stack st) name); [|discriminate].
      match goal with |- context [if ?c then _ else _] => destruct c end; discriminate.
    - discriminate.
    - discriminate.
    - destruct (negb (N.eqb (n_ns_of_name nm target) (n_no_ns nm))); [discriminate|].
      destruct data as [d|]; [destruct (has_gt d)|]; discriminate.
  Qed.

  Theorem end_tag_iff_not_void cdata st z name st' t :
    hrender nm hn cdata st z (OEndTag name) = HOk (st', t) ->
    if html_matches nm hn void_names name then t_text t = []
    else exists fn, element_fullname nm (hs_stack st) name = Some fn /\ t_text t = [60; 47] ++ fn ++ [62].
  Proof.
    cbn [hrender]. destruct (html_matches nm hn void_names name).
    - intros H. inversion H; subst. reflexivity.
    - destruct (element_fullname nm (hs_stack st) name) as [fn|]; [|discriminate].
      intros H. inversion H; subst. exists fn. split; reflexivity.
  Qed.

  Theorem no_namespace_unprefixed cdata st z name st' t :
    n_ns_of_name nm name = n_no_ns nm -> must_be_unprefixed hn (n_no_ns nm) = false ->
    hrender nm hn cdata st z (OStartTagOpen name) = HOk (st', t) -> t_text t = [60] ++ n_local nm name.
  Proof.
    intros Hns Hm. cbn [hrender]. rewrite Hns, Hm. cbn [andb].
    unfold element_fullname, element_prefix. rewrite Hns, N.eqb_refl. cbn [qname].
    intros H. inversion H; subst. reflexivity.
  Qed.

  Theorem html_foreign_unprefixed cdata st z name st' t :
    must_be_unprefixed hn (n_ns_of_name nm name) = true -> n_ns_of_name nm name <> n_no_ns nm ->
    NoDup (map fst (fs_top (fs_push (hs_stack st) (effective_declarations nm z name)))) ->
    hrender nm hn cdata st z (OStartTagOpen name) = HOk (st', t) ->
    t_text t = [60] ++ n_local nm name ++ [32] ++ s_xmlns ++ [61; 34] ++ n_ns_str nm (n_ns_of_name nm name) ++ [34]
    \/ (t_text t = [60] ++ n_local nm name
        /\ assoc_p (n_empty_prefix nm) (fs_top (fs_push (hs_stack st) (effective_declarations nm z name))) = Some (n_ns_of_name nm name)).
  Proof.
    intros Hm Hn Hnd. cbn [hrender]. rewrite Hm. cbn [andb].
    set (s1 := fs_push (hs_stack st) (effective_declarations nm z name)) in *.
    destruct (has_empty_prefix (n_empty_prefix nm) s1 (n_ns_of_name nm name)) eqn:Eh; cbn [negb].
    - (* the default namespace in force is already the element's namespace: the name is written unprefixed *)
      unfold element_fullname.
      pose proof (element_prefix_sound (n_empty_prefix nm) (n_no_ns nm) s1 (n_ns_of_name nm name) Hnd) as Hs.
      unfold has_empty_prefix in Eh. unfold element_prefix in *. apply N.eqb_neq in Hn. rewrite Hn in *.
      destruct (element_prefix_by_namespace (n_empty_prefix nm) (fs_top s1) (n_ns_of_name nm name)) as [p|]; [|discriminate].
      rewrite Eh in *. cbn [qname]. intros H. inversion H; subst. right. split; [reflexivity|].
      destruct Hs as [Hs|Hs]; [apply N.eqb_neq in Hn; contradiction|exact Hs].
    - destruct (effective_declarations nm z name); intros H; inversion H; subst; left; reflexivity.
  Qed.

  Theorem pi_gt_refused cdata st z target d :
    n_ns_of_name nm target = n_no_ns nm -> In c_gt d -> hrender nm hn cdata st z (OPI target (Some d)) = HErr HPIGt.
  Proof.
    intros Hns Hin. cbn [hrender]. rewrite Hns, N.eqb_refl. cbn [negb].
    assert (has_gt d = true) as Hg.
    { unfold has_gt. apply existsb_exists. exists c_gt. split; [exact Hin|apply N.eqb_refl]. }
    rewrite Hg. reflexivity.
  Qed.
  (* ---------- the whole serialisation never panics ---------- *)

  (* every Prefix event the generator produces is tagged with an element *)
  Definition prefix_on_element (e : zipper * output) : Prop :=
    match snd e with OPrefix _ _ => element_of (fst e) <> None | _ => True end.

  Lemma gen_outputs_prefix_on_element z : Forall prefix_on_element (gen_outputs nm z).
  Proof.
    unfold gen_outputs. apply Forall_forall. intros [c o] Hin. apply in_flat_map in Hin as [e [_ Hin]].
    destruct e as [c'|c']; apply in_map_iff in Hin as [o' [Heq Ho]]; inversion Heq; subst; unfold prefix_on_element; cbn [fst snd].
    - unfold edge_start_outputs in Ho. unfold element_of. destruct (z_val c) eqn:Ev; try (destruct o; auto; discriminate).
      all: try (cbn in Ho; destruct Ho as [<-|[]]; exact I).
      all: try (destruct Ho).
    - unfold edge_end_outputs in Ho. destruct (z_val c); try destruct Ho as [<-|[]]; try exact I; destruct Ho.
  Qed.

  Lemma hrender_no_panic_tagged cdata st c o : prefix_on_element (c, o) -> hrender nm hn cdata st c o <> HPanic.
  Proof.
    intros H. destruct o; try (apply hrender_no_panic; intros; discriminate).
    unfold prefix_on_element in H. cbn [fst snd] in H. cbn [hrender]. destruct (element_of c); [|congruence].
    repeat match goal with |- context [if ?c then _ else _] => destruct c end; discriminate.
  Qed.

  Lemma hserialize_go_no_panic cdata evs : forall st buf, Forall prefix_on_element evs -> hserialize_go nm hn cdata st evs buf <> HPanic.
  Proof.
    induction evs as [|[c o] evs IH]; intros st buf H; cbn [hserialize_go]; [discriminate|]. inversion H; subst.
    pose proof (hrender_no_panic_tagged cdata st c o ltac:(assumption)) as Hr.
    destruct (hrender nm hn cdata st c o) as [[st' t]|e|]; [apply IH; assumption|discriminate|congruence].
  Qed.

  Lemma hserialize_pretty_go_no_panic cdata is_sup is_inl evs : forall st ps buf, Forall prefix_on_element evs ->
    hserialize_pretty_go nm hn cdata is_sup is_inl st ps evs buf <> HPanic.
  Proof.
    induction evs as [|[c o] evs IH]; intros st ps buf H; cbn [hserialize_pretty_go]; [discriminate|]. inversion H; subst.
    destruct (prettify nm is_sup is_inl ps c o) as [[ps' ind] nl].
    pose proof (hrender_no_panic_tagged cdata st c o ltac:(assumption)) as Hr.
    destruct (hrender nm hn cdata st c o) as [[st' t]|e|]; [apply IH; assumption|discriminate|congruence].
  Qed.

  Theorem html5_serialize_no_panic cdata indent z : html5_serialize nm hn cdata indent z <> HPanic.
  Proof.
    unfold html5_serialize. destruct indent.
    - apply hserialize_pretty_go_no_panic. apply gen_outputs_prefix_on_element.
    - apply hserialize_go_no_panic. apply gen_outputs_prefix_on_element.
  Qed.
  (* a declaration is written as xmlns="uri" or xmlns:p="uri" with the URI escaped, or not at all; the state does not change;
     the implicit binding of the xml prefix and a prefix bound to "no namespace" are never written; a default-namespace
     declaration is written only for the element's own namespace *)
  Theorem hprefix_token_spec cdata st z p ns st' t :
    hrender nm hn cdata st z (OPrefix p ns) = HOk (st', t) ->
    st' = st
    /\ (token_text t = []
        \/ (p = n_empty_prefix nm /\ (exists name, element_of z = Some name /\ n_ns_of_name nm name = ns)
            /\ token_text t = [32] ++ s_xmlns ++ [61; 34] ++ serialize_attribute (n_ns_str nm ns) ++ [34])
        \/ (p <> n_empty_prefix nm /\ ns <> n_no_ns nm /\ ~ (p = n_xml_prefix nm /\ ns = n_xml_ns nm)
            /\ token_text t = [32] ++ s_xmlns ++ [58] ++ n_prefix_str nm p ++ [61; 34] ++ serialize_attribute (n_ns_str nm ns) ++ [34])).
  Proof.
    cbn [hrender]. intros H. destruct (element_of z) as [name|] eqn:He; [|discriminate].
    destruct (N.eqb p (n_xml_prefix nm) && N.eqb ns (n_xml_ns nm)) eqn:EA; cbn [orb] in H.
    { inversion H; subst st' t. split; [reflexivity|left; reflexivity]. }
    destruct (N.eqb_spec p (n_empty_prefix nm)) as [Hp|Hp]; cbn [negb andb orb] in H.
    - destruct (N.eqb_spec (n_ns_of_name nm name) ns) as [Hn|Hn]; cbn [negb andb orb] in H;
        inversion H; subst st' t; (split; [reflexivity|]); [|left; reflexivity].
      right; left. split; [exact Hp|]. split; [exists name; split; [reflexivity|exact Hn]|reflexivity].
    - destruct (N.eqb_spec ns (n_no_ns nm)) as [Hn|Hn]; cbn [negb andb orb] in H.
      { inversion H; subst st' t. split; [reflexivity|left; reflexivity]. }
      match type of H with (if ?c then _ else _) = _ => destruct c end;
        inversion H; subst st' t; (split; [reflexivity|]); [left; reflexivity|].
      right; right. split; [exact Hp|]. split; [exact Hn|]. split; [|reflexivity].
      intros [Hx Hy]. rewrite Hx, Hy, !N.eqb_refl in EA. discriminate EA.
  Qed.

End P.
