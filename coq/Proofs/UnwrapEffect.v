(* UnwrapEffect.v — the no-adjacent-text clause of C04 for element_unwrap.  The call splices the children of the element into
   its place and then consolidates at the two seams; in between, text nodes may touch at both seams, so the clause is shown by
   computing every intermediate store exactly from the cursor of the element. *)
From Coq Require Import List NArith ZArith Bool Lia Permutation Arith.
From XotV Require Import Model.Base Model.Zipper Model.Access Model.Store Model.Manip Spec.DocOrder Spec.Paths Spec.Shape Spec.NoAdj
                         Proofs.ZipperProofs Proofs.AccessProofs Proofs.StoreProofs Proofs.ForestFacts Proofs.InvProofs Proofs.Canon
                         Proofs.ShapeProofs Proofs.KeysProofs Proofs.InvSteps Proofs.InvOps Proofs.PathFacts Proofs.Levels Proofs.NoAdjFacts
                         Proofs.NoAdjOps Proofs.Atomic Proofs.NoPanic Proofs.CloneShape Proofs.WrapEffect.
Import ListNotations.
Open Scope N_scope.

(* ---------- remove_consolidate on two adjacent siblings, seen from the cursor of the first ---------- *)

Definition zset (z : zipper) (v' : value) (after' : forest) : zipper :=
  mkz (z_slot z) v' (z_kids z) (z_before z) after' (z_ups z).

Lemma rc_other st p nx : (forall s, val st p <> Some (VText s)) \/ (forall s, val st nx <> Some (VText s)) ->
  remove_consolidate st (Some p) (Some nx) = (st, false).
Proof.
  intros H. unfold remove_consolidate. destruct (negb (cons st)); [reflexivity|].
  destruct (val st p) as [[]|] eqn:Ep; try reflexivity. destruct (val st nx) as [[]|] eqn:En; try reflexivity.
  exfalso. destruct H as [H|H]; eapply H; reflexivity.
Qed.

Lemma rc_adjacent st zp A B nx tn a' tp :
  WF st -> cons st = true -> top_clean zp -> store st = fapp A (fapp (plug zp) B) ->
  z_val zp = VText tp -> z_after zp = FCons nx (VText tn) FNil a' ->
  exists st', remove_consolidate st (Some (z_slot zp)) (Some nx) = (st', true)
    /\ store st' = fapp A (fapp (plug (zset zp (VText (tp ++ tn)) a')) B) /\ cons st' = cons st.
Proof.
  intros W Hcons Htc E Hv Ha. pose proof (proj1 W) as Hnd.
  pose proof (cur_of_view st zp A B W Htc E) as Hp.
  assert (z_ups zp <> []) as Hne.
  { intros Eu. destruct (top_clean_root zp Htc Eu) as [_ Haf]. rewrite Haf in Ha. discriminate. }
  assert (cur st nx = Some (mkz nx (VText tn) FNil (FCons (z_slot zp) (z_val zp) (z_kids zp) (z_before zp)) a' (z_ups zp))) as Hn.
  { refine (cur_move st (z_slot zp) zp (mkz nx _ _ _ _ _) Hnd Hp _). left. unfold right. rewrite Ha. reflexivity. }
  unfold remove_consolidate. rewrite Hcons. cbn [negb]. rewrite (val_of_cur _ _ _ Hp), Hv, (val_of_cur _ _ _ Hn). cbn [z_val mkz].
  eexists. split; [reflexivity|]. split; [|exact Hcons].
  cbn [remove_single_raw free_slots with_store store].
  rewrite fset_val_fact. rewrite (fact_inner _ _ zp A B Hnd Htc Hne E). unfold a_val. rewrite Hv, Ha. cbn [append_text_to].
  set (zn := mkz nx (VText tn) FNil (FCons (z_slot zp) (VText (tp ++ tn)) (z_kids zp) (z_before zp)) a' (z_ups zp)).
  set (S1 := fapp A (fapp (plug_ups (frev_app (z_before zp) (FCons (z_slot zp) (VText (tp ++ tn)) (z_kids zp) (FCons nx (VText tn) FNil a'))) (z_ups zp)) B)).
  assert (S1 = fapp A (fapp (plug zn) B)) as E1 by reflexivity.
  assert (NoDup (ids S1)) as Hnd1.
  { assert (S1 = fset_val (z_slot zp) (append_text_to tn) (store st)) as ->.
    { rewrite fset_val_fact, (fact_inner _ _ zp A B Hnd Htc Hne E). unfold a_val. rewrite Hv, Ha. reflexivity. }
    rewrite store_ids_fset_val. exact Hnd. }
  rewrite fsplice_fact. change nx with (z_slot zn) at 1.
  assert (top_clean zn) as Htcn by (unfold top_clean in *; destruct (z_ups zp); [congruence|exact Htc]).
  rewrite (fact_inner a_splice S1 zn A B Hnd1 Htcn Hne E1). reflexivity.
Qed.

(* ---------- the namespace and attribute nodes of the element go first ---------- *)

Lemma with_kids_same z : with_kids z (z_kids z) = z.
Proof. destruct z; reflexivity. Qed.

Lemma strip_view k : forall st z A B, Good st -> top_clean z -> store st = fapp A (fapp (plug z) B) ->
  is_elem (z_val z) = true -> z_kids z = k ->
  let st1 := fold_left remove_single_raw (abn_prefix k) st in
  Good st1 /\ store st1 = fapp A (fapp (plug (with_kids z (nrm_part k))) B) /\ cons st1 = cons st.
Proof.
  induction k as [|a va ka _ r IH]; intros st z A B G Htc E He Hk; cbn [abn_prefix fold_left nrm_part].
  - split; [exact G|]. split; [rewrite <- Hk, with_kids_same; exact E|reflexivity].
  - pose proof (Good_WF _ G) as W. pose proof (cur_of_view st z A B W Htc E) as Hc.
    pose proof (find_of_cur _ _ _ Hc) as Hf. rewrite Hk in Hf.
    pose proof (shape_find _ _ _ _ _ _ (Good_shape _ G) Hf) as Hs. destruct (z_val z) eqn:Ev; try discriminate. cbn [kids_ok] in Hs.
    destruct (is_normal va) eqn:Hva; cbn [negb fold_left].
    + split; [exact G|]. split; [rewrite <- Hk, with_kids_same; exact E|reflexivity].
    + assert (ka = FNil) as ->.
      { rewrite shape_cons in Hs. apply andb_true_iff in Hs as [Hs _]. apply andb_true_iff in Hs as [_ Hs].
        destruct va; try discriminate; destruct ka; try reflexivity; discriminate. }
      pose proof (Good_nodup _ G) as Hnd.
      assert (In a (ids (store st))) as Hain by (eapply find_incl; [exact Hf|right; cbn; left; reflexivity]).
      assert (In (a, va) (nodes (store st))) as Hav by (eapply find_nodes_incl; [exact Hf|cbn; left; reflexivity]).
      assert (Ext st (remove_single_raw st a)) as X1.
      { apply Ext_remove_single_inner; [exact G|exact Hain|]. intros w kw Hw.
        pose proof (shape_find _ _ _ _ _ _ (Good_shape _ G) Hw) as Hkw.
        assert (w = va) as -> by (eapply nodes_functional; [exact Hnd|eapply find_in_nodes; exact Hw|exact Hav]).
        destruct va; try discriminate; destruct kw; try reflexivity; discriminate. }
      assert (store (remove_single_raw st a) = fapp A (fapp (plug (with_kids z r)) B)) as E1.
      { cbn [remove_single_raw free_slots with_store store]. rewrite fsplice_fact, E.
        rewrite (kid_view a_splice a z A B ltac:(rewrite <- E; exact Hnd) Htc ltac:(rewrite Hk; left; reflexivity)).
        rewrite Hk. cbn [fact]. rewrite N.eqb_refl. reflexivity. }
      destruct (IH (remove_single_raw st a) (with_kids z r) A B (ext_good _ _ X1) Htc E1 ltac:(cbn; rewrite Ev; reflexivity) eq_refl) as (G2 & E2 & C2).
      split; [exact G2|]. split; [exact E2|]. rewrite C2. reflexivity.
Qed.

(* ---------- the right seam: the last spliced child and what follows it ---------- *)

(* the level  rev X ++ M ++ [l] ++ after  under [ups] *)
Definition lvl (X M : forest) (l : N) (vl : value) (kl after : forest) : forest :=
  frev_app X (fapp M (FCons l vl kl after)).

Lemma lvl_cursor X M l vl kl after ups :
  plug (mkz l vl kl (frev_app M X) after ups) = plug_ups (lvl X M l vl kl after) ups.
Proof. unfold plug, z_level, lvl. cbn [mkz z_before z_slot z_val z_kids z_after z_ups]. rewrite frev_app_frev_app. reflexivity. Qed.

Lemma seam_right st A B X M l vl kl after ups :
  Good st -> cons st = true -> ups <> [] -> (forall b a, outer_of b a ups = (FNil, FNil)) ->
  store st = fapp A (fapp (plug_ups (lvl X M l vl kl after) ups) B) ->
  is_normal vl = true -> (forall y, In y (level_vals after) -> is_normal y = true) ->
  exists st', fst (remove_consolidate st (Some l) (q_next st l)) = st' /\ Good st' /\ cons st' = true /\
    ((exists tl a ta a', vl = VText tl /\ after = FCons a (VText ta) FNil a'
        /\ store st' = fapp A (fapp (plug_ups (lvl X M l (VText (tl ++ ta)) kl a') ups) B))
     \/ (is_text_val vl && head_text after = false /\ st' = st)).
Proof.
  intros G Hcons Hne Hout E Hnl Haft. pose proof (Good_WF _ G) as W.
  set (zl := mkz l vl kl (frev_app M X) after ups).
  assert (top_clean zl) as Htc by (apply Hout).
  assert (store st = fapp A (fapp (plug zl) B)) as E' by (unfold zl; rewrite lvl_cursor; exact E).
  pose proof (cur_of_view st zl A B W Htc E') as Hl. cbn [zl mkz z_slot] in Hl.
  pose proof (Ext_remove_consolidate st (Some l) (q_next st l) G) as X1. pose proof (cons_rc st (Some l) (q_next st l)) as C1.
  eexists. split; [reflexivity|]. split; [exact (ext_good _ _ X1)|]. split; [congruence|].
  assert (q_next st l = oslot (next_sibling zl)) as Hq by (unfold q_next; rewrite Hl; reflexivity). 
  unfold next_sibling, right in Hq. cbn [zl mkz z_after] in Hq.
  destruct after as [|a va ka a'].
  - right. split; [apply andb_false_r|]. rewrite Hq. cbn [oslot]. rewrite (proj2 (rc_none st (Some l))). reflexivity.
  - assert (is_normal va = true) as Hna by (apply Haft; left; reflexivity).
    assert (vcat_eqb (zcat zl) (value_category va) = true) as Hcat.
    { unfold zcat. cbn [zl mkz z_val]. destruct vl; try discriminate; destruct va; try discriminate; reflexivity. }
    unfold zcat in Hq at 2. cbn [z_val] in Hq. rewrite Hcat in Hq. cbn [oslot z_slot] in Hq. rewrite Hq.
    destruct (is_text_val vl && is_text_val va) eqn:Et.
    + apply andb_true_iff in Et as [Et1 Et2]. destruct (text_value _ Et1) as [tl ->]. destruct (text_value _ Et2) as [ta ->].
      assert (ka = FNil) as ->.
      { assert (cur st a = Some (mkz a (VText ta) ka (FCons l (VText tl) kl (frev_app M X)) a' ups)) as Ha.
        { refine (cur_move st l zl (mkz a _ _ _ _ _) (proj1 W) Hl _). left. reflexivity. }
        exact (text_leaf st a _ W Ha eq_refl). }
      left. destruct (rc_adjacent st zl A B a ta a' tl W Hcons Htc E' eq_refl eq_refl) as (st' & Hrc & Hst' & _).
      cbn [zl mkz z_slot] in Hrc. rewrite Hrc. cbn [fst].
      exists tl, a, ta, a'. split; [reflexivity|]. split; [reflexivity|]. rewrite Hst'. unfold zset. cbn [zl mkz z_slot z_kids z_before z_ups].
      rewrite lvl_cursor. reflexivity.
    + right. cbn [head_text]. split; [exact Et|]. rewrite rc_other; [reflexivity|].
      rewrite (val_of_cur _ _ _ Hl). cbn [zl mkz z_val].
      assert (cur st a = Some (mkz a va ka (FCons l vl kl (frev_app M X)) a' ups)) as Ha.
      { refine (cur_move st l zl (mkz a _ _ _ _ _) (proj1 W) Hl _). left. reflexivity. }
      rewrite (val_of_cur _ _ _ Ha). cbn [mkz z_val].
      apply andb_false_iff in Et as [Et|Et]; [left|right]; intros s Hs; inversion Hs; subst; discriminate.
Qed.

(* ---------- the left seam: what stands before the first spliced child ---------- *)

Lemma seam_left st A B before first vf kf rest ups :
  Good st -> cons st = true -> ups <> [] -> (forall b a, outer_of b a ups = (FNil, FNil)) ->
  store st = fapp A (fapp (plug_ups (frev_app before (FCons first vf kf rest)) ups) B) ->
  is_normal vf = true ->
  exists st' m, remove_consolidate st (q_prev st first) (Some first) = (st', m) /\ Good st' /\ cons st' = true /\
    ((m = true /\ exists p tp kp b' tf, before = FCons p (VText tp) kp b' /\ vf = VText tf /\ kf = FNil
        /\ q_prev st first = Some p
        /\ store st' = fapp A (fapp (plug_ups (frev_app b' (FCons p (VText (tp ++ tf)) kp rest)) ups) B))
     \/ (m = false /\ st' = st /\ head_text before && is_text_val vf = false)).
Proof.
  intros G Hcons Hne Hout E Hnf. pose proof (Good_WF _ G) as W.
  set (zf := mkz first vf kf before rest ups).
  assert (top_clean zf) as Htc by (apply Hout).
  assert (store st = fapp A (fapp (plug zf) B)) as E' by exact E.
  pose proof (cur_of_view st zf A B W Htc E') as Hf. cbn [zf mkz z_slot] in Hf.
  pose proof (Ext_remove_consolidate st (q_prev st first) (Some first) G) as X1. pose proof (cons_rc st (q_prev st first) (Some first)) as C1.
  destruct (remove_consolidate st (q_prev st first) (Some first)) as [st' m] eqn:Hrc. cbn [fst] in X1, C1.
  exists st', m. split; [reflexivity|]. split; [exact (ext_good _ _ X1)|]. split; [congruence|].
  assert (q_prev st first = oslot (previous_sibling zf)) as Hq by (unfold q_prev; rewrite Hf; reflexivity).
  unfold previous_sibling, left in Hq. cbn [zf mkz z_before] in Hq.
  destruct before as [|p vp kp b'].
  - right. rewrite Hq in Hrc. cbn [oslot] in Hrc. rewrite (proj1 (rc_none st (Some first))) in Hrc. inversion Hrc. auto.
  - assert (cur st p = Some (mkz p vp kp b' (FCons first vf kf rest) ups)) as Hp.
    { refine (cur_move st first zf (mkz p _ _ _ _ _) (proj1 W) Hf _). right. left. reflexivity. }
    unfold zcat in Hq. cbn [zf mkz z_val] in Hq.
    assert (value_category vf = CNormal) as Hcf by (destruct vf; try discriminate; reflexivity). rewrite Hcf in Hq.
    destruct (is_text_val vp && is_text_val vf) eqn:Et.
    + apply andb_true_iff in Et as [Et1 Et2]. destruct (text_value _ Et1) as [tp ->]. destruct (text_value _ Et2) as [tf ->].
      cbn [value_category vcat_eqb oslot z_slot] in Hq.
      assert (kf = FNil) as -> by exact (text_leaf st first _ W Hf eq_refl).
      set (zp := mkz p (VText tp) kp b' (FCons first (VText tf) FNil rest) ups).
      assert (top_clean zp) as Htcp by (apply Hout).
      destruct (rc_adjacent st zp A B first tf rest tp W Hcons Htcp E eq_refl eq_refl) as (st'' & Hrc' & Hst'' & _).
      cbn [zp mkz z_slot] in Hrc'. rewrite Hq, Hrc' in Hrc. inversion Hrc; subst st'' m.
      left. split; [reflexivity|]. exists p, tp, kp, b', tf. repeat split; try reflexivity; [exact Hq|exact Hst''].
    + right. cbn [head_text]. 
      assert ((st', m) = (st, false)) as Hres.
      { rewrite <- Hrc, Hq. destruct (vcat_eqb CNormal (value_category vp)); cbn [oslot z_slot]; [|apply (proj1 (rc_none st (Some first)))].
        apply rc_other. rewrite (val_of_cur _ _ _ Hp), (val_of_cur _ _ _ Hf). cbn [mkz z_val].
        apply andb_false_iff in Et as [Et|Et]; [left|right]; intros s Hs; inversion Hs; subst; discriminate. }
      inversion Hres. auto.
Qed.

(* ---------- the clause on a level given as  rev Bf ++ [l] ++ after ---------- *)

Lemma na_list_at Bf l vl kl after :
  na_list (frev_app Bf (FCons l vl kl after))
  = na_list Bf && negb (head_text Bf && is_text_val vl) && negb (is_text_val vl && head_text after) && na_list after.
Proof.
  rewrite na_list_frev_app. cbn [na_list head_text].
  destruct (na_list Bf), (head_text Bf), (is_text_val vl), (head_text after), (na_list after); reflexivity.
Qed.

Lemma na_at Bf l vl kl after : na (frev_app Bf (FCons l vl kl after)) = na Bf && (na_list kl && na kl) && na after.
Proof. rewrite na_frev_app. cbn [na]. destruct (na Bf), (na_list kl), (na kl), (na after); reflexivity. Qed.

Lemma lvl_as_at X M l vl kl after : lvl X M l vl kl after = frev_app (frev_app M X) (FCons l vl kl after).
Proof. unfold lvl. rewrite frev_app_frev_app. reflexivity. Qed.

Lemma final_na A B ups Bf l vl kl after : ups <> [] ->
  na A = true -> na B = true -> na_ctx ups = true ->
  na_list Bf = true -> head_text Bf && is_text_val vl = false -> is_text_val vl && head_text after = false -> na_list after = true ->
  na Bf = true -> na_list kl = true -> na kl = true -> na after = true ->
  na (fapp A (fapp (plug_ups (frev_app Bf (FCons l vl kl after)) ups) B)) = true.
Proof.
  intros Hne HA HB Hctx H1 H2 H3 H4 H5 H6 H7 H8.
  rewrite na_store, (lev_inner _ _ Hne), na_list_at, na_at, HA, HB, Hctx, H1, H2, H3, H4, H5, H6, H7, H8. reflexivity.
Qed.

(* the right seam keeps the clause, given the clause on everything but the seam itself *)
Lemma seam_right_na st A B X M l vl kl after ups :
  Good st -> cons st = true -> ups <> [] -> (forall b a, outer_of b a ups = (FNil, FNil)) ->
  store st = fapp A (fapp (plug_ups (lvl X M l vl kl after) ups) B) ->
  is_normal vl = true -> (forall y, In y (level_vals after) -> is_normal y = true) ->
  na A = true -> na B = true -> na_ctx ups = true ->
  na_list (frev_app M X) = true -> head_text (frev_app M X) && is_text_val vl = false -> na_list after = true ->
  na (frev_app M X) = true -> na_list kl = true -> na kl = true -> na after = true ->
  noadj (fst (remove_consolidate st (Some l) (q_next st l))).
Proof.
  intros G Hcons Hne Hout E Hnl Haft HA HB Hctx H1 H2 H4 H5 H6 H7 H8.
  destruct (seam_right st A B X M l vl kl after ups G Hcons Hne Hout E Hnl Haft) as (st' & <- & _ & _ & Hcase).
  unfold noadj. destruct Hcase as [(tl & a & ta & a' & -> & -> & ->)|[Hno ->]].
  - rewrite lvl_as_at. cbn [na_list na head_text is_text_val] in *.
    apply andb_true_iff in H4 as [H4a H4b]. apply negb_true_iff in H4a. cbn [andb] in H4a.
    rewrite andb_true_r in H2.
    apply final_na; try assumption. rewrite H2. reflexivity.
  - rewrite E, lvl_as_at. apply final_na; assumption.
Qed.

(* ---------- the children that are spliced in ---------- *)

Lemma nrm_shape2 k : forall lo, shape CElem lo k = true -> shape CElem 2 (nrm_part k) = true.
Proof.
  induction k as [|i v kk _ r IH]; intros lo H; cbn [nrm_part]; [reflexivity|].
  destruct (is_normal v) eqn:Hv; [eapply shape_first_normal_all; eauto|].
  rewrite shape_cons in H. apply andb_true_iff in H as [_ H]. exact (IH _ H).
Qed.

Lemma nrm_na k : na_list k = true -> na k = true -> na_list (nrm_part k) = true /\ na (nrm_part k) = true.
Proof.
  intros H1 H2. rewrite (abn_nrm k) in H1, H2. rewrite na_list_fapp in H1. rewrite na_fapp in H2.
  apply andb_true_iff in H1 as [H1 _]. apply andb_true_iff in H1 as [_ H1]. apply andb_true_iff in H2 as [_ H2]. auto.
Qed.

Lemma frev_app_fapp a : forall b acc, frev_app (fapp a b) acc = frev_app b (frev_app a acc).
Proof. induction a as [|i v k _ r IH]; intros b acc; cbn [fapp frev_app]; [reflexivity|]. apply IH. Qed.

Lemma frev_fapp a b : frev (fapp a b) = fapp (frev b) (frev a).
Proof. unfold frev at 1. rewrite frev_app_fapp, frev_app_as_fapp. reflexivity. Qed.

(* the last child of the element is the last of its ordinary children, when it has any *)
Lemma last_of_kids k : nrm_part k <> FNil -> exists l vl kl r0 X, frev (nrm_part k) = FCons l vl kl r0 /\ frev k = FCons l vl kl X.
Proof.
  intros Hne. pose proof (f_equal frev (abn_nrm k)) as H. rewrite frev_fapp in H.
  destruct (frev (nrm_part k)) as [|l vl kl r0] eqn:E.
  - apply frev_nil in E. contradiction.
  - exists l, vl, kl, r0. eexists. split; [reflexivity|]. rewrite H. cbn [fapp]. reflexivity.
Qed.

Lemma first_last_cases K first vf kf K' last vl kl r0 :
  K = FCons first vf kf K' -> K = fapp (frev r0) (FCons last vl kl FNil) -> NoDup (ids K) ->
  (first = last /\ K' = FNil /\ vf = vl /\ kf = kl) \/ (first <> last /\ exists M, K' = fapp M (FCons last vl kl FNil)).
Proof.
  intros E1 E2 Hnd. rewrite E1 in E2, Hnd. destruct (frev r0) as [|j vj kj M]; cbn [fapp] in E2; inversion E2; subst.
  - left. auto.
  - right. split; [|eexists; reflexivity]. intros ->. cbn [ids] in Hnd. apply NoDup_cons_iff in Hnd as [Hx _]. apply Hx.
    apply in_or_app. right. rewrite ids_fapp. apply in_or_app. right. left. reflexivity.
Qed.

Lemma before_last_facts X Kx M last vl kl : Kx = fapp M (FCons last vl kl FNil) ->
  na_list X = true -> na_list Kx = true -> head_text X && head_text Kx = false -> na X = true -> na Kx = true ->
  na_list (frev_app M X) = true /\ head_text (frev_app M X) && is_text_val vl = false /\ na (frev_app M X) = true
  /\ na_list kl = true /\ na kl = true.
Proof.
  intros -> H1 H2 H3 H4 H5.
  assert (na_list (frev_app X (fapp M (FCons last vl kl FNil))) = true) as L by (rewrite na_list_frev_app, H1, H2, H3; reflexivity).
  assert (na (frev_app X (fapp M (FCons last vl kl FNil))) = true) as N by (rewrite na_frev_app, H4, H5; reflexivity).
  rewrite <- frev_app_frev_app in L, N. rewrite na_list_at in L. rewrite na_at in N. cbn [head_text na_list na] in L, N.
  rewrite !andb_true_r, andb_false_r in L. cbn [negb] in L. rewrite andb_true_r in L. rewrite andb_true_r in N.
  apply andb_true_iff in L as [L1 L2]. apply negb_true_iff in L2.
  apply andb_true_iff in N as [N1 N2]. apply andb_true_iff in N2 as [N2 N3]. auto.
Qed.

(* ---------- element_unwrap ---------- *)

Lemma q_next_view st zl A B : WF st -> top_clean zl -> store st = fapp A (fapp (plug zl) B) ->
  q_next st (z_slot zl) = oslot (next_sibling zl).
Proof. intros W Htc E. unfold q_next. rewrite (cur_of_view st zl A B W Htc E). reflexivity. Qed.

Lemma noadj_m_unwrap st n : Good st -> cons st = true -> noadj st -> noadj (fst (m_unwrap st n)).
Proof.
  intros G Hcons Hna. unfold m_unwrap.
  destruct (is_type st n TElement) eqn:He; cbn [negb fst]; [|exact Hna].
  destruct (q_first_child st n) as [first|] eqn:Efc; [|apply noadj_m_remove; assumption].
  destruct (q_last_child st n) as [last|] eqn:Elc; [|exact Hna].
  destruct ((match q_parent st n with None => true | Some _ => false end) && negb (N.eqb first last)) eqn:Eguard; [exact Hna|].
  assert (exists z, cur st n = Some z) as [z Hz].
  { unfold q_first_child in Efc. destruct (cur st n) as [z|]; [eauto|discriminate]. }
  pose proof (Good_WF _ G) as W0. destruct (zview _ _ _ Hz) as [Htc (A & B & E)]. pose proof (cur_slot _ _ _ Hz) as Hzs.
  rewrite (abnormal_child_slots_spec _ _ _ Hz).
  assert (is_elem (z_val z) = true) as Hel.
  { unfold is_type, val in He. rewrite Hz in He. destruct (z_val z); try discriminate; reflexivity. }
  destruct (strip_view (z_kids z) st z A B G Htc E Hel eq_refl) as (G1 & E1 & C1).
  set (st1 := fold_left remove_single_raw (abn_prefix (z_kids z)) st) in *.
  set (K := nrm_part (z_kids z)) in *.
  pose proof (Good_WF _ G1) as W1.
  pose proof (cur_of_view st1 (with_kids z K) A B W1 Htc E1) as Hz1. cbn [with_kids z_slot] in Hz1. rewrite Hzs in Hz1.
  (* the ordinary children *)
  pose proof (shape_find _ _ _ _ _ _ (Good_shape _ G) (find_of_cur _ _ _ Hz)) as Hsk.
  assert (shape CElem 0 (z_kids z) = true) as Hsk0 by (destruct (z_val z); try discriminate; exact Hsk).
  pose proof (nrm_shape2 _ _ Hsk0) as HsK. fold K in HsK.
  pose proof (shape2_all_normal _ HsK) as HKn. rewrite Forall_forall in HKn.
  destruct (na_parts st z A B E Hna) as (HnA & HnB & Hctx & Hnbef & Hnaft & Hk1 & Hk2 & Hinner).
  destruct (nrm_na _ Hk1 Hk2) as [HK1 HK2]. fold K in HK1, HK2.
  assert (exists vf kf K', K = FCons first vf kf K') as (vf & kf & K' & EK).
  { unfold q_first_child, first_child, normal_children, arena_children in Efc. rewrite Hz in Efc.
    pose proof (first_normal_level (z_kids z) (frame_of z :: z_ups z) FNil) as H. fold K in H.
    destruct (hd_error _) as [c|]; [|discriminate]. cbn [oslot option_map] in *. inversion Efc; subst first.
    destruct K as [|i v k r]; [discriminate|]. cbn [hd_pair] in H. inversion H as [[H1 H2]]. eauto. }
  assert (K <> FNil) as HKne by (rewrite EK; discriminate).
  destruct (last_of_kids _ HKne) as (l & vl & kl & r0 & Xl & Efr & Efk). fold K in Efr.
  assert (l = last) as ->.
  { pose proof (last_child_view st n z W0 Hz) as L. rewrite Efk in L. destruct L as (_ & L & _). rewrite Elc in L.
    destruct (is_normal vl); [inversion L; reflexivity|discriminate]. }
  pose proof (erase_snoc_frev _ _ _ _ _ Efr) as EKl.
  assert (is_normal vf = true) as Hnf by (apply HKn; rewrite EK; left; reflexivity).
  assert (is_normal vl = true) as Hnl.
  { apply HKn. rewrite EKl, level_vals_fapp. apply in_or_app. right. left. reflexivity. }
  assert (NoDup (ids K)) as HndK by (apply (kids_nodup st1 n _ W1 Hz1)).
  (* the element is taken out, its children take its place *)
  set (st2 := remove_single_raw st1 n).
  assert (Ext st1 st2) as X2.
  { apply Ext_remove_single_inner; [exact G1|eapply cur_in; exact Hz1|].
    intros w kw Hw. rewrite (find_of_cur _ _ _ Hz1) in Hw. inversion Hw; subst. exact HsK. }
  pose proof (ext_good _ _ X2) as G2. assert (cons st2 = true) as C2 by (unfold st2; cbn; rewrite C1; exact Hcons).
  destruct (z_ups z) as [|fr ups'] eqn:Eu.
  - (* a parentless element with one ordinary child *)
    assert (first = last) as ->.
    { assert (q_parent st n = None) as Hp by (unfold q_parent; rewrite Hz; unfold parent, up; rewrite Eu; reflexivity).
      rewrite Hp in Eguard. cbn [andb] in Eguard. apply negb_false_iff in Eguard. apply N.eqb_eq in Eguard. exact Eguard. }
    assert (store st2 = fapp A (fapp K B)) as E2.
    { unfold st2. cbn [remove_single_raw free_slots with_store store]. rewrite fsplice_fact.
      revert E1. rewrite (plug_root (with_kids z K) Htc Eu). cbn [fapp with_kids z_slot z_val z_kids]. rewrite Hzs. intros E1.
      rewrite (fact_root a_splice _ n (z_val z) K A B (proj1 W1) E1). reflexivity. }
    assert (K' = FNil) as EK'.
    { destruct (first_last_cases K last vf kf K' last vl kl r0 EK EKl HndK) as [(_ & H & _)|(H & _)]; [exact H|congruence]. }
    rewrite EK, EK' in E2. cbn [fapp] in E2.
    assert (cur st2 last = Some (mkz last vf kf FNil FNil [])) as Hc2.
    { apply (cur_of_view st2 (mkz last vf kf FNil FNil []) A B (Good_WF _ G2)); [reflexivity|exact E2]. }
    destruct (q_prev_root st2 last _ Hc2 eq_refl) as [Hq1 Hq2]. rewrite Hq1, Hq2.
    rewrite (proj1 (rc_none st2 (Some last))). cbn [fst].
    assert (q_next st2 last = None) as -> by exact Hq2. rewrite (proj2 (rc_none st2 (Some last))). cbn [fst].
    unfold noadj. rewrite E2, !na_fapp. cbn [na]. rewrite HnA, HnB. rewrite EK, EK' in HK2. cbn [na] in HK2. rewrite andb_true_r in HK2. rewrite HK2. reflexivity.
  - (* inside a tree *)
    assert (fr :: ups' <> []) as Hne by discriminate.
    assert (forall b a, outer_of b a (fr :: ups') = (FNil, FNil)) as Hout.
    { intros b a. unfold top_clean in Htc. rewrite Eu in Htc. exact Htc. }
    destruct (Hinner Hne) as (Hlbef & Hlaft & _ & _).
    assert (forall y, In y (level_vals (z_after z)) -> is_normal y = true) as Haftn.
    { apply (level_sorted st n z W0 Hz ltac:(rewrite Eu; discriminate)). destruct (z_val z); try discriminate; reflexivity. }
    assert (store st2 = fapp A (fapp (plug_ups (frev_app (z_before z) (fapp K (z_after z))) (fr :: ups')) B)) as E2.
    { unfold st2. cbn [remove_single_raw free_slots with_store store]. rewrite fsplice_fact. rewrite <- Hzs.
      change (z_slot z) with (z_slot (with_kids z K)).
      rewrite (fact_inner a_splice _ (with_kids z K) A B (proj1 W1) Htc ltac:(cbn; rewrite Eu; discriminate) E1).
      cbn [with_kids z_slot z_val z_kids z_before z_after z_ups a_splice]. rewrite Eu. reflexivity. }
    rewrite EK in E2. cbn [fapp] in E2.
    destruct (seam_left st2 A B (z_before z) first vf kf (fapp K' (z_after z)) (fr :: ups') G2 C2 Hne Hout E2 Hnf)
      as (st3 & m & Hrc & G3 & C3 & Hcase).
    rewrite Hrc.
    destruct Hcase as [(-> & p & tp & kp & b' & tf & Eb & -> & -> & Hqp & E3)|(-> & -> & Hnm)].
    + (* the first child went into the text before it *)
      rewrite Eb in Hlbef, Hnbef. cbn [na_list na head_text is_text_val] in Hlbef, Hnbef.
      apply andb_true_iff in Hlbef as [Hlb1 Hlb2]. apply negb_true_iff in Hlb1. cbn [andb] in Hlb1.
      rewrite EK in HK1, HK2. cbn [na_list na head_text is_text_val] in HK1, HK2.
      apply andb_true_iff in HK1 as [HK1a HK1b]. apply negb_true_iff in HK1a. cbn [andb] in HK1a.
      apply andb_true_iff in Hnbef as [Hx Hnb']. apply andb_true_iff in Hx as [Hlkp Hnkp].
      destruct (N.eqb_spec first last) as [Hfl|Hfl].
      * (* ... and was the only one *)
        subst last.
        assert (K' = FNil) as EK'.
        { destruct (first_last_cases K first (VText tf) FNil K' first vl kl r0 EK EKl HndK) as [(_ & H & _)|(H & _)]; [exact H|congruence]. }
        rewrite EK' in *. cbn [fapp] in E2, E3.
        (* the neighbour after it, as seen before and after the merge *)
        set (zf := mkz first (VText tf) FNil (z_before z) (z_after z) (fr :: ups')).
        assert (q_next st2 first = oslot (next_sibling zf)) as Hqn2.
        { apply (q_next_view st2 zf A B (Good_WF _ G2)); [apply Hout|exact E2]. }
        set (zp := mkz p (VText (tp ++ tf)) kp b' (z_after z) (fr :: ups')).
        assert (q_next st3 p = oslot (next_sibling zp)) as Hqn3.
        { apply (q_next_view st3 zp A B (Good_WF _ G3)); [apply Hout|exact E3]. }
        assert (q_next st2 first = q_next st3 p) as Hsame.
        { rewrite Hqn2, Hqn3. unfold next_sibling, right, zcat. cbn [zf zp mkz z_after z_val]. destruct (z_after z) as [|sa va ka ra]; [reflexivity|]. cbn [z_val value_category]. destruct (vcat_eqb CNormal (value_category va)); reflexivity. }
        rewrite Hqp, Hsame.
        apply (seam_right_na st3 A B b' FNil p (VText (tp ++ tf)) kp (z_after z) (fr :: ups') G3 C3 Hne Hout); try assumption; try reflexivity.
        cbn [frev_app]. rewrite Hlb1. reflexivity.
      * (* ... and there are more *)
        destruct (first_last_cases K first (VText tf) FNil K' last vl kl r0 EK EKl HndK) as [(H & _)|(_ & M & EM)]; [congruence|].
        set (X := FCons p (VText (tp ++ tf)) kp b').
        assert (store st3 = fapp A (fapp (plug_ups (lvl X M last vl kl (z_after z)) (fr :: ups')) B)) as E3'.
        { rewrite E3, EM, fapp_assoc. reflexivity. }
        destruct (before_last_facts X K' M last vl kl EM) as (F1 & F2 & F3 & F4 & F5).
        { cbn [X na_list head_text is_text_val]. rewrite Hlb1, Hlb2. reflexivity. }
        { exact HK1b. }
        { rewrite HK1a. apply andb_false_r. }
        { cbn [X na]. rewrite Hlkp, Hnkp, Hnb'. reflexivity. }
        { apply andb_true_iff in HK2 as [_ HK2]. exact HK2. }
        apply (seam_right_na st3 A B X M last vl kl (z_after z) (fr :: ups') G3 C3 Hne Hout E3' Hnl Haftn); assumption.
    + (* nothing went into the text before the first child *)
      set (M := frev r0) in *.
      assert (store st2 = fapp A (fapp (plug_ups (lvl (z_before z) M last vl kl (z_after z)) (fr :: ups')) B)) as E2'.
      { rewrite E2. unfold lvl. change (FCons first vf kf (fapp K' (z_after z))) with (fapp (FCons first vf kf K') (z_after z)).
        rewrite <- EK. rewrite EKl at 1. rewrite fapp_assoc. reflexivity. }
      destruct (before_last_facts (z_before z) K M last vl kl EKl Hlbef HK1) as (F1 & F2 & F3 & F4 & F5); try assumption.
      { rewrite EK. cbn [head_text]. exact Hnm. }
      assert (noadj (fst (remove_consolidate st2 (Some last) (q_next st2 last)))) as Hfin
        by (apply (seam_right_na st2 A B (z_before z) M last vl kl (z_after z) (fr :: ups') G2 C2 Hne Hout E2' Hnl Haftn); assumption).
      destruct (N.eqb first last); exact Hfin.
Qed.

Lemma cons_fold_remove_single l : forall st, cons (fold_left remove_single_raw l st) = cons st.
Proof. induction l as [|a l IH]; intros st; cbn [fold_left]; [reflexivity|]. rewrite IH. reflexivity. Qed.

Lemma cons_m_unwrap st n : cons (fst (m_unwrap st n)) = cons st.
Proof.
  unfold m_unwrap. destruct (negb (is_type st n TElement)); [reflexivity|].
  destruct (q_first_child st n) as [first|]; [|apply cons_m_remove].
  destruct (q_last_child st n) as [last|]; [|reflexivity].
  destruct (_ && _); [reflexivity|].
  set (st2 := remove_single_raw (fold_left remove_single_raw (abnormal_child_slots st n) st) n).
  assert (cons st2 = cons st) as C2 by (unfold st2; cbn; apply cons_fold_remove_single).
  pose proof (cons_rc st2 (q_prev st2 first) (Some first)) as C3.
  destruct (remove_consolidate st2 (q_prev st2 first) (Some first)) as [st3 m]. cbn [fst] in C3.
  destruct m; [destruct (N.eqb first last)|]; cbn [fst]; rewrite cons_rc; congruence.
Qed.

(* ---------- the step theorem again, now with element_wrap and element_unwrap ---------- *)

Definition plain_op2 (o : mop) : bool :=
  match o with OReplace _ _ | OCons false => false | _ => true end.

Theorem noadj_mstep2 st o : Good st -> cons st = true -> noadj st -> plain_op2 o = true -> noadj (fst (mstep st o)).
Proof.
  intros G Hc Hna Hp. destruct (plain_op o) eqn:E; [apply noadj_mstep; assumption|].
  destruct o; try discriminate E; try discriminate Hp.
  - cbn [mstep]. apply noadj_m_wrap; assumption.
  - cbn [mstep]. apply noadj_m_unwrap; assumption.
  - destruct b; discriminate.
Qed.

Lemma cons_mstep2 st o : plain_op2 o = true -> cons st = true -> cons (fst (mstep st o)) = true.
Proof.
  intros Hp Hc. destruct (plain_op o) eqn:E; [apply cons_mstep; assumption|].
  destruct o; try discriminate E; try discriminate Hp.
  - cbn [mstep]. rewrite cons_m_wrap. exact Hc.
  - cbn [mstep]. rewrite cons_m_unwrap. exact Hc.
  - destruct b; discriminate.
Qed.

Theorem noadj_history2 ops : forall st, Good st -> cons st = true -> noadj st -> forallb plain_op2 ops = true ->
  noadj (hfinal st ops) /\ cons (hfinal st ops) = true.
Proof.
  induction ops as [|o ops IH]; intros st G Hc Hna Hp; cbn [hfinal fold_left]; [auto|].
  cbn [forallb] in Hp. apply andb_true_iff in Hp as [Ho Hp].
  apply IH; [exact (ext_good _ _ (Ext_mstep st o G))|apply cons_mstep2; assumption|apply noadj_mstep2; assumption|exact Hp].
Qed.
