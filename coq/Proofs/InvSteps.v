(* InvSteps.v — C04: the invariant of the store (slot table consistent, forest well shaped) is preserved by every
   arena primitive and every consolidation helper, and slot generations only grow.  The operations of the public API
   are composed from these in Proofs/InvOps.v. *)
From Coq Require Import List NArith ZArith Bool Lia Permutation Arith.
From XotV Require Import Model.Base Model.Zipper Model.Access Model.Store Model.Manip Spec.DocOrder Spec.Paths Spec.Shape
                         Proofs.PermTac Proofs.StoreProofs Proofs.ForestFacts Proofs.ShapeProofs Proofs.KeysProofs Proofs.InvProofs.
Import ListNotations.
Open Scope N_scope.

(* ---------- values seen through cursors = values in the forest ---------- *)

Lemma find_in_nodes n f v k : find n f = Some (v, k) -> In (n, v) (nodes f).
Proof.
  revert v k. induction f as [|i v0 k0 IHk r0 IHr]; intros v k; cbn [find]; [discriminate|].
  destruct (N.eqb_spec i n) as [->|Hne].
  - intros H. inversion H; subst. left. reflexivity.
  - destruct (find n k0) as [x|] eqn:Ek.
    + intros H. inversion H; subst. right. apply in_or_app. left. eapply IHk. reflexivity.
    + intros H. right. apply in_or_app. right. eapply IHr. exact H.
Qed.

Lemma locate_in_find f : forall ups b n z, locate_in ups b n f = Some z -> find n f = Some (z_val z, z_kids z).
Proof.
  induction f as [|i v k IHk r IHr]; intros ups b n z; cbn [locate_in find]; [discriminate|].
  destruct (N.eqb i n) eqn:E.
  - intros H. inversion H; subst. reflexivity.
  - destruct (locate_in _ FNil n k) as [z1|] eqn:E1.
    + intros H. inversion H; subst. rewrite (IHk _ _ _ _ E1). reflexivity.
    + apply locate_in_none in E1. apply find_none in E1. rewrite E1. apply IHr.
Qed.

Lemma locate_find store : forall n z, locate n store = Some z -> find n store = Some (z_val z, z_kids z).
Proof.
  induction store as [|i v k _ r IHr]; intros n z; cbn [locate]; [discriminate|].
  destruct (locate_in [] FNil n (FCons i v k FNil)) as [z1|] eqn:E.
  - intros H. inversion H; subst. apply locate_in_find in E. cbn [find] in *.
    destruct (N.eqb i n); [exact E|]. destruct (find n k) as [x|]; [exact E|discriminate].
  - intros H. apply locate_in_none in E. cbn in E. rewrite app_nil_r in E.
    assert (i <> n) as Hne by (intros ->; apply E; left; reflexivity).
    apply N.eqb_neq in Hne. cbn [find]. rewrite Hne.
    assert (find n k = None) as ->.
    { apply find_none. intros Hin. apply E. right. exact Hin. }
    apply IHr. exact H.
Qed.

Lemma val_find st n v : val st n = Some v -> exists k, find n (store st) = Some (v, k).
Proof.
  unfold val. destruct (cur st n) as [z|] eqn:E; [|discriminate]. intros H. inversion H; subst.
  exists (z_kids z). apply locate_find. exact E.
Qed.

Lemma fst_functional {A B} (l : list (A * B)) a b c : NoDup (map fst l) -> In (a, b) l -> In (a, c) l -> b = c.
Proof.
  induction l as [|[x y] l IH]; cbn; [intros _ []|]. intros Hnd [H1|H1] [H2|H2].
  - congruence.
  - inversion H1; subst. inversion Hnd; subst. exfalso. apply H3. apply (in_map fst) in H2. exact H2.
  - inversion H2; subst. inversion Hnd; subst. exfalso. apply H3. apply (in_map fst) in H1. exact H1.
  - inversion Hnd; subst. apply IH; assumption.
Qed.

Lemma nodes_functional f n v w : NoDup (ids f) -> In (n, v) (nodes f) -> In (n, w) (nodes f) -> v = w.
Proof. rewrite ids_nodes. apply fst_functional. Qed.

Lemma val_nodes st n v : val st n = Some v -> In (n, v) (nodes (store st)).
Proof. intros H. destruct (val_find _ _ _ H) as [k Hk]. eapply find_in_nodes. exact Hk. Qed.

Lemma nodes_val st n v : NoDup (ids (store st)) -> In (n, v) (nodes (store st)) -> val st n = Some v.
Proof.
  intros Hnd Hin. assert (In n (ids (store st))) as Hi by (rewrite ids_nodes; apply (in_map fst) in Hin; exact Hin).
  destruct (locate_found _ _ Hi) as [z Hz]. unfold val, cur. rewrite Hz. f_equal.
  apply locate_find in Hz. apply find_in_nodes in Hz. eapply nodes_functional; eauto.
Qed.

Lemma is_type_val st n t : is_type st n t = true -> exists v, val st n = Some v /\ value_type v = t.
Proof.
  unfold is_type. destruct (val st n) as [v|]; [|discriminate]. intros H. exists v. split; [reflexivity|].
  destruct (value_type v), t; try discriminate; reflexivity.
Qed.

Lemma is_normal_node_val st n : is_normal_node st n = true -> exists v, val st n = Some v /\ is_normal v = true.
Proof. unfold is_normal_node. destruct (val st n) as [v|]; [|discriminate]. intros H. exists v. auto. Qed.

Lemma ids_nil f : ids f = [] -> f = FNil.
Proof. destruct f; [reflexivity|discriminate]. Qed.

(* the kids of every node of a well-shaped forest are what its value allows *)
Lemma shape_find n f : forall c lo v k, shape c lo f = true -> find n f = Some (v, k) -> kids_ok v k = true.
Proof.
  induction f as [|i v0 k0 IHk r0 IHr]; intros c lo v k; cbn [find]; [discriminate|].
  rewrite shape_cons. intros H. apply andb_true_iff in H as [H H3]. apply andb_true_iff in H as [H1 H2].
  destruct (N.eqb i n).
  - intros E. inversion E; subst. exact H2.
  - destruct (find n k0) as [x|] eqn:Ek.
    + intros E. inversion E; subst.
      destruct v0; cbn [kids_ok] in H2; try (destruct k0; [discriminate Ek|discriminate H2]); eapply IHk; eauto.
    + intros E. eapply IHr; eauto.
Qed.

Lemma same_class_refl v : same_class v v.
Proof. repeat split. Qed.

Lemma same_class_trans a b c : same_class a b -> same_class b c -> same_class a c.
Proof. intros (H1 & H2 & H3) (H4 & H5 & H6). repeat split; congruence. Qed.


(* ---------- values only change within their class, nodes only disappear ---------- *)

Definition vsub (f f1 : forest) : Prop :=
  forall x v1, In (x, v1) (nodes f1) -> exists v, In (x, v) (nodes f) /\ same_class v v1.

Lemma vsub_refl f : vsub f f.
Proof. intros x v H. exists v. split; [exact H|apply same_class_refl]. Qed.

Lemma vsub_trans a b c : vsub a b -> vsub b c -> vsub a c.
Proof.
  intros H1 H2 x v Hc. destruct (H2 _ _ Hc) as (v' & Hb & Hs). destruct (H1 _ _ Hb) as (v'' & Ha & Hs').
  exists v''. split; [exact Ha|eapply same_class_trans; eauto].
Qed.

Lemma nodes_fsplice_incl n f : incl (nodes (fsplice n f)) (nodes f).
Proof.
  induction f as [|i v k IHk r IHr]; cbn [fsplice]; [intros x []|].
  destruct (N.eqb i n).
  - rewrite nodes_fapp. cbn. intros x Hx. right. exact Hx.
  - cbn. intros x [Hx|Hx]; [left; exact Hx|right].
    apply in_app_or in Hx as [Hx|Hx]; apply in_or_app; [left; apply IHk|right; apply IHr]; exact Hx.
Qed.

Lemma vsub_fsplice n f : vsub f (fsplice n f).
Proof. intros x v H. exists v. split; [apply nodes_fsplice_incl in H; exact H|apply same_class_refl]. Qed.

Lemma vsub_fset_val' n g f : (forall v, In (n, v) (nodes f) -> same_class v (g v)) -> vsub f (fset_val n g f).
Proof.
  induction f as [|i v k IHk r IHr]; intros Hg; cbn [fset_val]; [intros x w []|].
  destruct (N.eqb_spec i n) as [->|Hne].
  - cbn. intros x w [Hx|Hx].
    + inversion Hx; subst. exists v. split; [left; reflexivity|apply Hg; left; reflexivity].
    + exists w. split; [right; exact Hx|apply same_class_refl].
  - cbn. intros x w [Hx|Hx].
    + inversion Hx; subst. exists w. split; [left; reflexivity|apply same_class_refl].
    + apply in_app_or in Hx as [Hx|Hx].
      * destruct (IHk (fun v0 H0 => Hg v0 (or_intror (in_or_app _ _ _ (or_introl H0)))) _ _ Hx) as (v' & H1 & H2).
        exists v'. split; [right; apply in_or_app; left; exact H1|exact H2].
      * destruct (IHr (fun v0 H0 => Hg v0 (or_intror (in_or_app _ _ _ (or_intror H0)))) _ _ Hx) as (v' & H1 & H2).
        exists v'. split; [right; apply in_or_app; right; exact H1|exact H2].
Qed.

Lemma vsub_fset_val n g f : (forall v, same_class v (g v)) -> vsub f (fset_val n g f).
Proof. intros Hg. apply vsub_fset_val'. intros v _. apply Hg. Qed.

Lemma vsub_perm f f1 : Permutation (nodes f) (nodes f1) -> vsub f f1.
Proof.
  intros Hp x v H. exists v. split; [eapply Permutation_in; [apply Permutation_sym; exact Hp|exact H]|apply same_class_refl].
Qed.

Lemma vsub_fcut n f f' t : fcut n f = Some (f', t) -> vsub f f'.
Proof.
  destruct t as [[i v] k]. intros H x w Hx. apply fcut_spec in H as [_ Hp]. exists w. split; [|apply same_class_refl].
  eapply Permutation_in; [apply Permutation_sym; exact Hp|]. right. apply in_or_app. right. exact Hx.
Qed.

(* what a value of the earlier state says about the later one *)
Lemma vsub_val f f1 x v v1 : NoDup (ids f) -> vsub f f1 -> In (x, v) (nodes f) -> In (x, v1) (nodes f1) -> same_class v v1.
Proof.
  intros Hnd Hs Hv Hv1. destruct (Hs _ _ Hv1) as (v' & Hin & Hc). rewrite (nodes_functional _ _ _ _ Hnd Hv Hin). exact Hc.
Qed.


(* ---------- the invariant and the "grows" order on slot generations ---------- *)

Definition Good (st : xstate) : Prop := SlotInv st /\ shape_store (store st) = true /\ keys (store st) = true.

Lemma Good_shape st : Good st -> shape_store (store st) = true.
Proof. intros (_ & H & _). exact H. Qed.
Lemma Good_keys st : Good st -> keys (store st) = true.
Proof. intros (_ & _ & H). exact H. Qed.
Lemma Good_slots st : Good st -> SlotInv st.
Proof. intros (H & _). exact H. Qed.

(* generation of a slot: 2 * stamp while the slot is in use, 2 * stamp + 1 once that use has ended; a handle
   (slot, stamp) is live exactly while the generation is 2 * stamp, and generations never decrease *)
Definition gen (st : xstate) (i : N) : Z :=
  let s := stamp_of st i in if (s <? 0)%Z then (-2 * s - 1)%Z else (2 * s)%Z.

Definition grows (a b : xstate) : Prop := forall i, (gen a i <= gen b i)%Z.

(* [b] extends [a]: both are good, no generation went down, the arena did not shrink, and a slot that is still in the
   same incarnation holds a value of the same class (document / element / other ordinary node / attribute / namespace) *)
Record Ext (a b : xstate) : Prop := {
  ext_good0 : Good a;
  ext_good : Good b;
  ext_grows : grows a b;
  ext_len : (length (stamps a) <= length (stamps b))%nat;
  ext_class : forall x v v', gen a x = gen b x -> val a x = Some v -> val b x = Some v' -> same_class v v'
}.

Lemma grows_refl a : grows a a.
Proof. intros i. lia. Qed.

Lemma grows_trans a b c : grows a b -> grows b c -> grows a c.
Proof. intros H1 H2 i. specialize (H1 i). specialize (H2 i). lia. Qed.

Lemma Ext_refl a : Good a -> Ext a a.
Proof.
  intros H. constructor; [exact H|exact H|apply grows_refl|lia|].
  intros x v v' _ H1 H2. rewrite H1 in H2. inversion H2. apply same_class_refl.
Qed.

Lemma in_ids_val st x : In x (ids (store st)) -> exists v, val st x = Some v.
Proof. intros H. destruct (locate_found _ _ H) as [z Hz]. unfold val, cur. rewrite Hz. eauto. Qed.

(* a slot that is in use and whose generation did not move is still in use *)
Lemma live_same_gen a b x :
  Good a -> Good b -> (length (stamps a) <= length (stamps b))%nat -> gen a x = gen b x ->
  In x (ids (store a)) -> In x (ids (store b)).
Proof.
  intros [[A1 A2 A3 A4 A5] _] [[B1 B2 B3 B4 B5] _] Hlen Hg Hin.
  assert (In x (slots_used a)) as Hu by (unfold slots_used; apply in_or_app; left; exact Hin).
  pose proof (A2 x Hu) as Hb. pose proof (A4 x Hin) as Hs.
  assert (In x (slots_used b)) as Hub.
  { rewrite <- (N2Nat.id x). apply B3. lia. }
  unfold slots_used in Hub. apply in_app_or in Hub as [Hub|Hub]; [exact Hub|].
  apply B5 in Hub. exfalso. unfold gen in Hg.
  destruct (stamp_of a x <? 0)%Z eqn:E1; [apply Z.ltb_lt in E1; lia|].
  destruct (stamp_of b x <? 0)%Z eqn:E2; [lia|apply Z.ltb_ge in E2; lia].
Qed.

Lemma val_in_ids' st x v : val st x = Some v -> In x (ids (store st)).
Proof. unfold val. destruct (cur st x) as [z|] eqn:E; [|discriminate]. intros _. eapply cur_in. exact E. Qed.

Lemma Ext_trans a b c : Ext a b -> Ext b c -> Ext a c.
Proof.
  intros [Ga Gb H1 L1 C1] [_ Gc H2 L2 C2]. constructor; [exact Ga|exact Gc|eapply grows_trans; eauto|lia|].
  intros x v v'' Hg Hva Hvc. pose proof (H1 x) as M1. pose proof (H2 x) as M2.
  assert (gen a x = gen b x) as E1 by lia. assert (gen b x = gen c x) as E2 by lia.
  assert (In x (ids (store b))) as Hb by (eapply (live_same_gen a b); eauto; eapply val_in_ids'; eauto).
  destruct (in_ids_val _ _ Hb) as [vb Hvb].
  eapply same_class_trans; [eapply C1; eauto|eapply C2; eauto].
Qed.

Lemma Ext_step a b c : Ext a b -> (Good b -> Ext b c) -> Ext a c.
Proof. intros H1 H2. eapply Ext_trans; [exact H1|]. apply H2. apply H1. Qed.

Lemma Good_nodup st : Good st -> NoDup (ids (store st)).
Proof. intros [[H _ _ _ _] _]. unfold slots_used in H. apply NoDup_app_inv in H. tauto. Qed.

(* same stamps => same generations *)
Lemma grows_same_stamps a b : stamps b = stamps a -> grows a b.
Proof. intros H i. unfold gen, stamp_of. rewrite H. lia. Qed.

(* ---------- rearranging the forest ---------- *)

Lemma class_from_vsub st f' x v v' :
  Good st -> vsub (store st) f' -> val st x = Some v -> In (x, v') (nodes f') -> same_class v v'.
Proof.
  intros G Hs Hv Hin. eapply vsub_val; [apply Good_nodup; exact G|exact Hs|apply val_nodes; exact Hv|exact Hin].
Qed.

Lemma Ext_with_store st f' :
  Good st -> Permutation (ids f') (ids (store st)) -> shape_store f' = true -> keys f' = true -> vsub (store st) f' ->
  Ext st (with_store st f').
Proof.
  intros G Hp Hsh Hky Hvs. pose proof G as [Hs _].
  constructor; [exact G|split; [apply SlotInv_with_store; assumption|split; [exact Hsh|exact Hky]]|apply grows_same_stamps; reflexivity|cbn; lia|].
  intros x v v' _ Hv Hv'. apply val_nodes in Hv'. cbn [store with_store] in Hv'. eapply class_from_vsub; eauto.
Qed.

(* ---------- freeing slots ---------- *)

Lemma free_slot_length s i : length (free_slot s i) = length s.
Proof. unfold free_slot. apply set_nth_length. Qed.

Lemma fold_free_length l : forall s, length (fold_left free_slot l s) = length s.
Proof. induction l as [|a l IH]; intros s; cbn; [reflexivity|]. rewrite IH. apply free_slot_length. Qed.

Lemma nth_fold_free_other l : forall s k, ~ In k l ->
  nth (N.to_nat k) (fold_left free_slot l s) 0%Z = nth (N.to_nat k) s 0%Z.
Proof.
  induction l as [|a l IH]; intros s k Hk; cbn; [reflexivity|].
  rewrite IH by (intros H; apply Hk; right; exact H).
  unfold free_slot. apply nth_set_nth_other. intros Heq. apply N2Nat.inj in Heq. apply Hk. left. exact Heq.
Qed.

Lemma nth_fold_free_in l : forall s k, NoDup l -> In k l -> (N.to_nat k < length s)%nat ->
  nth (N.to_nat k) (fold_left free_slot l s) 0%Z = (- nth (N.to_nat k) s 0 - 1)%Z.
Proof.
  induction l as [|a l IH]; intros s k Hnd Hin Hb; [destruct Hin|]. cbn.
  inversion Hnd; subst. destruct Hin as [->|Hin].
  - rewrite nth_fold_free_other by assumption. unfold free_slot. rewrite nth_set_nth_same by exact Hb. reflexivity.
  - rewrite IH; [|assumption|assumption|rewrite free_slot_length; exact Hb].
    unfold free_slot. rewrite nth_set_nth_other; [reflexivity|].
    intros Heq. apply N2Nat.inj in Heq. subst. contradiction.
Qed.

Lemma Ext_free st f' l :
  Good st -> Permutation (ids (store st)) (l ++ ids f') -> shape_store f' = true -> keys f' = true -> vsub (store st) f' ->
  Ext st (free_slots (with_store st f') l).
Proof.
  intros G Hp Hsh Hky Hvs. pose proof G as [[H1 H2 H3 H4 H5] _].
  assert (Permutation (slots_used (free_slots (with_store st f') l)) (slots_used st)) as Hq.
  { unfold slots_used. cbn. rewrite Hp. perm. }
  assert (NoDup l) as Hl.
  { apply NoDup_app_inv in H1 as [H1 _]. eapply Permutation_NoDup in H1; [|exact Hp]. apply NoDup_app_inv in H1. tauto. }
  assert (forall k, In k l -> In k (ids (store st))) as Hlin.
  { intros k Hk. eapply Permutation_in; [apply Permutation_sym; exact Hp|]. apply in_or_app. left. exact Hk. }
  assert (forall k, In k (ids f') -> ~ In k l) as Hf'l.
  { intros k Hk Hkl. apply NoDup_app_inv in H1 as [H1 _]. eapply Permutation_NoDup in H1; [|exact Hp].
    eapply NoDup_app_not_in; eauto. }
  assert (forall k, In k (free st) -> ~ In k l) as Hfl.
  { intros k Hk Hkl. apply Hlin in Hkl. unfold slots_used in H1. eapply NoDup_app_not_in; eauto. }
  constructor; [exact G|split; [constructor|split; [exact Hsh|exact Hky]]| |cbn [stamps free_slots with_store]; rewrite fold_free_length; lia|
    intros x v v' _ Hv Hv'; apply val_nodes in Hv'; cbn [store free_slots with_store] in Hv'; eapply class_from_vsub; eauto];
    cbn [stamps free_slots with_store free store].
  - eapply Permutation_NoDup; [apply Permutation_sym; exact Hq|exact H1].
  - intros i Hi. rewrite fold_free_length. apply H2. eapply Permutation_in; [exact Hq|exact Hi].
  - intros k Hk. rewrite fold_free_length in Hk. eapply Permutation_in; [apply Permutation_sym; exact Hq|]. apply H3. exact Hk.
  - intros i Hi. unfold stamp_of. cbn [stamps free_slots with_store]. rewrite nth_fold_free_other by (apply Hf'l; exact Hi).
    apply H4. eapply Permutation_in; [apply Permutation_sym; exact Hp|]. apply in_or_app. right. exact Hi.
  - intros i Hi. unfold stamp_of. cbn [stamps free_slots with_store]. apply in_app_or in Hi as [Hi|Hi].
    + rewrite nth_fold_free_other by (apply Hfl; exact Hi). apply H5. exact Hi.
    + rewrite nth_fold_free_in; [|exact Hl|exact Hi|apply H2; unfold slots_used; apply in_or_app; left; apply Hlin; exact Hi].
      pose proof (H4 i (Hlin i Hi)) as Hs. unfold stamp_of in Hs. lia.
  - intros i. unfold gen, stamp_of. cbn [stamps free_slots with_store].
    destruct (in_dec N.eq_dec i l) as [Hi|Hi].
    + rewrite nth_fold_free_in; [|exact Hl|exact Hi|apply H2; unfold slots_used; apply in_or_app; left; apply Hlin; exact Hi].
      pose proof (H4 i (Hlin i Hi)) as Hs. unfold stamp_of in Hs.
      destruct (nth (N.to_nat i) (stamps st) 0 <? 0)%Z eqn:E1; [apply Z.ltb_lt in E1; lia|].
      destruct (- nth (N.to_nat i) (stamps st) 0 - 1 <? 0)%Z eqn:E2; [lia|apply Z.ltb_ge in E2; lia].
    + rewrite nth_fold_free_other by exact Hi. lia.
Qed.

(* ---------- Arena::new_node ---------- *)

Lemma kids_ok_nil v : kids_ok v FNil = true.
Proof. destruct v; reflexivity. Qed.

Lemma Ext_new_node st v st' i :
  Good st -> new_node st v = (st', i) ->
  Ext st st' /\ ~ In i (ids (store st)) /\ store st' = FCons i v FNil (store st) /\ cons st' = cons st.
Proof.
  intros G Hn. pose proof G as (Hs & Hsh & Hky). destruct (SlotInv_new_node _ _ _ _ Hs Hn) as (Hs' & Hni & Hst & Hc).
  split; [|auto].
  assert (Good st') as G'.
  { split; [exact Hs'|]. rewrite Hst. split; [unfold shape_store; rewrite shape_cons, kids_ok_nil; exact Hsh|rewrite keys_cons; exact Hky]. }
  constructor; [exact G|exact G'| | |].
  3:{ intros x w w' _ Hw Hw'. apply val_nodes in Hw'. rewrite Hst in Hw'. cbn in Hw'. destruct Hw' as [Hw'|Hw'].
      - inversion Hw'; subst. exfalso. apply Hni. eapply val_in_ids'. exact Hw.
      - apply val_nodes in Hw. rewrite (nodes_functional _ _ _ _ (Good_nodup _ G) Hw Hw'). apply same_class_refl. }
  2:{ unfold new_node in Hn. destruct (free st); inversion Hn; subst; cbn [stamps]; [rewrite app_length; cbn; lia|rewrite set_nth_length; lia]. }
  - intros k. unfold new_node in Hn. destruct (free st) as [|j rest] eqn:Ef; inversion Hn; subst; clear Hn.
    + unfold gen, stamp_of. cbn [stamps].
      destruct (Nat.lt_ge_cases (N.to_nat k) (length (stamps st))) as [Hlt|Hge].
      * rewrite app_nth1 by exact Hlt. lia.
      * rewrite (nth_overflow (stamps st)) by exact Hge. cbn.
        destruct (Nat.eq_dec (N.to_nat k) (length (stamps st))) as [He|Hne].
        -- rewrite app_nth2 by lia. rewrite He, Nat.sub_diag. cbn. lia.
        -- rewrite nth_overflow by (rewrite app_length; cbn; lia). cbn. lia.
    + unfold gen, stamp_of. cbn [stamps].
      destruct (N.eq_dec k i) as [->|Hne].
      * assert (In i (slots_used st)) as Hi by (unfold slots_used; rewrite Ef; apply in_or_app; right; left; reflexivity).
        destruct Hs as [_ H2 _ _ H5]. rewrite nth_set_nth_same by (apply H2; exact Hi).
        assert (stamp_of st i < 0)%Z as Hneg by (apply H5; rewrite Ef; left; reflexivity).
        unfold stamp_of in *.
        destruct (nth (N.to_nat i) (stamps st) 0 <? 0)%Z eqn:E1; [|apply Z.ltb_ge in E1; lia].
        destruct (- nth (N.to_nat i) (stamps st) 0 <? 0)%Z eqn:E2; [apply Z.ltb_lt in E2; lia|lia].
      * rewrite nth_set_nth_other by (intros Heq; apply N2Nat.inj in Heq; congruence). lia.
Qed.

(* ---------- value updates, detach, remove ---------- *)

Lemma same_key_refl v : same_key v v.
Proof. split; auto. Qed.

Lemma same_class_same_key_normal v w : same_class v w -> is_normal v = true -> same_key v w.
Proof.
  intros (Hr & _ & _) Hn. assert (is_normal w = true) as Hw by (apply vrank_normal; rewrite <- Hr; apply vrank_normal; exact Hn).
  unfold same_key, is_normal in *. destruct (value_category v), (value_category w); try discriminate. split; [reflexivity|congruence].
Qed.

Lemma Ext_set_value st n g :
  Good st -> (forall v, val st n = Some v -> same_class v (g v) /\ same_key v (g v)) -> Ext st (set_value st n g).
Proof.
  intros G Hg. unfold set_value.
  assert (forall v, In (n, v) (nodes (store st)) -> same_class v (g v) /\ same_key v (g v)) as Hg'.
  { intros v Hin. apply Hg. apply nodes_val; [apply Good_nodup; exact G|exact Hin]. }
  apply Ext_with_store; [exact G|rewrite nodes_fset_val_ids; reflexivity| | |apply vsub_fset_val'; intros v Hv; apply Hg'; exact Hv].
  - apply shape_fset_val; [apply Good_shape; exact G|intros v Hv; apply Hg'; exact Hv].
  - apply keys_fset_val; [apply Good_keys; exact G|intros v Hv; apply Hg'; exact Hv].
Qed.

Lemma fcut_slot n f f' i v k : fcut n f = Some (f', (i, v, k)) -> i = n.
Proof. intros H. apply fcut_spec in H. tauto. Qed.

Lemma Ext_detach_raw st n : Good st -> Ext st (detach_raw st n).
Proof.
  intros G. unfold detach_raw. destruct (fcut n (store st)) as [[f' [[i v] k]]|] eqn:E; [|apply Ext_refl; exact G].
  pose proof (fcut_ids _ _ _ _ _ _ E) as Hp. pose proof (fcut_slot _ _ _ _ _ _ E) as ->.
  destruct (shape_fcut _ _ _ _ _ _ _ _ (Nat.le_0_l _) (Good_shape _ G) E) as [Hf Hk].
  destruct (keys_fcut _ _ _ _ _ _ (Good_keys _ G) E) as (Kf & Kt & _).
  apply Ext_with_store; [exact G| | | |].
  - cbn. apply Permutation_sym. exact Hp.
  - cbn [single fapp]. unfold shape_store. rewrite shape_cons, Hk. exact Hf.
  - cbn [single fapp]. rewrite keys_cons. unfold keys_tree in Kt. rewrite Kt. exact Kf.
  - apply vsub_perm. apply fcut_spec in E as [_ E]. cbn [single fapp nodes]. exact E.
Qed.

Lemma Ext_remove_subtree_raw st n : Good st -> Ext st (remove_subtree_raw st n).
Proof.
  intros G. unfold remove_subtree_raw. destruct (fcut n (store st)) as [[f' [[i v] k]]|] eqn:E; [|apply Ext_refl; exact G].
  pose proof (fcut_ids _ _ _ _ _ _ E) as Hp. pose proof (fcut_slot _ _ _ _ _ _ E) as ->.
  destruct (shape_fcut _ _ _ _ _ _ _ _ (Nat.le_0_l _) (Good_shape _ G) E) as [Hf Hk].
  destruct (keys_fcut _ _ _ _ _ _ (Good_keys _ G) E) as (Kf & _ & _).
  apply Ext_free; [exact G|exact Hp|exact Hf|exact Kf|eapply vsub_fcut; exact E].
Qed.

Lemma Ext_remove_single_inner st n :
  Good st -> In n (ids (store st)) ->
  (forall v k, find n (store st) = Some (v, k) -> shape CElem 2 k = true) -> Ext st (remove_single_raw st n).
Proof.
  intros G Hin Hk. unfold remove_single_raw. pose proof (Good_nodup _ G) as Hnd.
  apply Ext_free; [exact G|apply ids_fsplice; assumption| | |apply vsub_fsplice].
  - apply shape_fsplice_inner; [exact Hnd|lia|apply Good_shape; exact G|exact Hk].
  - apply keys_fsplice; [exact Hnd|apply Good_keys; exact G|]. intros v k Hf. apply shape2_no_abnormal. eapply Hk. exact Hf.
Qed.

Lemma Ext_remove_single_root st n :
  Good st -> In n (root_slots (store st)) -> Ext st (remove_single_raw st n).
Proof.
  intros G Hin. unfold remove_single_raw. pose proof (Good_nodup _ G) as Hnd.
  apply Ext_free; [exact G|apply ids_fsplice; [exact Hnd|apply root_slots_incl; exact Hin]| | |apply vsub_fsplice].
  - apply shape_fsplice_root; [exact Hnd|apply Good_shape; exact G|exact Hin].
  - apply keys_fsplice_root; [exact Hnd|apply Good_keys; exact G|exact Hin].
Qed.

(* ---------- consolidation helpers ---------- *)

Lemma append_text_class s v : same_class v (append_text_to s v).
Proof. destruct v; repeat split. Qed.

Lemma prepend_text_class s v : same_class v (prepend_text_to s v).
Proof. destruct v; repeat split. Qed.

(* the only effect a merge can have: one text value grows, one text node is spliced out *)
Definition merged_into (st st1 : xstate) (gone : N) : Prop :=
  exists t g s, val st gone = Some (VText s) /\ (forall v, same_class v (g v)) /\ (forall v, is_text_val v = false -> g v = v)
                /\ st1 = remove_single_raw (with_store st (fset_val t g (store st))) gone.

Lemma remove_consolidate_cases st a b st1 m :
  remove_consolidate st a b = (st1, m) ->
  (m = false /\ st1 = st) \/ (m = true /\ exists n, b = Some n /\ merged_into st st1 n).
Proof.
  unfold remove_consolidate. destruct (negb (cons st)); [intros H; inversion H; auto|].
  destruct a as [p|]; [|intros H; inversion H; auto]. destruct b as [n|]; [|intros H; inversion H; auto].
  destruct (val st p) as [[]|] eqn:Ep; try (intros H; inversion H; auto; fail).
  destruct (val st n) as [[]|] eqn:En; try (intros H; inversion H; auto; fail).
  intros H. inversion H; subst. right. split; [reflexivity|]. exists n. split; [reflexivity|].
  eexists p, _, _. split; [exact En|]. split; [apply append_text_class|]. split; [intros w Hw; destruct w; try reflexivity; discriminate|reflexivity].
Qed.

Lemma add_consolidate_cases st node prev next st1 m :
  add_consolidate st node prev next = (st1, m) ->
  (m = false /\ st1 = st) \/ (m = true /\ merged_into st st1 node).
Proof.
  unfold add_consolidate. destruct (negb (cons st)); [intros H; inversion H; auto|].
  destruct (val st node) as [[]|] eqn:En; try (intros H; inversion H; auto; fail).
  assert (forall st1 m,
    match next with
    | Some n => match val st n with
                | Some (VText _) => (remove_single_raw (with_store st (fset_val n (prepend_text_to s) (store st))) node, true)
                | _ => (st, false)
                end
    | None => (st, false)
    end = (st1, m) -> (m = false /\ st1 = st) \/ (m = true /\ merged_into st st1 node)) as Hnext.
  { intros st2 m2. destruct next as [n|]; [|intros H; inversion H; auto].
    destruct (val st n) as [[]|] eqn:Et; try (intros H; inversion H; auto; fail).
    intros H. inversion H; subst. right. split; [reflexivity|].
    eexists n, _, _. split; [exact En|]. split; [apply prepend_text_class|]. split; [intros w Hw; destruct w; try reflexivity; discriminate|reflexivity]. }
  destruct prev as [p|]; [|apply Hnext].
  destruct (val st p) as [[]|] eqn:Ep; try apply Hnext.
  intros H. inversion H; subst. right. split; [reflexivity|].
  eexists p, _, _. split; [exact En|]. split; [apply append_text_class|]. split; [intros w Hw; destruct w; try reflexivity; discriminate|reflexivity].
Qed.

Lemma Ext_merged st st1 gone : Good st -> merged_into st st1 gone -> Ext st st1.
Proof.
  intros G (t & g & s & Hv & Hg & Hid & ->).
  eapply Ext_step; [apply (Ext_set_value st t g G)|].
  { intros v _. split; [apply Hg|]. destruct (is_text_val v) eqn:Et; [|rewrite (Hid v Et); apply same_key_refl].
    apply same_class_same_key_normal; [apply Hg|destruct v; try discriminate; reflexivity]. }
  intros G1.
  destruct (val_find _ _ _ Hv) as [k Hk].
  assert (k = FNil) as -> by (pose proof (shape_find _ _ _ _ _ _ (Good_shape _ G) Hk) as Hs; destruct k; [reflexivity|discriminate]).
  apply Ext_remove_single_inner; [exact G1| |].
  - cbn [store set_value with_store]. rewrite nodes_fset_val_ids. eapply find_incl; [exact Hk|left; reflexivity].
  - intros v' k' Hf. cbn [store set_value with_store] in Hf.
    pose proof (find_fset_val_ids gone t g (store st)) as Hi. rewrite Hf, Hk in Hi. cbn in Hi.
    apply ids_nil in Hi. subst. reflexivity.
Qed.

Lemma Ext_remove_consolidate st a b : Good st -> Ext st (fst (remove_consolidate st a b)).
Proof.
  intros G. destruct (remove_consolidate st a b) as [st1 m] eqn:E. cbn.
  apply remove_consolidate_cases in E as [[_ ->]|[_ (n & _ & Hm)]]; [apply Ext_refl; exact G|eapply Ext_merged; eauto].
Qed.

Lemma Ext_add_consolidate st node p n : Good st -> Ext st (fst (add_consolidate st node p n)).
Proof.
  intros G. destruct (add_consolidate st node p n) as [st1 m] eqn:E. cbn.
  apply add_consolidate_cases in E as [[_ ->]|[_ Hm]]; [apply Ext_refl; exact G|eapply Ext_merged; eauto].
Qed.

(* what survives a merge: every other slot, with a value of the same class, and no subtree grows *)
Lemma merged_keeps st st1 gone :
  Good st -> merged_into st st1 gone ->
  (forall x, In x (ids (store st)) -> x <> gone -> In x (ids (store st1)))
  /\ vsub (store st) (store st1)
  /\ (forall c, incl (subtree_ids c (store st1)) (subtree_ids c (store st))).
Proof.
  intros G (t & g & s & Hv & Hg & _ & ->). cbn [store remove_single_raw free_slots with_store].
  pose proof (Good_nodup _ G) as Hnd.
  assert (NoDup (ids (fset_val t g (store st)))) as Hnd' by (rewrite nodes_fset_val_ids; exact Hnd).
  split; [|split].
  - intros x Hx Hne.
    assert (In gone (ids (fset_val t g (store st)))) as Hg'.
    { rewrite nodes_fset_val_ids. apply val_nodes in Hv. rewrite ids_nodes. apply (in_map fst) in Hv. exact Hv. }
    pose proof (ids_fsplice gone _ Hnd' Hg') as Hp. rewrite nodes_fset_val_ids in Hp.
    eapply Permutation_in in Hx; [|exact Hp]. destruct Hx as [Hx|Hx]; [congruence|exact Hx].
  - eapply vsub_trans; [apply vsub_fset_val; exact Hg|apply vsub_fsplice].
  - intros c. eapply incl_tran; [apply subtree_ids_fsplice; exact Hnd'|]. rewrite subtree_ids_fset_val. apply incl_refl.
Qed.
