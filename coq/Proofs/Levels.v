(* Levels.v — the forest surgery of Model/Store.v seen from a cursor: every primitive acts on ONE sibling list, the level
   of the node it names, and leaves the rest of the store alone.  Proved once for a generic local action [fact].
   A cursor [z] sits in a store as  store = A ++ plug z ++ B  ([zroot], Proofs/Canon.v): A and B are the other trees. *)
From Coq Require Import List NArith ZArith Bool Lia Permutation Arith.
From XotV Require Import Model.Base Model.Zipper Model.Access Model.Store Spec.DocOrder Spec.Paths
                         Proofs.ZipperProofs Proofs.AccessProofs Proofs.StoreProofs Proofs.ForestFacts Proofs.InvProofs Proofs.Canon.
Import ListNotations.
Open Scope N_scope.

Section Act.
  Variable act : N -> value -> forest -> forest -> forest.     (* slot, value, children, following siblings *)

  Fixpoint fact (n : N) (f : forest) : forest :=
    match f with
    | FNil => FNil
    | FCons i v k r => if N.eqb i n then act i v k r else FCons i v (fact n k) (fact n r)
    end.

  Lemma fact_absent n f : ~ In n (ids f) -> fact n f = f.
  Proof.
    induction f as [|i v k IHk r IHr]; cbn [fact ids]; [reflexivity|]. intros H.
    destruct (N.eqb_spec i n) as [->|Hne]; [exfalso; apply H; left; reflexivity|].
    rewrite IHk, IHr; [reflexivity| |]; intros X; apply H; right; apply in_or_app; auto.
  Qed.

  Lemma fact_frev_app n b : forall X, ~ In n (ids b) -> fact n (frev_app b X) = frev_app b (fact n X).
  Proof.
    induction b as [|i v k _ r IH]; intros X H; cbn [frev_app]; [reflexivity|]. cbn [ids] in H.
    rewrite IH by (intros Y; apply H; right; apply in_or_app; right; exact Y). cbn [fact].
    destruct (N.eqb_spec i n) as [->|Hne]; [exfalso; apply H; left; reflexivity|].
    rewrite (fact_absent n k) by (intros Y; apply H; right; apply in_or_app; left; exact Y). reflexivity.
  Qed.

  Lemma fact_fapp_skip n a : forall X, ~ In n (ids a) -> fact n (fapp a X) = fapp a (fact n X).
  Proof.
    induction a as [|i v k _ r IH]; intros X H; cbn [fapp]; [reflexivity|]. cbn [ids] in H. cbn [fact].
    destruct (N.eqb_spec i n) as [->|Hne]; [exfalso; apply H; left; reflexivity|].
    rewrite (fact_absent n k) by (intros Y; apply H; right; apply in_or_app; left; exact Y).
    rewrite IH by (intros Y; apply H; right; apply in_or_app; right; exact Y). reflexivity.
  Qed.

  Lemma fact_level n v k b a : ~ In n (ids b) -> fact n (frev_app b (FCons n v k a)) = frev_app b (act n v k a).
  Proof. intros H. rewrite fact_frev_app by exact H. cbn [fact]. rewrite N.eqb_refl. reflexivity. Qed.

  Lemma fact_plug_ups n : forall ups L,
    (forall fr, In fr ups -> fr_slot fr <> n /\ ~ In n (ids (fr_before fr)) /\ ~ In n (ids (fr_after fr))) ->
    fact n (plug_ups L ups) = plug_ups (fact n L) ups.
  Proof.
    induction ups as [|fr ups' IH]; intros L H; cbn [plug_ups]; [reflexivity|].
    destruct (H fr (or_introl eq_refl)) as (Hs & Hb & Ha).
    rewrite IH by (intros fr' Hin; apply H; right; exact Hin). f_equal.
    rewrite fact_frev_app by exact Hb. cbn [fact]. apply N.eqb_neq in Hs. rewrite Hs.
    rewrite (fact_absent n (fr_after fr)) by exact Ha. reflexivity.
  Qed.
End Act.

(* ---------- what NoDup says about a plugged level ---------- *)

Lemma nodup_plug_ups_inv : forall ups L, NoDup (ids (plug_ups L ups)) ->
  NoDup (ids L) /\
  forall n, In n (ids L) -> forall fr, In fr ups -> fr_slot fr <> n /\ ~ In n (ids (fr_before fr)) /\ ~ In n (ids (fr_after fr)).
Proof.
  induction ups as [|fr ups' IH]; intros L H; cbn [plug_ups] in H; [split; [exact H|intros n _ fr []]|].
  destruct (IH _ H) as [Hnd Hfr].
  eapply Permutation_NoDup in Hnd; [|apply ids_frev_app]. cbn [ids] in Hnd.
  assert (NoDup (ids (fr_before fr)) /\ NoDup (fr_slot fr :: ids L ++ ids (fr_after fr))) as [Hb Hrest] by (apply NoDup_app_inv; exact Hnd).
  pose proof Hrest as Hrest0. apply NoDup_cons_app_inv in Hrest as (HsL & Hsa & HL & Ha & HLa).
  split; [exact HL|]. intros n Hn fr' [<-|Hin].
  - split; [intros E; apply HsL; rewrite E; exact Hn|]. split.
    + intros Hx. eapply NoDup_app_not_in; [exact Hnd|exact Hx|]. right. apply in_or_app. left. exact Hn.
    + intros Hx. eapply NoDup_app_not_in; [exact HLa|exact Hn|exact Hx].
  - apply Hfr; [|exact Hin]. eapply Permutation_in; [apply Permutation_sym; apply ids_frev_app|].
    apply in_or_app. right. right. apply in_or_app. left. exact Hn.
Qed.

Lemma nodup_level z : NoDup (ids (z_level z)) ->
  ~ In (z_slot z) (ids (z_before z)) /\ ~ In (z_slot z) (ids (z_kids z)) /\ ~ In (z_slot z) (ids (z_after z)).
Proof.
  unfold z_level. intros H. eapply Permutation_NoDup in H; [|apply ids_frev_app]. cbn [ids] in H.
  pose proof (NoDup_app_inv _ _ H) as [_ H2]. apply NoDup_cons_app_inv in H2 as (Hk & Ha & _).
  split; [|split; assumption]. intros Hx. eapply NoDup_app_not_in; [exact H|exact Hx|]. left. reflexivity.
Qed.

Lemma in_level z : In (z_slot z) (ids (z_level z)).
Proof. unfold z_level. eapply Permutation_in; [apply Permutation_sym; apply ids_frev_app|]. apply in_or_app. right. left. reflexivity. Qed.

Theorem fact_plug act z : NoDup (ids (plug z)) ->
  fact act (z_slot z) (plug z)
  = plug_ups (frev_app (z_before z) (act (z_slot z) (z_val z) (z_kids z) (z_after z))) (z_ups z).
Proof.
  intros Hnd. unfold plug in *. destruct (nodup_plug_ups_inv _ _ Hnd) as [HL Hfr].
  rewrite fact_plug_ups by (apply Hfr; apply in_level). f_equal.
  unfold z_level. apply fact_level. apply (nodup_level z HL).
Qed.

(* ---------- the primitives of Model/Store.v are such actions ---------- *)

Definition a_kids (g : forest -> forest) : N -> value -> forest -> forest -> forest := fun i v k r => FCons i v (g k) r.
Definition a_after (t : forest) : N -> value -> forest -> forest -> forest := fun i v k r => FCons i v k (fapp t r).
Definition a_before (t : forest) : N -> value -> forest -> forest -> forest := fun i v k r => fapp t (FCons i v k r).
Definition a_splice : N -> value -> forest -> forest -> forest := fun i v k r => fapp k r.
Definition a_val (g : value -> value) : N -> value -> forest -> forest -> forest := fun i v k r => FCons i (g v) k r.
Definition a_drop : N -> value -> forest -> forest -> forest := fun i v k r => r.

Lemma fmap_kids_fact p g f : fmap_kids p g f = fact (a_kids g) p f.
Proof. induction f as [|i v k IHk r IHr]; cbn; [reflexivity|]. rewrite IHk, IHr. reflexivity. Qed.
Lemma finsert_after_fact ref t f : finsert_after ref t f = fact (a_after t) ref f.
Proof. induction f as [|i v k IHk r IHr]; cbn; [reflexivity|]. rewrite IHk, IHr. reflexivity. Qed.
Lemma finsert_before_fact ref t f : finsert_before ref t f = fact (a_before t) ref f.
Proof. induction f as [|i v k IHk r IHr]; cbn; [reflexivity|]. rewrite IHk, IHr. reflexivity. Qed.
Lemma fsplice_fact n f : fsplice n f = fact a_splice n f.
Proof. induction f as [|i v k IHk r IHr]; cbn; [reflexivity|]. rewrite IHk, IHr. reflexivity. Qed.
Lemma fset_val_fact n g f : fset_val n g f = fact (a_val g) n f.
Proof. induction f as [|i v k IHk r IHr]; cbn; [reflexivity|]. rewrite IHk, IHr. reflexivity. Qed.

Lemma fcut_fact n f : forall f' t, NoDup (ids f) -> fcut n f = Some (f', t) -> f' = fact a_drop n f.
Proof.
  induction f as [|i v k IHk r IHr]; intros f' t Hnd; cbn [fcut fact]; [discriminate|].
  cbn [ids] in Hnd. apply NoDup_cons_app_inv in Hnd as (Hik & Hir & Hk & Hr & Hkr).
  destruct (N.eqb i n); [intros H; inversion H; reflexivity|].
  destruct (fcut n k) as [[k' t1]|] eqn:Ek.
  - intros H. inversion H; subst. rewrite <- (IHk _ _ Hk eq_refl).
    rewrite (fact_absent a_drop n r); [reflexivity|].
    destruct t as [[ti tv] tk]. pose proof (fcut_find _ _ _ _ _ _ Ek) as Hf. 
    assert (In n (ids k)) as Hin by (destruct (find_none n k) as [_ K]; destruct (in_dec N.eq_dec n (ids k)); [assumption|rewrite (proj2 (find_none n k)) in Hf by assumption; discriminate]).
    intros Hx. eapply NoDup_app_not_in; [exact Hkr|exact Hin|exact Hx].
  - destruct (fcut n r) as [[r' t1]|] eqn:Er; [|discriminate]. intros H. inversion H; subst.
    rewrite <- (IHr _ _ Hr eq_refl). rewrite (fact_absent a_drop n k); [reflexivity|]. apply fcut_none. exact Ek.
Qed.

(* ---------- the action on a store, seen from the cursor of the node ---------- *)

(* the tree of a cursor that is not at the root: one root, which is the outermost ancestor *)
Lemma plug_top_last L : forall ups b a, outer_of b a ups = (FNil, FNil) -> ups <> [] ->
  exists fr kr, In fr ups /\ plug_ups L ups = FCons (fr_slot fr) (fr_val fr) kr FNil.
Proof.
  intros ups. revert L. induction ups as [|fr ups' IH]; intros L b a Ho Hne; [congruence|]. cbn [plug_ups outer_of] in *.
  destruct ups' as [|fr2 ups''].
  - destruct fr as [s v b' a']. cbn in *. inversion Ho; subst. cbn. eexists {| fr_slot := s |}, L. split; [left; reflexivity|reflexivity].
  - destruct (IH (frev_app (fr_before fr) (FCons (fr_slot fr) (fr_val fr) L (fr_after fr))) _ _ Ho ltac:(discriminate)) as (fr0 & kr & Hin & Hp).
    exists fr0, kr. split; [right; exact Hin|exact Hp].
Qed.

Theorem fact_inner act store z A B : NoDup (ids store) -> top_clean z -> z_ups z <> [] -> store = fapp A (fapp (plug z) B) ->
  fact act (z_slot z) store
  = fapp A (fapp (plug_ups (frev_app (z_before z) (act (z_slot z) (z_val z) (z_kids z) (z_after z))) (z_ups z)) B).
Proof.
  intros Hnd Hc Hne ->. rewrite !ids_fapp in Hnd.
  pose proof (NoDup_app_inv _ _ Hnd) as [HA Hrest]. pose proof (NoDup_app_inv _ _ Hrest) as [Hz HB].
  assert (In (z_slot z) (ids (plug z))) as Hin.
  { unfold plug. rewrite ids_nodes, nodes_plug_ups, !map_app. apply in_or_app. right. apply in_or_app. left. rewrite <- ids_nodes. apply in_level. }
  rewrite fact_fapp_skip.
  2:{ intros Hx. eapply NoDup_app_not_in; [exact Hnd|exact Hx|]. apply in_or_app. left. exact Hin. }
  f_equal. rewrite <- (fact_plug act z Hz).
  unfold plug in *. destruct (plug_top_last (z_level z) _ _ _ Hc Hne) as (fr0 & kr & Hfr0 & Hp).
  destruct (nodup_plug_ups_inv _ _ Hz) as [_ Hfr]. destruct (Hfr _ (in_level z) fr0 Hfr0) as (Hs & _).
  rewrite Hp in *. cbn [fapp fact]. apply N.eqb_neq in Hs. rewrite Hs.
  rewrite (fact_absent act (z_slot z) B); [|intros Hx; eapply NoDup_app_not_in; [exact Hrest|exact Hin|exact Hx]].
  reflexivity.
Qed.

Theorem fact_root act store n v k A B : NoDup (ids store) -> store = fapp A (FCons n v k B) ->
  fact act n store = fapp A (act n v k B).
Proof.
  intros Hnd ->. rewrite ids_fapp in Hnd. rewrite fact_fapp_skip.
  - cbn [fact]. rewrite N.eqb_refl. reflexivity.
  - intros Hx. eapply NoDup_app_not_in; [exact Hnd|exact Hx|]. left. reflexivity.
Qed.

(* a cursor at the root of its tree shows nothing around it *)
Lemma top_clean_root z : top_clean z -> z_ups z = [] -> z_before z = FNil /\ z_after z = FNil.
Proof. unfold top_clean. intros H E. rewrite E in H. cbn in H. inversion H. auto. Qed.

Lemma plug_root z : top_clean z -> z_ups z = [] -> plug z = FCons (z_slot z) (z_val z) (z_kids z) FNil.
Proof. intros Hc E. destruct (top_clean_root z Hc E) as [Hb Ha]. unfold plug, z_level. rewrite E, Hb, Ha. reflexivity. Qed.
