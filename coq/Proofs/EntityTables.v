(* EntityTables.v — the character-level tables of Model/Entity.v ARE the ones src/entity.rs has today.
   tools/gen_tables.py reads, on every run, the predefined entities parse_content knows, the escape each match arm of
   serialize_attribute and each unguarded arm of serialize_text writes, the escape of the guarded '>' arms and the ranges of
   is_xml_char, and writes them into Gen/Tables.v.  The theorems below say that the hand-written functions of the model are
   exactly those tables, so the round-trip and safety theorems of Proofs/EntityProofs.v are about what the source says now.
   The agreement is extensional (independent of the order of the arms). *)
From Coq Require Import List NArith Bool Lia.
From XotV Require Import Model.Base Model.Entity Gen.Tables Proofs.EntityProofs.
Import ListNotations.
Open Scope N_scope.

Fixpoint assoc_cp (c : cp) (t : list (N * list N)) : option str :=
  match t with [] => None | (k, e) :: t' => if c =? k then Some e else assoc_cp c t' end.

Definition escape_tbl (t : list (N * list N)) (c : cp) : str :=
  match assoc_cp c t with Some e => e | None => [c] end.

Lemma assoc_cp_absent c t : ~ In c (map fst t) -> assoc_cp c t = None.
Proof.
  induction t as [|[k e] t IH]; intros H; [reflexivity|]. cbn [assoc_cp]. cbn [map fst In] in H.
  destruct (N.eqb_spec c k) as [->|_]; [exfalso; apply H; left; reflexivity|]. apply IH. intros Hx. apply H. right. exact Hx.
Qed.

(* two character-to-string steps that both default to the character itself agree everywhere when they agree on the
   characters either of them treats specially *)
Lemma steps_agree (f : cp -> str) (keys : list N) (t : list (N * list N)) :
  (forall c, ~ In c keys -> f c = [c]) ->
  forallb (fun k => str_eqb (f k) (escape_tbl t k)) (keys ++ map fst t) = true ->
  forall c, f c = escape_tbl t c.
Proof.
  intros Hdef Hall c. rewrite forallb_forall in Hall.
  destruct (in_dec N.eq_dec c (keys ++ map fst t)) as [Hin|Hout].
  - apply str_eqb_eq. apply Hall. exact Hin.
  - rewrite Hdef by (intros H; apply Hout; apply in_or_app; left; exact H).
    unfold escape_tbl. rewrite assoc_cp_absent by (intros H; apply Hout; apply in_or_app; right; exact H). reflexivity.
Qed.

(* ---------- serialize_attribute ---------- *)

Definition attr_step (c : cp) : str :=
  if c =? c_amp then s_amp else if c =? c_lt then s_lt else if c =? c_apos then s_apos else if c =? c_quot then s_quot
  else if c =? c_tab then s_tab else if c =? c_lf then s_lf else if c =? c_cr then s_cr else [c].

Lemma serialize_attribute_steps s : serialize_attribute s = flat_map attr_step s.
Proof. induction s as [|c s IH]; [reflexivity|]. cbn [serialize_attribute flat_map]. rewrite IH. reflexivity. Qed.

Lemma attr_step_default c : ~ In c [c_amp; c_lt; c_apos; c_quot; c_tab; c_lf; c_cr] -> attr_step c = [c].
Proof.
  intros H. unfold attr_step.
  repeat match goal with |- context [?a =? ?b] => destruct (N.eqb_spec a b) as [->|_]; [exfalso; apply H; cbn; tauto|] end.
  reflexivity.
Qed.

Theorem serialize_attribute_is_the_table s : serialize_attribute s = flat_map (escape_tbl attr_escapes) s.
Proof.
  rewrite serialize_attribute_steps. apply flat_map_ext. intros c.
  apply (steps_agree attr_step [c_amp; c_lt; c_apos; c_quot; c_tab; c_lf; c_cr] attr_escapes attr_step_default).
  vm_compute. reflexivity.
Qed.

(* ---------- serialize_text ---------- *)

Definition text_step (c : cp) : str :=
  if c =? c_amp then s_amp else if c =? c_lt then s_lt else if c =? c_cr then s_cr else [c].

Lemma text_step_default c : ~ In c [c_amp; c_lt; c_cr] -> text_step c = [c].
Proof.
  intros H. unfold text_step.
  repeat match goal with |- context [?a =? ?b] => destruct (N.eqb_spec a b) as [->|_]; [exfalso; apply H; cbn; tauto|] end.
  reflexivity.
Qed.

(* serialize_text driven by the tables: the unguarded arms from [tbl], the two guarded '>' arms with [gt] *)
Fixpoint text_go_tbl (tbl : list (N * list N)) (gt : str) (unescaped_gt : bool) (s : str) (last last2 : bool) : str :=
  match s with
  | [] => []
  | c :: s' =>
      if c =? c_gt then
        if unescaped_gt then
          if last && last2 then gt ++ text_go_tbl tbl gt unescaped_gt s' false false
          else c_gt :: text_go_tbl tbl gt unescaped_gt s' false false
        else gt ++ text_go_tbl tbl gt unescaped_gt s' false false
      else match assoc_cp c tbl with
           | Some e => e ++ text_go_tbl tbl gt unescaped_gt s' false false
           | None => c :: text_go_tbl tbl gt unescaped_gt s' (c =? c_rbr) last
           end
  end.

Lemma text_step_table c : text_step c = escape_tbl text_escapes c.
Proof. apply (steps_agree text_step [c_amp; c_lt; c_cr] text_escapes text_step_default). vm_compute. reflexivity. Qed.

Lemma assoc_cp_in c t e : assoc_cp c t = Some e -> In c (map fst t).
Proof.
  induction t as [|[k e'] t IH]; [discriminate|]. cbn [assoc_cp map fst In].
  destruct (N.eqb_spec c k) as [->|_]; [intros _; left; reflexivity|intros H; right; exact (IH H)].
Qed.

Lemma text_keys_special c : In c (map fst text_escapes) -> In c [c_amp; c_lt; c_cr].
Proof.
  assert (forallb (fun k => existsb (N.eqb k) [c_amp; c_lt; c_cr]) (map fst text_escapes) = true) as H by (vm_compute; reflexivity).
  rewrite forallb_forall in H. intros Hin. specialize (H c Hin). apply existsb_exists in H as (x & Hx & He).
  apply N.eqb_eq in He. subst x. exact Hx.
Qed.

Theorem serialize_text_is_the_table g s : forall l1 l2,
  serialize_text_go g s l1 l2 = text_go_tbl text_escapes text_gt_escape g s l1 l2.
Proof.
  assert (text_gt_escape = s_gt) as Hgt by reflexivity.
  induction s as [|c s IH]; intros l1 l2; cbn [serialize_text_go text_go_tbl]; [reflexivity|].
  pose proof (text_step_table c) as T. unfold text_step, escape_tbl in T. rewrite Hgt.
  destruct (c =? c_gt) eqn:Eg.
  - apply N.eqb_eq in Eg. subst c. cbn [N.eqb Pos.eqb c_gt c_amp c_lt c_cr]. rewrite !IH. reflexivity.
  - destruct (assoc_cp c text_escapes) as [e|] eqn:A.
    + pose proof (text_keys_special c (assoc_cp_in _ _ _ A)) as Hsp. cbn [In] in Hsp.
      destruct (c =? c_amp) eqn:E1; [rewrite <- T, IH; reflexivity|].
      destruct (c =? c_lt) eqn:E2; [rewrite <- T, IH; reflexivity|].
      destruct (c =? c_cr) eqn:E3; [rewrite <- T, IH; reflexivity|].
      exfalso. apply N.eqb_neq in E1, E2, E3. destruct Hsp as [H|[H|[H|[]]]]; congruence.
    + destruct (c =? c_amp) eqn:E1; [apply N.eqb_eq in E1; subst c; discriminate T|].
      destruct (c =? c_lt) eqn:E2; [apply N.eqb_eq in E2; subst c; discriminate T|].
      destruct (c =? c_cr) eqn:E3; [apply N.eqb_eq in E3; subst c; discriminate T|].
      rewrite IH. reflexivity.
Qed.

(* ---------- the predefined entities ---------- *)

Fixpoint assoc_str (name : str) (t : list (list N * N)) : option cp :=
  match t with [] => None | (k, c) :: t' => if str_eqb name k then Some c else assoc_str name t' end.

Lemma str_eqb_refl a : str_eqb a a = true.
Proof. induction a as [|x a IH]; [reflexivity|]. cbn. rewrite N.eqb_refl. exact IH. Qed.

Lemma assoc_str_absent name t : ~ In name (map fst t) -> assoc_str name t = None.
Proof.
  induction t as [|[k c] t IH]; intros H; [reflexivity|]. cbn [assoc_str]. cbn [map fst In] in H.
  destruct (str_eqb name k) eqn:E; [apply str_eqb_eq in E; subst; exfalso; apply H; left; reflexivity|].
  apply IH. intros Hx. apply H. right. exact Hx.
Qed.

Theorem named_entity_is_the_table name : named_entity name = assoc_str name named_entities.
Proof.
  set (keys := [[97; 109; 112]; [97; 112; 111; 115]; [103; 116]; [108; 116]; [113; 117; 111; 116]] : list str).
  assert (forallb (fun k => match named_entity k, assoc_str k named_entities with
                            | Some a, Some b => a =? b | None, None => true | _, _ => false end)
                  (keys ++ map fst named_entities) = true) as Hall by (vm_compute; reflexivity).
  rewrite forallb_forall in Hall.
  destruct (in_dec (list_eq_dec N.eq_dec) name (keys ++ map fst named_entities)) as [Hin|Hout].
  - specialize (Hall name Hin). destruct (named_entity name), (assoc_str name named_entities); try discriminate; [|reflexivity].
    apply N.eqb_eq in Hall. subst. reflexivity.
  - rewrite assoc_str_absent by (intros H; apply Hout; apply in_or_app; right; exact H).
    destruct (named_entity name) as [c|] eqn:E; [|reflexivity]. exfalso. apply Hout. apply in_or_app. left.
    destruct (named_entity_cases _ _ E) as [H|[H|[H|[H|H]]]]; rewrite H; cbn; tauto.
Qed.

(* ---------- is_xml_char ---------- *)

Definition in_ranges (c : cp) (rs : list (N * N)) : bool := existsb (fun r => (fst r <=? c) && (c <=? snd r)) rs.

Theorem is_xml_char_is_the_table c : is_xml_char c = in_ranges c xml_char_ranges.
Proof.
  unfold is_xml_char, in_ranges, xml_char_ranges. cbn [existsb fst snd].
  destruct (N.eqb_spec c 9), (N.eqb_spec c 10), (N.eqb_spec c 13); subst; try reflexivity.
  repeat match goal with |- context [?a <=? ?b] => destruct (N.leb_spec a b) end; cbn; try reflexivity; lia.
Qed.

(* ---------- the white space of remove_insignificant_whitespace (src/unpretty.rs) ---------- *)
From XotV Require Import Model.Unpretty.

Theorem is_ws_char_is_the_table c : is_ws_char c = existsb (N.eqb c) xml_ws_chars.
Proof.
  assert (forall k, In k xml_ws_chars <-> In k [32; 9; 13; 10]) as Hset.
  { intros k. assert (forallb (fun x => existsb (N.eqb x) [32; 9; 13; 10]) xml_ws_chars
                      && forallb (fun x => existsb (N.eqb x) xml_ws_chars) [32; 9; 13; 10] = true) as H by (vm_compute; reflexivity).
    apply andb_true_iff in H as [H1 H2]. rewrite forallb_forall in H1, H2.
    split; intros Hk; [specialize (H1 k Hk)|specialize (H2 k Hk)];
      match goal with H : existsb _ _ = true |- _ => apply existsb_exists in H as (x & Hx & He); apply N.eqb_eq in He; subst x; exact Hx end. }
  destruct (existsb (N.eqb c) xml_ws_chars) eqn:E.
  - apply existsb_exists in E as (x & Hx & He). apply N.eqb_eq in He. subst x. apply Hset in Hx.
    unfold is_ws_char. cbn [In] in Hx. destruct Hx as [<-|[<-|[<-|[<-|[]]]]]; reflexivity.
  - unfold is_ws_char. 
    repeat match goal with |- context [c =? ?b] => destruct (N.eqb_spec c b) as [->|_];
      [exfalso; assert (existsb (N.eqb b) xml_ws_chars = true) as X by (apply existsb_exists; exists b; split; [apply Hset; cbn; tauto|apply N.eqb_refl]); congruence|] end.
    reflexivity.
Qed.

Theorem preserve_literal_is_the_sources : s_preserve = xml_space_preserve.
Proof. reflexivity. Qed.
