(* PermTac.v — a small solver for goals `Permutation (a1 ++ .. ++ an) (b1 ++ .. ++ bn)` whose blocks are
   syntactically the same up to order. *)
From Coq Require Import List Permutation Setoid Morphisms.
Import ListNotations.

Ltac perm_cons_to_app :=
  repeat match goal with
         | |- context [?x :: ?l] =>
             lazymatch l with
             | [] => fail
             | _ => change (x :: l) with ([x] ++ l)
             end
         end.

Ltac perm_norm := perm_cons_to_app; repeat rewrite <- app_assoc; repeat rewrite app_nil_r; repeat rewrite app_nil_l.

Ltac perm_front a :=
  lazymatch goal with
  | |- Permutation _ (a ++ _) => idtac
  | |- Permutation _ a => idtac
  | |- Permutation _ ?R =>
      match R with
      | context [?b ++ a ++ ?r] => rewrite (Permutation_app_swap_app b a r); perm_front a
      | context [?b ++ a] => rewrite (Permutation_app_comm b a); repeat rewrite <- app_assoc; perm_front a
      end
  end.

Ltac perm :=
  perm_norm;
  repeat (lazymatch goal with
          | |- Permutation ?l ?l => reflexivity
          | |- Permutation (?a ++ ?l) _ => perm_front a; apply Permutation_app_head
          | |- Permutation ?a _ => perm_front a; reflexivity
          end).

Goal forall (a b c d : list nat) (x y : nat),
  Permutation (x :: a ++ (b ++ y :: c) ++ d) (d ++ y :: b ++ c ++ x :: a).
Proof. intros. perm. Qed.
