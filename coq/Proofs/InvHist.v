(* InvHist.v — C04 along histories: every state reachable from the empty store by any sequence of calls of the mutating
   API (with any arguments) is good; a handle that has stopped being live never becomes live again; a handle that is
   still live denotes a node of the same class. *)
From Coq Require Import List NArith ZArith Bool Lia Permutation Arith.
From XotV Require Import Model.Base Model.Zipper Model.Access Model.Store Model.Manip Spec.DocOrder Spec.Paths Spec.Shape
                         Proofs.StoreProofs Proofs.ForestFacts Proofs.ShapeProofs Proofs.InvProofs Proofs.InvSteps Proofs.InvOps.
Import ListNotations.
Open Scope N_scope.

Definition init_state : xstate := {| store := FNil; stamps := []; free := []; cons := true |}.

Definition mfinal (st : xstate) (ops : list mop) : xstate := fold_left (fun s o => fst (mstep s o)) ops st.

Lemma Good_init : Good init_state.
Proof.
  split; [|split; reflexivity]. constructor; cbn.
  - constructor.
  - intros i [].
  - intros k Hk. lia.
  - intros i [].
  - intros i [].
Qed.

Theorem Ext_mfinal ops : forall st, Good st -> Ext st (mfinal st ops).
Proof.
  induction ops as [|o ops IH]; intros st G; cbn [mfinal fold_left]; [apply Ext_refl; exact G|].
  eapply Ext_step; [apply Ext_mstep; exact G|]. apply IH.
Qed.

Theorem reachable_good ops : Good (mfinal init_state ops).
Proof. apply (Ext_mfinal ops init_state Good_init). Qed.

(* ---------- handles ---------- *)

(* a handle is what a `Node` is: arena slot and stamp; it is live while that slot is in use with that stamp *)
Definition live (st : xstate) (h : N * Z) : Prop := In (fst h) (ids (store st)) /\ stamp_of st (fst h) = snd h.

Lemma live_gen st h : Good st -> live st h -> gen st (fst h) = (2 * snd h)%Z.
Proof.
  intros [[_ _ _ H4 _] _] [Hin Hs]. pose proof (H4 _ Hin) as Hp. unfold gen. rewrite Hs in *.
  destruct (snd h <? 0)%Z eqn:E; [apply Z.ltb_lt in E; lia|reflexivity].
Qed.

Lemma gen_live st h : Good st -> In (fst h) (ids (store st)) -> gen st (fst h) = (2 * snd h)%Z -> live st h.
Proof.
  intros [[_ _ _ H4 _] _] Hin Hg. split; [exact Hin|]. pose proof (H4 _ Hin) as Hp. unfold gen in Hg.
  destruct (stamp_of st (fst h) <? 0)%Z eqn:E; [apply Z.ltb_lt in E; lia|lia].
Qed.

(* once a live handle has stopped being live it never becomes live again, whatever is called afterwards *)
Theorem removed_for_ever a b c h : Ext a b -> Ext b c -> live a h -> ~ live b h -> ~ live c h.
Proof.
  intros Xab Xbc La Nb Lc.
  pose proof (live_gen _ _ (ext_good0 _ _ Xab) La) as Ga. pose proof (live_gen _ _ (ext_good _ _ Xbc) Lc) as Gc.
  pose proof (ext_grows _ _ Xab (fst h)) as M1. pose proof (ext_grows _ _ Xbc (fst h)) as M2.
  apply Nb. apply gen_live; [apply Xab| |lia].
  eapply (live_same_gen a b); [apply Xab|apply Xab|apply Xab|lia|apply La].
Qed.

(* a handle that is live before and after denotes a node of the same class; in particular a removed node's slot may be
   reused (new stamp), but the old handle then is not live *)
Theorem live_same_class a b h v v' : Ext a b -> live a h -> live b h -> val a (fst h) = Some v -> val b (fst h) = Some v' ->
  same_class v v'.
Proof.
  intros X La Lb Hv Hv'. eapply (ext_class _ _ X); eauto.
  rewrite (live_gen _ _ (ext_good0 _ _ X) La), (live_gen _ _ (ext_good _ _ X) Lb). reflexivity.
Qed.

(* a new node never reuses a live handle: the handle returned by a creation call was not live before *)
Theorem new_handle_fresh st v st' i : Good st -> new_node st v = (st', i) -> ~ In i (ids (store st)) /\ live st' (i, stamp_of st' i).
Proof.
  intros G Hn. destruct (Ext_new_node _ _ _ _ G Hn) as (_ & Hni & Hst & _). split; [exact Hni|].
  split; [cbn; rewrite Hst; cbn; left; reflexivity|reflexivity].
Qed.
