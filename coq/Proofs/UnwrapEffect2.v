(* UnwrapEffect2.v — what element_unwrap does (C05): the ordinary children of the element take its place in its sibling list;
   then the two seams are consolidated, the left one first: a text first child goes into a text node before it, and whatever then
   stands last before the old following siblings takes a text node that follows it. *)
From Coq Require Import List NArith ZArith Bool Lia Permutation Arith.
From XotV Require Import Model.Base Model.Zipper Model.Access Model.Store Model.Manip Spec.DocOrder Spec.Paths Spec.Shape Spec.NoAdj
                         Proofs.ZipperProofs Proofs.AccessProofs Proofs.StoreProofs Proofs.ForestFacts Proofs.InvProofs Proofs.Canon
                         Proofs.ShapeProofs Proofs.KeysProofs Proofs.InvSteps Proofs.InvOps Proofs.PathFacts Proofs.Levels Proofs.NoAdjFacts
                         Proofs.NoAdjOps Proofs.Atomic Proofs.NoPanic Proofs.CloneShape Proofs.WrapEffect Proofs.UnwrapEffect.
Import ListNotations.
Open Scope N_scope.

(* the right seam of a sibling list [L] (in order) and what follows it *)
Definition seam_r (L after : forest) : forest :=
  match frev L, after with
  | FCons l (VText tl) kl r0, FCons a (VText ta) ka a' => frev_app r0 (FCons l (VText (tl ++ ta)) kl a')
  | _, _ => fapp L after
  end.

(* the sibling list after element_unwrap (consolidation on): [before] nearest first, [K] the ordinary children, [after] *)
Definition unwrap_level (before K after : forest) : forest :=
  match before, K with
  | FCons p (VText tp) kp b', FCons f (VText tf) kf K' => seam_r (frev_app (FCons p (VText (tp ++ tf)) kp b') K') after
  | _, _ => seam_r (frev_app before K) after
  end.

Lemma frev_frev_app a b : frev (frev_app a b) = frev_app b a.
Proof. unfold frev. rewrite frev_app_frev_app, fapp_nil_r'. reflexivity. Qed.

Lemma fapp_frev_app a b c : fapp (frev_app a b) c = frev_app a (fapp b c).
Proof. revert b. induction a as [|i v k _ r IH]; intros b; cbn [frev_app]; [reflexivity|]. rewrite IH. reflexivity. Qed.

(* what seam_right leaves is the right seam of the list in front *)
Lemma seam_right_is_seam_r X M l vl kl after st st' A B ups :
  ((exists tl a ta a', vl = VText tl /\ after = FCons a (VText ta) FNil a'
      /\ store st' = fapp A (fapp (plug_ups (lvl X M l (VText (tl ++ ta)) kl a') ups) B))
   \/ (is_text_val vl && head_text after = false /\ st' = st)) ->
  store st = fapp A (fapp (plug_ups (lvl X M l vl kl after) ups) B) ->
  store st' = fapp A (fapp (plug_ups (seam_r (frev_app X (fapp M (FCons l vl kl FNil))) after) ups) B).
Proof.
  intros Hcase E. unfold seam_r. rewrite frev_frev_app, frev_app_fapp. cbn [frev_app].
  destruct Hcase as [(tl & a & ta & a' & -> & -> & ->)|[Hno ->]].
  - rewrite lvl_as_at. reflexivity.
  - rewrite E. unfold lvl. rewrite fapp_frev_app, fapp_assoc. cbn [fapp].
    destruct vl; try reflexivity. destruct after as [|a va ka a']; [reflexivity|]. cbn [head_text is_text_val andb] in Hno.
    destruct va; try reflexivity. discriminate.
Qed.

Theorem unwrap_effect st n z A B first last :
  Good st -> cons st = true -> cur st n = Some z -> store st = fapp A (fapp (plug z) B) -> z_ups z <> [] ->
  is_type st n TElement = true -> q_first_child st n = Some first -> q_last_child st n = Some last ->
  store (fst (m_unwrap st n))
  = fapp A (fapp (plug_ups (unwrap_level (z_before z) (nrm_part (z_kids z)) (z_after z)) (z_ups z)) B).
Proof.
  intros G Hcons Hz E HneU He Efc Elc. unfold m_unwrap. rewrite He, Efc, Elc. cbn [negb].
  assert (q_parent st n <> None) as Hpar.
  { unfold q_parent. rewrite Hz. unfold parent, up. destruct (z_ups z); [congruence|discriminate]. }
  destruct (q_parent st n) as [par|]; [|congruence]. cbn [andb].
  pose proof (Good_WF _ G) as W0. destruct (zview _ _ _ Hz) as [Htc _]. pose proof (cur_slot _ _ _ Hz) as Hzs.
  rewrite (abnormal_child_slots_spec _ _ _ Hz).
  assert (is_elem (z_val z) = true) as Hel.
  { unfold is_type, val in He. rewrite Hz in He. destruct (z_val z); try discriminate; reflexivity. }
  destruct (strip_view (z_kids z) st z A B G Htc E Hel eq_refl) as (G1 & E1 & C1).
  set (st1 := fold_left remove_single_raw (abn_prefix (z_kids z)) st) in *.
  set (K := nrm_part (z_kids z)) in *.
  pose proof (Good_WF _ G1) as W1.
  pose proof (cur_of_view st1 (with_kids z K) A B W1 Htc E1) as Hz1. cbn [with_kids z_slot] in Hz1. rewrite Hzs in Hz1.
  (* the ordinary children *)
  pose proof (shape_find _ _ _ _ _ _ (Good_shape _ G) (find_of_cur _ _ _ Hz)) as Hsk.
  assert (shape CElem 0 (z_kids z) = true) as Hsk0 by (destruct (z_val z); try discriminate; exact Hsk).
  pose proof (nrm_shape2 _ _ Hsk0) as HsK. fold K in HsK.
  pose proof (shape2_all_normal _ HsK) as HKn. rewrite Forall_forall in HKn.
  assert (exists vf kf K', K = FCons first vf kf K') as (vf & kf & K' & EK).
  { unfold q_first_child, first_child, normal_children, arena_children in Efc. rewrite Hz in Efc.
    pose proof (first_normal_level (z_kids z) (frame_of z :: z_ups z) FNil) as H. fold K in H.
    destruct (hd_error _) as [c|]; [|discriminate]. cbn [oslot option_map] in *. inversion Efc; subst first.
    destruct K as [|i v k r]; [discriminate|]. cbn [hd_pair] in H. inversion H as [[H1 H2]]. eauto. }
  assert (K <> FNil) as HKne by (rewrite EK; discriminate).
  destruct (last_of_kids _ HKne) as (l & vl & kl & r0 & Xl & Efr & Efk). fold K in Efr.
  assert (l = last) as ->.
  { pose proof (last_child_view st n z W0 Hz) as L. rewrite Efk in L. destruct L as (_ & L & _). rewrite Elc in L.
    destruct (is_normal vl); [inversion L; reflexivity|discriminate]. }
  pose proof (erase_snoc_frev _ _ _ _ _ Efr) as EKl.
  assert (is_normal vf = true) as Hnf by (apply HKn; rewrite EK; left; reflexivity).
  assert (is_normal vl = true) as Hnl.
  { apply HKn. rewrite EKl, level_vals_fapp. apply in_or_app. right. left. reflexivity. }
  assert (NoDup (ids K)) as HndK by (apply (kids_nodup st1 n _ W1 Hz1)).
  (* the element is taken out, its children take its place *)
  set (st2 := remove_single_raw st1 n).
  assert (Ext st1 st2) as X2.
  { apply Ext_remove_single_inner; [exact G1|eapply cur_in; exact Hz1|].
    intros w kw Hw. rewrite (find_of_cur _ _ _ Hz1) in Hw. inversion Hw; subst. exact HsK. }
  pose proof (ext_good _ _ X2) as G2. assert (cons st2 = true) as C2 by (unfold st2; cbn; rewrite C1; exact Hcons).
  destruct (z_ups z) as [|fr ups'] eqn:Eu; [congruence|].
  assert (fr :: ups' <> []) as Hne by discriminate.
  assert (forall b a, outer_of b a (fr :: ups') = (FNil, FNil)) as Hout.
  { intros b a. unfold top_clean in Htc. rewrite Eu in Htc. exact Htc. }
  assert (forall y, In y (level_vals (z_after z)) -> is_normal y = true) as Haftn.
  { apply (level_sorted st n z W0 Hz ltac:(rewrite Eu; discriminate)). destruct (z_val z); try discriminate; reflexivity. }
  assert (store st2 = fapp A (fapp (plug_ups (frev_app (z_before z) (fapp K (z_after z))) (fr :: ups')) B)) as E2.
  { unfold st2. cbn [remove_single_raw free_slots with_store store]. rewrite fsplice_fact. rewrite <- Hzs.
    change (z_slot z) with (z_slot (with_kids z K)).
    rewrite (fact_inner a_splice _ (with_kids z K) A B (proj1 W1) Htc ltac:(cbn; rewrite Eu; discriminate) E1).
    cbn [with_kids z_slot z_val z_kids z_before z_after z_ups a_splice]. rewrite Eu. reflexivity. }
  rewrite EK in E2. cbn [fapp] in E2.
  destruct (seam_left st2 A B (z_before z) first vf kf (fapp K' (z_after z)) (fr :: ups') G2 C2 Hne Hout E2 Hnf)
    as (st3 & m & Hrc & G3 & C3 & Hcase).
  rewrite Hrc.
  destruct Hcase as [(-> & p & tp & kp & b' & tf & Eb & -> & -> & Hqp & E3)|(-> & -> & Hnm)].
  - (* the first child went into the text before it *)
    unfold unwrap_level. rewrite Eb, EK.
    set (X := FCons p (VText (tp ++ tf)) kp b') in *.
    destruct (N.eqb_spec first last) as [Hfl|Hfl].
    + subst last.
      assert (K' = FNil) as EK'.
      { destruct (first_last_cases K first (VText tf) FNil K' first vl kl r0 EK EKl HndK) as [(_ & H & _)|(H & _)]; [exact H|congruence]. }
      rewrite EK' in *. cbn [fapp] in E2, E3.
      set (zf := mkz first (VText tf) FNil (z_before z) (z_after z) (fr :: ups')).
      assert (q_next st2 first = oslot (next_sibling zf)) as Hqn2.
      { apply (q_next_view st2 zf A B (Good_WF _ G2)); [apply Hout|exact E2]. }
      set (zp := mkz p (VText (tp ++ tf)) kp b' (z_after z) (fr :: ups')).
      assert (q_next st3 p = oslot (next_sibling zp)) as Hqn3.
      { apply (q_next_view st3 zp A B (Good_WF _ G3)); [apply Hout|exact E3]. }
      assert (q_next st2 first = q_next st3 p) as Hsame.
      { rewrite Hqn2, Hqn3. unfold next_sibling, right, zcat. cbn [zf zp mkz z_after z_val]. destruct (z_after z) as [|sa va ka ra]; [reflexivity|].
        cbn [z_val value_category]. destruct (vcat_eqb CNormal (value_category va)); reflexivity. }
      rewrite Hqp, Hsame. cbn [fst].
      assert (store st3 = fapp A (fapp (plug_ups (lvl b' FNil p (VText (tp ++ tf)) kp (z_after z)) (fr :: ups')) B)) as E3' by exact E3.
      destruct (seam_right st3 A B b' FNil p (VText (tp ++ tf)) kp (z_after z) (fr :: ups') G3 C3 Hne Hout E3' eq_refl Haftn)
        as (st4 & <- & _ & _ & Hc4).
      rewrite (seam_right_is_seam_r b' FNil p _ kp (z_after z) st3 _ A B (fr :: ups') Hc4 E3'). reflexivity.
    + destruct (first_last_cases K first (VText tf) FNil K' last vl kl r0 EK EKl HndK) as [(H & _)|(_ & M & EM)]; [congruence|].
      assert (store st3 = fapp A (fapp (plug_ups (lvl X M last vl kl (z_after z)) (fr :: ups')) B)) as E3'.
      { rewrite E3, EM, fapp_assoc. reflexivity. }
      destruct (seam_right st3 A B X M last vl kl (z_after z) (fr :: ups') G3 C3 Hne Hout E3' Hnl Haftn)
        as (st4 & <- & _ & _ & Hc4). cbn [fst].
      rewrite (seam_right_is_seam_r X M last vl kl (z_after z) st3 _ A B (fr :: ups') Hc4 E3'). rewrite EM. reflexivity.
  - (* nothing went into the text before the first child *)
    set (M := frev r0) in *.
    assert (store st2 = fapp A (fapp (plug_ups (lvl (z_before z) M last vl kl (z_after z)) (fr :: ups')) B)) as E2'.
    { rewrite E2. unfold lvl. change (FCons first vf kf (fapp K' (z_after z))) with (fapp (FCons first vf kf K') (z_after z)).
      rewrite <- EK. rewrite EKl at 1. rewrite fapp_assoc. reflexivity. }
    destruct (seam_right st2 A B (z_before z) M last vl kl (z_after z) (fr :: ups') G2 C2 Hne Hout E2' Hnl Haftn)
      as (st4 & Hst4 & _ & _ & Hc4).
    assert (store (fst (remove_consolidate st2 (Some last) (q_next st2 last)))
            = fapp A (fapp (plug_ups (unwrap_level (z_before z) K (z_after z)) (fr :: ups')) B)) as Hfin.
    { rewrite Hst4. rewrite (seam_right_is_seam_r (z_before z) M last vl kl (z_after z) st2 st4 A B (fr :: ups') Hc4 E2').
      rewrite <- EKl. unfold unwrap_level. rewrite EK.
      destruct (z_before z) as [|p vp kp b']; [reflexivity|]. cbn [head_text] in Hnm.
      destruct vp; try reflexivity. destruct vf; try reflexivity. discriminate. }
    destruct (N.eqb first last); exact Hfin.
Qed.
