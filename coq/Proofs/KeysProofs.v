(* KeysProofs.v — uniqueness of attribute names / declared prefixes per element (Spec/Shape.v keys) under the forest
   surgery of Model/Store.v (C04). *)
From Coq Require Import List NArith ZArith Bool Lia Permutation Arith.
From XotV Require Import Model.Base Model.Zipper Model.Access Model.Store Spec.DocOrder Spec.Paths Spec.Shape
                         Proofs.StoreProofs Proofs.ForestFacts Proofs.ShapeProofs.
Import ListNotations.
Open Scope N_scope.

(* ---------- subsequences ---------- *)

Inductive sub {A} : list A -> list A -> Prop :=
| sub_nil : sub [] []
| sub_skip x l' l : sub l' l -> sub l' (x :: l)
| sub_keep x l' l : sub l' l -> sub (x :: l') (x :: l).

Lemma sub_refl {A} (l : list A) : sub l l.
Proof. induction l; constructor; assumption. Qed.

Lemma sub_in {A} (l' l : list A) x : sub l' l -> In x l' -> In x l.
Proof. induction 1; cbn; intros H1; auto. destruct H1; auto. Qed.

Lemma sub_app {A} (a' a b' b : list A) : sub a' a -> sub b' b -> sub (a' ++ b') (a ++ b).
Proof. induction 1; cbn; intros Hb; [exact Hb|apply sub_skip; auto|apply sub_keep; auto]. Qed.

Lemma sub_nil_l {A} (l : list A) : sub [] l.
Proof. induction l; constructor; assumption. Qed.

Lemma sub_trans {A} (a b c : list A) : sub a b -> sub b c -> sub a c.
Proof.
  intros Hab Hbc. revert a Hab. induction Hbc; intros a Hab.
  - exact Hab.
  - constructor. apply IHHbc. exact Hab.
  - inversion Hab; subst; [apply sub_skip; apply IHHbc; assumption|apply sub_keep; apply IHHbc; assumption].
Qed.

Lemma NoDup_sub {A} (l' l : list A) : sub l' l -> NoDup l -> NoDup l'.
Proof.
  induction 1; intros Hn; [constructor|inversion Hn; auto|].
  inversion Hn; subst. constructor; [|auto]. intros Hin. apply H2. eapply sub_in; eauto.
Qed.

Lemma nodupb_spec l : nodupb l = true <-> NoDup l.
Proof.
  induction l as [|x l IH]; cbn; [split; [constructor|reflexivity]|].
  rewrite andb_true_iff, negb_true_iff, IH. split.
  - intros [H1 H2]. constructor; [|exact H2]. intros Hin. 
    assert (existsb (N.eqb x) l = true) as E; [|congruence]. apply existsb_exists. exists x. split; [exact Hin|apply N.eqb_refl].
  - intros H. inversion H; subst. split; [|assumption].
    destruct (existsb (N.eqb x) l) eqn:E; [|reflexivity]. apply existsb_exists in E as (y & Hy & He). apply N.eqb_eq in He. subst. contradiction.
Qed.

Lemma nodupb_sub l' l : sub l' l -> nodupb l = true -> nodupb l' = true.
Proof. intros Hs H. apply nodupb_spec. eapply NoDup_sub; [exact Hs|apply nodupb_spec; exact H]. Qed.

Lemma level_ok_sub k' k : (forall c, c <> CNormal -> sub (level_keys c k') (level_keys c k)) -> level_ok k = true -> level_ok k' = true.
Proof.
  unfold level_ok. intros Hs H. apply andb_true_iff in H as [H1 H2].
  rewrite (nodupb_sub _ _ (Hs CAttribute ltac:(discriminate)) H1), (nodupb_sub _ _ (Hs CNamespace ltac:(discriminate)) H2). reflexivity.
Qed.

(* ---------- level_keys and keys of composed forests ---------- *)

Lemma level_keys_fapp c a b : level_keys c (fapp a b) = level_keys c a ++ level_keys c b.
Proof. induction a as [|i v k _ r IH]; cbn; [reflexivity|]. destruct (vcat_eqb _ _); cbn; rewrite IH; reflexivity. Qed.

Lemma keys_cons i v k r : keys (FCons i v k r) = level_ok k && keys k && keys r.
Proof. reflexivity. Qed.

Lemma keys_fapp a b : keys (fapp a b) = keys a && keys b.
Proof. induction a as [|i v k _ r IH]; cbn [fapp keys]; [reflexivity|]. rewrite IH, !andb_assoc. reflexivity. Qed.

Lemma level_keys_normal_single c i v k r : is_normal v = true -> c <> CNormal -> level_keys c (FCons i v k r) = level_keys c r.
Proof.
  intros Hn Hc. cbn. unfold is_normal in Hn. destruct (value_category v); try discriminate.
  destruct c; try congruence; reflexivity.
Qed.

(* a node and its subtree as one well-keyed tree *)
Definition keys_tree (k : forest) : bool := level_ok k && keys k.

(* ---------- cutting a subtree out ---------- *)

Lemma keys_fcut n f : forall f' i v k, keys f = true -> fcut n f = Some (f', (i, v, k)) ->
  keys f' = true /\ keys_tree k = true /\ (forall c, sub (level_keys c f') (level_keys c f)).
Proof.
  induction f as [|i0 v0 k0 IHk r0 IHr]; intros f' i v k; cbn [fcut]; [discriminate|].
  rewrite keys_cons. intros H. apply andb_true_iff in H as [H H3]. apply andb_true_iff in H as [H1 H2].
  destruct (N.eqb i0 n).
  - intros E. inversion E; subst. split; [exact H3|]. split; [unfold keys_tree; rewrite H1, H2; reflexivity|].
    intros c. cbn. destruct (vcat_eqb _ _); [constructor|]; apply sub_refl.
  - destruct (fcut n k0) as [[k' t]|] eqn:Ek.
    + intros E. inversion E; subst. destruct (IHk _ _ _ _ H2 eq_refl) as (Ha & Hb & Hc).
      split; [|split; [exact Hb|intros c; apply sub_refl]].
      rewrite keys_cons, Ha, H3, (level_ok_sub _ _ (fun c _ => Hc c) H1). reflexivity.
    + destruct (fcut n r0) as [[r' t]|] eqn:Er; [|discriminate].
      intros E. inversion E; subst. destruct (IHr _ _ _ _ H3 eq_refl) as (Ha & Hb & Hc).
      split; [rewrite keys_cons, H1, H2, Ha; reflexivity|]. split; [exact Hb|].
      intros c. cbn. destruct (vcat_eqb _ _); [constructor|]; apply Hc.
Qed.

(* ---------- inserting an ordinary subtree ---------- *)

Lemma keys_finsert_after ref it vt kt f : keys f = true -> is_normal vt = true -> keys_tree kt = true ->
  keys (finsert_after ref (FCons it vt kt FNil) f) = true
  /\ (forall c, c <> CNormal -> level_keys c (finsert_after ref (FCons it vt kt FNil) f) = level_keys c f).
Proof.
  intros Hk Hn Ht. induction f as [|i v k IHk r IHr]; cbn [finsert_after]; [auto|].
  rewrite keys_cons in Hk. apply andb_true_iff in Hk as [H H3]. apply andb_true_iff in H as [H1 H2].
  unfold keys_tree in Ht. apply andb_true_iff in Ht as [Ht1 Ht2].
  destruct (N.eqb i ref).
  - cbn [fapp]. split.
    + rewrite !keys_cons, H1, H2, Ht1, Ht2, H3. reflexivity.
    + intros c Hc. pose proof (level_keys_normal_single c it vt kt r Hn Hc) as E. cbn [level_keys] in *. rewrite E. reflexivity.
  - destruct (IHk H2) as [Ha Hb]. destruct (IHr H3) as [Hc Hd]. split.
    + rewrite keys_cons, Ha, Hc, andb_true_r, andb_true_r. unfold level_ok in *.
      rewrite (Hb CAttribute), (Hb CNamespace) by discriminate. exact H1.
    + intros c Hcn. cbn [level_keys]. rewrite (Hd c Hcn). reflexivity.
Qed.

Lemma keys_finsert_before ref it vt kt f : keys f = true -> is_normal vt = true -> keys_tree kt = true ->
  keys (finsert_before ref (FCons it vt kt FNil) f) = true
  /\ (forall c, c <> CNormal -> level_keys c (finsert_before ref (FCons it vt kt FNil) f) = level_keys c f).
Proof.
  intros Hk Hn Ht. induction f as [|i v k IHk r IHr]; cbn [finsert_before]; [auto|].
  rewrite keys_cons in Hk. apply andb_true_iff in Hk as [H H3]. apply andb_true_iff in H as [H1 H2].
  unfold keys_tree in Ht. apply andb_true_iff in Ht as [Ht1 Ht2].
  destruct (N.eqb i ref).
  - cbn [fapp]. split.
    + rewrite !keys_cons, H1, H2, Ht1, Ht2, H3. reflexivity.
    + intros c Hc. rewrite (level_keys_normal_single c it vt kt _ Hn Hc). reflexivity.
  - destruct (IHk H2) as [Ha Hb]. destruct (IHr H3) as [Hc Hd]. split.
    + rewrite keys_cons, Ha, Hc, andb_true_r, andb_true_r. unfold level_ok in *.
      rewrite (Hb CAttribute), (Hb CNamespace) by discriminate. exact H1.
    + intros c Hcn. cbn [level_keys]. rewrite (Hd c Hcn). reflexivity.
Qed.

(* ---------- rewriting the child list of one node ---------- *)

Lemma level_keys_fmap_kids c p g f : level_keys c (fmap_kids p g f) = level_keys c f.
Proof.
  induction f as [|i v k _ r IH]; cbn [fmap_kids]; [reflexivity|].
  destruct (N.eqb i p); cbn [level_keys]; [reflexivity|]. rewrite IH. reflexivity.
Qed.

Lemma keys_fmap_kids p g f : keys f = true ->
  (forall v k, In (p, v) (nodes f) -> keys_tree k = true -> keys_tree (g k) = true) ->
  keys (fmap_kids p g f) = true.
Proof.
  induction f as [|i v k IHk r IHr]; cbn [fmap_kids]; [auto|].
  rewrite keys_cons. intros H Hg. apply andb_true_iff in H as [H H3]. apply andb_true_iff in H as [H1 H2].
  destruct (N.eqb_spec i p) as [->|Hne].
  - rewrite keys_cons, H3, andb_true_r. apply (Hg v k (or_introl eq_refl)). unfold keys_tree. rewrite H1, H2. reflexivity.
  - rewrite keys_cons. unfold level_ok. rewrite !level_keys_fmap_kids. fold (level_ok k). rewrite H1. cbn [andb].
    rewrite IHk, IHr; auto.
    + intros w kw Hw. apply (Hg w). right. apply in_or_app. right. exact Hw.
    + intros w kw Hw. apply (Hg w). right. apply in_or_app. left. exact Hw.
Qed.

(* append / prepend of an ordinary subtree to a child list *)
Lemma keys_tree_fapp_single it vt kt k : is_normal vt = true -> keys_tree kt = true -> keys_tree k = true ->
  keys_tree (fapp k (FCons it vt kt FNil)) = true.
Proof.
  intros Hn Ht Hk. unfold keys_tree in *. apply andb_true_iff in Hk as [Hk1 Hk2]. apply andb_true_iff in Ht as [Ht1 Ht2].
  rewrite keys_fapp, Hk2, keys_cons, Ht1, Ht2. cbn [keys andb]. rewrite andb_true_r. unfold level_ok in *.
  rewrite !level_keys_fapp. rewrite !(level_keys_normal_single _ it vt kt FNil Hn) by discriminate.
  cbn [level_keys]. rewrite !app_nil_r. exact Hk1.
Qed.

Lemma level_keys_insert_first_normal c it vt kt k : is_normal vt = true -> c <> CNormal ->
  level_keys c (insert_first_normal (FCons it vt kt FNil) k) = level_keys c k.
Proof.
  intros Hn Hc. induction k as [|i v k' _ r IH]; cbn [insert_first_normal].
  - apply (level_keys_normal_single c it vt kt FNil Hn Hc).
  - destruct (is_normal v).
    + cbn [fapp]. apply (level_keys_normal_single c it vt kt _ Hn Hc).
    + cbn [level_keys]. rewrite IH. reflexivity.
Qed.

Lemma keys_insert_first_normal it vt kt k : keys_tree kt = true -> keys k = true ->
  keys (insert_first_normal (FCons it vt kt FNil) k) = true.
Proof.
  intros Ht Hk. unfold keys_tree in Ht. apply andb_true_iff in Ht as [Ht1 Ht2].
  induction k as [|i v k' _ r IH]; cbn [insert_first_normal].
  - rewrite keys_cons, Ht1, Ht2. reflexivity.
  - destruct (is_normal v).
    + cbn [fapp]. rewrite keys_cons, Ht1, Ht2. exact Hk.
    + rewrite keys_cons in *. apply andb_true_iff in Hk as [H H3]. rewrite H, (IH H3). reflexivity.
Qed.

Lemma keys_tree_insert_first_normal it vt kt k : is_normal vt = true -> keys_tree kt = true -> keys_tree k = true ->
  keys_tree (insert_first_normal (FCons it vt kt FNil) k) = true.
Proof.
  intros Hn Ht Hk. unfold keys_tree in Hk |- *. apply andb_true_iff in Hk as [Hk1 Hk2].
  rewrite (keys_insert_first_normal it vt kt k Ht Hk2), andb_true_r. unfold level_ok in *.
  rewrite !(level_keys_insert_first_normal _ it vt kt k Hn) by discriminate. exact Hk1.
Qed.

(* ---------- splicing a node out ---------- *)

(* a child list without attribute / namespace nodes at its top *)
Definition no_abnormal_roots (k : forest) : Prop := forall c, c <> CNormal -> level_keys c k = [].

Lemma keys_fsplice n f : NoDup (ids f) -> keys f = true ->
  (forall v k, find n f = Some (v, k) -> no_abnormal_roots k) ->
  keys (fsplice n f) = true /\ (forall c, c <> CNormal -> sub (level_keys c (fsplice n f)) (level_keys c f)).
Proof.
  induction f as [|i v k IHk r IHr]; intros Hnd; cbn [fsplice]; [intros _ _; split; [reflexivity|intros; constructor]|].
  cbn in Hnd. apply NoDup_cons_app_inv in Hnd as (Hik & Hir & Hk & Hr & Hkr).
  rewrite keys_cons. intros H Hf. apply andb_true_iff in H as [H H3]. apply andb_true_iff in H as [H1 H2].
  destruct (N.eqb_spec i n) as [->|Hne].
  - assert (no_abnormal_roots k) as Hna by (apply (Hf v); cbn; rewrite N.eqb_refl; reflexivity).
    split; [rewrite keys_fapp, H2, H3; reflexivity|].
    intros c Hc. rewrite level_keys_fapp, (Hna c Hc). cbn. destruct (vcat_eqb _ _); [constructor|]; apply sub_refl.
  - apply N.eqb_neq in Hne.
    destruct (IHk Hk H2) as [Ha Hb].
    { intros w kw Hw. apply (Hf w). cbn [find]. rewrite Hne, Hw. reflexivity. }
    destruct (IHr Hr H3) as [Hc Hd].
    { intros w kw Hw. apply (Hf w). cbn [find]. rewrite Hne.
      assert (find n k = None) as ->; [|exact Hw].
      apply find_none. intros Hin. eapply NoDup_app_not_in; [exact Hkr|exact Hin|]. eapply find_incl; [exact Hw|left; reflexivity]. }
    split.
    + rewrite keys_cons, Ha, Hc, !andb_true_r. apply (level_ok_sub _ k); [exact Hb|exact H1].
    + intros c Hcn. cbn [level_keys]. destruct (vcat_eqb _ _); [constructor|]; apply Hd; exact Hcn.
Qed.

Lemma keys_fsplice_root n f : NoDup (ids f) -> keys f = true -> In n (root_slots f) -> keys (fsplice n f) = true.
Proof.
  induction f as [|i v k _ r IHr]; cbn [fsplice]; [auto|]. intros Hnd.
  cbn in Hnd. apply NoDup_cons_app_inv in Hnd as (Hik & Hir & Hk & Hr & Hkr).
  rewrite keys_cons. intros H Hin. apply andb_true_iff in H as [H H3]. apply andb_true_iff in H as [H1 H2].
  destruct (N.eqb_spec i n) as [->|Hne].
  - rewrite keys_fapp, H2, H3. reflexivity.
  - cbn in Hin. destruct Hin as [Hin|Hin]; [contradiction|].
    assert (In n (ids r)) as Hnr by (apply root_slots_incl; exact Hin).
    rewrite (fsplice_absent n k); [|intros Hx; eapply NoDup_app_not_in; eauto].
    rewrite keys_cons, H1, H2. cbn [andb]. apply IHr; auto.
Qed.

(* ---------- value updates ---------- *)

Lemma keys_fset_val n g f : keys f = true -> (forall v, In (n, v) (nodes f) -> same_key v (g v)) ->
  keys (fset_val n g f) = true /\ (forall c, c <> CNormal -> level_keys c (fset_val n g f) = level_keys c f).
Proof.
  induction f as [|i v k IHk r IHr]; cbn [fset_val]; [auto|].
  rewrite keys_cons. intros H Hg. apply andb_true_iff in H as [H H3]. apply andb_true_iff in H as [H1 H2].
  destruct (N.eqb_spec i n) as [->|Hne].
  - split; [rewrite keys_cons, H1, H2, H3; reflexivity|].
    intros c Hc. destruct (Hg v (or_introl eq_refl)) as [Hcat Hkey]. cbn [level_keys]. rewrite <- Hcat.
    destruct (vcat_eqb (value_category v) c) eqn:E; [|reflexivity]. rewrite Hkey; [reflexivity|].
    intros Hn. rewrite Hn in E. destruct c; try discriminate. congruence.
  - destruct (IHk H2) as [Ha Hb]; [intros w Hw; apply Hg; right; apply in_or_app; left; exact Hw|].
    destruct (IHr H3) as [Hc Hd]; [intros w Hw; apply Hg; right; apply in_or_app; right; exact Hw|].
    split.
    + rewrite keys_cons, Ha, Hc, !andb_true_r. unfold level_ok in *. rewrite (Hb CAttribute), (Hb CNamespace) by discriminate. exact H1.
    + intros c Hcn. cbn [level_keys]. rewrite (Hd c Hcn). reflexivity.
Qed.

(* ---------- the views' insertion points ---------- *)

Lemma level_keys_insert_after_attributes c t k : Permutation (level_keys c (insert_after_attributes t k)) (level_keys c t ++ level_keys c k).
Proof.
  induction k as [|i v k' _ r IH]; cbn [insert_after_attributes]; [rewrite app_nil_r; reflexivity|].
  destruct (value_category v) eqn:Ev.
  - rewrite level_keys_fapp. reflexivity.
  - cbn [level_keys]. rewrite Ev. destruct (vcat_eqb CAttribute c); [rewrite IH; apply Permutation_middle|exact IH].
  - cbn [level_keys]. rewrite Ev. destruct (vcat_eqb CNamespace c); [rewrite IH; apply Permutation_middle|exact IH].
Qed.

Lemma level_keys_insert_after_namespaces c t k : Permutation (level_keys c (insert_after_namespaces t k)) (level_keys c t ++ level_keys c k).
Proof.
  induction k as [|i v k' _ r IH]; cbn [insert_after_namespaces]; [rewrite app_nil_r; reflexivity|].
  destruct (value_category v) eqn:Ev.
  - rewrite level_keys_fapp. reflexivity.
  - rewrite level_keys_fapp. reflexivity.
  - cbn [level_keys]. rewrite Ev. destruct (vcat_eqb CNamespace c); [rewrite IH; apply Permutation_middle|exact IH].
Qed.

Lemma keys_insert_after_attributes t k : keys t = true -> keys k = true -> keys (insert_after_attributes t k) = true.
Proof.
  intros Ht. induction k as [|i v k' _ r IH]; cbn [insert_after_attributes]; [auto|]. intros Hk.
  destruct (value_category v); [rewrite keys_fapp, Ht; exact Hk| |];
    rewrite keys_cons in *; apply andb_true_iff in Hk as [H H3]; rewrite H, (IH H3); reflexivity.
Qed.

Lemma keys_insert_after_namespaces t k : keys t = true -> keys k = true -> keys (insert_after_namespaces t k) = true.
Proof.
  intros Ht. induction k as [|i v k' _ r IH]; cbn [insert_after_namespaces]; [auto|]. intros Hk.
  destruct (value_category v); [rewrite keys_fapp, Ht; exact Hk|rewrite keys_fapp, Ht; exact Hk|];
    rewrite keys_cons in *; apply andb_true_iff in Hk as [H H3]; rewrite H, (IH H3); reflexivity.
Qed.

Lemma nodupb_perm l l' : Permutation l l' -> nodupb l = true -> nodupb l' = true.
Proof. intros Hp H. apply nodupb_spec. eapply Permutation_NoDup; [exact Hp|apply nodupb_spec; exact H]. Qed.

(* an abnormal leaf with a key that the view does not hold yet *)
Lemma keys_tree_map_insert (attr : bool) it vt kk :
  value_category vt = (if attr then CAttribute else CNamespace) ->
  ~ In (key_of_node vt) (level_keys (value_category vt) kk) -> keys_tree kk = true ->
  keys_tree ((if attr then insert_after_attributes else insert_after_namespaces) (FCons it vt FNil FNil) kk) = true.
Proof.
  intros Hc Hfresh Hk. unfold keys_tree in *. apply andb_true_iff in Hk as [Hk1 Hk2]. unfold level_ok in *.
  apply andb_true_iff in Hk1 as [Ha Hn].
  assert (keys (FCons it vt FNil FNil) = true) as Hts by reflexivity.
  destruct attr; rewrite Hc in *.
  - rewrite (keys_insert_after_attributes _ _ Hts Hk2), andb_true_r.
    rewrite (nodupb_perm _ _ (Permutation_sym (level_keys_insert_after_attributes CAttribute _ kk))),
            (nodupb_perm _ _ (Permutation_sym (level_keys_insert_after_attributes CNamespace _ kk))); [reflexivity| |].
    + cbn [level_keys]. rewrite Hc. cbn. exact Hn.
    + cbn [level_keys]. rewrite Hc. cbn. rewrite Ha, andb_true_r. apply negb_true_iff.
      destruct (existsb _ _) eqn:E; [|reflexivity]. apply existsb_exists in E as (y & Hy & He). apply N.eqb_eq in He. subst. contradiction.
  - rewrite (keys_insert_after_namespaces _ _ Hts Hk2), andb_true_r.
    rewrite (nodupb_perm _ _ (Permutation_sym (level_keys_insert_after_namespaces CAttribute _ kk))),
            (nodupb_perm _ _ (Permutation_sym (level_keys_insert_after_namespaces CNamespace _ kk))); [reflexivity| |].
    + cbn [level_keys]. rewrite Hc. cbn. rewrite Hn, andb_true_r. apply negb_true_iff.
      destruct (existsb _ _) eqn:E; [|reflexivity]. apply existsb_exists in E as (y & Hy & He). apply N.eqb_eq in He. subst. contradiction.
    + cbn [level_keys]. rewrite Hc. cbn. exact Ha.
Qed.

Lemma shape2_no_abnormal k : shape CElem 2 k = true -> no_abnormal_roots k.
Proof.
  induction k as [|i v k' _ r IH]; intros H c Hc; [reflexivity|].
  rewrite shape_cons in H. apply andb_true_iff in H as [H H3]. apply andb_true_iff in H as [H1 _].
  cbn [node_ok] in H1. apply andb_true_iff in H1 as [_ H1]. apply Nat.leb_le in H1.
  assert (vrank v = 2%nat) as Hv by (pose proof (vrank_le2 v); lia).
  cbn [level_keys]. assert (value_category v = CNormal) as -> by (unfold vrank in Hv; destruct (value_category v); cbn in Hv; try lia; reflexivity).
  destruct c; try congruence; cbn; apply IH; try assumption; cbn [next_lo] in H3; rewrite Hv in H3; exact H3.
Qed.

Lemma keys_find n f : forall v k, keys f = true -> find n f = Some (v, k) -> keys_tree k = true.
Proof.
  induction f as [|i v0 k0 IHk r0 IHr]; intros v k; cbn [find]; [discriminate|].
  rewrite keys_cons. intros H. apply andb_true_iff in H as [H H3]. apply andb_true_iff in H as [H1 H2].
  destruct (N.eqb i n).
  - intros E. inversion E; subst. unfold keys_tree. rewrite H1, H2. reflexivity.
  - destruct (find n k0) as [x|] eqn:Ek.
    + intros E. inversion E; subst. eapply IHk; eauto.
    + intros E. eapply IHr; eauto.
Qed.

(* ---------- cutting does not add keys to any level ---------- *)

Lemma level_keys_fcut_sub n f : forall f' t, fcut n f = Some (f', t) -> forall c, sub (level_keys c f') (level_keys c f).
Proof.
  induction f as [|i0 v0 k0 IHk r0 IHr]; intros f' t; cbn [fcut]; [discriminate|].
  destruct (N.eqb i0 n).
  - intros E c. inversion E; subst. cbn. destruct (vcat_eqb _ _); [constructor|]; apply sub_refl.
  - destruct (fcut n k0) as [[k' t1]|].
    + intros E c. inversion E; subst. apply sub_refl.
    + destruct (fcut n r0) as [[r' t1]|] eqn:Er; [|discriminate].
      intros E c. inversion E; subst. cbn. destruct (vcat_eqb _ _); [apply sub_keep|]; eapply IHr; reflexivity.
Qed.

Lemma find_fcut_sub n e f : forall f' t v kk',
  NoDup (ids f) -> fcut n f = Some (f', t) -> find e f' = Some (v, kk') ->
  exists kk, find e f = Some (v, kk) /\ forall c, sub (level_keys c kk') (level_keys c kk).
Proof.
  induction f as [|i v0 k0 IHk r0 IHr]; intros f' t v kk' Hnd; cbn [fcut]; [discriminate|].
  cbn in Hnd. apply NoDup_cons_app_inv in Hnd as (Hik & Hir & Hk & Hr & Hkr).
  destruct (N.eqb_spec i n) as [->|Hne].
  - intros E Hf. inversion E; subst.
    assert (In e (ids f')) as Hin by (eapply find_incl; [exact Hf|left; reflexivity]).
    assert (n <> e) as Hn by (intros ->; contradiction). apply N.eqb_neq in Hn. cbn [find]. rewrite Hn.
    assert (find e k0 = None) as ->.
    { apply find_none. intros Hx. eapply NoDup_app_not_in; eauto. }
    exists kk'. split; [exact Hf|intros; apply sub_refl].
  - destruct (fcut n k0) as [[k' t1]|] eqn:Ek.
    + intros E. inversion E; subst. cbn [find]. destruct (N.eqb i e).
      * intros Hf. inversion Hf; subst. exists k0. split; [reflexivity|]. eapply level_keys_fcut_sub. exact Ek.
      * destruct (find e k') as [x|] eqn:Ef.
        -- intros Hf. inversion Hf; subst. destruct (IHk _ _ _ _ Hk eq_refl Ef) as (kk & H1 & H2). rewrite H1. eauto.
        -- intros Hf. assert (In e (ids r0)) as Hin by (eapply find_incl; [exact Hf|left; reflexivity]).
           assert (find e k0 = None) as ->.
           { apply find_none. intros Hx. eapply NoDup_app_not_in; eauto. }
           exists kk'. split; [exact Hf|intros; apply sub_refl].
    + destruct (fcut n r0) as [[r' t1]|] eqn:Er; [|discriminate].
      intros E. inversion E; subst. cbn [find]. destruct (N.eqb i e).
      * intros Hf. inversion Hf; subst. exists kk'. split; [reflexivity|intros; apply sub_refl].
      * destruct (find e k0) as [x|] eqn:Ef.
        -- intros Hf. inversion Hf; subst. exists kk'. split; [reflexivity|intros; apply sub_refl].
        -- intros Hf. eapply IHr; eauto.
Qed.

(* rewriting the child list of the one node [p] that carries that slot *)
Lemma keys_fmap_kids_find p g f : NoDup (ids f) -> keys f = true ->
  (forall v k, find p f = Some (v, k) -> keys_tree (g k) = true) -> keys (fmap_kids p g f) = true.
Proof.
  induction f as [|i v k IHk r IHr]; intros Hnd; cbn [fmap_kids]; [auto|].
  cbn in Hnd. apply NoDup_cons_app_inv in Hnd as (Hik & Hir & Hk & Hr & Hkr).
  rewrite keys_cons. intros H Hg. apply andb_true_iff in H as [H H3]. apply andb_true_iff in H as [H1 H2].
  destruct (N.eqb_spec i p) as [->|Hne].
  - rewrite keys_cons, H3, andb_true_r. apply (Hg v k). cbn. rewrite N.eqb_refl. reflexivity.
  - apply N.eqb_neq in Hne. rewrite keys_cons. unfold level_ok. rewrite !level_keys_fmap_kids. fold (level_ok k). rewrite H1. cbn [andb].
    rewrite IHk, IHr; auto.
    + intros w kw Hw. apply (Hg w). cbn [find]. rewrite Hne.
      assert (find p k = None) as ->; [|exact Hw].
      apply find_none. intros Hin. eapply NoDup_app_not_in; [exact Hkr|exact Hin|]. eapply find_incl; [exact Hw|left; reflexivity].
    + intros w kw Hw. apply (Hg w). cbn [find]. rewrite Hne, Hw. reflexivity.
Qed.

(* ---------- in an ordered child list the attribute view holds ALL attribute nodes, the namespace view all namespace nodes ---------- *)

Fixpoint level_vals (f : forest) : list value := match f with FNil => [] | FCons _ v _ r => v :: level_vals r end.

Definition v_is (c : vcat) (v : value) : bool := vcat_eqb (value_category v) c.

Lemma level_keys_filter c f : level_keys c f = map key_of_node (filter (v_is c) (level_vals f)).
Proof. induction f as [|i v k _ r IH]; cbn; [reflexivity|]. unfold v_is at 1. destruct (vcat_eqb _ _); cbn; rewrite IH; reflexivity. Qed.

Lemma shape2_all_normal k : shape CElem 2 k = true -> Forall (fun v => is_normal v = true) (level_vals k).
Proof.
  induction k as [|i v k' _ r IH]; intros H; [constructor|].
  rewrite shape_cons in H. apply andb_true_iff in H as [H H3]. apply andb_true_iff in H as [H1 _].
  cbn [node_ok] in H1. apply andb_true_iff in H1 as [_ H1]. apply Nat.leb_le in H1.
  assert (vrank v = 2%nat) as Hv by (pose proof (vrank_le2 v); lia).
  constructor; [apply vrank_normal; exact Hv|]. apply IH. cbn [next_lo] in H3. rewrite Hv in H3. exact H3.
Qed.

Lemma filter_none {A} (p : A -> bool) l : Forall (fun x => p x = false) l -> filter p l = [].
Proof. induction 1 as [|x l Hx _ IH]; cbn; [reflexivity|]. rewrite Hx. exact IH. Qed.

Lemma take_while_none' {A} (p : A -> bool) l : Forall (fun x => p x = false) l -> take_while p l = [].
Proof. destruct 1 as [|x l Hx _]; cbn; [reflexivity|]. rewrite Hx. reflexivity. Qed.

Lemma normal_not c v : c <> CNormal -> is_normal v = true -> v_is c v = false.
Proof. unfold v_is, is_normal. destruct (value_category v), c; try discriminate; try congruence; reflexivity. Qed.

(* from an attribute on: take_while attribute = filter attribute *)
Lemma attr_run k : forall lo, (1 <= lo)%nat -> shape CElem lo k = true ->
  take_while (v_is CAttribute) (level_vals k) = filter (v_is CAttribute) (level_vals k)
  /\ filter (v_is CNamespace) (level_vals k) = [].
Proof.
  induction k as [|i v k' _ r IH]; intros lo Hlo H; [split; reflexivity|].
  rewrite shape_cons in H. apply andb_true_iff in H as [H H3]. apply andb_true_iff in H as [H1 _].
  cbn [node_ok] in H1. apply andb_true_iff in H1 as [_ H1]. apply Nat.leb_le in H1. cbn [next_lo] in H3.
  cbn [level_vals take_while filter]. unfold vrank in H1, H3.
  destruct (value_category v) eqn:Ev; cbn [cat_rank] in *.
  - (* ordinary: everything after it is ordinary *)
    assert (v_is CAttribute v = false) as -> by (unfold v_is; rewrite Ev; reflexivity).
    assert (v_is CNamespace v = false) as -> by (unfold v_is; rewrite Ev; reflexivity).
    pose proof (shape2_all_normal _ H3) as Hall. split.
    + symmetry. apply filter_none. eapply Forall_impl; [|exact Hall]. intros w Hw. apply normal_not; [discriminate|exact Hw].
    + apply filter_none. eapply Forall_impl; [|exact Hall]. intros w Hw. apply normal_not; [discriminate|exact Hw].
  - assert (v_is CAttribute v = true) as -> by (unfold v_is; rewrite Ev; reflexivity).
    assert (v_is CNamespace v = false) as -> by (unfold v_is; rewrite Ev; reflexivity).
    destruct (IH 1%nat (le_n _) H3) as [Ha Hb]. split; [rewrite Ha; reflexivity|exact Hb].
  - lia.
Qed.

Lemma views_complete k : shape CElem 0 k = true ->
  take_while (v_is CNamespace) (level_vals k) = filter (v_is CNamespace) (level_vals k)
  /\ take_while (v_is CAttribute) (skip_while (v_is CNamespace) (level_vals k)) = filter (v_is CAttribute) (level_vals k).
Proof.
  induction k as [|i v k' _ r IH]; intros H; [split; reflexivity|].
  rewrite shape_cons in H. apply andb_true_iff in H as [H H3]. apply andb_true_iff in H as [H1 _].
  cbn [next_lo] in H3. cbn [level_vals take_while skip_while filter]. unfold vrank in H3.
  destruct (value_category v) eqn:Ev; cbn [cat_rank] in *.
  - assert (v_is CAttribute v = false) as Ea by (unfold v_is; rewrite Ev; reflexivity).
    assert (v_is CNamespace v = false) as En by (unfold v_is; rewrite Ev; reflexivity).
    rewrite En, Ea. cbn [take_while]. rewrite Ea.
    pose proof (shape2_all_normal _ H3) as Hall.
    assert (filter (v_is CNamespace) (level_vals r) = []) as ->.
    { apply filter_none. eapply Forall_impl; [|exact Hall]. intros w Hw. apply normal_not; [discriminate|exact Hw]. }
    assert (filter (v_is CAttribute) (level_vals r) = []) as ->.
    { apply filter_none. eapply Forall_impl; [|exact Hall]. intros w Hw. apply normal_not; [discriminate|exact Hw]. }
    split; reflexivity.
  - assert (v_is CAttribute v = true) as Ea by (unfold v_is; rewrite Ev; reflexivity).
    assert (v_is CNamespace v = false) as En by (unfold v_is; rewrite Ev; reflexivity).
    rewrite En, Ea. cbn [take_while]. rewrite Ea.
    destruct (attr_run r 1%nat (le_n _) H3) as [Ha Hb]. rewrite Hb, Ha. split; reflexivity.
  - assert (v_is CAttribute v = false) as Ea by (unfold v_is; rewrite Ev; reflexivity).
    assert (v_is CNamespace v = true) as En by (unfold v_is; rewrite Ev; reflexivity).
    rewrite En, Ea. destruct (IH H3) as [Ha Hb]. rewrite Ha, Hb. split; reflexivity.
Qed.
