(* ParseCompose.v — parsing a further document into a good store gives a good store (C04 with C03): the tree the builder
   hands back (Proofs/BuilderSound.v) is put into the arena as a new root.  The arena is assumed to have no free slots
   (then `Arena::new_node` pushes, and the slots of the parsed tree are the next ones: the assumption of Model/Builder.v). *)
From Coq Require Import List NArith ZArith Bool Lia Permutation Arith.
From XotV Require Import Model.Base Model.Zipper Model.Access Model.Store Model.Interning Model.InternOps Model.Builder
                         Spec.DocOrder Spec.Shape Spec.NoAdj
                         Proofs.StoreProofs Proofs.ShapeProofs Proofs.KeysProofs Proofs.InvProofs Proofs.InvSteps
                         Proofs.NoAdjFacts Proofs.BuilderSound.
Import ListNotations.
Open Scope N_scope.

Definition parse_into (st : xstate) (p : parsed) : xstate :=
  {| store := fapp (pr_tree p) (store st);
     stamps := stamps st ++ repeat 0%Z (length (ids (pr_tree p)));
     free := free st; cons := cons st |}.

Lemma NoDup_app_intro {A} (a b : list A) : NoDup a -> NoDup b -> (forall x, In x a -> In x b -> False) -> NoDup (a ++ b).
Proof.
  induction a as [|x a IH]; intros Ha Hb Hd; cbn; [exact Hb|]. inversion Ha; subst. constructor.
  - intros Hin. apply in_app_or in Hin as [Hin|Hin]; [contradiction|]. apply (Hd x); [left; reflexivity|exact Hin].
  - apply IH; auto. intros y Hy. apply Hd. right. exact Hy.
Qed.

Lemma in_nrange lo n x : In x (nrange lo n) <-> exists k, (k < n)%nat /\ x = lo + N.of_nat k.
Proof.
  unfold nrange. rewrite in_map_iff. split.
  - intros (k & Hk & Hin). apply in_seq in Hin. exists k. split; [lia|auto].
  - intros (k & Hk & ->). exists k. split; [reflexivity|apply in_seq; lia].
Qed.

Lemma nrange_nodup lo n : NoDup (nrange lo n).
Proof.
  unfold nrange. apply FinFun.Injective_map_NoDup; [|apply seq_NoDup]. intros a b H. lia.
Qed.

Lemma nrange_length lo n : length (nrange lo n) = n.
Proof. unfold nrange. rewrite map_length, seq_length. reflexivity. Qed.

Lemma nth_app_zeros (l : list Z) n k : nth k (l ++ repeat 0%Z n) 0%Z = nth k l 0%Z.
Proof.
  destruct (Nat.lt_ge_cases k (length l)) as [H|H].
  - apply app_nth1. exact H.
  - rewrite app_nth2 by exact H. rewrite (nth_overflow l) by exact H.
    destruct (Nat.lt_ge_cases (k - length l) n) as [H2|H2].
    + apply nth_repeat.
    + apply nth_overflow. rewrite repeat_length. exact H2.
Qed.

Theorem Ext_parse_into st p : Good st -> free st = [] -> tree_sound (N.of_nat (length (stamps st))) p ->
  Ext st (parse_into st p) /\ (noadj st -> noadj (parse_into st p)) /\ cons (parse_into st p) = cons st.
Proof.
  intros G Hfree (Hsh & Hky & Hna & cnt & Hperm & Hnext).
  pose proof G as ([S1 S2 S3 S4 S5] & Gsh & Gky).
  set (n0 := N.of_nat (length (stamps st))) in *.
  assert (length (ids (pr_tree p)) = cnt) as Hlen by (rewrite (Permutation_length Hperm); apply nrange_length).
  assert (forall x, In x (ids (pr_tree p)) <-> exists k, (k < cnt)%nat /\ x = n0 + N.of_nat k) as HinT.
  { intros x. rewrite <- in_nrange. split; intros H; [eapply Permutation_in; [exact Hperm|exact H]|eapply Permutation_in; [apply Permutation_sym; exact Hperm|exact H]]. }
  assert (forall x, In x (ids (store st)) -> (N.to_nat x < length (stamps st))%nat) as HinS.
  { intros x Hx. apply S2. unfold slots_used. apply in_or_app. left. exact Hx. }
  assert (forall i, stamp_of (parse_into st p) i = stamp_of st i) as Hstamp.
  { intros i. unfold stamp_of, parse_into. cbn [stamps]. apply nth_app_zeros. }
  assert (Good (parse_into st p)) as G'.
  { split; [|split].
    - constructor; unfold slots_used, parse_into; cbn [store free stamps]; rewrite ?Hfree, ?app_nil_r, ?ids_fapp.
      + apply NoDup_app_intro.
        * eapply Permutation_NoDup; [apply Permutation_sym; exact Hperm|apply nrange_nodup].
        * unfold slots_used in S1. rewrite Hfree, app_nil_r in S1. exact S1.
        * intros x Hx Hy. apply HinT in Hx as (k & Hk & ->). apply HinS in Hy. unfold n0 in Hy. lia.
      + intros i Hi. rewrite app_length, repeat_length, Hlen. apply in_app_or in Hi as [Hi|Hi].
        * apply HinT in Hi as (k & Hk & ->). unfold n0. lia.
        * apply HinS in Hi. lia.
      + intros k Hk. rewrite app_length, repeat_length, Hlen in Hk. apply in_or_app.
        destruct (Nat.lt_ge_cases k (length (stamps st))) as [H|H].
        * right. pose proof (S3 k H) as Hu. unfold slots_used in Hu. rewrite Hfree, app_nil_r in Hu. exact Hu.
        * left. apply HinT. exists (k - length (stamps st))%nat. split; [lia|]. unfold n0. lia.
      + intros i Hi. apply in_app_or in Hi as [Hi|Hi].
        * apply HinT in Hi as (k & Hk & ->).
          unfold stamp_of. cbn [stamps parse_into]. rewrite nth_app_zeros. rewrite nth_overflow; [lia|]. unfold n0. lia.
        * unfold stamp_of. cbn [stamps parse_into]. rewrite nth_app_zeros. apply S4. exact Hi.
      + intros i [].
    - unfold parse_into. cbn [store]. apply shape_fapp_root; assumption.
    - unfold parse_into. cbn [store]. rewrite keys_fapp, Hky, Gky. reflexivity. }
  split; [|split; [|reflexivity]].
  - constructor; [exact G|exact G'| | |].
    + intros i. unfold gen. rewrite Hstamp. lia.
    + unfold parse_into. cbn [stamps]. rewrite app_length. lia.
    + intros x v v' _ Hv Hv'. apply val_nodes in Hv, Hv'. unfold parse_into in Hv'. cbn [store] in Hv'. rewrite nodes_fapp in Hv'.
      assert (In (x, v) (nodes (store (parse_into st p)))) as Hv2 by (unfold parse_into; cbn [store]; rewrite nodes_fapp; apply in_or_app; right; exact Hv).
      assert (In (x, v') (nodes (store (parse_into st p)))) as Hv3 by (unfold parse_into; cbn [store]; rewrite nodes_fapp; exact Hv').
      rewrite (nodes_functional _ _ _ _ (Good_nodup _ G') Hv2 Hv3). apply same_class_refl.
  - intros Hn. unfold noadj, parse_into in *. cbn [store]. rewrite na_fapp, Hna, Hn. reflexivity.
Qed.
