(* InvOps.v — C04: every operation of the mutating API (Model/Manip.v), called with ANY arguments, takes a good state
   (slot table consistent, forest well shaped) to a good state, and never lowers a slot generation. *)
From Coq Require Import List NArith ZArith Bool Lia Permutation Arith.
From XotV Require Import Model.Base Model.Zipper Model.Access Model.Store Model.Manip Spec.DocOrder Spec.Paths Spec.Shape
                         Proofs.PermTac Proofs.StoreProofs Proofs.ForestFacts Proofs.ShapeProofs Proofs.KeysProofs Proofs.InvProofs Proofs.InvSteps Proofs.NodeMapProofs.
Import ListNotations.
Open Scope N_scope.

(* ---------- moving a subtree ---------- *)

Lemma Ext_move st child ins :
  Good st ->
  (forall f' v k, fcut child (store st) = Some (f', (child, v, k)) -> NoDup (ids f') -> shape_store f' = true ->
     kids_ok v k = true -> keys f' = true -> keys_tree k = true ->
     Permutation (nodes (ins (FCons child v k FNil) f')) ((child, v) :: nodes k ++ nodes f')
     /\ shape_store (ins (FCons child v k FNil) f') = true
     /\ keys (ins (FCons child v k FNil) f') = true) ->
  Ext st (move st child ins).
Proof.
  intros G H. unfold move. destruct (fcut child (store st)) as [[f' [[i v] k]]|] eqn:E; [|apply Ext_refl; exact G].
  pose proof (fcut_ids _ _ _ _ _ _ E) as Hp. pose proof (fcut_slot _ _ _ _ _ _ E) as ->.
  destruct (shape_fcut _ _ _ _ _ _ _ _ (Nat.le_0_l _) (Good_shape _ G) E) as [Hf Hk].
  destruct (keys_fcut _ _ _ _ _ _ (Good_keys _ G) E) as (Kf & Kt & _).
  assert (NoDup (ids f')) as Hnd.
  { pose proof (Good_nodup _ G) as Hn. eapply Permutation_NoDup in Hn; [|exact Hp].
    inversion Hn; subst. apply NoDup_app_inv in H3. tauto. }
  destruct (H f' v k eq_refl Hnd Hf Hk Kf Kt) as (H1 & H2 & H3). cbn [single].
  apply fcut_spec in E as [_ E].
  apply Ext_with_store; [exact G| |exact H2|exact H3|apply vsub_perm; rewrite H1; exact E].
  rewrite !ids_nodes. apply Permutation_map. rewrite H1. apply Permutation_sym. exact E.
Qed.

Lemma ids_of_nodes_perm a b : Permutation (nodes a) (nodes b) -> Permutation (ids a) (ids b).
Proof. intros H. rewrite !ids_nodes. apply Permutation_map. exact H. Qed.

Lemma ids_finsert_after ref t f : NoDup (ids f) -> In ref (ids f) ->
  Permutation (ids (finsert_after ref t f)) (ids t ++ ids f).
Proof.
  intros H1 H2. pose proof (finsert_after_spec ref t f H1 H2) as Hp. apply (Permutation_map fst) in Hp.
  rewrite map_app, <- !ids_nodes in Hp. rewrite Hp. apply Permutation_app_comm.
Qed.

Lemma ids_finsert_before ref t f : NoDup (ids f) -> In ref (ids f) ->
  Permutation (ids (finsert_before ref t f)) (ids t ++ ids f).
Proof.
  intros H1 H2. pose proof (finsert_before_spec ref t f H1 H2) as Hp. apply (Permutation_map fst) in Hp.
  rewrite map_app, <- !ids_nodes in Hp. rewrite Hp. apply Permutation_app_comm.
Qed.

Lemma ids_fmap_kids p g t f : NoDup (ids f) -> In p (ids f) ->
  (forall k, Permutation (nodes (g k)) (nodes k ++ nodes t)) ->
  Permutation (ids (fmap_kids p g f)) (ids t ++ ids f).
Proof.
  intros H1 H2 Hg. pose proof (fmap_kids_spec p g t f H1 H2 Hg) as Hp. apply (Permutation_map fst) in Hp.
  rewrite map_app, <- !ids_nodes in Hp. rewrite Hp. apply Permutation_app_comm.
Qed.

Lemma nodes_insert_first_normal t k : Permutation (nodes (insert_first_normal t k)) (nodes k ++ nodes t).
Proof.
  induction k as [|i v k' _ r IHr]; cbn [insert_first_normal]; [cbn; reflexivity|].
  destruct (is_normal v).
  - rewrite nodes_fapp. apply Permutation_app_comm.
  - cbn. rewrite IHr. perm.
Qed.

Lemma nodes_insert_after_attributes t k : Permutation (nodes (insert_after_attributes t k)) (nodes k ++ nodes t).
Proof.
  induction k as [|i v k' _ r IHr]; cbn [insert_after_attributes]; [cbn; reflexivity|].
  destruct (value_category v).
  - rewrite nodes_fapp. apply Permutation_app_comm.
  - cbn. rewrite IHr. perm.
  - cbn. rewrite IHr. perm.
Qed.

Lemma nodes_insert_after_namespaces t k : Permutation (nodes (insert_after_namespaces t k)) (nodes k ++ nodes t).
Proof.
  induction k as [|i v k' _ r IHr]; cbn [insert_after_namespaces]; [cbn; reflexivity|].
  destruct (value_category v).
  - rewrite nodes_fapp. apply Permutation_app_comm.
  - rewrite nodes_fapp. apply Permutation_app_comm.
  - cbn. rewrite IHr. perm.
Qed.

(* ---------- what the argument checks establish ---------- *)

Lemma structure_check_facts st p c : structure_check st (Some p) c = true ->
  mem c (q_ancestors st p) = false
  /\ (exists vp, val st p = Some vp /\ (is_elem vp = true \/ is_doc vp = true))
  /\ (exists vc, val st c = Some vc /\ child_ok vc = true).
Proof.
  unfold structure_check. intros H.
  apply andb_true_iff in H as [H H4]. apply andb_true_iff in H as [H H3]. apply andb_true_iff in H as [H1 H2].
  apply negb_true_iff in H1. split; [exact H1|]. split.
  - apply orb_true_iff in H2 as [H2|H2]; apply is_type_val in H2 as (v & Hv & Ht); exists v; (split; [exact Hv|]);
      destruct v; try discriminate; auto.
  - apply is_normal_node_val in H4 as (v & Hv & Hn). exists v. split; [exact Hv|].
    unfold child_ok. rewrite Hn. cbn. apply negb_true_iff in H3. unfold is_type in H3. rewrite Hv in H3.
    destruct v; try reflexivity. discriminate.
Qed.

Lemma same_class_child_ok v w : same_class v w -> child_ok v = true -> child_ok w = true.
Proof.
  intros (Hr & Hd & _). unfold child_ok. intros H. apply andb_true_iff in H as [H1 H2].
  rewrite <- Hd, H2, andb_true_r. apply vrank_normal. rewrite <- Hr. apply vrank_normal. exact H1.
Qed.

Lemma same_class_container v w : same_class v w -> (is_elem v = true \/ is_doc v = true) -> (is_elem w = true \/ is_doc w = true).
Proof. intros (_ & Hd & He). rewrite <- Hd, <- He. auto. Qed.

Lemma same_class_normal v w : same_class v w -> is_normal v = true -> is_normal w = true.
Proof. intros (Hr & _ & _) H. apply vrank_normal. rewrite <- Hr. apply vrank_normal. exact H. Qed.

Lemma val_cur st n v : val st n = Some v -> cur st n <> None.
Proof. unfold val. destruct (cur st n); [discriminate|discriminate]. Qed.

Lemma fcut_nodes_incl n f f' t : fcut n f = Some (f', t) -> incl (nodes f') (nodes f).
Proof.
  destruct t as [[i v] k]. intros H x Hx. apply fcut_spec in H as [_ Hp].
  eapply Permutation_in; [apply Permutation_sym; exact Hp|]. right. apply in_or_app. right. exact Hx.
Qed.

(* a later state in which nodes have only disappeared, values stayed in their class and no subtree grew *)
Definition later (st0 st : xstate) : Prop :=
  vsub (store st0) (store st) /\ (forall c, incl (subtree_ids c (store st)) (subtree_ids c (store st0))).

Lemma later_refl st : later st st.
Proof. split; [apply vsub_refl|intros c; apply incl_refl]. Qed.

(* the value of a node that is still there, seen from the earlier state *)
Lemma later_value st0 st x v0 v : Good st0 -> later st0 st -> val st0 x = Some v0 -> In (x, v) (nodes (store st)) -> same_class v0 v.
Proof.
  intros G [Hs _] H0 H. eapply vsub_val; [apply Good_nodup; exact G|exact Hs|apply val_nodes; exact H0|exact H].
Qed.

(* inserting [child] into the child list of [parent] by [g], after a check made in an earlier state *)
Lemma Ext_move_child st0 st parent child (g : forest -> forest -> forest) :
  Good st0 -> Good st -> later st0 st -> structure_check st0 (Some parent) child = true ->
  In parent (ids (store st)) ->
  (forall t k, Permutation (nodes (g t k)) (nodes k ++ nodes t)) ->
  (forall it vt kt vp k, child_ok vt = true -> kids_ok vt kt = true -> (is_elem vp = true \/ is_doc vp = true) ->
     kids_ok vp k = true -> kids_ok vp (g (FCons it vt kt FNil) k) = true) ->
  (forall it vt kt k, is_normal vt = true -> keys_tree kt = true -> keys_tree k = true ->
     keys_tree (g (FCons it vt kt FNil) k) = true) ->
  Ext st (move st child (fun t f => fmap_kids parent (g t) f)).
Proof.
  intros G0 G Hl Hsc Hpin Hgp Hgs Hgk.
  destruct (structure_check_facts _ _ _ Hsc) as (Hanc & (vp0 & Hvp0 & Hcont) & (vc0 & Hvc0 & Hcok)).
  apply Ext_move; [exact G|]. intros f' v k Hcut Hnd Hsh Hk Kf Kt.
  assert (In parent (ids f')) as Hpf.
  { eapply fcut_keeps; [exact Hcut|exact Hpin|]. intros Hin. apply (proj2 Hl) in Hin.
    eapply not_ancestor_not_below; [apply Good_nodup; exact G0|eapply val_cur; exact Hvp0|exact Hanc|exact Hin]. }
  assert (In (child, v) (nodes (store st))) as Hcv by (eapply find_in_nodes; eapply fcut_find; exact Hcut).
  assert (child_ok v = true) as Hcv_ok.
  { eapply same_class_child_ok; [exact (later_value st0 st child vc0 v G0 Hl Hvc0 Hcv)|exact Hcok]. }
  split; [|split].
  - rewrite (fmap_kids_spec parent (g (FCons child v k FNil)) (FCons child v k FNil) f' Hnd Hpf) by (intros; apply Hgp).
    cbn. rewrite app_nil_r. perm.
  - apply shape_fmap_kids; [exact Hsh|]. intros vp kp Hin Hkp. apply Hgs; auto.
    eapply same_class_container; [|exact Hcont]. eapply later_value; [exact G0|exact Hl|exact Hvp0|].
    eapply fcut_nodes_incl; [exact Hcut|exact Hin].
  - apply keys_fmap_kids; [exact Kf|]. intros vp kp _ Hkp. apply Hgk; auto.
    unfold child_ok in Hcv_ok. apply andb_true_iff in Hcv_ok. tauto.
Qed.

Lemma sibling_check_facts st r n : sibling_check st r n = true ->
  r <> n /\ (exists vr, val st r = Some vr /\ is_normal vr = true)
  /\ exists P, q_parent st r = Some P /\ structure_check st (Some P) n = true.
Proof.
  unfold sibling_check. intros H. apply andb_true_iff in H as [H H3]. apply andb_true_iff in H as [H1 H2].
  apply negb_true_iff in H1. apply N.eqb_neq in H1. split; [exact H1|]. split; [apply is_normal_node_val; exact H2|].
  destruct (q_parent st r) as [P|]; [exists P; auto|discriminate].
Qed.

(* inserting [new] next to [ref] by [ins], after a check made in an earlier state *)
Lemma Ext_move_sibling st0 st ref new (ins : forest -> forest -> forest) :
  Good st0 -> Good st -> later st0 st -> sibling_check st0 ref new = true -> In ref (ids (store st)) ->
  (forall t f, NoDup (ids f) -> In ref (ids f) -> Permutation (nodes (ins t f)) (nodes f ++ nodes t)) ->
  (forall it vt kt f, shape_store f = true -> (forall v, In (ref, v) (nodes f) -> is_normal v = true) ->
     child_ok vt = true -> kids_ok vt kt = true -> shape_store (ins (FCons it vt kt FNil) f) = true) ->
  (forall it vt kt f, keys f = true -> is_normal vt = true -> keys_tree kt = true -> keys (ins (FCons it vt kt FNil) f) = true) ->
  Ext st (move st new ins).
Proof.
  intros G0 G Hl Hsc Hrin Hperm Hshape Hkeys.
  destruct (sibling_check_facts _ _ _ Hsc) as (Hne & (vr0 & Hvr0 & Hnr) & (P & HP & Hst)).
  destruct (structure_check_facts _ _ _ Hst) as (Hanc & (vp0 & Hvp0 & _) & (vc0 & Hvc0 & Hcok)).
  apply Ext_move; [exact G|]. intros f' v k Hcut Hnd Hsh Hk Kf Kt.
  assert (In ref (ids f')) as Hrf.
  { eapply fcut_keeps; [exact Hcut|exact Hrin|]. intros Hin. apply (proj2 Hl) in Hin.
    eapply sibling_not_below; [apply Good_nodup; exact G0|exact HP|eapply val_cur; exact Hvp0|exact Hanc|exact Hne|exact Hin]. }
  assert (In (new, v) (nodes (store st))) as Hcv by (eapply find_in_nodes; eapply fcut_find; exact Hcut).
  assert (child_ok v = true) as Hcv_ok.
  { eapply same_class_child_ok; [exact (later_value st0 st new vc0 v G0 Hl Hvc0 Hcv)|exact Hcok]. }
  split; [|split].
  - rewrite (Hperm _ _ Hnd Hrf). cbn. rewrite app_nil_r. perm.
  - apply Hshape; auto. intros w Hw. eapply same_class_normal; [|exact Hnr].
    eapply later_value; [exact G0|exact Hl|exact Hvr0|]. eapply fcut_nodes_incl; [exact Hcut|exact Hw].
  - apply Hkeys; auto. unfold child_ok in Hcv_ok. apply andb_true_iff in Hcv_ok. tauto.
Qed.

(* ---------- what survives the consolidation at the old position ---------- *)

Lemma rc_keeps st a b st1 m :
  Good st -> remove_consolidate st a b = (st1, m) ->
  later st st1
  /\ (forall x, In x (ids (store st)) -> (m = false \/ b <> Some x \/ (forall s, val st x <> Some (VText s))) -> In x (ids (store st1))).
Proof.
  intros G E. apply remove_consolidate_cases in E as [[-> ->]|[-> (n & -> & Hm)]].
  - split; [apply later_refl|auto].
  - destruct (merged_keeps _ _ _ G Hm) as (H1 & H2 & H3). split; [split; assumption|].
    intros x Hx [Hd|[Hd|Hd]]; [discriminate| |].
    + apply H1; [exact Hx|]. intros ->. apply Hd. reflexivity.
    + apply H1; [exact Hx|]. intros ->. destruct Hm as (t & g & s & Hv & _). apply (Hd s). exact Hv.
Qed.

Lemma container_not_text st x vp : val st x = Some vp -> (is_elem vp = true \/ is_doc vp = true) -> forall s, val st x <> Some (VText s).
Proof. intros H [He|Hd] s Hs; rewrite H in Hs; inversion Hs; subst; discriminate. Qed.

Lemma val_in_ids st x v : val st x = Some v -> In x (ids (store st)).
Proof. intros H. apply val_nodes in H. rewrite ids_nodes. apply (in_map fst) in H. exact H. Qed.

(* ---------- append / prepend ---------- *)

Lemma kids_ok_append it vt kt vp k : child_ok vt = true -> kids_ok vt kt = true -> (is_elem vp = true \/ is_doc vp = true) ->
  kids_ok vp k = true -> kids_ok vp (fapp k (FCons it vt kt FNil)) = true.
Proof.
  intros H1 H2 H3 H4. destruct vp; cbn in H3; try (destruct H3; discriminate); cbn [kids_ok] in *;
    apply shape_fapp_single; auto; discriminate.
Qed.

Lemma kids_ok_prepend it vt kt vp k : child_ok vt = true -> kids_ok vt kt = true -> (is_elem vp = true \/ is_doc vp = true) ->
  kids_ok vp k = true -> kids_ok vp (insert_first_normal (FCons it vt kt FNil) k) = true.
Proof.
  intros H1 H2 H3 H4. destruct vp; cbn in H3; try (destruct H3; discriminate); cbn [kids_ok] in *;
    apply shape_insert_first_normal; auto; discriminate.
Qed.

Lemma Ext_m_append st p c : Good st -> Ext st (fst (m_append st p c)).
Proof.
  intros G. unfold m_append.
  destruct (structure_check st (Some p) c) eqn:Hsc; cbn [negb]; [|apply Ext_refl; exact G].
  destruct (opt_eqb (q_raw_last_child st p) (Some c)); [apply Ext_refl; exact G|].
  destruct (remove_consolidate st (q_prev st c) (q_next st c)) as [st1 m0] eqn:E1.
  cbv zeta. set (last := if opt_eqb (q_last_child st1 p) (Some c) then q_prev st1 c else q_last_child st1 p).
  destruct (add_consolidate st1 c last None) as [st2 m] eqn:E2.
  pose proof (Ext_remove_consolidate st (q_prev st c) (q_next st c) G) as X1. rewrite E1 in X1. cbn [fst] in X1.
  pose proof (Ext_add_consolidate st1 c last None (ext_good _ _ X1)) as X2. rewrite E2 in X2. cbn [fst] in X2.
  destruct m; cbn [fst]; [eapply Ext_trans; eauto|].
  apply add_consolidate_cases in E2 as [[_ ->]|[Hm _]]; [|discriminate].
  eapply Ext_trans; [exact X1|].
  destruct (rc_keeps _ _ _ _ _ G E1) as [Hl Hk].
  destruct (structure_check_facts _ _ _ Hsc) as (_ & (vp0 & Hvp0 & Hcont) & _).
  apply (Ext_move_child st st1 p c (fun t k => fapp k t)); auto.
  - apply X1.
  - apply Hk; [eapply val_in_ids; exact Hvp0|]. right. right. eapply container_not_text; eauto.
  - intros t k. rewrite nodes_fapp. reflexivity.
  - intros. apply kids_ok_append; auto.
  - intros. apply keys_tree_fapp_single; auto.
Qed.

Lemma Ext_m_prepend st p c : Good st -> Ext st (fst (m_prepend st p c)).
Proof.
  intros G. unfold m_prepend.
  destruct (structure_check st (Some p) c) eqn:Hsc; cbn [negb]; [|apply Ext_refl; exact G].
  destruct (opt_eqb (q_first_child st p) (Some c)); [apply Ext_refl; exact G|].
  destruct (remove_consolidate st (q_prev st c) (q_next st c)) as [st1 m0] eqn:E1.
  destruct (add_consolidate st1 c None (q_first_child st1 p)) as [st2 m] eqn:E2.
  pose proof (Ext_remove_consolidate st (q_prev st c) (q_next st c) G) as X1. rewrite E1 in X1. cbn [fst] in X1.
  pose proof (Ext_add_consolidate st1 c None (q_first_child st1 p) (ext_good _ _ X1)) as X2. rewrite E2 in X2. cbn [fst] in X2.
  destruct m; cbn [fst]; [eapply Ext_trans; eauto|].
  apply add_consolidate_cases in E2 as [[_ ->]|[Hm _]]; [|discriminate].
  eapply Ext_trans; [exact X1|].
  destruct (rc_keeps _ _ _ _ _ G E1) as [Hl Hk].
  destruct (structure_check_facts _ _ _ Hsc) as (_ & (vp0 & Hvp0 & Hcont) & _).
  apply (Ext_move_child st st1 p c (fun t k => insert_first_normal t k)); auto.
  - apply X1.
  - apply Hk; [eapply val_in_ids; exact Hvp0|]. right. right. eapply container_not_text; eauto.
  - intros t k. apply nodes_insert_first_normal.
  - intros. apply kids_ok_prepend; auto.
  - intros. apply keys_tree_insert_first_normal; auto.
Qed.

(* ---------- insert_after / insert_before ---------- *)

Lemma opt_eqb_false_ne a x : opt_eqb a (Some x) = false -> a <> Some x.
Proof. intros H ->. cbn in H. rewrite N.eqb_refl in H. discriminate. Qed.

Lemma shape_store_insert_after ref it vt kt f : shape_store f = true ->
  (forall v, In (ref, v) (nodes f) -> is_normal v = true) -> child_ok vt = true -> kids_ok vt kt = true ->
  shape_store (finsert_after ref (FCons it vt kt FNil) f) = true.
Proof. intros. apply shape_finsert_after; auto. Qed.

Lemma shape_store_insert_before ref it vt kt f : shape_store f = true ->
  (forall v, In (ref, v) (nodes f) -> is_normal v = true) -> child_ok vt = true -> kids_ok vt kt = true ->
  shape_store (finsert_before ref (FCons it vt kt FNil) f) = true.
Proof. intros. apply shape_finsert_before; auto. Qed.

Lemma Ext_m_insert_after st r n : Good st -> Ext st (fst (m_insert_after st r n)).
Proof.
  intros G. unfold m_insert_after.
  destruct (sibling_check st r n) eqn:Hsc; cbn [negb]; [|apply Ext_refl; exact G].
  destruct (opt_eqb (q_prev st n) (Some r)); [apply Ext_refl; exact G|].
  destruct (remove_consolidate st (q_prev st n) (q_next st n)) as [st1 m0] eqn:E1.
  pose proof (Ext_remove_consolidate st (q_prev st n) (q_next st n) G) as X1. rewrite E1 in X1. cbn [fst] in X1.
  destruct (m0 && opt_eqb (q_next st n) (Some r)) eqn:Eearly; [exact X1|].
  destruct (add_consolidate st1 n (Some r) (q_next st1 r)) as [st2 m] eqn:E2.
  pose proof (Ext_add_consolidate st1 n (Some r) (q_next st1 r) (ext_good _ _ X1)) as X2. rewrite E2 in X2. cbn [fst] in X2.
  destruct m; cbn [fst]; [eapply Ext_trans; eauto|].
  apply add_consolidate_cases in E2 as [[_ ->]|[Hm _]]; [|discriminate].
  eapply Ext_trans; [exact X1|].
  destruct (rc_keeps _ _ _ _ _ G E1) as [Hl Hk].
  destruct (sibling_check_facts _ _ _ Hsc) as (_ & (vr0 & Hvr0 & _) & _).
  apply (Ext_move_sibling st st1 r n (fun t f => finsert_after r t f)); auto.
  - apply X1.
  - apply Hk; [eapply val_in_ids; exact Hvr0|].
    destruct m0; [right; left|left; reflexivity]. cbn in Eearly. apply opt_eqb_false_ne. exact Eearly.
  - intros. apply finsert_after_spec; auto.
  - intros. apply shape_store_insert_after; auto.
  - intros. apply keys_finsert_after; auto.
Qed.

Lemma opt_eqb_false_ne' a x : opt_eqb a (Some x) = false -> a <> Some x.
Proof. apply opt_eqb_false_ne. Qed.

Lemma Ext_m_insert_before st r n : Good st -> Ext st (fst (m_insert_before st r n)).
Proof.
  intros G. unfold m_insert_before.
  destruct (sibling_check st r n) eqn:Hsc; cbn [negb]; [|apply Ext_refl; exact G].
  destruct (opt_eqb (q_next st n) (Some r)) eqn:Enoop; [apply Ext_refl; exact G|].
  destruct (remove_consolidate st (q_prev st n) (q_next st n)) as [st1 m0] eqn:E1.
  pose proof (Ext_remove_consolidate st (q_prev st n) (q_next st n) G) as X1. rewrite E1 in X1. cbn [fst] in X1.
  cbv zeta. set (prev := if opt_eqb (q_prev st1 r) (Some n) then q_prev st1 n else q_prev st1 r).
  destruct (add_consolidate st1 n prev (Some r)) as [st2 m] eqn:E2.
  pose proof (Ext_add_consolidate st1 n prev (Some r) (ext_good _ _ X1)) as X2. rewrite E2 in X2. cbn [fst] in X2.
  destruct m; cbn [fst]; [eapply Ext_trans; eauto|].
  apply add_consolidate_cases in E2 as [[_ ->]|[Hm _]]; [|discriminate].
  eapply Ext_trans; [exact X1|].
  destruct (rc_keeps _ _ _ _ _ G E1) as [Hl Hk].
  destruct (sibling_check_facts _ _ _ Hsc) as (_ & (vr0 & Hvr0 & _) & _).
  apply (Ext_move_sibling st st1 r n (fun t f => finsert_before r t f)); auto.
  - apply X1.
  - apply Hk; [eapply val_in_ids; exact Hvr0|]. right. left. apply opt_eqb_false_ne. exact Enoop.
  - intros. apply finsert_before_spec; auto.
  - intros. apply shape_store_insert_before; auto.
  - intros. apply keys_finsert_before; auto.
Qed.

(* ---------- detach / remove / replace / wrap ---------- *)

Lemma Ext_m_detach st n : Good st -> Ext st (fst (m_detach st n)).
Proof.
  intros G. unfold m_detach. cbn [fst]. eapply Ext_step; [apply Ext_detach_raw; exact G|]. intros G1.
  apply Ext_remove_consolidate. exact G1.
Qed.

Lemma Ext_m_remove st n : Good st -> Ext st (fst (m_remove st n)).
Proof.
  intros G. unfold m_remove. cbn [fst]. eapply Ext_step; [apply Ext_remove_subtree_raw; exact G|]. intros G1.
  apply Ext_remove_consolidate. exact G1.
Qed.

Lemma Ext_m_replace st a b : Good st -> Ext st (fst (m_replace st a b)).
Proof.
  intros G. unfold m_replace.
  destruct (is_type st a TDocument); [apply Ext_refl; exact G|].
  destruct (q_parent st a) as [parent|]; [|apply Ext_refl; exact G].
  destruct (negb (is_normal_node st a)); [apply Ext_refl; exact G|].
  destruct (N.eqb a b); [apply Ext_refl; exact G|].
  destruct (negb (structure_check st (Some parent) b)); [apply Ext_refl; exact G|].
  pose proof (Ext_detach_raw st a G) as X1. set (st1 := detach_raw st a) in *.
  set (inner := if opt_eqb (q_prev st a) (Some b) || opt_eqb (q_next st a) (Some b) then (st1, MDone None)
                else match q_prev st a with Some p => m_insert_after st1 p b | None => m_prepend st1 parent b end).
  assert (Ext st1 (fst inner)) as X2.
  { unfold inner. destruct (opt_eqb (q_prev st a) (Some b) || opt_eqb (q_next st a) (Some b)); [apply Ext_refl; apply X1|].
    destruct (q_prev st a); [apply Ext_m_insert_after|apply Ext_m_prepend]; apply X1. }
  destruct inner as [st2 o]. cbn [fst] in X2.
  destruct o; cbn [fst]; try (eapply Ext_trans; eauto; fail).
  assert (Ext st (remove_subtree_raw st2 a)) as X3.
  { eapply Ext_trans; [exact X1|]. eapply Ext_step; [exact X2|]. apply Ext_remove_subtree_raw. }
  destruct (q_prev st a), (q_next st a); cbn [fst]; try exact X3.
  destruct (is_live_slot _ _ && is_live_slot _ _ && opt_eqb _ _); cbn [fst]; [|exact X3].
  eapply Ext_step; [exact X3|]. apply Ext_remove_consolidate.
Qed.

Lemma Ext_m_wrap st n name : Good st -> Ext st (fst (m_wrap st n name)).
Proof.
  intros G. unfold m_wrap.
  destruct (is_type st n TDocument); [apply Ext_refl; exact G|].
  destruct (negb (is_normal_node st n)); [apply Ext_refl; exact G|].
  destruct (q_parent st n) as [parent|].
  - destruct (is_type st parent TDocument && negb (is_type st n TElement)); [apply Ext_refl; exact G|].
    destruct (new_node st (VElement name)) as [st1 w] eqn:En.
    destruct (Ext_new_node _ _ _ _ G En) as (X1 & _).
    pose proof (Ext_detach_raw st1 n (ext_good _ _ X1)) as X2.
    pose proof (Ext_m_append (detach_raw st1 n) w n (ext_good _ _ X2)) as X3.
    destruct (m_append (detach_raw st1 n) w n) as [st3 o3]. cbn [fst] in X3.
    assert (Ext st st3) as X13 by (eapply Ext_trans; [exact X1|eapply Ext_trans; eauto]).
    destruct o3; cbn [fst]; try exact X13.
    assert (Ext st3 (fst (match q_prev st n with Some p => m_insert_after st3 p w | None => m_prepend st3 parent w end))) as X4.
    { destruct (q_prev st n); [apply Ext_m_insert_after|apply Ext_m_prepend]; apply X13. }
    destruct (match q_prev st n with Some p => m_insert_after st3 p w | None => m_prepend st3 parent w end) as [st4 o4].
    cbn [fst] in X4. destruct o4; cbn [fst]; eapply Ext_trans; eauto.
  - destruct (new_node st (VElement name)) as [st1 w] eqn:En.
    destruct (Ext_new_node _ _ _ _ G En) as (X1 & _).
    pose proof (Ext_m_append st1 w n (ext_good _ _ X1)) as X2.
    destruct (m_append st1 w n) as [st2 o]. cbn [fst] in X2. destruct o; cbn [fst]; eapply Ext_trans; eauto.
Qed.

(* ---------- attribute / namespace views ---------- *)

Definition cat_of (k : mapkind) : vcat := match k with KAttr => CAttribute | KNs => CNamespace end.

Lemma take_while_in {A} (p : A -> bool) l x : In x (take_while p l) -> p x = true /\ In x l.
Proof.
  induction l as [|a l IH]; cbn; [intros []|]. destruct (p a) eqn:E; [|intros []].
  intros [->|H]; [auto|]. apply IH in H. tauto.
Qed.

Lemma skip_while_in {A} (p : A -> bool) l x : In x (skip_while p l) -> In x l.
Proof. induction l as [|a l IH]; cbn; [auto|]. destruct (p a); [intros H; right; apply IH; exact H|auto]. Qed.

Fixpoint level_pairs (f : forest) : list node :=
  match f with FNil => [] | FCons i v _ r => (i, v) :: level_pairs r end.

Lemma zs_level_pairs f : forall ups b, map zpair (zs_level ups b f) = level_pairs f.
Proof. induction f as [|i v k _ r IH]; intros ups b; cbn; [reflexivity|]. rewrite IH. reflexivity. Qed.

Lemma level_pairs_incl f : incl (level_pairs f) (nodes f).
Proof.
  induction f as [|i v k _ r IH]; cbn; [intros x []|]. intros x [Hx|Hx]; [left; exact Hx|right; apply in_or_app; right; apply IH; exact Hx].
Qed.

Lemma find_nodes_incl n f : forall v k, find n f = Some (v, k) -> incl (nodes k) (nodes f).
Proof.
  induction f as [|i v0 k0 IHk r0 IHr]; intros v k; cbn [find]; [discriminate|].
  destruct (N.eqb i n).
  - intros H. inversion H; subst. intros x Hx. cbn. right. apply in_or_app. left. exact Hx.
  - destruct (find n k0) as [y|] eqn:Ek.
    + intros H. inversion H; subst. intros x Hx. cbn. right. apply in_or_app. left. eapply IHk; eauto.
    + intros H x Hx. cbn. right. apply in_or_app. right. eapply IHr; eauto.
Qed.

(* every child cursor of a located node is a node of the store *)
Lemma arena_child_node st e z c : cur st e = Some z -> In c (arena_children z) -> In (zpair c) (nodes (store st)).
Proof.
  intros Hc Hin. unfold cur in Hc. apply locate_find in Hc. eapply find_nodes_incl; [exact Hc|].
  apply level_pairs_incl. unfold arena_children in Hin. rewrite <- (zs_level_pairs (z_kids z) (frame_of z :: z_ups z) FNil).
  apply in_map. exact Hin.
Qed.

Lemma key_of_is v : key_of v = key_of_node v.
Proof. destruct v; reflexivity. Qed.

Lemma map_get_node_facts st k e key n :
  Good st -> map_get_node st k e key = Some n -> exists v, val st n = Some v /\ value_category v = cat_of k /\ key_of_node v = key.
Proof.
  intros G. unfold map_get_node. destruct (cur st e) as [z|] eqn:Hc; [|discriminate].
  destruct (List.find _ (map_nodes k z)) as [c|] eqn:Ef; [|discriminate]. cbn. intros H. inversion H; subst.
  apply find_some in Ef as [Hin Hkey]. apply N.eqb_eq in Hkey. rewrite key_of_is in Hkey. exists (z_val c).
  assert (In c (arena_children z) /\ value_category (z_val c) = cat_of k) as [Ha Hcat].
  { destruct k; cbn [map_nodes cat_of] in *.
    - unfold attribute_nodes in Hin. apply take_while_in in Hin as [Hp Hin]. apply skip_while_in in Hin.
      split; [exact Hin|]. unfold is_cat, zcat in Hp. destruct (value_category (z_val c)); try discriminate; reflexivity.
    - unfold namespace_nodes in Hin. apply take_while_in in Hin as [Hp Hin].
      split; [exact Hin|]. unfold is_cat, zcat in Hp. destruct (value_category (z_val c)); try discriminate; reflexivity. }
  split; [|split; [exact Hcat|exact Hkey]]. apply nodes_val; [apply Good_nodup; exact G|]. eapply (arena_child_node st e z c); eauto.
Qed.

Lemma zs_level_vals f : forall ups b, map z_val (zs_level ups b f) = level_vals f.
Proof. induction f as [|i v k _ r IH]; intros ups b; cbn; [reflexivity|]. rewrite IH. reflexivity. Qed.

(* a key the view does not hold is not among the element's attribute (namespace) nodes at all *)
Lemma map_get_node_none_fresh st k e key z :
  Good st -> cur st e = Some z -> is_elem (z_val z) = true -> map_get_node st k e key = None ->
  ~ In key (level_keys (cat_of k) (z_kids z)).
Proof.
  intros G Hc He. unfold map_get_node. rewrite Hc.
  destruct (List.find _ (map_nodes k z)) as [c|] eqn:Ef; [discriminate|]. intros _ Hin.
  pose proof (locate_find _ _ _ Hc) as Hf. pose proof (shape_find _ _ _ _ _ _ (Good_shape _ G) Hf) as Hk.
  destruct (z_val z); try discriminate. cbn [kids_ok] in Hk. destruct (views_complete _ Hk) as [Vn Va].
  assert (map z_val (map_nodes k z) = filter (v_is (cat_of k)) (level_vals (z_kids z))) as Hm.
  { destruct k; cbn [map_nodes cat_of]; unfold attribute_nodes, namespace_nodes, arena_children.
    - rewrite (map_take_while z_val (is_cat CAttribute) (v_is CAttribute)) by (intros x; reflexivity).
      rewrite (map_skip_while z_val (is_cat CNamespace) (v_is CNamespace)) by (intros x; reflexivity).
      rewrite zs_level_vals. exact Va.
    - rewrite (map_take_while z_val (is_cat CNamespace) (v_is CNamespace)) by (intros x; reflexivity).
      rewrite zs_level_vals. exact Vn. }
  rewrite level_keys_filter, <- Hm, map_map in Hin. apply in_map_iff in Hin as (c & Hkey & Hcin).
  pose proof (List.find_none _ _ Ef c Hcin) as Hno. cbn in Hno. rewrite key_of_is, Hkey, N.eqb_refl in Hno. discriminate.
Qed.

Lemma same_class_cat v w : value_category v = value_category w -> value_category v <> CNormal -> same_class v w.
Proof. destruct v, w; cbn; intros H Hn; try discriminate; try congruence; repeat split. Qed.

Lemma kids_ok_map_insert k it vt ve kk : value_category vt = cat_of k -> is_elem ve = true -> kids_ok ve kk = true ->
  kids_ok ve (map_insert_at k (FCons it vt FNil FNil) kk) = true.
Proof.
  intros Hc He Hk. destruct ve; try discriminate. cbn [kids_ok] in *. destruct k; cbn [map_insert_at cat_of] in *.
  - apply shape_insert_after_attributes; auto.
  - apply shape_insert_after_namespaces; auto.
Qed.

Lemma nodes_map_insert_at k t kk : Permutation (nodes (map_insert_at k t kk)) (nodes kk ++ nodes t).
Proof. destruct k; [apply nodes_insert_after_attributes|apply nodes_insert_after_namespaces]. Qed.

Lemma map_insert_at_is k t kk :
  map_insert_at k t kk = (if match k with KAttr => true | KNs => false end then insert_after_attributes else insert_after_namespaces) t kk.
Proof. destruct k; reflexivity. Qed.

(* attaching an abnormal leaf [node] (wherever it is) at the view's insertion point of element [e], whose view does not
   hold the node's key *)
Lemma Ext_map_attach st k e node vn :
  Good st -> is_type st e TElement = true -> val st node = Some vn -> value_category vn = cat_of k ->
  (forall ve kk, find e (store st) = Some (ve, kk) -> ~ In (key_of_node vn) (level_keys (cat_of k) kk)) ->
  Ext st (map_attach st k e node).
Proof.
  intros G He Hvn Hcat Hfresh. unfold map_attach.
  apply is_type_val in He as (ve & Hve & Hte).
  assert (is_elem ve = true) as Hel by (destruct ve; try discriminate; reflexivity).
  pose proof (Good_nodup _ G) as Hnd.
  apply Ext_move; [exact G|]. intros f' v kk Hcut Hnd' Hsh Hk Kf Kt.
  assert (In (node, v) (nodes (store st))) as Hnv by (eapply find_in_nodes; eapply fcut_find; exact Hcut).
  assert (v = vn) as -> by (eapply nodes_functional; [exact Hnd|exact Hnv|apply val_nodes; exact Hvn]).
  assert (kk = FNil) as ->.
  { destruct vn; destruct k; try discriminate; destruct kk; try reflexivity; discriminate. }
  assert (In e (ids f')) as Hef.
  { eapply fcut_keeps; [exact Hcut|eapply val_in_ids; exact Hve|]. unfold subtree_ids.
    rewrite (fcut_find _ _ _ _ _ _ Hcut). cbn. intros [Heq|[]]. subst.
    rewrite Hvn in Hve. inversion Hve; subst. destruct ve; destruct k; discriminate. }
  split; [|split].
  - rewrite (fmap_kids_spec e _ (FCons node vn FNil FNil) f' Hnd' Hef) by (intros; apply nodes_map_insert_at). cbn. apply Permutation_sym. apply Permutation_cons_append.
  - apply shape_fmap_kids; [exact Hsh|]. intros w kw Hw Hkw. apply kids_ok_map_insert; auto.
    assert (w = ve) as ->; [|exact Hel].
    eapply nodes_functional; [exact Hnd|eapply fcut_nodes_incl; [exact Hcut|exact Hw]|apply val_nodes; exact Hve].
  - apply keys_fmap_kids_find; [exact Hnd'|exact Kf|]. intros w kx Hfx.
    destruct (find_fcut_sub _ _ _ _ _ _ _ Hnd Hcut Hfx) as (kk0 & Hf0 & Hsub).
    rewrite map_insert_at_is. apply keys_tree_map_insert.
    + rewrite Hcat. destruct k; reflexivity.
    + rewrite Hcat. intros Hin. apply (Hfresh w kk0 Hf0). eapply sub_in; [apply Hsub|exact Hin].
    + eapply keys_find; [exact Kf|exact Hfx].
Qed.

Lemma cat_of_not_normal k : cat_of k <> CNormal.
Proof. destruct k; discriminate. Qed.

Lemma set_same_key v newv k : value_category v = cat_of k -> value_category newv = cat_of k -> key_of_node v = key_of_node newv ->
  same_class v newv /\ same_key v newv.
Proof.
  intros H1 H2 H3. split; [apply same_class_cat; [congruence|rewrite H1; apply cat_of_not_normal]|]. split; [congruence|auto].
Qed.

Lemma fresh_from_get_node st k e key : Good st -> is_type st e TElement = true -> map_get_node st k e key = None ->
  forall ve kk, find e (store st) = Some (ve, kk) -> ~ In key (level_keys (cat_of k) kk).
Proof.
  intros G He Hg ve kk Hf. apply is_type_val in He as (ve0 & Hve & Hte).
  unfold val in Hve. destruct (cur st e) as [z|] eqn:Hc; [|discriminate]. inversion Hve; subst.
  pose proof (locate_find _ _ _ Hc) as Hf'. rewrite Hf in Hf'. inversion Hf'; subst.
  eapply map_get_node_none_fresh; eauto. destruct (z_val z); try discriminate; reflexivity.
Qed.

Lemma Ext_map_insert st k e newv :
  Good st -> is_type st e TElement = true -> value_category newv = cat_of k -> Ext st (map_insert st k e newv).
Proof.
  intros G He Hcat. unfold map_insert.
  destruct (map_get_node st k e (key_of newv)) as [n|] eqn:Eg.
  - destruct (map_get_node_facts _ _ _ _ _ G Eg) as (v & Hv & Hc & Hkv).
    apply (Ext_set_value st n (fun _ => newv) G). intros w Hw. rewrite Hv in Hw. inversion Hw; subst.
    eapply set_same_key; eauto; rewrite Hkv; apply key_of_is.
  - destruct (new_node st newv) as [st1 n] eqn:En.
    destruct (Ext_new_node _ _ _ _ G En) as (X1 & Hni & Hst & _).
    eapply Ext_trans; [exact X1|].
    pose proof (fresh_from_get_node _ _ _ _ G He Eg) as Hfresh.
    apply is_type_val in He as (ve & Hve & Hte).
    assert (e <> n) as Hen by (intros ->; apply Hni; eapply val_in_ids; exact Hve).
    apply (Ext_map_attach st1 k e n newv); [apply X1| | |exact Hcat|].
    + (* e is still an element in st1: the new node is a different slot *)
      unfold is_type.
      assert (val st1 e = Some ve) as ->.
      { apply nodes_val; [apply Good_nodup; apply X1|]. rewrite Hst. cbn. right. apply val_nodes. exact Hve. }
      rewrite Hte. destruct ve; try discriminate; reflexivity.
    + apply nodes_val; [apply Good_nodup; apply X1|]. rewrite Hst. cbn. left. reflexivity.
    + intros ve' kk Hf. rewrite Hst in Hf. cbn [find] in Hf. apply N.eqb_neq in Hen. rewrite N.eqb_sym, Hen in Hf. cbn [find] in Hf.
      rewrite <- key_of_is. eapply Hfresh. exact Hf.
Qed.

Lemma Ext_map_insert_node st k e node :
  Good st -> is_type st e TElement = true -> (forall v, val st node = Some v -> value_category v = cat_of k) ->
  Ext st (fst (map_insert_node st k e node)).
Proof.
  intros G He Hcat. unfold map_insert_node. destruct (val st node) as [nv|] eqn:Hn; [|apply Ext_refl; exact G].
  specialize (Hcat nv eq_refl).
  destruct (map_get_node st k e (key_of nv)) as [ex|] eqn:Eg; cbn [fst].
  - destruct (map_get_node_facts _ _ _ _ _ G Eg) as (v & Hv & Hc & Hkv).
    apply (Ext_set_value st ex (fun _ => nv) G). intros w Hw. rewrite Hv in Hw. inversion Hw; subst.
    eapply set_same_key; eauto; rewrite Hkv; apply key_of_is.
  - eapply Ext_map_attach; eauto. intros ve kk Hf. rewrite <- key_of_is. eapply fresh_from_get_node; eauto.
Qed.

Lemma Ext_fold_remove l : forall st, Good st -> Ext st (fold_left (fun s n => fst (m_remove s n)) l st).
Proof.
  induction l as [|a l IH]; intros st G; cbn [fold_left]; [apply Ext_refl; exact G|].
  eapply Ext_step; [apply Ext_m_remove; exact G|]. apply IH.
Qed.

Lemma Ext_map_remove st k e key : Good st -> Ext st (map_remove st k e key).
Proof. intros G. unfold map_remove. destruct (map_get_node st k e key); [apply Ext_m_remove|apply Ext_refl]; exact G. Qed.

Lemma Ext_map_clear st k e : Good st -> Ext st (map_clear st k e).
Proof. intros G. unfold map_clear. destruct (cur st e); [apply Ext_fold_remove|apply Ext_refl]; exact G. Qed.

Lemma Ext_m_any_append st p c : Good st -> Ext st (fst (m_any_append st p c)).
Proof.
  intros G. unfold m_any_append. destruct (val st c) as [vc|] eqn:Hc.
  - destruct vc;
      try (pose proof (Ext_m_append st p c G) as X; destruct (m_append st p c) as [s1 o]; destruct o; exact X).
    + destruct (is_type st p TElement) eqn:He; cbn [negb]; [|apply Ext_refl; exact G].
      pose proof (Ext_map_insert_node st KAttr p c G He) as X.
      destruct (map_insert_node st KAttr p c) as [s1 r]. cbn [fst] in *. apply X.
      intros w Hw. rewrite Hc in Hw. inversion Hw. reflexivity.
    + destruct (is_type st p TElement) eqn:He; cbn [negb]; [|apply Ext_refl; exact G].
      pose proof (Ext_map_insert_node st KNs p c G He) as X.
      destruct (map_insert_node st KNs p c) as [s1 r]. cbn [fst] in *. apply X.
      intros w Hw. rewrite Hc in Hw. inversion Hw. reflexivity.
  - pose proof (Ext_m_append st p c G) as X; destruct (m_append st p c) as [s1 o]; destruct o; exact X.
Qed.

(* ---------- element_unwrap ---------- *)

(* the slots of the namespace / attribute nodes at the front of a child list *)
Fixpoint abn_prefix (k : forest) : list N :=
  match k with
  | FNil => []
  | FCons a va _ r => if negb (is_normal va) then a :: abn_prefix r else []
  end.

Lemma abnormal_slots_prefix f : forall ups b,
  slots_of (take_while (fun c => negb (znormal c)) (zs_level ups b f)) = abn_prefix f.
Proof.
  induction f as [|i v k _ r IH]; intros ups b; cbn; [reflexivity|]. unfold znormal at 1. cbn.
  destruct (negb (is_normal v)); cbn; [rewrite IH|]; reflexivity.
Qed.

Lemma abnormal_child_slots_spec st n z : cur st n = Some z -> abnormal_child_slots st n = abn_prefix (z_kids z).
Proof. intros H. unfold abnormal_child_slots. rewrite H. unfold abnormal_children, arena_children. apply abnormal_slots_prefix. Qed.

(* splicing out the first child of [n], a leaf, leaves [n] with the rest of its children *)
Lemma fsplice_first_child_find n a va r f : forall v,
  NoDup (ids f) -> find n f = Some (v, FCons a va FNil r) -> find n (fsplice a f) = Some (v, r).
Proof.
  induction f as [|i v0 k0 IHk r0 IHr]; intros v Hnd; cbn [find]; [discriminate|].
  cbn in Hnd. apply NoDup_cons_app_inv in Hnd as (Hik & Hir & Hk & Hr & Hkr).
  destruct (N.eqb_spec i n) as [->|Hne].
  - intros H. inversion H; subst. cbn [fsplice].
    assert (n <> a) as Hna by (intros ->; apply Hik; cbn; left; reflexivity).
    apply N.eqb_neq in Hna. rewrite Hna. cbn [fsplice find]. rewrite N.eqb_refl, N.eqb_refl. cbn [fapp]. reflexivity.
  - destruct (find n k0) as [x|] eqn:Ek.
    + intros H. inversion H; subst.
      assert (In a (ids k0)) as Hak by (eapply find_incl; [exact Ek|right; cbn; left; reflexivity]).
      assert (i <> a) as Hia by (intros ->; contradiction).
      cbn [fsplice]. apply N.eqb_neq in Hia. rewrite Hia. cbn [find]. apply N.eqb_neq in Hne. rewrite Hne.
      rewrite (IHk _ Hk eq_refl). reflexivity.
    + intros H.
      assert (In a (ids r0)) as Har by (eapply find_incl; [exact H|right; cbn; left; reflexivity]).
      assert (i <> a) as Hia by (intros ->; contradiction).
      cbn [fsplice]. apply N.eqb_neq in Hia. rewrite Hia. cbn [find]. apply N.eqb_neq in Hne. rewrite Hne.
      rewrite (fsplice_absent a k0); [|intros Hx; eapply NoDup_app_not_in; eauto]. rewrite Ek. apply IHr; assumption.
Qed.

Lemma shape_first_normal_all lo i v k r : is_normal v = true -> shape CElem lo (FCons i v k r) = true ->
  shape CElem 2 (FCons i v k r) = true.
Proof.
  intros Hv. rewrite !shape_cons. intros H. apply andb_true_iff in H as [H H3]. apply andb_true_iff in H as [H1 H2].
  rewrite H2, H3, !andb_true_r. cbn [node_ok] in *. apply andb_true_iff in H1 as [Hd _]. rewrite Hd.
  apply vrank_normal in Hv. rewrite Hv. reflexivity.
Qed.

(* removing the namespace and attribute nodes of an element one by one leaves it with ordinary children only *)
Lemma unwrap_strip n : forall k st v,
  Good st -> find n (store st) = Some (v, k) -> is_elem v = true ->
  Ext st (fold_left remove_single_raw (abn_prefix k) st)
  /\ exists k1, find n (store (fold_left remove_single_raw (abn_prefix k) st)) = Some (v, k1) /\ shape CElem 2 k1 = true.
Proof.
  induction k as [|a va ka _ r IH]; intros st v G Hf He; cbn [abn_prefix fold_left].
  - split; [apply Ext_refl; exact G|]. exists FNil. auto.
  - pose proof (shape_find _ _ _ _ _ _ (Good_shape _ G) Hf) as Hk. destruct v; try discriminate. cbn [kids_ok] in Hk.
    destruct (is_normal va) eqn:Hva; cbn [negb fold_left].
    + split; [apply Ext_refl; exact G|]. eexists. split; [exact Hf|]. eapply shape_first_normal_all; eauto.
    + assert (ka = FNil) as ->.
      { rewrite shape_cons in Hk. apply andb_true_iff in Hk as [Hk _]. apply andb_true_iff in Hk as [_ Hk].
        destruct va; try discriminate; destruct ka; try reflexivity; discriminate. }
      pose proof (Good_nodup _ G) as Hnd.
      assert (In a (ids (store st))) as Hain by (eapply find_incl; [exact Hf|right; cbn; left; reflexivity]).
      assert (In (a, va) (nodes (store st))) as Hav.
      { eapply find_nodes_incl; [exact Hf|]. cbn. left. reflexivity. }
      assert (Ext st (remove_single_raw st a)) as X1.
      { apply Ext_remove_single_inner; [exact G|exact Hain|]. intros w kw Hw.
        pose proof (shape_find _ _ _ _ _ _ (Good_shape _ G) Hw) as Hkw.
        assert (w = va) as -> by (eapply nodes_functional; [exact Hnd|eapply find_in_nodes; exact Hw|exact Hav]).
        destruct va; try discriminate; destruct kw; try reflexivity; discriminate. }
      assert (find n (store (remove_single_raw st a)) = Some (VElement n0, r)) as Hf1.
      { cbn [store remove_single_raw free_slots with_store]. eapply fsplice_first_child_find; eauto. }
      destruct (IH _ _ (ext_good _ _ X1) Hf1 eq_refl) as (X2 & k1 & Hk1 & Hs1).
      split; [eapply Ext_trans; eauto|]. exists k1. auto.
Qed.

Lemma Ext_m_unwrap st n : Good st -> Ext st (fst (m_unwrap st n)).
Proof.
  intros G. unfold m_unwrap.
  destruct (is_type st n TElement) eqn:He; cbn [negb]; [|apply Ext_refl; exact G].
  destruct (q_first_child st n) as [first|] eqn:Efc; [|apply Ext_m_remove; exact G].
  destruct (q_last_child st n) as [last|]; [|apply Ext_refl; exact G].
  destruct ((match q_parent st n with None => true | Some _ => false end) && negb (N.eqb first last)); [apply Ext_refl; exact G|].
  assert (exists z, cur st n = Some z) as [z Hz].
  { unfold q_first_child in Efc. destruct (cur st n) as [z|]; [eauto|discriminate]. }
  rewrite (abnormal_child_slots_spec _ _ _ Hz).
  pose proof (locate_find _ _ _ Hz) as Hf.
  assert (is_elem (z_val z) = true) as Hel.
  { unfold is_type, val in He. rewrite Hz in He. destruct (z_val z); try discriminate; reflexivity. }
  destruct (unwrap_strip n (z_kids z) st (z_val z) G Hf Hel) as (X1 & k1 & Hk1 & Hs1).
  set (st1 := fold_left remove_single_raw (abn_prefix (z_kids z)) st) in *.
  assert (Ext st1 (remove_single_raw st1 n)) as X2.
  { apply Ext_remove_single_inner; [apply X1|eapply find_incl; [exact Hk1|left; reflexivity]|].
    intros w kw Hw. rewrite Hk1 in Hw. inversion Hw; subst. exact Hs1. }
  set (st2 := remove_single_raw st1 n) in *.
  assert (Ext st st2) as X12 by (eapply Ext_trans; eauto).
  destruct (remove_consolidate st2 (q_prev st2 first) (Some first)) as [st3 m] eqn:E3.
  pose proof (Ext_remove_consolidate st2 (q_prev st2 first) (Some first) (ext_good _ _ X12)) as X3. rewrite E3 in X3. cbn [fst] in X3.
  assert (Ext st st3) as X13 by (eapply Ext_trans; eauto).
  destruct m; [destruct (N.eqb first last)|]; cbn [fst]; (eapply Ext_step; [exact X13|]); apply Ext_remove_consolidate.
Qed.

(* ---------- clone_node: the temporary root stays a root while the copy is built below it ---------- *)

Lemma root_slots_fapp a b : root_slots (fapp a b) = root_slots a ++ root_slots b.
Proof. unfold root_slots. induction a as [|i v k _ r IH]; cbn; [reflexivity|]. f_equal. exact IH. Qed.

Lemma root_slots_fset_val n g f : root_slots (fset_val n g f) = root_slots f.
Proof.
  unfold root_slots. induction f as [|i v k _ r IH]; cbn [fset_val]; [reflexivity|].
  destruct (N.eqb i n); cbn; [reflexivity|]. f_equal. exact IH.
Qed.

Lemma root_slots_fsplice x a f : In x (root_slots f) -> x <> a -> In x (root_slots (fsplice a f)).
Proof.
  induction f as [|i v k _ r IH]; cbn [fsplice]; [auto|]. intros Hin Hne.
  destruct (N.eqb_spec i a) as [->|Hia].
  - rewrite root_slots_fapp. apply in_or_app. right. cbn in Hin. destruct Hin as [Hin|Hin]; [congruence|exact Hin].
  - cbn in *. destruct Hin as [Hin|Hin]; [left; exact Hin|right; apply IH; assumption].
Qed.

Lemma root_slots_fcut x c f : forall f' t, fcut c f = Some (f', t) -> In x (root_slots f) -> x <> c -> In x (root_slots f').
Proof.
  induction f as [|i v k _ r IH]; intros f' t; cbn [fcut]; [discriminate|].
  destruct (N.eqb_spec i c) as [->|Hic].
  - intros H Hin Hne. inversion H; subst. cbn in Hin. destruct Hin as [Hin|Hin]; [congruence|exact Hin].
  - destruct (fcut c k) as [[k' t1]|].
    + intros H Hin _. inversion H; subst. exact Hin.
    + destruct (fcut c r) as [[r' t1]|] eqn:Er; [|discriminate].
      intros H Hin Hne. inversion H; subst. cbn in *. destruct Hin as [Hin|Hin]; [left; exact Hin|right; eapply IH; eauto].
Qed.

Lemma root_slots_fmap_kids p g f : root_slots (fmap_kids p g f) = root_slots f.
Proof.
  unfold root_slots. induction f as [|i v k _ r IH]; cbn [fmap_kids]; [reflexivity|].
  destruct (N.eqb i p); cbn; [reflexivity|]. f_equal. exact IH.
Qed.

Lemma nodes_fset_val_fixed x v n g f : In (x, v) (nodes f) -> g v = v -> In (x, v) (nodes (fset_val n g f)).
Proof.
  intros Hin Hg. induction f as [|i w k IHk r IHr]; cbn [fset_val]; [exact Hin|].
  cbn in Hin. destruct (N.eqb i n).
  - cbn. destruct Hin as [Hin|Hin]; [inversion Hin; subst; left; rewrite Hg; reflexivity|right; exact Hin].
  - cbn. destruct Hin as [Hin|Hin]; [left; exact Hin|right].
    apply in_app_or in Hin as [Hin|Hin]; apply in_or_app; [left; apply IHk|right; apply IHr]; exact Hin.
Qed.

Lemma nodes_fset_val_other x v n g f : In (x, v) (nodes f) -> x <> n -> In (x, v) (nodes (fset_val n g f)).
Proof.
  intros Hin Hne. induction f as [|i w k IHk r IHr]; cbn [fset_val]; [exact Hin|].
  cbn in Hin. destruct (N.eqb_spec i n) as [->|Hin'].
  - cbn. destruct Hin as [Hin|Hin]; [inversion Hin; subst; congruence|right; exact Hin].
  - cbn. destruct Hin as [Hin|Hin]; [left; exact Hin|right].
    apply in_app_or in Hin as [Hin|Hin]; apply in_or_app; [left; apply IHk|right; apply IHr]; exact Hin.
Qed.

Lemma nodes_fsplice_other x v a f : In (x, v) (nodes f) -> x <> a -> In (x, v) (nodes (fsplice a f)).
Proof.
  intros Hin Hne. induction f as [|i w k IHk r IHr]; cbn [fsplice]; [exact Hin|].
  cbn in Hin. destruct (N.eqb_spec i a) as [->|Hia].
  - rewrite nodes_fapp. destruct Hin as [Hin|Hin]; [inversion Hin; subst; congruence|exact Hin].
  - cbn. destruct Hin as [Hin|Hin]; [left; exact Hin|right].
    apply in_app_or in Hin as [Hin|Hin]; apply in_or_app; [left; apply IHk|right; apply IHr]; exact Hin.
Qed.

(* [top] is a parentless element (or document) with value [V] *)
Definition is_top (st : xstate) (top : N) (V : value) : Prop :=
  In top (root_slots (store st)) /\ In (top, V) (nodes (store st)) /\ is_text_val V = false.

Lemma is_top_merged st st1 gone top V : Good st -> merged_into st st1 gone -> is_top st top V -> is_top st1 top V.
Proof.
  intros G (t & g & s & Hv & _ & Hid & ->) (Hr & Hn & Ht). unfold is_top. cbn [store remove_single_raw free_slots with_store].
  assert (top <> gone) as Hne.
  { intros ->. apply val_nodes in Hv. rewrite (nodes_functional _ _ _ _ (Good_nodup _ G) Hn Hv) in Ht. discriminate. }
  split; [|split; [|exact Ht]].
  - apply root_slots_fsplice; [rewrite root_slots_fset_val; exact Hr|exact Hne].
  - apply nodes_fsplice_other; [|exact Hne]. apply nodes_fset_val_fixed; [exact Hn|apply Hid; exact Ht].
Qed.

Lemma is_top_move st c ins top V :
  Good st -> is_top st top V -> top <> c ->
  (forall t f', incl (nodes f') (nodes (ins t f')) /\ incl (root_slots f') (root_slots (ins t f'))) ->
  is_top (move st c ins) top V.
Proof.
  intros G (Hr & Hn & Ht) Hne Hins. unfold move. destruct (fcut c (store st)) as [[f' t]|] eqn:E; [|split; auto].
  cbn [store with_store]. destruct (Hins (single t) f') as [H1 H2].
  pose proof (root_slots_fcut _ _ _ _ _ E Hr Hne) as Hr'.
  split; [apply H2; exact Hr'|split; [|exact Ht]]. apply H1.
  assert (In top (ids f')) as Hi by (apply root_slots_incl; exact Hr').
  rewrite ids_nodes in Hi. apply in_map_iff in Hi as ([x w] & Hx & Hw). cbn in Hx. subst x.
  assert (w = V) as ->; [|exact Hw].
  eapply nodes_functional; [apply Good_nodup; exact G|eapply fcut_nodes_incl; [exact E|exact Hw]|exact Hn].
Qed.

Lemma nodes_fmap_kids_incl p g f : (forall k, incl (nodes k) (nodes (g k))) -> incl (nodes f) (nodes (fmap_kids p g f)).
Proof.
  intros Hg. induction f as [|i v k IHk r IHr]; cbn [fmap_kids]; [apply incl_refl|].
  destruct (N.eqb i p); cbn; intros x [Hx|Hx]; try (left; exact Hx); right;
    apply in_app_or in Hx as [Hx|Hx]; apply in_or_app; [left; apply Hg; exact Hx|right; exact Hx|left; apply IHk; exact Hx|right; apply IHr; exact Hx].
Qed.

Lemma incl_of_perm {A} (a b c : list A) : Permutation a (b ++ c) -> incl b a.
Proof. intros H x Hx. eapply Permutation_in; [apply Permutation_sym; exact H|]. apply in_or_app. left. exact Hx. Qed.

Lemma is_top_child_ins p (g : forest -> forest -> forest) :
  (forall t k, Permutation (nodes (g t k)) (nodes k ++ nodes t)) ->
  forall t f', incl (nodes f') (nodes (fmap_kids p (g t) f')) /\ incl (root_slots f') (root_slots (fmap_kids p (g t) f')).
Proof.
  intros Hg t f'. split; [|rewrite root_slots_fmap_kids; apply incl_refl].
  apply nodes_fmap_kids_incl. intros k. eapply incl_of_perm. apply Hg.
Qed.

Lemma is_top_m_append st p c top V : Good st -> is_top st top V -> top <> c -> is_top (fst (m_append st p c)) top V.
Proof.
  intros G T Hne. unfold m_append.
  destruct (negb (structure_check st (Some p) c)); [exact T|].
  destruct (opt_eqb (q_raw_last_child st p) (Some c)); [exact T|].
  destruct (remove_consolidate st (q_prev st c) (q_next st c)) as [st1 m0] eqn:E1.
  pose proof (Ext_remove_consolidate st (q_prev st c) (q_next st c) G) as X1. rewrite E1 in X1. cbn [fst] in X1.
  assert (is_top st1 top V) as T1.
  { apply remove_consolidate_cases in E1 as [[_ ->]|[_ (n & _ & Hm)]]; [exact T|eapply is_top_merged; eauto]. }
  cbv zeta. set (last := if opt_eqb (q_last_child st1 p) (Some c) then q_prev st1 c else q_last_child st1 p).
  destruct (add_consolidate st1 c last None) as [st2 m] eqn:E2.
  apply add_consolidate_cases in E2 as [[-> ->]|[-> Hm]]; cbn [fst].
  - apply is_top_move; [apply X1|exact T1|exact Hne|]. apply (is_top_child_ins p (fun t k => fapp k t)).
    intros t k. rewrite nodes_fapp. reflexivity.
  - eapply (is_top_merged st1); [apply X1|exact Hm|exact T1].
Qed.

Lemma is_top_map_insert_node st k e node top V :
  Good st -> is_top st top V -> is_normal V = true -> top <> node -> is_top (fst (map_insert_node st k e node)) top V.
Proof.
  intros G T HV Hne. unfold map_insert_node. destruct (val st node) as [nv|]; [|exact T].
  destruct (map_get_node st k e (key_of nv)) as [ex|] eqn:Eg; cbn [fst].
  - destruct (map_get_node_facts _ _ _ _ _ G Eg) as (v & Hv & Hc & Hkv). destruct T as (Hr & Hn & Ht).
    assert (top <> ex) as Hx.
    { intros ->. apply val_nodes in Hv. rewrite (nodes_functional _ _ _ _ (Good_nodup _ G) Hn Hv) in HV.
      destruct v; destruct k; discriminate. }
    unfold is_top. cbn [store with_store]. split; [rewrite root_slots_fset_val; exact Hr|split; [|exact Ht]]. apply nodes_fset_val_other; assumption.
  - unfold map_attach. apply is_top_move; [exact G|exact T|exact Hne|]. apply (is_top_child_ins e (fun t kk => map_insert_at k t kk)).
    intros t kk. apply nodes_map_insert_at.
Qed.

Lemma is_top_m_any_append st p c top V :
  Good st -> is_top st top V -> is_normal V = true -> top <> c -> is_top (fst (m_any_append st p c)) top V.
Proof.
  intros G T HV Hne. unfold m_any_append. destruct (val st c) as [vc|] eqn:Hc.
  - destruct vc;
      try (pose proof (is_top_m_append st p c top V G T Hne) as X; destruct (m_append st p c) as [s1 o]; destruct o; exact X).
    + destruct (negb (is_type st p TElement)); [exact T|].
      pose proof (is_top_map_insert_node st KAttr p c top V G T HV Hne) as X.
      destruct (map_insert_node st KAttr p c) as [s1 r]. exact X.
    + destruct (negb (is_type st p TElement)); [exact T|].
      pose proof (is_top_map_insert_node st KNs p c top V G T HV Hne) as X.
      destruct (map_insert_node st KNs p c) as [s1 r]. exact X.
  - pose proof (is_top_m_append st p c top V G T Hne) as X; destruct (m_append st p c) as [s1 o]; destruct o; exact X.
Qed.

Lemma is_top_new_node st v st' i top V : new_node st v = (st', i) -> is_top st top V -> is_top st' top V /\ (In top (ids (store st)) -> top <> i \/ True).
Proof.
  intros Hn (Hr & Hnd & Ht). unfold new_node in Hn. destruct (free st); inversion Hn; subst; cbn [store];
    (split; [split; [cbn; right; exact Hr|split; [cbn; right; exact Hnd|exact Ht]]|auto]).
Qed.

Lemma clone_edges_spec es : forall st current st' top V,
  Good st -> is_top st top V -> is_normal V = true -> clone_edges es st current = Some st' ->
  Ext st st' /\ is_top st' top V.
Proof.
  induction es as [|e es IH]; intros st current st' top V G T HV; cbn [clone_edges].
  - intros H. inversion H; subst. split; [apply Ext_refl; exact G|exact T].
  - destruct e as [z|z].
    + assert (forall v, (let '(st1, n) := new_node st v in
                         match m_any_append st1 current n with
                         | (st2, MDone _) => clone_edges es st2 (if vtype_eqb (value_type v) TElement then n else current)
                         | _ => None
                         end) = Some st' -> Ext st st' /\ is_top st' top V) as Hstep.
      { intros v. destruct (new_node st v) as [st1 n] eqn:En.
        destruct (Ext_new_node _ _ _ _ G En) as (X1 & Hni & Hst & _).
        destruct (is_top_new_node _ _ _ _ _ _ En T) as [T1 _].
        assert (top <> n) as Hne by (intros ->; apply Hni; apply root_slots_incl; apply T).
        pose proof (Ext_m_any_append st1 current n (ext_good _ _ X1)) as X2.
        pose proof (is_top_m_any_append st1 current n top V (ext_good _ _ X1) T1 HV Hne) as T2.
        destruct (m_any_append st1 current n) as [st2 o]. cbn [fst] in *. destruct o; try discriminate.
        intros H. destruct (IH _ _ _ _ _ (ext_good _ _ X2) T2 HV H) as [X3 T3].
        split; [eapply Ext_trans; [exact X1|eapply Ext_trans; eauto]|exact T3]. }
      destruct (z_val z); try apply Hstep. apply IH; assumption.
    + destruct (vtype_eqb (value_type (z_val z)) TElement); [|apply IH; assumption].
      destruct (q_parent st current); [apply IH; assumption|discriminate].
Qed.

Lemma Ext_m_clone st n : Good st -> Ext st (fst (m_clone st n)).
Proof.
  intros G. unfold m_clone. destruct (cur st n) as [z|]; [|apply Ext_refl; exact G].
  destruct (z_val z) eqn:Ev;
    try (match goal with |- context [new_node st ?v] => destruct (new_node st v) as [st1 c] eqn:En end;
         destruct (Ext_new_node _ _ _ _ G En) as (X1 & _); exact X1).
  - destruct (new_node st VDocument) as [st1 top] eqn:En.
    destruct (Ext_new_node _ _ _ _ G En) as (X1 & Hni & Hst & _).
    destruct (clone_edges (all_traverse z) st1 top) as [st2|] eqn:Ec; cbn [fst]; [|exact X1].
    assert (is_top st1 top VDocument) as T1 by (unfold is_top; rewrite Hst; cbn; auto).
    destruct (clone_edges_spec _ _ _ _ _ _ (ext_good _ _ X1) T1 eq_refl Ec) as [X2 _]. eapply Ext_trans; eauto.
  - destruct (new_node st (VElement n0)) as [st1 top] eqn:En.
    destruct (Ext_new_node _ _ _ _ G En) as (X1 & Hni & Hst & _).
    destruct (clone_edges (all_traverse z) st1 top) as [st2|] eqn:Ec; cbn [fst]; [|exact X1].
    assert (is_top st1 top (VElement n0)) as T1 by (unfold is_top; rewrite Hst; cbn; auto).
    destruct (clone_edges_spec _ _ _ _ _ _ (ext_good _ _ X1) T1 eq_refl Ec) as [X2 T2].
    assert (Ext st st2) as X12 by (eapply Ext_trans; eauto).
    destruct (q_first_child st2 top); cbn [fst]; [|exact X12].
    eapply Ext_step; [exact X12|]. intros G2. apply Ext_remove_single_root; [exact G2|apply T2].
Qed.

(* ---------- text_content_mut, the remaining calls, and the step theorem ---------- *)

Lemma same_class_text st c s v : is_type st c TText = true -> val st c = Some v -> same_class v (VText s).
Proof.
  intros Ht Hv. unfold is_type in Ht. rewrite Hv in Ht. destruct v; try discriminate. repeat split.
Qed.

Lemma normal_update v w : same_class v w -> is_normal v = true -> same_class v w /\ same_key v w.
Proof. intros H Hn. split; [exact H|apply same_class_same_key_normal; assumption]. Qed.

Lemma Ext_set_text st c s : Good st -> is_type st c TText = true -> Ext st (set_value st c (fun _ => VText s)).
Proof.
  intros G Ht. apply Ext_set_value; [exact G|]. intros v Hv. apply normal_update; [eapply same_class_text; eauto|].
  unfold is_type in Ht. rewrite Hv in Ht. destruct v; try discriminate; reflexivity.
Qed.

Lemma Ext_m_text_content_mut st n s : Good st -> Ext st (fst (m_text_content_mut st n s)).
Proof.
  intros G. unfold m_text_content_mut. destruct (q_first_child st n) as [c|].
  - destruct (q_next st c); [apply Ext_refl; exact G|].
    destruct (is_type st c TText) eqn:Ht; cbn [fst]; [apply Ext_set_text; assumption|apply Ext_refl; exact G].
  - destruct (is_type st n TElement); [|apply Ext_refl; exact G].
    destruct (new_node st (VText [])) as [st1 t] eqn:En.
    destruct (Ext_new_node _ _ _ _ G En) as (X1 & _).
    pose proof (Ext_m_append st1 n t (ext_good _ _ X1)) as X2.
    destruct (m_append st1 n t) as [st2 o]. cbn [fst] in X2.
    assert (Ext st st2) as X12 by (eapply Ext_trans; eauto).
    destruct o; cbn [fst]; try exact X12.
    destruct (q_first_child st2 n) as [c|]; cbn [fst]; [|exact X12].
    destruct (is_type st2 c TText) eqn:Ht; cbn [fst]; [|exact X12].
    eapply Ext_step; [exact X12|]. intros G2. apply Ext_set_text; assumption.
Qed.

Lemma Ext_on_element st e f : Good st -> (is_type st e TElement = true -> Ext st f) -> Ext st (fst (on_element st e f)).
Proof.
  intros G H. unfold on_element. destruct (is_type st e TElement); cbn [fst]; [apply H; reflexivity|apply Ext_refl; exact G].
Qed.

Lemma Ext_set_mapped st k e key newv :
  Good st -> value_category newv = cat_of k -> key_of_node newv = key ->
  Ext st (match map_get_node st k e key with Some n => set_value st n (fun _ => newv) | None => st end).
Proof.
  intros G Hc Hk. destruct (map_get_node st k e key) as [n|] eqn:Eg; [|apply Ext_refl; exact G].
  destruct (map_get_node_facts _ _ _ _ _ G Eg) as (v & Hv & Hcv & Hkv).
  apply Ext_set_value; [exact G|]. intros w Hw. rewrite Hv in Hw. inversion Hw; subst.
  eapply set_same_key; eauto.
Qed.

Lemma Ext_cons st b : Good st -> Ext st {| store := store st; stamps := stamps st; free := free st; cons := b |}.
Proof.
  intros G. pose proof G as [[H1 H2 H3 H4 H5] Hs].
  constructor; [exact G|split; [constructor; assumption|exact Hs]|apply grows_same_stamps; reflexivity|cbn; lia|].
  intros x v v' _ Hv Hv'. unfold val, cur in *. cbn [store] in Hv'. rewrite Hv in Hv'. inversion Hv'. apply same_class_refl.
Qed.

(* THE STEP THEOREM: every call, with any arguments, keeps the store good *)
Theorem Ext_mstep st o : Good st -> Ext st (fst (mstep st o)).
Proof.
  intros G. destruct o; cbn [mstep].
  all: try (match goal with |- context [created (new_node ?s ?v)] =>
              unfold created; destruct (new_node s v) as [st1 i] eqn:En; destruct (Ext_new_node _ _ _ _ G En) as (X & _); exact X end).
  - apply Ext_m_append; exact G.
  - apply Ext_m_prepend; exact G.
  - apply Ext_m_insert_after; exact G.
  - apply Ext_m_insert_before; exact G.
  - apply Ext_m_any_append; exact G.
  - destruct (is_type st p TElement) eqn:He; cbn [negb]; [|apply Ext_refl; exact G].
    destruct (is_type st c TAttribute) eqn:Hc; cbn [negb]; [|apply Ext_refl; exact G].
    pose proof (Ext_map_insert_node st KAttr p c G He) as X. destruct (map_insert_node st KAttr p c) as [s1 r]. cbn [fst] in *.
    apply X. intros v Hv. unfold is_type in Hc. rewrite Hv in Hc. destruct v; try discriminate; reflexivity.
  - destruct (is_type st p TElement) eqn:He; cbn [negb]; [|apply Ext_refl; exact G].
    destruct (is_type st c TNamespace) eqn:Hc; cbn [negb]; [|apply Ext_refl; exact G].
    pose proof (Ext_map_insert_node st KNs p c G He) as X. destruct (map_insert_node st KNs p c) as [s1 r]. cbn [fst] in *.
    apply X. intros v Hv. unfold is_type in Hc. rewrite Hv in Hc. destruct v; try discriminate; reflexivity.
  - apply Ext_m_detach; exact G.
  - apply Ext_m_remove; exact G.
  - apply Ext_m_replace; exact G.
  - apply Ext_m_wrap; exact G.
  - apply Ext_m_unwrap; exact G.
  - apply Ext_m_clone; exact G.
  - apply Ext_on_element; [exact G|]. intros He. apply Ext_set_value; [exact G|]. intros v Hv.
    unfold is_type in He. rewrite Hv in He. destruct v; try discriminate. apply normal_update; [repeat split|reflexivity].
  - apply Ext_on_element; [exact G|]. intros He. apply Ext_map_insert; auto.
  - apply Ext_on_element; [exact G|]. intros He. apply Ext_map_remove; exact G.
  - apply Ext_on_element; [exact G|]. intros He. apply Ext_map_insert; auto.
  - apply Ext_on_element; [exact G|]. intros He. apply Ext_map_remove; exact G.
  - apply Ext_on_element; [exact G|]. intros He. apply Ext_map_clear; exact G.
  - apply Ext_on_element; [exact G|]. intros He. apply Ext_map_clear; exact G.
  - apply Ext_on_element; [exact G|]. intros He. apply (Ext_set_mapped st KAttr); auto.
  - apply Ext_on_element; [exact G|]. intros He.
    destruct (map_get_node st KAttr e name); [apply Ext_refl; exact G|apply Ext_map_insert; auto].
  - apply Ext_on_element; [exact G|]. intros He.
    destruct (map_get_node st KAttr e name) as [n|] eqn:Eg; [|apply Ext_map_insert; auto].
    pose proof (Ext_set_mapped st KAttr e name (VAttribute name v) G eq_refl eq_refl) as X. rewrite Eg in X. exact X.
  - apply Ext_on_element; [exact G|]. intros He. apply Ext_map_remove; exact G.
  - apply Ext_on_element; [exact G|]. intros He. apply (Ext_set_mapped st KNs); auto.
  - apply Ext_on_element; [exact G|]. intros He.
    destruct (map_get_node st KNs e p); [apply Ext_refl; exact G|apply Ext_map_insert; auto].
  - cbn [fst]. destruct (is_type st n TText) eqn:Ht; [apply Ext_set_text; assumption|apply Ext_refl; exact G].
  - destruct (is_type st n TComment) eqn:Ht; [|apply Ext_refl; exact G].
    destruct (has_double_dash s); cbn [fst]; [apply Ext_refl; exact G|].
    apply Ext_set_value; [exact G|]. intros v Hv. unfold is_type in Ht. rewrite Hv in Ht. destruct v; try discriminate.
    apply normal_update; [repeat split|reflexivity].
  - cbn [fst]. apply Ext_set_value; [exact G|]. intros v _. destruct v; (split; [repeat split|split; auto]).
  - cbn [fst]. apply Ext_set_value; [exact G|]. intros v _. destruct v; (split; [repeat split|split; auto]).
  - cbn [fst]. apply Ext_set_value; [exact G|]. intros v _. destruct v; (split; [repeat split|split; auto]).
  - apply Ext_m_text_content_mut; exact G.
  - cbn [fst]. apply Ext_cons; exact G.
  - destruct (is_type st e TElement); cbn [negb]; [|apply Ext_refl; exact G].
    destruct (new_node st VDocument) as [st1 d] eqn:En. destruct (Ext_new_node _ _ _ _ G En) as (X1 & _).
    pose proof (Ext_m_append st1 d e (ext_good _ _ X1)) as X2. destruct (m_append st1 d e) as [st2 o]. cbn [fst] in X2.
    destruct o; cbn [fst]; eapply Ext_trans; eauto.
Qed.
