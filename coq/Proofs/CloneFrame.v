(* CloneFrame.v — C12 "the source is unchanged by the cloning": clone_node leaves every tree that was in the store exactly as
   it was and where it was: the old forest is a suffix of the new one, whatever node is cloned, in every good store.
   The argument: every forest primitive the call applies names a node that is not in the old forest (a new node, or a node
   found by walking from a new node, which stays inside the new node's tree), and such a primitive leaves the suffix alone. *)
From Coq Require Import List NArith ZArith Bool Lia Permutation Arith.
From XotV Require Import Model.Base Model.Zipper Model.Access Model.Store Model.Manip Spec.DocOrder Spec.Paths Spec.Shape
                         Proofs.ZipperProofs Proofs.AccessProofs Proofs.StoreProofs Proofs.ForestFacts Proofs.InvProofs Proofs.Canon
                         Proofs.ShapeProofs Proofs.InvSteps Proofs.InvOps Proofs.Levels.
Import ListNotations.
Open Scope N_scope.

(* ---------- primitives that name a node outside the suffix leave the suffix alone ---------- *)

Definition suffix_local (act : N -> value -> forest -> forest -> forest) : Prop :=
  forall n v k r S, act n v k (fapp r S) = fapp (act n v k r) S.

Lemma fact_suffix act n F S : suffix_local act -> ~ In n (ids S) -> fact act n (fapp F S) = fapp (fact act n F) S.
Proof.
  intros Hl Hn. induction F as [|i v k _ r IH]; cbn [fapp fact].
  - apply fact_absent. exact Hn.
  - destruct (N.eqb i n); [apply Hl|]. rewrite IH. reflexivity.
Qed.

Lemma fapp_assoc' a b c : fapp (fapp a b) c = fapp a (fapp b c).
Proof. induction a as [|i v k _ r IH]; cbn [fapp]; [reflexivity|]. rewrite IH. reflexivity. Qed.

Lemma sl_kids g : suffix_local (a_kids g). Proof. intros n v k r S. reflexivity. Qed.
Lemma sl_after t : suffix_local (a_after t). Proof. intros n v k r S. unfold a_after. cbn. rewrite fapp_assoc'. reflexivity. Qed.
Lemma sl_before t : suffix_local (a_before t). Proof. intros n v k r S. unfold a_before. rewrite fapp_assoc'. reflexivity. Qed.
Lemma sl_splice : suffix_local a_splice. Proof. intros n v k r S. unfold a_splice. rewrite fapp_assoc'. reflexivity. Qed.
Lemma sl_val g : suffix_local (a_val g). Proof. intros n v k r S. reflexivity. Qed.
Lemma sl_drop : suffix_local a_drop. Proof. intros n v k r S. reflexivity. Qed.

(* the old forest [S] is a suffix of the store *)
Definition Suf (S : forest) (st : xstate) : Prop := exists F, store st = fapp F S.

Lemma Suf_fset_val S st n g : Suf S st -> ~ In n (ids S) -> Suf S (with_store st (fset_val n g (store st))).
Proof. intros [F E] Hn. exists (fact (a_val g) n F). cbn [store with_store]. rewrite E, fset_val_fact. apply fact_suffix; [apply sl_val|exact Hn]. Qed.

Lemma Suf_remove_single S st n : Suf S st -> ~ In n (ids S) -> Suf S (remove_single_raw st n).
Proof.
  intros [F E] Hn. exists (fact a_splice n F). unfold remove_single_raw. cbn [store free_slots with_store].
  rewrite E, fsplice_fact. apply fact_suffix; [apply sl_splice|exact Hn].
Qed.

Lemma Suf_new_node S st v st1 i : Suf S st -> new_node st v = (st1, i) -> Suf S st1.
Proof.
  intros [F E] Hn. exists (FCons i v FNil F). unfold new_node in Hn. destruct (free st); inversion Hn; subst; cbn [store fapp]; rewrite E; reflexivity.
Qed.

(* moving a node that is outside the suffix to a place named by a node outside the suffix *)
Lemma Suf_move S st c act p : Suf S st -> NoDup (ids (store st)) -> ~ In c (ids S) -> ~ In p (ids S) ->
  (forall t, suffix_local (act t)) ->
  Suf S (move st c (fun t f => fact (act t) p f)).
Proof.
  intros [F E] Hnd Hc Hp Hl. unfold move. destruct (fcut c (store st)) as [[f' t]|] eqn:Ecut; [|exists F; exact E].
  cbn [store with_store]. rewrite (fcut_fact _ _ _ _ Hnd Ecut), E.
  rewrite (fact_suffix a_drop c F S sl_drop Hc). rewrite (fact_suffix (act (single t)) p _ S (Hl _) Hp). eexists. reflexivity.
Qed.

(* ---------- a tree that meets the suffix lies in the suffix ---------- *)

Lemma tree_in_suffix F : forall S A B r vr kr x, NoDup (ids (fapp F S)) ->
  fapp F S = fapp A (FCons r vr kr B) -> In x (r :: ids kr) -> In x (ids S) -> incl (r :: ids kr) (ids S).
Proof.
  induction F as [|f vf kf _ F' IH]; intros S A B r vr kr x Hnd E Hx HxS; cbn [fapp] in E.
  - subst S. rewrite ids_fapp. intros y Hy. apply in_or_app. right. cbn [ids]. destruct Hy as [Hy|Hy]; [left; exact Hy|right; apply in_or_app; left; exact Hy].
  - destruct A as [|a va ka A']; cbn [fapp] in E.
    + inversion E; subst. exfalso. cbn [fapp ids] in Hnd. rewrite ids_fapp in Hnd.
      (* x is in the first tree, which is part of F: it cannot be in S *)
      rewrite app_comm_cons, app_assoc in Hnd.
      assert (In x ((r :: ids kr) ++ ids F')) as H2 by (apply in_or_app; left; exact Hx).
      eapply NoDup_app_not_in; [exact Hnd|exact H2|exact HxS].
    + inversion E; subst. cbn [fapp ids] in Hnd. apply NoDup_cons_app_inv in Hnd as (_ & _ & _ & Hnd' & _).
      eapply IH; eauto.
Qed.

Lemma plug_ids_in_suffix st S zy x : Suf S st -> NoDup (ids (store st)) -> zroot (store st) zy ->
  In x (ids (plug zy)) -> In x (ids S) -> In (z_slot zy) (ids S).
Proof.
  intros [F E] Hnd (Htc & A & B & Ez) Hx HxS. destruct (top_clean_plug zy Htc) as (r & vr & kr & Hp).
  rewrite Hp in *. cbn [fapp] in Ez. rewrite E in Ez, Hnd. cbn [ids] in Hx. rewrite app_nil_r in Hx.
  pose proof (tree_in_suffix F S A B r vr kr x Hnd Ez Hx HxS) as Hincl. apply Hincl.
  assert (In (z_slot zy) (ids (FCons r vr kr FNil))) as Hin.
  { rewrite <- Hp. unfold plug. rewrite ids_nodes, nodes_plug_ups, !map_app. apply in_or_app. right. apply in_or_app. left.
    rewrite <- ids_nodes. apply in_level. }
  cbn [ids] in Hin. rewrite app_nil_r in Hin. exact Hin.
Qed.

(* ---------- walking from a node outside the suffix stays outside ---------- *)

Lemma slot_in_plug z : In (z_slot z) (ids (plug z)).
Proof.
  unfold plug. rewrite ids_nodes, nodes_plug_ups, !map_app. apply in_or_app. right. apply in_or_app. left.
  rewrite <- ids_nodes. apply in_level.
Qed.

Lemma kids_in_plug z x : In x (ids (z_kids z)) -> In x (ids (plug z)).
Proof.
  intros H. unfold plug. rewrite ids_nodes, nodes_plug_ups, !map_app. apply in_or_app. right. apply in_or_app. left.
  rewrite <- ids_nodes. unfold z_level. eapply Permutation_in; [apply Permutation_sym; apply ids_frev_app|].
  apply in_or_app. right. cbn [ids]. right. apply in_or_app. left. exact H.
Qed.

Lemma out_of_suffix st S y zy x : Suf S st -> NoDup (ids (store st)) -> cur st y = Some zy -> ~ In y (ids S) ->
  In x (ids (plug zy)) -> ~ In x (ids S).
Proof.
  intros HS Hnd Hc Hy Hx HxS. apply Hy. pose proof (locate_zroot _ _ _ Hc) as Hz.
  pose proof (plug_ids_in_suffix st S zy x HS Hnd Hz Hx HxS) as H. apply locate_slot in Hc. destruct Hc as [<- _]. exact H.
Qed.

Lemma moved_in_plug st y zy z' : NoDup (ids (store st)) -> cur st y = Some zy ->
  (right zy = Some z' \/ left zy = Some z' \/ up zy = Some z' \/ down_first zy = Some z' \/ down_last zy = Some z') ->
  In (z_slot z') (ids (plug zy)).
Proof.
  intros Hnd Hc Hm. assert (plug z' = plug zy) as <-.
  { destruct Hm as [H|[H|[H|[H|H]]]]; [eapply plug_right|eapply plug_left|eapply plug_up|eapply plug_down_first|eapply plug_down_last]; exact H. }
  apply slot_in_plug.
Qed.

Section Out.
  Variables (S : forest) (st : xstate).
  Hypothesis HS : Suf S st.
  Hypothesis G : Good st.

  Lemma q_prev_out y x : ~ In y (ids S) -> q_prev st y = Some x -> ~ In x (ids S).
  Proof.
    intros Hy H. pose proof (Good_nodup _ G) as Hnd. destruct (q_prev_cur _ _ _ Hnd H) as (z & s & Hz & Hs & Hl & _).
    apply (out_of_suffix st S y z x HS Hnd Hz Hy). pose proof (moved_in_plug st y z s Hnd Hz (or_intror (or_introl Hl))) as Hin.
    apply locate_slot in Hs. destruct Hs as [E _]. rewrite E in Hin. exact Hin.
  Qed.

  Lemma q_next_out y x : ~ In y (ids S) -> q_next st y = Some x -> ~ In x (ids S).
  Proof.
    intros Hy H. pose proof (Good_nodup _ G) as Hnd. destruct (q_next_cur _ _ _ Hnd H) as (z & s & Hz & Hs & Hl & _).
    apply (out_of_suffix st S y z x HS Hnd Hz Hy). pose proof (moved_in_plug st y z s Hnd Hz (or_introl Hl)) as Hin.
    apply locate_slot in Hs. destruct Hs as [E _]. rewrite E in Hin. exact Hin.
  Qed.

  Lemma q_parent_out y x : ~ In y (ids S) -> q_parent st y = Some x -> ~ In x (ids S).
  Proof.
    intros Hy H. pose proof (Good_nodup _ G) as Hnd. unfold q_parent in H. destruct (cur st y) as [z|] eqn:Hz; [|discriminate].
    unfold parent in H. destruct (up z) as [s|] eqn:Hu; [|discriminate]. inversion H; subst x.
    apply (out_of_suffix st S y z _ HS Hnd Hz Hy). apply (moved_in_plug st y z s Hnd Hz). right. right. left. exact Hu.
  Qed.

  Lemma q_last_child_out y x : ~ In y (ids S) -> q_last_child st y = Some x -> ~ In x (ids S).
  Proof.
    intros Hy H. pose proof (Good_nodup _ G) as Hnd. unfold q_last_child in H. destruct (cur st y) as [z|] eqn:Hz; [|discriminate].
    unfold last_child in H. destruct (down_last z) as [s|] eqn:Hd; [|discriminate]. destruct (znormal s); [|discriminate]. inversion H; subst x.
    apply (out_of_suffix st S y z _ HS Hnd Hz Hy). apply (moved_in_plug st y z s Hnd Hz). right. right. right. right. exact Hd.
  Qed.

  Lemma level_slot_in f : forall ups b c, In c (zs_level ups b f) -> In (z_slot c) (ids f).
  Proof.
    induction f as [|i v k _ r IH]; intros ups b c; cbn [zs_level]; [intros []|]. intros [<-|H].
    - left. reflexivity.
    - right. apply in_or_app. right. eapply IH. exact H.
  Qed.

  Lemma child_out y z c : ~ In y (ids S) -> cur st y = Some z -> In c (arena_children z) -> ~ In (z_slot c) (ids S).
  Proof.
    intros Hy Hz Hc. apply (out_of_suffix st S y z _ HS (Good_nodup _ G) Hz Hy). apply kids_in_plug.
    unfold arena_children in Hc. eapply level_slot_in. exact Hc.
  Qed.

  Lemma q_first_child_out y x : ~ In y (ids S) -> q_first_child st y = Some x -> ~ In x (ids S).
  Proof.
    intros Hy H. unfold q_first_child in H. destruct (cur st y) as [z|] eqn:Hz; [|discriminate].
    unfold first_child, normal_children in H. destruct (skip_while _ (arena_children z)) as [|c l] eqn:E; [discriminate|]. cbn in H. inversion H; subst x.
    apply (child_out y z c Hy Hz). eapply skip_while_in. rewrite E. left. reflexivity.
  Qed.

  Lemma map_get_node_out k e key x : ~ In e (ids S) -> map_get_node st k e key = Some x -> ~ In x (ids S).
  Proof.
    intros He H. unfold map_get_node in H. destruct (cur st e) as [z|] eqn:Hz; [|discriminate].
    destruct (List.find _ (map_nodes k z)) as [c|] eqn:Ef; [|discriminate]. cbn in H. inversion H; subst x.
    apply find_some in Ef as [Hin _]. apply (child_out e z c He Hz).
    destruct k; cbn [map_nodes] in Hin.
    - unfold attribute_nodes in Hin. apply take_while_in in Hin as [_ Hin]. apply skip_while_in in Hin. exact Hin.
    - unfold namespace_nodes in Hin. apply take_while_in in Hin as [_ Hin]. exact Hin.
  Qed.
End Out.

(* ---------- the calls clone_node makes ---------- *)

Lemma Suf_rc S st a b : Suf S st -> (forall p, a = Some p -> ~ In p (ids S)) -> (forall x, b = Some x -> ~ In x (ids S)) ->
  Suf S (fst (remove_consolidate st a b)).
Proof.
  intros HS Ha Hb. unfold remove_consolidate. destruct (negb (cons st)); [exact HS|].
  destruct a as [p|]; [|exact HS]. destruct b as [x|]; [|exact HS].
  destruct (val st p) as [[]|]; try exact HS. destruct (val st x) as [[]|]; try exact HS. cbn [fst].
  apply Suf_remove_single; [apply Suf_fset_val; [exact HS|apply Ha; reflexivity]|apply Hb; reflexivity].
Qed.

Lemma Suf_ac S st node a b : Suf S st -> ~ In node (ids S) -> (forall p, a = Some p -> ~ In p (ids S)) -> (forall x, b = Some x -> ~ In x (ids S)) ->
  Suf S (fst (add_consolidate st node a b)).
Proof.
  intros HS Hn Ha Hb. unfold add_consolidate. destruct (negb (cons st)); [exact HS|].
  destruct (val st node) as [[]|]; try exact HS.
  assert (Suf S (fst (match b with
                      | Some n => match val st n with
                                  | Some (VText _) => (remove_single_raw (with_store st (fset_val n (prepend_text_to s) (store st))) node, true)
                                  | _ => (st, false)
                                  end
                      | None => (st, false)
                      end))) as Hnext.
  { destruct b as [x|]; [|exact HS]. destruct (val st x) as [[]|]; try exact HS. cbn [fst].
    apply Suf_remove_single; [apply Suf_fset_val; [exact HS|apply Hb; reflexivity]|exact Hn]. }
  destruct a as [p|]; [|exact Hnext]. destruct (val st p) as [[]|]; try exact Hnext. cbn [fst].
  apply Suf_remove_single; [apply Suf_fset_val; [exact HS|apply Ha; reflexivity]|exact Hn].
Qed.

Lemma Suf_move_kids S st c p g : Suf S st -> NoDup (ids (store st)) -> ~ In c (ids S) -> ~ In p (ids S) ->
  Suf S (move st c (fun t f => fmap_kids p (g t) f)).
Proof.
  intros [F E] Hnd Hc Hp. unfold move. destruct (fcut c (store st)) as [[f' t]|] eqn:Ecut; [|exists F; exact E].
  cbn [store with_store]. rewrite (fcut_fact _ _ _ _ Hnd Ecut), E, fmap_kids_fact.
  rewrite (fact_suffix a_drop c F S sl_drop Hc). rewrite (fact_suffix (a_kids (g (single t))) p _ S (sl_kids _) Hp). eexists. reflexivity.
Qed.

Lemma Suf_m_append S st p c : Good st -> Suf S st -> ~ In p (ids S) -> ~ In c (ids S) -> Suf S (fst (m_append st p c)).
Proof.
  intros G HS Hp Hc. unfold m_append. destruct (negb _); [exact HS|]. destruct (opt_eqb _ _); [exact HS|].
  pose proof (Suf_rc S st (q_prev st c) (q_next st c) HS (fun x H => q_prev_out S st HS G c x Hc H) (fun x H => q_next_out S st HS G c x Hc H)) as H1.
  pose proof (Ext_remove_consolidate st (q_prev st c) (q_next st c) G) as X1.
  destruct (remove_consolidate st (q_prev st c) (q_next st c)) as [st1 m0]. cbn [fst] in *. pose proof (ext_good _ _ X1) as G1.
  cbv zeta. set (last := if opt_eqb (q_last_child st1 p) (Some c) then q_prev st1 c else q_last_child st1 p).
  assert (forall x, last = Some x -> ~ In x (ids S)) as Hlast.
  { intros x H. unfold last in H. destruct (opt_eqb _ _); [exact (q_prev_out S st1 H1 G1 c x Hc H)|exact (q_last_child_out S st1 H1 G1 p x Hp H)]. }
  pose proof (Suf_ac S st1 c last None H1 Hc Hlast (fun x H => ltac:(discriminate))) as H2.
  pose proof (Ext_add_consolidate st1 c last None G1) as X2.
  destruct (add_consolidate st1 c last None) as [st2 m]. cbn [fst] in *.
  destruct m; cbn [fst]; [exact H2|]. apply Suf_move_kids; auto. apply Good_nodup. apply X2.
Qed.

Lemma Suf_map_insert_node S st k e node : Good st -> Suf S st -> ~ In e (ids S) -> ~ In node (ids S) ->
  Suf S (fst (map_insert_node st k e node)).
Proof.
  intros G HS He Hn. unfold map_insert_node. destruct (val st node); [|exact HS].
  destruct (map_get_node st k e (key_of v)) as [ex|] eqn:Eg; cbn [fst].
  - apply Suf_fset_val; [exact HS|]. exact (map_get_node_out S st HS G k e _ ex He Eg).
  - unfold map_attach. apply Suf_move_kids; auto. apply Good_nodup. exact G.
Qed.

Lemma Suf_m_any_append S st p c : Good st -> Suf S st -> ~ In p (ids S) -> ~ In c (ids S) -> Suf S (fst (m_any_append st p c)).
Proof.
  intros G HS Hp Hc. unfold m_any_append. destruct (val st c) as [[]|];
    try (pose proof (Suf_m_append S st p c G HS Hp Hc) as X; destruct (m_append st p c) as [s1 o]; destruct o; exact X);
    (destruct (negb _); [exact HS|]).
  - pose proof (Suf_map_insert_node S st KAttr p c G HS Hp Hc) as X. destruct (map_insert_node st KAttr p c). exact X.
  - pose proof (Suf_map_insert_node S st KNs p c G HS Hp Hc) as X. destruct (map_insert_node st KNs p c). exact X.
Qed.

Lemma Suf_ids S st : Suf S st -> incl (ids S) (ids (store st)).
Proof. intros [F E] x Hx. rewrite E, ids_fapp. apply in_or_app. right. exact Hx. Qed.

Lemma Suf_clone_edges S es : forall st current st', Good st -> Suf S st -> ~ In current (ids S) ->
  clone_edges es st current = Some st' -> Suf S st'.
Proof.
  induction es as [|e es IH]; intros st current st' G HS Hcur; cbn [clone_edges]; [intros H; inversion H; subst; exact HS|].
  destruct e as [z|z].
  - destruct (z_val z) eqn:Ev; try (apply IH; assumption).
    all: match goal with |- context [new_node ?s ?v] => destruct (new_node s v) as [st1 nn] eqn:Hn end.
    all: destruct (Ext_new_node _ _ _ _ G Hn) as (X & Hni & _); pose proof (ext_good _ _ X) as G1;
      pose proof (Suf_new_node S _ _ _ _ HS Hn) as HS1;
      assert (~ In nn (ids S)) as Hnn by (intros Hx; apply Hni; apply (Suf_ids S _ HS); exact Hx);
      pose proof (Suf_m_any_append S st1 current nn G1 HS1 Hcur Hnn) as HS2;
      pose proof (ext_good _ _ (Ext_m_any_append st1 current nn G1)) as G2;
      destruct (m_any_append st1 current nn) as [st2 o]; cbn [fst] in *; destruct o; try discriminate;
      apply IH; try assumption; try (destruct (vtype_eqb _ _); assumption).
  - destruct (vtype_eqb _ _); [|apply IH; assumption]. destruct (q_parent st current) as [p|] eqn:Ep; [|discriminate].
    apply IH; try assumption. eapply q_parent_out; eauto.
Qed.

(* clone_node leaves the forest that was there as it was: it is a suffix of the new forest *)
Theorem clone_frame st n : Good st -> exists F, store (fst (m_clone st n)) = fapp F (store st).
Proof.
  intros G. assert (Suf (store st) st) as HS0 by (exists FNil; reflexivity).
  unfold m_clone. destruct (cur st n) as [z|]; [|exact HS0].
  destruct (z_val z) as [|n0|ts|pt pd|cs|an av|np nn];
    try (match goal with |- context [new_node st ?v] => destruct (new_node st v) as [st1 c] eqn:Hn end; cbn [fst];
         exact (Suf_new_node _ _ _ _ _ HS0 Hn)).
  - destruct (new_node st VDocument) as [st1 top] eqn:Hn. destruct (Ext_new_node _ _ _ _ G Hn) as (X & Hni & _).
    pose proof (Suf_new_node _ _ _ _ _ HS0 Hn) as HS1.
    destruct (clone_edges (all_traverse z) st1 top) as [st2|] eqn:Ec; cbn [fst]; [|exact HS1].
    exact (Suf_clone_edges _ _ _ _ _ (ext_good _ _ X) HS1 Hni Ec).
  - destruct (new_node st (VElement n0)) as [st1 top] eqn:Hn. destruct (Ext_new_node _ _ _ _ G Hn) as (X & Hni & _).
    pose proof (Suf_new_node _ _ _ _ _ HS0 Hn) as HS1.
    destruct (clone_edges (all_traverse z) st1 top) as [st2|] eqn:Ec; cbn [fst]; [|exact HS1].
    pose proof (Suf_clone_edges _ _ _ _ _ (ext_good _ _ X) HS1 Hni Ec) as HS2.
    destruct (q_first_child st2 top); cbn [fst]; [|exact HS2]. apply Suf_remove_single; [exact HS2|exact Hni].
Qed.
