(* EntityProofs.v — the character level of serialising and parsing (Model/Entity.v): round trips for every string,
   lexical safety of the written text, the denotation of every well-formed spelling of character data. *)
From Coq Require Import List NArith Bool Lia.
From XotV Require Import Model.Base Model.Entity.
Import ListNotations.
Open Scope N_scope.

(* ---------- serialize_text / serialize_attribute are inverted by parse_content, for EVERY string ---------- *)

Theorem parse_serialize_text_go g base s : forall l1 l2 pos,
  parse_go false base (serialize_text_go g s l1 l2) PNormal pos = inr s.
Proof.
  induction s as [|c s IH]; intros l1 l2 pos; cbn [serialize_text_go]; [reflexivity|].
  destruct (c =? c_amp) eqn:E1; [apply N.eqb_eq in E1; subst; cbn; rewrite IH; reflexivity|].
  destruct (c =? c_lt) eqn:E2; [apply N.eqb_eq in E2; subst; cbn; rewrite IH; reflexivity|].
  destruct (c =? c_gt) eqn:E3.
  { apply N.eqb_eq in E3; subst. destruct g; [destruct (l1 && l2)|]; cbn; rewrite IH; reflexivity. }
  destruct (c =? c_cr) eqn:E4; [apply N.eqb_eq in E4; subst; cbn; rewrite IH; reflexivity|].
  cbn [parse_go pstep]. rewrite E4, E1. cbn [andb]. rewrite IH. reflexivity.
Qed.

Theorem parse_serialize_text g base s : parse_text base (serialize_text g s) = inr s.
Proof. apply parse_serialize_text_go. Qed.

Theorem parse_serialize_attribute_go base s : forall pos,
  parse_go true base (serialize_attribute s) PNormal pos = inr s.
Proof.
  induction s as [|c s IH]; intros pos; cbn [serialize_attribute]; [reflexivity|].
  destruct (c =? c_amp) eqn:E1; [apply N.eqb_eq in E1; subst; cbn; rewrite IH; reflexivity|].
  destruct (c =? c_lt) eqn:E2; [apply N.eqb_eq in E2; subst; cbn; rewrite IH; reflexivity|].
  destruct (c =? c_apos) eqn:E3; [apply N.eqb_eq in E3; subst; cbn; rewrite IH; reflexivity|].
  destruct (c =? c_quot) eqn:E4; [apply N.eqb_eq in E4; subst; cbn; rewrite IH; reflexivity|].
  destruct (c =? c_tab) eqn:E5; [apply N.eqb_eq in E5; subst; cbn; rewrite IH; reflexivity|].
  destruct (c =? c_lf) eqn:E6; [apply N.eqb_eq in E6; subst; cbn; rewrite IH; reflexivity|].
  destruct (c =? c_cr) eqn:E7; [apply N.eqb_eq in E7; subst; cbn; rewrite IH; reflexivity|].
  cbn [app parse_go pstep]. rewrite E7, E1, E5, E6. cbn [andb orb]. rewrite IH. reflexivity.
Qed.

Theorem parse_serialize_attribute base s : parse_attribute base (serialize_attribute s) = inr s.
Proof. apply parse_serialize_attribute_go. Qed.

(* ---------- lexical safety: what the tokenizer sees ---------- *)

(* the written character data contains no '<' (so no tag, comment, PI or CDATA section can start inside it) *)
Theorem serialize_text_no_lt g s : forall l1 l2, ~ In c_lt (serialize_text_go g s l1 l2).
Proof.
  induction s as [|c s IH]; intros l1 l2; cbn [serialize_text_go]; [intros []|].
  destruct (c =? c_amp) eqn:E1; [cbn; intros H; repeat (destruct H as [H|H]; [discriminate|]); exact (IH _ _ H)|].
  destruct (c =? c_lt) eqn:E2; [cbn; intros H; repeat (destruct H as [H|H]; [discriminate|]); exact (IH _ _ H)|].
  destruct (c =? c_gt) eqn:E3.
  { apply N.eqb_eq in E3; subst. destruct g; [destruct (l1 && l2)|];
      cbn; intros H; repeat (destruct H as [H|H]; [discriminate|]); exact (IH _ _ H). }
  destruct (c =? c_cr) eqn:E4; [cbn; intros H; repeat (destruct H as [H|H]; [discriminate|]); exact (IH _ _ H)|].
  intros [H|H]; [apply N.eqb_neq in E2; congruence|exact (IH _ _ H)].
Qed.

(* a written attribute value contains neither '<' nor the double quote nor a literal TAB / LF / CR *)
Theorem serialize_attribute_safe s :
  forall c, In c (serialize_attribute s) -> c <> c_lt /\ c <> c_quot /\ c <> c_tab /\ c <> c_lf /\ c <> c_cr.
Proof.
  induction s as [|d s IH]; cbn [serialize_attribute]; [intros c []|]. intros c H. apply in_app_or in H as [H|H]; [|apply IH; exact H].
  destruct (d =? c_amp) eqn:E1; [cbn in H; repeat (destruct H as [H|H]; [subst; repeat split; discriminate|]); destruct H|].
  destruct (d =? c_lt) eqn:E2; [cbn in H; repeat (destruct H as [H|H]; [subst; repeat split; discriminate|]); destruct H|].
  destruct (d =? c_apos) eqn:E3; [cbn in H; repeat (destruct H as [H|H]; [subst; repeat split; discriminate|]); destruct H|].
  destruct (d =? c_quot) eqn:E4; [cbn in H; repeat (destruct H as [H|H]; [subst; repeat split; discriminate|]); destruct H|].
  destruct (d =? c_tab) eqn:E5; [cbn in H; repeat (destruct H as [H|H]; [subst; repeat split; discriminate|]); destruct H|].
  destruct (d =? c_lf) eqn:E6; [cbn in H; repeat (destruct H as [H|H]; [subst; repeat split; discriminate|]); destruct H|].
  destruct (d =? c_cr) eqn:E7; [cbn in H; repeat (destruct H as [H|H]; [subst; repeat split; discriminate|]); destruct H|].
  destruct H as [H|[]]. subst c.
  apply N.eqb_neq in E2, E4, E5, E6, E7. repeat split; assumption.
Qed.

(* "]]>" never appears in written character data: scanning with the last two characters remembered *)
Fixpoint no_cdata_end (last last2 : bool) (s : str) : bool :=
  match s with
  | [] => true
  | c :: s' => if (c =? c_gt) && last && last2 then false else no_cdata_end (c =? c_rbr) last s'
  end.

Lemma no_cdata_end_last_false b b' s : no_cdata_end false b s = no_cdata_end false b' s.
Proof. destruct s as [|c s]; cbn [no_cdata_end]; [reflexivity|]. rewrite !andb_false_r. reflexivity. Qed.

Theorem serialize_text_no_cdata_end g s : forall l1 l2,
  no_cdata_end l1 l2 (serialize_text_go g s l1 l2) = true.
Proof.
  induction s as [|c s IH]; intros l1 l2; cbn [serialize_text_go]; [reflexivity|].
  destruct (c =? c_amp) eqn:E1; [cbn; apply IH|].
  destruct (c =? c_lt) eqn:E2; [cbn; apply IH|].
  destruct (c =? c_gt) eqn:E3.
  { apply N.eqb_eq in E3; subst. destruct g.
    - destruct (l1 && l2) eqn:E; [cbn; apply IH|]. cbn [no_cdata_end]. change (c_gt =? c_gt) with true.
      cbn [andb]. rewrite E. change (c_gt =? c_rbr) with false.
      rewrite (no_cdata_end_last_false l1 false). apply IH.
    - cbn; apply IH. }
  destruct (c =? c_cr) eqn:E4; [cbn; apply IH|].
  cbn [no_cdata_end]. rewrite E3. cbn [andb]. apply IH.
Qed.

(* ---------- CDATA sections: a reference decoder and the round trip ---------- *)

(* a decoder for a sequence of CDATA sections written back to back, possibly with the character reference to CR between
   two of them: what any XML tokenizer and reference decoder read out of them *)
Inductive cstate :=
| COpen (k : nat)          (* k characters of "<![CDATA[" matched *)
| CRef (k : nat)           (* between two sections: k characters of the reference "&#xD;" matched *)
| CBody (seen : nat).      (* inside a section; the last [seen] (0, 1 or 2) characters were ']' and are held back *)

Definition cdata_step (st : cstate) (c : cp) : option (cstate * str) :=
  match st with
  | COpen k =>
      if Nat.eqb k 0 && (c =? c_amp) then Some (CRef 1, []) else
      match nth_error s_cdata_open k with
      | Some e => if c =? e then Some (if Nat.eqb (S k) 9 then CBody 0 else COpen (S k), []) else None
      | None => None
      end
  | CRef k =>
      match nth_error s_cr k with
      | Some e => if c =? e then (if Nat.eqb (S k) 5 then Some (COpen 0, [c_cr]) else Some (CRef (S k), [])) else None
      | None => None
      end
  | CBody seen =>
      if c =? c_rbr then
        if Nat.ltb seen 2 then Some (CBody (S seen), []) else Some (CBody 2, [c_rbr])
      else if (c =? c_gt) && Nat.eqb seen 2 then Some (COpen 0, [])
      else Some (CBody 0, rbrs seen ++ [c])
  end.

Fixpoint cdata_decode_go (s : str) (st : cstate) (closed : bool) : option str :=
  match s with
  | [] => match st with COpen O => if closed then Some [] else None | _ => None end
  | c :: s' =>
      match cdata_step st c with
      | None => None
      | Some (st', out) =>
          match cdata_decode_go s' st' (match st' with COpen O => true | _ => false end) with
          | None => None
          | Some r => Some (out ++ r)
          end
      end
  end.

Definition cdata_decode (s : str) : option str := cdata_decode_go s (COpen 0) false.

Lemma rbrs_app_assoc n (r : str) : rbrs n ++ c_rbr :: r = c_rbr :: rbrs n ++ r.
Proof. induction n as [|n IH]; cbn; [reflexivity|]. rewrite IH. reflexivity. Qed.

Lemma rbrs_plus a b (r : str) : rbrs (a + b) ++ r = rbrs a ++ rbrs b ++ r.
Proof. induction a as [|a IH]; cbn; [reflexivity|]. rewrite IH. reflexivity. Qed.

Lemma cdata_step_other seen c : (c =? c_rbr) = false -> (c =? c_gt) = false ->
  cdata_step (CBody seen) c = Some (CBody 0, rbrs seen ++ [c]).
Proof. intros E1 E3. unfold cdata_step. rewrite E1, E3. reflexivity. Qed.

Lemma cdata_step_rbr seen :
  cdata_step (CBody seen) c_rbr = if Nat.ltb seen 2 then Some (CBody (S seen), []) else Some (CBody 2, [c_rbr]).
Proof. reflexivity. Qed.

(* [k] = brackets the decoder holds back, [seen] = brackets the serialiser has read but not yet written *)
Theorem cdata_roundtrip_go s : forall k seen, (k <= 2)%nat -> (seen <= 2)%nat -> (k = 0 \/ seen = 2)%nat ->
  cdata_decode_go (serialize_cdata_go s seen) (CBody k) false = Some (rbrs (k + seen) ++ s).
Proof.
  induction s as [|c s IH]; intros k seen Hk Hs Hinv; cbn [serialize_cdata_go].
  - destruct k as [|[|[|]]]; try lia; destruct seen as [|[|[|]]]; try lia; cbn; reflexivity.
  - destruct (c =? c_rbr) eqn:E1.
    + apply N.eqb_eq in E1; subst c. destruct (Nat.ltb seen 2) eqn:E2.
      * apply PeanoNat.Nat.ltb_lt in E2. rewrite IH by lia.
        replace (k + S seen)%nat with (S (k + seen)) by lia. cbn [rbrs app]. rewrite rbrs_app_assoc. reflexivity.
      * apply PeanoNat.Nat.ltb_ge in E2. assert (seen = 2%nat) by lia. subst.
        destruct k as [|[|[|]]]; try lia; cbn [cdata_decode_go cdata_step]; change (c_rbr =? c_rbr) with true;
          cbn [Nat.ltb Nat.leb]; rewrite IH by lia; cbn; reflexivity.
    + destruct (c =? c_gt) eqn:E3.
      * apply N.eqb_eq in E3; subst c. destruct (Nat.eqb seen 2) eqn:E4.
        -- apply PeanoNat.Nat.eqb_eq in E4; subst.
           destruct k as [|[|[|]]]; try lia; cbn; rewrite IH by lia; cbn; reflexivity.
        -- apply PeanoNat.Nat.eqb_neq in E4.
           destruct k as [|[|[|]]]; try lia; destruct seen as [|[|[|]]]; try lia; cbn; rewrite IH by lia; cbn; reflexivity.
      * destruct (c =? c_cr) eqn:E5.
        -- apply N.eqb_eq in E5; subst c.
           destruct k as [|[|[|]]]; try lia; destruct seen as [|[|[|]]]; try lia; cbn; rewrite IH by lia; cbn; reflexivity.
        -- destruct k as [|[|[|]]]; try lia; destruct seen as [|[|[|]]]; try lia;
             cbn [rbrs app cdata_decode_go];
             repeat (rewrite cdata_step_rbr; cbn [Nat.ltb Nat.leb cdata_decode_go]);
             rewrite (cdata_step_other _ _ E1 E3); rewrite IH by lia; cbn; reflexivity.
Qed.

(* whatever the text — runs of ']' and '>', "]]>" itself — the sections decode to exactly the text *)
Theorem cdata_roundtrip s : cdata_decode (serialize_cdata s) = Some s.
Proof.
  unfold cdata_decode, serialize_cdata. cbn. rewrite (cdata_roundtrip_go s 0 0) by lia. reflexivity.
Qed.

(* ---------- what a spelling of character data denotes (XML 1.0 sections 2.11, 3.3.3, 4.1) ---------- *)

Lemma str_eqb_eq a : forall b, str_eqb a b = true -> a = b.
Proof.
  induction a as [|x a IH]; intros [|y b] H; cbn in H; try discriminate; [reflexivity|].
  apply andb_true_iff in H as [H1 H2]. apply N.eqb_eq in H1. subst. f_equal. apply IH. exact H2.
Qed.

(* the lexical items a run of character data or an attribute value is made of *)
Inductive item :=
| ILit (c : cp)                         (* a literal character other than '&' and CR *)
| ICR                                   (* a bare carriage return *)
| ICRLF                                 (* carriage return + line feed *)
| INamed (name : str) (c : cp)          (* &name; for one of the five predefined entities *)
| IRef (body : str) (c : cp).           (* &#body; a decimal or hexadecimal character reference *)

Definition item_text (it : item) : str :=
  match it with
  | ILit c => [c]
  | ICR => [c_cr]
  | ICRLF => [c_cr; c_lf]
  | INamed name _ => c_amp :: name ++ [c_semi]
  | IRef body _ => c_amp :: c_hash :: body ++ [c_semi]
  end.

(* the denotation: line ends become LF (text) or space (attribute value), literal TAB / LF in an attribute value become
   a space, references denote their character and are NOT normalised *)
Definition item_denote (attribute : bool) (it : item) : str :=
  match it with
  | ILit c => [if attribute && ((c =? c_tab) || (c =? c_lf)) then c_space else c]
  | ICR | ICRLF => [if attribute then c_space else c_lf]
  | INamed _ c | IRef _ c => [c]
  end.

Definition item_wf (it : item) : Prop :=
  match it with
  | ILit c => c <> c_amp /\ c <> c_cr
  | INamed name c => named_entity name = Some c
  | IRef body c => char_of_reference body = Some c /\ ~ In c_semi body
  | _ => True
  end.

(* a bare CR followed by a literal LF is the item CRLF, not two items *)
Fixpoint items_wf (l : list item) : Prop :=
  match l with
  | [] => True
  | it :: l' => item_wf it
                /\ (it = ICR -> match l' with ILit c :: _ => c <> c_lf | _ => True end)
                /\ items_wf l'
  end.

Definition items_text (l : list item) : str := concat (map item_text l).
Definition items_denote (attribute : bool) (l : list item) : str := concat (map (item_denote attribute) l).

Lemma named_entity_cases name c : named_entity name = Some c ->
  (name = [97; 109; 112] \/ name = [97; 112; 111; 115] \/ name = [103; 116] \/ name = [108; 116] \/ name = [113; 117; 111; 116]).
Proof.
  unfold named_entity. intros H.
  destruct (str_eqb name [97; 109; 112]) eqn:E1; [left; apply str_eqb_eq; exact E1|].
  destruct (str_eqb name [97; 112; 111; 115]) eqn:E2; [right; left; apply str_eqb_eq; exact E2|].
  destruct (str_eqb name [103; 116]) eqn:E3; [right; right; left; apply str_eqb_eq; exact E3|].
  destruct (str_eqb name [108; 116]) eqn:E4; [right; right; right; left; apply str_eqb_eq; exact E4|].
  destruct (str_eqb name [113; 117; 111; 116]) eqn:E5; [right; right; right; right; apply str_eqb_eq; exact E5|].
  discriminate.
Qed.

(* reading the body of a reference: characters are collected until the ';' *)
Lemma parse_go_entity_step attr base c s start acc pos : (c =? c_semi) = false ->
  parse_go attr base (c :: s) (PEntity start acc) pos = parse_go attr base s (PEntity start (acc ++ [c])) (pos + utf8_len c).
Proof.
  intros H. cbn [parse_go pstep]. rewrite H.
  match goal with |- match ?x with _ => _ end = ?y => change y with x; destruct x; reflexivity end.
Qed.

Lemma parse_go_collect attr base body : forall acc rest start pos, ~ In c_semi body ->
  exists pos', parse_go attr base (body ++ c_semi :: rest) (PEntity start acc) pos
               = parse_go attr base (c_semi :: rest) (PEntity start (acc ++ body)) pos'.
Proof.
  induction body as [|c body IH]; intros acc rest start pos Hn; cbn [app].
  - exists pos. rewrite app_nil_r. reflexivity.
  - assert (c <> c_semi) as Hc by (intros ->; apply Hn; left; reflexivity).
    assert (~ In c_semi body) as Hb by (intros H; apply Hn; right; exact H).
    destruct (IH (acc ++ [c]) rest start (pos + utf8_len c) Hb) as [pos' Hp].
    exists pos'. apply N.eqb_neq in Hc.
    eapply eq_trans; [apply parse_go_entity_step; exact Hc|].
    eapply eq_trans; [exact Hp|]. rewrite <- app_assoc. reflexivity.
Qed.

Lemma parse_go_amp attr base s pos :
  parse_go attr base (c_amp :: s) PNormal pos = parse_go attr base s (PEntity pos []) (pos + utf8_len c_amp).
Proof.
  cbn [parse_go pstep]. change (c_amp =? c_cr) with false. change (c_amp =? c_amp) with true. cbv iota.
  match goal with |- match ?x with _ => _ end = ?y => change y with x; destruct x; reflexivity end.
Qed.

Lemma parse_go_ref_end attr base rest start body ch pos : char_of_reference body = Some ch ->
  parse_go attr base (c_semi :: rest) (PEntity start (c_hash :: body)) pos
  = match parse_go attr base rest PNormal (pos + utf8_len c_semi) with inl e => inl e | inr r => inr (ch :: r) end.
Proof.
  intros H. cbn [parse_go pstep]. change (c_semi =? c_semi) with true. change (c_hash =? c_hash) with true. cbv iota.
  rewrite H. reflexivity.
Qed.

(* after a bare CR the state machine only differs for a following LF *)
Lemma parse_go_after_cr attr base s pos :
  match s with c :: _ => c <> c_lf | [] => True end ->
  parse_go attr base s PAfterCR pos = parse_go attr base s PNormal pos.
Proof.
  destruct s as [|c s]; [reflexivity|]. intros Hc. cbn [parse_go pstep].
  apply N.eqb_neq in Hc. rewrite Hc. reflexivity.
Qed.

Lemma item_text_head it l :
  item_wf it -> match item_text it ++ l with c :: _ => (it <> ILit c_lf -> c <> c_lf) | [] => True end.
Proof.
  destruct it as [c| | |name c|body c]; cbn; intros H; try (intros _; discriminate).
  intros Hn Hc. apply Hn. subst. reflexivity.
Qed.

Theorem parse_items attr base l : forall pos, items_wf l ->
  parse_go attr base (items_text l) PNormal pos = inr (items_denote attr l).
Proof.
  unfold items_text, items_denote.
  induction l as [|it l IH]; intros pos Hwf; [reflexivity|].
  destruct Hwf as (Hit & Hcr & Hl). cbn [map concat].
  destruct it as [c| | |name c|body c].
  - (* literal *)
    destruct Hit as [Ha Hc]. apply N.eqb_neq in Ha, Hc. cbn [item_text app parse_go pstep]. rewrite Hc, Ha.
    destruct (attr && ((c =? c_tab) || (c =? c_lf))) eqn:E; rewrite IH by exact Hl; cbn [item_denote]; rewrite E; reflexivity.
  - (* bare CR: the next item does not start with a literal LF *)
    cbn [item_text app parse_go pstep]. change (c_cr =? c_cr) with true. cbv iota.
    rewrite parse_go_after_cr.
    + rewrite IH by exact Hl. reflexivity.
    + specialize (Hcr eq_refl). destruct l as [|it2 l2]; [exact I|]. cbn [map concat].
      destruct it2 as [c2| | |n2 c2|b2 c2]; cbn; try discriminate. exact Hcr.
  - (* CR LF *)
    cbn [item_text app parse_go pstep]. change (c_cr =? c_cr) with true. cbv iota. cbn [parse_go pstep].
    change (c_lf =? c_lf) with true. cbv iota. rewrite IH by exact Hl. reflexivity.
  - (* predefined entity *)
    cbn [item_text app parse_go pstep]. change (c_amp =? c_cr) with false. change (c_amp =? c_amp) with true.
    cbn [item_wf] in Hit. destruct (named_entity_cases _ _ Hit) as [-> | [-> | [-> | [-> | ->]]]];
      cbn in Hit; inversion Hit; subst; cbn; rewrite IH by exact Hl; reflexivity.
  - (* character reference *)
    destruct Hit as [Hc Hn]. cbn [item_text app]. rewrite parse_go_amp.
    rewrite parse_go_entity_step by reflexivity. cbn [app]. rewrite <- app_assoc. cbn [app].
    destruct (parse_go_collect attr base body [c_hash] (concat (map item_text l)) pos (pos + utf8_len c_amp + utf8_len c_hash) Hn)
      as [pos' Hp].
    eapply eq_trans; [exact Hp|]. cbn [app]. rewrite (parse_go_ref_end _ _ _ _ _ _ _ Hc).
    rewrite IH by exact Hl. reflexivity.
Qed.

(* every well-formed spelling of character data / of an attribute value parses to what it denotes *)
Theorem parse_content_denotes attr base l : items_wf l ->
  parse_content attr base (items_text l) = inr (items_denote attr l).
Proof. apply parse_items. Qed.
