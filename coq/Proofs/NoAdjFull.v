(* NoAdjFull.v — C04, "as long as text consolidation has never been switched off, no two text nodes are adjacent", with no
   call left out: replace in every configuration (Proofs/ReplaceEffect.v and Proofs/ReplaceSeam.v), hence every call of the
   node-level API and every call built on it, along every history. *)
From Coq Require Import List NArith ZArith Bool Lia.
From XotV Require Import Model.Base Model.Zipper Model.Access Model.Store Model.Manip Model.Hist Spec.NoAdj
                         Proofs.InvProofs Proofs.InvSteps Proofs.InvOps Proofs.NoAdjOps Proofs.UnwrapEffect Proofs.ReplaceEffect
                         Proofs.Seams Proofs.ReplaceSeam Proofs.InvHist Proofs.InvApi Proofs.NoAdjApi.
Import ListNotations.
Open Scope N_scope.

Theorem noadj_m_replace st a b : Good st -> cons st = true -> noadj st -> noadj (fst (m_replace st a b)).
Proof.
  intros G Hc Hna. destruct (tprev st a && tnext st a) eqn:J; [|apply noadj_m_replace_partial; auto].
  destruct (opt_eqb (q_prev st a) (Some b)) eqn:E1.
  { apply noadj_m_replace_partial; auto. right. left. destruct (q_prev st a) as [x|]; [|discriminate]. cbn in E1. apply N.eqb_eq in E1. subst. reflexivity. }
  destruct (opt_eqb (q_next st a) (Some b)) eqn:E2.
  { apply noadj_m_replace_partial; auto. right. right. destruct (q_next st a) as [x|]; [|discriminate]. cbn in E2. apply N.eqb_eq in E2. subst. reflexivity. }
  apply noadj_m_replace_between; auto; apply opt_eqb_false_ne; assumption.
Qed.

(* the only call the clause excludes: switching consolidation off *)
Definition keeps_cons (o : mop) : bool := match o with OCons false => false | _ => true end.

Theorem noadj_mstep_full st o : Good st -> cons st = true -> noadj st -> keeps_cons o = true ->
  noadj (fst (mstep st o)) /\ cons (fst (mstep st o)) = true.
Proof.
  intros G Hc Hna Hp. destruct (plain_op2 o) eqn:E; [split; [apply noadj_mstep2|apply cons_mstep2]; assumption|].
  destruct o; try discriminate E.
  - cbn [mstep]. split; [apply noadj_m_replace; assumption|rewrite cons_m_replace; exact Hc].
  - destruct b; discriminate.
Qed.

Theorem noadj_history_full ops : forall st, Good st -> cons st = true -> noadj st -> forallb keeps_cons ops = true ->
  noadj (hfinal st ops) /\ cons (hfinal st ops) = true.
Proof.
  induction ops as [|o ops IH]; intros st G Hc Hna Hp; cbn [hfinal fold_left]; [auto|].
  cbn [forallb] in Hp. apply andb_true_iff in Hp as [Ho Hp]. destruct (noadj_mstep_full st o G Hc Hna Ho) as [N C].
  apply IH; [exact (ext_good _ _ (Ext_mstep st o G))|exact C|exact N|exact Hp].
Qed.

(* over every call the harness draws *)
Definition top_keeps_cons (o : top) : bool := match o with TH (HM o') => keeps_cons o' | _ => true end.

Theorem noadj_tstep_full nm t st o : Good st -> cons st = true -> noadj st -> top_keeps_cons o = true ->
  noadj (snd (fst (tstep nm (t, st) o))) /\ cons (snd (fst (tstep nm (t, st) o))) = true.
Proof.
  intros G Hc Hna Hp. destruct (plain_top o) eqn:E; [apply noadj_tstep; assumption|].
  destruct o as [[o'|n space]|n|n|n order]; try discriminate E. cbn [tstep hstep].
  cbn [top_keeps_cons] in Hp. destruct (noadj_mstep_full st o' G Hc Hna Hp) as [N C].
  destruct (mstep st o') as [st' out]. auto.
Qed.

Theorem noadj_tfinal_full nm ops : forall t st, Good st -> cons st = true -> noadj st -> forallb top_keeps_cons ops = true ->
  noadj (snd (tfinal nm (t, st) ops)) /\ cons (snd (tfinal nm (t, st) ops)) = true.
Proof.
  induction ops as [|o ops IH]; intros t st G Hc Hna Hp; cbn [tfinal fold_left]; [auto|].
  cbn [forallb] in Hp. apply andb_true_iff in Hp as [Ho Hp].
  pose proof (Ext_tstep nm t st o G) as X. destruct (noadj_tstep_full nm t st o G Hc Hna Ho) as [N C].
  destruct (fst (tstep nm (t, st) o)) as [t1 st1] eqn:E. cbn [snd] in *.
  apply IH; [apply X|exact C|exact N|exact Hp].
Qed.
