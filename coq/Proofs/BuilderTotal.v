(* BuilderTotal.v — C03, totality of xot's own parsing code: on every token stream with the shape the tokenizer
   guarantees (attributes and tag ends only inside a start tag), none of the unwrap / expect calls of src/parse.rs
   (DocumentBuilder, the span bookkeeping, the top-level checks) can fail: the result is a tree, a ParseError, or the panic
   of a full interning table (BFull, C08) — never BPanic. *)
From Coq Require Import List NArith ZArith Bool Lia.
From XotV Require Import Model.Base Model.Zipper Model.Interning Model.InternOps Model.Fullname Model.Entity Model.Builder
                         Proofs.ZipperProofs.
Import ListNotations.
Open Scope N_scope.

Section T.
  Variable bi : builtins.

  (* ---------- the span table only grows ---------- *)

  Definition has_span (m : spaninfo) (k : skey) : Prop := span_get m k <> None.

  Lemma skey_eqb_refl k : skey_eqb k k = true.
  Proof. destruct k; cbn; rewrite ?N.eqb_refl; reflexivity. Qed.

  Lemma has_span_add_same m k s : has_span (span_add m k s) k.
  Proof. unfold has_span, span_add. cbn. rewrite skey_eqb_refl. discriminate. Qed.

  Lemma has_span_add m k k' s : has_span m k -> has_span (span_add m k' s) k.
  Proof. unfold has_span, span_add. cbn. destruct (skey_eqb k' k); [discriminate|auto]. Qed.

  Lemma has_span_extend m n s k : has_span m k -> has_span (extend_text_span m n s) k.
  Proof. unfold extend_text_span. destruct (span_get m (KText n)); apply has_span_add. Qed.

  Lemma has_span_extend_same m n s : has_span (extend_text_span m n s) (KText n).
  Proof. unfold extend_text_span. destruct (span_get m (KText n)); apply has_span_add_same. Qed.

  (* ---------- the invariant of the builder ---------- *)

  (* the open nodes: elements above one document node *)
  Fixpoint stack_ok (s : list onode) : Prop :=
    match s with
    | [] => False
    | [d] => on_val d = VDocument
    | e :: s' => (exists n, on_val e = VElement n) /\ stack_ok s'
    end.

  (* every element and every text node among the children built so far has its span *)
  Fixpoint kids_spanned (m : spaninfo) (f : forest) : Prop :=
    match f with
    | FNil => True
    | FCons i v _ r =>
        match v with VElement _ => has_span m (KElStart i) | VText _ => has_span m (KText i) | _ => True end
        /\ kids_spanned m r
    end.

  Definition entry_ok (m : spaninfo) (e : onode) : Prop :=
    kids_spanned m (on_kids e) /\ (forall n, on_val e = VElement n -> has_span m (KElStart (on_slot e))).

  Definition BInv (st : bstate) : Prop := stack_ok (b_stack st) /\ Forall (entry_ok (b_spans st)) (b_stack st).

  Definition mono (m m' : spaninfo) : Prop := forall k, has_span m k -> has_span m' k.

  Lemma kids_spanned_mono m m' f : mono m m' -> kids_spanned m f -> kids_spanned m' f.
  Proof.
    intros Hm. induction f as [|i v k _ r IH]; cbn; [auto|]. intros [H1 H2]. split; [|auto].
    destruct v; auto.
  Qed.

  Lemma entry_ok_mono m m' e : mono m m' -> entry_ok m e -> entry_ok m' e.
  Proof. intros Hm [H1 H2]. split; [eapply kids_spanned_mono; eauto|intros n Hn; apply Hm; eauto]. Qed.

  Lemma Forall_entry_mono m m' s : mono m m' -> Forall (entry_ok m) s -> Forall (entry_ok m') s.
  Proof. intros Hm. apply Forall_impl. intros e. apply entry_ok_mono. exact Hm. Qed.

  Lemma mono_add m k s : mono m (span_add m k s).
  Proof. intros k' H. apply has_span_add. exact H. Qed.

  Lemma mono_extend m n s : mono m (extend_text_span m n s).
  Proof. intros k' H. apply has_span_extend. exact H. Qed.

  Lemma mono_refl m : mono m m. Proof. intros k H. exact H. Qed.
  Lemma mono_trans a b c : mono a b -> mono b c -> mono a c. Proof. intros H1 H2 k H. auto. Qed.

  Lemma kids_spanned_frev_app m a : forall b, kids_spanned m a -> kids_spanned m b -> kids_spanned m (frev_app a b).
  Proof. induction a as [|i v k _ r IH]; intros b; cbn; [auto|]. intros [H1 H2] Hb. apply IH; [exact H2|]. cbn. auto. Qed.

  Lemma kids_spanned_frev m a : kids_spanned m a -> kids_spanned m (frev a).
  Proof. intros H. apply kids_spanned_frev_app; [exact H|exact I]. Qed.

  (* ---------- the pieces of the builder ---------- *)

  (* ---------- outcomes that are not a panic of parse.rs ---------- *)

  Definition Rs {A} (Q : A -> Prop) (r : bres A) : Prop :=
    match r with BOk a => Q a | BPanic => False | BErr _ | BFull => True end.

  Lemma Rs_bind {A B} (Q : A -> Prop) (P : B -> Prop) (x : bres A) (f : A -> bres B) :
    Rs Q x -> (forall a, Q a -> Rs P (f a)) -> Rs P (bbind x f).
  Proof. destruct x; cbn; auto; intros []. Qed.

  Lemma Rs_weaken {A} (Q Q' : A -> Prop) r : Rs Q r -> (forall a, Q a -> Q' a) -> Rs Q' r.
  Proof. destruct r; cbn; auto. Qed.

  Lemma Rs_of_res {A} (r : res A) : Rs (fun _ => True) (of_res r).
  Proof. destruct r; exact I. Qed.

  Lemma Rs_of_entity {A} (r : sum perr A) : Rs (fun _ => True) (of_entity r).
  Proof. destruct r as [[]|]; exact I. Qed.

  (* what the name lookups leave alone *)
  Definition same_core (st st1 : bstate) : Prop :=
    b_stack st1 = b_stack st /\ b_spans st1 = b_spans st /\ b_eb st1 = b_eb st.

  Lemma same_core_inv st st1 : same_core st st1 -> BInv st -> BInv st1.
  Proof. intros (H1 & H2 & _) [Ha Hb]. unfold BInv. rewrite H1, H2. auto. Qed.

  Lemma element_name_id_spec st p n sp : Rs (fun r => same_core st (fst r)) (element_name_id st p n sp).
  Proof.
    unfold element_name_id. eapply Rs_bind; [apply Rs_of_res|]. intros [pid t1] _.
    destruct (lookup_stack pid (b_nsstack st)); [|exact I].
    eapply Rs_bind; [apply Rs_of_res|]. intros [nid t2] _. cbn. repeat split.
  Qed.

  Lemma attribute_name_id_spec st p n sp : Rs (fun r => same_core st (fst r)) (attribute_name_id bi st p n sp).
  Proof.
    unfold attribute_name_id. eapply Rs_bind; [apply Rs_of_res|]. intros [pid t1] _.
    destruct (N.eqb pid (b_empty_prefix bi)).
    - eapply Rs_bind; [apply Rs_of_res|]. intros [nid t2] _. cbn. repeat split.
    - destruct (lookup_stack pid (b_nsstack st)); [|exact I].
      eapply Rs_bind; [apply Rs_of_res|]. intros [nid t2] _. cbn. repeat split.
  Qed.

  Definition in_tag (st : bstate) : Prop := b_eb st <> None.

  Lemma builder_prefix_spec st p u sp : in_tag st ->
    Rs (fun st1 => b_stack st1 = b_stack st /\ b_spans st1 = b_spans st /\ in_tag st1) (builder_prefix st p u sp).
  Proof.
    intros Hin. unfold builder_prefix. eapply Rs_bind; [apply Rs_of_res|]. intros [pid t1] _.
    eapply Rs_bind; [apply Rs_of_res|]. intros [nsid t2] _.
    destruct (b_eb st) as [eb|] eqn:E; [|exfalso; apply Hin; exact E].
    destruct (has_prefix pid (eb_ns eb)); [exact I|]. cbn. repeat split. discriminate.
  Qed.

  Lemma builder_attribute_spec st p l v : in_tag st ->
    Rs (fun st1 => b_stack st1 = b_stack st /\ b_spans st1 = b_spans st /\ in_tag st1) (builder_attribute st p l v).
  Proof.
    intros Hin. unfold builder_attribute. destruct (b_eb st) as [eb|] eqn:E; [|exfalso; apply Hin; exact E].
    destruct (existsb _ _); [exact I|]. eapply Rs_bind; [unfold parse_attr_value; apply Rs_of_entity|]. intros val _.
    cbn. repeat split. discriminate.
  Qed.

  (* nodes that need no span: comments, PIs, attribute and namespace nodes *)
  Definition spanless (v : value) : Prop := match v with VElement _ | VText _ | VDocument => False | _ => True end.

  (* the invariant while a start tag is being opened: the new element is on the stack, its start span comes last *)
  Definition top_ok (m : spaninfo) (s : list onode) : Prop :=
    match s with e :: rest => kids_spanned m (on_kids e) /\ Forall (entry_ok m) rest | [] => False end.
  Definition BInvW (st : bstate) : Prop := stack_ok (b_stack st) /\ top_ok (b_spans st) (b_stack st).

  Lemma BInv_W st : BInv st -> BInvW st.
  Proof.
    intros [Hs Hf]. split; [exact Hs|]. destruct (b_stack st) as [|e rest]; [destruct Hs|]. inversion Hf; subst. split; [apply H1|assumption].
  Qed.

  Lemma BInvW_strong st : BInvW st -> (forall e rest n, b_stack st = e :: rest -> on_val e = VElement n -> has_span (b_spans st) (KElStart (on_slot e))) -> BInv st.
  Proof.
    intros [Hs Ht] Hk. split; [exact Hs|]. destruct (b_stack st) as [|e rest]; [destruct Hs|]. destruct Ht as [H1 H2].
    constructor; [|exact H2]. split; [exact H1|]. intros n Hn. eapply Hk; eauto.
  Qed.

  Definition same_top (st st1 : bstate) : Prop :=
    forall e rest, b_stack st = e :: rest -> exists e', b_stack st1 = e' :: rest /\ on_val e' = on_val e /\ on_slot e' = on_slot e.

  Lemma add_node_spec st v : BInvW st -> spanless v ->
    Rs (fun r => BInvW (fst r) /\ b_spans (fst r) = b_spans st /\ b_eb (fst r) = b_eb st /\ same_top st (fst r)) (add_node st v).
  Proof.
    intros [Hs Ht] Hv. unfold add_node. destruct (b_stack st) as [|cur rest] eqn:E; [destruct Hs|].
    cbn. split; [|split; [reflexivity|split; [reflexivity|]]].
    - split.
      + cbn. destruct rest; cbn in *; exact Hs.
      + cbn. destruct Ht as [H1 H2]. split; [|exact H2]. split; [destruct v; auto; contradiction|exact H1].
    - intros e r0 He. rewrite E in He. inversion He; subst. eexists. split; [reflexivity|]. cbn. auto.
  Qed.

  Lemma same_top_trans a b c : same_top a b -> same_top b c -> same_top a c.
  Proof.
    intros H1 H2 e rest He. destruct (H1 _ _ He) as (e1 & He1 & Hv1 & Hs1). destruct (H2 _ _ He1) as (e2 & He2 & Hv2 & Hs2).
    exists e2. split; [exact He2|]. split; congruence.
  Qed.

  Lemma add_namespace_nodes_spec d : forall st, BInvW st ->
    Rs (fun st1 => BInvW st1 /\ b_spans st1 = b_spans st /\ b_eb st1 = b_eb st /\ same_top st st1) (add_namespace_nodes st d).
  Proof.
    induction d as [|[p ns] d IH]; intros st G; cbn [add_namespace_nodes].
    - cbn. repeat split; auto; try apply G. intros e rest H. eauto.
    - eapply Rs_bind; [apply (add_node_spec st (VNamespace p ns) G I)|]. intros [st1 n] (G1 & Hsp & Heb & Hst). cbn [fst] in *.
      eapply Rs_weaken; [apply (IH st1 G1)|]. intros st2 (G2 & Hsp2 & Heb2 & Hst2).
      split; [exact G2|]. split; [congruence|]. split; [congruence|]. eapply same_top_trans; eauto.
  Qed.

  Lemma same_core_invW st st1 : same_core st st1 -> BInvW st -> BInvW st1.
  Proof. intros (H1 & H2 & _) [Ha Hb]. unfold BInvW. rewrite H1, H2. auto. Qed.

  Lemma open_attributes_spec l : forall st node done, BInvW st ->
    Rs (fun r => BInvW (fst r) /\ b_spans (fst r) = b_spans st /\ b_eb (fst r) = b_eb st /\ same_top st (fst r))
       (open_attributes bi st node l done).
  Proof.
    induction l as [|a l IH]; intros st node done G; cbn [open_attributes].
    - cbn. repeat split; auto; try apply G. intros e rest H. eauto.
    - eapply Rs_bind; [apply attribute_name_id_spec|]. intros [st1 nid] Hc. cbn [fst] in Hc.
      pose proof (same_core_invW _ _ Hc G) as G1. destruct Hc as (Hc1 & Hc2 & Hc3).
      match goal with |- Rs _ (if ?c then _ else _) => destruct c end; [exact I|].
      match goal with |- Rs _ (bbind ?mid _) =>
        assert (Rs (fun st2 => b_stack st2 = b_stack st1 /\ b_spans st2 = b_spans st1 /\ b_eb st2 = b_eb st1) mid) as Hmid end.
      { destruct (N.eqb nid (b_xml_id bi)); [|cbn; auto]. match goal with |- Rs _ (if ?c then _ else _) => destruct c end; cbn; auto. }
      eapply Rs_bind; [exact Hmid|]. intros st2 (H1 & H2 & H3).
      assert (BInvW st2) as G2 by (destruct G1 as [Ga Gb]; unfold BInvW; rewrite H1, H2; auto).
      eapply Rs_bind; [apply (add_node_spec st2 (VAttribute nid (ab_value a)) G2 I)|]. intros [st3 n3] (G3 & Hsp3 & Heb3 & Hst3). cbn [fst] in *.
      eapply Rs_weaken; [apply (IH st3 node _ G3)|]. intros r (G4 & Hsp4 & Heb4 & Hst4).
      split; [exact G4|]. split; [congruence|]. split; [congruence|].
      eapply same_top_trans; [|exact Hst4]. intros e rest He. rewrite <- Hc1, <- H1 in He. exact (Hst3 _ _ He).
  Qed.

  Lemma mono_fold_spans (l : list (nameid * span * span)) node : forall m,
    mono m (fold_left (fun m x => let '(a, ns, vs) := x in span_add (span_add m (KAttrName node a) ns) (KAttrValue node a) vs) l m).
  Proof.
    induction l as [|[[a ns] vs] l IH]; intros m; cbn [fold_left]; [apply mono_refl|].
    eapply mono_trans; [|apply IH]. eapply mono_trans; apply mono_add.
  Qed.

  Lemma BInvW_mono st m' : BInvW st -> mono (b_spans st) m' -> BInvW (with_spans st m').
  Proof.
    intros [Hs Ht] Hm. split; [exact Hs|]. cbn. destruct (b_stack st) as [|e rest]; [destruct Hs|]. destruct Ht as [H1 H2].
    split; [eapply kids_spanned_mono; eauto|eapply Forall_entry_mono; eauto].
  Qed.

  Lemma BInv_mono st m' : BInv st -> mono (b_spans st) m' -> BInv (with_spans st m').
  Proof. intros [Hs Hf] Hm. split; [exact Hs|]. cbn. eapply Forall_entry_mono; eauto. Qed.

  (* open_element: the new element is the current node, it has its start span, and we are out of the tag *)
  Lemma open_element_spec st : BInv st -> in_tag st ->
    Rs (fun r => BInv (fst r) /\ b_eb (fst r) = None
                 /\ exists e rest n, b_stack (fst r) = e :: rest /\ on_val e = VElement n /\ on_slot e = snd r /\ rest <> []) (open_element bi st).
  Proof.
    intros G Hin. unfold open_element. destruct (b_eb st) as [eb|] eqn:E; [|exfalso; apply Hin; exact E].
    match goal with |- Rs _ (bbind (element_name_id ?s0 _ _ _) _) => set (st0 := s0) end.
    assert (BInv st0) as G0 by exact G.
    eapply Rs_bind; [apply element_name_id_spec|]. intros [st1 nid] Hc. cbn [fst] in Hc.
    pose proof (same_core_inv _ _ Hc G0) as G1. destruct Hc as (Hc1 & Hc2 & Hc3).
    match goal with |- Rs _ (bbind (add_namespace_nodes ?s2 _) _) => set (st2 := s2) end.
    assert (BInvW st2) as G2.
    { destruct G1 as [Gs Gf]. split.
      - cbn. destruct (b_stack st1) eqn:Es; [destruct Gs|]. split; [eauto|exact Gs].
      - cbn. split; [exact I|exact Gf]. }
    eapply Rs_bind; [apply (add_namespace_nodes_spec _ st2 G2)|]. intros st3 (G3 & Hsp3 & Heb3 & Hst3).
    eapply Rs_bind; [apply (open_attributes_spec _ st3 _ [] G3)|]. intros [st4 aspans] (G4 & Hsp4 & Heb4 & Hst4). cbn [fst] in *.
    pose proof (same_top_trans _ _ _ Hst3 Hst4) as Hst24.
    destruct (Hst24 _ _ eq_refl) as (e4 & He4 & Hv4 & Hs4). cbn in Hv4, Hs4.
    cbn [fst snd]. split; [|split].
    - apply BInvW_strong.
      + apply BInvW_mono; [exact G4|]. eapply mono_trans; [apply mono_add|apply mono_fold_spans].
      + intros e rest n He Hn. unfold with_spans in He; cbn [b_stack] in He. rewrite He4 in He. inversion He; subst e rest.
        unfold with_spans; cbn [b_spans]. apply mono_fold_spans. rewrite Hs4. apply has_span_add_same.
    - cbn. rewrite Heb4, Heb3. reflexivity.
    - exists e4, (b_stack st1), nid. cbn [b_stack with_spans]. split; [exact He4|]. split; [exact Hv4|]. split; [exact Hs4|].
      destruct G1 as [Gs _]. destruct (b_stack st1); [destruct Gs|discriminate].
  Qed.

  (* ---------- closing a node ---------- *)

  Lemma BInv_same st st1 : b_stack st1 = b_stack st -> b_spans st1 = b_spans st -> BInv st -> BInv st1.
  Proof. intros H1 H2 [Ha Hb]. unfold BInv. rewrite H1, H2. auto. Qed.

  Lemma pop_node_spec st b n : BInv st -> (exists e rest, b_stack st = e :: rest /\ on_val e = VElement n /\ rest <> []) ->
    Rs (fun r => BInv (fst r) /\ b_eb (fst r) = b_eb st /\ b_spans (fst r) = b_spans st) (pop_node st b).
  Proof.
    intros [Hs Hf] (e & rest & He & Hv & Hr). unfold pop_node. rewrite He in *. destruct rest as [|par rest]; [congruence|].
    cbn. split; [|split; reflexivity]. inversion Hf as [|? ? Ee Hf1]; subst. inversion Hf1 as [|? ? Ep Hf2]; subst.
    split.
    - cbn. destruct Hs as [_ Hs]. destruct rest; exact Hs.
    - cbn. constructor; [|exact Hf2]. destruct Ee as [Ek Es]. destruct Ep as [Pk Ps]. split; cbn.
      + split; [|exact Pk]. rewrite Hv. eapply Es; eauto.
      + exact Ps.
  Qed.

  Lemma close_element_spec st p l : BInv st ->
    Rs (fun r => BInv (fst r) /\ b_eb (fst r) = b_eb st /\ b_spans (fst r) = b_spans st) (close_element st p l).
  Proof.
    intros G. unfold close_element. eapply Rs_bind; [apply element_name_id_spec|]. intros [st1 nid] Hc. cbn [fst] in Hc.
    pose proof (same_core_inv _ _ Hc G) as G1. destruct Hc as (Hc1 & Hc2 & Hc3).
    unfold current_is_element. destruct (b_stack st1) as [|cur rest] eqn:E; [exact I|].
    destruct (on_val cur) as [| n | | | | |] eqn:Ev; try exact I.
    match goal with |- Rs _ (if ?c then _ else _) => destruct c end; [|exact I].
    eapply Rs_weaken; [apply (pop_node_spec st1 true n G1)|].
    - exists cur, rest. split; [exact E|]. split; [exact Ev|]. destruct G1 as [Gs _]. rewrite E in Gs. destruct rest; [cbn in Gs; congruence|discriminate].
    - intros r (H1 & H2 & H3). split; [exact H1|]. split; congruence.
  Qed.

  Lemma close_element_immediate_spec st : BInv st -> (exists e rest n, b_stack st = e :: rest /\ on_val e = VElement n /\ rest <> []) ->
    Rs (fun r => BInv (fst r) /\ b_eb (fst r) = b_eb st /\ b_spans (fst r) = b_spans st) (close_element_immediate st).
  Proof.
    intros G (e & rest & n & He & Hv & Hr). unfold close_element_immediate. eapply (pop_node_spec st _ n G). eauto.
  Qed.

  (* ---------- adding a node below the current one ---------- *)

  Definition span_for (m : spaninfo) (v : value) (n : N) : Prop :=
    match v with VElement _ => has_span m (KElStart n) | VText _ => has_span m (KText n) | _ => True end.

  Lemma add_node_gen st v m' : BInv st -> mono (b_spans st) m' -> span_for m' v (b_next st) ->
    exists st1, add_node st v = BOk (st1, b_next st) /\ BInv (with_spans st1 m') /\ b_eb st1 = b_eb st /\ b_spans st1 = b_spans st.
  Proof.
    intros [Hs Hf] Hm Hv. unfold add_node. destruct (b_stack st) as [|cur rest] eqn:E; [destruct Hs|].
    eexists. split; [reflexivity|]. split; [|split; reflexivity]. split.
    - cbn. destruct rest; cbn in *; exact Hs.
    - cbn. inversion Hf as [|? ? Ec Hr]; subst. constructor; [|eapply Forall_entry_mono; eauto].
      destruct Ec as [Ck Cs]. split; cbn.
      + split; [exact Hv|eapply kids_spanned_mono; eauto].
      + intros n Hn. apply Hm. eauto.
  Qed.

  Lemma BInv_unspan st m : BInv (with_spans st m) -> b_spans st = m -> BInv st.
  Proof. intros [Ha Hb] E. split; [exact Ha|]. unfold with_spans in Hb; cbn [b_spans b_stack] in Hb. rewrite E. exact Hb. Qed.

  Lemma add_text_spec st content s : BInv st ->
    Rs (fun r => BInv (with_spans (fst r) (extend_text_span (b_spans (fst r)) (snd r) s)) /\ b_eb (fst r) = b_eb st) (add_text st content).
  Proof.
    intros G. unfold add_text. destruct (b_stack st) as [|cur rest] eqn:E; [destruct G as [Hs _]; rewrite E in Hs; destruct Hs|].
    assert (Rs (fun r => BInv (with_spans (fst r) (extend_text_span (b_spans (fst r)) (snd r) s)) /\ b_eb (fst r) = b_eb st)
               (add_node st (VText content))) as Hadd.
    { destruct (add_node_gen st (VText content) (extend_text_span (b_spans st) (b_next st) s) G (mono_extend _ _ _)
                  (has_span_extend_same _ _ _)) as (st1 & H1 & H2 & H3 & H4).
      rewrite H1. cbn. rewrite H4. auto. }
    destruct (on_kids cur) as [|i v k r] eqn:Ek; [exact Hadd|]. destruct v; try exact Hadd.
    cbn. split; [|reflexivity]. destruct G as [Hs Hf]. rewrite E in Hs, Hf. inversion Hf as [|? ? Ec Hr]; subst.
    split.
    - cbn. destruct rest; cbn in *; exact Hs.
    - cbn. constructor; [|eapply Forall_entry_mono; [apply mono_extend|exact Hr]].
      destruct Ec as [Ck Cs]. rewrite Ek in Ck. destruct Ck as [C1 C2]. split; cbn.
      + split; [apply has_span_extend_same|eapply kids_spanned_mono; [apply mono_extend|exact C2]].
      + intros n Hn. apply has_span_extend. eauto.
  Qed.

  (* ---------- one token ---------- *)

  Definition J (intag : bool) (st : bstate) : Prop := BInv st /\ (if intag then in_tag st else b_eb st = None).

  Definition next_intag (intag : bool) (t : ptoken) : bool :=
    match t with
    | TkElementStart _ _ | TkAttribute _ _ _ => true
    | _ => false
    end.

  Definition token_ok (intag : bool) (t : ptoken) : bool :=
    match t with
    | TkError _ => true
    | TkElementStart _ _ => negb intag
    | TkAttribute _ _ _ | TkEndOpen _ | TkEndEmpty _ => intag
    | _ => negb intag
    end.

  Lemma BInv_with_spans st m' : BInv st -> mono (b_spans st) m' -> BInv (with_spans st m').
  Proof. apply BInv_mono. Qed.

  Lemma bstep_spec intag st t : J intag st -> token_ok intag t = true -> Rs (J (next_intag intag t)) (bstep bi st t).
  Proof.
    intros [G Hi] Hok. destruct t; cbn [bstep next_intag token_ok] in *.
    - (* Decl *) destruct intag; [discriminate|]. destruct (str_eqb _ _); [|exact I].
      destruct encoding as [e|]; [destruct (valid_encname _); [|exact I]|]; cbn; split; assumption.
    - (* PI *) destruct intag; [discriminate|].
      destruct (reserved_target (ss_text target)).
      { (* the XML declaration in its other spelling, or the reserved target: the state stays, or an error *)
        match goal with |- Rs _ (match ?x with Some _ => _ | None => _ end) => destruct x as [v|] end; [|exact I].
        destruct (str_eqb _ _); [|exact I]. cbn. split; assumption. }
      match goal with |- Rs _ (if ?c then _ else _) => destruct c end; [exact I|].
      match goal with |- Rs _ (if ?c then _ else _) => destruct c end; [exact I|].
      eapply Rs_bind; [apply Rs_of_res|]. intros [tid t1] _.
      assert (BInv (with_tabs st t1)) as G1 by (eapply BInv_same; [| |exact G]; reflexivity).
      match goal with |- Rs _ (bbind (add_node ?s ?v) _) =>
        destruct (add_node_gen s v (b_spans s) G1 (mono_refl _) I) as (st1 & H1 & H2 & H3 & H4); rewrite H1 end.
      cbn [bbind]. cbn. split.
      + assert (BInv st1) as G2 by (eapply BInv_unspan; [exact H2|exact H4]).
        apply BInv_mono; [exact G2|]. destruct content; [eapply mono_trans|]; apply mono_add.
      + unfold with_spans; cbn [b_eb]. rewrite H3. exact Hi.
    - (* Comment *) destruct intag; [discriminate|].
      destruct (add_node_gen st (VComment (normalize_line_ends (ss_text text))) (b_spans st) G (mono_refl _) I) as (st1 & H1 & H2 & H3 & H4); rewrite H1.
      cbn. split.
      + assert (BInv st1) as G2 by (eapply BInv_unspan; [exact H2|exact H4]).
        apply BInv_mono; [exact G2|apply mono_add].
      + unfold with_spans; cbn [b_eb]. rewrite H3. exact Hi.
    - (* Dtd *) exact I.
    - (* ElementStart *) destruct intag; [discriminate|]. destruct (leading_colon _ _); [exact I|]. cbn. split; [eapply BInv_same; [| |exact G]; reflexivity|]. unfold in_tag. cbn. discriminate.
    - (* Attribute *) destruct intag; [|discriminate]. destruct (leading_colon _ _); [exact I|].
      assert (forall r, Rs (fun st1 => b_stack st1 = b_stack st /\ b_spans st1 = b_spans st /\ in_tag st1) r -> Rs (J true) r) as K.
      { intros r Hr. eapply Rs_weaken; [exact Hr|]. intros st1 (H1 & H2 & H3). split; [eapply BInv_same; eauto|exact H3]. }
      destruct (str_eqb (ss_text prefix) s_xmlns).
      + eapply Rs_bind; [unfold parse_attr_value; apply Rs_of_entity|]. intros uri _. destruct uri; [exact I|]. apply K. apply builder_prefix_spec. exact Hi.
      + destruct (str_eqb (ss_text prefix) [] && str_eqb (ss_text local) s_xmlns).
        * eapply Rs_bind; [unfold parse_attr_value; apply Rs_of_entity|]. intros uri _. apply K. apply builder_prefix_spec. exact Hi.
        * apply K. apply builder_attribute_spec. exact Hi.
    - (* EndOpen *) destruct intag; [|discriminate].
      eapply Rs_bind; [apply (open_element_spec st G Hi)|]. intros [st1 n] (G1 & He & _). cbn. split; assumption.
    - (* EndClose *) destruct intag; [discriminate|]. destruct (leading_colon _ _); [exact I|].
      eapply Rs_bind; [apply (close_element_spec st prefix local G)|]. intros [st1 n] (G1 & He & Hsp). cbn [fst] in *.
      cbn. split; [apply BInv_mono; [exact G1|apply mono_add]|unfold with_spans; cbn [b_eb]; congruence].
    - (* EndEmpty *) destruct intag; [|discriminate].
      eapply Rs_bind; [apply (open_element_spec st G Hi)|]. intros [st1 n] (G1 & He & Htop). cbn [fst snd] in *.
      eapply Rs_bind; [apply (close_element_immediate_spec st1 G1)|].
      { destruct Htop as (e & rest & nm & H1 & H2 & _ & H4). exists e, rest, nm. auto. }
      intros [st2 n2] (G2 & He2 & Hsp2). cbn [fst] in *.
      cbn. split; [apply BInv_mono; [exact G2|apply mono_add]|unfold with_spans; cbn [b_eb]; congruence].
    - (* Text *) destruct intag; [discriminate|].
      eapply Rs_bind; [unfold parse_text_value; apply Rs_of_entity|]. intros content _.
      eapply Rs_bind; [apply (add_text_spec st content (ss_span text) G)|]. intros [st1 n] (G1 & He). cbn [fst snd] in *.
      cbn. split; [exact G1|unfold with_spans; cbn [b_eb]; congruence].
    - (* Cdata *) destruct intag; [discriminate|]. destruct (ss_text text) eqn:Et; [cbn; split; assumption|].
      eapply Rs_bind; [apply (add_text_spec st _ (ss_span text) G)|]. intros [st1 n] (G1 & He). cbn [fst snd] in *.
      cbn. split; [exact G1|unfold with_spans; cbn [b_eb]; congruence].
    - (* Error *) exact I.
  Qed.

  Lemma stream_shape_cons intag t ts : stream_shape intag (t :: ts) = true ->
    token_ok intag t = true /\ (match t with TkError _ => True | _ => stream_shape (next_intag intag t) ts = true end).
  Proof. destruct t; cbn; intros H; try (apply andb_prop in H; destruct H as [H1 H2]; auto); auto. Qed.

  Lemma brun_total ts : forall intag st, J intag st -> stream_shape intag ts = true -> Rs BInv (brun bi st ts).
  Proof.
    induction ts as [|t ts IH]; intros intag st Hj Hs; cbn [brun]; [exact (proj1 Hj)|].
    apply stream_shape_cons in Hs. destruct Hs as [Hok Hrest].
    destruct (match t with TkError _ => true | _ => false end) eqn:Et.
    - destruct t; try discriminate. exact I.
    - eapply Rs_bind; [apply (bstep_spec intag st t Hj Hok)|]. intros st1 Hj1.
      eapply IH; [exact Hj1|]. destruct t; try exact Hrest; discriminate.
  Qed.

  (* ---------- the entry points ---------- *)

  Lemma J_new t next : J false (builder_new bi t next).
  Proof.
    split; [|reflexivity]. split; cbn; [reflexivity|]. constructor; [|constructor]. split; cbn; [exact I|discriminate].
  Qed.

  Lemma top_level_check_spec st : forall kids acc, kids_spanned (b_spans st) kids ->
    Forall (fun i => has_span (b_spans st) (KElStart i)) acc ->
    Rs (Forall (fun i => has_span (b_spans st) (KElStart i))) (top_level_check st kids acc).
  Proof.
    induction kids as [|i v k _ r IH]; intros acc Hk Ha; cbn [top_level_check]; [exact Ha|].
    destruct Hk as [H1 H2]. destruct v; try (apply IH; assumption).
    - apply IH; [exact H2|]. apply Forall_app. split; [exact Ha|]. constructor; [exact H1|constructor].
    - destruct (span_get (b_spans st) (KText i)) eqn:E; [exact I|]. apply H1. exact E.
  Qed.

  Lemma unclosed_spec st : BInv st -> (forall d, b_stack st <> [d]) -> Rs (fun _ => True) (unclosed st).
  Proof.
    intros [Hs Hf] Hn. unfold unclosed. destruct (b_stack st) as [|cur rest] eqn:E; [destruct Hs|].
    destruct rest as [|par rest]; [exfalso; eapply Hn; reflexivity|].
    destruct Hs as [[n Hv] _]. inversion Hf as [|? ? [_ Hc] _]; subst.
    destruct (span_get (b_spans st) (KElStart (on_slot cur))) eqn:Es; [exact I|]. eapply Hc; eauto.
  Qed.

  Lemma J_new_at d t next : J false (with_dstart (builder_new bi t next) d).
  Proof.
    split; [|reflexivity]. split; cbn; [reflexivity|]. constructor; [|constructor]. split; cbn; [exact I|discriminate].
  Qed.

  Lemma parse_document_at_total bom t next srclen ts : stream_shape false ts = true ->
    Rs (fun _ => True) (parse_document_at bi bom t next srclen ts).
  Proof.
    intros Hs. unfold parse_document_at. eapply Rs_bind; [apply (brun_total ts false _ (J_new_at _ t next) Hs)|]. intros st0 G0.
    unfold bfinish. destruct (b_eb st0); [exact I|]. cbn [bbind]. revert G0. generalize st0. intros st G.
    destruct (b_stack st) as [|doc rest] eqn:E.
    - apply unclosed_spec; [exact G|]. rewrite E. discriminate.
    - destruct rest as [|x rest].
      + destruct G as [Hst Hf]. rewrite E in Hf. inversion Hf as [|? ? [Hk _] _]; subst.
        eapply Rs_bind; [apply (top_level_check_spec st _ [] (kids_spanned_frev _ _ Hk) (Forall_nil _))|]. intros els Hels.
        destruct els as [|a [|b els]]; try exact I.
        inversion Hels as [|? ? _ Hb]; subst. inversion Hb as [|? ? Hb1 _]; subst.
        destruct (span_get (b_spans st) (KElStart b)) eqn:Es; [exact I|]. apply Hb1. exact Es.
      + apply unclosed_spec; [exact G|]. rewrite E. discriminate.
  Qed.

  Lemma parse_document_total t next srclen ts : stream_shape false ts = true ->
    Rs (fun _ => True) (parse_document bi t next srclen ts).
  Proof. apply parse_document_at_total. Qed.

  Lemma parse_fragment_total t next ts : stream_shape false ts = true ->
    Rs (fun _ => True) (parse_fragment bi t next ts).
  Proof.
    intros Hs. unfold parse_fragment. eapply Rs_bind; [apply (brun_total ts false _ (J_new t next) Hs)|]. intros st0 G0.
    unfold bfinish. destruct (b_eb st0); [exact I|]. cbn [bbind]. revert G0. generalize st0. intros st G.
    destruct (b_stack st) as [|doc rest] eqn:E.
    - apply unclosed_spec; [exact G|]. rewrite E. discriminate.
    - destruct rest as [|x rest]; [exact I|]. apply unclosed_spec; [exact G|]. rewrite E. discriminate.
  Qed.

  Theorem parse_document_at_never_panics bom t next srclen ts : stream_shape false ts = true ->
    parse_document_at bi bom t next srclen ts <> BPanic.
  Proof. intros Hs E. pose proof (parse_document_at_total bom t next srclen ts Hs) as H. rewrite E in H. exact H. Qed.

  Theorem parse_document_never_panics t next srclen ts : stream_shape false ts = true ->
    parse_document bi t next srclen ts <> BPanic.
  Proof. apply parse_document_at_never_panics. Qed.

  Theorem parse_fragment_never_panics t next ts : stream_shape false ts = true ->
    parse_fragment bi t next ts <> BPanic.
  Proof. intros Hs E. pose proof (parse_fragment_total t next ts Hs) as H. rewrite E in H. exact H. Qed.
End T.
