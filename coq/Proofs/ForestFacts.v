(* ForestFacts.v — structural facts about forests used by the invariant proofs of C04:
   where a slot sits (path_in, subtree_ids, find), how the cursor-based queries of Model/Store.v read them
   (q_ancestors, q_parent), and how the surgery primitives move slots around. *)
From Coq Require Import List NArith ZArith Bool Lia Permutation.
From XotV Require Import Model.Base Model.Zipper Model.Access Model.Store Model.Manip Spec.DocOrder Spec.Paths
                         Proofs.PermTac Proofs.ZipperProofs Proofs.AccessProofs Proofs.StoreProofs.
Import ListNotations.
Open Scope N_scope.

(* ---------- path_in / find: defined exactly on the slots of the forest ---------- *)

Lemma path_in_none n f : path_in n f = None <-> ~ In n (ids f).
Proof.
  induction f as [|i v k IHk r IHr]; cbn; [tauto|].
  destruct (N.eqb_spec i n) as [->|Hne].
  - split; [discriminate|]. intros H. exfalso. apply H. left. reflexivity.
  - destruct (path_in n k) as [l|] eqn:Ek.
    + split; [discriminate|]. intros H. exfalso. apply H. right. apply in_or_app. left.
      destruct (in_dec N.eq_dec n (ids k)) as [Hin|Hnin]; [exact Hin|]. apply IHk in Hnin. discriminate.
    + rewrite IHr. split.
      * intros Hr [H|H]; [contradiction|]. apply in_app_or in H as [H|H]; [|contradiction].
        assert (~ In n (ids k)) by (apply IHk; reflexivity). contradiction.
      * intros H Hin. apply H. right. apply in_or_app. right. exact Hin.
Qed.

Lemma path_in_some n f : In n (ids f) -> exists l, path_in n f = Some l.
Proof.
  intros Hin. destruct (path_in n f) as [l|] eqn:E; [eauto|]. apply path_in_none in E. contradiction.
Qed.

Lemma path_in_in n f l : path_in n f = Some l -> In n (ids f).
Proof.
  intros H. destruct (in_dec N.eq_dec n (ids f)) as [Hin|Hnin]; [exact Hin|]. apply path_in_none in Hnin. congruence.
Qed.

Lemma find_none n f : find n f = None <-> ~ In n (ids f).
Proof.
  induction f as [|i v k IHk r IHr]; cbn; [tauto|].
  destruct (N.eqb_spec i n) as [->|Hne].
  - split; [discriminate|]. intros H. exfalso. apply H. left. reflexivity.
  - destruct (find n k) as [x|] eqn:Ek.
    + split; [discriminate|]. intros H. exfalso. apply H. right. apply in_or_app. left.
      destruct (in_dec N.eq_dec n (ids k)) as [Hin|Hnin]; [exact Hin|]. apply IHk in Hnin. discriminate.
    + rewrite IHr. split.
      * intros Hr [H|H]; [contradiction|]. apply in_app_or in H as [H|H]; [|contradiction].
        assert (~ In n (ids k)) by (apply IHk; reflexivity). contradiction.
      * intros H Hin. apply H. right. apply in_or_app. right. exact Hin.
Qed.

Lemma find_incl c f v k : find c f = Some (v, k) -> incl (c :: ids k) (ids f).
Proof.
  revert v k. induction f as [|i v0 k0 IHk r0 IHr]; intros v k; cbn [find]; [discriminate|].
  destruct (N.eqb_spec i c) as [->|Hne].
  - intros H. inversion H; subst. intros x [Hx|Hx]; cbn; [left; exact Hx|right; apply in_or_app; left; exact Hx].
  - destruct (find c k0) as [x|] eqn:Ek.
    + intros H. inversion H; subst. intros y Hy. cbn. right. apply in_or_app. left. eapply IHk; eauto.
    + intros H y Hy. cbn. right. apply in_or_app. right. eapply IHr; eauto.
Qed.

Lemma fcut_find n f f' i v k : fcut n f = Some (f', (i, v, k)) -> find n f = Some (v, k).
Proof.
  revert f' i v k. induction f as [|i0 v0 k0 IHk r0 IHr]; intros f' i v k; cbn [fcut find]; [discriminate|].
  destruct (N.eqb i0 n); [intros H; inversion H; reflexivity|].
  destruct (fcut n k0) as [[k' [[i1 v1] k1]]|] eqn:Ek.
  - intros H. inversion H; subst. rewrite (IHk _ _ _ _ eq_refl). reflexivity.
  - assert (find n k0 = None) as ->.
    { apply find_none. eapply fcut_none. exact Ek. }
    destruct (fcut n r0) as [[r' [[i1 v1] k1]]|] eqn:Er; [|discriminate].
    intros H. inversion H; subst. eapply IHr. reflexivity.
Qed.

Lemma fcut_ids n f f' i v k : fcut n f = Some (f', (i, v, k)) -> Permutation (ids f) (n :: ids k ++ ids f').
Proof.
  intros H. apply fcut_spec in H as [-> Hp]. rewrite !ids_nodes.
  apply (Permutation_map fst) in Hp. cbn in Hp. rewrite map_app in Hp. exact Hp.
Qed.

(* a slot that is in the forest, but neither the cut node nor below it, is still there after the cut *)
Lemma fcut_keeps n f f' i v k p :
  fcut n f = Some (f', (i, v, k)) -> In p (ids f) -> ~ In p (subtree_ids n f) -> In p (ids f').
Proof.
  intros Hc Hin Hns. pose proof (fcut_ids _ _ _ _ _ _ Hc) as Hp.
  unfold subtree_ids in Hns. rewrite (fcut_find _ _ _ _ _ _ Hc) in Hns.
  eapply Permutation_in in Hin; [|exact Hp]. destruct Hin as [Hin|Hin]; [exfalso; apply Hns; left; exact Hin|].
  apply in_app_or in Hin as [Hin|Hin]; [exfalso; apply Hns; right; exact Hin|exact Hin].
Qed.

(* ---------- a strict descendant has the subtree's root among its ancestors ---------- *)

Lemma descendant_has_ancestor f : forall c v k p,
  NoDup (ids f) -> find c f = Some (v, k) -> In p (ids k) -> exists l, path_in p f = Some l /\ In c l.
Proof.
  induction f as [|i v0 k0 IHk r0 IHr]; intros c v k p Hnd; cbn [find path_in]; [discriminate|].
  cbn in Hnd. apply NoDup_cons_app_inv in Hnd as (Hik & Hir & Hk & Hr & Hkr).
  destruct (N.eqb_spec i c) as [->|Hne].
  - intros H Hp. inversion H; subst.
    assert (c <> p) as Hcp by (intros ->; contradiction).
    apply N.eqb_neq in Hcp. rewrite Hcp.
    destruct (path_in_some _ _ Hp) as [l ->]. eexists. split; [reflexivity|]. apply in_or_app. right. left. reflexivity.
  - destruct (find c k0) as [[v1 k1]|] eqn:Ek.
    + intros H Hp. inversion H; subst.
      assert (In p (ids k0)) as Hpk by (eapply find_incl; [exact Ek|right; exact Hp]).
      assert (i <> p) as Hip by (intros ->; contradiction).
      apply N.eqb_neq in Hip. rewrite Hip.
      destruct (IHk _ _ _ _ Hk Ek Hp) as (l & -> & Hl). eexists. split; [reflexivity|]. apply in_or_app. left. exact Hl.
    + intros H Hp.
      assert (In p (ids r0)) as Hpr by (eapply find_incl; [exact H|right; exact Hp]).
      assert (i <> p) as Hip by (intros ->; contradiction).
      apply N.eqb_neq in Hip. rewrite Hip.
      assert (path_in p k0 = None) as ->.
      { apply path_in_none. intros Hin. eapply NoDup_app_not_in; eauto. }
      eapply IHr; eauto.
Qed.

(* the path of the parent is the tail of the path of the child *)
Lemma path_in_parent f : forall r P l,
  NoDup (ids f) -> path_in r f = Some (P :: l) -> path_in P f = Some l.
Proof.
  induction f as [|i v0 k0 IHk r0 IHr]; intros r P l Hnd; cbn [path_in]; [discriminate|].
  cbn in Hnd. apply NoDup_cons_app_inv in Hnd as (Hik & Hir & Hk & Hr & Hkr).
  destruct (N.eqb_spec i r) as [->|Hne]; [discriminate|].
  destruct (path_in r k0) as [l1|] eqn:Ek.
  - intros H. inversion H as [H1]. destruct l1 as [|P1 l1'].
    + cbn in H1. inversion H1; subst. rewrite N.eqb_refl. reflexivity.
    + cbn in H1. inversion H1; subst.
      pose proof (IHk _ _ _ Hk Ek) as HP.
      assert (In P (ids k0)) as HPin by (eapply path_in_in; exact HP).
      assert (i <> P) as HiP by (intros ->; contradiction).
      apply N.eqb_neq in HiP. rewrite HiP, HP. reflexivity.
  - intros H. pose proof (IHr _ _ _ Hr H) as HP.
    assert (In P (ids r0)) as HPin by (eapply path_in_in; exact HP).
    assert (i <> P) as HiP by (intros ->; contradiction).
    apply N.eqb_neq in HiP. rewrite HiP.
    assert (path_in P k0 = None) as ->.
    { apply path_in_none. intros Hin. eapply NoDup_app_not_in; eauto. }
    exact HP.
Qed.

(* ---------- the cursor found by locate carries exactly that path ---------- *)

Lemma locate_in_none ups before n f : locate_in ups before n f = None -> ~ In n (ids f).
Proof.
  revert ups before. induction f as [|i v k IHk r IHr]; intros ups before; cbn [locate_in]; [intros _ []|].
  destruct (N.eqb_spec i n) as [->|Hne]; [discriminate|].
  destruct (locate_in _ FNil n k) as [z1|] eqn:E1; [discriminate|].
  intros H [Hin|Hin]; [contradiction|]. apply in_app_or in Hin as [Hin|Hin].
  - eapply IHk; eauto.
  - eapply IHr; eauto.
Qed.

Lemma locate_in_path f : forall ups before n z,
  locate_in ups before n f = Some z ->
  exists l, path_in n f = Some l /\ map fr_slot (z_ups z) = l ++ map fr_slot ups.
Proof.
  induction f as [|i v k IHk r IHr]; intros ups before n z; cbn [locate_in path_in]; [discriminate|].
  destruct (N.eqb i n) eqn:E.
  - intros H. inversion H; subst. cbn. exists []. split; reflexivity.
  - destruct (locate_in _ FNil n k) as [z1|] eqn:E1.
    + intros H. inversion H; subst. apply IHk in E1 as (l & -> & Hm). eexists. split; [reflexivity|].
      rewrite Hm. cbn. rewrite <- app_assoc. reflexivity.
    + apply locate_in_none in E1. apply path_in_none in E1. rewrite E1. apply IHr.
Qed.

Lemma locate_path store : forall n z,
  locate n store = Some z -> exists l, path_in n store = Some l /\ map fr_slot (z_ups z) = l /\ z_slot z = n.
Proof.
  induction store as [|i v k _ r IHr]; intros n z; cbn [locate]; [discriminate|].
  destruct (locate_in [] FNil n (FCons i v k FNil)) as [z1|] eqn:E.
  - intros H. inversion H; subst.
    assert (z_slot z = n) as Hs.
    { clear IHr. revert E. cbn [locate_in]. destruct (N.eqb_spec i n) as [->|Hne].
      - intros H1. inversion H1. reflexivity.
      - destruct (locate_in _ FNil n k) as [z2|] eqn:E2; [|discriminate]. intros H1. inversion H1; subst.
        clear - E2. revert E2. generalize ([{| fr_slot := i; fr_val := v; fr_before := FNil; fr_after := FNil |}]).
        generalize FNil at 1. induction k as [|i0 v0 k0 IHk0 r0 IHr0]; intros b ups; cbn [locate_in]; [discriminate|].
        destruct (N.eqb_spec i0 n) as [->|Hne0]; [intros H; inversion H; reflexivity|].
        destruct (locate_in _ FNil n k0) as [z3|] eqn:E3.
        + intros H. inversion H; subst. eapply IHk0. exact E3.
        + apply IHr0. }
    apply locate_in_path in E as (l & Hl & Hm). cbn [path_in] in *.
    destruct (N.eqb i n) eqn:Ei.
    + inversion Hl; subst. exists []. rewrite Hm. auto.
    + destruct (path_in n k) as [l1|] eqn:Ek; [|discriminate]. inversion Hl; subst.
      eexists. split; [reflexivity|]. rewrite Hm, app_nil_r. auto.
  - intros H. apply locate_in_none in E. cbn in E.
    assert (i <> n) as Hne by (intros ->; apply E; left; reflexivity).
    apply N.eqb_neq in Hne. cbn [path_in]. rewrite Hne.
    assert (path_in n k = None) as ->.
    { apply path_in_none. intros Hin. apply E. right. rewrite app_nil_r. exact Hin. }
    apply IHr. exact H.
Qed.

Lemma slots_of_pairs l : slots_of l = map fst (pairs_of l).
Proof. unfold slots_of, pairs_of. rewrite map_map. reflexivity. Qed.

(* q_ancestors = the node, then its path;  q_parent = head of the path *)
Lemma q_ancestors_path st p z : cur st p = Some z ->
  exists l, path_in p (store st) = Some l /\ q_ancestors st p = p :: l.
Proof.
  intros Hc. unfold q_ancestors. rewrite Hc. unfold cur in Hc. apply locate_path in Hc as (l & Hl & Hm & Hs).
  exists l. split; [exact Hl|].
  rewrite slots_of_pairs, ancestors_slots. cbn [map fst zpair]. unfold ancestor_slots. rewrite map_map.
  rewrite (map_ext (fun x => fst (frpair x)) fr_slot) by reflexivity. rewrite Hm, Hs. reflexivity.
Qed.

Lemma q_parent_path st n P : q_parent st n = Some P ->
  exists l, path_in n (store st) = Some (P :: l).
Proof.
  unfold q_parent. destruct (cur st n) as [z|] eqn:Hc; [|discriminate].
  unfold cur in Hc. apply locate_path in Hc as (l & Hl & Hm & Hs).
  unfold parent, up. destruct (z_ups z) as [|fr ups]; [discriminate|]. cbn in Hm. rewrite <- Hm in Hl.
  cbn. intros H. inversion H; subst. eexists. exact Hl.
Qed.

Lemma mem_true n l : mem n l = true <-> In n l.
Proof.
  unfold mem. rewrite existsb_exists. split.
  - intros (x & Hx & He). apply N.eqb_eq in He. subst. exact Hx.
  - intros H. exists n. split; [exact H|apply N.eqb_refl].
Qed.

(* the ancestor test of add_structure_check: the child is neither the parent nor above it,
   hence the parent is neither the child nor below it *)
Lemma not_ancestor_not_below st p c :
  NoDup (ids (store st)) -> cur st p <> None -> mem c (q_ancestors st p) = false ->
  ~ In p (subtree_ids c (store st)).
Proof.
  intros Hnd Hc Hm Hin. destruct (cur st p) as [z|] eqn:Ez; [|congruence].
  destruct (q_ancestors_path _ _ _ Ez) as (l & Hl & Ha).
  assert (mem c (q_ancestors st p) = true) as Ht; [|congruence].
  apply mem_true. rewrite Ha. unfold subtree_ids in Hin.
  destruct (find c (store st)) as [[v k]|] eqn:Ef; [|destruct Hin].
  destruct Hin as [->|Hin]; [left; reflexivity|].
  destruct (descendant_has_ancestor _ _ _ _ _ Hnd Ef Hin) as (l' & Hl' & Hcl). right. congruence.
Qed.

(* the same for a reference sibling: when the new sibling is not above the reference's parent (nor the parent
   itself) and is not the reference, the reference is not below the new sibling *)
Lemma sibling_not_below st r n P :
  NoDup (ids (store st)) -> q_parent st r = Some P -> cur st P <> None ->
  mem n (q_ancestors st P) = false -> r <> n ->
  ~ In r (subtree_ids n (store st)).
Proof.
  intros Hnd HP Hc Hm Hrn Hin.
  destruct (q_parent_path _ _ _ HP) as (l & Hl).
  pose proof (path_in_parent _ _ _ _ Hnd Hl) as HPl.
  destruct (cur st P) as [z|] eqn:Ez; [|congruence].
  destruct (q_ancestors_path _ _ _ Ez) as (l2 & Hl2 & Ha).
  assert (l2 = l) by congruence. subst l2.
  assert (mem n (q_ancestors st P) = true) as Ht; [|congruence].
  apply mem_true. rewrite Ha. unfold subtree_ids in Hin.
  destruct (find n (store st)) as [[v k]|] eqn:Ef; [|destruct Hin].
  destruct Hin as [Heq|Hin]; [congruence|].
  destruct (descendant_has_ancestor _ _ _ _ _ Hnd Ef Hin) as (l' & Hl' & Hnl).
  assert (l' = P :: l) by congruence. subst. exact Hnl.
Qed.

(* ---------- what the surgery does to slots and subtrees ---------- *)

Lemma ids_fsplice n f : NoDup (ids f) -> In n (ids f) -> Permutation (ids f) (n :: ids (fsplice n f)).
Proof.
  intros Hnd Hin. destruct (fsplice_spec n f Hnd Hin) as (v & Hp). rewrite !ids_nodes.
  apply (Permutation_map fst) in Hp. exact Hp.
Qed.

Lemma find_fset_val_ids c n g f :
  match find c (fset_val n g f), find c f with
  | Some (_, k'), Some (_, k) => ids k' = ids k
  | None, None => True
  | _, _ => False
  end.
Proof.
  induction f as [|i v k IHk r IHr]; cbn [fset_val find]; [exact I|].
  destruct (N.eqb i n) eqn:En; cbn [find].
  - destruct (N.eqb i c); [reflexivity|].
    destruct (find c k) as [[? ?]|]; [reflexivity|]. destruct (find c r) as [[? ?]|]; [reflexivity|exact I].
  - destruct (N.eqb i c); [apply nodes_fset_val_ids|].
    destruct (find c (fset_val n g k)) as [[? ?]|], (find c k) as [[? ?]|]; try exact IHk; try contradiction.
    exact IHr.
Qed.

Lemma subtree_ids_fset_val c n g f : subtree_ids c (fset_val n g f) = subtree_ids c f.
Proof.
  unfold subtree_ids. pose proof (find_fset_val_ids c n g f) as H.
  destruct (find c (fset_val n g f)) as [[? ?]|], (find c f) as [[? ?]|]; try contradiction; [|reflexivity].
  rewrite H. reflexivity.
Qed.

Lemma ids_fsplice_incl n f : incl (ids (fsplice n f)) (ids f).
Proof.
  induction f as [|i v k IHk r IHr]; cbn [fsplice]; [intros x []|].
  destruct (N.eqb i n).
  - rewrite ids_fapp. cbn. intros x Hx. right. exact Hx.
  - cbn. intros x [Hx|Hx]; [left; exact Hx|right]. apply in_app_or in Hx as [Hx|Hx]; apply in_or_app; [left; apply IHk|right; apply IHr]; exact Hx.
Qed.

Lemma find_fapp c a b : find c (fapp a b) = match find c a with Some x => Some x | None => find c b end.
Proof.
  induction a as [|i v k _ r IH]; cbn [fapp find]; [reflexivity|].
  destruct (N.eqb i c); [reflexivity|]. destruct (find c k); [reflexivity|]. exact IH.
Qed.

(* splicing a node out never enlarges a subtree *)
Lemma subtree_ids_fsplice n f : forall c, NoDup (ids f) -> incl (subtree_ids c (fsplice n f)) (subtree_ids c f).
Proof.
  unfold subtree_ids. induction f as [|i v k IHk r IHr]; intros c Hnd; cbn [fsplice find]; [intros x []|].
  cbn in Hnd. apply NoDup_cons_app_inv in Hnd as (Hik & Hir & Hk & Hr & Hkr).
  destruct (N.eqb_spec i n) as [->|Hin].
  - (* the node itself is spliced out: its children and right siblings take its place *)
    rewrite find_fapp. destruct (N.eqb_spec n c) as [->|Hnc].
    + assert (find c k = None) as -> by (apply find_none; exact Hik).
      assert (find c r = None) as -> by (apply find_none; exact Hir). intros x [].
    + apply incl_refl.
  - cbn [find]. destruct (N.eqb_spec i c) as [->|Hic].
    + intros x [Hx|Hx]; [left; exact Hx|right; eapply ids_fsplice_incl; exact Hx].
    + specialize (IHk c Hk). specialize (IHr c Hr).
      destruct (find c (fsplice n k)) as [[v1 k1]|] eqn:E1.
      * destruct (find c k) as [[v2 k2]|]; [exact IHk|]. exfalso. apply (IHk c). left. reflexivity.
      * destruct (find c (fsplice n r)) as [[v1 k1]|] eqn:E2; [|intros x []].
        destruct (find c r) as [[v2 k2]|] eqn:E3; [|exfalso; apply (IHr c); left; reflexivity].
        destruct (find c k) as [[v3 k3]|] eqn:E4; [|exact IHr].
        exfalso. eapply NoDup_app_not_in; [exact Hkr| |].
        -- eapply find_incl; [exact E4|left; reflexivity].
        -- eapply find_incl; [exact E3|left; reflexivity].
Qed.
