(* ValueTables.v — the classification of node values and the comment check of the model ARE the ones src/xmlvalue.rs has today.
   tools/gen_tables.py reads, on every run, the arms of Value::value_category, the alternatives of Value::is_normal and the
   literal Comment::set refuses, and writes them into Gen/Tables.v (constructors of Value numbered Document 0, Element 1, Text 2,
   ProcessingInstruction 3, Comment 4, Attribute 5, Namespace 6; categories Normal 0, Attribute 1, Namespace 2). *)
From Coq Require Import List NArith Bool Lia.
From XotV Require Import Model.Base Model.Zipper Model.Access Model.Store Model.Manip Gen.Tables.
Import ListNotations.
Open Scope N_scope.

Definition ctor_index (v : value) : N :=
  match v with
  | VDocument => 0 | VElement _ => 1 | VText _ => 2 | VPI _ _ => 3 | VComment _ => 4 | VAttribute _ _ => 5 | VNamespace _ _ => 6
  end.

Definition cat_index (c : vcat) : N := match c with CNormal => 0 | CAttribute => 1 | CNamespace => 2 end.

Fixpoint assoc_n (k : N) (t : list (N * N)) : option N :=
  match t with [] => None | (a, b) :: t' => if k =? a then Some b else assoc_n k t' end.

Lemma value_category_is_the_table v : assoc_n (ctor_index v) src_value_category = Some (cat_index (value_category v)).
Proof. destruct v; reflexivity. Qed.

Lemma is_normal_is_the_table v : is_normal v = existsb (N.eqb (ctor_index v)) src_is_normal.
Proof. destruct v; reflexivity. Qed.

(* does [s] contain [pat]? *)
Fixpoint prefix_of (pat s : str) : bool :=
  match pat, s with
  | [], _ => true
  | a :: pat', b :: s' => (a =? b) && prefix_of pat' s'
  | _ :: _, [] => false
  end.
Fixpoint contains (pat s : str) : bool :=
  prefix_of pat s || match s with [] => false | _ :: s' => contains pat s' end.

Lemma comment_check_is_the_sources s : has_double_dash s = contains src_comment_refused s.
Proof.
  unfold has_double_dash, src_comment_refused.
  induction s as [|a s IH]; [reflexivity|]. cbn [contains prefix_of].
  destruct s as [|b s']; [cbn; rewrite andb_false_r; reflexivity|].
  rewrite <- IH. cbn [prefix_of]. rewrite andb_true_r, (N.eqb_sym 45 a), (N.eqb_sym 45 b). reflexivity.
Qed.
