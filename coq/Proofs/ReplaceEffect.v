(* ReplaceEffect.v — the no-adjacent-text clause of C04 for replace, in the cases that do not need the exact position of the
   replacing node: (1) the replaced node does not stand between two text nodes — then detaching it leaves a store without
   adjacent text and every later step of the call keeps that; (2) it does, and the replacing node is one of those two text
   nodes — then nothing is inserted and the final consolidation merges them.  What is left out: the replaced node stands between
   two text nodes and the replacing node is a third node. *)
From Coq Require Import List NArith ZArith Bool Lia Permutation Arith.
From XotV Require Import Model.Base Model.Zipper Model.Access Model.Store Model.Manip Spec.DocOrder Spec.Paths Spec.Shape Spec.NoAdj
                         Proofs.ZipperProofs Proofs.AccessProofs Proofs.StoreProofs Proofs.ForestFacts Proofs.InvProofs Proofs.Canon
                         Proofs.ShapeProofs Proofs.KeysProofs Proofs.InvSteps Proofs.InvOps Proofs.PathFacts Proofs.Levels Proofs.NoAdjFacts
                         Proofs.NoAdjOps Proofs.Atomic Proofs.NoPanic Proofs.CloneShape Proofs.WrapEffect Proofs.UnwrapEffect.
Import ListNotations.
Open Scope N_scope.

(* ---------- parentless nodes stay parentless when another node is moved ---------- *)

Lemma root_slots_cons i v k r : root_slots (FCons i v k r) = i :: root_slots r.
Proof. reflexivity. Qed.

Lemma roots_finsert_after ref t f x : In x (root_slots f) -> In x (root_slots (finsert_after ref t f)).
Proof.
  induction f as [|i v k _ r IH]; cbn [finsert_after]; [auto|]. rewrite root_slots_cons. intros [<-|H].
  - destruct (N.eqb i ref); rewrite root_slots_cons; left; reflexivity.
  - destruct (N.eqb i ref); rewrite root_slots_cons; right; [rewrite root_slots_fapp; apply in_or_app; right; exact H|exact (IH H)].
Qed.

Lemma roots_merged st st1 gone x : merged_text st st1 gone -> In x (root_slots (store st)) -> x <> gone ->
  In x (root_slots (store st1)).
Proof.
  intros (t & g & s & _ & _ & _ & _ & ->) Hin Hne. cbn [remove_single_raw free_slots with_store store].
  apply root_slots_fsplice; [rewrite root_slots_fset_val; exact Hin|exact Hne].
Qed.

Lemma roots_move st c ins x : In x (root_slots (store st)) -> x <> c ->
  (forall t f, In x (root_slots f) -> In x (root_slots (ins t f))) -> In x (root_slots (store (move st c ins))).
Proof.
  intros Hin Hne Hins. unfold move. destruct (fcut c (store st)) as [[f' t]|] eqn:E; [|exact Hin].
  cbn [with_store store]. apply Hins. eapply root_slots_fcut; eauto.
Qed.

(* a parentless node is nobody's next sibling *)
Lemma root_not_next st x y : WF st -> In x (root_slots (store st)) -> q_next st y <> Some x.
Proof.
  intros W Hx Hq. destruct (root_slot_cursor st x W Hx) as (zx & Hzx & Hux).
  destruct (q_next_cur _ _ _ (proj1 W) Hq) as (zy & s & Hzy & Hs & Hr & _). rewrite Hzx in Hs. inversion Hs; subst s.
  destruct (zview _ _ _ Hzx) as [Htc _]. destruct (top_clean_root zx Htc Hux) as [Hb _].
  unfold right in Hr. destruct (z_after zy); [discriminate|]. inversion Hr; subst zx. discriminate Hb.
Qed.

Lemma roots_rc st p n x st1 m : WF st -> remove_consolidate st p n = (st1, m) -> In x (root_slots (store st)) ->
  n <> Some x -> In x (root_slots (store st1)).
Proof.
  intros W Hrc Hin Hne. destruct (rc_cases _ _ _ _ _ Hrc) as [[_ ->]|[_ (g & -> & Hm)]]; [exact Hin|].
  apply (roots_merged st st1 g x Hm Hin). congruence.
Qed.

Lemma roots_ac st node pv nx x st1 m : add_consolidate st node pv nx = (st1, m) -> In x (root_slots (store st)) ->
  x <> node -> In x (root_slots (store st1)).
Proof.
  intros Hac Hin Hne. destruct (ac_cases _ _ _ _ _ _ Hac) as [[_ ->]|[_ Hm]]; [exact Hin|]. exact (roots_merged st st1 node x Hm Hin Hne).
Qed.

Lemma roots_m_insert_after st p b x : Good st -> In x (root_slots (store st)) -> x <> b ->
  In x (root_slots (store (fst (m_insert_after st p b)))).
Proof.
  intros G Hin Hne. pose proof (Good_WF _ G) as W. unfold m_insert_after.
  destruct (negb (sibling_check st p b)); [exact Hin|]. destruct (opt_eqb (q_prev st b) (Some p)); [exact Hin|].
  destruct (remove_consolidate st (q_prev st b) (q_next st b)) as [st1 m0] eqn:E1.
  pose proof (roots_rc st _ _ x st1 m0 W E1 Hin (root_not_next st x b W Hin)) as H1.
  destruct (m0 && opt_eqb (q_next st b) (Some p)); [exact H1|].
  destruct (add_consolidate st1 b (Some p) (q_next st1 p)) as [st2 m] eqn:E2.
  pose proof (roots_ac st1 b _ _ x st2 m E2 H1 Hne) as H2.
  destruct m; [exact H2|]. cbn [fst]. apply roots_move; [exact H2|exact Hne|]. intros t f. apply roots_finsert_after.
Qed.

Lemma roots_m_prepend st P b x : Good st -> In x (root_slots (store st)) -> x <> b ->
  In x (root_slots (store (fst (m_prepend st P b)))).
Proof.
  intros G Hin Hne. pose proof (Good_WF _ G) as W. unfold m_prepend.
  destruct (negb (structure_check st (Some P) b)); [exact Hin|]. destruct (opt_eqb (q_first_child st P) (Some b)); [exact Hin|].
  destruct (remove_consolidate st (q_prev st b) (q_next st b)) as [st1 m0] eqn:E1.
  pose proof (roots_rc st _ _ x st1 m0 W E1 Hin (root_not_next st x b W Hin)) as H1.
  destruct (add_consolidate st1 b None (q_first_child st1 P)) as [st2 m] eqn:E2.
  pose proof (roots_ac st1 b _ _ x st2 m E2 H1 Hne) as H2.
  destruct m; [exact H2|]. cbn [fst]. apply roots_move; [exact H2|exact Hne|]. intros t f. rewrite root_slots_fmap_kids. auto.
Qed.

(* ---------- single steps that keep the clause ---------- *)

Lemma noadj_rc st x y : Good st -> noadj st -> noadj (fst (remove_consolidate st x y)).
Proof.
  intros G Hna. destruct (remove_consolidate st x y) as [st1 m] eqn:E. cbn [fst].
  destruct (rc_cases _ _ _ _ _ E) as [[_ ->]|[_ (g & _ & Hm)]]; [exact Hna|]. exact (proj1 (noadj_merged st st1 g G Hna Hm)).
Qed.

Lemma remove_root st a : Good st -> In a (root_slots (store st)) -> fst (m_remove st a) = remove_subtree_raw st a.
Proof.
  intros G Hin. destruct (root_slot_cursor st a (Good_WF _ G) Hin) as (z & Hz & Hu).
  unfold m_remove. cbn [fst]. destruct (q_prev_root st a z Hz Hu) as [-> ->]. rewrite (proj1 (rc_none _ None)). reflexivity.
Qed.

(* ---------- replace ---------- *)

Lemma noadj_m_replace_partial st a b : Good st -> cons st = true -> noadj st ->
  (tprev st a && tnext st a = false \/ q_prev st a = Some b \/ q_next st a = Some b) ->
  noadj (fst (m_replace st a b)).
Proof.
  intros G Hcons Hna Hcase. pose proof (Good_WF _ G) as W. unfold m_replace.
  destruct (is_type st a TDocument); [exact Hna|].
  destruct (q_parent st a) as [par|] eqn:Hpar; [|exact Hna].
  destruct (is_normal_node st a) eqn:Hnorm; cbn [negb]; [|exact Hna].
  destruct (N.eqb_spec a b) as [Hab|Hab]; [exact Hna|].
  destruct (structure_check st (Some par) b); cbn [negb]; [|exact Hna].
  assert (exists z, cur st a = Some z) as [z Hz] by (unfold q_parent in Hpar; destruct (cur st a); [eauto|discriminate]).
  assert (z_ups z <> []) as Hne.
  { unfold q_parent in Hpar. rewrite Hz in Hpar. unfold parent, up in Hpar. destruct (z_ups z); [discriminate|discriminate]. }
  assert (is_normal (z_val z) = true) as Hnv by (unfold is_normal_node in Hnorm; rewrite (val_of_cur _ _ _ Hz) in Hnorm; exact Hnorm).
  destruct (zview _ _ _ Hz) as [Htc (A & B & E)]. pose proof (cur_slot _ _ _ Hz) as Hzs.
  (* the replaced node is cut out and made a root *)
  pose proof (fcut_view st a z A B W Hz E) as Hcut.
  set (st1 := detach_raw st a).
  assert (store st1 = FCons a (z_val z) (z_kids z) (cut_store z A B)) as Hst1 by (unfold st1, detach_raw; rewrite Hcut; reflexivity).
  pose proof (Ext_detach_raw st a G) as X1. fold st1 in X1. pose proof (ext_good _ _ X1) as G1.
  assert (cons st1 = true) as C1 by (unfold st1; rewrite cons_detach_raw; exact Hcons).
  assert (In a (root_slots (store st1))) as Hroot1 by (rewrite Hst1, root_slots_cons; left; reflexivity).
  destruct (na_parts st z A B E Hna) as (_ & _ & _ & _ & _ & Hk1 & Hk2 & _).
  destruct (tprev_spec st a z W Hz Hne Hnv) as [Htp _]. destruct (tnext_spec st a z W Hz Hne Hnv) as [Htn _].
  destruct (tprev st a && tnext st a) eqn:J.
  - (* between two text nodes: the replacing node is one of them *)
    assert (opt_eqb (q_prev st a) (Some b) || opt_eqb (q_next st a) (Some b) = true) as Hsp.
    { destruct Hcase as [?|[H|H]]; [discriminate|rewrite H|rewrite H]; cbn [opt_eqb]; rewrite N.eqb_refl; [reflexivity|apply orb_true_r]. }
    rewrite Hsp.
    set (st3 := remove_subtree_raw st1 a).
    assert (store st3 = cut_store z A B) as Hst3.
    { unfold st3, remove_subtree_raw. rewrite Hst1. cbn [fcut]. rewrite N.eqb_refl. reflexivity. }
    pose proof (Ext_remove_subtree_raw st1 a G1) as X3. fold st3 in X3. pose proof (ext_good _ _ X3) as G3.
    assert (cons st3 = true) as C3 by (unfold st3; rewrite cons_remove_subtree_raw; exact C1).
    pose proof (cut_then_rc st st3 a z A B FNil W Hcons Hna Hz E (Good_WF _ G3) C3 Hst3 eq_refl) as Hfin.
    (* both neighbours are there and touch, so the consolidation is made *)
    apply andb_true_iff in J as [J1 J2]. rewrite Htp in J1. rewrite Htn in J2.
    destruct (z_before z) as [|p vp kp b'] eqn:Eb; [discriminate|]. destruct (z_after z) as [|nx vn kn a'] eqn:Ea; [discriminate|].
    cbn [head_text] in J1, J2.
    assert (q_prev st a = Some p) as Hqp.
    { unfold q_prev. rewrite Hz. unfold previous_sibling, left. rewrite Eb. unfold zcat. cbn.
      rewrite (text_cat _ J1). destruct (z_val z); try discriminate; reflexivity. }
    assert (q_next st a = Some nx) as Hqn.
    { unfold q_next. rewrite Hz. unfold next_sibling, right. rewrite Ea. unfold zcat. cbn.
      rewrite (text_cat _ J2). destruct (z_val z); try discriminate; reflexivity. }
    rewrite Hqp, Hqn in *.
    destruct (z_ups z) as [|fr ups] eqn:Eu; [congruence|].
    set (zp := mkz p vp kp b' (FCons nx vn kn a') (fr :: ups)).
    assert (top_clean zp) as Htcp by (unfold top_clean in *; rewrite Eu in Htc; exact Htc).
    assert (store st3 = fapp A (fapp (plug zp) B)) as E3.
    { rewrite Hst3. unfold cut_store. rewrite Eu, Eb, Ea. reflexivity. }
    pose proof (cur_of_view st3 zp A B (Good_WF _ G3) Htcp E3) as Hp3. cbn [zp mkz z_slot] in Hp3.
    assert (cur st3 nx = Some (mkz nx vn kn (FCons p vp kp b') a' (fr :: ups))) as Hn3.
    { refine (cur_move st3 p zp (mkz nx _ _ _ _ _) (proj1 (Good_WF _ G3)) Hp3 _). left. reflexivity. }
    assert (q_next st3 p = Some nx) as Hq3.
    { unfold q_next. rewrite Hp3. unfold next_sibling, right, zcat. cbn.
      rewrite (text_cat _ J1), (text_cat _ J2). reflexivity. }
    cbn [fst]. unfold is_live_slot. rewrite Hp3, Hn3, Hq3. cbn [opt_eqb andb]. rewrite N.eqb_refl. cbn [fst]. exact Hfin.
  - (* not between two text nodes: the cut leaves no text nodes touching *)
    assert (noadj st1) as Hna1.
    { unfold noadj. rewrite Hst1. cbn [na]. rewrite Hk1, Hk2. cbn [andb].
      apply (na_cut st z A B E Hna). intros _. rewrite <- Htp, <- Htn. exact J. }
    assert (exists st2 o, (if opt_eqb (q_prev st a) (Some b) || opt_eqb (q_next st a) (Some b) then (st1, MDone None)
                           else match q_prev st a with Some p => m_insert_after st1 p b | None => m_prepend st1 par b end) = (st2, o)
                          /\ Good st2 /\ cons st2 = true /\ noadj st2 /\ In a (root_slots (store st2))) as (st2 & o & -> & G2 & C2 & Hna2 & Hroot2).
    { destruct (opt_eqb (q_prev st a) (Some b) || opt_eqb (q_next st a) (Some b)); [eexists _, _; split; [reflexivity|auto]|].
      destruct (q_prev st a) as [p|].
      - pose proof (Ext_m_insert_after st1 p b G1) as X. pose proof (noadj_m_insert_after st1 p b G1 C1 Hna1) as N.
        pose proof (cons_m_insert_after st1 p b) as C. pose proof (roots_m_insert_after st1 p b a G1 Hroot1 Hab) as R.
        destruct (m_insert_after st1 p b) as [s2 o2]. eexists _, _. split; [reflexivity|]. cbn [fst] in *.
        split; [exact (ext_good _ _ X)|]. split; [congruence|]. auto.
      - pose proof (Ext_m_prepend st1 par b G1) as X. pose proof (noadj_m_prepend st1 par b G1 C1 Hna1) as N.
        pose proof (cons_m_prepend st1 par b) as C. pose proof (roots_m_prepend st1 par b a G1 Hroot1 Hab) as R.
        destruct (m_prepend st1 par b) as [s2 o2]. eexists _, _. split; [reflexivity|]. cbn [fst] in *.
        split; [exact (ext_good _ _ X)|]. split; [congruence|]. auto. }
    destruct o as [r|e|]; cbn [fst]; try exact Hna2.
    pose proof (remove_root st2 a G2 Hroot2) as Hrm.
    pose proof (noadj_m_remove st2 a G2 C2 Hna2) as Hna3. rewrite Hrm in Hna3.
    pose proof (Ext_m_remove st2 a G2) as X3. rewrite Hrm in X3. pose proof (ext_good _ _ X3) as G3.
    destruct (q_prev st a) as [p|]; [|exact Hna3]. destruct (q_next st a) as [nx|]; [|exact Hna3].
    match goal with |- context [if ?c then _ else _] => destruct c end; cbn [fst]; [apply noadj_rc; assumption|exact Hna3].
Qed.

Lemma cons_m_replace st a b : cons (fst (m_replace st a b)) = cons st.
Proof.
  unfold m_replace. destruct (is_type st a TDocument); [reflexivity|]. destruct (q_parent st a) as [par|]; [|reflexivity].
  destruct (negb (is_normal_node st a)); [reflexivity|]. destruct (N.eqb a b); [reflexivity|].
  destruct (negb (structure_check st (Some par) b)); [reflexivity|].
  pose proof (cons_detach_raw st a) as C1. set (st1 := detach_raw st a) in *.
  remember (q_prev st a) as pv eqn:Epv. remember (q_next st a) as nx eqn:Enx. clear Epv Enx.
  assert (forall st2 o, cons st2 = cons st ->
            cons (fst (match o with
                       | MDone _ => let st3 := remove_subtree_raw st2 a in
                                    match pv, nx with
                                    | Some p, Some n => if is_live_slot st3 p && is_live_slot st3 n && opt_eqb (q_next st3 p) (Some n)
                                                        then (fst (remove_consolidate st3 pv nx), MDone None)
                                                        else (st3, MDone None)
                                    | _, _ => (st3, MDone None)
                                    end
                       | _ => (st2, o) end)) = cons st) as Hfin.
  { intros st2 o C2. destruct o; cbn [fst]; try exact C2.
    destruct pv as [p|]; [|cbn [fst]; rewrite cons_remove_subtree_raw; exact C2].
    destruct nx as [n|]; [|cbn [fst]; rewrite cons_remove_subtree_raw; exact C2].
    match goal with |- context [if ?c then _ else _] => destruct c end; cbn [fst]; rewrite ?cons_rc, cons_remove_subtree_raw; exact C2. }
  destruct (opt_eqb pv (Some b) || opt_eqb nx (Some b)); [exact (Hfin st1 (MDone None) C1)|].
  assert (exists st2 o, match pv with Some p => m_insert_after st1 p b | None => m_prepend st1 par b end = (st2, o) /\ cons st2 = cons st)
    as (st2 & o & -> & C2).
  { destruct pv as [p|].
    - pose proof (cons_m_insert_after st1 p b) as C2. destruct (m_insert_after st1 p b) as [st2 o]. cbn [fst] in C2. eexists _, _. split; [reflexivity|congruence].
    - pose proof (cons_m_prepend st1 par b) as C2. destruct (m_prepend st1 par b) as [st2 o]. cbn [fst] in C2. eexists _, _. split; [reflexivity|congruence]. }
  exact (Hfin st2 o C2).
Qed.

(* ---------- the step theorem with replace ---------- *)

(* replace(a, b) is covered unless a stands between two text nodes and b is neither of them *)
Definition replace_ok (st : xstate) (a b : N) : bool :=
  negb (tprev st a && tnext st a) || opt_eqb (q_prev st a) (Some b) || opt_eqb (q_next st a) (Some b).

Definition plain_at (st : xstate) (o : mop) : bool :=
  match o with OReplace a b => replace_ok st a b | OCons false => false | _ => true end.

Theorem noadj_mstep3 st o : Good st -> cons st = true -> noadj st -> plain_at st o = true ->
  noadj (fst (mstep st o)) /\ cons (fst (mstep st o)) = true.
Proof.
  intros G Hc Hna Hp. destruct (plain_op2 o) eqn:E; [split; [apply noadj_mstep2|apply cons_mstep2]; assumption|].
  destruct o; try discriminate E.
  - cbn [mstep plain_at] in *. split; [|rewrite cons_m_replace; exact Hc]. apply noadj_m_replace_partial; try assumption.
    unfold replace_ok in Hp. apply orb_true_iff in Hp as [Hp|Hp]; [apply orb_true_iff in Hp as [Hp|Hp]|].
    + left. apply negb_true_iff. exact Hp.
    + right. left. destruct (q_prev st a) as [x|]; [|discriminate]. cbn in Hp. apply N.eqb_eq in Hp. subst. reflexivity.
    + right. right. destruct (q_next st a) as [x|]; [|discriminate]. cbn in Hp. apply N.eqb_eq in Hp. subst. reflexivity.
  - destruct b; discriminate.
Qed.

(* along a history: the condition is evaluated in the store each call finds *)
Fixpoint run_ok (st : xstate) (ops : list mop) : bool :=
  match ops with [] => true | o :: r => plain_at st o && run_ok (fst (mstep st o)) r end.

Theorem noadj_history3 ops : forall st, Good st -> cons st = true -> noadj st -> run_ok st ops = true ->
  noadj (hfinal st ops) /\ cons (hfinal st ops) = true.
Proof.
  induction ops as [|o ops IH]; intros st G Hc Hna Hp; cbn [hfinal fold_left]; [auto|].
  cbn [run_ok] in Hp. apply andb_true_iff in Hp as [Ho Hp]. destruct (noadj_mstep3 st o G Hc Hna Ho) as [N C].
  apply IH; [exact (ext_good _ _ (Ext_mstep st o G))|exact C|exact N|exact Hp].
Qed.
