(* NoAdjApi.v — the no-adjacent-text clause of C04 for the calls built on the node-level API:
   remove_insignificant_whitespace, create_missing_prefixes, deduplicate_namespaces, clone_with_prefixes. *)
From Coq Require Import List NArith ZArith Bool Lia Permutation Arith.
From XotV Require Import Model.Base Model.Zipper Model.Access Model.Store Model.Manip Model.Unpretty Model.Interning
                         Model.Fullname Model.Scope Model.NsTools Model.Hist Spec.DocOrder Spec.Paths Spec.Shape Spec.NoAdj
                         Proofs.StoreProofs Proofs.ForestFacts Proofs.ShapeProofs Proofs.KeysProofs Proofs.InvProofs
                         Proofs.InvSteps Proofs.InvOps Proofs.InvHist Proofs.InvApi Proofs.Canon Proofs.Levels Proofs.NoAdjFacts Proofs.NoAdjOps Proofs.UnwrapEffect.
Import ListNotations.
Open Scope N_scope.

(* ---------- remove_insignificant_whitespace only takes text nodes away ---------- *)

Section Rmws.
  Variable space : nameid.

  Lemma insignificant_text p s v : insignificant p s v = true -> is_text_val v = true.
  Proof. unfold insignificant, ws_text. destruct v; rewrite ?andb_false_r; try discriminate. reflexivity. Qed.

  Lemma strip_noadj f : forall p s,
    (head_text (strip space p s f) = true -> head_text f = true)
    /\ (na_list f = true -> na_list (strip space p s f) = true)
    /\ (na f = true -> na (strip space p s f) = true).
  Proof.
    induction f as [|i v k IHk r IHr]; intros p s; cbn [strip]; [auto|].
    destruct (IHr p s) as (R1 & R2 & R3). destruct (IHk (space_below space p k) (level_sig k)) as (K1 & K2 & K3).
    destruct (insignificant p s v) eqn:Ei.
    - pose proof (insignificant_text _ _ _ Ei) as Ht. cbn [head_text na_list na]. rewrite Ht. split; [auto|]. split; intros H.
      + apply andb_true_iff in H as [_ H]. auto.
      + apply andb_true_iff in H as [_ H]. auto.
    - cbn [head_text na_list na]. split; [auto|]. split; intros H.
      + apply andb_true_iff in H as [Hj H]. rewrite (R2 H), andb_true_r.
        destruct (head_text (strip space p s r)) eqn:Eh; [|rewrite andb_false_r; reflexivity]. rewrite (R1 eq_refl) in Hj. exact Hj.
      + apply andb_true_iff in H as [H H3]. apply andb_true_iff in H as [H1 H2]. rewrite (K2 H1), (K3 H2), (R3 H3). reflexivity.
  Qed.

  Lemma noadj_rmws st n st' : Good st -> cons st = true -> noadj st -> rmws space st n = Some st' -> noadj st' /\ cons st' = true.
  Proof.
    intros G Hcons Hna. unfold rmws. destruct (cur st n) as [z|] eqn:Hc; [|discriminate].
    assert (forall p s, noadj (free_slots (with_store st (fset_kids n (strip space p s (z_kids z)) (store st))) (stripped space p s (z_kids z)))) as Hgen.
    { intros p s. unfold noadj. cbn [store free_slots with_store]. rewrite fset_kids_fmap.
      destruct (zview _ _ _ Hc) as [_ (A & B & E)]. destruct (na_parts st z A B E Hna) as (_ & _ & _ & _ & _ & K1 & K2 & _).
      destruct (strip_noadj (z_kids z) p s) as (_ & S2 & S3).
      apply (na_map_kids st n z (fun _ => strip space p s (z_kids z)) (Good_WF _ G) Hna Hc (S2 K1) (S3 K2)). }
    destruct (z_val z); try (intros H; inversion H; subst; split; [apply Hgen|exact Hcons]).
    destruct (insignificant _ _ _); intros H; inversion H; subst; [|auto].
    split; [apply noadj_m_remove; assumption|]. pose proof (cons_m_remove st n) as C. rewrite Hcons in C. exact C.
  Qed.
End Rmws.

(* ---------- declarations added or removed: namespace nodes are no text ---------- *)

Lemma noadj_fold_map_insert k e (f : N * N -> value) l : forall st ve,
  Good st -> noadj st -> In (e, ve) (nodes (store st)) -> is_elem ve = true -> (forall d, value_category (f d) = cat_of k) ->
  noadj (fold_left (fun s d => map_insert s k e (f d)) l st)
  /\ cons (fold_left (fun s d => map_insert s k e (f d)) l st) = cons st.
Proof.
  induction l as [|d l IH]; intros st ve G Hna Hin He Hf; cbn [fold_left]; [auto|].
  pose proof (is_type_from_node _ _ _ G Hin He) as Hty.
  pose proof (Ext_map_insert st k e (f d) G Hty (Hf d)) as X1.
  pose proof (map_insert_keeps st k e (f d) G) as K1.
  assert (is_normal ve = true) as Hn by (destruct ve; try discriminate; reflexivity).
  destruct (IH _ ve (ext_good _ _ X1) (noadj_map_insert_good st k e (f d) G Hna Hty (Hf d)) (K1 _ _ Hin Hn) He Hf) as [H1 H2].
  split; [exact H1|]. rewrite H2. apply cons_map_insert.
Qed.

Section Api.
  Variable nm : nsnames.

  Lemma noadj_cmp_element t st e t' st' : Good st -> noadj st -> cmp_element nm t st e = NOk t' st' -> noadj st' /\ cons st' = cons st.
  Proof.
    intros G Hna. unfold cmp_element. destruct (cur st e) as [z|] eqn:Hc; [|discriminate].
    destruct (z_val z) eqn:Hv; try discriminate.
    destruct (assign_prefixes t 0 (used_prefixes nm z) (missing_namespaces nm z)) as [[l t1]|]; [|discriminate].
    intros H. inversion H; subst.
    apply (noadj_fold_map_insert KNs e (fun d => VNamespace (fst d) (snd d)) l st (VElement n)); auto.
    rewrite <- Hv. apply cur_node. exact Hc.
  Qed.

  Lemma noadj_cmp_elements l : forall t st t' st', Good st -> noadj st -> cmp_elements nm t st l = NOk t' st' -> noadj st' /\ cons st' = cons st.
  Proof.
    induction l as [|e l IH]; intros t st t' st' G Hna; cbn [cmp_elements].
    - intros H. inversion H; subst. auto.
    - destruct (cmp_element nm t st e) as [t1 st1| |] eqn:E; try discriminate.
      destruct (Ext_cmp_element _ _ _ _ _ _ G E) as [X1 _]. destruct (noadj_cmp_element _ _ _ _ _ G Hna E) as [N1 C1].
      intros H. destruct (IH _ _ _ _ (ext_good _ _ X1) N1 H) as [N2 C2]. split; [exact N2|congruence].
  Qed.

  Lemma noadj_create_missing_prefixes t st n t' st' : Good st -> noadj st -> create_missing_prefixes nm t st n = NOk t' st' ->
    noadj st' /\ cons st' = cons st.
  Proof.
    intros G Hna. unfold create_missing_prefixes. destruct (cur st n) as [z|]; [|discriminate].
    destruct (z_val z); try (intros H; eapply noadj_cmp_element; eauto; fail). apply noadj_cmp_elements; assumption.
  Qed.

  Lemma noadj_fold_map_remove l : forall st, Good st -> cons st = true -> noadj st ->
    noadj (fold_left (fun s (ep' : N * N) => map_remove s KNs (fst ep') (snd ep')) l st)
    /\ cons (fold_left (fun s (ep' : N * N) => map_remove s KNs (fst ep') (snd ep')) l st) = true.
  Proof.
    induction l as [|a l IH]; intros st G Hc Hna; cbn [fold_left]; [auto|].
    apply IH; [exact (ext_good _ _ (Ext_map_remove st KNs (fst a) (snd a) G))|rewrite cons_map_remove; exact Hc|apply noadj_map_remove; assumption].
  Qed.

  Lemma noadj_deduplicate_namespaces st n st' : Good st -> cons st = true -> noadj st -> deduplicate_namespaces nm st n = Some st' ->
    noadj st' /\ cons st' = true.
  Proof.
    intros G Hc Hna. unfold deduplicate_namespaces. destruct (cur st n); [|discriminate]. intros H. inversion H; subst.
    apply noadj_fold_map_remove; assumption.
  Qed.

  Lemma noadj_fold_opt_insert c to_add l : forall st ve,
    Good st -> noadj st -> In (c, ve) (nodes (store st)) -> is_elem ve = true ->
    noadj (fold_left (fun s p => match assoc_p p to_add with
                                 | Some ns => map_insert s KNs c (VNamespace p ns)
                                 | None => s
                                 end) l st)
    /\ cons (fold_left (fun s p => match assoc_p p to_add with
                                   | Some ns => map_insert s KNs c (VNamespace p ns)
                                   | None => s
                                   end) l st) = cons st.
  Proof.
    induction l as [|p l IH]; intros st ve G Hna Hin He; cbn [fold_left]; [auto|].
    destruct (assoc_p p to_add) as [ns|]; [|eapply IH; eauto].
    pose proof (is_type_from_node _ _ _ G Hin He) as Hty.
    pose proof (Ext_map_insert st KNs c (VNamespace p ns) G Hty eq_refl) as X1.
    assert (is_normal ve = true) as Hn by (destruct ve; try discriminate; reflexivity).
    destruct (IH _ ve (ext_good _ _ X1) (noadj_map_insert_good st KNs c (VNamespace p ns) G Hna Hty eq_refl)
                (map_insert_keeps st KNs c (VNamespace p ns) G _ _ Hin Hn) He) as [H1 H2].
    split; [exact H1|]. rewrite H2. apply cons_map_insert.
  Qed.

  Lemma noadj_clone_with_prefixes st n order : Good st -> cons st = true -> noadj st ->
    noadj (fst (clone_with_prefixes nm st n order)) /\ cons (fst (clone_with_prefixes nm st n order)) = true.
  Proof.
    intros G Hc Hna. unfold clone_with_prefixes. destruct (cur st n) as [z|]; [|auto].
    pose proof (Ext_m_clone st n G) as X1. pose proof (noadj_m_clone st n G Hc Hna) as N1. pose proof (cons_m_clone st n) as C1.
    destruct (m_clone st n) as [st1 out]. cbn [fst] in *. rewrite Hc in C1.
    destruct out as [[c|]| |]; cbn [fst]; auto.
    destruct (is_type st1 c TElement) eqn:He; cbn [fst]; auto.
    match goal with |- context [same_set ?a ?b] => destruct (same_set a b) end; cbn [fst]; auto.
    apply is_type_val in He as (ve & Hve & Hte).
    match goal with |- context [fold_left (fun s p => match assoc_p p ?ta with _ => _ end) order st1] =>
      destruct (noadj_fold_opt_insert c ta order st1 ve (ext_good _ _ X1) N1 (val_nodes _ _ _ Hve)) as [H1 H2] end.
    { destruct ve; try discriminate; reflexivity. }
    split; [exact H1|congruence].
  Qed.
End Api.

(* ---------- whole histories over every call the harness draws (Model/Hist.v) ---------- *)

Definition plain_top (o : top) : bool := match o with TH (HM o') => plain_op2 o' | _ => true end.

Theorem noadj_tstep nm t st o : Good st -> cons st = true -> noadj st -> plain_top o = true ->
  noadj (snd (fst (tstep nm (t, st) o))) /\ cons (snd (fst (tstep nm (t, st) o))) = true.
Proof.
  intros G Hc Hna Hp. destruct o as [[o'|n space]|n|n|n order]; cbn [tstep hstep].
  - cbn [plain_top] in Hp. pose proof (noadj_mstep2 st o' G Hc Hna Hp) as N. pose proof (cons_mstep2 st o' Hp Hc) as C.
    destruct (mstep st o') as [st' out]. auto.
  - destruct (rmws space st n) as [st'|] eqn:E; cbn; [eapply noadj_rmws; eauto|auto].
  - destruct (create_missing_prefixes nm t st n) as [t' st'| |] eqn:E; cbn; auto.
    destruct (noadj_create_missing_prefixes nm _ _ _ _ _ G Hna E) as [N C]. split; [exact N|congruence].
  - destruct (deduplicate_namespaces nm st n) as [st'|] eqn:E; cbn; auto. eapply noadj_deduplicate_namespaces; eauto.
  - pose proof (noadj_clone_with_prefixes nm st n order G Hc Hna) as X. destruct (clone_with_prefixes nm st n order) as [st' out]. exact X.
Qed.

Theorem noadj_tfinal nm ops : forall t st, Good st -> cons st = true -> noadj st -> forallb plain_top ops = true ->
  noadj (snd (tfinal nm (t, st) ops)) /\ cons (snd (tfinal nm (t, st) ops)) = true.
Proof.
  induction ops as [|o ops IH]; intros t st G Hc Hna Hp; cbn [tfinal fold_left]; [auto|].
  cbn [forallb] in Hp. apply andb_true_iff in Hp as [Ho Hp].
  pose proof (Ext_tstep nm t st o G) as X. destruct (noadj_tstep nm t st o G Hc Hna Ho) as [N C].
  destruct (fst (tstep nm (t, st) o)) as [t1 st1] eqn:E. cbn [snd] in *.
  apply IH; [apply X|exact C|exact N|exact Hp].
Qed.
