(* WrapEffect.v — what element_wrap does (C05), and with it the no-adjacent-text clause of C04 for element_wrap.
   The call passes through a store in which the old neighbours of the wrapped node touch (the node is detached without
   consolidation before the wrapper takes its place), so the clause is not an invariant of its steps: the final store is
   computed exactly instead — the wrapper stands where the node stood, the node is its only child, nothing else moved. *)
From Coq Require Import List NArith ZArith Bool Lia Permutation Arith.
From XotV Require Import Model.Base Model.Zipper Model.Access Model.Store Model.Manip Spec.DocOrder Spec.Paths Spec.Shape Spec.NoAdj
                         Proofs.ZipperProofs Proofs.AccessProofs Proofs.StoreProofs Proofs.ForestFacts Proofs.InvProofs Proofs.Canon
                         Proofs.ShapeProofs Proofs.KeysProofs Proofs.InvSteps Proofs.InvOps Proofs.PathFacts Proofs.Levels Proofs.NoAdjFacts
                         Proofs.NoAdjOps Proofs.Atomic Proofs.NoPanic Proofs.CloneShape.
Import ListNotations.
Open Scope N_scope.

(* ---------- inserting a root that is no text node: nothing is consolidated ---------- *)

Lemma ac_nontext st n v pv nx : val st n = Some v -> is_text_val v = false -> add_consolidate st n pv nx = (st, false).
Proof. intros Hv Ht. unfold add_consolidate. destruct (negb (cons st)); [reflexivity|]. rewrite Hv. destruct v; try reflexivity. discriminate. Qed.

Lemma m_insert_after_root st p w zw : sibling_check st p w = true -> cur st w = Some zw -> z_ups zw = [] ->
  is_text_val (z_val zw) = false ->
  m_insert_after st p w = (move st w (fun t f => finsert_after p t f), MDone None).
Proof.
  intros Hsib Hw Hu Ht. unfold m_insert_after. rewrite Hsib. cbn [negb].
  destruct (q_prev_root st w zw Hw Hu) as [-> ->]. cbn [opt_eqb]. rewrite (proj1 (rc_none st None)). cbn [andb].
  rewrite (ac_nontext st w (z_val zw) _ _ (val_of_cur _ _ _ Hw) Ht). reflexivity.
Qed.

Lemma m_prepend_root st P w zw : structure_check st (Some P) w = true -> cur st w = Some zw -> z_ups zw = [] ->
  is_text_val (z_val zw) = false -> q_first_child st P <> Some w ->
  m_prepend st P w = (move st w (fun t f => fmap_kids P (insert_first_normal t) f), MDone None).
Proof.
  intros Hsc Hw Hu Ht Hf. unfold m_prepend. rewrite Hsc. cbn [negb].
  assert (opt_eqb (q_first_child st P) (Some w) = false) as ->.
  { destruct (q_first_child st P) as [c|]; [|reflexivity]. cbn. apply N.eqb_neq. intros ->. apply Hf. reflexivity. }
  destruct (q_prev_root st w zw Hw Hu) as [-> ->]. rewrite (proj1 (rc_none st None)).
  rewrite (ac_nontext st w (z_val zw) _ _ (val_of_cur _ _ _ Hw) Ht). reflexivity.
Qed.

(* the first ordinary child is one of the children *)
Lemma first_child_in_kids st P zP c : cur st P = Some zP -> q_first_child st P = Some c -> In c (ids (z_kids zP)).
Proof.
  intros HP. unfold q_first_child, first_child, normal_children, arena_children. rewrite HP.
  pose proof (first_normal_level (z_kids zP) (frame_of zP :: z_ups zP) FNil) as H.
  destruct (hd_error _) as [zc|]; [|discriminate]. cbn [oslot option_map] in *. intros E. inversion E; subst c.
  destruct (nrm_part (z_kids zP)) as [|i v k r] eqn:En; [discriminate|]. cbn [hd_pair] in H. inversion H as [[H1 H2]].
  rewrite (abn_nrm (z_kids zP)), ids_fapp, En. apply in_or_app. right. left. symmetry. exact H1.
Qed.

(* ---------- a shaped child list is sorted: namespace nodes, attribute nodes, ordinary children ---------- *)

Lemma shape_elem_lower f : forall lo, shape CElem lo f = true -> forall y, In y (level_vals f) -> (lo <= vrank y)%nat.
Proof.
  induction f as [|i v k _ r IH]; intros lo H y Hy; [destruct Hy|]. rewrite shape_cons in H.
  apply andb_true_iff in H as [H Hr]. apply andb_true_iff in H as [Hn _]. cbn [node_ok next_lo] in *.
  apply andb_true_iff in Hn as [_ Hlo]. apply Nat.leb_le in Hlo. destruct Hy as [<-|Hy]; [exact Hlo|].
  specialize (IH _ Hr y Hy). lia.
Qed.

Lemma shape_elem_sorted X : forall Y lo, shape CElem lo (fapp X Y) = true ->
  forall x y, In x (level_vals X) -> In y (level_vals Y) -> (vrank x <= vrank y)%nat.
Proof.
  induction X as [|i v k _ r IH]; intros Y lo H x y Hx Hy; [destruct Hx|]. cbn [fapp] in H. rewrite shape_cons in H.
  apply andb_true_iff in H as [H Hr]. cbn [next_lo] in Hr. destruct Hx as [<-|Hx].
  - apply (shape_elem_lower _ _ Hr). rewrite level_vals_fapp. apply in_or_app. right. exact Hy.
  - exact (IH Y _ Hr x y Hx Hy).
Qed.

Lemma level_vals_frev b : forall x, In x (level_vals (frev b)) <-> In x (level_vals b).
Proof.
  assert (forall bb acc x, In x (level_vals (frev_app bb acc)) <-> In x (level_vals bb) \/ In x (level_vals acc)) as H.
  { intros bb. induction bb as [|i v k _ r IH]; intros acc x; cbn [frev_app]; [cbn; tauto|]. rewrite IH. cbn. clear IH. tauto. }
  intros x. unfold frev. rewrite H. cbn. clear H. tauto.
Qed.

Lemma frev_app_as_fapp b a : frev_app b a = fapp (frev b) a.
Proof. rewrite <- (frev_app_frev (frev b) a), frev_involutive. reflexivity. Qed.

Lemma abn_nrm_split X : forall a, (forall x, In x (level_vals X) -> is_normal x = false) ->
  (match a with FNil => True | FCons _ v _ _ => is_normal v = true end) ->
  abn_part (fapp X a) = X /\ nrm_part (fapp X a) = a.
Proof.
  induction X as [|i v k _ r IH]; intros a HX Ha; cbn [fapp abn_part nrm_part].
  - destruct a as [|j w kk rr]; [split; reflexivity|]. cbn [abn_part nrm_part]. rewrite Ha. split; reflexivity.
  - rewrite (HX v (or_introl eq_refl)). destruct (IH a (fun x Hx => HX x (or_intror Hx)) Ha) as [-> ->]. split; reflexivity.
Qed.

Lemma shape_doc_normal f : forall lo, shape CDoc lo f = true -> forall y, In y (level_vals f) -> is_normal y = true.
Proof.
  induction f as [|i v k _ r IH]; intros lo H y Hy; [destruct Hy|]. rewrite shape_cons in H.
  apply andb_true_iff in H as [H Hr]. apply andb_true_iff in H as [Hn _]. cbn [node_ok] in Hn. apply andb_true_iff in Hn as [Hn _].
  destruct Hy as [<-|Hy]; [exact Hn|]. exact (IH _ Hr y Hy).
Qed.

Lemma abnormal_rank v : is_normal v = false <-> (vrank v < 2)%nat.
Proof.
  pose proof (vrank_normal v) as H. pose proof (vrank_le2 v) as Hle. destruct (is_normal v) eqn:E.
  - split; [discriminate|]. intros Hlt. assert (vrank v = 2%nat) by (apply H; reflexivity). lia.
  - split; [|reflexivity]. intros _. destruct (Nat.eq_dec (vrank v) 2) as [e|ne]; [apply H in e; discriminate|lia].
Qed.

(* in the child list a cursor sits in: if the node before an ordinary node is no ordinary node, nothing before it is; and
   everything after an ordinary node is ordinary *)
Lemma level_sorted st n z : WF st -> cur st n = Some z -> z_ups z <> [] -> is_normal (z_val z) = true ->
  (forall p vp kp b', z_before z = FCons p vp kp b' -> is_normal vp = false ->
     forall x, In x (level_vals (z_before z)) -> is_normal x = false)
  /\ (forall y, In y (level_vals (z_after z)) -> is_normal y = true).
Proof.
  intros W Hc Hne Hn. destruct (level_shape st n z W Hc Hne) as (c & Hcr & Hs). unfold z_level in Hs.
  rewrite frev_app_as_fapp in Hs. destruct c; [congruence| |].
  - (* under a document everything is ordinary *)
    split.
    + intros p vp kp b' Eb Hvp. exfalso. assert (is_normal vp = true) as Hx; [|congruence].
      apply (shape_doc_normal _ _ Hs). rewrite level_vals_fapp. apply in_or_app. left. apply level_vals_frev. rewrite Eb. left. reflexivity.
    + intros y Hy. apply (shape_doc_normal _ _ Hs). rewrite level_vals_fapp. apply in_or_app. right. right. exact Hy.
  - split.
    + intros p vp kp b' Eb Hvp x Hx. rewrite Eb in *. apply abnormal_rank. apply abnormal_rank in Hvp.
      destruct Hx as [<-|Hx]; [exact Hvp|].
      unfold frev in Hs. cbn [frev_app] in Hs. rewrite frev_app_as_fapp in Hs. rewrite fapp_assoc in Hs.
      assert (vrank x <= vrank vp)%nat; [|lia].
      apply (shape_elem_sorted _ _ _ Hs x vp); [apply level_vals_frev; exact Hx|]. cbn [fapp level_vals]. left. reflexivity.
    + intros y Hy. apply vrank_normal. pose proof (vrank_le2 y).
      assert (vrank (z_val z) <= vrank y)%nat as Hle.
      { rewrite <- (fapp_nil_r' (frev (z_before z))) in Hs. rewrite fapp_assoc in Hs. cbn [fapp] in Hs.
        apply (shape_elem_sorted (fapp (frev (z_before z)) (FCons (z_slot z) (z_val z) (z_kids z) FNil)) (z_after z) 0).
        - rewrite fapp_assoc. cbn [fapp]. exact Hs.
        - rewrite level_vals_fapp. apply in_or_app. right. left. reflexivity.
        - exact Hy. }
      apply vrank_normal in Hn. lia.
Qed.

(* ---------- element_wrap ---------- *)

(* the wrapper [w] where [z] stood, [z]'s node its only child *)
Definition wrapped (z : zipper) (w : N) (name : nameid) : zipper :=
  mkz w (VElement name) (FCons (z_slot z) (z_val z) (z_kids z) FNil) (z_before z) (z_after z) (z_ups z).

Lemma nodup_tail i v k r : NoDup (ids (FCons i v k r)) -> NoDup (ids r).
Proof. cbn [ids]. intros H. apply NoDup_cons_iff in H as [_ H]. apply NoDup_app_inv in H. tauto. Qed.

Theorem wrap_store_inner st n name z A B st' r :
  Good st -> cur st n = Some z -> store st = fapp A (fapp (plug z) B) -> z_ups z <> [] ->
  m_wrap st n name = (st', MDone r) ->
  exists w, r = Some w /\ ~ In w (ids (store st)) /\ store st' = fapp A (fapp (plug (wrapped z w name)) B).
Proof.
  intros G Hc E Hne. pose proof (Good_WF _ G) as W0. destruct (zview _ _ _ Hc) as [Htc _]. pose proof (cur_slot _ _ _ Hc) as Hzs.
  unfold m_wrap.
  destruct (is_type st n TDocument); [discriminate|].
  destruct (is_normal_node st n) eqn:Hnorm; cbn [negb]; [|discriminate].
  assert (is_normal (z_val z) = true) as Hnv by (unfold is_normal_node in Hnorm; rewrite (val_of_cur _ _ _ Hc) in Hnorm; exact Hnorm).
  destruct (level_sorted st n z W0 Hc Hne Hnv) as [Hbef Haft].
  assert (q_parent st n = oslot (up z)) as Hqp by (unfold q_parent; rewrite Hc; reflexivity). rewrite Hqp. unfold up.
  destruct (z_ups z) as [|fr ups] eqn:Eu; [congruence|]. cbn [oslot z_slot].
  destruct (is_type st (fr_slot fr) TDocument && negb (is_type st n TElement)); [discriminate|].
  destruct (new_node st (VElement name)) as [st1 w] eqn:En.
  destruct (Ext_new_node _ _ _ _ G En) as (X1 & Hni & Hst1 & _). pose proof (ext_good _ _ X1) as G1. pose proof (Good_WF _ G1) as W1.
  set (W := VElement name) in *. set (v := z_val z) in *. set (k := z_kids z) in *.
  set (P' := plug_ups (frev_app (z_before z) (z_after z)) (fr :: ups)).
  (* the node is cut out *)
  assert (store st1 = fapp (FCons w W FNil A) (fapp (plug z) B)) as E1 by (rewrite Hst1, E; reflexivity).
  pose proof (cur_of_view st1 z _ _ W1 Htc E1) as Hc1. rewrite Hzs in Hc1.
  pose proof (fcut_view st1 n z _ _ W1 Hc1 E1) as Hcut1. unfold cut_store in Hcut1. rewrite Eu in Hcut1. fold P' in Hcut1. fold v k in Hcut1.
  set (st2 := detach_raw st1 n).
  assert (store st2 = FCons n v k (FCons w W FNil (fapp A (fapp P' B)))) as Hst2 by (unfold st2, detach_raw; rewrite Hcut1; reflexivity).
  pose proof (Ext_detach_raw st1 n G1) as X2. fold st2 in X2. pose proof (ext_good _ _ X2) as G2.
  assert (In n (ids (store st))) as Hnin by (eapply cur_in; exact Hc).
  assert (n <> w) as Hnw by (intros ->; contradiction).
  assert (~ In w (ids k)) as Hwk.
  { intros H. apply Hni. eapply (find_incl n); [apply (find_of_cur _ _ _ Hc)|right; exact H]. }
  (* ... and put under the wrapper *)
  assert (path_in n (store st2) = Some []) as Hpn2 by (rewrite Hst2; cbn [path_in]; rewrite N.eqb_refl; reflexivity).
  assert (find w (store st2) = Some (W, FNil)) as Hfw2.
  { rewrite Hst2. cbn [find]. apply N.eqb_neq in Hnw. rewrite Hnw. rewrite (proj2 (find_none w k) Hwk). rewrite N.eqb_refl. reflexivity. }
  destruct (structure_check st2 (Some w) n) eqn:Hsc2.
  2:{ unfold m_append. rewrite Hsc2. cbn [negb]. discriminate. }
  rewrite (m_append_root_into_leaf st2 w n W G2 Hsc2 Hpn2 Hfw2).
  pose proof (Ext_m_append st2 w n G2) as X3. rewrite (m_append_root_into_leaf st2 w n W G2 Hsc2 Hpn2 Hfw2) in X3. cbn [fst] in X3.
  set (st3 := move st2 n (fun t f => fmap_kids w (fun k0 => fapp k0 t) f)) in *. pose proof (ext_good _ _ X3) as G3. pose proof (Good_WF _ G3) as W3.
  set (rest := fapp A (fapp P' B)).
  assert (store st3 = FCons w W (FCons n v k FNil) rest) as Hst3.
  { unfold st3, move. rewrite Hst2. cbn [fcut]. rewrite N.eqb_refl. cbn [with_store store single fmap_kids]. rewrite N.eqb_refl. reflexivity. }
  assert (cur st3 w = Some (mkz w W (FCons n v k FNil) FNil FNil [])) as Hw3.
  { apply (cur_of_view st3 (mkz w W (FCons n v k FNil) FNil FNil []) FNil rest W3); [reflexivity|]. rewrite Hst3. reflexivity. }
  assert (NoDup (ids rest)) as Hndr by (pose proof (proj1 W3) as H; rewrite Hst3 in H; exact (nodup_tail _ _ _ _ H)).
  assert (~ In w (ids rest)) as Hwr.
  { pose proof (proj1 W3) as H. rewrite Hst3 in H. cbn [ids] in H. apply NoDup_cons_iff in H as [H _]. intros Hx. apply H. apply in_or_app. right. exact Hx. }
  cbn [snd fst].
  (* the wrapper goes where the node was *)
  assert (q_prev st n = oslot (previous_sibling z)) as Hqv by (unfold q_prev; rewrite Hc; reflexivity). rewrite Hqv.
  unfold previous_sibling, left.
  destruct (z_before z) as [|p vp kp b'] eqn:Eb.
  - (* first child *)
    cbn [oslot].
    set (zP := mkz (fr_slot fr) (fr_val fr) (frev_app FNil (z_after z)) (fr_before fr) (fr_after fr) ups).
    assert (top_clean zP) as HtcP by (unfold top_clean in *; rewrite Eu in Htc; exact Htc).
    assert (rest = fapp A (fapp (plug zP) B)) as Erest by reflexivity.
    assert (cur st3 (fr_slot fr) = Some zP) as HP3.
    { apply (cur_of_view st3 zP (FCons w W (FCons n v k FNil) A) B W3 HtcP). rewrite Hst3, Erest. reflexivity. }
    destruct (structure_check st3 (Some (fr_slot fr)) w) eqn:Hsc3.
    2:{ unfold m_prepend. rewrite Hsc3. cbn [negb]. discriminate. }
    rewrite (m_prepend_root st3 (fr_slot fr) w _ Hsc3 Hw3 eq_refl eq_refl).
    2:{ intros Hf. apply Hwr. rewrite Erest, !ids_fapp. apply in_or_app. right. apply in_or_app. left.
        apply kid_in_plug. exact (first_child_in_kids st3 _ zP w HP3 Hf). }
    intros H. inversion H; subst st' r. exists w. split; [reflexivity|]. split; [exact Hni|].
    unfold move. rewrite Hst3. cbn [fcut]. rewrite N.eqb_refl. cbn [with_store store single].
    rewrite Erest. rewrite (kids_view _ zP A B ltac:(rewrite <- Erest; exact Hndr) HtcP).
    cbn [zP mkz z_kids frev_app]. rewrite insert_first_normal_split.
    destruct (abn_nrm_split FNil (z_after z) ltac:(intros x []) ltac:(destruct (z_after z) as [|j wv kk rr]; [exact I|apply Haft; left; reflexivity])) as [Ha Hn'].
    cbn [fapp] in Ha, Hn'. rewrite Ha, Hn'. cbn [fapp].
    unfold wrapped, plug, z_level. cbn [with_kids zP mkz z_ups z_before z_slot z_val z_kids z_after plug_ups]. rewrite Eu, Eb, ?Hzs. reflexivity.
  - destruct (vcat_eqb (zcat z) (zcat _)) eqn:Ecat; cbn [oslot z_slot].
    + (* after the previous sibling *)
      set (zp := mkz p vp kp b' (z_after z) (fr :: ups)).
      assert (top_clean zp) as Htcp by (unfold top_clean in *; rewrite Eu in Htc; exact Htc).
      assert (rest = fapp A (fapp (plug zp) B)) as Erest by reflexivity.
      destruct (sibling_check st3 p w) eqn:Hsib.
      2:{ unfold m_insert_after. rewrite Hsib. cbn [negb]. discriminate. }
      rewrite (m_insert_after_root st3 p w _ Hsib Hw3 eq_refl eq_refl).
      intros H. inversion H; subst st' r. exists w. split; [reflexivity|]. split; [exact Hni|].
      unfold move. rewrite Hst3. cbn [fcut]. rewrite N.eqb_refl. cbn [with_store store single].
      rewrite finsert_after_fact.
      rewrite (fact_inner _ rest zp A B Hndr Htcp ltac:(discriminate) Erest).
      unfold wrapped, plug, z_level, a_after. cbn [zp mkz z_ups z_before z_slot z_val z_kids z_after fapp]. rewrite Eu, Eb, ?Hzs. reflexivity.
    + (* the node before is an attribute or a namespace node: first ordinary child *)
      cbn [oslot].
      set (zP := mkz (fr_slot fr) (fr_val fr) (frev_app (FCons p vp kp b') (z_after z)) (fr_before fr) (fr_after fr) ups).
      assert (top_clean zP) as HtcP by (unfold top_clean in *; rewrite Eu in Htc; exact Htc).
      assert (rest = fapp A (fapp (plug zP) B)) as Erest by reflexivity.
      assert (cur st3 (fr_slot fr) = Some zP) as HP3.
      { apply (cur_of_view st3 zP (FCons w W (FCons n v k FNil) A) B W3 HtcP). rewrite Hst3, Erest. reflexivity. }
      destruct (structure_check st3 (Some (fr_slot fr)) w) eqn:Hsc3.
      2:{ unfold m_prepend. rewrite Hsc3. cbn [negb]. discriminate. }
      rewrite (m_prepend_root st3 (fr_slot fr) w _ Hsc3 Hw3 eq_refl eq_refl).
      2:{ intros Hf. apply Hwr. rewrite Erest, !ids_fapp. apply in_or_app. right. apply in_or_app. left.
          apply kid_in_plug. exact (first_child_in_kids st3 _ zP w HP3 Hf). }
      intros H. inversion H; subst st' r. exists w. split; [reflexivity|]. split; [exact Hni|].
      unfold move. rewrite Hst3. cbn [fcut]. rewrite N.eqb_refl. cbn [with_store store single].
      rewrite Erest. rewrite (kids_view _ zP A B ltac:(rewrite <- Erest; exact Hndr) HtcP).
      cbn [zP mkz z_kids]. rewrite insert_first_normal_split.
      assert (is_normal vp = false) as Hvp.
      { unfold zcat in Ecat. cbn [z_val] in Ecat. fold v in Ecat.
        assert (value_category v = CNormal) as Hcv by (unfold v; destruct (z_val z); try discriminate; reflexivity).
        rewrite Hcv in Ecat. destruct vp; try reflexivity; discriminate. }
      rewrite frev_app_as_fapp.
      destruct (abn_nrm_split (frev (FCons p vp kp b')) (z_after z)) as [Ha Hn'].
      { intros x Hx. apply (proj1 (level_vals_frev _ _)) in Hx. exact (Hbef p vp kp b' eq_refl Hvp x Hx). }
      { destruct (z_after z) as [|j wv kk rr]; [exact I|apply Haft; left; reflexivity]. }
      rewrite Ha, Hn'.
      unfold wrapped, plug, z_level. cbn [with_kids zP mkz z_ups z_before z_slot z_val z_kids z_after plug_ups]. rewrite Eu, Eb, ?Hzs.
      rewrite (frev_app_as_fapp (FCons p vp kp b')). reflexivity.
Qed.

Theorem wrap_store_root st n name z A B st' r :
  Good st -> cur st n = Some z -> store st = fapp A (fapp (plug z) B) -> z_ups z = [] ->
  m_wrap st n name = (st', MDone r) ->
  exists w, r = Some w /\ ~ In w (ids (store st))
    /\ store st' = FCons w (VElement name) (FCons n (z_val z) (z_kids z) FNil) (fapp A B).
Proof.
  intros G Hc E Eu. pose proof (Good_WF _ G) as W0. destruct (zview _ _ _ Hc) as [Htc _]. pose proof (cur_slot _ _ _ Hc) as Hzs.
  unfold m_wrap.
  destruct (is_type st n TDocument); [discriminate|].
  destruct (is_normal_node st n) eqn:Hnorm; cbn [negb]; [|discriminate].
  assert (q_parent st n = None) as -> by (unfold q_parent; rewrite Hc; unfold parent, up; rewrite Eu; reflexivity).
  destruct (new_node st (VElement name)) as [st1 w] eqn:En.
  destruct (Ext_new_node _ _ _ _ G En) as (X1 & Hni & Hst1 & _). pose proof (ext_good _ _ X1) as G1. pose proof (Good_WF _ G1) as W1.
  set (W := VElement name) in *.
  assert (store st1 = fapp (FCons w W FNil A) (fapp (plug z) B)) as E1 by (rewrite Hst1, E; reflexivity).
  pose proof (cur_of_view st1 z _ _ W1 Htc E1) as Hc1. rewrite Hzs in Hc1.
  pose proof (fcut_view st1 n z _ _ W1 Hc1 E1) as Hcut1. unfold cut_store in Hcut1. rewrite Eu in Hcut1.
  assert (path_in n (store st1) = Some []) as Hpn1 by (rewrite (cur_path _ _ _ Hc1), Eu; reflexivity).
  assert (find w (store st1) = Some (W, FNil)) as Hfw1 by (rewrite Hst1; cbn [find]; rewrite N.eqb_refl; reflexivity).
  destruct (structure_check st1 (Some w) n) eqn:Hsc.
  2:{ unfold m_append. rewrite Hsc. cbn [negb]. discriminate. }
  rewrite (m_append_root_into_leaf st1 w n W G1 Hsc Hpn1 Hfw1).
  intros H. inversion H; subst st' r. exists w. split; [reflexivity|]. split; [exact Hni|].
  unfold move. rewrite Hcut1. cbn [with_store store single fapp fmap_kids]. rewrite N.eqb_refl. reflexivity.
Qed.

(* ---------- the no-adjacent-text clause for element_wrap ---------- *)

Lemma na_wrap_level b n v k a w name :
  na_list (frev_app b (FCons n v k a)) = true -> na (frev_app b (FCons n v k a)) = true ->
  na_list (frev_app b (FCons w (VElement name) (FCons n v k FNil) a)) = true
  /\ na (frev_app b (FCons w (VElement name) (FCons n v k FNil) a)) = true.
Proof.
  rewrite !na_list_frev_app, !na_frev_app. cbn [na_list na head_text is_text_val andb negb].
  rewrite !andb_false_r. cbn [negb andb]. rewrite !andb_true_r.
  intros H1 H2. apply andb_true_iff in H1 as [H1 _]. apply andb_true_iff in H1 as [Hb Hx]. apply andb_true_iff in Hx as [_ Ha].
  apply andb_true_iff in H2 as [Hnb H2].
  rewrite Hb, Ha, Hnb, H2. split; reflexivity.
Qed.

Lemma noadj_m_wrap st n name : Good st -> noadj st -> noadj (fst (m_wrap st n name)).
Proof.
  intros G Hna. destruct (m_wrap st n name) as [st' o] eqn:Hm. cbn [fst]. destruct o as [r|e|].
  - destruct (cur st n) as [z|] eqn:Hc.
    2:{ exfalso. revert Hm. unfold m_wrap, is_type, is_normal_node, val. rewrite Hc. cbn [negb]. discriminate. }
    destruct (zview _ _ _ Hc) as [Htc (A & B & E)]. unfold noadj in *.
    destruct (z_ups z) as [|fr ups] eqn:Eu.
    + destruct (wrap_store_root st n name z A B st' r G Hc E Eu Hm) as (w & _ & _ & ->).
      rewrite E, (plug_root z Htc Eu), !na_fapp in Hna. cbn [na] in Hna. cbn [na na_list head_text]. rewrite na_fapp.
      apply andb_true_iff in Hna as [HA H]. apply andb_true_iff in H as [H HB]. apply andb_true_iff in H as [H _].
      rewrite HA, HB, H. rewrite ?andb_false_r. reflexivity.
    + destruct (wrap_store_inner st n name z A B st' r G Hc E ltac:(rewrite Eu; discriminate) Hm) as (w & _ & _ & ->).
      rewrite E in Hna. unfold plug, wrapped, z_level in *. cbn [mkz z_ups z_before z_slot z_val z_kids z_after] in *.
      rewrite Eu in *. rewrite na_store in *. rewrite lev_inner in * by discriminate.
      apply andb_true_iff in Hna as [H HB]. apply andb_true_iff in H as [HA H]. apply andb_true_iff in H as [H Hctx]. apply andb_true_iff in H as [H1 H2].
      destruct (na_wrap_level _ _ _ _ _ w name H1 H2) as [-> ->]. rewrite HA, HB, Hctx. reflexivity.
  - rewrite (wrap_refusal_atomic st n name st' e G Hm). exact Hna.
  - exfalso. apply (np_m_wrap st n name). rewrite Hm. reflexivity.
Qed.

Lemma cons_m_wrap st n name : cons (fst (m_wrap st n name)) = cons st.
Proof.
  unfold m_wrap. destruct (is_type st n TDocument); [reflexivity|]. destruct (negb (is_normal_node st n)); [reflexivity|].
  destruct (q_parent st n) as [parent|].
  - destruct (is_type st parent TDocument && negb (is_type st n TElement)); [reflexivity|].
    pose proof (cons_new_node st (VElement name)) as H1. destruct (new_node st (VElement name)) as [st1 w]. cbn [fst] in H1.
    pose proof (cons_detach_raw st1 n) as H2.
    pose proof (cons_m_append (detach_raw st1 n) w n) as H3. destruct (m_append (detach_raw st1 n) w n) as [st3 o3]. cbn [fst] in H3.
    destruct o3; cbn [fst]; try congruence.
    destruct (q_prev st n) as [p|].
    + pose proof (cons_m_insert_after st3 p w) as H4. destruct (m_insert_after st3 p w) as [st4 o4]. cbn [fst] in H4. destruct o4; cbn [fst]; congruence.
    + pose proof (cons_m_prepend st3 parent w) as H4. destruct (m_prepend st3 parent w) as [st4 o4]. cbn [fst] in H4. destruct o4; cbn [fst]; congruence.
  - pose proof (cons_new_node st (VElement name)) as H1. destruct (new_node st (VElement name)) as [st1 w]. cbn [fst] in H1.
    pose proof (cons_m_append st1 w n) as H3. destruct (m_append st1 w n) as [st3 o3]. cbn [fst] in H3. destruct o3; cbn [fst]; congruence.
Qed.

