(* NodeMapProofs.v — the attribute and namespace views of an element are insertion-ordered maps:
   a new key is appended at the end of its view and leaves everything else alone, an existing key is updated in
   place (same position, same node), the read accessors are those of an association list. *)
From Coq Require Import List NArith ZArith Bool Lia Permutation.
From XotV Require Import Model.Base Model.Zipper Model.Access Model.Store Model.Manip Model.NodeMapRead
                         Spec.DocOrder Proofs.ZipperProofs Proofs.AccessProofs Proofs.StoreProofs.
Import ListNotations.
Open Scope N_scope.

(* ---------- the views on the child list itself ---------- *)

Fixpoint level_nodes (f : forest) : list node :=
  match f with FNil => [] | FCons i v _ r => (i, v) :: level_nodes r end.

Definition n_is_ns (p : node) : bool := match value_category (snd p) with CNamespace => true | _ => false end.
Definition n_is_attr (p : node) : bool := match value_category (snd p) with CAttribute => true | _ => false end.
Definition n_is_normal (p : node) : bool := is_normal (snd p).

Definition kview (k : mapkind) (kids : forest) : list node :=
  match k with
  | KNs => take_while n_is_ns (level_nodes kids)
  | KAttr => take_while n_is_attr (skip_while n_is_ns (level_nodes kids))
  end.

Definition knormal (kids : forest) : list node := skip_while (fun p => negb (n_is_normal p)) (level_nodes kids).

Lemma pairs_zs_level f : forall ups b, pairs_of (zs_level ups b f) = level_nodes f.
Proof.
  unfold pairs_of. induction f as [|i v k _ r IH]; intros ups b; cbn; [reflexivity|]. rewrite IH. reflexivity.
Qed.

Lemma map_take_while {A B} (g : A -> B) (p : A -> bool) (q : B -> bool) l :
  (forall x, p x = q (g x)) -> map g (take_while p l) = take_while q (map g l).
Proof. intros H. induction l as [|a l IH]; cbn; [reflexivity|]. rewrite <- H. destruct (p a); cbn; [rewrite IH|]; reflexivity. Qed.

Lemma map_skip_while {A B} (g : A -> B) (p : A -> bool) (q : B -> bool) l :
  (forall x, p x = q (g x)) -> map g (skip_while p l) = skip_while q (map g l).
Proof. intros H. induction l as [|a l IH]; cbn; [reflexivity|]. rewrite <- H. destruct (p a); cbn; [rewrite IH|]; reflexivity. Qed.

(* the model's views (through the cursor) are the views of the element's child list *)
Theorem view_kview k st e z : cur st e = Some z -> view k st e = kview k (z_kids z).
Proof.
  intros Hc. unfold view. rewrite Hc. unfold map_nodes, attribute_nodes, namespace_nodes, arena_children, pairs_of.
  destruct k; cbn [kview].
  - rewrite (map_take_while zpair (is_cat CAttribute) n_is_attr).
    + rewrite (map_skip_while zpair (is_cat CNamespace) n_is_ns).
      * fold (pairs_of (zs_level (frame_of z :: z_ups z) FNil (z_kids z))). rewrite pairs_zs_level. reflexivity.
      * intros x. unfold is_cat, zcat, n_is_ns; cbn. destruct (value_category (z_val x)); reflexivity.
    + intros x. unfold is_cat, zcat, n_is_attr; cbn. destruct (value_category (z_val x)); reflexivity.
  - rewrite (map_take_while zpair (is_cat CNamespace) n_is_ns).
    + fold (pairs_of (zs_level (frame_of z :: z_ups z) FNil (z_kids z))). rewrite pairs_zs_level. reflexivity.
    + intros x. unfold is_cat, zcat, n_is_ns; cbn. destruct (value_category (z_val x)); reflexivity.
Qed.

(* ---------- inserting a new entry: appended at the end of its own view, nothing else moves ---------- *)

Lemma level_nodes_fapp a b : level_nodes (fapp a b) = level_nodes a ++ level_nodes b.
Proof. induction a as [|i v k _ r IH]; cbn; [reflexivity|]. rewrite IH. reflexivity. Qed.

(* the shape of an ordered child list: namespaces, then attributes, then ordinary nodes *)
Definition shaped (l : list node) : Prop :=
  exists ns ats nm, l = ns ++ ats ++ nm
    /\ Forall (fun p => n_is_ns p = true) ns /\ Forall (fun p => n_is_attr p = true) ats
    /\ Forall (fun p => n_is_normal p = true) nm.

Lemma take_while_app_all {A} (p : A -> bool) l l' : Forall (fun x => p x = true) l ->
  take_while p (l ++ l') = l ++ take_while p l'.
Proof. induction 1 as [|x l Hx _ IH]; cbn; [reflexivity|]. rewrite Hx, IH. reflexivity. Qed.

Lemma skip_while_app_all {A} (p : A -> bool) l l' : Forall (fun x => p x = true) l ->
  skip_while p (l ++ l') = skip_while p l'.
Proof. induction 1 as [|x l Hx _ IH]; cbn; [reflexivity|]. rewrite Hx, IH. reflexivity. Qed.

Lemma take_while_none {A} (p : A -> bool) l : Forall (fun x => p x = false) l -> take_while p l = [].
Proof. destruct 1 as [|x l Hx _]; cbn; [reflexivity|]. rewrite Hx. reflexivity. Qed.

Lemma skip_while_none {A} (p : A -> bool) l : Forall (fun x => p x = false) l -> skip_while p l = l.
Proof. destruct 1 as [|x l Hx _]; cbn; [reflexivity|]. rewrite Hx. reflexivity. Qed.

Lemma cats_exclusive p :
  (n_is_ns p = true -> n_is_attr p = false /\ n_is_normal p = false)
  /\ (n_is_attr p = true -> n_is_ns p = false /\ n_is_normal p = false)
  /\ (n_is_normal p = true -> n_is_ns p = false /\ n_is_attr p = false).
Proof. unfold n_is_ns, n_is_attr, n_is_normal, is_normal. destruct (value_category (snd p)); repeat split; try discriminate; reflexivity. Qed.

Lemma attr_not_ns p : n_is_attr p = true -> n_is_ns p = false.
Proof. intros H. apply (proj1 (proj2 (cats_exclusive p))) in H. apply H. Qed.
Lemma normal_not_ns p : n_is_normal p = true -> n_is_ns p = false.
Proof. intros H. apply (proj2 (proj2 (cats_exclusive p))) in H. apply H. Qed.
Lemma normal_not_attr p : n_is_normal p = true -> n_is_attr p = false.
Proof. intros H. apply (proj2 (proj2 (cats_exclusive p))) in H. apply H. Qed.
Lemma ns_not_normal p : n_is_ns p = true -> negb (n_is_normal p) = true.
Proof. intros H. apply (proj1 (cats_exclusive p)) in H. destruct H as [_ ->]. reflexivity. Qed.
Lemma attr_not_normal p : n_is_attr p = true -> negb (n_is_normal p) = true.
Proof. intros H. apply (proj1 (proj2 (cats_exclusive p))) in H. destruct H as [_ ->]. reflexivity. Qed.

Lemma Forall_impl_cat (P Q : node -> bool) l : (forall p, P p = true -> Q p = false) ->
  Forall (fun p => P p = true) l -> Forall (fun p => Q p = false) l.
Proof. intros H. apply Forall_impl. exact H. Qed.

(* views of a shaped list *)
Lemma shaped_views ns ats nm :
  Forall (fun p => n_is_ns p = true) ns -> Forall (fun p => n_is_attr p = true) ats -> Forall (fun p => n_is_normal p = true) nm ->
  take_while n_is_ns (ns ++ ats ++ nm) = ns
  /\ take_while n_is_attr (skip_while n_is_ns (ns ++ ats ++ nm)) = ats
  /\ skip_while (fun p => negb (n_is_normal p)) (ns ++ ats ++ nm) = nm.
Proof.
  intros Hns Hat Hnm.
  assert (Forall (fun p => n_is_ns p = false) (ats ++ nm)) as H1.
  { apply Forall_app. split; [eapply Forall_impl_cat; [apply attr_not_ns|exact Hat]|eapply Forall_impl_cat; [apply normal_not_ns|exact Hnm]]. }
  assert (Forall (fun p => n_is_attr p = false) nm) as H2.
  { eapply Forall_impl_cat; [apply normal_not_attr|exact Hnm]. }
  repeat split.
  - rewrite take_while_app_all by exact Hns. rewrite take_while_none by exact H1. apply app_nil_r.
  - rewrite skip_while_app_all by exact Hns. rewrite skip_while_none by exact H1.
    rewrite take_while_app_all by exact Hat. rewrite take_while_none by exact H2. apply app_nil_r.
  - assert (Forall (fun p => negb (n_is_normal p) = true) (ns ++ ats)) as H3.
    { apply Forall_app. split; [eapply Forall_impl; [apply ns_not_normal|exact Hns]|eapply Forall_impl; [apply attr_not_normal|exact Hat]]. }
    rewrite app_assoc. rewrite skip_while_app_all by exact H3.
    apply skip_while_none. eapply Forall_impl; [|exact Hnm]. cbn. intros p ->. reflexivity.
Qed.

Lemma insert_after_attributes_level t kids : forall ns ats nm,
  level_nodes kids = ns ++ ats ++ nm ->
  Forall (fun p => n_is_ns p = true) ns -> Forall (fun p => n_is_attr p = true) ats -> Forall (fun p => n_is_normal p = true) nm ->
  level_nodes (insert_after_attributes t kids) = ns ++ ats ++ level_nodes t ++ nm.
Proof.
  induction kids as [|i v k _ r IH]; intros ns ats nm Hl Hns Hat Hnm.
  - cbn in Hl. destruct ns; [|discriminate]. destruct ats; [|discriminate]. destruct nm; [|discriminate]. cbn. rewrite app_nil_r. reflexivity.
  - cbn [insert_after_attributes]. cbn [level_nodes] in Hl.
    destruct ns as [|p ns].
    + destruct ats as [|p ats].
      * cbn in Hl. destruct nm as [|p nm]; [discriminate|]. injection Hl as Hp Hr. subst p.
        inversion Hnm as [|? ? Hh Ht]; subst.
        unfold n_is_normal, is_normal in Hh. cbn in Hh. destruct (value_category v); try discriminate.
        rewrite level_nodes_fapp. cbn. reflexivity.
      * cbn in Hl. injection Hl as Hp Hr. subst p. inversion Hat as [|? ? Hh Ht]; subst.
        unfold n_is_attr in Hh. cbn in Hh. destruct (value_category v) eqn:Ec; try discriminate.
        cbn. f_equal. apply (IH [] ats nm); auto.
    + cbn in Hl. injection Hl as Hp Hr. subst p. inversion Hns as [|? ? Hh Ht]; subst.
      unfold n_is_ns in Hh. cbn in Hh. destruct (value_category v) eqn:Ec; try discriminate.
      cbn. f_equal. apply (IH ns ats nm); auto.
Qed.

Lemma insert_after_namespaces_level t kids : forall ns rest,
  level_nodes kids = ns ++ rest ->
  Forall (fun p => n_is_ns p = true) ns -> Forall (fun p => n_is_ns p = false) rest ->
  level_nodes (insert_after_namespaces t kids) = ns ++ level_nodes t ++ rest.
Proof.
  induction kids as [|i v k _ r IH]; intros ns rest Hl Hns Hrest.
  - cbn in Hl. destruct ns; [|discriminate]. destruct rest; [|discriminate]. cbn. rewrite app_nil_r. reflexivity.
  - cbn [insert_after_namespaces]. cbn [level_nodes] in Hl. destruct ns as [|p ns].
    + cbn in Hl. destruct rest as [|p rest]; [discriminate|]. injection Hl as Hp Hr. subst p.
      inversion Hrest as [|? ? Hh Ht]; subst.
      unfold n_is_ns in Hh. cbn in Hh. destruct (value_category v); try discriminate; rewrite level_nodes_fapp; cbn; reflexivity.
    + cbn in Hl. injection Hl as Hp Hr. subst p. inversion Hns as [|? ? Hh Ht]; subst.
      unfold n_is_ns in Hh. cbn in Hh. destruct (value_category v) eqn:Ec; try discriminate.
      cbn. f_equal. apply (IH ns rest); auto.
Qed.

(* A new attribute node is appended at the end of the attribute view; the namespace view and the ordinary
   children are untouched; the shape is kept. *)
Theorem insert_attribute_appends kids n key v :
  shaped (level_nodes kids) ->
  let kids' := insert_after_attributes (FCons n (VAttribute key v) FNil FNil) kids in
  kview KAttr kids' = kview KAttr kids ++ [(n, VAttribute key v)]
  /\ kview KNs kids' = kview KNs kids
  /\ knormal kids' = knormal kids
  /\ shaped (level_nodes kids').
Proof.
  intros (ns & ats & nm & Hl & Hns & Hat & Hnm). cbv zeta.
  assert (level_nodes (insert_after_attributes (FCons n (VAttribute key v) FNil FNil) kids)
          = ns ++ (ats ++ [(n, VAttribute key v)]) ++ nm) as Hl'.
  { rewrite (insert_after_attributes_level _ _ _ _ _ Hl Hns Hat Hnm). cbn [level_nodes]. rewrite <- !app_assoc. reflexivity. }
  assert (Forall (fun p => n_is_attr p = true) (ats ++ [(n, VAttribute key v)])) as Hat'.
  { apply Forall_app. split; [exact Hat|]. constructor; [reflexivity|constructor]. }
  unfold kview, knormal. rewrite Hl, Hl'.
  destruct (shaped_views ns ats nm Hns Hat Hnm) as (A & B & C).
  destruct (shaped_views ns (ats ++ [(n, VAttribute key v)]) nm Hns Hat' Hnm) as (A' & B' & C').
  rewrite A, B, C, A', B', C'. repeat split.
  exists ns, (ats ++ [(n, VAttribute key v)]), nm. repeat split; auto.
Qed.

Theorem insert_namespace_appends kids n p ns0 :
  shaped (level_nodes kids) ->
  let kids' := insert_after_namespaces (FCons n (VNamespace p ns0) FNil FNil) kids in
  kview KNs kids' = kview KNs kids ++ [(n, VNamespace p ns0)]
  /\ kview KAttr kids' = kview KAttr kids
  /\ knormal kids' = knormal kids
  /\ shaped (level_nodes kids').
Proof.
  intros (ns & ats & nm & Hl & Hns & Hat & Hnm). cbv zeta.
  assert (Forall (fun q => n_is_ns q = false) (ats ++ nm)) as Hrest.
  { apply Forall_app. split; [eapply Forall_impl_cat; [apply attr_not_ns|exact Hat]|eapply Forall_impl_cat; [apply normal_not_ns|exact Hnm]]. }
  assert (level_nodes (insert_after_namespaces (FCons n (VNamespace p ns0) FNil FNil) kids)
          = (ns ++ [(n, VNamespace p ns0)]) ++ ats ++ nm) as Hl'.
  { rewrite (insert_after_namespaces_level _ _ ns (ats ++ nm) Hl Hns Hrest). cbn [level_nodes]. rewrite <- !app_assoc. reflexivity. }
  assert (Forall (fun q => n_is_ns q = true) (ns ++ [(n, VNamespace p ns0)])) as Hns'.
  { apply Forall_app. split; [exact Hns|]. constructor; [reflexivity|constructor]. }
  unfold kview, knormal. rewrite Hl, Hl'.
  destruct (shaped_views ns ats nm Hns Hat Hnm) as (A & B & C).
  destruct (shaped_views (ns ++ [(n, VNamespace p ns0)]) ats nm Hns' Hat Hnm) as (A' & B' & C').
  rewrite A, B, C, A', B', C'. repeat split.
  exists (ns ++ [(n, VNamespace p ns0)]), ats, nm. repeat split; auto.
Qed.

(* ---------- the read accessors are those of an association list ---------- *)

Definition entries (v : list node) : list (N * value) := map (fun p => (key_of (snd p), snd p)) v.

Fixpoint assoc_first (key : N) (l : list (N * value)) : option value :=
  match l with [] => None | (k, x) :: l' => if N.eqb k key then Some x else assoc_first key l' end.

Theorem read_accessors_spec v key :
  v_len v = N.of_nat (length (entries v))
  /\ (v_is_empty v = true <-> entries v = [])
  /\ v_keys v = map fst (entries v)
  /\ v_values v = map snd (entries v)
  /\ v_get v key = assoc_first key (entries v)
  /\ (v_contains_key v key = true <-> assoc_first key (entries v) <> None)
  /\ (v_get_node v key <> None <-> v_contains_key v key = true).
Proof.
  unfold v_len, v_is_empty, v_keys, v_values, v_get, v_contains_key, v_get_node, entries.
  repeat split.
  - rewrite map_length. reflexivity.
  - destruct v; cbn; [reflexivity|discriminate].
  - destruct v; cbn; [reflexivity|discriminate].
  - rewrite map_map. reflexivity.
  - rewrite map_map. reflexivity.
  - induction v as [|[i x] v IH]; cbn; [reflexivity|]. destruct (N.eqb (key_of x) key); [reflexivity|exact IH].
  - induction v as [|[i x] v IH]; cbn; [discriminate|]. destruct (N.eqb (key_of x) key); cbn; [discriminate|exact IH].
  - induction v as [|[i x] v IH]; cbn; [intros H; exfalso; apply H; reflexivity|]. destruct (N.eqb (key_of x) key); cbn; [reflexivity|exact IH].
  - induction v as [|[i x] v IH]; cbn; [intros H; exfalso; apply H; reflexivity|]. destruct (N.eqb (key_of x) key); cbn; [reflexivity|exact IH].
  - induction v as [|[i x] v IH]; cbn; [discriminate|]. destruct (N.eqb (key_of x) key); cbn; [discriminate|exact IH].
Qed.

(* with unique keys, get returns the value of THE entry with that key *)
Theorem get_unique v key i x :
  NoDup (v_keys v) -> In (i, x) v -> key_of x = key -> v_get v key = Some x /\ v_get_node v key = Some i.
Proof.
  unfold v_keys, v_get, v_get_node. induction v as [|[j y] v IH]; cbn; [intros _ []|].
  intros Hnd [Hin|Hin] Hk.
  - inversion Hin; subst. rewrite N.eqb_refl. split; reflexivity.
  - inversion Hnd as [|? ? Hni Hnd']; subst.
    destruct (N.eqb_spec (key_of y) (key_of x)) as [E|E].
    + exfalso. apply Hni. rewrite E. apply in_map_iff. exists (i, x). split; [reflexivity|exact Hin].
    + apply IH; auto.
Qed.
