(* C07 — Axes and traversals obey the XPath document-order laws.
   Pinned statements only.  Model: Model/Zipper.v (cursor = NodeId), Model/Access.v (src/access.rs,
   src/levelorder.rs); spec: Spec/DocOrder.v (document order = pre-order list of (slot, value) pairs). *)
From Coq Require Import List NArith Permutation.
From XotV Require Import Model.Base Model.Zipper Model.Access Spec.DocOrder Proofs.ZipperProofs Proofs.AccessProofs.
Import ListNotations.
Open Scope N_scope.

(* document order of the tree around any cursor: before ++ self ++ descendants ++ after *)
Theorem C07_doc_order_split :
  forall z, doc_order z = pre z ++ zpair z :: sub z ++ post z.
Proof. exact doc_order_split. Qed.
Print Assumptions C07_doc_order_split.

(* every cursor move stays inside the same tree *)
Theorem C07_moves_stay_in_tree :
  forall z z', (right z = Some z' \/ left z = Some z' \/ down_first z = Some z' \/ down_last z = Some z' \/ up z = Some z')
               -> plug z' = plug z.
Proof.
  intros z z' [H|[H|[H|[H|H]]]];
    [exact (plug_right _ _ H)|exact (plug_left _ _ H)|exact (plug_down_first _ _ H)|exact (plug_down_last _ _ H)|exact (plug_up _ _ H)].
Qed.
Print Assumptions C07_moves_stay_in_tree.

(* Following (all_following): exactly the nodes after the subtree, in document order; the pointer-chasing
   loop terminates within the fuel it is given (no bound on the tree) *)
Theorem C07_all_following :
  forall z, pairs_of (all_following z) = post z.
Proof. exact all_following_slots. Qed.
Print Assumptions C07_all_following.

Theorem C07_following :
  forall z, pairs_of (following z) = filter nnormal (post z).
Proof. exact following_pairs. Qed.
Print Assumptions C07_following.

(* ReversePreorder: the node, then everything before it (ancestors included) in reverse document order *)
Theorem C07_all_reverse_preorder :
  forall z, pairs_of (all_reverse_preorder z) = zpair z :: rev (pre z).
Proof. exact all_reverse_preorder_slots. Qed.
Print Assumptions C07_all_reverse_preorder.

Theorem C07_reverse_preorder :
  forall z, pairs_of (reverse_preorder z) = filter nnormal (zpair z :: rev (pre z)).
Proof. exact reverse_preorder_pairs. Qed.
Print Assumptions C07_reverse_preorder.

(* ancestors: the node, then its ancestors nearest first (reverse document order) *)
Theorem C07_ancestors :
  forall z, pairs_of (ancestors z) = zpair z :: ancestor_slots z.
Proof. exact ancestors_slots. Qed.
Print Assumptions C07_ancestors.

(* descendants: the node and its subtree in document order (ordinary nodes only for the plain variant) *)
Theorem C07_all_descendants :
  forall z, pairs_of (all_descendants z) = zpair z :: sub z.
Proof. exact arena_descendants_slots. Qed.
Print Assumptions C07_all_descendants.

Theorem C07_descendants :
  forall z, pairs_of (descendants z) = filter nnormal (zpair z :: sub z).
Proof. exact descendants_pairs. Qed.
Print Assumptions C07_descendants.

(* preceding: the ordinary nodes before the node that are not ancestors, in reverse document order *)
Theorem C07_preceding :
  forall z, ordered (plug z) = true -> pairs_of (preceding z) = rev (filter nnormal (before z)).
Proof. exact preceding_pairs. Qed.
Print Assumptions C07_preceding.

(* [pre] is the ancestors (outermost first) interleaved with the preceding nodes *)
Theorem C07_pre_is_ancestors_and_before :
  forall z, Permutation (pre z) (rev (ancestor_slots z) ++ before z).
Proof. exact pre_perm. Qed.
Print Assumptions C07_pre_is_ancestors_and_before.

(* THE partition law: for an ordinary node of any ordered tree, ancestors, descendants, preceding, following
   and the node itself partition the ordinary nodes of its tree *)
Theorem C07_ordinary_partition :
  forall z, ordered (plug z) = true -> is_normal (z_val z) = true ->
    Permutation (filter nnormal (doc_order z))
                (pairs_of (tl (ancestors z)) ++ pairs_of (tl (descendants z)) ++ pairs_of (preceding z)
                 ++ pairs_of (following z) ++ [zpair z]).
Proof. exact ordinary_partition. Qed.
Print Assumptions C07_ordinary_partition.

(* and on the raw tree (namespace and attribute nodes included), for every node of every tree *)
Theorem C07_raw_partition :
  forall z, Permutation (doc_order z) (ancestor_slots z ++ sub z ++ before z ++ post z ++ [zpair z]).
Proof. exact raw_partition. Qed.
Print Assumptions C07_raw_partition.

(* children are the ordinary arena children in order; all_children = namespaces, attributes, children *)
Theorem C07_children :
  forall z, ordered (plug z) = true -> children z = filter znormal (arena_children z).
Proof. exact children_spec. Qed.
Print Assumptions C07_children.

Theorem C07_all_children_order :
  forall z, ordered (plug z) = true -> arena_children z = namespace_nodes z ++ attribute_nodes z ++ children z.
Proof. exact all_children_order. Qed.
Print Assumptions C07_all_children_order.

(* the plain variants never expose namespace or attribute nodes *)
Theorem C07_plain_variants_ordinary :
  forall z,
    Forall (fun c => znormal c = true) (descendants z)
    /\ Forall (fun c => znormal c = true) (following z)
    /\ Forall (fun c => znormal c = true) (reverse_preorder z)
    /\ Forall (fun e => edge_normal e = true) (traverse z)
    /\ Forall (fun e => edge_normal e = true) (reverse_traverse z)
    /\ Forall (fun c => znormal c = true) (reverse_children z).
Proof. exact plain_variants_ordinary. Qed.
Print Assumptions C07_plain_variants_ordinary.

(* an ordered tree gives, around every cursor: ancestors are ordinary nodes, only ordinary nodes have children *)
Theorem C07_ordered_tree_shape :
  forall z, ordered (plug z) = true ->
    zwf z /\ (is_normal (z_val z) = true -> ordered (z_kids z) = true)
    /\ ordered_from (rank (z_val z)) (z_after z) = true.
Proof. exact ordered_zwf. Qed.
Print Assumptions C07_ordered_tree_shape.
