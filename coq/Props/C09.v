(* C09 — Namespace scope queries agree with nearest-declaration-wins scoping.
   Pinned statements only.  Model: Model/Scope.v (src/nameaccess.rs, src/xmlname/reference.rs), Model/Fullname.v.
   Specification: [nearest z p] = the FIRST declaration of prefix p in the list of all declarations of the
   ancestor-or-self chain, nearest element first, followed by the built-in xml binding; [bound] drops xmlns="". *)
From Coq Require Import List NArith.
From XotV Require Import Model.Base Model.Zipper Model.Access Model.Fullname Model.Scope Proofs.ScopeProofs.
Import ListNotations.
Open Scope N_scope.

(* namespaces_in_scope reports (p, ns) exactly when p is bound to ns *)
Theorem C09_namespaces_in_scope_spec :
  forall ep xp nn xn z p ns,
    In (p, ns) (namespaces_in_scope ep xp nn xn z) <-> bound ep xp nn xn z p = Some ns.
Proof. exact namespaces_in_scope_spec. Qed.
Print Assumptions C09_namespaces_in_scope_spec.

(* namespace_for_prefix(p) = the binding of p (legal declarations: only the empty prefix is ever undeclared) *)
Theorem C09_namespace_for_prefix_spec :
  forall ep xp nn xn z p, legal ep xp nn xn z -> namespace_for_prefix xp nn xn z p = bound ep xp nn xn z p.
Proof. exact namespace_for_prefix_spec. Qed.
Print Assumptions C09_namespace_for_prefix_spec.

(* prefix_for_namespace: sound (the prefix returned has the namespace as its nearest declaration) and complete
   (None only when no usable prefix has); also for the attribute-name variant that may not use the empty prefix *)
Theorem C09_prefix_for_namespace_spec :
  forall ep xp xn z ns ae,
    match prefix_for_namespace_with ep xp xn z ns ae with
    | Some p => nearest xp xn z p = Some ns /\ usable ep ae p = true
    | None => forall p, usable ep ae p = true -> nearest xp xn z p <> Some ns
    end.
Proof. exact prefix_for_namespace_spec. Qed.
Print Assumptions C09_prefix_for_namespace_spec.

Theorem C09_is_prefix_defined_spec :
  forall ep xp nn xn z p, legal ep xp nn xn z -> (is_prefix_defined xp nn xn z p = true <-> bound ep xp nn xn z p <> None).
Proof. exact is_prefix_defined_spec. Qed.
Print Assumptions C09_is_prefix_defined_spec.

(* the qualified name reported for a node's own name resolves back, by the rules for its kind *)
Theorem C09_full_name_resolves :
  forall ep xp nn xn ns_of_name z name r,
    full_name_prefix ep xp nn xn ns_of_name z name = Some r ->
    match r with
    | Some p => p <> ep /\ nearest xp xn z p = Some (ns_of_name name)
    | None => ns_of_name name = nn
              \/ (ns_of_name name <> nn /\ is_attribute_node z = false /\ nearest xp xn z ep = Some (ns_of_name name))
    end.
Proof. exact full_name_resolves. Qed.
Print Assumptions C09_full_name_resolves.

Theorem C09_missing_prefix_only_when_unbound :
  forall ep xp nn xn ns_of_name z name,
    full_name_prefix ep xp nn xn ns_of_name z name = None ->
    ns_of_name name <> nn
    /\ forall p, usable ep (negb (is_attribute_node z)) p = true -> nearest xp xn z p <> Some (ns_of_name name).
Proof. exact full_name_missing_prefix. Qed.
Print Assumptions C09_missing_prefix_only_when_unbound.

(* the reported name means the node's expanded name, outside the one known mechanism (known finding:
   an element in no namespace inside the scope of a default-namespace declaration) *)
Theorem C09_qname_resolves_unless_known :
  forall ep xp nn xn ns_of_name z name r,
    full_name_prefix ep xp nn xn ns_of_name z name = Some r ->
    ~ known_default_capture ep xp nn xn ns_of_name z name ->
    resolve_qname ep xp nn xn z r = ns_of_name name.
Proof. exact qname_resolves_unless_known. Qed.
Print Assumptions C09_qname_resolves_unless_known.

(* ... and inside it the statement is false: the witness of the known finding *)
Theorem C09_qname_resolves_refuted :
  exists z name,
    let ns_of_name := fun _ : nameid => 0 in
    full_name_prefix 0 1 0 1 ns_of_name z name = Some None
    /\ known_default_capture 0 1 0 1 ns_of_name z name
    /\ resolve_qname 0 1 0 1 z None <> ns_of_name name.
Proof. exact qname_resolves_refuted. Qed.
Print Assumptions C09_qname_resolves_refuted.
