(* C06src — the source-level tie of the one refusal of the value setters: the text Comment::set refuses is the literal
   tools/gen_tables.py read from /repo/src/xmlvalue.rs on this run (Gen/Tables.v [src_comment_refused]), and the setter has the shape
   "refuse if the new text contains the literal, otherwise store it" (the translator reads the tables only from that shape).
   Built by ./check only when the translator could read it (src_values_read = true).  Pinned statements only. *)
From Coq Require Import List NArith.
From XotV Require Import Model.Base Model.Manip Gen.Tables Proofs.ValueTables.
Import ListNotations.
Open Scope N_scope.

Theorem C06_comment_check_is_the_sources :
  forall s, has_double_dash s = contains src_comment_refused s.
Proof. exact comment_check_is_the_sources. Qed.
Print Assumptions C06_comment_check_is_the_sources.
