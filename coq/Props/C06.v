(* C06 — A refused manipulation changes nothing; calls on live nodes do not panic.
   Pinned statements only.  Model: Model/Store.v, Model/Manip.v (src/manipulation.rs, src/nodemap/core.rs). *)
From Coq Require Import List NArith.
From XotV Require Import Model.Base Model.Zipper Model.Access Model.Store Model.Manip Proofs.ManipProofs Proofs.InvSteps Proofs.Atomic Proofs.NoPanic Proofs.CloneShape.
Import ListNotations.
Open Scope N_scope.

(* every operation that does not call other public operations half-way: an error leaves the state untouched *)
Theorem C06_refusal_atomic_direct :
  forall st o st' e, nested_op o = false -> mstep st o = (st', MErr e) -> st' = st.
Proof. exact refusal_atomic_direct. Qed.
Print Assumptions C06_refusal_atomic_direct.

(* EVERY call of the node-level API that returns an error leaves the store exactly as it was, in every good state (every
   state reachable by C04_every_reachable_store_is_good): also replace, element_wrap and new_document_with_element, which
   call other operations half-way — once their own validation has passed, the inner append / prepend / insert_after cannot
   be refused (Proofs/Atomic.v: the argument checks are re-established in the intermediate states from the paths and
   values that the detach / creation steps leave untouched) *)
Theorem C06_refusal_atomic :
  forall st o st' e, Good st -> mstep st o = (st', MErr e) -> st' = st.
Proof. exact refusal_atomic. Qed.
Print Assumptions C06_refusal_atomic.

(* replace: an error either leaves the state untouched or comes from an inner call after full validation *)
Theorem C06_replace_refusal_partial :
  forall st a b st' e,
    m_replace st a b = (st', MErr e) ->
    st' = st \/ exists parent, q_parent st a = Some parent /\ structure_check st (Some parent) b = true
                               /\ is_normal_node st a = true /\ a <> b.
Proof. exact replace_refusal. Qed.
Print Assumptions C06_replace_refusal_partial.

(* the element-only accessors panic exactly on non-elements (the documented panics) and then change nothing *)
Theorem C06_element_only_panics_iff_not_element :
  forall st o e, element_only o = Some e ->
    (snd (mstep st o) = MPanic <-> is_type st e TElement = false)
    /\ (is_type st e TElement = false -> fst (mstep st o) = st).
Proof. exact element_only_panics_iff_not_element. Qed.
Print Assumptions C06_element_only_panics_iff_not_element.

(* creation, detach, remove, the value setters and the consolidation switch never panic and never fail *)
Theorem C06_value_setters_total :
  forall st o,
    match o with
    | OSetText _ _ | OSetPiData _ _ | OSetAttrValue _ _ | OSetNsValue _ _ | OCons _ | ODetach _ | ORemove _
    | ONewDoc | ONewEl _ | ONewText _ | ONewComment _ | ONewPi _ _ | ONewAttr _ _ | ONewNs _ _ =>
        exists r, snd (mstep st o) = MDone r
    | OSetComment _ _ => snd (mstep st o) <> MPanic
    | _ => True
    end.
Proof. exact value_setters_total. Qed.
Print Assumptions C06_value_setters_total.

(* "A manipulation call ... never panics apart from the documented panics of the element-only accessors": in every good store
   (C04: every reachable one) a call of the node-level API whose outcome is the model's Panic is either one of the element-only
   accessors applied to a non-element (the documented panics), or clone_node.
   This first statement leaves clone_node out; C06_no_panic below closes it. *)
Theorem C06_no_panic_partial :
  forall st o, Good st -> snd (mstep st o) = MPanic ->
    (exists n, o = OCloneNode n) \/ (exists e, element_only o = Some e /\ is_type st e TElement = false).
Proof. exact no_panic_partial. Qed.
Print Assumptions C06_no_panic_partial.

(* Calls on live nodes do not panic, the whole node-level API: the only calls that reach a panic in a good store are the
   element-only accessors applied to a non-element (the documented panics) and clone_node of a handle that denotes no node.
   For clone_node this is the clone-shape theorem of C12 (Proofs/CloneShape.v): the replay of the source's edges never
   unwraps a refused append or a missing parent, and the temporary top element does have the first child that is returned. *)
Theorem C06_no_panic :
  forall st o, Good st -> snd (mstep st o) = MPanic ->
    (exists n, o = OCloneNode n /\ cur st n = None) \/ (exists e, element_only o = Some e /\ is_type st e TElement = false).
Proof. exact no_panic. Qed.
Print Assumptions C06_no_panic.
