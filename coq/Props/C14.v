(* C14 — Serialisation options change the spelling, never the content.
   Pinned statements only.  Model: Model/Entity.v (serialize_cdata, serialize_text), Model/XmlSer.v (Pretty). *)
From Coq Require Import List NArith.
From XotV Require Import Model.Base Model.Zipper Model.Access Model.Fullname Model.Scope Model.Entity Model.XmlSer
                         Proofs.EntityProofs Proofs.XmlSerProofs Proofs.PrettyProofs.
Import ListNotations.
Open Scope N_scope.

(* CDATA-section elements: for EVERY text — runs of ']' and '>', "]]>" itself, carriage returns — the sections written
   (split where "]]>" would form, closed around a CR that is written as a reference) decode to exactly the text *)
Theorem C14_cdata_roundtrip : forall s, cdata_decode (serialize_cdata s) = Some s.
Proof. exact cdata_roundtrip. Qed.
Print Assumptions C14_cdata_roundtrip.

(* unescaped_gt on or off: the text reads back as itself and never contains "]]>" *)
Theorem C14_unescaped_gt_roundtrip :
  forall g base s, parse_text base (serialize_text g s) = inr s /\ no_cdata_end false false (serialize_text g s) = true.
Proof. intros g base s. split; [apply parse_serialize_text|apply serialize_text_no_cdata_end]. Qed.
Print Assumptions C14_unescaped_gt_roundtrip.

(* the XML declaration is a prefix of the output and nothing else changes *)
Theorem C14_declaration_is_a_prefix :
  forall nm e sa prm z s, serialize_xml nm None None prm z = inr s ->
    serialize_xml nm (Some (e, sa)) None prm z = inr (declaration_text e sa ++ s).
Proof.
  intros nm e sa prm z s. unfold serialize_xml. destruct (serialize_write nm prm z); [discriminate|].
  intros H; inversion H; reflexivity.
Qed.
Print Assumptions C14_declaration_is_a_prefix.

(* indentation: the pretty tokens are the plain tokens (same nodes, events, texts, in the same order) plus an indentation
   made of spaces before and at most one line feed after each *)
Theorem C14_pretty_adds_only_white_space :
  forall nm sup inl prm evs st ps,
    match pretty_all nm sup inl prm st ps evs, render_all nm prm st evs with
    | inr lp, inr l => map (fun x => (fst x, (pt_space (snd x), pt_text (snd x)))) lp
                       = map (fun x => (fst x, (t_space (snd x), t_text (snd x)))) l
    | inl e, inl e' => e = e'
    | _, _ => False
    end.
Proof. exact pretty_all_same_tokens. Qed.
Print Assumptions C14_pretty_adds_only_white_space.

Theorem C14_pretty_token_shape :
  forall (t : ptoken), ptoken_text t = spaces (pt_indent t) ++ (if pt_space t then [32] else []) ++ pt_text t ++ (if pt_newline t then [10] else [])
    /\ Forall (fun c => c = 32) (spaces (pt_indent t)).
Proof. intros t. split; [reflexivity|apply spaces_are_spaces]. Qed.
Print Assumptions C14_pretty_token_shape.

(* none of it is written where it would change content: while an enclosing element is mixed (has a text or inline child)
   or suppressed, or the innermost xml:space decision is preserve, no indentation precedes and no newline follows any
   event; text itself is never indented or followed by a newline *)
Theorem C14_no_white_space_in_quiet_scope :
  forall nm sup inl st z o st' ind nl,
    prettify nm sup inl st z o = (st', ind, nl) ->
    (quiet st = true -> ind = O) /\ (quiet st' = true -> nl = false).
Proof. exact prettify_quiet. Qed.
Print Assumptions C14_no_white_space_in_quiet_scope.

Theorem C14_text_never_indented :
  forall nm sup inl st z s, prettify nm sup inl st z (OText s) = (st, O, false).
Proof. exact prettify_text. Qed.
Print Assumptions C14_text_never_indented.

(* what makes a scope quiet: a text / inline child or a suppressed name pushes Mixed, xml:space="preserve" pushes Preserve;
   everything nested below Mixed stays quiet; below Preserve it stays quiet until an inner xml:space="default" *)
Theorem C14_quiet_scopes :
  forall st, quiet (Mixed :: st) = true
    /\ (in_mixed st = false -> quiet (Unmixed SpPreserve :: st) = true)
    /\ (forall e, in_mixed st = true -> quiet (e :: st) = true)
    /\ (in_space_preserve st = true -> quiet (Unmixed SpEmpty :: st) = true /\ quiet (Unmixed SpPreserve :: st) = true).
Proof.
  intros st. split; [apply quiet_mixed|]. split; [apply quiet_preserve|]. split; [intros e; apply quiet_mixed_below|apply quiet_preserve_below].
Qed.
Print Assumptions C14_quiet_scopes.
