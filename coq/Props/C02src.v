(* C02src — the source-level tie of C02's character tables: the model's functions ARE the tables tools/gen_tables.py read from
   /repo/src on this run (Gen/Tables.v).  Built by ./check only when the translator could read those tables
   (Gen/Tables.v src_tables_read = true); otherwise the tie of these functions to the crate is the correspondence run alone,
   and the evidence says so.  Pinned statements only. *)
From Coq Require Import List NArith.
From XotV Require Import Model.Base Model.Entity Gen.Tables Proofs.EntityTables.
Import ListNotations.
Open Scope N_scope.

(* the predefined entities the model resolves are the arms of `match entity.as_str()` in src/entity.rs as it is today
   (Gen/Tables.v [named_entities], regenerated on every run): every other name is refused, each of these denotes its character *)
Theorem C02_predefined_entities_are_the_sources :
  forall name, named_entity name = assoc_str name named_entities.
Proof. exact named_entity_is_the_table. Qed.
Print Assumptions C02_predefined_entities_are_the_sources.
