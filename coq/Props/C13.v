(* C13 — deep_equal is canonical-form equivalence; its variants relax it as documented.
   Pinned statements only.  Model: Model/Compare.v (src/valueaccess.rs). *)
From Coq Require Import List NArith Permutation.
From XotV Require Import Model.Base Model.Compare Proofs.CompareProofs.
Import ListNotations.
Open Scope N_scope.

(* the edge stream of a filtered traversal is the edge stream of the kept tree *)
Theorem C13_edges_of_kept_tree :
  forall keep f, cedges keep f = sedges (kf keep f).
Proof. exact cedges_kf. Qed.
Print Assumptions C13_edges_of_kept_tree.

(* the zip loop of advanced_deep_equal (including its leftover test) compares the kept trees node by node,
   for every filter and every text comparison, trees of any size *)
Theorem C13_zip_is_structural_comparison :
  forall tc keep fa fb, zipcmp tc (cedges keep fa) (cedges keep fb) = sfeq tc (kf keep fa) (kf keep fb).
Proof. exact zipcmp_cedges. Qed.
Print Assumptions C13_zip_is_structural_comparison.

Theorem C13_advanced_deep_equal_spec :
  forall tc keep va ka vb kb,
    is_normal va = true -> is_normal vb = true ->
    advanced_deep_equal tc keep va ka vb kb = sfeq tc (kf keep (FCons 0 va ka FNil)) (kf keep (FCons 0 vb kb FNil)).
Proof. exact advanced_deep_equal_spec. Qed.
Print Assumptions C13_advanced_deep_equal_spec.

(* with unique attribute names, comparing attribute lists = equality up to order *)
Theorem C13_attributes_as_a_set :
  forall a b, NoDup (keys a) -> NoDup (keys b) ->
    (compare_attributes str_eqb a b = true <-> Permutation a b).
Proof. exact compare_attributes_perm. Qed.
Print Assumptions C13_attributes_as_a_set.

(* deep_equal holds exactly when the two subtrees have the same canonical content: same kinds, names,
   attribute SET with equal values, text / comment / PI content and child sequence *)
Theorem C13_deep_equal_spec :
  forall va ka vb kb,
    is_normal va = true -> is_normal vb = true ->
    attrs_unique (ktree va ka) -> attrs_unique (ktree vb kb) ->
    (deep_equal va ka vb kb = true <-> sequiv (ktree va ka) (ktree vb kb)).
Proof. exact deep_equal_spec. Qed.
Print Assumptions C13_deep_equal_spec.

(* that relation is reflexive, symmetric and transitive *)
Theorem C13_equivalence :
  (forall a, sequiv a a) /\ (forall a b, sequiv a b -> sequiv b a) /\ (forall a b c, sequiv a b -> sequiv b c -> sequiv a c).
Proof. exact (conj sequiv_refl (conj sequiv_sym sequiv_trans)). Qed.
Print Assumptions C13_equivalence.

(* namespace declarations never reach the compared tree (so prefixes and declarations cannot matter) *)
Theorem C13_blind_to_declarations :
  forall keep i p ns k r, kf keep (FCons i (VNamespace p ns) k r) = kf keep r.
Proof. exact kf_ignores_namespace_nodes. Qed.
Print Assumptions C13_blind_to_declarations.

(* shallow_equal_ignore_attributes = same name and same attributes after dropping the listed names from both *)
Theorem C13_shallow_equal_ignore_spec :
  forall ign na ka nb kb,
    shallow_equal_ignore ign (VElement na) ka (VElement nb) kb
    = N.eqb na nb && compare_attributes str_eqb (filter (fun kv => negb (nmem (fst kv) ign)) (attrs_of ka))
                                                (filter (fun kv => negb (nmem (fst kv) ign)) (attrs_of kb)).
Proof. exact shallow_equal_ignore_spec. Qed.
Print Assumptions C13_shallow_equal_ignore_spec.
