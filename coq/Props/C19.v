(* C19 — HTML5 serialisation follows the HTML rules and never panics.
   Pinned statements only.  Model: Model/HtmlSer.v (src/output/html5_serializer.rs, html5elements.rs), Gen/Tables.v. *)
From Coq Require Import List NArith Bool.
From XotV Require Import Model.Base Model.Zipper Model.Access Model.Interning Model.Fullname Model.Scope Model.Entity Model.XmlSer
                         Model.HtmlSer Gen.Tables Proofs.HtmlProofs.
Import ListNotations.
Open Scope N_scope.

(* the output starts with the HTML doctype, whatever the node and the parameters *)
Theorem C19_doctype_first :
  forall nm hn cdata indent z s, html5_serialize nm hn cdata indent z = HOk s -> exists rest, s = s_doctype ++ rest.
Proof. exact html5_starts_with_doctype. Qed.
Print Assumptions C19_doctype_first.

(* rendering one event never panics except for a Prefix event on a non-element (which gen_outputs never produces: declarations
   are only emitted for elements) *)
Theorem C19_render_total :
  forall nm hn cdata st z o, (forall p ns, o <> OPrefix p ns) -> hrender nm hn cdata st z o <> HPanic.
Proof. exact hrender_no_panic. Qed.
Print Assumptions C19_render_total.

(* "never panics": the whole HTML5 serialisation of any node of any tree, with any CDATA-section list and with or without
   indentation, never reaches the unwrap of the Prefix branch (nor any other): every Prefix event the generator produces is
   tagged with the element that declares it *)
Theorem C19_never_panics :
  forall nm hn cdata indent z, html5_serialize nm hn cdata indent z <> HPanic.
Proof. exact html5_serialize_no_panic. Qed.
Print Assumptions C19_never_panics.

(* never self-closed: the start tag is always closed with '>' *)
Theorem C19_never_self_closed :
  forall nm hn cdata st z, hrender nm hn cdata st z OStartTagClose = HOk (st, tok false [62]).
Proof. reflexivity. Qed.
Print Assumptions C19_never_self_closed.

(* an explicit end tag unless the element is void; a void element gets none *)
Theorem C19_end_tag_iff_not_void :
  forall nm hn cdata st z name st' t,
    hrender nm hn cdata st z (OEndTag name) = HOk (st', t) ->
    if html_matches nm hn void_names name then t_text t = []
    else exists fn, element_fullname nm (hs_stack st) name = Some fn /\ t_text t = [60; 47] ++ fn ++ [62].
Proof. exact end_tag_iff_not_void. Qed.
Print Assumptions C19_end_tag_iff_not_void.

(* elements in no namespace are written unprefixed *)
Theorem C19_no_namespace_unprefixed :
  forall nm hn cdata st z name st' t,
    n_ns_of_name nm name = n_no_ns nm -> must_be_unprefixed hn (n_no_ns nm) = false ->
    hrender nm hn cdata st z (OStartTagOpen name) = HOk (st', t) -> t_text t = [60] ++ n_local nm name.
Proof. exact no_namespace_unprefixed. Qed.
Print Assumptions C19_no_namespace_unprefixed.

(* elements in the namespaces the serialiser calls XHTML, MathML and SVG are written unprefixed: either with the default
   namespace declared on the tag, or because the default namespace in force already is that namespace *)
Theorem C19_html_foreign_unprefixed :
  forall nm hn cdata st z name st' t,
    must_be_unprefixed hn (n_ns_of_name nm name) = true -> n_ns_of_name nm name <> n_no_ns nm ->
    NoDup (map fst (fs_top (fs_push (hs_stack st) (effective_declarations nm z name)))) ->
    hrender nm hn cdata st z (OStartTagOpen name) = HOk (st', t) ->
    t_text t = [60] ++ n_local nm name ++ [32] ++ s_xmlns ++ [61; 34] ++ n_ns_str nm (n_ns_of_name nm name) ++ [34]
    \/ (t_text t = [60] ++ n_local nm name
        /\ assoc_p (n_empty_prefix nm) (fs_top (fs_push (hs_stack st) (effective_declarations nm z name))) = Some (n_ns_of_name nm name)).
Proof. exact html_foreign_unprefixed. Qed.
Print Assumptions C19_html_foreign_unprefixed.

(* text escaping: '<' and '&' from text never appear raw in HTML text *)
Theorem C19_html_text_escaped :
  forall s, ~ In c_lt (serialize_text_html s) /\ amp_only_as_reference (serialize_text_html s) = true.
Proof. exact serialize_text_html_safe. Qed.
Print Assumptions C19_html_text_escaped.

(* attribute values never contain a raw double quote, and '&' only as the start of a reference *)
Theorem C19_html_attribute_escaped :
  forall s, ~ In c_quot (serialize_attribute_html s) /\ amp_only_as_reference (serialize_attribute_html s) = true.
Proof. exact serialize_attribute_html_safe. Qed.
Print Assumptions C19_html_attribute_escaped.

(* a processing instruction whose data contains '>' is refused *)
Theorem C19_pi_with_gt_refused :
  forall nm hn cdata st z target d, n_ns_of_name nm target = n_no_ns nm -> In c_gt d ->
    hrender nm hn cdata st z (OPI target (Some d)) = HErr HPIGt.
Proof. exact pi_gt_refused. Qed.
Print Assumptions C19_pi_with_gt_refused.

(* KNOWN FINDING: the namespace the serialiser treats as XHTML is not http://www.w3.org/1999/xhtml (the constant is read
   from the source on every run) *)
Theorem C19_xhtml_constant_refuted :
  xhtml_ns <> [104; 116; 116; 112; 58; 47; 47; 119; 119; 119; 46; 119; 51; 46; 111; 114; 103; 47; 49; 57; 57; 57; 47; 120; 104; 116; 109; 108].
Proof. vm_compute. discriminate. Qed.
Print Assumptions C19_xhtml_constant_refuted.

(* what the HTML5 serialiser writes for a declaration: xmlns="uri" only for the element's own namespace, xmlns:p="uri" only for
   a prefix bound to a namespace (never "no namespace", which has no spelling, and never the implicit binding of xml), the
   URI escaped as an attribute value; or nothing.  The serialiser state does not change *)
Theorem C19_declaration_is_written_in_a_form_the_parser_accepts :
  forall nm hn cdata st z p ns st' t,
    hrender nm hn cdata st z (OPrefix p ns) = HOk (st', t) ->
    st' = st
    /\ (token_text t = []
        \/ (p = n_empty_prefix nm /\ (exists name, element_of z = Some name /\ n_ns_of_name nm name = ns)
            /\ token_text t = [32] ++ s_xmlns ++ [61; 34] ++ serialize_attribute (n_ns_str nm ns) ++ [34])
        \/ (p <> n_empty_prefix nm /\ ns <> n_no_ns nm /\ ~ (p = n_xml_prefix nm /\ ns = n_xml_ns nm)
            /\ token_text t = [32] ++ s_xmlns ++ [58] ++ n_prefix_str nm p ++ [61; 34] ++ serialize_attribute (n_ns_str nm ns) ++ [34])).
Proof. exact hprefix_token_spec. Qed.
Print Assumptions C19_declaration_is_written_in_a_form_the_parser_accepts.
