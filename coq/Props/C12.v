(* C12 — A clone is equal to its source and shares nothing with it.
   Pinned statements only.  Model: Model/Manip.v (m_clone = clone_node), Model/Hist.v (clone_with_prefixes). *)
From Coq Require Import List NArith ZArith.
From XotV Require Import Model.Base Model.Zipper Model.Access Model.Store Model.Manip Model.Fullname Model.Scope Model.NsTools Model.Hist
                         Proofs.ManipProofs Proofs.InvSteps Proofs.InvApi Proofs.CloneFrame Proofs.TreeFrame Proofs.TreeFrameApi Spec.NoAdj Proofs.CloneShape.
From XotV Require Import Model.Interning.
Import ListNotations.
Open Scope N_scope.

(* cloning is never refused *)
Theorem C12_clone_never_refused : forall st n st' e, m_clone st n <> (st', MErr e).
Proof. exact m_clone_no_err. Qed.
Print Assumptions C12_clone_never_refused.

(* a node without content (text, comment, PI, attribute node, namespace node) is cloned into one new parentless node with
   the same value; the forest that was there is untouched (it is the tail of the new store) *)
Theorem C12_leaf_clone :
  forall st n z, cur st n = Some z -> z_val z <> VDocument -> (forall name, z_val z <> VElement name) ->
    exists c st', m_clone st n = (st', MDone (Some c))
                  /\ store st' = FCons c (z_val z) FNil (store st)
                  /\ cons st' = cons st.
Proof.
  intros st n z Hc Hd He. unfold m_clone. rewrite Hc.
  destruct (z_val z) eqn:Ev; try (exfalso; apply Hd; reflexivity); try (exfalso; eapply He; reflexivity);
    unfold new_node; destruct (free st); eexists; eexists; (split; [reflexivity|split; reflexivity]).
Qed.
Print Assumptions C12_leaf_clone.

(* a fresh arena slot: new_node takes the head of the free list or extends the arena *)
Theorem C12_new_node_slot :
  forall st v st' i, new_node st v = (st', i) ->
    (free st = [] /\ i = N.of_nat (length (stamps st))) \/ (exists rest, free st = i :: rest /\ free st' = rest).
Proof.
  intros st v st' i. unfold new_node. destruct (free st) as [|j rest]; intros H; inversion H; subst.
  - left. auto.
  - right. exists rest. auto.
Qed.
Print Assumptions C12_new_node_slot.

(* clone_with_prefixes = clone_node, then on an element clone exactly the inherited in-scope bindings the subtree needs and
   does not declare itself are inserted (whatever order the hash map is walked in); an element in no namespace is not given
   the inherited default namespace *)
Theorem C12_clone_with_prefixes_effect :
  forall nm st n z order st1 c,
    cur st n = Some z -> m_clone st n = (st1, MDone (Some c)) -> is_type st1 c TElement = true ->
    let inherited := inherited_prefixes (ns_empty_prefix nm) (ns_xml_prefix nm) (ns_no_ns nm) (ns_xml_ns nm) (ns_of_name nm) z in
    let no_ns_top := match val st1 c with
                     | Some (VElement name) => N.eqb (ns_of_name nm name) (ns_no_ns nm)
                     | _ => false
                     end in
    let to_add := filter (fun d => match map_get_node st1 KNs c (fst d) with
                                   | Some _ => false
                                   | None => negb (no_ns_top && N.eqb (fst d) (ns_empty_prefix nm))   (* no default namespace on an element in no namespace *)
                                   end) inherited in
    same_set (map fst to_add) order = true ->
    clone_with_prefixes nm st n order
    = (fold_left (fun s p => match assoc_p p to_add with
                             | Some ns => map_insert s KNs c (VNamespace p ns)
                             | None => s end) order st1, MDone (Some c)).
Proof.
  intros nm st n z order st1 c Hc Hm Ht inherited no_ns_top to_add Hs. unfold clone_with_prefixes. rewrite Hc, Hm, Ht.
  fold inherited. fold no_ns_top. fold to_add. rewrite Hs. reflexivity.
Qed.
Print Assumptions C12_clone_with_prefixes_effect.


(* "The source is unchanged by the cloning": whatever node is cloned, in every good store (C04: every reachable one), clone_node
   leaves the forest that was there exactly as it was and where it was — the old forest is a suffix of the new one; what is in
   front of it is made of nodes that were not there (creation never reuses a live handle, C04_new_handle_fresh).  In particular
   no node of the source tree, nor of any other tree, is touched by the replay of the edges, by the text merges it makes or by
   the removal of the temporary top element. *)
Theorem C12_clone_leaves_every_tree_alone :
  forall st n, Good st -> exists F, store (fst (m_clone st n)) = fapp F (store st).
Proof. exact clone_frame. Qed.
Print Assumptions C12_clone_leaves_every_tree_alone.

(* "Any later mutation of either side leaves the other untouched": source and clone are different trees of the store (the clone
   is a new root, C12_clone_leaves_every_tree_alone).  Let [T] be one side (any run of whole trees).  Whatever history of calls
   is made afterwards, as long as no call names a node of [T] — it works on the other side, on other trees or on new nodes —
   [T] stays in the store exactly as it is. *)
Theorem C12_mutating_one_side_leaves_the_other_untouched :
  forall T ops st, Good st -> (exists A B, store st = fapp A (fapp T B)) ->
    (forall o x, In o ops -> In x (op_args o) -> ~ In x (ids T)) ->
    exists A' B', store (fold_left (fun s o => fst (mstep s o)) ops st) = fapp A' (fapp T B').
Proof. exact tree_frame_history. Qed.
Print Assumptions C12_mutating_one_side_leaves_the_other_untouched.

(* the same over every call the harness draws, including clone_with_prefixes, create_missing_prefixes, deduplicate_namespaces
   and remove_insignificant_whitespace (Model/Hist.v tstep) *)
Theorem C12_api_mutating_one_side_leaves_the_other_untouched :
  forall nm T ops t st, Good st -> (exists A B, store st = fapp A (fapp T B)) ->
    (forall o x, In o ops -> In x (top_args o) -> ~ In x (ids T)) ->
    exists A' B', store (snd (tfinal nm (t, st) ops)) = fapp A' (fapp T B').
Proof. exact tree_frame_api_history. Qed.
Print Assumptions C12_api_mutating_one_side_leaves_the_other_untouched.


(* "clone_node returns a new unattached tree that is deep-equal to the source (up to merging of text nodes that were adjacent
   in the source, when consolidation is on) with the same namespace declarations and attribute order, and it is made entirely of
   new nodes": for EVERY node [n] of EVERY good store (C04: every reachable one), whatever its kind and wherever it sits,
   clone_node succeeds and returns a handle [c]; the new store is one new root [c] — with the source's value — in front of the
   store as it was; and the children [K] of [c] are, slots forgotten ([erase]), exactly the copy the specification [ucopy]
   describes: the source's children in the source's order (namespace nodes, attribute nodes, ordinary children), every node
   with the source's value and, recursively, the copy of its own children, where a text node goes into a text node it would
   otherwise follow when consolidation is on ([usnoc]).  Proved by following the edge replay of src/manipulation.rs
   (Model/Manip.v clone_edges) along the whole traversal: Proofs/CloneShape.v. *)
Theorem C12_clone_is_a_deep_copy :
  forall st n z, Good st -> cur st n = Some z ->
    exists st' c K, m_clone st n = (st', MDone (Some c)) /\ Good st' /\ cons st' = cons st
      /\ store st' = FCons c (z_val z) K (store st) /\ erase K = ucopy (cons st) (z_kids z) UNil.
Proof. exact clone_shape. Qed.
Print Assumptions C12_clone_is_a_deep_copy.

(* with consolidation off, or with no two text nodes adjacent anywhere (C04: so it is in every store reached with consolidation
   on, the C04_no_adjacent_text theorems), "up to merging" is "equal": the children of the clone are the children of the source, slots
   forgotten *)
Theorem C12_clone_equals_source :
  forall st n z, Good st -> cur st n = Some z -> (cons st = false \/ noadj st) ->
    exists st' c K, m_clone st n = (st', MDone (Some c)) /\ Good st' /\ cons st' = cons st
      /\ store st' = FCons c (z_val z) K (store st) /\ erase K = erase (z_kids z).
Proof. exact clone_exact. Qed.
Print Assumptions C12_clone_equals_source.

(* "made entirely of new nodes": no slot of the clone is a slot of the store the call started from *)
Theorem C12_clone_is_made_of_new_nodes :
  forall st st' c v K, Good st' -> store st' = FCons c v K (store st) -> forall x, In x (c :: ids K) -> ~ In x (ids (store st)).
Proof. exact clone_new_nodes. Qed.
Print Assumptions C12_clone_is_made_of_new_nodes.

(* the specification on a concrete level: consolidation merges the two adjacent text nodes, keeps declarations, attributes and
   nesting in place; with consolidation off nothing is merged *)
Example C12_ucopy_example :
  let src := FCons 1 (VNamespace 2 3) FNil (FCons 2 (VAttribute 5 [97]%N) FNil
             (FCons 3 (VText [120]%N) FNil (FCons 4 (VText [121]%N) FNil (FCons 5 (VElement 7) (FCons 6 (VText [122]%N) FNil FNil) FNil)))) in
  ucopy true src UNil
  = UCons (VNamespace 2 3) UNil (UCons (VAttribute 5 [97]%N) UNil
      (UCons (VText [120; 121]%N) UNil (UCons (VElement 7) (UCons (VText [122]%N) UNil UNil) UNil)))
  /\ ucopy false src UNil = erase src.
Proof. split; vm_compute; reflexivity. Qed.
