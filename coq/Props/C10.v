(* C10 — Serialisation never changes a name's meaning; missing prefixes can be repaired.
   Pinned statements only.  Model: Model/Fullname.v, Model/XmlSer.v, Model/NsTools.v. *)
From Coq Require Import List NArith.
From XotV Require Import Model.Base Model.Zipper Model.Access Model.Store Model.Manip Model.Interning Model.Fullname Model.Scope Model.Entity
                         Model.XmlSer Model.NsTools Model.Builder Proofs.FullnameProofs Proofs.NsProofs Proofs.DedupProofs Proofs.RepairProofs Proofs.XmlSerProofs.
Import ListNotations.
Open Scope N_scope.

(* serialisation never silently writes a name that means something else: the prefix written for an element name is bound
   to that name's namespace in the declarations in force (which resolve as the parser will resolve them, see
   C01_serialiser_table_is_nearest_wins); an unprefixed element name is in no namespace or in the default namespace in
   force; in every other case the result is the MissingPrefix error *)
Theorem C10_element_name_keeps_its_meaning :
  forall ep nn s ns, NoDup (map fst (fs_top s)) ->
    match element_prefix ep nn s ns with
    | PSome p => assoc_p p (fs_top s) = Some ns /\ p <> ep
    | PNone => ns = nn \/ assoc_p ep (fs_top s) = Some ns
    | PMissing => ns <> nn /\ forall p, assoc_p p (fs_top s) <> Some ns
    end.
Proof. exact element_prefix_sound. Qed.
Print Assumptions C10_element_name_keeps_its_meaning.

Theorem C10_attribute_name_keeps_its_meaning :
  forall ep nn s ns, NoDup (map fst (fs_top s)) ->
    match attribute_prefix ep nn s ns with
    | PSome p => assoc_p p (fs_top s) = Some ns /\ p <> ep
    | PNone => ns = nn
    | PMissing => ns <> nn /\ forall p, p <> ep -> assoc_p p (fs_top s) <> Some ns
    end.
Proof. exact attribute_prefix_sound. Qed.
Print Assumptions C10_attribute_name_keeps_its_meaning.

(* an element in no namespace is never written unprefixed under a default namespace: with an inherited one it gets
   xmlns="" (the binding is then nn), with one it declares itself the serialisation fails *)
Theorem C10_no_namespace_element_guard :
  forall nm prm st z name,
    n_ns_of_name nm name = n_no_ns nm ->
    existsb (fun d => N.eqb (fst d) (n_empty_prefix nm) && negb (N.eqb (snd d) (n_no_ns nm))) (declarations z) = true ->
    render nm prm st z (OStartTagOpen name) = inl EMissingPrefix.
Proof.
  intros nm prm st z name Hns Hd. cbn [render]. rewrite Hns, N.eqb_refl, Hd. reflexivity.
Qed.
Print Assumptions C10_no_namespace_element_guard.

(* create_missing_prefixes: the call only inserts declarations on the element (no node's name, attributes or content is
   touched) ... *)
Theorem C10_repair_effect :
  forall nm t st e z name, cur st e = Some z -> z_val z = VElement name ->
    create_missing_prefixes nm t st e
    = match assign_prefixes t 0 (used_prefixes nm z) (missing_namespaces nm z) with
      | None => NPanic
      | Some (l, t') => NOk t' (fold_left (fun s d => map_insert s KNs e (VNamespace (fst d) (snd d))) l st)
      end.
Proof.
  intros nm t st e z name Hc Hv. unfold create_missing_prefixes, cmp_element. rewrite Hc, Hv. reflexivity.
Qed.
Print Assumptions C10_repair_effect.

(* ... one per missing namespace, under prefixes that are pairwise different and NEW: not bound in the scope of the node
   and not declared anywhere below it — so no binding any name depends on is overridden, however often the call is
   repeated ... *)
Theorem C10_generated_prefixes_are_new :
  forall missing t i used l t',
    assign_prefixes t i used missing = Some (l, t') ->
    map snd l = missing /\ NoDup (map fst l) /\ (forall p, In p (map fst l) -> ~ In p used).
Proof. exact assign_prefixes_fresh. Qed.
Print Assumptions C10_generated_prefixes_are_new.

(* ... and they do the job: a binding whose prefix nothing below declares again is in force in every table below, and a
   namespace with a non-empty prefix in the table is never reported missing, for element and attribute names alike *)
Theorem C10_new_binding_reaches_every_descendant :
  forall p ns stack base,
    Forall (fun d => ~ In p (map fst d)) stack -> assoc_p p base = Some ns -> assoc_p p (flat stack base) = Some ns.
Proof. exact flat_keeps_undisturbed. Qed.
Print Assumptions C10_new_binding_reaches_every_descendant.

Theorem C10_bound_namespace_is_not_missing :
  forall ep nn s p ns,
    NoDup (map fst (fs_top s)) -> assoc_p p (fs_top s) = Some ns -> p <> ep ->
    element_prefix ep nn s ns <> PMissing /\ attribute_prefix ep nn s ns <> PMissing.
Proof. exact bound_namespace_not_missing. Qed.
Print Assumptions C10_bound_namespace_is_not_missing.


(* ---------- "missing prefixes can be repaired": the repair is complete ----------
   The scan create_missing_prefixes makes (a FullnameSerializer walked over the subtree, collecting the namespaces of names
   without a usable prefix) is, in structural form, [mf] over the subtree (first theorem).  The second theorem runs it again on
   the repaired element: [k] are the element's children before the call, [L] the bindings the call generates, [ins_all slots L k]
   the children afterwards (each binding becomes a namespace node after the element's last namespace node, C10_repair_effect and
   Model/Manip.v map_insert).  If [L] binds every namespace the scan found ([incl]: C10_generated_prefixes_are_new gives
   map snd L = the missing namespaces), under prefixes that are pairwise different, not the empty prefix, not `xml`, and declared
   by no element of the subtree ([decls_ok]: that is what C10_generated_prefixes_are_new's "not in used" says), then the scan of
   the repaired element finds NOTHING: every element and attribute name anywhere below has a prefix the serialiser can write.
   Proved by running the two scans side by side along the whole subtree: Proofs/RepairProofs.v. *)
Theorem C10_scan_in_structural_form :
  forall nm z, missing_namespaces nm z = mf nm (base_stack nm) [] (FCons (z_slot z) (z_val z) (z_kids z) FNil).
Proof. exact missing_namespaces_structural. Qed.
Print Assumptions C10_scan_in_structural_form.

Theorem C10_repair_is_complete :
  forall nm L, NoDup (map fst L) -> ~ In (ns_empty_prefix nm) (map fst L) ->
  forall e name k slots,
    length slots = length L ->
    incl (mf nm (base_stack nm) [] (FCons e (VElement name) k FNil)) (map snd L) ->
    ~ In (ns_xml_prefix nm) (map fst L) -> decls_ok L (FCons e (VElement name) k FNil) ->
    mf nm (base_stack nm) [] (FCons e (VElement name) (ins_all slots L k) FNil) = [].
Proof. exact repair_complete. Qed.
Print Assumptions C10_repair_is_complete.

(* non-vacuity: an element in namespace 7 with an attribute in namespace 8 and a child in namespace 9, nothing declared: the
   scan finds 7, 8, 9; with three generated bindings it finds nothing *)
Example C10_repair_example :
  let nm := {| ns_empty_prefix := 0; ns_xml_prefix := 1; ns_no_ns := 0; ns_xml_ns := 1; ns_of_name := fun n => n |} in
  let k := FCons 11 (VAttribute 8 []) FNil (FCons 12 (VElement 9) FNil FNil) in
  let L := [(20, 7); (21, 8); (22, 9)] in
  mf nm (base_stack nm) [] (FCons 10 (VElement 7) k FNil) = [7; 8; 9]
  /\ mf nm (base_stack nm) [] (FCons 10 (VElement 7) (ins_all [30; 31; 32] L k) FNil) = [].
Proof. vm_compute. split; reflexivity. Qed.

(* what a declaration is written as: xmlns="uri" or xmlns:p="uri" with the URI escaped as an attribute value, or nothing; and a
   prefix bound to "no namespace" -- which XML cannot spell: xmlns:p="" is not well-formed and the parser refuses it -- is never
   written (the repair e7b2148; before it the written text did not parse back) *)
Theorem C10_declaration_is_written_in_a_form_the_parser_accepts :
  forall nm prm st z p ns st' t,
    render nm prm st z (OPrefix p ns) = inr (st', t) ->
    st' = st
    /\ (token_text t = []
        \/ (p = n_empty_prefix nm /\ token_text t = [32] ++ s_xmlns ++ [61; 34] ++ serialize_attribute (n_ns_str nm ns) ++ [34])
        \/ (p <> n_empty_prefix nm /\ ns <> n_no_ns nm
            /\ token_text t = [32] ++ s_xmlns ++ [58] ++ n_prefix_str nm p ++ [61; 34] ++ serialize_attribute (n_ns_str nm ns) ++ [34])).
Proof. exact prefix_token_spec. Qed.
Print Assumptions C10_declaration_is_written_in_a_form_the_parser_accepts.
