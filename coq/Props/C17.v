(* C17 — Source spans and error positions point at the right text.
   Pinned statements only.  Model: Model/Builder.v (src/parse.rs), Model/Entity.v (src/entity.rs). *)
From Coq Require Import List NArith.
From XotV Require Import Model.Base Model.Interning Model.Fullname Model.Entity Model.Builder Proofs.EntityProofs Proofs.BuilderProofs.
Import ListNotations.
Open Scope N_scope.

(* an error inside character data or an attribute value is reported inside the text it was found in (byte offsets:
   base_position + offset, every character counted with its UTF-8 length) *)
Theorem C17_entity_error_in_bounds :
  forall attribute base s e, parse_content attribute base s = inl e ->
    match e with
    | UnclosedEntity _ p => base <= p /\ p < base + utf8_length s
    | InvalidEntity _ a b => base <= a /\ a < b /\ b <= base + utf8_length s
    end.
Proof. exact parse_content_error_in_bounds. Qed.
Print Assumptions C17_entity_error_in_bounds.

(* a run of text and CDATA parts merged into one node: the span starts where the first part starts ... *)
Theorem C17_text_span_first_part :
  forall m n s, span_get m (KText n) = None -> span_get (extend_text_span m n s) (KText n) = Some s.
Proof. exact extend_text_span_first. Qed.
Print Assumptions C17_text_span_first_part.

(* ... and ends where the last part ends; no other span is disturbed *)
Theorem C17_text_span_last_part :
  forall m n s old, span_get m (KText n) = Some old ->
    span_get (extend_text_span m n s) (KText n) = Some {| sp_start := sp_start old; sp_end := sp_end s |}.
Proof. exact extend_text_span_more. Qed.
Print Assumptions C17_text_span_last_part.

Theorem C17_text_span_frame :
  forall m n s k, k <> KText n -> span_get (extend_text_span m n s) k = span_get m k.
Proof. exact extend_text_span_other. Qed.
Print Assumptions C17_text_span_frame.

(* the span of a qualified name as written: prefix start to local-name end *)
Theorem C17_qname_span :
  forall prefix name,
    from_prefix_name prefix name
    = match ss_text prefix with
      | [] => ss_span name
      | _ => {| sp_start := sp_start (ss_span prefix); sp_end := sp_end (ss_span name) |}
      end.
Proof. reflexivity. Qed.
Print Assumptions C17_qname_span.
