(* C01 — Serialise-then-parse returns the same tree.
   Pinned statements only.  Model: Model/Entity.v, Model/Fullname.v, Model/XmlSer.v (serialising side),
   Model/Builder.v (parsing side). *)
From Coq Require Import List NArith.
From XotV Require Import Model.Base Model.Fullname Model.Scope Model.Entity Model.Builder
                         Proofs.EntityProofs Proofs.BuilderProofs Proofs.FullnameProofs.
Import ListNotations.
Open Scope N_scope.

(* character data: for EVERY string (TAB, LF, CR, '<', '&', '>', quotes, "]]>", anything) what serialize_text writes is
   read back by parse_content as exactly that string, with and without unescaped_gt *)
Theorem C01_text_roundtrip : forall g base s, parse_text base (serialize_text g s) = inr s.
Proof. exact parse_serialize_text. Qed.
Print Assumptions C01_text_roundtrip.

(* attribute values and namespace URIs: for EVERY string the written value is read back as exactly that string (white space
   is written as references, so attribute-value normalisation has nothing to normalise) *)
Theorem C01_attribute_roundtrip : forall base s, parse_attribute base (serialize_attribute s) = inr s.
Proof. exact parse_serialize_attribute. Qed.
Print Assumptions C01_attribute_roundtrip.

(* what is written is lexically safe: no '<' in character data (no markup can start inside it), no "]]>", and no '<', quote
   or literal TAB / LF / CR inside a quoted attribute value *)
Theorem C01_written_text_is_safe :
  forall g s, ~ In c_lt (serialize_text g s) /\ no_cdata_end false false (serialize_text g s) = true.
Proof. intros g s. split; [apply serialize_text_no_lt|apply serialize_text_no_cdata_end]. Qed.
Print Assumptions C01_written_text_is_safe.

Theorem C01_written_attribute_is_safe :
  forall s c, In c (serialize_attribute s) -> c <> c_lt /\ c <> c_quot /\ c <> c_tab /\ c <> c_lf /\ c <> c_cr.
Proof. exact serialize_attribute_safe. Qed.
Print Assumptions C01_written_attribute_is_safe.

(* names: the table of declarations the serialiser keeps while it walks down (drop what the element overrides, append the
   element's own) resolves every prefix exactly as the parser will on the nested declarations it reads back:
   nearest declaration wins *)
Theorem C01_serialiser_table_is_nearest_wins :
  forall p stack base, Forall (fun d => NoDup (map fst d)) stack ->
    assoc_p p (flat stack base) = match lookup_stack p stack with Some ns => Some ns | None => assoc_p p base end.
Proof. exact flat_is_nearest_wins. Qed.
Print Assumptions C01_serialiser_table_is_nearest_wins.

(* the prefix written for an element name is bound to that name's namespace; an unprefixed element name is in no namespace
   or in the default namespace in force; otherwise the serialisation fails *)
Theorem C01_element_name_resolves :
  forall ep nn s ns, NoDup (map fst (fs_top s)) ->
    match element_prefix ep nn s ns with
    | PSome p => assoc_p p (fs_top s) = Some ns /\ p <> ep
    | PNone => ns = nn \/ assoc_p ep (fs_top s) = Some ns
    | PMissing => ns <> nn /\ forall p, assoc_p p (fs_top s) <> Some ns
    end.
Proof. exact element_prefix_sound. Qed.
Print Assumptions C01_element_name_resolves.

(* the prefix written for an attribute name is non-empty and bound to that name's namespace; unprefixed attributes are in
   no namespace *)
Theorem C01_attribute_name_resolves :
  forall ep nn s ns, NoDup (map fst (fs_top s)) ->
    match attribute_prefix ep nn s ns with
    | PSome p => assoc_p p (fs_top s) = Some ns /\ p <> ep
    | PNone => ns = nn
    | PMissing => ns <> nn /\ forall p, p <> ep -> assoc_p p (fs_top s) <> Some ns
    end.
Proof. exact attribute_prefix_sound. Qed.
Print Assumptions C01_attribute_name_resolves.

(* the table stays duplicate free (the hypothesis above) as long as every element's own declarations are (C04, C11) *)
Theorem C01_table_duplicate_free :
  forall d cur, NoDup (map fst d) -> NoDup (map fst cur) -> NoDup (map fst (info_new d cur)).
Proof. exact info_new_nodup. Qed.
Print Assumptions C01_table_duplicate_free.
