(* C18src — the source-level tie of C18's character tables: the model's functions ARE the tables tools/gen_tables.py read from
   /repo/src on this run (Gen/Tables.v).  Built by ./check only when the translator could read those tables
   (Gen/Tables.v src_tables_read = true); otherwise the tie of these functions to the crate is the correspondence run alone,
   and the evidence says so.  Pinned statements only. *)
From Coq Require Import List NArith.
From XotV Require Import Model.Base Model.Unpretty Gen.Tables Proofs.EntityTables.
Import ListNotations.
Open Scope N_scope.

(* what counts as white space, and the one xml:space value that switches the removal off, are read from src/unpretty.rs on
   every run (Gen/Tables.v [xml_ws_chars], [xml_space_preserve]; tools/gen_tables.py): the model's test is that set of
   characters, its literal is that literal *)
Theorem C18_white_space_is_the_sources :
  forall c, is_ws_char c = existsb (N.eqb c) xml_ws_chars.
Proof. exact is_ws_char_is_the_table. Qed.
Print Assumptions C18_white_space_is_the_sources.

Theorem C18_preserve_literal_is_the_sources : s_preserve = xml_space_preserve.
Proof. exact preserve_literal_is_the_sources. Qed.
Print Assumptions C18_preserve_literal_is_the_sources.
