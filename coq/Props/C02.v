(* C02 — Parsing yields exactly the document the text denotes.
   Pinned statements only.  Model: Model/Entity.v (src/entity.rs), Model/Builder.v (src/parse.rs). *)
From Coq Require Import List NArith.
From XotV Require Import Model.Base Model.Interning Model.Fullname Model.Entity Model.Builder Model.Encoding Proofs.EntityProofs Proofs.BuilderProofs Proofs.EncodingProofs Proofs.DeclProofs.
Import ListNotations.
Open Scope N_scope.

(* character data and attribute values: EVERY well-formed spelling — any sequence of literal characters, bare CR, CR LF,
   predefined entity references and decimal / hexadecimal character references — parses to exactly what XML 1.0 says it
   denotes: line ends become LF (a space in an attribute value), literal TAB / LF in an attribute value become a space,
   references denote their character without further normalisation *)
Theorem C02_content_denotes :
  forall attribute base items, items_wf items ->
    parse_content attribute base (items_text items) = inr (items_denote attribute items).
Proof. exact parse_content_denotes. Qed.
Print Assumptions C02_content_denotes.

(* non-vacuity: a spelling mixing every kind of item *)
Example C02_content_example :
  let l := [ILit 97; ICRLF; ICR; ILit 9; INamed [108; 116] 60; IRef [120; 68] 13; IRef [49; 48] 10; ICR; IRef [120; 65] 10; ILit 10] in
  items_wf l /\ items_denote true l = [97; 32; 32; 32; 60; 13; 10; 32; 10; 32] /\ items_denote false l = [97; 10; 10; 9; 60; 13; 10; 10; 10; 10].
Proof. cbn. repeat split; try discriminate; intros H; repeat (destruct H as [H|H]; [discriminate|]); exact H. Qed.

(* names: the binding of a prefix is the one of the innermost element that declares it ... *)
Theorem C02_innermost_declaration_wins :
  forall p ns d s, NoDup (map fst d) -> In (p, ns) d -> lookup_stack p (d :: s) = Some ns.
Proof. exact lookup_stack_hit. Qed.
Print Assumptions C02_innermost_declaration_wins.

(* ... and elements that do not declare the prefix are transparent *)
Theorem C02_undeclaring_elements_transparent :
  forall p d s, ~ In p (map fst d) -> lookup_stack p (d :: s) = lookup_stack p s.
Proof. exact lookup_stack_skip. Qed.
Print Assumptions C02_undeclaring_elements_transparent.

(* CDATA sections written back to back decode to the concatenation of their contents (reference decoder) *)
Theorem C02_cdata_sections_decode :
  forall s, cdata_decode (serialize_cdata s) = Some s.
Proof. exact cdata_roundtrip. Qed.
Print Assumptions C02_cdata_sections_decode.

(* ---------- "supplied as bytes in a declared encoding": which label is taken (src/encoding.rs, Model/Encoding.v) ----------
   For data in an ASCII-compatible encoding the label handed to the decoder is the value of the encoding declaration, for EVERY
   well-formed spelling of the XML declaration: a list of pseudo-attributes (version in front, standalone behind, whatever
   their number) each written as  S name S? '=' S? quote value quote  with any white space S, either quote per value, optional
   white space before '?>', with or without a UTF-8 byte order mark, and WHATEVER follows the declaration (text that looks like
   an encoding declaration further down is not looked at).  Without an encoding declaration it is the hint, and UTF-8 without
   one.  (The decoders are encoding_rs, the sniffing of the other encodings is xhtmlchardet: third-party code, not modelled; the
   correspondence run shows the label through the character one byte decodes to.) *)
Theorem C02_declared_encoding_is_read_in_every_spelling :
  forall bom p pas tl body hint,
    Forall wf (p :: pas) -> pa_pre p <> [] -> forallb xml_s tl = true ->
    chosen_label (with_bom bom (s_xml_open ++ flat_map render (p :: pas) ++ tl ++ 63 :: 62 :: body)) hint
    = Some (match first_encoding (p :: pas), hint with
            | Some l, _ => l
            | None, Some h => h
            | None, None => s_utf8_label
            end).
Proof. exact chosen_label_spec. Qed.
Print Assumptions C02_declared_encoding_is_read_in_every_spelling.

(* non-vacuity, and the cases outside the theorem: <?xml version = '1.0'\nencoding\t=\n"koi8-r" standalone= 'no' ?> followed by
   <p encoding="x"> gives koi8-r;  <?xml version="1.0"?><!-- encoding="koi8-r" --> gives UTF-8;  <?xml-stylesheet
   encoding="koi8-r"?> (no declaration) gives UTF-8;  UTF-16 with a byte order mark is left to the sniffer *)
Example C02_chosen_label_example :
  chosen_label ([60;63;120;109;108;32;118;101;114;115;105;111;110;32;61;32;39;49;46;48;39;10;101;110;99;111;100;105;110;103;9;61;10;34;107;111;105;56;45;114;34;
                 32;115;116;97;110;100;97;108;111;110;101;61;32;39;110;111;39;32;63;62;
                 60;112;32;101;110;99;111;100;105;110;103;61;34;120;34;62]) None = Some [107;111;105;56;45;114]
  /\ chosen_label ([60;63;120;109;108;32;118;101;114;115;105;111;110;61;34;49;46;48;34;63;62;
                    60;33;45;45;32;101;110;99;111;100;105;110;103;61;34;107;111;105;56;45;114;34;32;45;45;62;60;112;47;62]) None = Some s_utf8_label
  /\ chosen_label ([60;63;120;109;108;45;115;116;121;108;101;115;104;101;101;116;32;101;110;99;111;100;105;110;103;61;34;107;111;105;56;45;114;34;63;62;60;112;47;62]) None
     = Some s_utf8_label
  /\ chosen_label [255; 254; 60; 0; 112; 0] None = None.
Proof. vm_compute. repeat split. Qed.

(* ---------- "optional XML declaration": the spelling the tokenizer does not recognise ----------
   `<?xml` followed by a tab or a line end reaches src/parse.rs as a processing-instruction token; its content is read by
   declaration_version (Model/Builder.v).  EVERY well-formed content — version, then optionally encoding, then optionally
   standalone, each  name S? '=' S? quote value quote  with any white space, either quote per value, white space between them
   and at the end, and values that are a VersionNum, an EncName, yes / no — is accepted, and what is handed back is the version
   value with the span it has in the source (so that version 1.0 passes and every other one is UnsupportedVersion there). *)
Theorem C02_declaration_content_is_read_in_every_spelling :
  forall d start stop, decl_ok d ->
    declaration_version {| ss_text := decl_text d; ss_span := {| sp_start := start; sp_end := stop |} |}
    = Some {| ss_text := d_version d;
              ss_span := {| sp_start := start + 7 + (slen (d_w1 d) + 1 + slen (d_w2 d) + 1);
                            sp_end := start + 7 + (slen (d_w1 d) + 1 + slen (d_w2 d) + 1) + slen (d_version d) |} |}.
Proof. exact declaration_version_spec. Qed.
Print Assumptions C02_declaration_content_is_read_in_every_spelling.

(* non-vacuity: version = '1.0' \n encoding="UTF-8" \t standalone='no' followed by a space *)
Example C02_declaration_spelling_example :
  decl_ok {| d_w1 := [32]; d_w2 := [32]; d_dq := false; d_version := [49; 46; 48];
             d_enc := Some ([10], [], [], true, [85; 84; 70; 45; 56]);
             d_sd := Some ([9], [], [], false, [110; 111]); d_tail := [32] |}.
Proof. unfold decl_ok, opt_ok, all_s. cbn. repeat split; discriminate. Qed.
