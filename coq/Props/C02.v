(* C02 — Parsing yields exactly the document the text denotes.
   Pinned statements only.  Model: Model/Entity.v (src/entity.rs), Model/Builder.v (src/parse.rs). *)
From Coq Require Import List NArith.
From XotV Require Import Model.Base Model.Interning Model.Fullname Model.Entity Model.Builder Proofs.EntityProofs Proofs.BuilderProofs.
Import ListNotations.
Open Scope N_scope.

(* character data and attribute values: EVERY well-formed spelling — any sequence of literal characters, bare CR, CR LF,
   predefined entity references and decimal / hexadecimal character references — parses to exactly what XML 1.0 says it
   denotes: line ends become LF (a space in an attribute value), literal TAB / LF in an attribute value become a space,
   references denote their character without further normalisation *)
Theorem C02_content_denotes :
  forall attribute base items, items_wf items ->
    parse_content attribute base (items_text items) = inr (items_denote attribute items).
Proof. exact parse_content_denotes. Qed.
Print Assumptions C02_content_denotes.

(* non-vacuity: a spelling mixing every kind of item *)
Example C02_content_example :
  let l := [ILit 97; ICRLF; ICR; ILit 9; INamed [108; 116] 60; IRef [120; 68] 13; IRef [49; 48] 10; ICR; IRef [120; 65] 10; ILit 10] in
  items_wf l /\ items_denote true l = [97; 32; 32; 32; 60; 13; 10; 32; 10; 32] /\ items_denote false l = [97; 10; 10; 9; 60; 13; 10; 10; 10; 10].
Proof. cbn. repeat split; try discriminate; intros H; repeat (destruct H as [H|H]; [discriminate|]); exact H. Qed.

(* names: the binding of a prefix is the one of the innermost element that declares it ... *)
Theorem C02_innermost_declaration_wins :
  forall p ns d s, NoDup (map fst d) -> In (p, ns) d -> lookup_stack p (d :: s) = Some ns.
Proof. exact lookup_stack_hit. Qed.
Print Assumptions C02_innermost_declaration_wins.

(* ... and elements that do not declare the prefix are transparent *)
Theorem C02_undeclaring_elements_transparent :
  forall p d s, ~ In p (map fst d) -> lookup_stack p (d :: s) = lookup_stack p s.
Proof. exact lookup_stack_skip. Qed.
Print Assumptions C02_undeclaring_elements_transparent.

(* CDATA sections written back to back decode to the concatenation of their contents (reference decoder) *)
Theorem C02_cdata_sections_decode :
  forall s, cdata_decode (serialize_cdata s) = Some s.
Proof. exact cdata_roundtrip. Qed.
Print Assumptions C02_cdata_sections_decode.
