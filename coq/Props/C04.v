(* C04 — Every reachable forest is structurally valid and handles stay meaningful.
   Pinned statements only.  Model: Model/Store.v, Model/Manip.v.
   The representation carries mutual consistency and acyclicity of the links: a store is an inductive forest,
   every query goes through a cursor into it (Model/Zipper.v), so parent / child / sibling relations cannot
   disagree and a parentless node has no siblings by construction (locate zeroes the sibling lists of a root). *)
From Coq Require Import List NArith Permutation.
From Coq Require Import ZArith.
From XotV Require Import Model.Base Model.Zipper Model.Access Model.Store Model.Manip Spec.DocOrder Spec.Shape
                         Proofs.ZipperProofs Proofs.AccessProofs Proofs.StoreProofs Proofs.InvProofs Proofs.InvSteps
                         Proofs.InvOps Proofs.InvHist Proofs.InvApi Spec.NoAdj Proofs.NoAdjOps Proofs.UnwrapEffect Proofs.ReplaceEffect Proofs.NoAdjApi Proofs.NoAdjFull Proofs.BuilderSound Proofs.ParseCompose.
From XotV Require Import Model.Builder.
From XotV Require Import Model.Unpretty Model.Interning Model.NsTools Model.Hist.
Import ListNotations.
Open Scope N_scope.

(* the cursor moves are mutually consistent: going to a neighbour and back is the identity on the tree *)
Theorem C04_moves_stay_in_tree :
  forall z z', (right z = Some z' \/ left z = Some z' \/ down_first z = Some z' \/ down_last z = Some z' \/ up z = Some z')
               -> plug z' = plug z.
Proof.
  intros z z' [H|[H|[H|[H|H]]]];
    [exact (plug_right _ _ H)|exact (plug_left _ _ H)|exact (plug_down_first _ _ H)|exact (plug_down_last _ _ H)|exact (plug_up _ _ H)].
Qed.
Print Assumptions C04_moves_stay_in_tree.

(* an ordered tree (namespace nodes, then attribute nodes, then ordinary children; only ordinary nodes have
   children) looks ordered from every cursor in it *)
Theorem C04_ordered_everywhere :
  forall z, ordered (plug z) = true ->
    zwf z /\ (is_normal (z_val z) = true -> ordered (z_kids z) = true)
    /\ ordered_from (rank (z_val z)) (z_after z) = true.
Proof. exact ordered_zwf. Qed.
Print Assumptions C04_ordered_everywhere.

(* the surgery primitives conserve the set of nodes (no node is created, lost or duplicated) *)
Theorem C04_cut_conserves :
  forall n f f' i v k, fcut n f = Some (f', (i, v, k)) ->
    i = n /\ Permutation (nodes f) ((i, v) :: nodes k ++ nodes f').
Proof. exact fcut_spec. Qed.
Print Assumptions C04_cut_conserves.

Theorem C04_cut_finds_every_node :
  forall n f, In n (ids f) -> exists f' t, fcut n f = Some (f', t).
Proof. exact fcut_some. Qed.
Print Assumptions C04_cut_finds_every_node.

Theorem C04_insert_after_conserves :
  forall ref t f, NoDup (ids f) -> In ref (ids f) ->
    Permutation (nodes (finsert_after ref t f)) (nodes f ++ nodes t).
Proof. exact finsert_after_spec. Qed.
Print Assumptions C04_insert_after_conserves.

Theorem C04_splice_conserves :
  forall n f, NoDup (ids f) -> In n (ids f) ->
    exists v, Permutation (nodes f) ((n, v) :: nodes (fsplice n f)).
Proof. exact fsplice_spec. Qed.
Print Assumptions C04_splice_conserves.

(* ---------------------------------------------------------------------------------------------------------------
   THE INVARIANT ALONG HISTORIES.  Good st =
     SlotInv st   : every arena slot is either the slot of exactly one node of the forest (stamp >= 0) or on the free
                    list (stamp < 0), never both, never twice (so: no node is shared between two places, no cycle, every
                    handle the arena hands out is distinct from every live one);
     shape_store  : under every element namespace nodes, then attribute nodes, then ordinary children; attribute and
                    namespace nodes only under elements (or parentless); documents only as roots; only documents and
                    elements have children (Spec/Shape.v).
     keys         : no element has two attribute nodes with the same name or two namespace nodes with the same prefix.
   NOT in Good (hence partial, see evidence): absence of adjacent text nodes while consolidation was never switched off;
   that clause is decided by the correspondence run and its validity oracle only. *)

(* every call of the mutating API — append, prepend, insert_before/after, detach, remove, replace, element_wrap/unwrap,
   clone_node, any_append, the attribute / namespace map and node calls, the setters, text_content_mut, node creation,
   set_text_consolidation — with ANY arguments (live or not, of any kind, refused or not) keeps the store good *)
Theorem C04_step_keeps_store_good : forall st o, Good st -> Good (fst (mstep st o)).
Proof. intros st o G. exact (ext_good _ _ (Ext_mstep st o G)). Qed.
Print Assumptions C04_step_keeps_store_good.

(* hence every store reachable from the empty one by any finite sequence of calls is good *)
Theorem C04_every_reachable_store_is_good : forall ops, Good (mfinal init_state ops).
Proof. exact reachable_good. Qed.
Print Assumptions C04_every_reachable_store_is_good.

(* what goodness says about the slot table, spelled out *)
Theorem C04_good_slots :
  forall st, Good st ->
    NoDup (ids (store st) ++ free st)
    /\ (forall i, In i (ids (store st)) -> (0 <= stamp_of st i)%Z)
    /\ (forall i, In i (free st) -> (stamp_of st i < 0)%Z)
    /\ shape_store (store st) = true
    /\ keys (store st) = true.
Proof. intros st [[H1 _ _ H4 H5] [Hs Hk]]. auto. Qed.
Print Assumptions C04_good_slots.

(* a handle (slot, stamp) that has stopped being live is never live again, whatever is called afterwards, even when its
   slot is reused: is_removed stays true for ever *)
Theorem C04_removed_for_ever :
  forall ops1 ops2 ops3 h,
    let a := mfinal init_state ops1 in let b := mfinal a ops2 in let c := mfinal b ops3 in
    live a h -> ~ live b h -> ~ live c h.
Proof.
  intros ops1 ops2 ops3 h a b c. apply (removed_for_ever a b c h).
  - apply Ext_mfinal. apply reachable_good.
  - apply Ext_mfinal. apply (ext_good _ _ (Ext_mfinal ops2 a (reachable_good ops1))).
Qed.
Print Assumptions C04_removed_for_ever.

(* a handle that is live before and after any sequence of calls denotes a node of the same class (document, element,
   other ordinary node, attribute, namespace): handles are never re-pointed at something else *)
Theorem C04_live_handle_same_class :
  forall ops1 ops2 h v v',
    let a := mfinal init_state ops1 in let b := mfinal a ops2 in
    live a h -> live b h -> val a (fst h) = Some v -> val b (fst h) = Some v' -> same_class v v'.
Proof.
  intros ops1 ops2 h v v' a b. apply (live_same_class a b h v v'). apply Ext_mfinal. apply reachable_good.
Qed.
Print Assumptions C04_live_handle_same_class.

(* creation never hands out a live handle *)
Theorem C04_new_handle_fresh :
  forall st v st' i, Good st -> new_node st v = (st', i) -> ~ In i (ids (store st)) /\ live st' (i, stamp_of st' i).
Proof. exact new_handle_fresh. Qed.
Print Assumptions C04_new_handle_fresh.

(* the same for the calls built on top of the node-level API: remove_insignificant_whitespace, create_missing_prefixes,
   deduplicate_namespaces, clone_with_prefixes (whatever order the hash map of inherited prefixes is walked in) — every
   history the harness can draw (Model/Hist.v tstep) keeps the store good *)
Theorem C04_every_api_history_keeps_store_good :
  forall nm ops t st, Good st -> Good (snd (tfinal nm (t, st) ops)).
Proof. intros nm ops t st G. exact (ext_good _ _ (Ext_tfinal nm ops t st G)). Qed.
Print Assumptions C04_every_api_history_keeps_store_good.

Theorem C04_api_removed_for_ever :
  forall nm ops1 ops2 t st h, Good st ->
    let b := tfinal nm (t, st) ops1 in let c := tfinal nm b ops2 in
    live st h -> ~ live (snd b) h -> ~ live (snd c) h.
Proof.
  intros nm ops1 ops2 t st h G b c. pose proof (Ext_tfinal nm ops1 t st G) as X1. fold b in X1.
  destruct b as [tb sb]. cbn [snd] in *. apply (removed_for_ever st sb (snd c) h X1). subst c. apply Ext_tfinal. apply X1.
Qed.
Print Assumptions C04_api_removed_for_ever.

(* xml_id_node (the one accessor that answers from an index built earlier, at parse time) never hands out a removed node:
   whatever the index holds, an answer is a live handle *)
Theorem C04_xml_id_node_answers_are_live :
  forall st index id h, xml_id_node st index id = Some h -> live st h.
Proof. exact xml_id_node_live. Qed.
Print Assumptions C04_xml_id_node_answers_are_live.

(* non-vacuity: a history with removals, slot reuse, wrapping and attribute calls reaches a non-trivial store (and the
   theorem above says it is good); and the shape predicate does reject a wrong forest (text before an attribute) *)
Example C04_example_history :
  let ops := [ONewDoc; ONewEl 5; OAppend 0 1; ONewText [104]; OAppend 1 2; OSetAttr 1 7 [118]; ORemove 2;
              ONewText [105]; OAppend 1 2; OWrap 2 9; ONewNs 1 2; OAppendNsNode 1 5] in
  store (mfinal init_state ops)
  = FCons 0 VDocument
      (FCons 1 (VElement 5)
         (FCons 5 (VNamespace 1 2) FNil (FCons 3 (VAttribute 7 [118]) FNil (FCons 4 (VElement 9) (FCons 2 (VText [105]) FNil FNil) FNil)))
         FNil) FNil
  /\ stamps (mfinal init_state ops) = [0; 0; 1; 0; 0; 0]%Z.
Proof. vm_compute. split; reflexivity. Qed.

Example C04_shape_rejects :
  shape_store (FCons 0 (VElement 5) (FCons 1 (VText [104]) FNil (FCons 2 (VAttribute 7 []) FNil FNil)) FNil) = false
  /\ shape_store (FCons 0 (VElement 5) (FCons 1 VDocument FNil FNil) FNil) = false
  /\ shape_store (FCons 0 (VText []) (FCons 1 (VElement 5) FNil FNil) FNil) = false
  /\ keys (FCons 0 (VElement 5) (FCons 1 (VAttribute 7 [1]) FNil (FCons 2 (VAttribute 7 [2]) FNil FNil)) FNil) = false
  /\ keys (FCons 0 (VElement 5) (FCons 1 (VNamespace 3 1) FNil (FCons 2 (VNamespace 3 2) FNil FNil)) FNil) = false
  /\ keys (FCons 0 (VElement 5) (FCons 1 (VNamespace 3 1) FNil (FCons 2 (VAttribute 3 [2]) FNil FNil)) FNil) = true.
Proof. vm_compute. repeat split. Qed.

(* element_wrap and element_unwrap between text nodes: the wrapper separates, the unwrapped text merges on both sides *)
Example C04_noadj_wrap_unwrap_example :
  let ops := [ONewDoc; ONewEl 5; OAppend 0 1; ONewText [104]; OAppend 1 2; ONewEl 6; OAppend 1 3; ONewText [105]; OAppend 1 4;
              ONewText [106]; OAppend 3 5; OWrap 3 7; OUnwrap 3; OUnwrap 6] in
  forallb plain_op2 ops = true
  /\ store (mfinal init_state ops) = FCons 0 VDocument (FCons 1 (VElement 5) (FCons 2 (VText [104; 106; 105]) FNil FNil) FNil) FNil.
Proof. vm_compute. repeat split. Qed.

(* ---------- "parsing further documents": a parse into a good store gives a good store ---------- *)

(* [parse_into st p]: the tree [p] the builder handed back becomes a new root of the store and its slots are pushed onto the
   arena.  For every token stream, if the arena has no free slots (then new nodes are pushed: the assumption of
   Model/Builder.v; the harness parses into such an arena) the store stays good, no slot generation moves, every node that was
   there keeps its value, and no adjacent text nodes appear. *)
Theorem C04_parse_keeps_store_good :
  forall bi bom st t srclen ts p, Good st -> free st = [] ->
    parse_document_at bi bom t (N.of_nat (length (stamps st))) srclen ts = BOk p ->
    Ext st (parse_into st p) /\ (noadj st -> noadj (parse_into st p)) /\ cons (parse_into st p) = cons st.
Proof. intros bi bom st t srclen ts p G Hf Hp. apply Ext_parse_into; [exact G|exact Hf|]. exact (parse_document_at_sound bi _ _ _ _ _ _ Hp). Qed.
Print Assumptions C04_parse_keeps_store_good.

Theorem C04_parse_fragment_keeps_store_good :
  forall bi st t ts p, Good st -> free st = [] ->
    parse_fragment bi t (N.of_nat (length (stamps st))) ts = BOk p ->
    Ext st (parse_into st p) /\ (noadj st -> noadj (parse_into st p)) /\ cons (parse_into st p) = cons st.
Proof. intros bi st t ts p G Hf Hp. apply Ext_parse_into; [exact G|exact Hf|]. exact (parse_fragment_sound bi _ _ _ _ Hp). Qed.
Print Assumptions C04_parse_fragment_keeps_store_good.

(* ---------- "as long as text consolidation has never been switched off, no two text nodes are adjacent" ---------- *)

(* [noadj st]: in no child list of any node of the store do two text nodes follow one another (Spec/NoAdj.v; the parentless
   nodes at the top of the store are no siblings).
   PARTIAL: proved for every call of the node-level API except replace ([plain_op2]).  replace, element_wrap and element_unwrap pass
   through a state in which the old neighbours of the node touch before the call repairs it, so the clause is no invariant
   of their steps: for element_wrap and element_unwrap every intermediate store is computed exactly from the cursor of the node
   (Proofs/WrapEffect.v, Proofs/UnwrapEffect.v); for replace that is not done (the replacing node may come from anywhere), it is
   covered by the structural oracle of the correspondence run.  A call that switches consolidation off is excluded by the
   property itself. *)
Theorem C04_no_adjacent_text_step_partial :
  forall st o, Good st -> cons st = true -> noadj st -> plain_op2 o = true ->
    noadj (fst (mstep st o)) /\ cons (fst (mstep st o)) = true.
Proof. intros st o G Hc Hna Hp. split; [apply noadj_mstep2; assumption|apply cons_mstep2; assumption]. Qed.
Print Assumptions C04_no_adjacent_text_step_partial.

(* hence along every history of such calls from the empty store (consolidation is on in a new Xot) *)
Theorem C04_no_adjacent_text_history_partial :
  forall ops, forallb plain_op2 ops = true -> noadj (mfinal init_state ops) /\ cons (mfinal init_state ops) = true.
Proof. intros ops Hp. exact (noadj_history2 ops init_state Good_init eq_refl eq_refl Hp). Qed.
Print Assumptions C04_no_adjacent_text_history_partial.

(* the same over the calls built on the node-level API: remove_insignificant_whitespace, create_missing_prefixes,
   deduplicate_namespaces, clone_with_prefixes ([plain_top] excludes only replace and switching consolidation off) *)
Theorem C04_no_adjacent_text_api_history_partial :
  forall nm ops t st, Good st -> cons st = true -> noadj st -> forallb plain_top ops = true ->
    noadj (snd (tfinal nm (t, st) ops)) /\ cons (snd (tfinal nm (t, st) ops)) = true.
Proof. exact noadj_tfinal. Qed.
Print Assumptions C04_no_adjacent_text_api_history_partial.

(* what [plain_op2] and [plain_top] leave out, spelled out: only replace and the switch-off *)
Example C04_plain_ops_are_all_but_replace :
  forall o, plain_op2 o = false -> (exists a b, o = OReplace a b) \/ o = OCons false.
Proof. intros o H. destruct o; try discriminate H; [left; eauto|destruct b; [discriminate|right; reflexivity]]. Qed.

(* replace too, except in one configuration: [plain_at st o] lets replace(a, b) through unless, in the store the call finds, [a]
   stands between two text nodes and [b] is neither of them (Proofs/ReplaceEffect.v: otherwise either the detached node leaves
   no text nodes touching and every later step of the call keeps the clause, or nothing is inserted and the final consolidation
   merges the two).  PARTIAL in exactly that configuration, which stays with the structural oracle of the correspondence run. *)
Theorem C04_no_adjacent_text_step_with_replace_partial :
  forall st o, Good st -> cons st = true -> noadj st -> plain_at st o = true ->
    noadj (fst (mstep st o)) /\ cons (fst (mstep st o)) = true.
Proof. exact noadj_mstep3. Qed.
Print Assumptions C04_no_adjacent_text_step_with_replace_partial.

(* along histories: the condition on a replace is evaluated in the store that call finds ([run_ok]) *)
Theorem C04_no_adjacent_text_history_with_replace_partial :
  forall ops, run_ok init_state ops = true -> noadj (mfinal init_state ops) /\ cons (mfinal init_state ops) = true.
Proof. intros ops Hp. exact (noadj_history3 ops init_state Good_init eq_refl eq_refl Hp). Qed.
Print Assumptions C04_no_adjacent_text_history_with_replace_partial.

(* the one configuration the two theorems above leave out — the replaced node stands between two text nodes and the replacing
   node is a third node — is Proofs/Seams.v and Proofs/ReplaceSeam.v: the call first detaches the replaced node without
   consolidation, so the insertion of the replacing node runs in a store in which the two text nodes touch.  That store is
   followed with the one pair tolerated ([nab S f]: the clause except for the pairs listed in S; cutting a node out adds the
   pair of its neighbours, deleting a text node that starts no tolerated pair and inserting a non-text node add none), the
   insertion is reduced to its four possible outcomes there (the replacing node separates the two text nodes; it is a text node
   and goes into the first; it stood just before the first, which is merged away; it stood between two other text nodes, which
   are merged where it leaves), and in each the tolerated pairs are gone at the end: split by the inserted node, or merged by
   the last consolidation of the call.  So the clause is an invariant of every call but the switch-off, with no exception: *)
Theorem C04_no_adjacent_text_step :
  forall st o, Good st -> cons st = true -> noadj st -> keeps_cons o = true ->
    noadj (fst (mstep st o)) /\ cons (fst (mstep st o)) = true.
Proof. exact noadj_mstep_full. Qed.
Print Assumptions C04_no_adjacent_text_step.

(* along every history of the node-level API in which consolidation is not switched off, from the empty store *)
Theorem C04_no_adjacent_text_history :
  forall ops, forallb keeps_cons ops = true -> noadj (mfinal init_state ops) /\ cons (mfinal init_state ops) = true.
Proof. intros ops Hp. exact (noadj_history_full ops init_state Good_init eq_refl eq_refl Hp). Qed.
Print Assumptions C04_no_adjacent_text_history.

(* and over the calls built on the node-level API as well *)
Theorem C04_no_adjacent_text_api_history :
  forall nm ops t st, Good st -> cons st = true -> noadj st -> forallb top_keeps_cons ops = true ->
    noadj (snd (tfinal nm (t, st) ops)) /\ cons (snd (tfinal nm (t, st) ops)) = true.
Proof. exact noadj_tfinal_full. Qed.
Print Assumptions C04_no_adjacent_text_api_history.

(* what [keeps_cons] leaves out: the call that switches consolidation off, which the property itself excludes *)
Example C04_only_the_switch_off_is_excluded : forall o, keeps_cons o = false -> o = OCons false.
Proof. intros o H. destruct o; try discriminate H. destruct b; [discriminate|reflexivity]. Qed.

(* replace between two text nodes by a third node: an element separates them, a text node is merged with both *)
Example C04_noadj_replace_by_third_node_example :
  let ops := [ONewDoc; ONewEl 5; OAppend 0 1; ONewText [104]; OAppend 1 2; ONewEl 6; OAppend 1 3; ONewText [105]; OAppend 1 4] in
  run_ok init_state (ops ++ [ONewEl 7; OReplace 3 5]) = false
  /\ store (mfinal init_state (ops ++ [ONewEl 7; OReplace 3 5]))
     = FCons 0 VDocument (FCons 1 (VElement 5) (FCons 2 (VText [104]) FNil (FCons 5 (VElement 7) FNil (FCons 4 (VText [105]) FNil FNil))) FNil) FNil
  /\ store (mfinal init_state (ops ++ [ONewText [106]; OReplace 3 5]))
     = FCons 0 VDocument (FCons 1 (VElement 5) (FCons 2 (VText [104; 106; 105]) FNil FNil) FNil) FNil.
Proof. vm_compute. repeat split. Qed.

(* a replace between two text nodes by one of them is in the second theorem, and merges them; by a third node it is not *)
Example C04_noadj_replace_example :
  let ops := [ONewDoc; ONewEl 5; OAppend 0 1; ONewText [104]; OAppend 1 2; ONewEl 6; OAppend 1 3; ONewText [105]; OAppend 1 4] in
  run_ok init_state (ops ++ [OReplace 3 2]) = true
  /\ store (mfinal init_state (ops ++ [OReplace 3 2])) = FCons 0 VDocument (FCons 1 (VElement 5) (FCons 2 (VText [104; 105]) FNil FNil) FNil) FNil
  /\ run_ok init_state (ops ++ [ONewEl 7; OReplace 3 5]) = false.
Proof. vm_compute. repeat split. Qed.

(* non-vacuity: a history in which text is appended next to text, moved between text nodes and a separating element is
   removed ends without adjacent text (the merges happen); the predicate does reject adjacent text; and with consolidation
   switched off the same calls do leave two text nodes side by side *)
Example C04_noadj_example :
  let ops := [ONewDoc; ONewEl 5; OAppend 0 1; ONewText [104]; OAppend 1 2; ONewEl 6; OAppend 1 3; ONewText [105]; OAppend 1 4;
              ONewText [106]; OInsertAfter 2 5; ORemove 3] in
  forallb plain_op2 ops = true
  /\ store (mfinal init_state ops) = FCons 0 VDocument (FCons 1 (VElement 5) (FCons 2 (VText [104; 106; 105]) FNil FNil) FNil) FNil
  /\ na (FCons 0 (VElement 5) (FCons 1 (VText [104]) FNil (FCons 2 (VText [105]) FNil FNil)) FNil) = false
  /\ na (store (mfinal init_state (OCons false :: ops))) = false.
Proof. vm_compute. repeat split. Qed.
