(* C04 — Every reachable forest is structurally valid and handles stay meaningful.
   Pinned statements only.  Model: Model/Store.v, Model/Manip.v.
   The representation carries mutual consistency and acyclicity of the links: a store is an inductive forest,
   every query goes through a cursor into it (Model/Zipper.v), so parent / child / sibling relations cannot
   disagree and a parentless node has no siblings by construction (locate zeroes the sibling lists of a root). *)
From Coq Require Import List NArith Permutation.
From XotV Require Import Model.Base Model.Zipper Model.Access Model.Store Model.Manip Spec.DocOrder
                         Proofs.ZipperProofs Proofs.AccessProofs Proofs.StoreProofs.
Import ListNotations.
Open Scope N_scope.

(* the cursor moves are mutually consistent: going to a neighbour and back is the identity on the tree *)
Theorem C04_moves_stay_in_tree :
  forall z z', (right z = Some z' \/ left z = Some z' \/ down_first z = Some z' \/ down_last z = Some z' \/ up z = Some z')
               -> plug z' = plug z.
Proof.
  intros z z' [H|[H|[H|[H|H]]]];
    [exact (plug_right _ _ H)|exact (plug_left _ _ H)|exact (plug_down_first _ _ H)|exact (plug_down_last _ _ H)|exact (plug_up _ _ H)].
Qed.
Print Assumptions C04_moves_stay_in_tree.

(* an ordered tree (namespace nodes, then attribute nodes, then ordinary children; only ordinary nodes have
   children) looks ordered from every cursor in it *)
Theorem C04_ordered_everywhere :
  forall z, ordered (plug z) = true ->
    zwf z /\ (is_normal (z_val z) = true -> ordered (z_kids z) = true)
    /\ ordered_from (rank (z_val z)) (z_after z) = true.
Proof. exact ordered_zwf. Qed.
Print Assumptions C04_ordered_everywhere.

(* the surgery primitives conserve the set of nodes (no node is created, lost or duplicated) *)
Theorem C04_cut_conserves :
  forall n f f' i v k, fcut n f = Some (f', (i, v, k)) ->
    i = n /\ Permutation (nodes f) ((i, v) :: nodes k ++ nodes f').
Proof. exact fcut_spec. Qed.
Print Assumptions C04_cut_conserves.

Theorem C04_cut_finds_every_node :
  forall n f, In n (ids f) -> exists f' t, fcut n f = Some (f', t).
Proof. exact fcut_some. Qed.
Print Assumptions C04_cut_finds_every_node.

Theorem C04_insert_after_conserves :
  forall ref t f, NoDup (ids f) -> In ref (ids f) ->
    Permutation (nodes (finsert_after ref t f)) (nodes f ++ nodes t).
Proof. exact finsert_after_spec. Qed.
Print Assumptions C04_insert_after_conserves.

Theorem C04_splice_conserves :
  forall n f, NoDup (ids f) -> In n (ids f) ->
    exists v, Permutation (nodes f) ((n, v) :: nodes (fsplice n f)).
Proof. exact fsplice_spec. Qed.
Print Assumptions C04_splice_conserves.
