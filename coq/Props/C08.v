(* C08 — Name, namespace and prefix ids are a stable one-to-one interning.
   Pinned statements only; every proof is `exact <lemma>`.  Model: Model/Interning.v, Model/InternOps.v
   (constants from Gen/Tables.v, regenerated from /repo/src on every run). *)
From Coq Require Import List NArith.
From XotV Require Import Model.Base Model.Interning Model.InternOps Gen.Tables
                         Proofs.InterningProofs Proofs.InternOpsProofs.
Import ListNotations.
Open Scope N_scope.

(* the source uses the checked index conversion for all three id types (fails if the source goes back to `as uN`) *)
Theorem C08_conversion_checked :
  id_checked_name = true /\ id_checked_namespace = true /\ id_checked_prefix = true.
Proof. exact ids_checked. Qed.
Print Assumptions C08_conversion_checked.

(* For every history of registrations / lookups / html5() / clone from Xot::new, of any length: two
   registrations return the same id exactly when they registered the same string (names: the same
   (local name, namespace id) pair). *)
Theorem C08_same_id_iff_same_value :
  forall st0 ops st' obs,
    x_new = ROk st0 -> irun st0 ops = (st', obs) ->
    forall j k oj ok ia ib kd a na b nb,
      nth_error ops j = Some oj -> nth_error ops k = Some ok ->
      nth_error obs j = Some (ObsId ia) -> nth_error obs k = Some (ObsId ib) ->
      reg_key oj = Some (kd, a, na) -> reg_key ok = Some (kd, b, nb) ->
      (ia = ib <-> (a = b /\ na = nb)).
Proof. exact same_id_iff_same_value. Qed.
Print Assumptions C08_same_id_iff_same_value.

(* looking an id up returns the string it was registered with *)
Theorem C08_registered_id_resolves :
  forall b t o b' t' i,
    reachable (b, t) -> istep (b, t) o = ((b', t'), ObsId i) ->
    match o with
    | OAddNameNs s ns => get_value (t_names t') i = Some (s, ns)
    | OAddNamespace s => namespace_str t' i = Some s
    | OAddPrefix s => prefix_str t' i = Some s
    | _ => True
    end.
Proof. exact registered_id_resolves. Qed.
Print Assumptions C08_registered_id_resolves.

(* the read-only lookups find exactly what has been registered *)
Theorem C08_readonly_lookup_exact :
  forall b t, reachable (b, t) ->
    (forall s i, lookup_namespace t s = Some i <-> namespace_str t i = Some s)
    /\ (forall s i, lookup_prefix t s = Some i <-> prefix_str t i = Some s)
    /\ (forall s ns i, lookup_name_ns t s ns = Some i <-> get_value (t_names t) i = Some (s, ns)).
Proof. exact readonly_lookup_exact. Qed.
Print Assumptions C08_readonly_lookup_exact.

(* an id never changes meaning as more entries are added or the Xot is cloned *)
Theorem C08_id_meaning_stable :
  forall b t ops b' t' obs,
    reachable (b, t) -> irun (b, t) ops = ((b', t'), obs) ->
    (forall i s, namespace_str t i = Some s -> namespace_str t' i = Some s)
    /\ (forall i s, prefix_str t i = Some s -> prefix_str t' i = Some s)
    /\ (forall i v, get_value (t_names t) i = Some v -> get_value (t_names t') i = Some v)
    /\ (forall i v, name_ns_str t i = Some v -> name_ns_str t' i = Some v).
Proof. exact id_meaning_stable. Qed.
Print Assumptions C08_id_meaning_stable.

(* names compare equal exactly when their expanded names are equal *)
Theorem C08_name_ids_equal_iff_expanded_equal :
  forall b t i j vi vj,
    reachable (b, t) ->
    get_value (t_names t) i = Some vi -> get_value (t_names t) j = Some vj -> (i = j <-> vi = vj).
Proof. exact name_ids_equal_iff_expanded_equal. Qed.
Print Assumptions C08_name_ids_equal_iff_expanded_equal.

Theorem C08_namespace_ids_equal_iff_uri_equal :
  forall b t i j ui uj,
    reachable (b, t) ->
    namespace_str t i = Some ui -> namespace_str t j = Some uj -> (i = j <-> ui = uj).
Proof. exact namespace_ids_equal_iff_uri_equal. Qed.
Print Assumptions C08_namespace_ids_equal_iff_uri_equal.

(* a registration can only panic when its table is full (2^width entries); it never aliases *)
Theorem C08_registration_panics_only_when_full :
  forall b t o,
    reachable (b, t) -> snd (istep (b, t) o) = ObsPanic ->
    match o with
    | OAddNameNs _ _ => 2 ^ id_width_name <= N.of_nat (length (by_id (t_names t)))
    | OAddNamespace _ => 2 ^ id_width_namespace <= N.of_nat (length (by_id (t_namespaces t)))
    | OAddPrefix _ => 2 ^ id_width_prefix <= N.of_nat (length (by_id (t_prefixes t)))
    | OHtml5 => True
    | _ => False
    end.
Proof. exact registration_panics_only_when_full. Qed.
Print Assumptions C08_registration_panics_only_when_full.

(* the built-in ids are distinct and resolve to their standard strings *)
Theorem C08_builtins_standard :
  exists b t, x_new = ROk (b, t)
    /\ b_no_namespace b <> b_xml_namespace b /\ b_empty_prefix b <> b_xml_prefix b /\ b_xml_space b <> b_xml_id b
    /\ namespace_str t (b_no_namespace b) = Some []
    /\ prefix_str t (b_empty_prefix b) = Some []
    /\ namespace_str t (b_xml_namespace b)
       = Some [104; 116; 116; 112; 58; 47; 47; 119; 119; 119; 46; 119; 51; 46; 111; 114; 103; 47; 88; 77; 76; 47;
               49; 57; 57; 56; 47; 110; 97; 109; 101; 115; 112; 97; 99; 101]
    /\ prefix_str t (b_xml_prefix b) = Some [120; 109; 108]
    /\ get_value (t_names t) (b_xml_space b) = Some ([115; 112; 97; 99; 101], b_xml_namespace b)
    /\ get_value (t_names t) (b_xml_id b) = Some ([105; 100], b_xml_namespace b).
Proof. exact builtins_standard. Qed.
Print Assumptions C08_builtins_standard.

(* with the unchecked conversion the law is false (entry number 2^W aliases id 0): kept as the record of
   the repaired defect; width 2 so that the witness can be computed *)
Theorem C08_unchecked_conversion_refuted :
  exists vs is m',
    let run := fix run (m : idmap N) (vs : list N) : list N * idmap N :=
      match vs with
      | [] => ([], m)
      | v :: vs' => match Interning.get_id_mut N.eqb 2 false m v with
                    | RPanic => ([], m)
                    | ROk (i, m1) => let '(is, m2) := run m1 vs' in (i :: is, m2)
                    end
      end in
    run idmap_new vs = (is, m') /\ nth_error vs 0 <> nth_error vs 4 /\ nth_error is 0 = nth_error is 4.
Proof. exact unchecked_aliases. Qed.
Print Assumptions C08_unchecked_conversion_refuted.
