(* C03 — Parser is total, rejects ill-formed text, and accepts only sound trees.
   Pinned statements only.  Model: Model/Builder.v (src/parse.rs), Model/Entity.v (src/entity.rs). *)
From Coq Require Import List NArith.
From XotV Require Import Model.Base Model.Interning Model.Fullname Model.Entity Model.Builder Proofs.EntityProofs Proofs.BuilderProofs Proofs.BuilderTotal Proofs.BuilderSound.
From XotV Require Import Spec.Shape Spec.NoAdj.
Import ListNotations.
Open Scope N_scope.

(* a prefix is declared at most once per element: a second xmlns:p (or xmlns) on one start tag is refused *)
Theorem C03_prefix_declared_once :
  forall st prefix uri sp st',
    eb_ok (b_eb st) -> builder_prefix st prefix uri sp = BOk st' -> eb_ok (b_eb st').
Proof. exact builder_prefix_unique. Qed.
Print Assumptions C03_prefix_declared_once.

(* no two attributes of one element get the same expanded name, whatever prefixes spell them, and no xml:id value is
   entered into the index twice: otherwise the start tag is refused *)
Theorem C03_attributes_unique_by_expanded_name :
  forall bi l st node st' done',
    NoDup (map fst (b_ids st)) ->
    open_attributes bi st node l [] = BOk (st', done') ->
    NoDup (names_of done') /\ NoDup (map fst (b_ids st')) /\ length done' = length l.
Proof.
  intros bi l st node st' done' Hi H.
  destruct (open_attributes_unique bi l st node [] st' done' (NoDup_nil _) Hi H) as (H1 & H2 & H3). auto.
Qed.
Print Assumptions C03_attributes_unique_by_expanded_name.

(* a character reference is accepted only when it is digits only and denotes an XML Char *)
Theorem C03_reference_denotes_xml_char :
  forall body c, char_of_reference body = Some c -> is_xml_char c = true /\ is_scalar c = true.
Proof.
  intros body c. unfold char_of_reference. destruct body as [|h rest]; [discriminate|].
  destruct (if N.eqb h c_x then match rest with [] => None | _ => digits_value 16 hex_digit rest 0 end
            else digits_value 10 dec_digit (h :: rest) 0) as [v|]; [|discriminate].
  destruct (is_scalar v && is_xml_char v) eqn:E; [|discriminate].
  intros H. inversion H; subst. apply Bool.andb_true_iff in E. tauto.
Qed.
Print Assumptions C03_reference_denotes_xml_char.

(* tokens the parser refuses outright *)
Theorem C03_refused_tokens :
  forall bi st,
    (forall sp, bstep bi st (TkDtd sp) = BErr (PEDtdUnsupported sp))
    /\ (forall pos, bstep bi st (TkError pos) = BErr (PEXmlParser pos))
    /\ (forall v e, ss_text v <> s_version_10 -> bstep bi st (TkDecl v e) = BErr (PEUnsupportedVersion (ss_text v) (ss_span v)))
    /\ (forall v e, ss_text v = s_version_10 -> valid_encname (ss_text e) = false ->
          bstep bi st (TkDecl v (Some e)) = BErr (PEXmlParser (sp_start (ss_span e)))).
Proof.
  intros bi st. split; [reflexivity|]. split; [reflexivity|]. split.
  - intros v e Hv. cbn. destruct (str_eqb (ss_text v) s_version_10) eqn:E; [|reflexivity].
    apply str_eqb_eq in E. contradiction.
  - intros v e Hv He. cbn. rewrite Hv. assert (str_eqb s_version_10 s_version_10 = true) as -> by reflexivity. rewrite He. reflexivity.
Qed.
Print Assumptions C03_refused_tokens.

(* "Total": on every token stream with the shape xmlparser gives its output (attributes and the end of a start tag only inside
   a start tag, everything else only outside; the driver checks [stream_shape] on every stream xmlparser produced), for every
   interning state, arena position and source length, none of the unwrap / expect calls of src/parse.rs (DocumentBuilder,
   NameIdBuilder, the span bookkeeping, the top-level checks, unclosed_tag) can fail: the answer is a parsed tree, a ParseError,
   or the unwinding of a full interning table (BFull, the checked id conversion of C08) — never BPanic. *)
Theorem C03_parse_never_panics :
  forall bi bom t next srclen ts, stream_shape false ts = true -> parse_document_at bi bom t next srclen ts <> BPanic.
Proof. exact parse_document_at_never_panics. Qed.
Print Assumptions C03_parse_never_panics.

Theorem C03_parse_fragment_never_panics :
  forall bi t next ts, stream_shape false ts = true -> parse_fragment bi t next ts <> BPanic.
Proof. exact parse_fragment_never_panics. Qed.
Print Assumptions C03_parse_fragment_never_panics.

(* the invariant behind it holds after every prefix of the stream: the open nodes are elements above one document node, and
   every element and text node built so far has the span that the error paths read *)
Theorem C03_builder_invariant_along_any_stream :
  forall bi ts intag st, J intag st -> stream_shape intag ts = true ->
    match brun bi st ts with BOk st' => BInv st' | BPanic => False | _ => True end.
Proof. exact brun_total. Qed.
Print Assumptions C03_builder_invariant_along_any_stream.

(* "Whatever is accepted is a structurally valid tree": for EVERY token stream (no assumption on its shape), interning state and
   arena position, a tree handed back by parse / parse_fragment is well shaped (namespace* attribute* ordinary* under elements,
   ordinary non-document nodes under the document node, leaves childless), has no attribute name and no declared prefix twice on
   an element, has no two adjacent text nodes, and occupies exactly the next free slots of the arena *)
Theorem C03_accepted_tree_is_sound :
  forall bi bom t next srclen ts p, parse_document_at bi bom t next srclen ts = BOk p ->
    shape_store (pr_tree p) = true /\ keys (pr_tree p) = true /\ na (pr_tree p) = true
    /\ exists cnt, Permutation.Permutation (ids (pr_tree p)) (nrange next cnt) /\ pr_next p = next + N.of_nat cnt.
Proof. exact parse_document_at_sound. Qed.
Print Assumptions C03_accepted_tree_is_sound.

Theorem C03_accepted_fragment_is_sound :
  forall bi t next ts p, parse_fragment bi t next ts = BOk p ->
    shape_store (pr_tree p) = true /\ keys (pr_tree p) = true /\ na (pr_tree p) = true
    /\ exists cnt, Permutation.Permutation (ids (pr_tree p)) (nrange next cnt) /\ pr_next p = next + N.of_nat cnt.
Proof. exact parse_fragment_sound. Qed.
Print Assumptions C03_accepted_fragment_is_sound.

(* the reserved target (PITarget ::= Name - (('X'|'x')('M'|'m')('L'|'l'))): a processing instruction token whose target is xml
   in any mix of cases never becomes a node — it is the XML declaration in the spelling xmlparser does not recognise (`<?xml`
   followed by a tab or a line end; only at the very start of a document, only spelled xml, only with well-formed content,
   [declaration_version]) and leaves the builder as it is, or the parse ends with an error *)
Theorem C03_reserved_pi_target_never_becomes_a_node :
  forall bi st target content, reserved_target (ss_text target) = true ->
    bstep bi st (TkPI target content) = BOk st \/ exists e, bstep bi st (TkPI target content) = BErr e.
Proof.
  intros bi st target content H. cbn [bstep]. rewrite H.
  match goal with |- (match ?x with Some _ => _ | None => _ end) = _ \/ _ => destruct x as [v|] end; [|right; eexists; reflexivity].
  destruct (str_eqb _ _); [left; reflexivity|right; eexists; reflexivity].
Qed.
Print Assumptions C03_reserved_pi_target_never_becomes_a_node.

(* the content of such a declaration: version 1.0 with white space around '=', either quote, an encoding and a standalone
   declaration is read (the span is that of the version value); a version value that is no VersionNum, a missing version, a
   pseudo-attribute out of order, or no white space between two of them is not *)
Example C03_declaration_version_example :
  let c := fun s => {| ss_text := s; ss_span := {| sp_start := 6; sp_end := 6 + N.of_nat (length s) |} |} in
  (* version = '1.0' encoding="UTF-8" standalone='no' *)
  declaration_version (c [118;101;114;115;105;111;110;32;61;32;39;49;46;48;39;32;101;110;99;111;100;105;110;103;61;34;85;84;70;45;56;34;10;
                          115;116;97;110;100;97;108;111;110;101;61;39;110;111;39;32])
    = Some {| ss_text := [49;46;48]; ss_span := {| sp_start := 17; sp_end := 20 |} |}
  (* version="1.x" *)
  /\ declaration_version (c [118;101;114;115;105;111;110;61;34;49;46;120;34]) = None
  (* encoding="UTF-8" *)
  /\ declaration_version (c [101;110;99;111;100;105;110;103;61;34;85;84;70;45;56;34]) = None
  (* version="1.0" standalone="yes" encoding="UTF-8" *)
  /\ declaration_version (c [118;101;114;115;105;111;110;61;34;49;46;48;34;32;115;116;97;110;100;97;108;111;110;101;61;34;121;101;115;34;32;
                             101;110;99;111;100;105;110;103;61;34;85;84;70;45;56;34]) = None
  (* version="1.0"encoding="UTF-8" *)
  /\ declaration_version (c [118;101;114;115;105;111;110;61;34;49;46;48;34;101;110;99;111;100;105;110;103;61;34;85;84;70;45;56;34]) = None
  /\ reserved_target [88; 109; 76] = true /\ reserved_target [120; 109; 108; 45; 115] = false.
Proof. vm_compute. repeat split. Qed.

(* non-vacuity: the hypothesis holds of a real stream, and a stream without that shape does reach an unwrap *)
Example C03_shape_example :
  stream_shape false [TkElementStart {| ss_text := []; ss_span := {| sp_start := 1; sp_end := 1 |} |}
                                     {| ss_text := [97]; ss_span := {| sp_start := 1; sp_end := 2 |} |};
                      TkEndEmpty {| sp_start := 2; sp_end := 4 |}] = true.
Proof. reflexivity. Qed.

Example C03_shape_is_needed :
  forall bi t, parse_fragment bi t 0 [TkEndOpen {| sp_start := 0; sp_end := 1 |}] = BPanic.
Proof. reflexivity. Qed.
