(* C18 — Whitespace stripping removes exactly the insignificant whitespace.
   Pinned statements only.  Model: Model/Unpretty.v (src/unpretty.rs). *)
From Coq Require Import List NArith Permutation.
From XotV Require Import Model.Base Model.Zipper Model.Access Model.Store Model.Manip Model.Unpretty Spec.DocOrder Proofs.UnprettyProofs.
Import ListNotations.
Open Scope N_scope.

(* the call on a live node that is not a text node replaces the node's child list by [strip] of it and frees exactly the
   removed subtrees; nothing else of the store is touched *)
Theorem C18_call_effect :
  forall space st n z, cur st n = Some z -> (forall s, z_val z <> VText s) ->
    let preserve := nearest_space space (ancestors z) in
    let sig := level_sig (z_kids z) in
    rmws space st n
    = Some (free_slots (with_store st (fset_kids n (strip space preserve sig (z_kids z)) (store st)))
                       (stripped space preserve sig (z_kids z))).
Proof.
  intros space st n z Hc Hv. unfold rmws. rewrite Hc. destruct (z_val z); try reflexivity. exfalso. eapply Hv. reflexivity.
Qed.
Print Assumptions C18_call_effect.

(* exactly the nodes the property names are removed: a node is the root of a removed subtree iff it is a white-space-only
   (space, tab, CR, LF) text node, no text node of its sibling list has other content, and the innermost xml:space attribute
   above it (if any) is not "preserve" *)
Theorem C18_removes_exactly :
  forall space preserve f n,
    In n (stripped_roots space preserve (level_sig f) f) <-> removable space preserve f n.
Proof. exact stripped_roots_spec. Qed.
Print Assumptions C18_removes_exactly.

(* every other node, value and order is untouched: what remains is an order-preserving sub-list of the nodes before ... *)
Theorem C18_rest_untouched :
  forall space preserve sig f, sublist (nodes (strip space preserve sig f)) (nodes f).
Proof. exact strip_sublist. Qed.
Print Assumptions C18_rest_untouched.

(* ... and together with the removed nodes it is everything there was *)
Theorem C18_nothing_else_lost :
  forall space preserve sig f,
    Permutation (nodes f) (nodes (strip space preserve sig f) ++ stripped_nodes space preserve sig f)
    /\ stripped space preserve sig f = map fst (stripped_nodes space preserve sig f).
Proof. intros. split; [apply strip_partition|apply stripped_map]. Qed.
Print Assumptions C18_nothing_else_lost.

(* applying it a second time changes nothing and removes nothing (on trees whose sibling lists are namespace nodes,
   attribute nodes, ordinary nodes in that order: C04) *)
Theorem C18_second_call_changes_nothing :
  forall space preserve f, ordered f = true ->
    let f' := strip space preserve (level_sig f) f in
    strip space preserve (level_sig f') f' = f' /\ stripped space preserve (level_sig f') f' = [] /\ ordered f' = true.
Proof.
  intros space preserve f H. cbn zeta. split; [apply strip_idempotent; exact H|].
  split; [apply second_call_removes_nothing; exact H|apply strip_ordered; exact H].
Qed.
Print Assumptions C18_second_call_changes_nothing.

(* non-vacuity: a tree on which something is removed, something is protected by xml:space="preserve" and a text node in
   mixed content stays *)
Example C18_example :
  let sp := 0 in
  let t := FCons 1 (VElement 5)
             (FCons 2 (VText [32; 10]) FNil
             (FCons 3 (VElement 6) (FCons 4 (VAttribute sp s_preserve) FNil (FCons 5 (VText [32]) FNil FNil))
             (FCons 6 (VElement 7) (FCons 7 (VText [32]) FNil (FCons 8 (VComment []) FNil (FCons 9 (VText [120]) FNil FNil))) FNil))) FNil in
  ordered t = true /\ stripped sp false (level_sig t) t = [2].
Proof. vm_compute. split; reflexivity. Qed.
