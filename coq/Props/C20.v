(* C20 — The same document built three ways is the same tree.
   Pinned statements only.  Model: Model/Fixed.v (src/fixed.rs), Model/Manip.v (stepwise route), Model/Builder.v (parse route). *)
From Coq Require Import List NArith.
From XotV Require Import Model.Base Model.Zipper Model.Access Model.Store Model.Manip Model.Fullname Model.Fixed.
Import ListNotations.
Open Scope N_scope.

(* fixed::Element::xotify is exactly: new_element, one namespaces_mut().insert per prefix in order, one
   attributes_mut().insert per attribute in order, every child converted completely (in order), then one append per
   child in order *)
Theorem C20_element_effect :
  forall name ps attrs kids rest st,
    xotify_content (FCElem name ps attrs kids rest) st
    = let '(st1, e) := new_node st (VElement name) in
      let st2 := fold_left (fun s d => map_insert s KNs e (VNamespace (fst d) (snd d))) ps st1 in
      let st3 := fold_left (fun s a => map_insert s KAttr e (VAttribute (fst a) (snd a))) attrs st2 in
      match xotify_content kids st3 with
      | None => None
      | Some (st4, ks) =>
          match append_all st4 e ks with
          | None => None
          | Some st5 => match xotify_content rest st5 with Some (st6, l) => Some (st6, e :: l) | None => None end
          end
      end.
Proof. reflexivity. Qed.
Print Assumptions C20_element_effect.

(* fixed::Document::xotify: the element, a document around it, the leading items inserted before the document element in
   the given order, the trailing items appended to the DOCUMENT in the given order *)
Theorem C20_document_effect :
  forall before name ps attrs kids after st st1 child st2 doc,
    xotify_element name ps attrs kids st = Some (st1, child) ->
    mstep st1 (ONewDocWith child) = (st2, MDone (Some doc)) ->
    xotify_document before name ps attrs kids after st
    = match insert_all_before st2 child before with
      | None => None
      | Some st3 => match append_all_new st3 doc after with Some st4 => Some (st4, doc) | None => None end
      end.
Proof. intros. unfold xotify_document. rewrite H, H0. reflexivity. Qed.
Print Assumptions C20_document_effect.

(* inserting items one after the other before the same reference node keeps them in the order given, directly in front of
   the reference (forest level: what insert_before does to the sibling list) *)
Theorem C20_leading_items_keep_their_order :
  forall r vr kr rest i1 v1 i2 v2, i1 <> r -> i2 <> r -> i2 <> i1 ->
    finsert_before r (FCons i2 v2 FNil FNil) (finsert_before r (FCons i1 v1 FNil FNil) (FCons r vr kr rest))
    = FCons i1 v1 FNil (FCons i2 v2 FNil (FCons r vr kr rest)).
Proof.
  intros r vr kr rest i1 v1 i2 v2 H1 H2 H3. cbn [finsert_before]. rewrite N.eqb_refl. cbn [fapp finsert_before].
  destruct (N.eqb i1 r) eqn:E; [apply N.eqb_eq in E; contradiction|]. cbn [finsert_before]. rewrite N.eqb_refl. reflexivity.
Qed.
Print Assumptions C20_leading_items_keep_their_order.
