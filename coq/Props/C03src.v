(* C03src — the source-level tie of C03's character tables: the model's functions ARE the tables tools/gen_tables.py read from
   /repo/src on this run (Gen/Tables.v).  Built by ./check only when the translator could read those tables
   (Gen/Tables.v src_tables_read = true); otherwise the tie of these functions to the crate is the correspondence run alone,
   and the evidence says so.  Pinned statements only. *)
From Coq Require Import List NArith.
From XotV Require Import Model.Base Model.Entity Gen.Tables Proofs.EntityTables.
Import ListNotations.
Open Scope N_scope.

(* the XML Char production the model checks character references against is the `matches!` of is_xml_char in src/entity.rs
   as it is today (Gen/Tables.v [xml_char_ranges], regenerated on every run) *)
Theorem C03_xml_chars_are_the_sources :
  forall c, is_xml_char c = in_ranges c xml_char_ranges.
Proof. exact is_xml_char_is_the_table. Qed.
Print Assumptions C03_xml_chars_are_the_sources.
