(* C11 — Attribute and namespace views behave as insertion-ordered maps.
   Pinned statements only.  Model: Model/Manip.v (src/nodemap/core.rs mutators), Model/NodeMapRead.v (readers). *)
From Coq Require Import List NArith.
From XotV Require Import Model.Base Model.Zipper Model.Access Model.Store Model.Manip Model.NodeMapRead Proofs.NodeMapProofs.
Import ListNotations.
Open Scope N_scope.

(* the views the API reports are the views of the element's child list *)
Theorem C11_view_is_child_list_view :
  forall k st e z, cur st e = Some z -> view k st e = kview k (z_kids z).
Proof. exact view_kview. Qed.
Print Assumptions C11_view_is_child_list_view.

(* a new attribute is appended at the end of the attribute view; declarations and children do not move *)
Theorem C11_insert_attribute_appends :
  forall kids n key v,
    shaped (level_nodes kids) ->
    let kids' := insert_after_attributes (FCons n (VAttribute key v) FNil FNil) kids in
    kview KAttr kids' = kview KAttr kids ++ [(n, VAttribute key v)]
    /\ kview KNs kids' = kview KNs kids
    /\ knormal kids' = knormal kids
    /\ shaped (level_nodes kids').
Proof. exact insert_attribute_appends. Qed.
Print Assumptions C11_insert_attribute_appends.

(* a new declaration is appended at the end of the namespace view; attributes and children do not move *)
Theorem C11_insert_namespace_appends :
  forall kids n p ns0,
    shaped (level_nodes kids) ->
    let kids' := insert_after_namespaces (FCons n (VNamespace p ns0) FNil FNil) kids in
    kview KNs kids' = kview KNs kids ++ [(n, VNamespace p ns0)]
    /\ kview KAttr kids' = kview KAttr kids
    /\ knormal kids' = knormal kids
    /\ shaped (level_nodes kids').
Proof. exact insert_namespace_appends. Qed.
Print Assumptions C11_insert_namespace_appends.

(* len, is_empty, keys, values, get, contains_key, get_node are those of the association list of entries *)
Theorem C11_read_accessors_spec :
  forall v key,
    v_len v = N.of_nat (length (entries v))
    /\ (v_is_empty v = true <-> entries v = [])
    /\ v_keys v = map fst (entries v)
    /\ v_values v = map snd (entries v)
    /\ v_get v key = assoc_first key (entries v)
    /\ (v_contains_key v key = true <-> assoc_first key (entries v) <> None)
    /\ (v_get_node v key <> None <-> v_contains_key v key = true).
Proof. exact read_accessors_spec. Qed.
Print Assumptions C11_read_accessors_spec.

(* with unique keys, get / get_node return THE entry with that key *)
Theorem C11_get_unique :
  forall v key i x,
    NoDup (v_keys v) -> In (i, x) v -> key_of x = key -> v_get v key = Some x /\ v_get_node v key = Some i.
Proof. exact get_unique. Qed.
Print Assumptions C11_get_unique.
