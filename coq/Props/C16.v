(* C16 — Token and output-event streams reproduce the string serialisation.
   Pinned statements only.  Model: Model/XmlSer.v (src/serialize.rs, src/output/serializer.rs,
   src/output/xml_serializer.rs, src/output/pretty.rs). *)
From Coq Require Import List NArith.
From XotV Require Import Model.Base Model.Zipper Model.Access Model.Fullname Model.Scope Model.Entity Model.XmlSer Proofs.XmlSerProofs.
Import ListNotations.
Open Scope N_scope.

(* concatenating the token texts, each preceded by one space when so flagged, gives character for character the
   written serialisation under the same parameters (and both fail with the same error on the same trees) *)
Theorem C16_tokens_reproduce_serialisation :
  forall nm prm z, serialize_write nm prm z = serialize nm prm z.
Proof. exact tokens_reproduce_serialisation. Qed.
Print Assumptions C16_tokens_reproduce_serialisation.

(* the pretty token stream, with its indentation and newline fields applied, gives the pretty-printed string *)
Theorem C16_pretty_tokens_reproduce_serialisation :
  forall nm sup inl prm z, serialize_pretty_write nm sup inl prm z = serialize_pretty nm sup inl prm z.
Proof. exact pretty_tokens_reproduce_serialisation. Qed.
Print Assumptions C16_pretty_tokens_reproduce_serialisation.

(* the pretty tokens are the plain tokens plus indentation and newline: same nodes, events, space flags and texts *)
Theorem C16_pretty_tokens_same_text :
  forall nm sup inl prm evs st ps,
    match pretty_all nm sup inl prm st ps evs, render_all nm prm st evs with
    | inr lp, inr l => map (fun x => (fst x, (pt_space (snd x), pt_text (snd x)))) lp
                       = map (fun x => (fst x, (t_space (snd x), t_text (snd x)))) l
    | inl e, inl e' => e = e'
    | _, _ => False
    end.
Proof. exact pretty_all_same_tokens. Qed.
Print Assumptions C16_pretty_tokens_same_text.

(* the output-event stream of an ordinary node: for each ordinary node of its subtree, in document order, exactly its
   start events, then the events of its children, then its end events, each tagged with that node *)
Theorem C16_outputs_spec :
  forall nm z, is_normal (z_val z) = true ->
    gen_outputs nm z
    = map (fun o => (z, o)) (edge_start_outputs nm (z_slot z) z)
      ++ events_forest nm (z_slot z) (frame_of z :: z_ups z) FNil (z_kids z)
      ++ map (fun o => (z, o)) (edge_end_outputs z).
Proof. exact gen_outputs_spec. Qed.
Print Assumptions C16_outputs_spec.

(* an element's events are start-tag-open, (inherited declarations on the top node only,) its declarations, its
   attributes, start-tag-close, and one end-tag event *)
Theorem C16_element_events_shape :
  forall nm top z name, z_val z = VElement name ->
    exists extra,
      edge_start_outputs nm top z
      = OStartTagOpen name :: extra ++ map (fun d => OPrefix (fst d) (snd d)) (declarations z)
        ++ map (fun a => OAttribute (fst a) (snd a)) (attr_pairs z) ++ [OStartTagClose]
      /\ (z_slot z <> top -> extra = [])
      /\ Forall (fun o => match o with OPrefix _ _ => True | _ => False end) extra
      /\ edge_end_outputs z = [OEndTag name].
Proof. exact element_events_shape. Qed.
Print Assumptions C16_element_events_shape.
