(* C05 — Each manipulation call has exactly the effect an ordered-tree model predicts.
   Pinned statements only.  Model: Model/Store.v, Model/Manip.v. *)
From Coq Require Import List NArith Permutation.
From XotV Require Import Model.Base Model.Zipper Model.Access Model.Store Model.Manip Proofs.StoreProofs Proofs.ManipProofs Proofs.InvSteps Proofs.TreeFrame Proofs.Canon Proofs.CloneShape Proofs.WrapEffect Proofs.DetachEffect Proofs.UnwrapEffect2 Spec.Shape Spec.NoAdj Proofs.NoAdjFacts Proofs.PlainFacts Proofs.PlainOps Proofs.Atomic Proofs.InvHist Proofs.NoAdjOps Proofs.NoAdjFull.
Import ListNotations.
Open Scope N_scope.

(* a call asking for the position the node already occupies changes nothing *)
Theorem C05_in_place_noop :
  forall st,
    (forall p c, structure_check st (Some p) c = true -> q_raw_last_child st p = Some c ->
                 m_append st p c = (st, MDone None))
    /\ (forall p c, structure_check st (Some p) c = true -> q_first_child st p = Some c ->
                    m_prepend st p c = (st, MDone None))
    /\ (forall r n, sibling_check st r n = true -> q_prev st n = Some r ->
                    m_insert_after st r n = (st, MDone None))
    /\ (forall r n, sibling_check st r n = true -> q_next st n = Some r ->
                    m_insert_before st r n = (st, MDone None)).
Proof. exact in_place_noop. Qed.
Print Assumptions C05_in_place_noop.

(* the forest surgery every operation is built from neither creates, loses nor alters a node:
   cutting a subtree out ... *)
Theorem C05_cut_conserves :
  forall n f f' i v k, fcut n f = Some (f', (i, v, k)) ->
    i = n /\ Permutation (nodes f) ((i, v) :: nodes k ++ nodes f').
Proof. exact fcut_spec. Qed.
Print Assumptions C05_cut_conserves.

(* ... inserting it after / before a reference node, or into the child list of a parent ... *)
Theorem C05_insert_after_conserves :
  forall ref t f, NoDup (ids f) -> In ref (ids f) ->
    Permutation (nodes (finsert_after ref t f)) (nodes f ++ nodes t).
Proof. exact finsert_after_spec. Qed.
Print Assumptions C05_insert_after_conserves.

Theorem C05_insert_before_conserves :
  forall ref t f, NoDup (ids f) -> In ref (ids f) ->
    Permutation (nodes (finsert_before ref t f)) (nodes f ++ nodes t).
Proof. exact finsert_before_spec. Qed.
Print Assumptions C05_insert_before_conserves.

Theorem C05_insert_child_conserves :
  forall p g t f, NoDup (ids f) -> In p (ids f) ->
    (forall k, Permutation (nodes (g k)) (nodes k ++ nodes t)) ->
    Permutation (nodes (fmap_kids p g f)) (nodes f ++ nodes t).
Proof. exact fmap_kids_spec. Qed.
Print Assumptions C05_insert_child_conserves.

(* ... removing a single node keeps its children (element_unwrap, text merging) ... *)
Theorem C05_splice_conserves :
  forall n f, NoDup (ids f) -> In n (ids f) ->
    exists v, Permutation (nodes f) ((n, v) :: nodes (fsplice n f)).
Proof. exact fsplice_spec. Qed.
Print Assumptions C05_splice_conserves.

(* ... and a value update touches exactly one node *)
Theorem C05_set_value_touches_one :
  forall n g f, NoDup (ids f) -> In n (ids f) ->
    exists v l1 l2, nodes f = l1 ++ (n, v) :: l2 /\ nodes (fset_val n g f) = l1 ++ (n, g v) :: l2.
Proof. exact nodes_fset_val. Qed.
Print Assumptions C05_set_value_touches_one.

(* "no other node is created, lost, reordered or altered", for whole trees: [T] is any run of whole trees of the store (a
   segment of its top-level list, e.g. one document).  A call of the node-level API none of whose node arguments lies in [T]
   leaves [T] in the store exactly as it is — for every call (append, prepend, insert_before / insert_after, detach, remove,
   replace, element_wrap / element_unwrap, clone_node, any_append, all map and node calls, the setters, text_content_mut,
   creation), any arguments, with consolidation on or off, in every good store. *)
Theorem C05_trees_not_named_are_untouched :
  forall T st o, Good st -> (exists A B, store st = fapp A (fapp T B)) ->
    (forall x, In x (op_args o) -> ~ In x (ids T)) ->
    exists A' B', store (fst (mstep st o)) = fapp A' (fapp T B').
Proof. exact tree_frame. Qed.
Print Assumptions C05_trees_not_named_are_untouched.


(* element_wrap has exactly the effect the ordered-tree model predicts, for every node of every good store: if the call succeeds
   on a node [n] that has a parent, the new store is the old one with a new element [w] standing exactly where [n] stood — same
   preceding and following siblings, same ancestors, every other tree untouched — and [n], with its subtree as it was, as the only
   child of [w].  ([plug z] is the tree around the cursor [z] of [n]; [wrapped z w name] is that cursor with [w] in the place of
   [n].)  The call itself goes the long way round — new element, detach, append, insert after the previous sibling or
   prepend to the parent — and every one of these steps is followed: Proofs/WrapEffect.v. *)
Theorem C05_element_wrap_effect :
  forall st n name z A B st' r,
    Good st -> cur st n = Some z -> store st = fapp A (fapp (plug z) B) -> z_ups z <> [] ->
    m_wrap st n name = (st', MDone r) ->
    exists w, r = Some w /\ ~ In w (ids (store st)) /\ store st' = fapp A (fapp (plug (wrapped z w name)) B).
Proof. exact wrap_store_inner. Qed.
Print Assumptions C05_element_wrap_effect.

(* ... and on a parentless node: the wrapper is a new root holding [n]; the other trees stay *)
Theorem C05_element_wrap_effect_root :
  forall st n name z A B st' r,
    Good st -> cur st n = Some z -> store st = fapp A (fapp (plug z) B) -> z_ups z = [] ->
    m_wrap st n name = (st', MDone r) ->
    exists w, r = Some w /\ ~ In w (ids (store st))
      /\ store st' = FCons w (VElement name) (FCons n (z_val z) (z_kids z) FNil) (fapp A B).
Proof. exact wrap_store_root. Qed.
Print Assumptions C05_element_wrap_effect_root.


(* detach and remove have exactly the effect the ordered-tree model predicts, for every ordinary node [n] that has a parent, in
   every good store: the node (with its subtree, unchanged) leaves its sibling list — detach makes it a parentless tree, remove
   destroys it — and the list it leaves is [seam]: what stood before it followed by what stood after it, where, if these two
   neighbours are both text nodes and consolidation is on, the second text has gone into the first.  Everything else — the
   ancestors, the other siblings, every other tree — is exactly as it was. *)
Theorem C05_detach_effect :
  forall st n z A B, Good st -> cur st n = Some z -> store st = fapp A (fapp (plug z) B) ->
    z_ups z <> [] -> is_normal (z_val z) = true ->
    store (fst (m_detach st n))
    = FCons n (z_val z) (z_kids z) (fapp A (fapp (plug_ups (seam (cons st) (z_before z) (z_after z)) (z_ups z)) B)).
Proof. exact detach_effect. Qed.
Print Assumptions C05_detach_effect.

Theorem C05_remove_effect :
  forall st n z A B, Good st -> cur st n = Some z -> store st = fapp A (fapp (plug z) B) ->
    z_ups z <> [] -> is_normal (z_val z) = true ->
    store (fst (m_remove st n)) = fapp A (fapp (plug_ups (seam (cons st) (z_before z) (z_after z)) (z_ups z)) B).
Proof. exact remove_effect. Qed.
Print Assumptions C05_remove_effect.

(* append of a node that has just been created (the commonest call): the node becomes the last child of the element or
   document, or — a text node after a text node, consolidation on — its text goes into that last child and the node is freed;
   [usnoc] is that one step on forests without slots (Proofs/CloneShape.v), everything else is as it was *)
Theorem C05_append_of_new_node_effect :
  forall st1 zc S0 n v, Good st1 -> top_clean zc -> container (z_val zc) ->
    store st1 = FCons n v FNil (fapp (plug zc) S0) -> child_ok v = true ->
    exists st2 K2, m_append st1 (z_slot zc) n = (st2, MDone None)
      /\ Good st2 /\ store st2 = fapp (plug (with_kids zc K2)) S0 /\ cons st2 = cons st1
      /\ erase K2 = usnoc (cons st1) (erase (z_kids zc)) v UNil
      /\ (is_text_val v = false -> K2 = fapp (z_kids zc) (FCons n v FNil FNil)).
Proof. exact m_append_fresh. Qed.
Print Assumptions C05_append_of_new_node_effect.

(* the seam on a concrete level: "a" x "b" loses x *)
Example C05_seam_example :
  seam true (FCons 1 (VText [97]) FNil FNil) (FCons 3 (VText [98]) FNil (FCons 4 (VElement 9) FNil FNil))
  = FCons 1 (VText [97; 98]) FNil (FCons 4 (VElement 9) FNil FNil)
  /\ seam false (FCons 1 (VText [97]) FNil FNil) (FCons 3 (VText [98]) FNil FNil)
     = FCons 1 (VText [97]) FNil (FCons 3 (VText [98]) FNil FNil).
Proof. split; reflexivity. Qed.


(* element_unwrap of an element that has a parent and at least one ordinary child, consolidation on: the element's namespace and
   attribute nodes are destroyed, the element itself goes, and its ordinary children [nrm_part (z_kids z)] take its place in
   its sibling list; then the seams are consolidated, the left one first ([unwrap_level]): a text first child goes into a text
   node that stands before it, and whatever then stands last before the old following siblings takes a text node that follows
   it.  Every other sibling, the ancestors and every other tree are exactly as they were. *)
Theorem C05_element_unwrap_effect :
  forall st n z A B first last,
    Good st -> cons st = true -> cur st n = Some z -> store st = fapp A (fapp (plug z) B) -> z_ups z <> [] ->
    is_type st n TElement = true -> q_first_child st n = Some first -> q_last_child st n = Some last ->
    store (fst (m_unwrap st n))
    = fapp A (fapp (plug_ups (unwrap_level (z_before z) (nrm_part (z_kids z)) (z_after z)) (z_ups z)) B).
Proof. exact unwrap_effect. Qed.
Print Assumptions C05_element_unwrap_effect.

(* the level on concrete lists: "a" <e>"b"</e> "c" becomes one text; "a" <e><x/>"b"</e> "c" becomes "a" <x/> "bc" *)
Example C05_unwrap_level_example :
  unwrap_level (FCons 1 (VText [97]) FNil FNil) (FCons 3 (VText [98]) FNil FNil) (FCons 4 (VText [99]) FNil FNil)
  = FCons 1 (VText [97; 98; 99]) FNil FNil
  /\ unwrap_level (FCons 1 (VText [97]) FNil FNil) (FCons 5 (VElement 9) FNil (FCons 3 (VText [98]) FNil FNil)) (FCons 4 (VText [99]) FNil FNil)
     = FCons 1 (VText [97]) FNil (FCons 5 (VElement 9) FNil (FCons 3 (VText [98; 99]) FNil FNil)).
Proof. split; reflexivity. Qed.


(* ---------- the four insertion calls, for nodes attached anywhere: the plain ordered-tree move ----------
   Whatever the node [b] is and wherever it is — a new node, a child of the same parent, a node of another tree or document —
   a successful append / prepend / insert_after / insert_before leaves the store in the state the same operation produces on
   plain ordered trees:  [fdel b] takes the subtree out of wherever it was, the plain list insertion ([finsert_after],
   [finsert_before], [fapp k t] at the end of the children of P, [insert_first_normal] in front of its ordinary children) puts
   it in at the requested place, nothing else is created, lost, reordered or altered; and with consolidation on the result is
   read with every run of adjacent text nodes of a child list as one text node ([content], Proofs/PlainFacts.v: [unormb]) —
   "text nodes that become adjacent are merged, so the character data of every ancestor is what the move implies".
   [erase] forgets the slots: which of two merged text nodes keeps its handle is stated by C05_detach_effect and compared in
   the correspondence run.  The hypothesis is that the call passes its argument check (otherwise it is refused and changes
   nothing, C06) and that the store has no adjacent text nodes while consolidation is on (C04).  A call that asks for the
   place the node already has is included: the plain move then gives the same forest back. *)
Theorem C05_insert_after_is_the_plain_move :
  forall st ref b, Good st -> (cons st = true -> noadj st) -> sibling_check st ref b = true ->
    erase (store (fst (m_insert_after st ref b))) = content (cons st) (finsert_after ref (tree_of st b) (fdel b (store st))).
Proof. exact insert_after_plain. Qed.
Print Assumptions C05_insert_after_is_the_plain_move.

Theorem C05_insert_before_is_the_plain_move :
  forall st ref b, Good st -> (cons st = true -> noadj st) -> sibling_check st ref b = true ->
    erase (store (fst (m_insert_before st ref b))) = content (cons st) (finsert_before ref (tree_of st b) (fdel b (store st))).
Proof. exact insert_before_plain. Qed.
Print Assumptions C05_insert_before_is_the_plain_move.

Theorem C05_append_is_the_plain_move :
  forall st P b, Good st -> (cons st = true -> noadj st) -> structure_check st (Some P) b = true ->
    erase (store (fst (m_append st P b))) = content (cons st) (fmap_kids P (fun k => fapp k (tree_of st b)) (fdel b (store st))).
Proof. exact append_plain. Qed.
Print Assumptions C05_append_is_the_plain_move.

Theorem C05_prepend_is_the_plain_move :
  forall st P b, Good st -> (cons st = true -> noadj st) -> structure_check st (Some P) b = true ->
    erase (store (fst (m_prepend st P b))) = content (cons st) (fmap_kids P (insert_first_normal (tree_of st b)) (fdel b (store st))).
Proof. exact prepend_plain. Qed.
Print Assumptions C05_prepend_is_the_plain_move.

(* any_append of an ordinary node is append *)
Theorem C05_any_append_is_the_plain_move :
  forall st P b, Good st -> (cons st = true -> noadj st) -> structure_check st (Some P) b = true ->
    erase (store (fst (m_any_append st P b))) = content (cons st) (fmap_kids P (fun k => fapp k (tree_of st b)) (fdel b (store st))).
Proof. exact any_append_plain. Qed.
Print Assumptions C05_any_append_is_the_plain_move.

(* detach and remove in the same reading, for a node of any kind that is there: the subtree becomes a tree of its own in front of
   the store (detach) or is gone (remove); where it stood, two text nodes that now touch read as one *)
Theorem C05_detach_is_the_plain_cut :
  forall st n z, Good st -> (cons st = true -> noadj st) -> cur st n = Some z ->
    erase (store (fst (m_detach st n))) = content (cons st) (fapp (tree_of st n) (fdel n (store st))).
Proof. exact detach_plain. Qed.
Print Assumptions C05_detach_is_the_plain_cut.

Theorem C05_remove_is_the_plain_deletion :
  forall st n z, Good st -> (cons st = true -> noadj st) -> cur st n = Some z ->
    erase (store (fst (m_remove st n))) = content (cons st) (fdel n (store st)).
Proof. exact remove_plain. Qed.
Print Assumptions C05_remove_is_the_plain_deletion.

(* the reading is faithful to consolidation: what it returns never has two adjacent text nodes in a child list, and it returns
   the store itself (slots forgotten) exactly when the store has none — so "the store after the call is the reading of the plain
   move" says both that nothing but the move happened and that every pair of text nodes the move brought together was merged *)
Theorem C05_reading_is_a_normal_form :
  forall u top, una (unormb top u) = true.
Proof. intros u top. exact (proj2 (unormb_normal u top)). Qed.
Print Assumptions C05_reading_is_a_normal_form.

Theorem C05_reading_is_the_identity_exactly_on_consolidated_stores :
  forall f, unormb true (erase f) = erase f <-> na f = true.
Proof. exact reading_fixpoint. Qed.
Print Assumptions C05_reading_is_the_identity_exactly_on_consolidated_stores.

(* the two standing hypotheses of the statements above — the store is good, and has no adjacent text nodes while consolidation
   is on — hold in every store a history of node-level calls reaches from the empty store, replace in every configuration
   included (C04_no_adjacent_text_history), as long as consolidation is not switched off; once it is switched off the second
   hypothesis asks nothing *)
Theorem C05_plain_move_hypotheses_hold_in_every_reachable_store :
  forall ops, forallb keeps_cons ops = true ->
    Good (mfinal init_state ops) /\ (cons (mfinal init_state ops) = true -> noadj (mfinal init_state ops)).
Proof.
  intros ops Hp. split; [apply reachable_good|]. intros _.
  exact (proj1 (noadj_history_full ops init_state Good_init eq_refl eq_refl Hp)).
Qed.
Print Assumptions C05_plain_move_hypotheses_hold_in_every_reachable_store.

(* outside that regime — text nodes that touch although consolidation is on, built while it was switched off — the statements
   above do not speak, but a move still neither makes nor loses character data (the harness checks that on every such call).
   append and insert_before look for the new neighbour of the node after the consolidation at its old place; where that
   neighbour is the node itself, its own previous sibling is taken (before fix 9f9d8e0 a text node was merged into itself there
   and its text was lost).  In a store without adjacent text nodes that change is invisible: *)
Theorem C05_append_neighbour_is_invisible_without_adjacent_text :
  forall st p c z st1 m, Good st -> cons st = true -> noadj st -> cur st c = Some z ->
    opt_eqb (q_raw_last_child st p) (Some c) = false ->
    remove_consolidate st (q_prev st c) (q_next st c) = (st1, m) -> cur st1 c <> None -> (forall z1, cur st1 c = Some z1 -> z_val z1 = z_val z) ->
    add_consolidate st1 c (if opt_eqb (q_last_child st1 p) (Some c) then q_prev st1 c else q_last_child st1 p) None
    = add_consolidate st1 c (q_last_child st1 p) None.
Proof. exact append_neighbour_noadj. Qed.
Print Assumptions C05_append_neighbour_is_invisible_without_adjacent_text.

(* the regime itself, in the model: the text nodes a, b, c side by side; append of b, and insert_before of b in front of an
   element behind them, give acb — every character is still there *)
Example C05_middle_text_node_keeps_its_text :
  let ops := [ONewDoc; ONewEl 5; OAppend 0 1; OCons false; ONewText [97]; OAppend 1 2; ONewText [98]; OAppend 1 3; ONewText [99]; OAppend 1 4; OCons true] in
  store (mfinal init_state (ops ++ [OAppend 1 3]))
    = FCons 0 VDocument (FCons 1 (VElement 5) (FCons 2 (VText [97; 99; 98]) FNil FNil) FNil) FNil
  /\ store (mfinal init_state (ops ++ [ONewEl 6; OAppend 1 5; OInsertBefore 5 3]))
    = FCons 0 VDocument (FCons 1 (VElement 5) (FCons 2 (VText [97; 99; 98]) FNil (FCons 5 (VElement 6) FNil FNil)) FNil) FNil.
Proof. vm_compute. split; reflexivity. Qed.

(* the argument checks, and the successful outcome, are what the statements above assume *)
Theorem C05_checked_calls_succeed :
  forall st,
    (forall p c, structure_check st (Some p) c = true -> snd (m_append st p c) = MDone None)
    /\ (forall p c, structure_check st (Some p) c = true -> snd (m_prepend st p c) = MDone None)
    /\ (forall r n, sibling_check st r n = true -> snd (m_insert_after st r n) = MDone None).
Proof. intros st. split; [|split]; intros; [apply m_append_done|apply m_prepend_done|apply m_insert_after_done]; assumption. Qed.
Print Assumptions C05_checked_calls_succeed.

(* non-vacuity, on a reachable store:  <e5>"h" <e6/> "i" <e7/></e5>;  insert_after(e7, e6) takes e6 from between the two text
   nodes: the plain move leaves "h" "i" side by side, its reading has one text node "hi", and that is what the call leaves *)
Example C05_plain_move_example :
  let ops := [ONewDoc; ONewEl 5; OAppend 0 1; ONewText [104]; OAppend 1 2; ONewEl 6; OAppend 1 3; ONewText [105]; OAppend 1 4;
              ONewEl 7; OAppend 1 5] in
  let st := mfinal init_state ops in
  let plain := finsert_after 5 (tree_of st 3) (fdel 3 (store st)) in
  let want := UCons VDocument (UCons (VElement 5) (UCons (VText [104; 105]) UNil (UCons (VElement 7) UNil (UCons (VElement 6) UNil UNil))) UNil) UNil in
  sibling_check st 5 3 = true /\ cons st = true /\ na (store st) = true
  /\ erase (store (fst (m_insert_after st 5 3))) = want
  /\ content true plain = want
  /\ erase plain = UCons VDocument (UCons (VElement 5) (UCons (VText [104]) UNil (UCons (VText [105]) UNil (UCons (VElement 7) UNil (UCons (VElement 6) UNil UNil)))) UNil) UNil.
Proof. vm_compute. repeat split. Qed.
