(* C05 — Each manipulation call has exactly the effect an ordered-tree model predicts.
   Pinned statements only.  Model: Model/Store.v, Model/Manip.v. *)
From Coq Require Import List NArith Permutation.
From XotV Require Import Model.Base Model.Zipper Model.Access Model.Store Model.Manip Proofs.StoreProofs Proofs.ManipProofs Proofs.InvSteps Proofs.TreeFrame.
Import ListNotations.
Open Scope N_scope.

(* a call asking for the position the node already occupies changes nothing *)
Theorem C05_in_place_noop :
  forall st,
    (forall p c, structure_check st (Some p) c = true -> q_raw_last_child st p = Some c ->
                 m_append st p c = (st, MDone None))
    /\ (forall p c, structure_check st (Some p) c = true -> q_first_child st p = Some c ->
                    m_prepend st p c = (st, MDone None))
    /\ (forall r n, sibling_check st r n = true -> q_prev st n = Some r ->
                    m_insert_after st r n = (st, MDone None))
    /\ (forall r n, sibling_check st r n = true -> q_next st n = Some r ->
                    m_insert_before st r n = (st, MDone None)).
Proof. exact in_place_noop. Qed.
Print Assumptions C05_in_place_noop.

(* the forest surgery every operation is built from neither creates, loses nor alters a node:
   cutting a subtree out ... *)
Theorem C05_cut_conserves :
  forall n f f' i v k, fcut n f = Some (f', (i, v, k)) ->
    i = n /\ Permutation (nodes f) ((i, v) :: nodes k ++ nodes f').
Proof. exact fcut_spec. Qed.
Print Assumptions C05_cut_conserves.

(* ... inserting it after / before a reference node, or into the child list of a parent ... *)
Theorem C05_insert_after_conserves :
  forall ref t f, NoDup (ids f) -> In ref (ids f) ->
    Permutation (nodes (finsert_after ref t f)) (nodes f ++ nodes t).
Proof. exact finsert_after_spec. Qed.
Print Assumptions C05_insert_after_conserves.

Theorem C05_insert_before_conserves :
  forall ref t f, NoDup (ids f) -> In ref (ids f) ->
    Permutation (nodes (finsert_before ref t f)) (nodes f ++ nodes t).
Proof. exact finsert_before_spec. Qed.
Print Assumptions C05_insert_before_conserves.

Theorem C05_insert_child_conserves :
  forall p g t f, NoDup (ids f) -> In p (ids f) ->
    (forall k, Permutation (nodes (g k)) (nodes k ++ nodes t)) ->
    Permutation (nodes (fmap_kids p g f)) (nodes f ++ nodes t).
Proof. exact fmap_kids_spec. Qed.
Print Assumptions C05_insert_child_conserves.

(* ... removing a single node keeps its children (element_unwrap, text merging) ... *)
Theorem C05_splice_conserves :
  forall n f, NoDup (ids f) -> In n (ids f) ->
    exists v, Permutation (nodes f) ((n, v) :: nodes (fsplice n f)).
Proof. exact fsplice_spec. Qed.
Print Assumptions C05_splice_conserves.

(* ... and a value update touches exactly one node *)
Theorem C05_set_value_touches_one :
  forall n g f, NoDup (ids f) -> In n (ids f) ->
    exists v l1 l2, nodes f = l1 ++ (n, v) :: l2 /\ nodes (fset_val n g f) = l1 ++ (n, g v) :: l2.
Proof. exact nodes_fset_val. Qed.
Print Assumptions C05_set_value_touches_one.

(* "no other node is created, lost, reordered or altered", for whole trees: [T] is any run of whole trees of the store (a
   segment of its top-level list, e.g. one document).  A call of the node-level API none of whose node arguments lies in [T]
   leaves [T] in the store exactly as it is — for every call (append, prepend, insert_before / insert_after, detach, remove,
   replace, element_wrap / element_unwrap, clone_node, any_append, all map and node calls, the setters, text_content_mut,
   creation), any arguments, with consolidation on or off, in every good store. *)
Theorem C05_trees_not_named_are_untouched :
  forall T st o, Good st -> (exists A B, store st = fapp A (fapp T B)) ->
    (forall x, In x (op_args o) -> ~ In x (ids T)) ->
    exists A' B', store (fst (mstep st o)) = fapp A' (fapp T B').
Proof. exact tree_frame. Qed.
Print Assumptions C05_trees_not_named_are_untouched.
