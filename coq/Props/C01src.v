(* C01src — the source-level tie of C01's character tables: the model's functions ARE the tables tools/gen_tables.py read from
   /repo/src on this run (Gen/Tables.v).  Built by ./check only when the translator could read those tables
   (Gen/Tables.v src_tables_read = true); otherwise the tie of these functions to the crate is the correspondence run alone,
   and the evidence says so.  Pinned statements only. *)
From Coq Require Import List NArith.
From XotV Require Import Model.Base Model.Entity Proofs.EntityProofs Gen.Tables Proofs.EntityTables.
Import ListNotations.
Open Scope N_scope.

(* ---------- the escapes are the ones the source has today ----------
   Gen/Tables.v is regenerated from /repo/src/entity.rs on every run (tools/gen_tables.py): [attr_escapes] holds, arm by arm,
   what the `match c` of serialize_attribute writes, [text_escapes] the unguarded arms of serialize_text, [text_gt_escape] what
   its two guarded '>' arms write.  The model's serialisers are exactly these tables, so the round trips above are statements
   about the escapes the crate writes now: an arm that is added, dropped or changed in the source changes the table and these
   theorems are checked against it again. *)
Theorem C01_attribute_escapes_are_the_sources :
  forall s, serialize_attribute s = flat_map (escape_tbl attr_escapes) s.
Proof. exact serialize_attribute_is_the_table. Qed.
Print Assumptions C01_attribute_escapes_are_the_sources.

Theorem C01_text_escapes_are_the_sources :
  forall g s l1 l2, serialize_text_go g s l1 l2 = text_go_tbl text_escapes text_gt_escape g s l1 l2.
Proof. exact serialize_text_is_the_table. Qed.
Print Assumptions C01_text_escapes_are_the_sources.

(* hence: what the source's attribute arms write is read back as the value, for every string *)
Theorem C01_attribute_roundtrip_on_the_sources_table :
  forall base s, parse_attribute base (flat_map (escape_tbl attr_escapes) s) = inr s.
Proof. intros base s. rewrite <- serialize_attribute_is_the_table. apply parse_serialize_attribute. Qed.
Print Assumptions C01_attribute_roundtrip_on_the_sources_table.
