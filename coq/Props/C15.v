(* C15 — deduplicate_namespaces only removes redundant declarations.
   Pinned statements only.  Model: Model/NsTools.v (src/nameaccess.rs), Model/XmlSer.v.

   The full property is FALSE of the faithful model (and of the code): C15_refuted_under_shadowing and
   C15_not_idempotent_refuted below are the witnesses behind the two known findings (known_findings.json).  What is proved
   for every tree: the call only deletes declarations that exist (it never adds or alters one, never touches another node). *)
From Coq Require Import List NArith.
From XotV Require Import Model.Base Model.Zipper Model.Access Model.Store Model.Manip Model.Fullname Model.Scope Model.Entity
                         Model.XmlSer Model.NsTools Model.Builder Proofs.NsProofs Proofs.DedupProofs.
Import ListNotations.
Open Scope N_scope.

(* the call is a sequence of removals from namespace maps, nothing else *)
Theorem C15_call_effect :
  forall nm st n z, cur st n = Some z ->
    deduplicate_namespaces nm st n
    = Some (fold_left (fun s ep' => map_remove s KNs (fst ep') (snd ep'))
                      (dedup_prefixes z (dedup_edges nm (traverse z) (fs_new []) [] [])) st).
Proof. intros nm st n z H. unfold deduplicate_namespaces. rewrite H. reflexivity. Qed.
Print Assumptions C15_call_effect.

(* every removal names an ordinary descendant element of the node and a prefix that element declares *)
Theorem C15_only_existing_declarations_removed :
  forall z fix_ups e p, In (e, p) (dedup_prefixes z fix_ups) ->
    exists ez ns, In ez (descendants z) /\ z_slot ez = e /\ In (p, ns) (declarations ez).
Proof. exact dedup_prefixes_sound. Qed.
Print Assumptions C15_only_existing_declarations_removed.

(* "deduplicate_namespaces only removes redundant declarations": whatever the tree — shadowing or not — a declaration p -> ns is
   deleted from an element e only if (1) e does declare it and (2) the namespace ns is bound to some prefix q by
   nearest-declaration-wins scoping over the declarations of the proper ancestors of e INSIDE the subtree the call was made on
   ([anc_decls e T] lists those declarations, nearest first; [lookup_stack] is the resolution the parser performs, Model/Builder.v):
   the binding q -> ns is in force at the parent of e.  Proved by following the analysis pass of src/nameaccess.rs (the
   FullnameSerializer stack and the tracker) along the whole traversal, by induction on the subtree: Proofs/DedupProofs.v.
   ([Forall NoDup]: no element declares one prefix twice — C04.)
   What this does NOT say — and what the known findings below refute under shadowing — is that q is not re-bound on e itself or
   below it, where the names that relied on p stand. *)
Theorem C15_only_redundant_declarations_removed :
  forall nm z e p, NoDup (z_slot z :: ids (z_kids z)) ->
    In (e, p) (dedup_prefixes z (dedup_edges nm (traverse z) (fs_new []) [] [])) ->
    exists ez ns l q, In ez (descendants z) /\ z_slot ez = e /\ In (p, ns) (declarations ez)
      /\ anc_decls e (FCons (z_slot z) (z_val z) (z_kids z) FNil) = Some l
      /\ (Forall (fun d => NoDup (map fst d)) l -> lookup_stack q l = Some ns).
Proof. exact dedup_only_redundant. Qed.
Print Assumptions C15_only_redundant_declarations_removed.

(* ---------- the witnesses of the known findings ---------- *)
Definition w_names : names :=
  {| n_empty_prefix := 0; n_xml_prefix := 1; n_no_ns := 0; n_xml_ns := 1;
     n_ns_of_name := fun n => if N.eqb n 12 then 2 else if N.eqb n 13 then 3 else 0;
     n_local := fun n => [97 + (n - 10)];
     n_prefix_str := fun p => if N.eqb p 2 then [112] else if N.eqb p 3 then [113] else if N.eqb p 4 then [114] else [];
     n_ns_str := fun n => if N.eqb n 2 then [110] else if N.eqb n 3 then [109] else [];
     n_xml_space := 0 |}.
Definition w_nsnames : nsnames :=
  {| ns_empty_prefix := 0; ns_xml_prefix := 1; ns_no_ns := 0; ns_xml_ns := 1; ns_of_name := n_ns_of_name w_names |}.
Definition w_state (f : forest) : xstate := {| store := f; stamps := repeat 0%Z 8; free := []; cons := true |}.
Definition w_ser (st : xstate) : option (sum serr str) :=
  match cur st 0 with Some z => Some (serialize_write w_names {| p_cdata := []; p_unescaped_gt := false |} z) | None => None end.

(* <a xmlns:q="n"><b xmlns:p="n" xmlns:q="m"><p:c/></b></a>: p on b is removed because q binds the same namespace above,
   but q is re-bound on b itself *)
Definition w_shadow : forest :=
  FCons 0 (VElement 10) (FCons 1 (VNamespace 3 2) FNil
    (FCons 2 (VElement 11) (FCons 3 (VNamespace 2 2) FNil (FCons 4 (VNamespace 3 3) FNil (FCons 5 (VElement 12) FNil FNil))) FNil)) FNil.

Theorem C15_refuted_under_shadowing :
  exists st st' text,
    w_ser st = Some (inr text)
    /\ deduplicate_namespaces w_nsnames st 0 = Some st'
    /\ w_ser st' = Some (inl EMissingPrefix).
Proof.
  exists (w_state w_shadow).
  eexists. eexists. split; [vm_compute; reflexivity|]. split; [vm_compute; reflexivity|vm_compute; reflexivity].
Qed.
Print Assumptions C15_refuted_under_shadowing.

(* <a xmlns:p="m" xmlns:q="n"><b xmlns:p="n"><c xmlns:r="m"/></b></a>: the first call removes p on b (n is bound by q), which
   un-hides p->m, so that a second call also removes r on c *)
Definition w_twice : forest :=
  FCons 0 (VElement 10) (FCons 1 (VNamespace 2 3) FNil (FCons 2 (VNamespace 3 2) FNil
    (FCons 3 (VElement 11) (FCons 4 (VNamespace 2 2) FNil (FCons 5 (VElement 11) (FCons 6 (VNamespace 4 3) FNil FNil) FNil)) FNil))) FNil.

Theorem C15_not_idempotent_refuted :
  exists st st1 st2,
    deduplicate_namespaces w_nsnames st 0 = Some st1
    /\ deduplicate_namespaces w_nsnames st1 0 = Some st2
    /\ ids (store st2) <> ids (store st1).
Proof.
  exists (w_state w_twice). eexists. eexists.
  split; [vm_compute; reflexivity|]. split; [vm_compute; reflexivity|]. vm_compute. discriminate.
Qed.
Print Assumptions C15_not_idempotent_refuted.
