(* C04src — the source-level tie of the classification of node values: the model's value_category and is_normal ARE the match arms
   tools/gen_tables.py read from /repo/src/xmlvalue.rs on this run (Gen/Tables.v [src_value_category], [src_is_normal]).  Built by
   ./check only when the translator could read them (Gen/Tables.v src_values_read = true); otherwise the tie of these functions
   to the crate is the correspondence run alone, and the evidence says so.  Pinned statements only. *)
From Coq Require Import List NArith.
From XotV Require Import Model.Base Gen.Tables Proofs.ValueTables.
Import ListNotations.
Open Scope N_scope.

(* which of the three classes (ordinary, attribute, namespace) a node value belongs to — what C04's ordering clause and "a live
   handle keeps its class" are stated with — is read from Value::value_category and Value::is_normal on every run *)
Theorem C04_value_category_is_the_sources :
  forall v, assoc_n (ctor_index v) src_value_category = Some (cat_index (value_category v)).
Proof. exact value_category_is_the_table. Qed.
Print Assumptions C04_value_category_is_the_sources.

Theorem C04_is_normal_is_the_sources :
  forall v, is_normal v = existsb (N.eqb (ctor_index v)) src_is_normal.
Proof. exact is_normal_is_the_table. Qed.
Print Assumptions C04_is_normal_is_the_sources.
