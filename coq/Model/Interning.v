(* Interning.v — model of src/id/idmap.rs (IdMap), src/id/{name,namespace,prefix}.rs and of the
   registration entry points of src/nameaccess.rs / src/xotdata.rs (Xot::new).  No proofs here.

   IdMap<K,V> { by_id: Vec<V>, by_value: HashMap<V,K> }  is modelled as a record of two lists; the HashMap
   is an association list searched front to back (only membership / the unique binding matter).
   K::to_id(index) is `K(u32::try_from(index).expect(..))`: modelled as a Panic outcome when the table
   holds 2^W entries already, with W read from the source by tools/gen_tables.py (Gen/Tables.v). *)
From XotV Require Import Model.Base.
Open Scope N_scope.

Inductive res (A : Type) := ROk (a : A) | RPanic.
Arguments ROk {A} a.
Arguments RPanic {A}.

Section IdMap.
  Variable V : Type.
  Variable veqb : V -> V -> bool.
  Variable W : N.                       (* id width in bits *)
  Variable checked : bool.              (* true: `uN::try_from(index).expect(..)`; false: `index as uN` *)

  Record idmap := { by_id : list V; by_value : list (V * N) }.

  Definition idmap_new : idmap := {| by_id := []; by_value := [] |}.

  Fixpoint assoc (v : V) (l : list (V * N)) : option N :=
    match l with
    | [] => None
    | (k, i) :: l' => if veqb k v then Some i else assoc v l'
    end.

  (* IdMap::get_id *)
  Definition get_id (m : idmap) (v : V) : option N := assoc v (by_value m).

  (* K::to_id(index) *)
  Definition to_id (index : N) : res N :=
    if checked then (if index <? 2 ^ W then ROk index else RPanic)
    else ROk (index mod 2 ^ W).

  (* IdMap::get_id_mut *)
  Definition get_id_mut (m : idmap) (v : V) : res (N * idmap) :=
    match assoc v (by_value m) with
    | Some i => ROk (i, m)
    | None =>
        match to_id (N.of_nat (length (by_id m))) with
        | RPanic => RPanic
        | ROk i => ROk (i, {| by_id := by_id m ++ [v]; by_value := (v, i) :: by_value m |})
        end
    end.

  (* IdMap::get_value : &self.by_id[K::from_id(id)]; None = index out of bounds (a Rust panic) *)
  Definition get_value (m : idmap) (i : N) : option V := nth_error (by_id m) (N.to_nat i).
End IdMap.

Arguments by_id {V} _.
Arguments by_value {V} _.
Arguments idmap_new {V}.
Arguments get_id {V} veqb m v.
Arguments get_id_mut {V} veqb W checked m v.
Arguments get_value {V} m i.
Arguments assoc {V} veqb v l.

(* ---- the three tables of a Xot ---- *)

Definition name := (str * nsid)%type.
Definition name_eqb (a b : name) : bool := str_eqb (fst a) (fst b) && N.eqb (snd a) (snd b).

Record tables := {
  t_names : idmap name;
  t_namespaces : idmap str;
  t_prefixes : idmap str
}.

Section Tables.
  Variables (Wn Wns Wp : N) (chn chns chp : bool).   (* widths / conversion style of NameId, NamespaceId, PrefixId *)

  Definition add_namespace (t : tables) (s : str) : res (N * tables) :=
    match get_id_mut str_eqb Wns chns (t_namespaces t) s with
    | RPanic => RPanic
    | ROk (i, m) => ROk (i, {| t_names := t_names t; t_namespaces := m; t_prefixes := t_prefixes t |})
    end.

  Definition add_prefix (t : tables) (s : str) : res (N * tables) :=
    match get_id_mut str_eqb Wp chp (t_prefixes t) s with
    | RPanic => RPanic
    | ROk (i, m) => ROk (i, {| t_names := t_names t; t_namespaces := t_namespaces t; t_prefixes := m |})
    end.

  Definition add_name_ns (t : tables) (s : str) (ns : nsid) : res (N * tables) :=
    match get_id_mut name_eqb Wn chn (t_names t) (s, ns) with
    | RPanic => RPanic
    | ROk (i, m) => ROk (i, {| t_names := m; t_namespaces := t_namespaces t; t_prefixes := t_prefixes t |})
    end.

  Definition lookup_namespace (t : tables) (s : str) : option N := get_id str_eqb (t_namespaces t) s.
  Definition lookup_prefix (t : tables) (s : str) : option N := get_id str_eqb (t_prefixes t) s.
  Definition lookup_name_ns (t : tables) (s : str) (ns : nsid) : option N := get_id name_eqb (t_names t) (s, ns).

  Definition namespace_str (t : tables) (i : N) : option str := get_value (t_namespaces t) i.
  Definition prefix_str (t : tables) (i : N) : option str := get_value (t_prefixes t) i.
  (* Xot::name_ns_str *)
  Definition name_ns_str (t : tables) (i : N) : option (str * str) :=
    match get_value (t_names t) i with
    | None => None
    | Some (l, ns) => match get_value (t_namespaces t) ns with
                      | None => None
                      | Some u => Some (l, u)
                      end
    end.
  Definition namespace_for_name (t : tables) (i : N) : option nsid :=
    match get_value (t_names t) i with None => None | Some (_, ns) => Some ns end.
  Definition local_name_str (t : tables) (i : N) : option str :=
    match get_value (t_names t) i with None => None | Some (l, _) => Some l end.

  Definition tables_empty : tables :=
    {| t_names := idmap_new; t_namespaces := idmap_new; t_prefixes := idmap_new |}.

  (* Xot::new (src/xotdata.rs): the built-in registrations, in the source's order.
     The strings come from Gen/Tables.v (read from the source on every run). *)
  Variables (s_xml_ns s_xml_prefix s_space s_id : str).

  Record builtins := {
    b_no_namespace : nsid; b_empty_prefix : prefixid;
    b_xml_namespace : nsid; b_xml_prefix : prefixid;
    b_xml_space : nameid; b_xml_id : nameid
  }.

  Definition xot_new : res (builtins * tables) :=
    match add_namespace tables_empty [] with RPanic => RPanic | ROk (no_ns, t1) =>
    match add_prefix t1 [] with RPanic => RPanic | ROk (empty_p, t2) =>
    match add_namespace t2 s_xml_ns with RPanic => RPanic | ROk (xml_ns, t3) =>
    match add_prefix t3 s_xml_prefix with RPanic => RPanic | ROk (xml_p, t4) =>
    match add_name_ns t4 s_space xml_ns with RPanic => RPanic | ROk (space_id, t5) =>
    match add_name_ns t5 s_id xml_ns with RPanic => RPanic | ROk (id_id, t6) =>
      ROk ({| b_no_namespace := no_ns; b_empty_prefix := empty_p; b_xml_namespace := xml_ns;
              b_xml_prefix := xml_p; b_xml_space := space_id; b_xml_id := id_id |}, t6)
    end end end end end end.

  (* ---- html5(): Html5Elements::new registers three namespaces and, per table name, four names ---- *)
  Definition ascii_upper (c : cp) : cp := if (97 <=? c) && (c <=? 122) then c - 32 else c.
  Definition ascii_lower (c : cp) : cp := if (65 <=? c) && (c <=? 90) then c + 32 else c.
  Definition to_ascii_uppercase (s : str) : str := map ascii_upper s.
  Definition to_ascii_lowercase (s : str) : str := map ascii_lower s.

  (* HtmlNames::new: for each name: lower/no-ns, upper/no-ns, lower/xhtml, upper/xhtml *)
  Fixpoint html_names_new (t : tables) (no_ns xhtml : nsid) (names : list str) : res tables :=
    match names with
    | [] => ROk t
    | n :: rest =>
        match add_name_ns t n no_ns with RPanic => RPanic | ROk (_, t1) =>
        match add_name_ns t1 (to_ascii_uppercase n) no_ns with RPanic => RPanic | ROk (_, t2) =>
        match add_name_ns t2 n xhtml with RPanic => RPanic | ROk (_, t3) =>
        match add_name_ns t3 (to_ascii_uppercase n) xhtml with RPanic => RPanic | ROk (_, t4) =>
          html_names_new t4 no_ns xhtml rest
        end end end end
    end.

  Fixpoint html_tables_new (t : tables) (no_ns xhtml : nsid) (tabs : list (list str)) : res tables :=
    match tabs with
    | [] => ROk t
    | tab :: rest =>
        match html_names_new t no_ns xhtml tab with
        | RPanic => RPanic
        | ROk t' => html_tables_new t' no_ns xhtml rest
        end
    end.

  (* Html5Elements::new; [tabs] = the five name tables in the source's order of registration *)
  Definition html5_new (t : tables) (no_ns : nsid) (xhtml_ns mathml_ns svg_ns : str) (tabs : list (list str))
    : res (N * N * N * tables) :=
    match add_namespace t xhtml_ns with RPanic => RPanic | ROk (x, t1) =>
    match add_namespace t1 mathml_ns with RPanic => RPanic | ROk (m, t2) =>
    match add_namespace t2 svg_ns with RPanic => RPanic | ROk (s, t3) =>
    match html_tables_new t3 no_ns x tabs with RPanic => RPanic | ROk t4 => ROk (x, m, s, t4)
    end end end end.
End Tables.
