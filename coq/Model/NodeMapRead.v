(* NodeMapRead.v — the read accessors of src/nodemap/core.rs (NodeMap and MutableNodeMap share them) over the
   model store.  No proofs here. *)
From XotV Require Import Model.Base Model.Zipper Model.Access Model.Store Model.Manip.
Open Scope N_scope.

(* the nodes of the view, in order: (slot, value) *)
Definition view (k : mapkind) (st : xstate) (e : N) : list node :=
  match cur st e with
  | Some z => pairs_of (map_nodes k z)
  | None => []
  end.

Definition v_len (v : list node) : N := N.of_nat (length v).
Definition v_is_empty (v : list node) : bool := match v with [] => true | _ => false end.
Definition v_keys (v : list node) : list N := map (fun p => key_of (snd p)) v.
Definition v_nodes (v : list node) : list N := map fst v.
Definition v_values (v : list node) : list value := map snd v.
Definition v_get_node (v : list node) (key : N) : option N :=
  match List.find (fun p => N.eqb (key_of (snd p)) key) v with Some p => Some (fst p) | None => None end.
Definition v_get (v : list node) (key : N) : option value :=
  match List.find (fun p => N.eqb (key_of (snd p)) key) v with Some p => Some (snd p) | None => None end.
Definition v_contains_key (v : list node) (key : N) : bool := existsb (fun p => N.eqb (key_of (snd p)) key) v.
