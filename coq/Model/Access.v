(* Access.v — model of src/access.rs and src/levelorder.rs over cursors (Model/Zipper.v).  No proofs here.

   indextree's own iterators (children, descendants, traverse, reverse_traverse, ancestors,
   following_siblings, preceding_siblings) are third-party code: they are modelled by their documented
   result (structural recursion).  xot's own pointer-chasing code (Following, ReversePreorder,
   NodeEdge::next/previous, preceding, level_order, the category-aware first/last child and sibling
   accessors, child_index, root, top_element, document_element, axis) is modelled step by step:
   every `arena[n].link` read is one cursor move, every loop is an iteration with explicit fuel whose
   sufficiency is a theorem (Proofs/AccessProofs.v). *)
From XotV Require Import Model.Base Model.Zipper.
Open Scope N_scope.

Definition zcat (z : zipper) : vcat := value_category (z_val z).
Definition znormal (z : zipper) : bool := is_normal (z_val z).
Definition ztype (z : zipper) : vtype := value_type (z_val z).

Definition frame_of (z : zipper) : frame :=
  {| fr_slot := z_slot z; fr_val := z_val z; fr_before := z_before z; fr_after := z_after z |}.

Definition mkz (i : N) (v : value) (k before after : forest) (ups : list frame) : zipper :=
  {| z_slot := i; z_val := v; z_kids := k; z_before := before; z_after := after; z_ups := ups |}.

(* ---------- indextree iterators (modelled by their result) ---------- *)

(* cursors of all nodes of a sibling list and below, in pre-order *)
Fixpoint zs_forest (ups : list frame) (before : forest) (f : forest) : list zipper :=
  match f with
  | FNil => []
  | FCons i v k r =>
      mkz i v k before r ups
      :: zs_forest ({| fr_slot := i; fr_val := v; fr_before := before; fr_after := r |} :: ups) FNil k
      ++ zs_forest ups (FCons i v k before) r
  end.

(* cursors of the nodes of one sibling list only (no descent), in order *)
Fixpoint zs_level (ups : list frame) (before : forest) (f : forest) : list zipper :=
  match f with
  | FNil => []
  | FCons i v k r => mkz i v k before r ups :: zs_level ups (FCons i v k before) r
  end.

(* NodeId::children *)
Definition arena_children (z : zipper) : list zipper := zs_level (frame_of z :: z_ups z) FNil (z_kids z).

(* NodeId::descendants: the node itself, then its subtree in pre-order *)
Definition arena_descendants (z : zipper) : list zipper :=
  z :: zs_forest (frame_of z :: z_ups z) FNil (z_kids z).

Inductive edge := EStart (z : zipper) | EEnd (z : zipper).

Definition edge_node (e : edge) : zipper := match e with EStart z | EEnd z => z end.

Fixpoint edges_forest (ups : list frame) (before : forest) (f : forest) : list edge :=
  match f with
  | FNil => []
  | FCons i v k r =>
      EStart (mkz i v k before r ups)
      :: edges_forest ({| fr_slot := i; fr_val := v; fr_before := before; fr_after := r |} :: ups) FNil k
      ++ EEnd (mkz i v k before r ups)
      :: edges_forest ups (FCons i v k before) r
  end.

(* NodeId::traverse *)
Definition arena_traverse (z : zipper) : list edge :=
  EStart z :: edges_forest (frame_of z :: z_ups z) FNil (z_kids z) ++ [EEnd z].

(* NodeId::reverse_traverse: the same edges in reverse *)
Definition arena_reverse_traverse (z : zipper) : list edge := rev (arena_traverse z).

(* NodeId::ancestors: the node itself, its parent, ... up to the root *)
Fixpoint ancestors_fuel (fuel : nat) (z : zipper) : list zipper :=
  match fuel with
  | O => [z]
  | S f => match up z with
           | None => [z]
           | Some p => z :: ancestors_fuel f p
           end
  end.
Definition ancestors (z : zipper) : list zipper := ancestors_fuel (length (z_ups z)) z.

(* NodeId::following_siblings / preceding_siblings: the node itself first *)
Definition arena_following_siblings (z : zipper) : list zipper :=
  z :: zs_level (z_ups z) (FCons (z_slot z) (z_val z) (z_kids z) (z_before z)) (z_after z).

(* walking left: nearest first *)
Fixpoint zs_left (ups : list frame) (before : forest) (after : forest) : list zipper :=
  match before with
  | FNil => []
  | FCons i v k r => mkz i v k r after ups :: zs_left ups r (FCons i v k after)
  end.
Definition arena_preceding_siblings (z : zipper) : list zipper :=
  z :: zs_left (z_ups z) (z_before z) (FCons (z_slot z) (z_val z) (z_kids z) (z_after z)).

(* ---------- xot: category-aware accessors ---------- *)

Fixpoint skip_while {A} (p : A -> bool) (l : list A) : list A :=
  match l with
  | [] => []
  | x :: l' => if p x then skip_while p l' else l
  end.

Fixpoint take_while {A} (p : A -> bool) (l : list A) : list A :=
  match l with
  | [] => []
  | x :: l' => if p x then x :: take_while p l' else []
  end.

Definition parent (z : zipper) : option zipper := up z.

(* all_children / normal_children / abnormal_children *)
Definition all_children := arena_children.
Definition normal_children (z : zipper) : list zipper := skip_while (fun c => negb (znormal c)) (arena_children z).
Definition abnormal_children (z : zipper) : list zipper := take_while (fun c => negb (znormal c)) (arena_children z).
Definition children := normal_children.

Definition is_cat (c : vcat) (z : zipper) : bool := vcat_eqb (zcat z) c.

(* attribute_nodes: skip namespaces, take attributes;  namespace nodes: take namespaces *)
Definition attribute_nodes (z : zipper) : list zipper :=
  take_while (is_cat CAttribute) (skip_while (is_cat CNamespace) (arena_children z)).
Definition namespace_nodes (z : zipper) : list zipper := take_while (is_cat CNamespace) (arena_children z).

Definition first_child (z : zipper) : option zipper := hd_error (normal_children z).

Definition last_child (z : zipper) : option zipper :=
  match down_last z with
  | None => None
  | Some l => if znormal l then Some l else None
  end.

Definition next_sibling (z : zipper) : option zipper :=
  match right z with
  | None => None
  | Some s => if vcat_eqb (zcat z) (zcat s) then Some s else None
  end.

Definition previous_sibling (z : zipper) : option zipper :=
  match left z with
  | None => None
  | Some s => if vcat_eqb (zcat z) (zcat s) then Some s else None
  end.

Fixpoint position {A} (p : A -> bool) (l : list A) : option N :=
  match l with
  | [] => None
  | x :: l' => if p x then Some 0 else match position p l' with None => None | Some k => Some (N.succ k) end
  end.

(* child_index(parent, child) *)
Definition child_index (p c : zipper) : option N :=
  match parent c with
  | None => None
  | Some q => if N.eqb (z_slot q) (z_slot p)
              then position (fun x => N.eqb (z_slot x) (z_slot c)) (normal_children p)
              else None
  end.

(* reverse_children: children().rev().take_while(normal) *)
Definition reverse_children (z : zipper) : list zipper := take_while znormal (rev (arena_children z)).

Definition descendants (z : zipper) : list zipper := filter znormal (arena_descendants z).
Definition all_descendants := arena_descendants.

Definition following_siblings (z : zipper) : list zipper := filter (is_cat (zcat z)) (arena_following_siblings z).
Definition preceding_siblings (z : zipper) : list zipper := filter (is_cat (zcat z)) (arena_preceding_siblings z).

Definition edge_normal (e : edge) : bool := znormal (edge_node e).
Definition traverse (z : zipper) : list edge := filter edge_normal (arena_traverse z).
Definition all_traverse := arena_traverse.
Definition reverse_traverse (z : zipper) : list edge := filter edge_normal (arena_reverse_traverse z).
Definition reverse_all_traverse := arena_reverse_traverse.

(* root: ancestors().last() *)
Definition root (z : zipper) : zipper := last (ancestors z) z.

(* document_element *)
Inductive acc_err := ENotDocument | ENoElementAtTopLevel | ETextAtTopLevel | EIllegalAtTopLevel | EMultipleElementsAtTopLevel.

Definition is_element (z : zipper) : bool := vtype_eqb (ztype z) TElement.
Definition is_document (z : zipper) : bool := vtype_eqb (ztype z) TDocument.

Definition document_element (z : zipper) : sum acc_err zipper :=
  if negb (is_document z) then inl ENotDocument
  else match filter is_element (children z) with
       | [] => inl ENoElementAtTopLevel
       | e :: _ => inr e
       end.

(* top_element: the outermost element among the node and its ancestors; without one, the document element of the root if
   the tree is a document that has one; the node itself otherwise.  (Always Some: the option is kept for the driver.) *)
Definition top_element (z : zipper) : option zipper :=
  match fold_left (fun top a => if is_element a then Some a else top) (ancestors z) None with
  | Some e => Some e
  | None =>
      match document_element (last (ancestors z) z) with
      | inr e => Some e
      | inl _ => Some z
      end
  end.

(* validate_well_formed_document *)
Fixpoint validate_children (l : list zipper) (count : N) : sum acc_err N :=
  match l with
  | [] => inr count
  | c :: l' =>
      match ztype c with
      | TElement => validate_children l' (count + 1)
      | TText => inl ETextAtTopLevel
      | TComment | TPI => validate_children l' count
      | TDocument | TAttribute | TNamespace => inl EIllegalAtTopLevel
      end
  end.

Definition validate_well_formed_document (z : zipper) : option acc_err :=
  if negb (is_document z) then Some ENotDocument
  else match validate_children (children z) 0 with
       | inl e => Some e
       | inr 0 => Some ENoElementAtTopLevel
       | inr 1 => None
       | inr _ => Some EMultipleElementsAtTopLevel
       end.

(* ---------- xot's pointer-chasing iterators ---------- *)

(* the rightmost deepest descendant: `while let Some(last_child) = internal_last_child(node)` *)
Fixpoint deepest_last (fuel : nat) (z : zipper) : zipper :=
  match fuel with
  | O => z
  | S f => match down_last z with
           | None => z
           | Some l => deepest_last f l
           end
  end.

(* ReversePreorder::next: one step of the cursor (before filtering) *)
Definition rp_step (size : nat) (z : zipper) : option zipper :=
  match left z with
  | Some p => Some (deepest_last size p)
  | None => parent z
  end.

Fixpoint rp_iter (fuel size : nat) (cur : option zipper) : list zipper :=
  match fuel, cur with
  | S f, Some z => z :: rp_iter f size (rp_step size z)
  | _, _ => []
  end.

(* Following::following(node): next sibling, else climb until an ancestor has one *)
Fixpoint climb_right (fuel : nat) (z : zipper) : option zipper :=
  match fuel with
  | O => None
  | S f => match parent z with
           | None => None
           | Some p => match right p with
                       | Some s => Some s
                       | None => climb_right f p
                       end
           end
  end.

Definition following_start (z : zipper) : option zipper :=
  match right z with
  | Some s => Some s
  | None => climb_right (S (length (z_ups z))) z
  end.

(* Following::next: one step *)
Definition fo_step (z : zipper) : option zipper :=
  match down_first z with
  | Some c => Some c
  | None => following_start z
  end.

Fixpoint fo_iter (fuel : nat) (cur : option zipper) : list zipper :=
  match fuel, cur with
  | S f, Some z => z :: fo_iter f (fo_step z)
  | _, _ => []
  end.

(* number of nodes of the tree containing the cursor: the fuel that always suffices *)
Definition tree_size (z : zipper) : nat := fsize (plug z).

Definition all_following (z : zipper) : list zipper := fo_iter (tree_size z) (following_start z).
Definition following (z : zipper) : list zipper := filter znormal (all_following z).

Definition all_reverse_preorder (z : zipper) : list zipper := rp_iter (tree_size z) (tree_size z) (Some z).
Definition reverse_preorder (z : zipper) : list zipper := filter znormal (all_reverse_preorder z).

(* preceding: for each ancestor-or-self, walk its previous siblings (category aware) nearest first,
   adding the reversed descendants of each *)
Fixpoint prev_sibs_desc (fuel : nat) (z : zipper) : list zipper :=
  match fuel with
  | O => []
  | S f => match previous_sibling z with
           | None => []
           | Some p => rev (descendants p) ++ prev_sibs_desc f p
           end
  end.

Fixpoint preceding_fuel (fuel : nat) (size : nat) (z : zipper) : list zipper :=
  match fuel with
  | O => []
  | S f => prev_sibs_desc size z ++ match parent z with
                                    | None => []
                                    | Some p => preceding_fuel f size p
                                    end
  end.

Definition preceding (z : zipper) : list zipper := preceding_fuel (S (length (z_ups z))) (tree_size z) z.

(* NodeEdge::next / previous *)
Definition edge_next (e : edge) : option edge :=
  match e with
  | EStart z => match first_child z with Some c => Some (EStart c) | None => Some (EEnd z) end
  | EEnd z => match next_sibling z with
              | Some s => Some (EStart s)
              | None => match parent z with Some p => Some (EEnd p) | None => None end
              end
  end.

Definition edge_previous (e : edge) : option edge :=
  match e with
  | EEnd z => match last_child z with Some c => Some (EEnd c) | None => Some (EStart z) end
  | EStart z => match previous_sibling z with
                | Some s => Some (EEnd s)
                | None => match parent z with Some p => Some (EStart p) | None => None end
                end
  end.

Fixpoint edge_iter (fuel : nat) (step : edge -> option edge) (cur : option edge) : list edge :=
  match fuel, cur with
  | S f, Some e => e :: edge_iter f step (step e)
  | _, _ => []
  end.

(* level_order: queue based; LevelOrder::End = None *)
Definition opt_slot (o : option zipper) : option N := match o with None => None | Some z => Some (z_slot z) end.
Definition opt_N_eqb (a b : option N) : bool :=
  match a, b with None, None => true | Some x, Some y => N.eqb x y | _, _ => false end.

Fixpoint level_order_fuel (fuel : nat) (queue : list zipper) (last : zipper) : list (option zipper) :=
  match fuel, queue with
  | S f, node :: q =>
      (if opt_N_eqb (opt_slot (parent last)) (opt_slot (parent node)) then [] else [None])
      ++ Some node :: level_order_fuel f (q ++ children node) node
  | _, _ => [None]
  end.

Definition level_order (z : zipper) : list (option zipper) := level_order_fuel (S (tree_size z)) [z] z.

(* axis() *)
Inductive axis := AxChild | AxDescendant | AxParent | AxAncestor | AxFollowingSibling | AxPrecedingSibling
                | AxFollowing | AxPreceding | AxAttribute | AxSelf | AxDescendantOrSelf | AxAncestorOrSelf.

Definition axis_nodes (a : axis) (z : zipper) : list zipper :=
  match a with
  | AxChild => children z
  | AxDescendant => tl (descendants z)
  | AxParent => match parent z with Some p => [p] | None => [] end
  | AxAncestor => match parent z with Some p => ancestors p | None => [] end
  | AxFollowingSibling => tl (following_siblings z)
  | AxPrecedingSibling => tl (preceding_siblings z)
  | AxFollowing => following z
  | AxPreceding => preceding z
  | AxAttribute => attribute_nodes z
  | AxSelf => [z]
  | AxDescendantOrSelf => descendants z
  | AxAncestorOrSelf => ancestors z
  end.

(* iterating NodeEdge::next from Start(z) / NodeEdge::previous from End(z) until None *)
Definition edge_next_walk (z : zipper) : list edge := edge_iter (S (2 * tree_size z)) edge_next (Some (EStart z)).
Definition edge_previous_walk (z : zipper) : list edge := edge_iter (S (2 * tree_size z)) edge_previous (Some (EEnd z)).

(* every cursor of a store (all trees), in raw pre-order *)
Fixpoint store_cursors (store : forest) : list zipper :=
  match store with
  | FNil => []
  | FCons i v k r => zs_forest [] FNil (FCons i v k FNil) ++ store_cursors r
  end.
