(* Hist.v — the operations of a history beyond the core mutators of Model/Manip.v: the calls that are built on top
   of them (remove_insignificant_whitespace, ...).  No proofs here. *)
From XotV Require Import Model.Base Model.Zipper Model.Access Model.Store Model.Manip Model.Unpretty Model.Interning Model.Fullname Model.Scope Model.NsTools.
Open Scope N_scope.

Inductive hop :=
| HM (o : mop)
| HRemoveWs (n : N) (space : nameid).      (* remove_insignificant_whitespace(n); [space] = xml_space_name() *)

Definition hstep (st : xstate) (o : hop) : xstate * mout :=
  match o with
  | HM o' => mstep st o'
  | HRemoveWs n space =>
      match rmws space st n with
      | Some st' => (st', MDone None)
      | None => (st, MPanic)
      end
  end.

Fixpoint hrun (st : xstate) (ops : list hop) : list (mout * xstate) :=
  match ops with
  | [] => []
  | o :: ops' => let '(st1, out) := hstep st o in (out, st1) :: hrun st1 ops'
  end.

(* ---------- the xml:id index (Xot.id_nodes_map, src/xotdata.rs:53): filled by the parser for the document it returns,
   never updated afterwards; Xot::xml_id_node (src/access.rs) looks the value up and drops an answer that has been removed ----------- *)
Definition handle := (N * Z)%type.

Definition handle_live (st : xstate) (h : handle) : bool :=
  mem (fst h) (ids (store st)) && Z.eqb (stamp_of st (fst h)) (snd h).

Definition xml_id_node (st : xstate) (index : list (str * handle)) (id : str) : option handle :=
  match List.find (fun e => str_eqb (fst e) id) index with
  | Some (_, h) => if handle_live st h then Some h else None
  | None => None
  end.

(* what the harness observes after every call: the answer for every id of the index *)
Definition xml_id_answers (st : xstate) (index : list (str * handle)) : list (option handle) :=
  map (fun e => xml_id_node st index (fst e)) index.

(* ---------- histories that also touch the interning tables (create_missing_prefixes registers prefixes) ---------- *)
Inductive top :=
| TH (o : hop)
| TCmp (n : N)           (* create_missing_prefixes(n) *)
| TDedup (n : N)         (* deduplicate_namespaces(n) *)
| TCloneP (n : N) (order : list prefixid).
                         (* clone_with_prefixes(n); [order] = the order in which the hash map of inherited prefixes was
                            walked, as observed on the implementation: the model checks that it is a permutation of the
                            prefixes it expects to be added and inserts them in that order *)

Definition same_set (a b : list N) : bool :=
  Nat.eqb (length a) (length b) && forallb (fun x => existsb (N.eqb x) b) a && forallb (fun x => existsb (N.eqb x) a) b.

(* Xot::clone_with_prefixes *)
Definition clone_with_prefixes (nm : nsnames) (st : xstate) (n : N) (order : list prefixid) : xstate * mout :=
  match cur st n with
  | None => (st, MPanic)
  | Some z =>
      let inherited := inherited_prefixes (ns_empty_prefix nm) (ns_xml_prefix nm) (ns_no_ns nm) (ns_xml_ns nm) (ns_of_name nm) z in
      let '(st1, out) := m_clone st n in
      match out with
      | MDone (Some c) =>
          if is_type st1 c TElement then
            (* an element in no namespace does not get the inherited default namespace: it cannot declare one on itself *)
            let no_ns_top := match val st1 c with
                             | Some (VElement name) => N.eqb (ns_of_name nm name) (ns_no_ns nm)
                             | _ => false
                             end in
            let to_add := filter (fun d => match map_get_node st1 KNs c (fst d) with
                                           | Some _ => false
                                           | None => negb (no_ns_top && N.eqb (fst d) (ns_empty_prefix nm))
                                           end) inherited in
            if same_set (map fst to_add) order then
              (fold_left (fun s p => match assoc_p p to_add with
                                     | Some ns => map_insert s KNs c (VNamespace p ns)
                                     | None => s
                                     end) order st1, MDone (Some c))
            else (st1, MPanic)
          else (st1, out)
      | _ => (st1, out)
      end
  end.

Definition tstep (nm : nsnames) (ts : tables * xstate) (o : top) : (tables * xstate) * mout :=
  let '(t, st) := ts in
  match o with
  | TH o' => let '(st', out) := hstep st o' in ((t, st'), out)
  | TCmp n =>
      match create_missing_prefixes nm t st n with
      | NOk t' st' => ((t', st'), MDone None)
      | NErrNotElement => ((t, st), MErr ENotElement)
      | NPanic => ((t, st), MPanic)
      end
  | TCloneP n order => let '(st', out) := clone_with_prefixes nm st n order in ((t, st'), out)
  | TDedup n =>
      match deduplicate_namespaces nm st n with
      | Some st' => ((t, st'), MDone None)
      | None => ((t, st), MPanic)
      end
  end.

Fixpoint trun (nm : nsnames) (ts : tables * xstate) (ops : list top) : list (mout * (tables * xstate)) :=
  match ops with
  | [] => []
  | o :: ops' => let '(ts1, out) := tstep nm ts o in (out, ts1) :: trun nm ts1 ops'
  end.
