(* Hist.v — the operations of a history beyond the core mutators of Model/Manip.v: the calls that are built on top
   of them (remove_insignificant_whitespace, ...).  No proofs here. *)
From XotV Require Import Model.Base Model.Zipper Model.Access Model.Store Model.Manip Model.Unpretty Model.Interning Model.NsTools.
Open Scope N_scope.

Inductive hop :=
| HM (o : mop)
| HRemoveWs (n : N) (space : nameid).      (* remove_insignificant_whitespace(n); [space] = xml_space_name() *)

Definition hstep (st : xstate) (o : hop) : xstate * mout :=
  match o with
  | HM o' => mstep st o'
  | HRemoveWs n space =>
      match rmws space st n with
      | Some st' => (st', MDone None)
      | None => (st, MPanic)
      end
  end.

Fixpoint hrun (st : xstate) (ops : list hop) : list (mout * xstate) :=
  match ops with
  | [] => []
  | o :: ops' => let '(st1, out) := hstep st o in (out, st1) :: hrun st1 ops'
  end.

(* ---------- histories that also touch the interning tables (create_missing_prefixes registers prefixes) ---------- *)
Inductive top :=
| TH (o : hop)
| TCmp (n : N)           (* create_missing_prefixes(n) *)
| TDedup (n : N).        (* deduplicate_namespaces(n) *)

Definition tstep (nm : nsnames) (ts : tables * xstate) (o : top) : (tables * xstate) * mout :=
  let '(t, st) := ts in
  match o with
  | TH o' => let '(st', out) := hstep st o' in ((t, st'), out)
  | TCmp n =>
      match create_missing_prefixes nm t st n with
      | NOk t' st' => ((t', st'), MDone None)
      | NErrNotElement => ((t, st), MErr ENotElement)
      | NPanic => ((t, st), MPanic)
      end
  | TDedup n =>
      match deduplicate_namespaces nm st n with
      | Some st' => ((t, st'), MDone None)
      | None => ((t, st), MPanic)
      end
  end.

Fixpoint trun (nm : nsnames) (ts : tables * xstate) (ops : list top) : list (mout * (tables * xstate)) :=
  match ops with
  | [] => []
  | o :: ops' => let '(ts1, out) := tstep nm ts o in (out, ts1) :: trun nm ts1 ops'
  end.
