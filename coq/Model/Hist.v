(* Hist.v — the operations of a history beyond the core mutators of Model/Manip.v: the calls that are built on top
   of them (remove_insignificant_whitespace, ...).  No proofs here. *)
From XotV Require Import Model.Base Model.Zipper Model.Access Model.Store Model.Manip Model.Unpretty.
Open Scope N_scope.

Inductive hop :=
| HM (o : mop)
| HRemoveWs (n : N) (space : nameid).      (* remove_insignificant_whitespace(n); [space] = xml_space_name() *)

Definition hstep (st : xstate) (o : hop) : xstate * mout :=
  match o with
  | HM o' => mstep st o'
  | HRemoveWs n space =>
      match rmws space st n with
      | Some st' => (st', MDone None)
      | None => (st, MPanic)
      end
  end.

Fixpoint hrun (st : xstate) (ops : list hop) : list (mout * xstate) :=
  match ops with
  | [] => []
  | o :: ops' => let '(st1, out) := hstep st o in (out, st1) :: hrun st1 ops'
  end.
