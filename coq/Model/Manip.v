(* Manip.v — model of src/manipulation.rs, src/creation.rs, the mutating half of src/nodemap/*.rs and the
   value setters of src/valueaccess.rs / src/xmlvalue.rs, call by call, in the order the Rust code performs its
   checks, consolidations and arena operations (so that slots and stamps come out identical).  No proofs here. *)
From XotV Require Import Model.Base Model.Zipper Model.Access Model.Store.
Open Scope N_scope.

Inductive merr := EInvalidOperation | ENodeError | EInvalidComment | ENotElement.

Inductive mout :=
| MDone (ret : option N)     (* Ok(()) or Ok(node) *)
| MErr (e : merr)
| MPanic.

(* ---------- consolidation helpers ---------- *)

Definition append_text_to (suffix : str) (v : value) : value :=
  match v with VText s => VText (s ++ suffix) | _ => v end.
Definition prepend_text_to (prefix : str) (v : value) : value :=
  match v with VText s => VText (prefix ++ s) | _ => v end.

(* remove_consolidate_text_nodes(prev, next): merge [next] into [prev] when both are text *)
Definition remove_consolidate (st : xstate) (prev next : option N) : xstate * bool :=
  if negb (cons st) then (st, false) else
  match prev, next with
  | Some p, Some n =>
      match val st p, val st n with
      | Some (VText _), Some (VText tn) =>
          let st1 := with_store st (fset_val p (append_text_to tn) (store st)) in
          (remove_single_raw st1 n, true)
      | _, _ => (st, false)
      end
  | _, _ => (st, false)
  end.

(* add_consolidate_text_nodes(node, prev, next): merge the text node [node] into prev (preferred) or next *)
Definition add_consolidate (st : xstate) (node : N) (prev next : option N) : xstate * bool :=
  if negb (cons st) then (st, false) else
  match val st node with
  | Some (VText added) =>
      let try_next :=
        match next with
        | Some n => match val st n with
                    | Some (VText _) =>
                        let st1 := with_store st (fset_val n (prepend_text_to added) (store st)) in
                        (remove_single_raw st1 node, true)
                    | _ => (st, false)
                    end
        | None => (st, false)
        end in
      match prev with
      | Some p => match val st p with
                  | Some (VText _) =>
                      let st1 := with_store st (fset_val p (append_text_to added) (store st)) in
                      (remove_single_raw st1 node, true)
                  | _ => try_next
                  end
      | None => try_next
      end
  | _ => (st, false)
  end.

(* ---------- checks ---------- *)

Definition mem (n : N) (l : list N) : bool := existsb (N.eqb n) l.

(* add_structure_check(parent, child) *)
Definition structure_check (st : xstate) (parent : option N) (child : N) : bool :=
  match parent with
  | None => false
  | Some p =>
      negb (mem child (q_ancestors st p))
      && (is_type st p TElement || is_type st p TDocument)
      && negb (is_type st child TDocument)
      && is_normal_node st child
  end.

(* add_sibling_check(reference, new_sibling) *)
Definition sibling_check (st : xstate) (ref new : N) : bool :=
  negb (N.eqb ref new) && is_normal_node st ref && structure_check st (q_parent st ref) new.

(* move the subtree [child] with the given re-insertion function *)
Definition move (st : xstate) (child : N) (ins : forest -> forest -> forest) : xstate :=
  match fcut child (store st) with
  | None => st
  | Some (f', t) => with_store st (ins (single t) f')
  end.

(* ---------- the four insertion operations ---------- *)

Definition m_append (st : xstate) (parent child : N) : xstate * mout :=
  if negb (structure_check st (Some parent) child) then (st, MErr EInvalidOperation) else
  if opt_eqb (q_raw_last_child st parent) (Some child) then (st, MDone None) else
  let '(st1, _) := remove_consolidate st (q_prev st child) (q_next st child) in
  (* the last child may by now be the child itself (its old neighbours were merged): its own previous sibling then *)
  let last := if opt_eqb (q_last_child st1 parent) (Some child) then q_prev st1 child else q_last_child st1 parent in
  let '(st2, merged) := add_consolidate st1 child last None in
  if merged then (st2, MDone None) else
  (move st2 child (fun t f => fmap_kids parent (fun k => fapp k t) f), MDone None).

Definition m_prepend (st : xstate) (parent child : N) : xstate * mout :=
  if negb (structure_check st (Some parent) child) then (st, MErr EInvalidOperation) else
  if opt_eqb (q_first_child st parent) (Some child) then (st, MDone None) else
  let '(st1, _) := remove_consolidate st (q_prev st child) (q_next st child) in
  let '(st2, merged) := add_consolidate st1 child None (q_first_child st1 parent) in
  if merged then (st2, MDone None) else
  (move st2 child (fun t f => fmap_kids parent (insert_first_normal t) f), MDone None).

Definition m_insert_after (st : xstate) (ref new : N) : xstate * mout :=
  if negb (sibling_check st ref new) then (st, MErr EInvalidOperation) else
  if opt_eqb (q_prev st new) (Some ref) then (st, MDone None) else
  let next_node := q_next st new in
  let '(st1, merged0) := remove_consolidate st (q_prev st new) next_node in
  if merged0 && opt_eqb next_node (Some ref) then (st1, MDone None) else
  let '(st2, merged) := add_consolidate st1 new (Some ref) (q_next st1 ref) in
  if merged then (st2, MDone None) else
  (move st2 new (fun t f => finsert_after ref t f), MDone None).

Definition m_insert_before (st : xstate) (ref new : N) : xstate * mout :=
  if negb (sibling_check st ref new) then (st, MErr EInvalidOperation) else
  if opt_eqb (q_next st new) (Some ref) then (st, MDone None) else
  let '(st1, _) := remove_consolidate st (q_prev st new) (q_next st new) in
  let prev := if opt_eqb (q_prev st1 ref) (Some new) then q_prev st1 new else q_prev st1 ref in
  let '(st2, merged) := add_consolidate st1 new prev (Some ref) in
  if merged then (st2, MDone None) else
  (move st2 new (fun t f => finsert_before ref t f), MDone None).

(* ---------- detach / remove ---------- *)

Definition m_detach (st : xstate) (n : N) : xstate * mout :=
  let prev := q_prev st n in
  let next := q_next st n in
  let st1 := detach_raw st n in
  (fst (remove_consolidate st1 prev next), MDone None).

Definition m_remove (st : xstate) (n : N) : xstate * mout :=
  let prev := q_prev st n in
  let next := q_next st n in
  let st1 := remove_subtree_raw st n in
  (fst (remove_consolidate st1 prev next), MDone None).

(* ---------- replace ---------- *)

Definition is_live_slot (st : xstate) (n : N) : bool := match cur st n with Some _ => true | None => false end.

Definition m_replace (st : xstate) (replaced replacing : N) : xstate * mout :=
  if is_type st replaced TDocument then (st, MErr EInvalidOperation) else
  match q_parent st replaced with
  | None => (st, MErr EInvalidOperation)
  | Some parent =>
      if negb (is_normal_node st replaced) then (st, MErr EInvalidOperation) else
      if N.eqb replaced replacing then (st, MDone None) else
      if negb (structure_check st (Some parent) replacing) then (st, MErr EInvalidOperation) else
      let prev := q_prev st replaced in
      let next := q_next st replaced in
      let st1 := detach_raw st replaced in
      let '(st2, o) :=
        if opt_eqb prev (Some replacing) || opt_eqb next (Some replacing) then (st1, MDone None)
        else match prev with
             | Some p => m_insert_after st1 p replacing
             | None => m_prepend st1 parent replacing
             end in
      match o with
      | MDone _ =>
          let st3 := remove_subtree_raw st2 replaced in
          match prev, next with
          | Some p, Some n =>
              if is_live_slot st3 p && is_live_slot st3 n && opt_eqb (q_next st3 p) (Some n)
              then (fst (remove_consolidate st3 prev next), MDone None)
              else (st3, MDone None)
          | _, _ => (st3, MDone None)
          end
      | _ => (st2, o)
      end
  end.

(* ---------- element_wrap / element_unwrap ---------- *)

Definition m_wrap (st : xstate) (n : N) (name : nameid) : xstate * mout :=
  if is_type st n TDocument then (st, MErr EInvalidOperation) else
  if negb (is_normal_node st n) then (st, MErr EInvalidOperation) else
  match q_parent st n with
  | Some parent =>
      if is_type st parent TDocument && negb (is_type st n TElement) then (st, MErr EInvalidOperation) else
      let prev := q_prev st n in
      let '(st1, w) := new_node st (VElement name) in
      let st2 := detach_raw st1 n in
      let '(st3, o3) := m_append st2 w n in
      match o3 with
      | MDone _ =>
          let '(st4, o4) := match prev with
                            | Some p => m_insert_after st3 p w
                            | None => m_prepend st3 parent w
                            end in
          match o4 with MDone _ => (st4, MDone (Some w)) | _ => (st4, o4) end
      | _ => (st3, o3)
      end
  | None =>
      let '(st1, w) := new_node st (VElement name) in
      let '(st2, o) := m_append st1 w n in
      match o with MDone _ => (st2, MDone (Some w)) | _ => (st2, o) end
  end.

(* remove_element: the abnormal children are destroyed one by one, then the element itself (children spliced) *)
Definition abnormal_child_slots (st : xstate) (n : N) : list N :=
  match cur st n with Some z => slots_of (abnormal_children z) | None => [] end.

Definition m_unwrap (st : xstate) (n : N) : xstate * mout :=
  if negb (is_type st n TElement) then (st, MErr EInvalidOperation) else
  match q_first_child st n with
  | None => m_remove st n
  | Some first =>
      match q_last_child st n with
      | None => (st, MPanic)
      | Some last =>
          if (match q_parent st n with None => true | Some _ => false end) && negb (N.eqb first last)
          then (st, MErr EInvalidOperation) else
          let st1 := fold_left remove_single_raw (abnormal_child_slots st n) st in
          let st2 := remove_single_raw st1 n in
          let prev_node := q_prev st2 first in
          let next_node := q_next st2 last in
          let '(st3, merged) := remove_consolidate st2 prev_node (Some first) in
          if merged then
            if N.eqb first last then (fst (remove_consolidate st3 prev_node next_node), MDone None)
            else (fst (remove_consolidate st3 (Some last) (q_next st3 last)), MDone None)
          else (fst (remove_consolidate st3 (Some last) (q_next st3 last)), MDone None)
      end
  end.

(* ---------- attribute / namespace maps (src/nodemap/core.rs) ---------- *)

Inductive mapkind := KAttr | KNs.

Definition map_nodes (k : mapkind) (z : zipper) : list zipper :=
  match k with KAttr => attribute_nodes z | KNs => namespace_nodes z end.

Definition key_of (v : value) : N := match v with VAttribute n _ => n | VNamespace p _ => p | _ => 0 end.

(* get_node(key): the first node of the view with that key *)
Definition map_get_node (st : xstate) (k : mapkind) (e : N) (key : N) : option N :=
  match cur st e with
  | None => None
  | Some z => oslot (List.find (fun c => N.eqb (key_of (z_val c)) key) (map_nodes k z))
  end.

Definition map_insert_at (k : mapkind) (t : forest) (kids : forest) : forest :=
  match k with KAttr => insert_after_attributes t kids | KNs => insert_after_namespaces t kids end.

(* insert a (possibly attached elsewhere) node at the view's insertion point *)
Definition map_attach (st : xstate) (k : mapkind) (e node : N) : xstate :=
  move st node (fun t f => fmap_kids e (map_insert_at k t) f).

(* MutableNodeMap::insert(key, value): update in place, or create a node at the insertion point *)
Definition map_insert (st : xstate) (k : mapkind) (e : N) (newv : value) : xstate :=
  match map_get_node st k e (key_of newv) with
  | Some n => with_store st (fset_val n (fun _ => newv) (store st))
  | None => let '(st1, n) := new_node st newv in map_attach st1 k e n
  end.

(* MutableNodeMap::insert_node(node) *)
Definition map_insert_node (st : xstate) (k : mapkind) (e node : N) : xstate * N :=
  match val st node with
  | None => (st, node)
  | Some nv =>
      match map_get_node st k e (key_of nv) with
      | Some existing => (with_store st (fset_val existing (fun _ => nv) (store st)), existing)
      | None => (map_attach st k e node, node)
      end
  end.

Definition map_remove (st : xstate) (k : mapkind) (e : N) (key : N) : xstate :=
  match map_get_node st k e key with
  | Some n => fst (m_remove st n)
  | None => st
  end.

Definition map_clear (st : xstate) (k : mapkind) (e : N) : xstate :=
  match cur st e with
  | None => st
  | Some z => fold_left (fun s n => fst (m_remove s n)) (slots_of (map_nodes k z)) st
  end.

(* every element-only accessor panics on a non-element (documented) *)
Definition on_element (st : xstate) (e : N) (f : xstate) : xstate * mout :=
  if is_type st e TElement then (f, MDone None) else (st, MPanic).

(* ---------- clone_node ---------- *)

Definition m_any_append (st : xstate) (parent child : N) : xstate * mout :=
  match val st child with
  | Some (VNamespace _ _) =>
      if negb (is_type st parent TElement) then (st, MErr EInvalidOperation) else
      let '(st1, r) := map_insert_node st KNs parent child in (st1, MDone (Some r))
  | Some (VAttribute _ _) =>
      if negb (is_type st parent TElement) then (st, MErr EInvalidOperation) else
      let '(st1, r) := map_insert_node st KAttr parent child in (st1, MDone (Some r))
  | _ =>
      let '(st1, o) := m_append st parent child in
      match o with MDone _ => (st1, MDone (Some child)) | _ => (st1, o) end
  end.

(* the edge replay of clone_node; [current] is the node new nodes are appended to *)
Fixpoint clone_edges (es : list edge) (st : xstate) (current : N) : option xstate :=
  match es with
  | [] => Some st
  | EStart z :: es' =>
      match z_val z with
      | VDocument => clone_edges es' st current
      | v =>
          let '(st1, n) := new_node st v in
          match m_any_append st1 current n with
          | (st2, MDone _) => clone_edges es' st2 (if vtype_eqb (value_type v) TElement then n else current)
          | _ => None                                  (* .unwrap() *)
          end
      end
  | EEnd z :: es' =>
      if vtype_eqb (value_type (z_val z)) TElement then
        match q_parent st current with
        | Some p => clone_edges es' st p
        | None => None                                 (* .unwrap() *)
        end
      else clone_edges es' st current
  end.

Definition m_clone (st : xstate) (n : N) : xstate * mout :=
  match cur st n with
  | None => (st, MPanic)
  | Some z =>
      match z_val z with
      | VDocument =>
          let '(st1, top) := new_node st VDocument in
          match clone_edges (all_traverse z) st1 top with
          | Some st2 => (st2, MDone (Some top))
          | None => (st1, MPanic)
          end
      | VElement name =>
          let '(st1, top) := new_node st (VElement name) in
          match clone_edges (all_traverse z) st1 top with
          | Some st2 =>
              match q_first_child st2 top with
              | Some c => (remove_single_raw st2 top, MDone (Some c))
              | None => (st2, MPanic)
              end
          | None => (st1, MPanic)
          end
      | v => let '(st1, c) := new_node st v in (st1, MDone (Some c))
      end
  end.

(* ---------- text_content_mut ---------- *)

Definition set_value (st : xstate) (n : N) (g : value -> value) : xstate :=
  with_store st (fset_val n g (store st)).

Definition m_text_content_mut (st : xstate) (n : N) (s : str) : xstate * mout :=
  match q_first_child st n with
  | Some c =>
      match q_next st c with
      | Some _ => (st, MDone None)
      | None => if is_type st c TText then (set_value st c (fun _ => VText s), MDone None) else (st, MDone None)
      end
  | None =>
      if is_type st n TElement then
        let '(st1, t) := new_node st (VText []) in
        let '(st2, o) := m_append st1 n t in
        match o with
        | MDone _ => match q_first_child st2 n with
                     | Some c => if is_type st2 c TText then (set_value st2 c (fun _ => VText s), MDone None)
                                 else (st2, MDone None)                    (* text_mut(child) = None *)
                     | None => (st2, MPanic)
                     end
        | _ => (st2, MPanic)
        end
      else (st, MDone None)
  end.

(* ---------- the operations of a history ---------- *)

Inductive mop :=
| ONewDoc | ONewEl (n : nameid) | ONewText (s : str) | ONewComment (s : str) | ONewPi (n : nameid) (d : option str)
| ONewAttr (n : nameid) (v : str) | ONewNs (p : prefixid) (ns : nsid)
| OAppend (p c : N) | OPrepend (p c : N) | OInsertAfter (r n : N) | OInsertBefore (r n : N)
| OAnyAppend (p c : N) | OAppendAttrNode (p c : N) | OAppendNsNode (p c : N)
| ODetach (n : N) | ORemove (n : N) | OReplace (a b : N) | OWrap (n : N) (name : nameid) | OUnwrap (n : N)
| OCloneNode (n : N)
| OSetName (n : N) (name : nameid)
| OSetAttr (e : N) (name : nameid) (v : str) | ORmAttr (e : N) (name : nameid)
| OSetNs (e : N) (p : prefixid) (ns : nsid) | ORmNs (e : N) (p : prefixid)
| OAttrsClear (e : N) | ONsClear (e : N)
| OAttrsGetMutSet (e : N) (name : nameid) (v : str) | OAttrsEntryOrInsert (e : N) (name : nameid) (v : str)
| OAttrsEntryModify (e : N) (name : nameid) (v : str) | OAttrsEntryRemove (e : N) (name : nameid)
| ONsGetMutSet (e : N) (p : prefixid) (ns : nsid) | ONsEntryOrInsert (e : N) (p : prefixid) (ns : nsid)
| OSetText (n : N) (s : str) | OSetComment (n : N) (s : str) | OSetPiData (n : N) (d : option str)
| OSetAttrValue (n : N) (s : str) | OSetNsValue (n : N) (ns : nsid)
| OTextContentMut (n : N) (s : str)
| OCons (b : bool)
| ONewDocWith (e : N).

Definition has_double_dash (s : str) : bool :=
  (fix go (l : str) : bool :=
     match l with
     | a :: ((b :: _) as l') => (N.eqb a 45 && N.eqb b 45) || go l'
     | _ => false
     end) s.

Definition new_str (v : str) : str := [110; 101; 119; 58] ++ v.     (* "new:" ++ v, what the harness passes to or_insert *)

Definition created (p : xstate * N) : xstate * mout := (fst p, MDone (Some (snd p))).

Definition mstep (st : xstate) (o : mop) : xstate * mout :=
  match o with
  | ONewDoc => created (new_node st VDocument)
  | ONewEl n => created (new_node st (VElement n))
  | ONewText s => created (new_node st (VText s))
  | ONewComment s => created (new_node st (VComment s))
  | ONewPi n d => created (new_node st (VPI n (match d with Some [] => None | x => x end)))   (* ProcessingInstruction::new: empty data is no data *)
  | ONewAttr n v => created (new_node st (VAttribute n v))
  | ONewNs p ns => created (new_node st (VNamespace p ns))
  | OAppend p c => m_append st p c
  | OPrepend p c => m_prepend st p c
  | OInsertAfter r n => m_insert_after st r n
  | OInsertBefore r n => m_insert_before st r n
  | OAnyAppend p c => m_any_append st p c
  | OAppendAttrNode p c =>
      if negb (is_type st p TElement) then (st, MErr EInvalidOperation) else
      if negb (is_type st c TAttribute) then (st, MErr EInvalidOperation) else
      let '(st1, r) := map_insert_node st KAttr p c in (st1, MDone (Some r))
  | OAppendNsNode p c =>
      if negb (is_type st p TElement) then (st, MErr EInvalidOperation) else
      if negb (is_type st c TNamespace) then (st, MErr EInvalidOperation) else
      let '(st1, r) := map_insert_node st KNs p c in (st1, MDone (Some r))
  | ODetach n => m_detach st n
  | ORemove n => m_remove st n
  | OReplace a b => m_replace st a b
  | OWrap n name => m_wrap st n name
  | OUnwrap n => m_unwrap st n
  | OCloneNode n => m_clone st n
  | OSetName n name => on_element st n (set_value st n (fun _ => VElement name))
  | OSetAttr e name v => on_element st e (map_insert st KAttr e (VAttribute name v))
  | ORmAttr e name => on_element st e (map_remove st KAttr e name)
  | OSetNs e p ns => on_element st e (map_insert st KNs e (VNamespace p ns))
  | ORmNs e p => on_element st e (map_remove st KNs e p)
  | OAttrsClear e => on_element st e (map_clear st KAttr e)
  | ONsClear e => on_element st e (map_clear st KNs e)
  | OAttrsGetMutSet e name v =>
      on_element st e (match map_get_node st KAttr e name with
                       | Some n => set_value st n (fun _ => VAttribute name v) | None => st end)
  | OAttrsEntryOrInsert e name v =>
      on_element st e (match map_get_node st KAttr e name with
                       | Some _ => st | None => map_insert st KAttr e (VAttribute name v) end)
  | OAttrsEntryModify e name v =>
      on_element st e (match map_get_node st KAttr e name with
                       | Some n => set_value st n (fun _ => VAttribute name v)
                       | None => map_insert st KAttr e (VAttribute name (new_str v)) end)
  | OAttrsEntryRemove e name => on_element st e (map_remove st KAttr e name)
  | ONsGetMutSet e p ns =>
      on_element st e (match map_get_node st KNs e p with
                       | Some n => set_value st n (fun _ => VNamespace p ns) | None => st end)
  | ONsEntryOrInsert e p ns =>
      on_element st e (match map_get_node st KNs e p with
                       | Some _ => st | None => map_insert st KNs e (VNamespace p ns) end)
  | OSetText n s => (if is_type st n TText then set_value st n (fun _ => VText s) else st, MDone None)
  | OSetComment n s =>
      if is_type st n TComment then
        if has_double_dash s then (st, MErr EInvalidComment) else (set_value st n (fun _ => VComment s), MDone None)
      else (st, MDone None)
  | OSetPiData n d =>
      (set_value st n (fun v => match v with
                                | VPI t _ => VPI t (match d with Some [] => None | x => x end)
                                | x => x end), MDone None)
  | OSetAttrValue n s =>
      (set_value st n (fun v => match v with VAttribute a _ => VAttribute a s | x => x end), MDone None)
  | OSetNsValue n ns =>
      (set_value st n (fun v => match v with VNamespace p _ => VNamespace p ns | x => x end), MDone None)
  | OTextContentMut n s => m_text_content_mut st n s
  | OCons b => ({| store := store st; stamps := stamps st; free := free st; cons := b |}, MDone None)
  | ONewDocWith e =>
      if negb (is_type st e TElement) then (st, MErr EInvalidOperation) else
      let '(st1, d) := new_node st VDocument in
      match m_append st1 d e with
      | (st2, MDone _) => (st2, MDone (Some d))
      | (st2, o) => (st2, o)
      end
  end.

Fixpoint mrun (st : xstate) (ops : list mop) : list (mout * xstate) :=
  match ops with
  | [] => []
  | o :: ops' => let '(st1, out) := mstep st o in (out, st1) :: mrun st1 ops'
  end.
