(* HtmlSer.v — model of src/output/html5_serializer.rs, src/output/html5elements.rs and the Html5 entry points of
   src/serialize.rs.  The name tables and the three namespace URIs come from Gen/Tables.v (regenerated from the source on
   every run).  No proofs here. *)
From XotV Require Import Model.Base Model.Zipper Model.Access Model.Interning Model.Fullname Model.Scope Model.Entity Model.XmlSer Gen.Tables.
Open Scope N_scope.

Record hnames := {
  h_xhtml : nsid; h_mathml : nsid; h_svg : nsid          (* ids of XHTML_NS, MATHML_NS, SVG_NS after Html5Elements::new *)
}.

Definition str_mem (s : str) (l : list str) : bool := existsb (str_eqb s) l.

Section Html.
  Variable nm : names.
  Variable hn : hnames.
  Notation ep := (n_empty_prefix nm).
  Notation nn := (n_no_ns nm).

  (* Html5Elements::is_html_namespace *)
  Definition is_html_namespace (ns : nsid) : bool := N.eqb ns (h_xhtml hn) || N.eqb ns nn.
  Definition is_html_element (name : nameid) : bool := is_html_namespace (n_ns_of_name nm name).
  Definition must_be_unprefixed (ns : nsid) : bool := N.eqb ns (h_xhtml hn) || N.eqb ns (h_mathml hn) || N.eqb ns (h_svg hn).

  (* HtmlNames::matches: a registered id, or an HTML element whose lower-cased local name is in the table; every
     registered id (lower / upper case, no namespace / XHTML) satisfies the second condition *)
  Definition html_matches (table : list str) (name : nameid) : bool :=
    is_html_element name && str_mem (to_ascii_lowercase (n_local nm name)) table.

  Definition is_inline (name : nameid) : bool :=
    is_html_element name && (html_matches phrasing_content_names name || negb (html_matches html5_names name)).

  (* html_matches_suppress, with its early `return false` inside the loop *)
  Fixpoint html_matches_suppress (names : list nameid) (name : nameid) : bool :=
    match names with
    | [] => false
    | s :: rest =>
        if N.eqb name s then true
        else if negb (is_html_namespace (n_ns_of_name nm s)) then false
        else if negb (is_html_namespace (n_ns_of_name nm name)) then false
        else if str_eqb (to_ascii_lowercase (n_local nm s)) (to_ascii_lowercase (n_local nm name)) then true
        else html_matches_suppress rest name
    end.

  (* ---------- character level ---------- *)
  Definition c_nbsp : cp := 160.
  Definition s_nbsp : str := [38; 110; 98; 115; 112; 59].       (* &nbsp; *)

  Fixpoint serialize_text_html (s : str) : str :=
    match s with
    | [] => []
    | c :: s' => (if c =? c_amp then s_amp else if c =? c_lt then s_lt else if c =? c_nbsp then s_nbsp else [c])
                 ++ serialize_text_html s'
    end.

  Fixpoint serialize_attribute_html (s : str) : str :=
    match s with
    | [] => []
    | c :: s' => (if c =? c_amp then s_amp else if c =? c_apos then s_apos else if c =? c_quot then s_quot
                  else if c =? c_nbsp then s_nbsp else [c]) ++ serialize_attribute_html s'
    end.

  Definition has_gt (s : str) : bool := existsb (N.eqb c_gt) s.

  (* ---------- Html5Serializer ---------- *)
  Inductive herr := HMissingPrefix | HNamespaceInPI | HPIGt.
  Inductive hres (A : Type) := HOk (a : A) | HErr (e : herr) | HPanic.
  Arguments HOk {A} a.
  Arguments HErr {A} e.
  Arguments HPanic {A}.

  Record hstate := { hs_stack : fstack; hs_added : list N; hs_top : N }.      (* fullname_serializer, added_default, the node being serialized *)

  (* the table the serialiser starts from: the declarations in scope at the node, without a default namespace that is not the
     node's own (it is never written on the node, OPrefix below) *)
  Definition hser_new (z : zipper) : hstate :=
    let own := match z_val z with VElement n => Some (n_ns_of_name nm n) | _ => None end in
    {| hs_stack := fs_new (filter (fun d => negb (N.eqb (fst d) ep)
                                            || match own with Some ns => N.eqb (snd d) ns | None => false end)
                                  (in_scope nm z));
       hs_added := []; hs_top := z_slot z |}.

  Definition element_of (z : zipper) : option nameid := match z_val z with VElement n => Some n | _ => None end.

  (* the declarations of an element that are in force for its descendants: a default-namespace declaration for another
     namespace than the element's own is never written (OPrefix below) and is not pushed either *)
  Definition effective_declarations (z : zipper) (name : nameid) : list (prefixid * nsid) :=
    filter (fun d => negb (N.eqb (fst d) ep) || N.eqb (snd d) (n_ns_of_name nm name)) (declarations z).

  Definition hrender (cdata : list nameid) (st : hstate) (z : zipper) (o : output) : hres (hstate * token) :=
    match o with
    | OStartTagOpen name =>
        let own := effective_declarations z name in
        let stack1 := fs_push (hs_stack st) own in
        let ns := n_ns_of_name nm name in
        if must_be_unprefixed ns && negb (has_empty_prefix ep stack1 ns) then
          let '(stack2, added) :=
            match own with
            | [] => (fs_push stack1 [(ep, ns)], z_slot z :: hs_added st)
            | _ => (add_empty_prefix ep stack1 ns, hs_added st)
            end in
          HOk ({| hs_stack := stack2; hs_added := added; hs_top := hs_top st |},
               tok false ([60] ++ n_local nm name ++ [32] ++ s_xmlns ++ [61; 34] ++ n_ns_str nm ns ++ [34]))
        else
          match element_fullname nm stack1 name with
          | None => HErr HMissingPrefix
          | Some fn => HOk ({| hs_stack := stack1; hs_added := hs_added st; hs_top := hs_top st |}, tok false ([60] ++ fn))
          end
    | OStartTagClose => HOk (st, tok false [62])
    | OEndTag name =>
        let r := if html_matches void_names name then Some (tok false [])
                 else match element_fullname nm (hs_stack st) name with
                      | None => None
                      | Some fn => Some (tok false ([60; 47] ++ fn ++ [62]))
                      end in
        match r with
        | None => HErr HMissingPrefix
        | Some t =>
            let added := match hs_added st with a :: _ => N.eqb a (z_slot z) | [] => false end in
            let has_decls := match effective_declarations z name with [] => false | _ => true end in
            HOk ({| hs_stack := fs_pop (hs_stack st) (added || has_decls);
                    hs_added := if added then tl (hs_added st) else hs_added st; hs_top := hs_top st |}, t)
        end
    | OPrefix p ns =>
        match element_of z with
        | None => HPanic                                    (* .unwrap() *)
        | Some element_name =>
            if (N.eqb p (n_xml_prefix nm) && N.eqb ns (n_xml_ns nm))
               || (negb (N.eqb p ep) && N.eqb ns nn)
               || (N.eqb p ep && negb (N.eqb (n_ns_of_name nm element_name) ns))
               || (negb (N.eqb p ep) && must_be_unprefixed ns
                   && negb (existsb (fun a => N.eqb (n_ns_of_name nm (fst a)) ns) (attr_pairs z)))
            then HOk (st, tok false [])
            else if N.eqb p ep then HOk (st, tok true (s_xmlns ++ [61; 34] ++ serialize_attribute (n_ns_str nm ns) ++ [34]))
            else HOk (st, tok true (s_xmlns ++ [58] ++ n_prefix_str nm p ++ [61; 34] ++ serialize_attribute (n_ns_str nm ns) ++ [34]))
        end
    | OAttribute name v =>
        match attribute_fullname nm (hs_stack st) name with
        | None => HErr HMissingPrefix
        | Some fn =>
            let ns := n_ns_of_name nm name in
            let unprefixed := match attribute_prefix ep nn (hs_stack st) ns with PNone => true | _ => false end in
            if is_html_namespace ns && unprefixed
               && str_eqb (to_ascii_lowercase (n_local nm name)) (to_ascii_lowercase v)
            then HOk (st, tok true fn)
            else
              let value := if negb (N.eqb ns nn) then serialize_attribute v else serialize_attribute_html v in
              HOk (st, tok true (fn ++ [61; 34] ++ value ++ [34]))
        end
    | OText s =>
        (* the parent of the node that is being serialized is not part of the output *)
        let parent_element := if N.eqb (z_slot z) (hs_top st) then None
                              else match parent z with Some p => element_of p | None => None end in
        let value :=
          match parent_element with
          | Some pn =>
              if html_matches no_escape_names pn then s
              else if existsb (N.eqb pn) cdata then serialize_cdata s
              else if is_html_element pn then serialize_text_html s
              else serialize_text false s
          | None => serialize_text_html s
          end in
        HOk (st, tok false value)
    | OComment s => HOk (st, tok false ([60; 33; 45; 45] ++ s ++ [45; 45; 62]))
    | OPI target data =>
        if negb (N.eqb (n_ns_of_name nm target) nn) then HErr HNamespaceInPI
        else match data with
             | Some d => if has_gt d then HErr HPIGt
                         else HOk (st, tok false ([60; 63] ++ n_local nm target ++ [32] ++ d ++ [62]))
             | None => HOk (st, tok false ([60; 63] ++ n_local nm target ++ [62]))
             end
    end.

  Definition s_doctype : str := [60; 33; 68; 79; 67; 84; 89; 80; 69; 32; 104; 116; 109; 108; 62].      (* <!DOCTYPE html> *)

  (* serialize: every event rendered and written at once; with indentation, Pretty decides spaces and newlines *)
  Fixpoint hserialize_go (cdata : list nameid) (st : hstate) (evs : list (zipper * output)) (buf : str) : hres str :=
    match evs with
    | [] => HOk buf
    | (z, o) :: evs' =>
        match hrender cdata st z o with
        | HErr e => HErr e
        | HPanic => HPanic
        | HOk (st', t) => hserialize_go cdata st' evs' (buf ++ token_text t)
        end
    end.

  Fixpoint hserialize_pretty_go (cdata : list nameid) (is_sup is_inl : nameid -> bool) (st : hstate) (ps : list sentry)
                                (evs : list (zipper * output)) (buf : str) : hres str :=
    match evs with
    | [] => HOk buf
    | (z, o) :: evs' =>
        let '(ps', ind, nl) := prettify nm is_sup is_inl ps z o in
        match hrender cdata st z o with
        | HErr e => HErr e
        | HPanic => HPanic
        | HOk (st', t) =>
            hserialize_pretty_go cdata is_sup is_inl st' ps' evs' (buf ++ spaces ind ++ token_text t ++ (if nl then [10] else []))
        end
    end.

  (* Html5::serialize_string(parameters, node); [indent] = Some suppress-list *)
  Definition html5_serialize (cdata : list nameid) (indent : option (list nameid)) (z : zipper) : hres str :=
    match indent with
    | None => hserialize_go cdata (hser_new z) (gen_outputs nm z) s_doctype
    | Some suppress =>
        let is_sup := fun name => html_matches formatted_names name || html_matches_suppress suppress name in
        hserialize_pretty_go cdata is_sup is_inline (hser_new z) (seed_context nm is_sup is_inline z) (gen_outputs nm z) s_doctype
    end.
End Html.

Arguments HOk {A} a.
Arguments HErr {A} e.
Arguments HPanic {A}.
