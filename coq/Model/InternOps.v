(* InternOps.v — the registration API of Xot as a step function over operations (the C08 histories),
   instantiated with the constants read from the source (Gen/Tables.v).  No proofs here. *)
From XotV Require Import Model.Base Model.Interning Gen.Tables.
Open Scope N_scope.

Definition x_add_namespace := add_namespace id_width_namespace id_checked_namespace.
Definition x_add_prefix := add_prefix id_width_prefix id_checked_prefix.
Definition x_add_name_ns := add_name_ns id_width_name id_checked_name.
Definition x_new := xot_new id_width_name id_width_namespace id_width_prefix
                            id_checked_name id_checked_namespace id_checked_prefix
                            s_xml_ns s_xml_prefix s_space s_id.
Definition x_html5 (t : tables) (no_ns : nsid) :=
  html5_new id_width_name id_width_namespace id_checked_name id_checked_namespace
            t no_ns xhtml_ns mathml_ns svg_ns html_table_order.

Inductive iop :=
| OAddNameNs (s : str) (ns : nsid)     (* add_name_ns; add_name s = add_name_ns s no_namespace *)
| OAddNamespace (s : str)
| OAddPrefix (s : str)
| OLookupNameNs (s : str) (ns : nsid)  (* name_ns / name *)
| OLookupNamespace (s : str)
| OLookupPrefix (s : str)
| ONameStr (i : nameid)                (* name_ns_str *)
| ONamespaceStr (i : nsid)
| OPrefixStr (i : prefixid)
| OHtml5                               (* html5(): registers the HTML namespaces and names *)
| OClone.                              (* Xot::clone: the history continues on the copy *)

Inductive iobs :=
| ObsId (i : N)
| ObsOptId (o : option N)
| ObsStr (o : option str)              (* None = index out of bounds (Rust panic) *)
| ObsName (o : option (str * str))
| ObsHtml (x m s : N)
| ObsUnit
| ObsPanic.

Definition istate := (builtins * tables)%type.

Definition istep (st : istate) (o : iop) : istate * iobs :=
  let '(b, t) := st in
  match o with
  | OAddNameNs s ns => match x_add_name_ns t s ns with
                       | RPanic => (st, ObsPanic) | ROk (i, t') => ((b, t'), ObsId i) end
  | OAddNamespace s => match x_add_namespace t s with
                       | RPanic => (st, ObsPanic) | ROk (i, t') => ((b, t'), ObsId i) end
  | OAddPrefix s => match x_add_prefix t s with
                    | RPanic => (st, ObsPanic) | ROk (i, t') => ((b, t'), ObsId i) end
  | OLookupNameNs s ns => (st, ObsOptId (lookup_name_ns t s ns))
  | OLookupNamespace s => (st, ObsOptId (lookup_namespace t s))
  | OLookupPrefix s => (st, ObsOptId (lookup_prefix t s))
  | ONameStr i => (st, ObsName (name_ns_str t i))
  | ONamespaceStr i => (st, ObsStr (namespace_str t i))
  | OPrefixStr i => (st, ObsStr (prefix_str t i))
  | OHtml5 => match x_html5 t (b_no_namespace b) with
              | RPanic => (st, ObsPanic)
              | ROk (x, m, s, t') => ((b, t'), ObsHtml x m s) end
  | OClone => (st, ObsUnit)
  end.

Fixpoint irun (st : istate) (ops : list iop) : istate * list iobs :=
  match ops with
  | [] => (st, [])
  | o :: ops' =>
      let '(st1, ob) := istep st o in
      let '(st2, obs) := irun st1 ops' in
      (st2, ob :: obs)
  end.

(* observation of the built-ins right after Xot::new *)
Definition builtin_obs (st : istate) : list (N * option str) :=
  let '(b, t) := st in
  [ (b_no_namespace b, namespace_str t (b_no_namespace b));
    (b_empty_prefix b, prefix_str t (b_empty_prefix b));
    (b_xml_namespace b, namespace_str t (b_xml_namespace b));
    (b_xml_prefix b, prefix_str t (b_xml_prefix b));
    (b_xml_space b, local_name_str t (b_xml_space b));
    (b_xml_id b, local_name_str t (b_xml_id b)) ].
