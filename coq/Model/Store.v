(* Store.v — the mutable part of a Xot: the forest of live trees, the arena's slot table (stamps, FIFO free
   list) and the text-consolidation flag; plus the primitive surgery on forests that indextree performs
   (detach, insert_*, remove, remove_subtree, new_node).  No proofs here.

   Queries go through cursors (Model/Zipper.v, Model/Access.v); updates are plain structural recursion
   over the forest, so that the invariants (Proofs/StoreProofs.v) go by ordinary induction. *)
From XotV Require Import Model.Base Model.Zipper Model.Access.
Open Scope N_scope.

Record xstate := {
  store : forest;        (* every live tree; the top-level list is the set of parentless nodes *)
  stamps : list Z;       (* arena.nodes[i].stamp; negative = the slot is free *)
  free : list N;         (* indextree's free list, first = next slot to reuse *)
  cons : bool            (* text_consolidation *)
}.

Definition tree3 := (N * value * forest)%type.   (* a detached subtree: slot, value, children *)

(* ---------- structural surgery ---------- *)

(* remove the subtree rooted at [n] from a sibling list (searching below too) *)
Fixpoint fcut (n : N) (f : forest) : option (forest * tree3) :=
  match f with
  | FNil => None
  | FCons i v k r =>
      if N.eqb i n then Some (r, (i, v, k))
      else match fcut n k with
           | Some (k', t) => Some (FCons i v k' r, t)
           | None => match fcut n r with
                     | Some (r', t) => Some (FCons i v k r', t)
                     | None => None
                     end
           end
  end.

(* apply [g] to the children list of node [p] *)
Fixpoint fmap_kids (p : N) (g : forest -> forest) (f : forest) : forest :=
  match f with
  | FNil => FNil
  | FCons i v k r =>
      if N.eqb i p then FCons i v (g k) r
      else FCons i v (fmap_kids p g k) (fmap_kids p g r)
  end.

(* insert the sibling list [t] right after / right before node [ref], wherever it is *)
Fixpoint finsert_after (ref : N) (t : forest) (f : forest) : forest :=
  match f with
  | FNil => FNil
  | FCons i v k r =>
      if N.eqb i ref then FCons i v k (fapp t r)
      else FCons i v (finsert_after ref t k) (finsert_after ref t r)
  end.

Fixpoint finsert_before (ref : N) (t : forest) (f : forest) : forest :=
  match f with
  | FNil => FNil
  | FCons i v k r =>
      if N.eqb i ref then fapp t (FCons i v k r)
      else FCons i v (finsert_before ref t k) (finsert_before ref t r)
  end.

(* replace node [n] by the sibling list [t] (used by indextree's remove: the children take its place) *)
Fixpoint fsplice (n : N) (f : forest) : forest :=
  match f with
  | FNil => FNil
  | FCons i v k r =>
      if N.eqb i n then fapp k r
      else FCons i v (fsplice n k) (fsplice n r)
  end.

(* update the value of node [n] *)
Fixpoint fset_val (n : N) (g : value -> value) (f : forest) : forest :=
  match f with
  | FNil => FNil
  | FCons i v k r =>
      if N.eqb i n then FCons i (g v) k r
      else FCons i v (fset_val n g k) (fset_val n g r)
  end.

Definition single (t : tree3) : forest := let '(i, v, k) := t in FCons i v k FNil.

(* insert [t] after the last abnormal (namespace / attribute) child: prepend's insertion point *)
Fixpoint insert_first_normal (t : forest) (k : forest) : forest :=
  match k with
  | FNil => t
  | FCons i v k' r => if is_normal v then fapp t k else FCons i v k' (insert_first_normal t r)
  end.

(* NodeMap insertion points: after the last namespace node / after the last attribute node *)
Fixpoint insert_after_namespaces (t : forest) (k : forest) : forest :=
  match k with
  | FNil => t
  | FCons i v k' r =>
      match value_category v with
      | CNamespace => FCons i v k' (insert_after_namespaces t r)
      | _ => fapp t k
      end
  end.

Fixpoint insert_after_attributes (t : forest) (k : forest) : forest :=
  match k with
  | FNil => t
  | FCons i v k' r =>
      match value_category v with
      | CNormal => fapp t k
      | _ => FCons i v k' (insert_after_attributes t r)
      end
  end.

(* ---------- slot table ---------- *)

Fixpoint set_nth {A} (n : nat) (x : A) (l : list A) : list A :=
  match l, n with
  | [], _ => []
  | _ :: l', O => x :: l'
  | y :: l', S n' => y :: set_nth n' x l'
  end.

Definition stamp_of (st : xstate) (i : N) : Z := nth (N.to_nat i) (stamps st) 0%Z.

(* Arena::new_node: reuse the first free slot (stamp negated) or push a new one; the node becomes a new root *)
Definition new_node (st : xstate) (v : value) : xstate * N :=
  match free st with
  | i :: rest =>
      let s := Z.opp (stamp_of st i) in
      ({| store := FCons i v FNil (store st); stamps := set_nth (N.to_nat i) s (stamps st);
          free := rest; cons := cons st |}, i)
  | [] =>
      let i := N.of_nat (length (stamps st)) in
      ({| store := FCons i v FNil (store st); stamps := stamps st ++ [0%Z];
          free := []; cons := cons st |}, i)
  end.

(* Arena::free_node: stamp := -stamp - 1, appended to the free list *)
Definition free_slot (stamps0 : list Z) (i : N) : list Z :=
  set_nth (N.to_nat i) (Z.opp (nth (N.to_nat i) stamps0 0%Z) - 1)%Z stamps0.

Definition free_slots (st : xstate) (l : list N) : xstate :=
  {| store := store st; stamps := fold_left free_slot l (stamps st); free := free st ++ l; cons := cons st |}.

Definition with_store (st : xstate) (f : forest) : xstate :=
  {| store := f; stamps := stamps st; free := free st; cons := cons st |}.

(* NodeId::detach: the subtree becomes a root (no-op for a root) *)
Definition detach_raw (st : xstate) (n : N) : xstate :=
  match fcut n (store st) with
  | None => st
  | Some (f', t) => with_store st (fapp (single t) f')
  end.

(* NodeId::remove_subtree: detach, then free every node of the subtree in pre-order *)
Definition remove_subtree_raw (st : xstate) (n : N) : xstate :=
  match fcut n (store st) with
  | None => st
  | Some (f', (i, v, k)) => free_slots (with_store st f') (i :: ids k)
  end.

(* NodeId::remove: the children take the node's place, the node itself is freed *)
Definition remove_single_raw (st : xstate) (n : N) : xstate :=
  free_slots (with_store st (fsplice n (store st))) [n].

(* cursor of a slot in the current store *)
Definition cur (st : xstate) (n : N) : option zipper := locate n (store st).

Definition val (st : xstate) (n : N) : option value :=
  match cur st n with Some z => Some (z_val z) | None => None end.

Definition oslot (o : option zipper) : option N := match o with Some z => Some (z_slot z) | None => None end.

Definition q_parent (st : xstate) (n : N) : option N := match cur st n with Some z => oslot (parent z) | None => None end.
Definition q_prev (st : xstate) (n : N) : option N := match cur st n with Some z => oslot (previous_sibling z) | None => None end.
Definition q_next (st : xstate) (n : N) : option N := match cur st n with Some z => oslot (next_sibling z) | None => None end.
Definition q_first_child (st : xstate) (n : N) : option N := match cur st n with Some z => oslot (first_child z) | None => None end.
Definition q_last_child (st : xstate) (n : N) : option N := match cur st n with Some z => oslot (last_child z) | None => None end.
Definition q_raw_last_child (st : xstate) (n : N) : option N := match cur st n with Some z => oslot (down_last z) | None => None end.
Definition q_ancestors (st : xstate) (n : N) : list N := match cur st n with Some z => slots_of (ancestors z) | None => [] end.

Definition opt_eqb (a b : option N) : bool :=
  match a, b with Some x, Some y => N.eqb x y | None, None => true | _, _ => false end.

Definition is_text_val (v : value) : bool := match v with VText _ => true | _ => false end.
Definition text_of (v : value) : str := match v with VText s => s | _ => [] end.

Definition is_type (st : xstate) (n : N) (t : vtype) : bool :=
  match val st n with Some v => vtype_eqb (value_type v) t | None => false end.
Definition is_normal_node (st : xstate) (n : N) : bool :=
  match val st n with Some v => is_normal v | None => false end.
