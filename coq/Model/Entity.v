(* Entity.v — model of src/entity.rs (and normalize_xml_id / normalize_line_ends of src/parse.rs): the character
   level of serialising and parsing.  Every function is a fold of a small state machine over the characters
   (Rust `char`s = Unicode scalar values), in the order the Rust loop reads them.  No proofs here. *)
From XotV Require Import Model.Base.
Open Scope N_scope.

(* character constants *)
Definition c_tab : cp := 9.   Definition c_lf : cp := 10.  Definition c_cr : cp := 13.  Definition c_space : cp := 32.
Definition c_quot : cp := 34. Definition c_hash : cp := 35. Definition c_amp : cp := 38.  Definition c_apos : cp := 39.
Definition c_semi : cp := 59. Definition c_lt : cp := 60.   Definition c_gt : cp := 62.   Definition c_rbr : cp := 93.
Definition c_x : cp := 120.

Definition s_amp : str := [38; 97; 109; 112; 59].          (* &amp; *)
Definition s_lt : str := [38; 108; 116; 59].                (* &lt; *)
Definition s_gt : str := [38; 103; 116; 59].                (* &gt; *)
Definition s_apos : str := [38; 97; 112; 111; 115; 59].     (* &apos; *)
Definition s_quot : str := [38; 113; 117; 111; 116; 59].    (* &quot; *)
Definition s_cr : str := [38; 35; 120; 68; 59].             (* &#xD; *)
Definition s_lf : str := [38; 35; 120; 65; 59].             (* &#xA; *)
Definition s_tab : str := [38; 35; 120; 57; 59].            (* &#x9; *)
Definition s_cdata_open : str := [60; 33; 91; 67; 68; 65; 84; 65; 91].   (* <![CDATA[ *)
Definition s_cdata_close : str := [93; 93; 62].                          (* ]]> *)
Definition s_cdata_split : str := [93; 93; 93; 93; 62; 60; 33; 91; 67; 68; 65; 84; 65; 91; 62].  (* ]]]]><![CDATA[> *)

(* https://www.w3.org/TR/xml/#charsets *)
Definition is_xml_char (c : cp) : bool :=
  (c =? 9) || (c =? 10) || (c =? 13) || ((32 <=? c) && (c <=? 55295)) || ((57344 <=? c) && (c <=? 65533))
  || ((65536 <=? c) && (c <=? 1114111)).

(* a Rust char: a Unicode scalar value *)
Definition is_scalar (c : cp) : bool := (c <=? 55295) || ((57344 <=? c) && (c <=? 1114111)).

(* ---------- serialize_text ---------- *)
(* [prev2] = the last two characters pushed to the result are both ']' *)
Fixpoint serialize_text_go (unescaped_gt : bool) (s : str) (last : bool) (last2 : bool) : str :=
  (* last = previous result char is ']'; last2 = the one before it is ']' too *)
  match s with
  | [] => []
  | c :: s' =>
      if c =? c_amp then s_amp ++ serialize_text_go unescaped_gt s' false false
      else if c =? c_lt then s_lt ++ serialize_text_go unescaped_gt s' false false
      else if c =? c_gt then
        if unescaped_gt then
          if last && last2 then s_gt ++ serialize_text_go unescaped_gt s' false false
          else c_gt :: serialize_text_go unescaped_gt s' false false
        else s_gt ++ serialize_text_go unescaped_gt s' false false
      else if c =? c_cr then s_cr ++ serialize_text_go unescaped_gt s' false false
      else c :: serialize_text_go unescaped_gt s' (c =? c_rbr) last
  end.

Definition serialize_text (unescaped_gt : bool) (s : str) : str := serialize_text_go unescaped_gt s false false.

(* ---------- serialize_attribute ---------- *)
Fixpoint serialize_attribute (s : str) : str :=
  match s with
  | [] => []
  | c :: s' =>
      (if c =? c_amp then s_amp
       else if c =? c_lt then s_lt
       else if c =? c_apos then s_apos
       else if c =? c_quot then s_quot
       else if c =? c_tab then s_tab
       else if c =? c_lf then s_lf
       else if c =? c_cr then s_cr
       else [c]) ++ serialize_attribute s'
  end.

(* ---------- serialize_cdata ---------- *)
Fixpoint rbrs (n : nat) : str := match n with O => [] | S k => c_rbr :: rbrs k end.

(* [seen] = closing_square_brackets_seen (0, 1 or 2): brackets read but not yet written *)
Fixpoint serialize_cdata_go (s : str) (seen : nat) : str :=
  match s with
  | [] => rbrs seen ++ s_cdata_close
  | c :: s' =>
      if c =? c_rbr then
        if Nat.ltb seen 2 then serialize_cdata_go s' (S seen)
        else c_rbr :: serialize_cdata_go s' 2
      else if c =? c_gt then
        if Nat.eqb seen 2 then s_cdata_split ++ serialize_cdata_go s' 0
        else rbrs seen ++ c_gt :: serialize_cdata_go s' 0
      else if c =? c_cr then
        (* a CR cannot be kept inside a section: close it, write the reference, open a new one *)
        rbrs seen ++ s_cdata_close ++ s_cr ++ s_cdata_open ++ serialize_cdata_go s' 0
      else rbrs seen ++ c :: serialize_cdata_go s' 0
  end.

Definition serialize_cdata (s : str) : str := s_cdata_open ++ serialize_cdata_go s 0.

(* ---------- parse_content ---------- *)
Inductive perr :=
| UnclosedEntity (name : str) (pos : N)
| InvalidEntity (name : str) (start stop : N).

(* UTF-8 length of a scalar value: positions are byte offsets *)
Definition utf8_len (c : cp) : N := if c <? 128 then 1 else if c <? 2048 then 2 else if c <? 65536 then 3 else 4.

Definition dec_digit (c : cp) : option N := if (48 <=? c) && (c <=? 57) then Some (c - 48) else None.
Definition hex_digit (c : cp) : option N :=
  if (48 <=? c) && (c <=? 57) then Some (c - 48)
  else if (97 <=? c) && (c <=? 102) then Some (c - 87)
  else if (65 <=? c) && (c <=? 70) then Some (c - 55)
  else None.

(* digits only, non-empty; the value saturates at 2^32 (u32::from_str_radix overflows to an error) *)
Fixpoint digits_value (radix : N) (digit : cp -> option N) (s : str) (acc : N) : option N :=
  match s with
  | [] => Some acc
  | c :: s' => match digit c with
               | Some d => let v := acc * radix + d in
                           if 4294967296 <=? v then None else digits_value radix digit s' v
               | None => None
               end
  end.

Definition char_of_reference (body : str) : option cp :=      (* body = the text between "&#" and ";" *)
  match body with
  | [] => None
  | c :: rest =>
      let code := if c =? c_x then match rest with [] => None | _ => digits_value 16 hex_digit rest 0 end
                  else digits_value 10 dec_digit body 0 in
      match code with
      | Some v => if is_scalar v && is_xml_char v then Some v else None
      | None => None
      end
  end.

Definition named_entity (name : str) : option cp :=
  if str_eqb name [97; 109; 112] then Some c_amp
  else if str_eqb name [97; 112; 111; 115] then Some c_apos
  else if str_eqb name [103; 116] then Some c_gt
  else if str_eqb name [108; 116] then Some c_lt
  else if str_eqb name [113; 117; 111; 116] then Some c_quot
  else None.

Inductive pstate :=
| PNormal
| PAfterCR                      (* a '\r' has been seen and its replacement already pushed: a following '\n' is dropped *)
| PEntity (start : N) (acc : str).   (* inside "&...": byte position of '&', characters collected so far *)

(* one character; [pos] = byte offset of [c] (relative to the content; base_position is added in errors) *)
Definition pstep (attribute : bool) (base : N) (st : pstate) (pos : N) (c : cp) : sum perr (pstate * str) :=
  match st with
  | PEntity start acc =>
      if c =? c_semi then
        let stop := pos + 1 in
        match acc with
        | h :: body =>
            if h =? c_hash then
              match char_of_reference body with
              | Some ch => inr (PNormal, [ch])
              | None => inl (InvalidEntity body (base + start) (base + stop))
              end
            else match named_entity acc with
                 | Some ch => inr (PNormal, [ch])
                 | None => inl (InvalidEntity acc (base + start) (base + stop))
                 end
        | [] => inl (InvalidEntity [] (base + start) (base + stop))
        end
      else inr (PEntity start (acc ++ [c]), [])
  | _ =>
      if (match st with PAfterCR => c =? c_lf | _ => false end) then inr (PNormal, [])
      else if c =? c_cr then inr (PAfterCR, [if attribute then c_space else c_lf])
      else if c =? c_amp then inr (PEntity pos [], [])
      else if attribute && ((c =? c_tab) || (c =? c_lf)) then inr (PNormal, [c_space])
      else inr (PNormal, [c])
  end.

Fixpoint parse_go (attribute : bool) (base : N) (s : str) (st : pstate) (pos : N) : sum perr str :=
  match s with
  | [] => match st with
          | PEntity start acc => inl (UnclosedEntity acc (base + start))
          | _ => inr []
          end
  | c :: s' =>
      match pstep attribute base st pos c with
      | inl e => inl e
      | inr (st', out) =>
          match parse_go attribute base s' st' (pos + utf8_len c) with
          | inl e => inl e
          | inr rest => inr (out ++ rest)
          end
      end
  end.

Definition parse_content (attribute : bool) (base : N) (s : str) : sum perr str := parse_go attribute base s PNormal 0.
Definition parse_text := parse_content false.
Definition parse_attribute := parse_content true.

(* ---------- normalize_line_ends (CDATA), normalize_xml_id ---------- *)
Fixpoint normalize_line_ends (s : str) : str :=
  match s with
  | [] => []
  | c :: s' =>
      if c =? c_cr then
        match s' with
        | d :: s'' => if d =? c_lf then c_lf :: normalize_line_ends s'' else c_lf :: normalize_line_ends s'
        | [] => [c_lf]
        end
      else c :: normalize_line_ends s'
  end.

Fixpoint drop_spaces (s : str) : str := match s with c :: s' => if c =? c_space then drop_spaces s' else s | [] => [] end.

(* collapse runs of spaces *)
Fixpoint collapse_spaces (s : str) (last_space : bool) : str :=
  match s with
  | [] => []
  | c :: s' => if c =? c_space then (if last_space then collapse_spaces s' true else c :: collapse_spaces s' true)
               else c :: collapse_spaces s' false
  end.

Definition normalize_xml_id (s : str) : str :=
  collapse_spaces (rev (drop_spaces (rev (drop_spaces s)))) false.
